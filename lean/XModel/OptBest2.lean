import XModel.Opt
import XModel.OptBest
import XModel.OptFix
import XModel.OptLimits
/-!
# C15, second part: the rows `take_best` chooses among are the rows of the model's own log

`OptBest.optStep_take_best` says where a normal return of `step(take_best=True)` ends *for a given index*.  Here the
index is tied to the log of the model: with `n` the log length when the call starts and `sl` the state the loop leaves,
the rows logged during the call are `rows = sl.log.drop n`; they start with the row `addPoint` logged (the knobs and
flags of the start state), and for **any** penalty assignment `pen : Row R → K` and any position `k` of a row of
minimal `pen` among `rows`, `optStep … (some (n + k))` ends either on the loop's state (tolerance flag set) or on the
knobs and flags of a row of `rows` whose `pen` is minimal, hence not above the start row's.  The instance
`k = Argmin.argmin (rows.map pen)` needs `Argmin.argmin_min`, which is proved over Mathlib's `LinearOrder`: it is in
`XProofs/OptBest2.lean`.

Also here: what each appended row records (`addPoint_ok`, `optIter_ok`, `reload_ok`, `optStep_log_ok`,
`optStep_log_truthful`).
-/
namespace Opt

variable {R : Type}

/-- the row that logging the state `s` appends: its container and both masks -/
def rowOf (s : St R) : Row R := ⟨s.knobs, s.vAct, s.tAct⟩

/-- the container after the evaluation `addPoint` makes when it has read the container `k` with active mask `va`:
    the weight round trip `k ↦ (k / w) * w` on the active knobs below `c.n`, the others untouched -/
def roundTrip (c : Cfg R) (va : Nat → Bool) (k : Nat → R) : Nat → R :=
  fun j => if j < c.n ∧ va j = true then c.mulW j (c.divW j (k j)) else k j

/-- a row that is the container and the masks of a coherent state: the user's function has been evaluated with
    success at exactly these knobs and target mask (`Coh.knobs`, `Coh.tact`, `Coh.flag`) -/
def EvalRow (c : Cfg R) (row : Row R) : Prop := ∃ t : St R, Coh c t ∧ rowOf t = row

/-- a row as `addPoint` logs it: the knobs *read*; the evaluation made when it was logged was at their round trip -/
def ReadRow (c : Cfg R) (row : Row R) : Prop :=
  ∃ t : St R, Coh c t ∧ rowOf t = ⟨roundTrip c row.vAct row.knobs, row.vAct, row.tAct⟩

theorem EvalRow.evaluated {c : Cfg R} {row : Row R} (h : EvalRow c row) :
    (∃ res, c.f row.knobs = some res) ∧
    ∃ x : Nat → R, ∀ i, i < c.n → row.vAct i = true → row.knobs i = c.mulW i (x i) := by
  obtain ⟨t, coh, rfl⟩ := h
  obtain ⟨res, hf, _⟩ := coh.flag
  exact ⟨⟨res, by simp only [rowOf]; rw [coh.knobs]; exact hf⟩, t.evalX, coh.img⟩

theorem ReadRow.evaluated {c : Cfg R} {row : Row R} (h : ReadRow c row) :
    ∃ res, c.f (roundTrip c row.vAct row.knobs) = some res := by
  obtain ⟨t, coh, ht⟩ := h
  obtain ⟨res, hf, _⟩ := coh.flag
  have hk : t.knobs = roundTrip c row.vAct row.knobs := congrArg Row.knobs ht
  exact ⟨res, by rw [← hk, coh.knobs]; exact hf⟩

/-- when the round trip is the identity on the row's active knobs, a read row is an evaluated row -/
theorem roundTrip_id (c : Cfg R) (va : Nat → Bool) (k : Nat → R)
    (hrt : ∀ j, j < c.n → va j = true → c.mulW j (c.divW j (k j)) = k j) : roundTrip c va k = k := by
  funext j
  unfold roundTrip
  by_cases hc : j < c.n ∧ va j = true
  · simp only [hc, and_self, if_true]; exact hrt j hc.1 hc.2
  · simp only [hc, if_false]

theorem ReadRow.evalRow {c : Cfg R} {row : Row R} (h : ReadRow c row)
    (hrt : ∀ j, j < c.n → row.vAct j = true → c.mulW j (c.divW j (row.knobs j)) = row.knobs j) : EvalRow c row := by
  obtain ⟨t, coh, ht⟩ := h
  rw [roundTrip_id c _ _ hrt] at ht
  exact ⟨t, coh, ht⟩

/-! ### what each logging operation appends -/

/-- the container after a successful merit call -/
theorem merit_ok_knobs (c : Cfg R) (check : Bool) (x : Nat → R) (s s' : St R)
    (h : merit c check x s = (.ok (), s')) :
    s'.knobs = fun j => if j < c.n ∧ s.vAct j = true then c.mulW j (x j) else s.knobs j := by
  simp only [merit, bind'] at h
  cases hw : writeKnobs c check x c.n s with
  | mk r s1 =>
    rw [hw] at h
    cases r with
    | error e => simp at h
    | ok u =>
      obtain ⟨_, _, _, _, h5, h6⟩ := writeKnobs_spec c check x c.n s s1 hw
      simp only at h
      cases hf : c.f s1.knobs with
      | none => simp [hf] at h
      | some res =>
        simp only [hf] at h
        cases h
        funext j
        by_cases hc : j < c.n ∧ s.vAct j = true
        · simp only [hc, and_self, if_true]; exact h5 j hc.1 hc.2
        · simp only [hc, if_false]
          apply h6
          by_cases hj : j < c.n
          · right
            cases ha : s.vAct j with
            | false => rfl
            | true => exact absurd ⟨hj, ha⟩ hc
          · left; omega

/-- **`add_point_to_log`**: the appended row is the container and masks *read at entry*; the state it leaves is
    coherent (container = container of the evaluation just made), and that container is the round trip of the row -/
theorem addPoint_ok (c : Cfg R) (s s1 : St R) (h : addPoint c s = (.ok (), s1)) :
    s1.log = s.log ++ [rowOf s] ∧ s1.vAct = s.vAct ∧ s1.tAct = s.tAct ∧ s1.solverX = s.solverX ∧
    Coh c s1 ∧ s1.knobs = roundTrip c s.vAct s.knobs := by
  have hc := addPoint_coh c s s1 h
  simp only [addPoint] at h
  cases hm : merit c true (extractX c s) s with
  | mk r s0 =>
    rw [hm] at h
    cases r with
    | error e => simp at h
    | ok u =>
      simp only at h
      cases h
      obtain ⟨_, _, hv, ht, hx, hl⟩ := merit_coh c true _ s s0 hm
      refine ⟨?_, hv, ht, hx, hc, ?_⟩
      · show s0.log ++ _ = _
        rw [hl]; rfl
      · show s0.knobs = _
        rw [merit_ok_knobs c true _ s s0 hm]; rfl

theorem addPoint_readRow (c : Cfg R) (s s1 : St R) (h : addPoint c s = (.ok (), s1)) : ReadRow c (rowOf s) := by
  obtain ⟨_, hv, ht, _, coh, hk⟩ := addPoint_ok c s s1 h
  refine ⟨s1, coh, ?_⟩
  simp only [rowOf, hv, ht, hk]

/-- **the start row against the evaluation made when it is logged**: the evaluated container (`evalKnobs`) is the
    round trip of the logged knobs; they are equal when the round trip is the identity on the active knobs -/
theorem addPoint_row_vs_eval (c : Cfg R) (s s1 : St R) (h : addPoint c s = (.ok (), s1)) :
    s1.evalKnobs = roundTrip c (rowOf s).vAct (rowOf s).knobs ∧ s1.evalTAct = (rowOf s).tAct ∧
    ((∀ j, j < c.n → s.vAct j = true → c.mulW j (c.divW j (s.knobs j)) = s.knobs j) →
      (rowOf s).knobs = s1.evalKnobs ∧ rowOf s = rowOf s1) := by
  obtain ⟨_, hv, ht, _, coh, hk⟩ := addPoint_ok c s s1 h
  refine ⟨by rw [← coh.knobs, hk]; rfl, by rw [← coh.tact, ht]; rfl, ?_⟩
  intro hrt
  have hid := roundTrip_id c s.vAct s.knobs hrt
  rw [hid] at hk
  refine ⟨by rw [← coh.knobs, hk]; rfl, ?_⟩
  simp only [rowOf, hv, ht, hk]

/-- **`reload(i)`**, normal return: the appended row is a copy of row `i`, the container is its round trip -/
theorem reload_ok (c : Cfg R) (i : Nat) (s s' : St R) (h : reload c i s = (.ok (), s')) :
    ∃ row, s.log[i]? = some row ∧ s'.log = s.log ++ [row] ∧ s'.vAct = row.vAct ∧ s'.tAct = row.tAct ∧
      Coh c s' ∧ s'.knobs = roundTrip c row.vAct row.knobs ∧ ReadRow c row := by
  simp only [reload] at h
  cases hl : s.log[i]? with
  | none => simp [hl] at h
  | some row =>
    simp only [hl] at h
    obtain ⟨a1, a2, a3, _, a5, a6⟩ := addPoint_ok c _ s' h
    have hr := addPoint_readRow c _ s' h
    exact ⟨row, rfl, a1, a2, a3, a5, a6, hr⟩

/-- **one iteration of the loop**: the appended row is the container and masks of the state it leaves — the moment
    of logging — and that state is coherent: the container is the one of the last completed evaluation -/
theorem optIter_ok (c : Cfg R) (resync early : Bool) (jac trials : List (Nat → R)) (last : Nat → R) (pe : Bool)
    (s s' : St R) (h : optIter c resync early jac trials last pe s = (.ok (), s')) :
    s'.log = s.log ++ [rowOf s'] ∧ s'.vAct = s.vAct ∧ s'.tAct = s.tAct ∧ Coh c s' := by
  have hc := optIter_coh c resync early jac trials last pe s s' h
  suffices fin : s'.log = s.log ++ [rowOf s'] ∧ s'.vAct = s.vAct ∧ s'.tAct = s.tAct from
    ⟨fin.1, fin.2.1, fin.2.2, hc⟩
  · simp only [optIter, bind'] at h
    generalize hs0 : (if resync = true then { s with solverX := extractX c s } else s) = s0 at h
    have e0 : s0.log = s.log ∧ s0.vAct = s.vAct ∧ s0.tAct = s.tAct := by
      subst hs0; cases resync <;> exact ⟨rfl, rfl, rfl⟩
    have key : ∀ s1, (s1.log = s0.log ∧ s1.vAct = s0.vAct ∧ s1.tAct = s0.tAct) →
        (match setKnobsFromX c s1 with
          | (Except.ok (), s2) => (Except.ok (), { s2 with log := s2.log ++ [⟨s2.knobs, s2.vAct, s2.tAct⟩] })
          | (Except.error e, s2) => (Except.error e, s2)) = (Except.ok (), s') →
        s'.log = s.log ++ [rowOf s'] ∧ s'.vAct = s.vAct ∧ s'.tAct = s.tAct := by
      intro s1 e1 h2
      simp only [setKnobsFromX] at h2
      cases h2
      refine ⟨?_, e1.2.1.trans e0.2.1, e1.2.2.trans e0.2.2⟩
      show s1.log ++ _ = s.log ++ _
      rw [e1.1, e0.1]; rfl
    cases early with
      | true =>
        simp only [if_true, solverStepEarly] at h
        cases h1 : merit c true s0.solverX s0 with
        | mk r1 s1 =>
          rw [h1] at h
          cases r1 with
          | error e => simp at h
          | ok u =>
            obtain ⟨_, _, m2, m3, _, m4⟩ := merit_coh c true _ s0 s1 h1
            exact key s1 ⟨m4, m2, m3⟩ h
      | false =>
        simp only [Bool.false_eq_true, if_false] at h
        cases h1 : solverStep c jac trials last pe s0 with
        | mk r1 s1 =>
          rw [h1] at h
          cases r1 with
          | error e => simp at h
          | ok u =>
            obtain ⟨_, m2, m3, m4⟩ := solverStep_sync c jac trials last pe s0 s1 h1
            exact key s1 ⟨m4, m2, m3⟩ h

/-- **the loop**: it appends one row per iteration run, each the container and masks of a coherent state, all with
    the masks of the entry state; the last one is the container and masks of the state the loop leaves -/
theorem optLoop_ok (c : Cfg R) (its : List (Iter R)) (s s' : St R) (h0 : Coh c s)
    (h : optLoop c its s = (.ok (), s')) :
    ∃ rows, s'.log = s.log ++ rows ∧ s'.vAct = s.vAct ∧ s'.tAct = s.tAct ∧ Coh c s' ∧
      (∀ r ∈ rows, EvalRow c r ∧ r.vAct = s.vAct ∧ r.tAct = s.tAct) ∧
      (rows = [] → s' = s) ∧ (rows ≠ [] → rows.getLast? = some (rowOf s')) ∧ rows.length ≤ its.length := by
  induction its generalizing s with
  | nil =>
    simp only [optLoop, pure'] at h
    cases h
    exact ⟨[], by simp, rfl, rfl, h0, by simp, fun _ => rfl, by simp, by simp⟩
  | cons it rest ih =>
    simp only [optLoop, bind'] at h
    cases h1 : optIter c it.resync it.early it.jac it.trials it.last it.pe s with
    | mk r1 s1 =>
      rw [h1] at h
      cases r1 with
      | error e => simp at h
      | ok u =>
        obtain ⟨l1, v1, t1, c1⟩ := optIter_ok c _ _ _ _ _ _ s s1 h1
        have hrow1 : EvalRow c (rowOf s1) ∧ (rowOf s1).vAct = s.vAct ∧ (rowOf s1).tAct = s.tAct :=
          ⟨⟨s1, c1, rfl⟩, v1, t1⟩
        simp only at h
        by_cases hw : s1.lastWithin = true
        · simp only [hw, if_true] at h
          have hs : s1 = s' := (Prod.mk.inj h).2
          subst hs
          refine ⟨[rowOf s1], l1, v1, t1, c1, ?_, by simp, by simp, by simp⟩
          intro r hr
          simp only [List.mem_singleton] at hr
          subst hr
          exact hrow1
        · simp only [hw] at h
          obtain ⟨rows, l2, v2, t2, c2, hr2, hnil, hlast, hlen⟩ := ih s1 c1 h
          refine ⟨rowOf s1 :: rows, ?_, v2.trans v1, t2.trans t1, c2, ?_, by simp, ?_, by simp; omega⟩
          · rw [l2, l1]; simp
          · intro r hr
            rcases List.mem_cons.mp hr with hr | hr
            · subst hr; exact hrow1
            · obtain ⟨a, b, d⟩ := hr2 r hr
              exact ⟨a, b.trans v1, d.trans t1⟩
          · intro _
            cases rows with
            | nil => rw [hnil rfl]; rfl
            | cons a as =>
              rw [List.getLast?_cons_cons]
              exact hlast (by simp)

/-- **the body of `step`** (start row, then the loop): the rows appended are the start row — the container and masks
    of the entry state — followed by one evaluated row per iteration run; all have the masks of the entry state -/
theorem optBody_ok (c : Cfg R) (its : List (Iter R)) (s sl : St R) (h : optBody c its s = (.ok (), sl)) :
    ∃ s1 iterRows, addPoint c s = (.ok (), s1) ∧ optLoop c its s1 = (.ok (), sl) ∧
      sl.log = s.log ++ rowOf s :: iterRows ∧ sl.vAct = s.vAct ∧ sl.tAct = s.tAct ∧ Coh c sl ∧
      ReadRow c (rowOf s) ∧
      (∀ r ∈ iterRows, EvalRow c r ∧ r.vAct = s.vAct ∧ r.tAct = s.tAct) ∧
      (iterRows = [] → sl = s1) ∧ (iterRows ≠ [] → iterRows.getLast? = some (rowOf sl)) ∧
      iterRows.length ≤ its.length := by
  unfold optBody at h
  simp only [bind'] at h
  cases ha : addPoint c s with
  | mk r1 s1 =>
    rw [ha] at h
    cases r1 with
    | error e => simp at h
    | ok u =>
      simp only at h
      obtain ⟨l1, v1, t1, _, c1, _⟩ := addPoint_ok c s s1 ha
      obtain ⟨rows, l2, v2, t2, c2, hr2, hnil, hlast, hlen⟩ := optLoop_ok c its s1 sl c1 h
      refine ⟨s1, rows, rfl, h, ?_, v2.trans v1, t2.trans t1, c2, addPoint_readRow c s s1 ha, ?_, hnil, hlast, hlen⟩
      · rw [l2, l1]; simp
      · intro r hr
        obtain ⟨a, b, d⟩ := hr2 r hr
        exact ⟨a, b.trans v1, d.trans t1⟩

/-- the rows logged during the call, as the brief states them: `sl.log.drop n` with `n` the entry log length -/
theorem optBody_rows (c : Cfg R) (its : List (Iter R)) (s sl : St R) (h : optBody c its s = (.ok (), sl)) :
    ∃ iterRows, sl.log.drop s.log.length = rowOf s :: iterRows ∧
      sl.log.length = s.log.length + (iterRows.length + 1) ∧
      (∀ r ∈ iterRows, EvalRow c r ∧ r.vAct = s.vAct ∧ r.tAct = s.tAct) := by
  obtain ⟨s1, iterRows, _, _, hl, _, _, _, _, hr, _, _, _⟩ := optBody_ok c its s sl h
  refine ⟨iterRows, ?_, ?_, hr⟩
  · rw [hl]; simp
  · rw [hl]; simp

/-! ### `step` in terms of its body -/

theorem optStep_of_body_some (c : Cfg R) (its : List (Iter R)) (i : Nat) (s sl : St R)
    (hb : optBody c its s = (.ok (), sl)) :
    optStep c its (some i) s = if sl.lastWithin = true then (.ok (), sl) else reload c i sl := by
  unfold optBody at hb
  simp only [optStep, bind'] at hb ⊢
  cases ha : addPoint c s with
  | mk r1 s1 =>
    rw [ha] at hb
    cases r1 with
    | error e => simp at hb
    | ok u =>
      simp only at hb ⊢
      rw [hb]

theorem optStep_of_body_none (c : Cfg R) (its : List (Iter R)) (s sl : St R)
    (hb : optBody c its s = (.ok (), sl)) : optStep c its none s = (.ok (), sl) := by
  unfold optBody at hb
  simp only [optStep, bind'] at hb ⊢
  cases ha : addPoint c s with
  | mk r1 s1 =>
    rw [ha] at hb
    cases r1 with
    | error e => simp at hb
    | ok u =>
      simp only at hb ⊢
      rw [hb]

theorem optStep_of_body_error (c : Cfg R) (its : List (Iter R)) (tb : Option Nat) (s sl : St R) (e : Err)
    (hb : optBody c its s = (.error e, sl)) : optStep c its tb s = (.error e, sl) := by
  unfold optBody at hb
  simp only [optStep, bind'] at hb ⊢
  cases ha : addPoint c s with
  | mk r1 s1 =>
    rw [ha] at hb
    cases r1 with
    | error e1 => simp only at hb ⊢; exact hb
    | ok u =>
      simp only at hb ⊢
      rw [hb]

/-! ### (1) the rows logged during the call start with the start row -/

/-- **(1)** with `n` the entry log length, `rows = sl.log.drop n` is not empty and its head is the row `addPoint`
    logged: the knobs and both masks of the entry state -/
theorem optBody_rows_head (c : Cfg R) (its : List (Iter R)) (s sl : St R) (h : optBody c its s = (.ok (), sl)) :
    sl.log.drop s.log.length ≠ [] ∧ (sl.log.drop s.log.length).head? = some (rowOf s) ∧
    (rowOf s).knobs = s.knobs ∧ (rowOf s).vAct = s.vAct ∧ (rowOf s).tAct = s.tAct ∧
    rowOf s ∈ sl.log.drop s.log.length ∧
    ∀ r ∈ sl.log.drop s.log.length, r.vAct = s.vAct ∧ r.tAct = s.tAct := by
  obtain ⟨iterRows, hd, _, hr⟩ := optBody_rows c its s sl h
  rw [hd]
  refine ⟨by simp, rfl, rfl, rfl, rfl, by simp, ?_⟩
  intro r hr'
  rcases List.mem_cons.mp hr' with e | hm
  · subst e; exact ⟨rfl, rfl⟩
  · exact (hr r hm).2

/-! ### (3) the index handed to `take_best` points into the rows of this call -/

/-- **(3)** a position `k` of `rows = sl.log.drop n` gives a log index `n + k` with `n ≤ n + k < sl.log.length`, and it
    is that row which `reload (n + k)` finds in the log -/
theorem take_best_index_bounds (n k : Nat) (log : List (Row R)) (r : Row R) (hk : (log.drop n)[k]? = some r) :
    n ≤ n + k ∧ n + k < log.length ∧ log[n + k]? = some r := by
  rw [List.getElem?_drop] at hk
  refine ⟨Nat.le_add_right n k, ?_, hk⟩
  exact (List.getElem?_eq_some_iff.mp hk).1

/-- the hypothesis `htb` of `optStep_disabled_fixed` and `optStep_rows_within_limits` for such an index -/
theorem take_best_htb (n k : Nat) : ∀ i, some (n + k) = some i → n ≤ i := by
  intro i hi
  cases hi
  exact Nat.le_add_right n k

/-! ### (2) where `step(take_best=True)` ends, on the rows of the model's log -/

/-- **(2), order-free form.**  `pen` is an arbitrary penalty assignment to rows; `k` is a position in the rows logged
    during the call (`rows = sl.log.drop n`) whose row `r` has minimal `pen` among them.  A normal return of
    `optStep … (some (n + k))` ends either on the loop's state with the tolerance flag set, or on `r`: the masks are
    `r`'s (which are the entry masks), the container is the round trip of `r`'s knobs (so each knob is `r`'s value or
    its image under `mulW ∘ divW`), a copy of `r` has been appended to the log, and `pen r` is not above the `pen` of
    any row of the call — in particular of the start row `rowOf s`. -/
theorem optStep_take_best_of_min {K : Type} [LE K] (pen : Row R → K) (c : Cfg R) (its : List (Iter R))
    (s sl s' : St R) (k : Nat) (r : Row R)
    (hb : optBody c its s = (.ok (), sl))
    (hk : (sl.log.drop s.log.length)[k]? = some r)
    (hmin : ∀ r' ∈ sl.log.drop s.log.length, pen r ≤ pen r')
    (h : optStep c its (some (s.log.length + k)) s = (.ok (), s')) :
    (sl.lastWithin = true ∧ s' = sl) ∨
    (sl.lastWithin = false ∧ r ∈ sl.log.drop s.log.length ∧
      s'.vAct = r.vAct ∧ s'.tAct = r.tAct ∧ r.vAct = s.vAct ∧ r.tAct = s.tAct ∧
      s'.knobs = roundTrip c r.vAct r.knobs ∧
      (∀ j, s'.knobs j = r.knobs j ∨ s'.knobs j = c.mulW j (c.divW j (r.knobs j))) ∧
      s'.log = sl.log ++ [r] ∧ Coh c s' ∧
      (∀ r' ∈ sl.log.drop s.log.length, pen r ≤ pen r') ∧ pen r ≤ pen (rowOf s)) := by
  rw [optStep_of_body_some c its _ s sl hb] at h
  by_cases hw : sl.lastWithin = true
  · rw [if_pos hw] at h
    exact Or.inl ⟨hw, ((Prod.mk.inj h).2).symm⟩
  · rw [if_neg hw] at h
    have hw' : sl.lastWithin = false := by simpa using hw
    obtain ⟨_, _, hlog⟩ := take_best_index_bounds s.log.length k sl.log r hk
    obtain ⟨row, hrow, hl, hv, ht, coh, hkn, _⟩ := reload_ok c _ sl s' h
    rw [hlog] at hrow
    cases hrow
    have hmem : r ∈ sl.log.drop s.log.length := List.mem_of_getElem? hk
    obtain ⟨_, _, _, _, _, hstart, hflags⟩ := optBody_rows_head c its s sl hb
    refine Or.inr ⟨hw', hmem, hv, ht, (hflags r hmem).1, (hflags r hmem).2, hkn, ?_, hl, coh, hmin,
      hmin _ hstart⟩
    intro j
    rw [hkn]
    unfold roundTrip
    by_cases hc : j < c.n ∧ r.vAct j = true
    · right; simp only [hc, and_self, if_true]
    · left; simp only [hc, if_false]

/-- **(3) applied**: with such an index `optStep_disabled_fixed` holds without further hypothesis on `take_best` -/
theorem optStep_take_best_disabled_fixed (c : Cfg R) (its : List (Iter R)) (k j : Nat) (s s' : St R)
    (r : Except Err Unit) (hj : s.vAct j = false)
    (h : optStep c its (some (s.log.length + k)) s = (r, s')) :
    s'.knobs j = s.knobs j ∧ s'.vAct j = false ∧
    ∀ i row, s.log.length ≤ i → s'.log[i]? = some row → row.knobs j = s.knobs j ∧ row.vAct j = false :=
  optStep_disabled_fixed c its _ j s s' r hj (take_best_htb _ k) h

/-- **(3) applied**: and so does `optStep_rows_within_limits` -/
theorem optStep_take_best_rows_within_limits (c : Cfg R) (its : List (Iter R)) (k : Nat) (s s' : St R)
    (r : Except Err Unit)
    (hstart : ∀ j, j < c.n → s.vAct j = true → c.inLimits j (s.knobs j) = true)
    (h : optStep c its (some (s.log.length + k)) s = (r, s')) :
    s'.vAct = s.vAct ∧
    (∀ i row, s.log.length ≤ i → s'.log[i]? = some row →
      row.vAct = s.vAct ∧ ∀ j, j < c.n → row.vAct j = true → c.inLimits j (row.knobs j) = true) ∧
    (r = .ok () → ∀ j, j < c.n → s'.vAct j = true → c.inLimits j (s'.knobs j) = true) :=
  optStep_rows_within_limits c its _ s s' r hstart (take_best_htb _ k) h

/-! ### the truthful log: what the rows appended by `step` record -/

/-- **normal return**: the rows appended by `optStep` are the start row (a read row: container and masks of the
    entry state, evaluated at its round trip), one evaluated row per iteration run (container and masks of the
    coherent state the iteration leaves), and — when `take_best` reloads — a copy of the reloaded row, the container
    then being that row's round trip. -/
theorem optStep_log_ok (c : Cfg R) (its : List (Iter R)) (tb : Option Nat) (s s' : St R)
    (h : optStep c its tb s = (.ok (), s')) :
    ∃ sl iterRows, optBody c its s = (.ok (), sl) ∧ sl.log = s.log ++ rowOf s :: iterRows ∧
      ReadRow c (rowOf s) ∧ (∀ r ∈ iterRows, EvalRow c r ∧ r.vAct = s.vAct ∧ r.tAct = s.tAct) ∧
      (iterRows ≠ [] → iterRows.getLast? = some (rowOf sl)) ∧ Coh c s' ∧
      (s' = sl ∨
       ∃ i row, tb = some i ∧ sl.lastWithin = false ∧ sl.log[i]? = some row ∧ s'.log = sl.log ++ [row] ∧
         ReadRow c row ∧ rowOf s' = ⟨roundTrip c row.vAct row.knobs, row.vAct, row.tAct⟩) := by
  have hcoh := optStep_coh c its tb s s' h
  cases tb with
  | none =>
    have hb := optStep_no_take_best c its s s' h
    obtain ⟨_, iterRows, _, _, hl, _, _, _, hr0, hr, _, hlast, _⟩ := optBody_ok c its s s' hb
    exact ⟨s', iterRows, hb, hl, hr0, hr, hlast, hcoh, Or.inl rfl⟩
  | some i =>
    obtain ⟨sl, hb, _⟩ := optStep_take_best c its i s s' h
    obtain ⟨_, iterRows, _, _, hl, _, _, _, hr0, hr, _, hlast, _⟩ := optBody_ok c its s sl hb
    refine ⟨sl, iterRows, hb, hl, hr0, hr, hlast, hcoh, ?_⟩
    rw [optStep_of_body_some c its i s sl hb] at h
    by_cases hw : sl.lastWithin = true
    · rw [if_pos hw] at h
      exact Or.inl ((Prod.mk.inj h).2).symm
    · rw [if_neg hw] at h
      have hw' : sl.lastWithin = false := by simpa using hw
      obtain ⟨row, hrow, hl', hv, ht, _, hkn, hrr⟩ := reload_ok c i sl s' h
      refine Or.inr ⟨i, row, rfl, hw', hrow, hl', hrr, ?_⟩
      simp only [rowOf, hv, ht, hkn]

/-- an operation that leaves the log alone, whatever its outcome -/
def NoLog {α : Type} (m : M R α) : Prop := ∀ s r s', m s = (r, s') → s'.log = s.log

theorem NoLog.bind {α β : Type} {m : M R α} {k : α → M R β} (hm : NoLog m) (hk : ∀ a, NoLog (k a)) :
    NoLog (bind' m k) := by
  intro s r s' h
  simp only [bind'] at h
  cases hms : m s with
  | mk r1 s1 =>
    rw [hms] at h
    have e1 := hm s r1 s1 hms
    cases r1 with
    | error e => simp only at h; cases h; exact e1
    | ok a => simp only at h; exact (hk a s1 r s' h).trans e1

theorem NoLog_merit (c : Cfg R) (check : Bool) (x : Nat → R) : NoLog (merit c check x) :=
  fun s r s' h => (merit_frame c check x s r s' h).2.2.1

theorem NoLog_meritAll (c : Cfg R) (check : Bool) : ∀ xs : List (Nat → R), NoLog (meritAll c check xs)
  | [] => fun s r s' h => by simp only [meritAll, pure'] at h; cases h; rfl
  | x :: xs => NoLog.bind (NoLog_merit c check x) (fun _ => NoLog_meritAll c check xs)

theorem NoLog_solverStep (c : Cfg R) (jac trials : List (Nat → R)) (last : Nat → R) (pe : Bool) :
    NoLog (solverStep c jac trials last pe) := by
  intro s r s' h
  simp only [solverStep] at h
  refine NoLog.bind (NoLog_merit c true s.solverX) (fun _ =>
    NoLog.bind (NoLog_meritAll c false jac) (fun _ =>
    NoLog.bind (NoLog_meritAll c true trials) (fun _ =>
    NoLog.bind (NoLog_merit c true last) (fun _ => ?_)))) s r s' h
  cases pe with
  | true =>
    simp only [if_true]
    exact NoLog.bind (NoLog_merit c true s.solverX) (fun _ => fun s2 r2 s2' h2 => by
      simp only [raise] at h2; cases h2; rfl)
  | false =>
    simp only [Bool.false_eq_true, if_false]
    intro s2 r2 s2' h2; cases h2; rfl

/-- an operation that appends to the log only on normal return -/
def LogOnOk {α : Type} (m : M R α) : Prop := ∀ s r s', m s = (r, s') → s'.log = s.log ∨ ∃ a, r = .ok a

theorem LogOnOk.bind_noLog {α β : Type} {m : M R α} {k : α → M R β} (hm : NoLog m) (hk : ∀ a, LogOnOk (k a)) :
    LogOnOk (bind' m k) := by
  intro s r s' h
  simp only [bind'] at h
  cases hms : m s with
  | mk r1 s1 =>
    rw [hms] at h
    have e1 := hm s r1 s1 hms
    cases r1 with
    | error e => simp only at h; cases h; exact Or.inl e1
    | ok a =>
      simp only at h
      rcases hk a s1 r s' h with e2 | e2
      · exact Or.inl (e2.trans e1)
      · exact Or.inr e2

theorem LogOnOk_optIter (c : Cfg R) (resync early : Bool) (jac trials : List (Nat → R)) (last : Nat → R) (pe : Bool) :
    LogOnOk (optIter c resync early jac trials last pe) := by
  unfold optIter
  refine LogOnOk.bind_noLog ?_ (fun _ => LogOnOk.bind_noLog ?_ (fun _ => LogOnOk.bind_noLog ?_ (fun _ => ?_)))
  · intro s r s' h; cases h; cases resync <;> rfl
  · cases early with
    | true => simp only [if_true]; intro s r s' h; exact NoLog_merit c true s.solverX s r s' h
    | false => simp only [Bool.false_eq_true, if_false]; exact NoLog_solverStep c jac trials last pe
  · intro s r s' h; simp only [setKnobsFromX] at h; cases h; rfl
  · intro s r s' h; cases h; exact Or.inr ⟨(), rfl⟩

theorem LogOnOk_addPoint (c : Cfg R) : LogOnOk (addPoint c) := by
  intro s r s' h
  cases r with
  | ok a => exact Or.inr ⟨a, rfl⟩
  | error e =>
    left
    simp only [addPoint] at h
    cases hm : merit c true (extractX c s) s with
    | mk r1 s1 =>
      rw [hm] at h
      have hl := NoLog_merit c true _ s r1 s1 hm
      cases r1 with
      | error e1 => simp only at h; cases h; exact hl
      | ok u => simp at h

/-- a row of the log is *truthful*: it is the container and masks of a completed evaluation (`EvalRow`), or the
    container and masks read by `add_point_to_log`, evaluated at their weight round trip (`ReadRow`) -/
def Truthful (c : Cfg R) (row : Row R) : Prop := EvalRow c row ∨ ReadRow c row

/-- whatever its outcome, the operation only appends truthful rows -/
def TM (c : Cfg R) {α : Type} (m : M R α) : Prop :=
  ∀ s r s', m s = (r, s') → ∃ suf, s'.log = s.log ++ suf ∧ ∀ row ∈ suf, Truthful c row

theorem TM.bind {c : Cfg R} {α β : Type} {m : M R α} {k : α → M R β} (hm : TM c m) (hk : ∀ a, TM c (k a)) :
    TM c (bind' m k) := by
  intro s r s' h
  simp only [bind'] at h
  cases hms : m s with
  | mk r1 s1 =>
    rw [hms] at h
    obtain ⟨suf1, e1, t1⟩ := hm s r1 s1 hms
    cases r1 with
    | error e => simp only at h; cases h; exact ⟨suf1, e1, t1⟩
    | ok a =>
      simp only at h
      obtain ⟨suf2, e2, t2⟩ := hk a s1 r s' h
      refine ⟨suf1 ++ suf2, by rw [e2, e1, List.append_assoc], ?_⟩
      intro row hrow
      rcases List.mem_append.mp hrow with hr | hr
      · exact t1 row hr
      · exact t2 row hr

theorem TM_of_eq {c : Cfg R} {s s' : St R} (h : s'.log = s.log) :
    ∃ suf, s'.log = s.log ++ suf ∧ ∀ row ∈ suf, Truthful c row :=
  ⟨[], by simp [h], by simp⟩

theorem TM_addPoint (c : Cfg R) : TM c (addPoint c) := by
  intro s r s' h
  rcases LogOnOk_addPoint c s r s' h with e | ⟨a, rfl⟩
  · exact TM_of_eq e
  · refine ⟨[rowOf s], (addPoint_ok c s s' h).1, ?_⟩
    intro row hrow
    simp only [List.mem_singleton] at hrow
    subst hrow
    exact Or.inr (addPoint_readRow c s s' h)

theorem TM_reload (c : Cfg R) (i : Nat) : TM c (reload c i) := by
  intro s r s' h
  simp only [reload] at h
  cases hl : s.log[i]? with
  | none => simp only [hl] at h; cases h; exact TM_of_eq rfl
  | some row =>
    simp only [hl] at h
    have key := TM_addPoint c _ r s' h
    exact key

theorem TM_optIter (c : Cfg R) (resync early : Bool) (jac trials : List (Nat → R)) (last : Nat → R) (pe : Bool) :
    TM c (optIter c resync early jac trials last pe) := by
  intro s r s' h
  rcases LogOnOk_optIter c resync early jac trials last pe s r s' h with e | ⟨a, rfl⟩
  · exact TM_of_eq e
  · obtain ⟨l1, _, _, c1⟩ := optIter_ok c _ _ _ _ _ _ s s' h
    refine ⟨[rowOf s'], l1, ?_⟩
    intro row hrow
    simp only [List.mem_singleton] at hrow
    subst hrow
    exact Or.inl ⟨s', c1, rfl⟩

theorem TM_optLoop (c : Cfg R) : ∀ its : List (Iter R), TM c (optLoop c its)
  | [] => fun s r s' h => by simp only [optLoop, pure'] at h; cases h; exact TM_of_eq rfl
  | it :: rest => by
    simp only [optLoop]
    refine TM.bind (TM_optIter c _ _ _ _ _ _) (fun _ => ?_)
    intro s r s' h
    by_cases hw : s.lastWithin = true
    · simp only [hw, if_true] at h; cases h; exact TM_of_eq rfl
    · simp only [hw] at h
      exact TM_optLoop c rest s r s' h

/-- **the log is truthful, whatever the outcome** (normal return or any exception, any `take_best` index): every row
    `optStep` appends is the container and masks of a completed evaluation of the user's function, or the container
    and masks `add_point_to_log` read, the evaluation made at that moment being at their weight round trip -/
theorem optStep_log_truthful (c : Cfg R) (its : List (Iter R)) (tb : Option Nat) (s s' : St R)
    (r : Except Err Unit) (h : optStep c its tb s = (r, s')) :
    ∃ suf, s'.log = s.log ++ suf ∧ ∀ row ∈ suf, Truthful c row := by
  have htm : TM c (optStep c its tb) := by
    unfold optStep
    refine TM.bind (TM_addPoint c) (fun _ => TM.bind (TM_optLoop c its) (fun _ => ?_))
    intro s1 r1 s1' h1
    cases tb with
    | none => simp only at h1; cases h1; exact TM_of_eq rfl
    | some i =>
      simp only at h1
      by_cases hw : s1.lastWithin = true
      · simp only [hw, if_true] at h1; cases h1; exact TM_of_eq rfl
      · simp only [hw] at h1
        exact TM_reload c i s1 r1 s1' h1
  exact htm s r s' h

/-- a truthful row whose weights round-trip on its active knobs records knobs at which the user's function was
    evaluated with success -/
theorem Truthful.evaluated {c : Cfg R} {row : Row R} (h : Truthful c row)
    (hrt : ∀ j, j < c.n → row.vAct j = true → c.mulW j (c.divW j (row.knobs j)) = row.knobs j) :
    ∃ res, c.f row.knobs = some res := by
  rcases h with h | h
  · exact h.evaluated.1
  · exact (h.evalRow hrt).evaluated.1

/-! ### concrete runs -/
namespace BestExample

/-- one knob with weight 2 in integer arithmetic: `x ↦ 2 * x`, `k ↦ k / 2` (rounded): the round trip of an odd knob
    value is not the identity.  The user's function always succeeds, the tolerance is never met. -/
def cfg : Cfg Int where
  n := 1
  mulW := fun _ x => 2 * x
  divW := fun _ k => k / 2
  inLimits := fun _ _ => true
  f := fun k => some k
  within := fun _ _ => false
  assertWithinTol := false
  restoreIfFail := false

/-- the same with the tolerance always met -/
def cfgW : Cfg Int := { cfg with within := fun _ _ => true }

def oldRow : Row Int := ⟨fun _ => 100, fun _ => true, fun _ => true⟩

/-- the container holds 3 (odd); one older row in the log, so the rows of the call start at log position 1 -/
def s0 : St Int where
  knobs := fun _ => 3
  vAct := fun _ => true
  tAct := fun _ => true
  solverX := fun _ => 0
  lastWithin := false
  log := [oldRow]
  evalX := fun _ => 0
  evalKnobs := fun _ => 0
  evalTAct := fun _ => true

/-- an iteration whose solver step accepts the point `x` -/
def itTo (x : Int) : Iter Int := ⟨true, false, [], [], fun _ => x, false⟩

def isOk (r : Except Err Unit) : Bool := match r with | .ok _ => true | .error _ => false

theorem ok_eta (p : Except Err Unit × St Int) (h : isOk p.1 = true) : p = (.ok (), p.2) := by
  obtain ⟨r, s⟩ := p
  cases r with
  | error e => simp [isOk] at h
  | ok u => rfl

/-- a penalty on rows: squared distance of knob 0 to 9 -/
def pen (r : Row Int) : Int := (r.knobs 0 - 9) * (r.knobs 0 - 9)

/-- **the start row is not the evaluated point** when the weights do not round-trip: `addPoint` logs the knob it read
    (3) while the evaluation it makes — the one whose outcome sets the tolerance flag — is at `2 * (3 / 2) = 2`,
    which is also what the container holds afterwards -/
example : isOk (addPoint cfg s0).1 = true ∧
    (addPoint cfg s0).2.log.map (fun r => r.knobs 0) = [100, 3] ∧ (rowOf s0).knobs 0 = 3 ∧
    (addPoint cfg s0).2.evalKnobs 0 = 2 ∧ (addPoint cfg s0).2.knobs 0 = 2 ∧
    roundTrip cfg s0.vAct s0.knobs 0 = 2 := by
  decide +kernel

/-- run A: two iterations, to the containers 10 and 2.  The rows of the call record 3, 10, 2 -/
def itsA : List (Iter Int) := [itTo 5, itTo 1]
def slA : St Int := (optBody cfg itsA s0).2
def rowsA : List (Row Int) := slA.log.drop s0.log.length
def rA : Row Int := (rowsA[1]?).getD (rowOf s0)
def endA : St Int := (optStep cfg itsA (some (s0.log.length + 1)) s0).2

theorem hbA : optBody cfg itsA s0 = (.ok (), slA) := ok_eta _ (by decide +kernel)
theorem hkA : (slA.log.drop s0.log.length)[1]? = some rA := by
  have h : (rowsA[1]?).isSome = true := by decide +kernel
  show rowsA[1]? = some ((rowsA[1]?).getD (rowOf s0))
  cases hr : rowsA[1]? with
  | none => rw [hr] at h; cases h
  | some r => rfl
theorem hminA : ∀ r' ∈ slA.log.drop s0.log.length, pen rA ≤ pen r' := by
  have h : rowsA.all (fun r' => decide (pen rA ≤ pen r')) = true := by decide +kernel
  intro r' hr'
  exact of_decide_eq_true (List.all_eq_true.mp h r' hr')
theorem hA : optStep cfg itsA (some (s0.log.length + 1)) s0 = (.ok (), endA) := ok_eta _ (by decide +kernel)

/-- the hypotheses of `optStep_take_best_of_min` hold in run A (position 1 — the middle row — has the least `pen`),
    the tolerance flag is off, so the call ends on that row: -/
example : endA.knobs = roundTrip cfg rA.vAct rA.knobs ∧ endA.log = slA.log ++ [rA] ∧ pen rA ≤ pen (rowOf s0) := by
  rcases optStep_take_best_of_min pen cfg itsA s0 slA endA 1 rA hbA hkA hminA hA with ⟨hw, _⟩ | ⟨_, _, _, _, _, _, h1, _, h2, _, _, h3⟩
  · exact absurd hw (by decide +kernel)
  · exact ⟨h1, h2, h3⟩

/-- what it computes: the rows, their penalties, the reloaded container, the copy of the row appended -/
example : rowsA.map (fun r => r.knobs 0) = [3, 10, 2] ∧ rowsA.map pen = [36, 1, 49] ∧ pen (rowOf s0) = 36 ∧
    rA.knobs 0 = 10 ∧ endA.knobs 0 = 10 ∧ endA.log.map (fun r => r.knobs 0) = [100, 3, 10, 2, 10] := by
  decide +kernel

/-- run B: one iteration, to the container 2, worse than the start row; position 0 — the start row — is best -/
def itsB : List (Iter Int) := [itTo 1]
def slB : St Int := (optBody cfg itsB s0).2
def rowsB : List (Row Int) := slB.log.drop s0.log.length
def endB : St Int := (optStep cfg itsB (some (s0.log.length + 0)) s0).2

theorem hbB : optBody cfg itsB s0 = (.ok (), slB) := ok_eta _ (by decide +kernel)
theorem hkB : (slB.log.drop s0.log.length)[0]? = some (rowOf s0) := by
  rw [← List.head?_eq_getElem?]
  exact (optBody_rows_head cfg itsB s0 slB hbB).2.1
theorem hminB : ∀ r' ∈ slB.log.drop s0.log.length, pen (rowOf s0) ≤ pen r' := by
  have h : rowsB.all (fun r' => decide (pen (rowOf s0) ≤ pen r')) = true := by decide +kernel
  intro r' hr'
  exact of_decide_eq_true (List.all_eq_true.mp h r' hr')
theorem hB : optStep cfg itsB (some (s0.log.length + 0)) s0 = (.ok (), endB) := ok_eta _ (by decide +kernel)

/-- **the `mulW ∘ divW` alternative is needed, and the guarantee is on the recorded row, not on the container**: run B
    reloads the start row, which records the knob 3; the container ends at its round trip 2.  Had the penalty been
    read off the container, it would be 49, above the start row's 36. -/
example : endB.knobs = roundTrip cfg (rowOf s0).vAct (rowOf s0).knobs ∧
    rowsB.map (fun r => r.knobs 0) = [3, 2] ∧ rowsB.map pen = [36, 49] ∧
    endB.knobs 0 = 2 ∧ (rowOf s0).knobs 0 = 3 ∧ cfg.mulW 0 (cfg.divW 0 3) = 2 ∧
    pen (rowOf endB) = 49 ∧ endB.log.map (fun r => r.knobs 0) = [100, 3, 2, 3] := by
  refine ⟨?_, by decide +kernel⟩
  rcases optStep_take_best_of_min pen cfg itsB s0 slB endB 0 (rowOf s0) hbB hkB hminB hB with ⟨hw, _⟩ | ⟨_, _, _, _, _, _, h1, _⟩
  · exact absurd hw (by decide +kernel)
  · exact h1

/-- run W: the tolerance is met after the first iteration; the call ends on the loop's state, nothing is reloaded -/
example : isOk (optStep cfgW itsA (some (s0.log.length + 0)) s0).1 = true ∧
    (optBody cfgW itsA s0).2.lastWithin = true ∧
    (optStep cfgW itsA (some (s0.log.length + 0)) s0).2.knobs 0 = 10 ∧
    (optStep cfgW itsA (some (s0.log.length + 0)) s0).2.log.map (fun r => r.knobs 0) = [100, 3, 10] := by
  decide +kernel

/-- the truthful-log theorem applies to run A (its hypothesis is the run itself) -/
example : ∃ suf, endA.log = s0.log ++ suf ∧ ∀ row ∈ suf, Truthful cfg row :=
  optStep_log_truthful cfg itsA _ s0 endA (.ok ()) hA

end BestExample

end Opt

#print axioms Opt.optBody_rows_head
#print axioms Opt.optStep_take_best_of_min
#print axioms Opt.take_best_index_bounds
#print axioms Opt.optStep_log_ok
#print axioms Opt.optStep_log_truthful
#print axioms Opt.addPoint_row_vs_eval
