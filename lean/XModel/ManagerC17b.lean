import XModel.ManagerC17
import XModel.ManagerLoad
/-!
# C17: which `load` calls a frozen manager rejects, said without running `load`

`rejectedB` (ManagerC17.lean) says for `.load ow pairs`: "rejected iff the model's `load` on the frozen state errors" —
circular as a description.  Here the explicit condition: a frozen manager rejects `load(dump, overwrite)` exactly when
some pair would register something, i.e. `overwrite` is set and the dump is non-empty, or some target has no
definition yet.  (Pairs whose target is defined are skipped by `overwrite=False`, and skipping changes nothing.)
`rejectedExplB` is `rejectedB` with this condition in place; the C17 "frozen call" theorem is restated with it.
Also: `copy_expr_from` into a frozen manager (it ends in `load`).
-/
namespace Manager
open Store Push Index

/-- the pairs of a dump that make a frozen manager raise: with `overwrite` every pair, without it the pairs whose
    target has no definition -/
def loadTouches (defs : List MTask) (ow : Bool) (pairs : List (Path × Expr)) : Bool :=
  pairs.any (fun pe => ow || (lookDef defs pe.1).isNone)

/-- **a frozen manager's `load` errors exactly when some pair would (re)register a definition** -/
theorem load_frozen_rejected_iff (sf : MState) (ow : Bool) (h : sf.frozen = true) :
    ∀ pairs : List (Path × Expr), (load sf ow pairs).2.isSome = loadTouches sf.defs ow pairs := by
  intro pairs
  induction pairs with
  | nil => rfl
  | cons pe rest ih =>
    obtain ⟨p, e⟩ := pe
    simp only [load, loadTouches, List.any_cons]
    cases hl : lookDef sf.defs p with
    | some t =>
      cases ow with
      | true => simp [unregister_frozen sf p h]
      | false => simpa [loadTouches] using ih
    | none => simp [register_frozen sf _ h]

/-- the same as an equivalence of propositions, with the outcome spelled out -/
theorem load_frozen_outcome (sf : MState) (ow : Bool) (h : sf.frozen = true) (pairs : List (Path × Expr)) :
    load sf ow pairs = (sf, if loadTouches sf.defs ow pairs then some .valueError else none) := by
  have h1 := load_frozen sf ow h pairs
  have h2 := load_frozen_rejected_iff sf ow h pairs
  refine Prod.ext h1.1 ?_
  rcases h1.2 with h3 | h3
  · rw [h3] at h2 ⊢
    simp only [Option.isSome_some] at h2
    simp [← h2]
  · rw [h3] at h2 ⊢
    simp only [Option.isSome_none] at h2
    simp [← h2]

theorem load_frozen_error_iff (sf : MState) (ow : Bool) (h : sf.frozen = true) (pairs : List (Path × Expr)) :
    (load sf ow pairs).2 = some .valueError ↔ ∃ pe ∈ pairs, ow = true ∨ lookDef sf.defs pe.1 = none := by
  rw [load_frozen_outcome sf ow h pairs]
  unfold loadTouches
  constructor
  · intro hx
    split at hx
    · next hany =>
      obtain ⟨pe, hpe, hc⟩ := List.any_eq_true.mp hany
      refine ⟨pe, hpe, ?_⟩
      simpa [Option.isNone_iff_eq_none] using hc
    · cases hx
  · rintro ⟨pe, hpe, hc⟩
    have : (pairs.any fun pe => ow || (lookDef sf.defs pe.1).isNone) = true :=
      List.any_eq_true.mpr ⟨pe, hpe, by simpa [Option.isNone_iff_eq_none] using hc⟩
    simp [this]

/-- `rejectedB` with the explicit condition for `load` -/
def rejectedExplB (sf : MState) : Call → Bool
  | .load ow pairs => loadTouches sf.defs ow pairs
  | c => rejectedB sf c

theorem rejectedExplB_eq (sf : MState) (h : sf.frozen = true) (c : Call) : rejectedExplB sf c = rejectedB sf c := by
  cases c with
  | load ow pairs =>
    simp only [rejectedExplB, rejectedB]
    rw [← load_frozen_rejected_iff sf ow h pairs]
    cases (load sf ow pairs).2 <;> rfl
  | _ => rfl

/-- **one call on a frozen manager, explicit rejection test**: `frozen_sim` with `rejectedExplB` -/
theorem frozen_sim_expl (sched : Sched) (s : MState) (hs : s.frozen = false) (c : Call) :
    (rejectedExplB (setF true s) c = true ∧ apply sched (setF true s) c = (setF true s, some .valueError)) ∨
    (rejectedExplB (setF true s) c = false ∧
     apply sched (setF true s) c = (setF true (apply sched s c).1, (apply sched s c).2) ∧
     (apply sched s c).1.frozen = false) := by
  rw [rejectedExplB_eq (setF true s) rfl c]
  exact frozen_sim sched s hs c

/-- `copy_expr_from` into a frozen manager: the destination is untouched, and the call raises `ValueError` exactly when
    some copied pair would (re)register a definition -/
theorem copyExprFrom_frozen (dst src : MState) (name : String) (b : String → Option Path) (ow : Bool)
    (h : dst.frozen = true) :
    (copyExprFrom dst src name b ow).1 = dst ∧
    ((copyExprFrom dst src name b ow).2 = some .valueError ∨ (copyExprFrom dst src name b ow).2 = none) :=
  load_frozen dst ow h (copyPairs src name b)

theorem copyExprFrom_frozen_outcome (dst src : MState) (name : String) (b : String → Option Path) (ow : Bool)
    (h : dst.frozen = true) :
    copyExprFrom dst src name b ow =
      (dst, if loadTouches dst.defs ow (copyPairs src name b) then some .valueError else none) :=
  load_frozen_outcome dst ow h (copyPairs src name b)

end Manager
