/-!
# Model of `xdeps/madxutils.py` (L7 of DESIGN.md): the MAD-X expression grammar and its two evaluators

* `MTree`: parse trees of `calc_grammar` (one constructor per alias)
* `parseSum`: a token-level recursive-descent parser with the precedence the grammar encodes by rule
  nesting: unary signs bind tighter than `^`, `^`/`**` is left-associative, then `*` `/`, then `+` `-`
* `evalI`: what `MadxEval` computes — the callbacks applied bottom-up.  With plain variables the
  callbacks are Python's operators (`guard = false`: division by zero raises); with refs they build
  deferred nodes whose evaluation turns a `ZeroDivisionError` of `/` into NaN (`guard = true`,
  by C04's homomorphism).
-/
namespace Madx

inductive Tok where
  | num (text : String)
  | name (s : String)
  | plus | minus | star | slash | pow | lpar | rpar | comma | arrow | assign
deriving DecidableEq, Repr

inductive MTree where
  | number (text : String)
  | neg (a : MTree)
  | pos (a : MTree)
  | var (n : String)
  | getitem (el key : String)
  | call (f : String) (args : List MTree)
  | add (l r : MTree) | sub (l r : MTree) | mul (l r : MTree) | div (l r : MTree) | pow (l r : MTree)

/-! ### parser -/
mutual
def parseAtom : Nat → List Tok → Option (MTree × List Tok)
  | 0, _ => none
  | _+1, .num t :: rest => some (.number t, rest)
  | n+1, .minus :: rest => (parseAtom n rest).map (fun p => (.neg p.1, p.2))
  | n+1, .plus :: rest => (parseAtom n rest).map (fun p => (.pos p.1, p.2))
  | _+1, .name e :: .arrow :: .name k :: rest => some (.getitem e k, rest)
  | n+1, .name f :: .lpar :: rest =>
    match parseSum n rest with
    | some (a, rest1) => (parseArgs n rest1).map (fun p => (.call f (a :: p.1), p.2))
    | none => none
  | _+1, .name v :: rest => some (.var v, rest)
  | n+1, .lpar :: rest =>
    match parseSum n rest with
    | some (t, .rpar :: rest1) => some (t, rest1)
    | _ => none
  | _+1, _ => none
/-- the rest of an argument list: `("," sum)* ")"` -/
def parseArgs : Nat → List Tok → Option (List MTree × List Tok)
  | 0, _ => none
  | _+1, .rpar :: rest => some ([], rest)
  | n+1, .comma :: rest =>
    match parseSum n rest with
    | some (a, rest1) => (parseArgs n rest1).map (fun p => (a :: p.1, p.2))
    | none => none
  | _+1, _ => none
def parsePower : Nat → List Tok → Option (MTree × List Tok)
  | 0, _ => none
  | n+1, toks =>
    match parseAtom n toks with
    | some (a, rest) => parsePowerTail n a rest
    | none => none
def parsePowerTail : Nat → MTree → List Tok → Option (MTree × List Tok)
  | 0, _, _ => none
  | n+1, acc, .pow :: rest =>
    match parseAtom n rest with
    | some (b, rest1) => parsePowerTail n (.pow acc b) rest1
    | none => none
  | _+1, acc, toks => some (acc, toks)
def parseProduct : Nat → List Tok → Option (MTree × List Tok)
  | 0, _ => none
  | n+1, toks =>
    match parsePower n toks with
    | some (a, rest) => parseProductTail n a rest
    | none => none
def parseProductTail : Nat → MTree → List Tok → Option (MTree × List Tok)
  | 0, _, _ => none
  | n+1, acc, .star :: rest =>
    match parsePower n rest with
    | some (b, rest1) => parseProductTail n (.mul acc b) rest1
    | none => none
  | n+1, acc, .slash :: rest =>
    match parsePower n rest with
    | some (b, rest1) => parseProductTail n (.div acc b) rest1
    | none => none
  | _+1, acc, toks => some (acc, toks)
def parseSum : Nat → List Tok → Option (MTree × List Tok)
  | 0, _ => none
  | n+1, toks =>
    match parseProduct n toks with
    | some (a, rest) => parseSumTail n a rest
    | none => none
def parseSumTail : Nat → MTree → List Tok → Option (MTree × List Tok)
  | 0, _, _ => none
  | n+1, acc, .plus :: rest =>
    match parseProduct n rest with
    | some (b, rest1) => parseSumTail n (.add acc b) rest1
    | none => none
  | n+1, acc, .minus :: rest =>
    match parseProduct n rest with
    | some (b, rest1) => parseSumTail n (.sub acc b) rest1
    | none => none
  | _+1, acc, toks => some (acc, toks)
end

/-- `start: sum` (the assignment form `NAME = sum` is not an expression: `parseStmt` in `MadxAssign.lean`) -/
def parse (toks : List Tok) : Option MTree :=
  match parseSum (4 * toks.length + 8) toks with
  | some (t, []) => some t
  | _ => none

/-! ### evaluators -/

inductive MErr where
  | zeroDiv | other (what : String)
deriving DecidableEq, Repr

/-- the value algebra: Python's operators on numbers (a parameter) and the environment -/
structure Ops (V : Type) where
  number : String → V
  add : V → V → Except MErr V
  sub : V → V → Except MErr V
  mul : V → V → Except MErr V
  div : V → V → Except MErr V          -- raises `zeroDiv` on a zero divisor
  pow : V → V → Except MErr V
  neg : V → Except MErr V
  pos : V → Except MErr V
  var : String → Except MErr V
  getitem : String → String → Except MErr V
  call : String → List V → Except MErr V
  nan : V

mutual
/-- `guard = false`: immediate evaluation over plain variables; `guard = true`: the value of the
    deferred expression built over refs (true division is a guarded class) -/
def evalI {V : Type} (ops : Ops V) (guard : Bool) : MTree → Except MErr V
  | .number t => .ok (ops.number t)
  | .neg a => do let x ← evalI ops guard a; ops.neg x
  | .pos a => do let x ← evalI ops guard a; ops.pos x
  | .var n => ops.var n
  | .getitem e k => ops.getitem e k
  | .call f args => do let xs ← evalArgs ops guard args; ops.call f xs
  | .add l r => do let a ← evalI ops guard l; let b ← evalI ops guard r; ops.add a b
  | .sub l r => do let a ← evalI ops guard l; let b ← evalI ops guard r; ops.sub a b
  | .mul l r => do let a ← evalI ops guard l; let b ← evalI ops guard r; ops.mul a b
  | .div l r => do
      let a ← evalI ops guard l
      let b ← evalI ops guard r
      match ops.div a b with
      | .error .zeroDiv => if guard then .ok ops.nan else .error .zeroDiv
      | res => res
  | .pow l r => do let a ← evalI ops guard l; let b ← evalI ops guard r; ops.pow a b
def evalArgs {V : Type} (ops : Ops V) (guard : Bool) : List MTree → Except MErr (List V)
  | [] => .ok []
  | a :: rest => do let x ← evalI ops guard a; let xs ← evalArgs ops guard rest; .ok (x :: xs)
end

/-- only `/` can raise `ZeroDivisionError` in the value algebra (Python: `+ - * unary` never do; the
    functions module and `**` are restricted to arguments on which they do not) -/
structure DivOnly {V : Type} (ops : Ops V) : Prop where
  add : ∀ a b, ops.add a b ≠ .error .zeroDiv
  sub : ∀ a b, ops.sub a b ≠ .error .zeroDiv
  mul : ∀ a b, ops.mul a b ≠ .error .zeroDiv
  pow : ∀ a b, ops.pow a b ≠ .error .zeroDiv
  neg : ∀ a, ops.neg a ≠ .error .zeroDiv
  pos : ∀ a, ops.pos a ≠ .error .zeroDiv
  var : ∀ n, ops.var n ≠ .error .zeroDiv
  getitem : ∀ e k, ops.getitem e k ≠ .error .zeroDiv
  call : ∀ f xs, ops.call f xs ≠ .error .zeroDiv

end Madx
