/-! Prototype 2 of the push-consistency lemma: stores are abstract (e.g. real container trees),
    a task is `run` + a quiescence predicate, and "u does not disturb t" is an abstract relation
    constrained by two laws. -/
namespace Sched2

variable {S T : Type}

structure Sys (S T : Type) where
  run : T → S → S
  Q : T → S → Prop
  /-- `NI u t`: running `u` cannot invalidate `t` -/
  NI : T → T → Prop
  /-- tasks for which running establishes quiescence (no self-read) -/
  good : T → Prop
  q_run : ∀ t σ, good t → Q t (run t σ)
  q_ni : ∀ u t σ, NI u t → Q t σ → Q t (run u σ)

def runAll (sys : Sys S T) (l : List T) (σ : S) : S := l.foldl (fun s t => sys.run t s) σ

theorem runAll_Q (sys : Sys S T) (l : List T) (σ : S) (keep : T → Prop)
    (hgood : ∀ t ∈ l, sys.good t)
    (hkeep : ∀ t, keep t → sys.Q t σ)
    (hsafe : ∀ t, keep t → ∀ u ∈ l, sys.NI u t)
    (hord : List.Pairwise (fun t u => sys.NI u t) l) :
    (∀ t, keep t → sys.Q t (runAll sys l σ)) ∧ (∀ t ∈ l, sys.Q t (runAll sys l σ)) := by
  induction l generalizing σ keep with
  | nil => exact ⟨fun t ht => by simpa [runAll] using hkeep t ht, by simp⟩
  | cons a l ih =>
    have hp := List.pairwise_cons.mp hord
    have := ih (sys.run a σ) (fun t => keep t ∨ t = a)
      (fun t ht => hgood t (List.mem_cons_of_mem _ ht))
      (by
        intro t ht
        rcases ht with ht | rfl
        · exact sys.q_ni a t σ (hsafe t ht a (List.mem_cons_self ..)) (hkeep t ht)
        · exact sys.q_run t σ (hgood t (List.mem_cons_self ..)))
      (by
        intro t ht u hu
        rcases ht with ht | rfl
        · exact hsafe t ht u (List.mem_cons_of_mem _ hu)
        · exact hp.1 u hu)
      hp.2
    refine ⟨fun t ht => ?_, fun t ht => ?_⟩
    · simpa [runAll] using this.1 t (Or.inl ht)
    · rcases List.mem_cons.mp ht with rfl | ht
      · simpa [runAll] using this.1 t (Or.inr rfl)
      · simpa [runAll] using this.2 t ht

/-! Bridge from a dependency order on a duplicate-free list to the `Pairwise` premise. -/

def Before (l : List T) (a b : T) : Prop := ∃ xs ys, l = xs ++ a :: ys ∧ b ∈ ys

theorem before_cons {x : T} {l : List T} {a b : T} :
    Before (x :: l) a b ↔ (x = a ∧ b ∈ l) ∨ Before l a b := by
  constructor
  · rintro ⟨xs, ys, e, hb⟩
    cases xs with
    | nil =>
      simp only [List.nil_append, List.cons.injEq] at e
      exact Or.inl ⟨e.1, e.2 ▸ hb⟩
    | cons y xs =>
      simp only [List.cons_append, List.cons.injEq] at e
      exact Or.inr ⟨xs, ys, e.2, hb⟩
  · rintro (⟨rfl, hb⟩ | ⟨xs, ys, e, hb⟩)
    · exact ⟨[], l, rfl, hb⟩
    · exact ⟨x :: xs, ys, by simp [e], hb⟩

theorem Before.mem_left {l : List T} {a b : T} (h : Before l a b) : a ∈ l := by
  obtain ⟨xs, ys, e, _⟩ := h; simp [e]

theorem Before.mem_right {l : List T} {a b : T} (h : Before l a b) : b ∈ l := by
  obtain ⟨xs, ys, e, hb⟩ := h; simp [e, hb]

theorem not_before_symm {l : List T} (hnd : l.Nodup) {a b : T} (h1 : Before l a b) (h2 : Before l b a) : False := by
  induction l with
  | nil => obtain ⟨xs, ys, e, _⟩ := h1; simp at e
  | cons x l ih =>
    have hn := List.nodup_cons.mp hnd
    rcases before_cons.mp h1 with ⟨rfl, hb⟩ | h1'
    · rcases before_cons.mp h2 with ⟨rfl, ha⟩ | h2'
      · exact hn.1 hb
      · exact hn.1 h2'.mem_right
    · rcases before_cons.mp h2 with ⟨rfl, ha⟩ | h2'
      · exact hn.1 h1'.mem_right
      · exact ih hn.2 h1' h2'

/-- A duplicate-free list in which every disturbing task comes first satisfies the premise of `runAll_Q`. -/
theorem pairwise_of_before (sys : Sys S T) (l : List T) (hnd : l.Nodup)
    (hb : ∀ u ∈ l, ∀ t ∈ l, u ≠ t → ¬ sys.NI u t → Before l u t) :
    List.Pairwise (fun t u => sys.NI u t) l := by
  induction l with
  | nil => exact List.Pairwise.nil
  | cons x l ih =>
    have hn := List.nodup_cons.mp hnd
    refine List.pairwise_cons.mpr ⟨?_, ih hn.2 ?_⟩
    · intro u hu
      refine Classical.byContradiction fun hni => ?_
      have hne : u ≠ x := fun h => hn.1 (h ▸ hu)
      have := hb u (List.mem_cons_of_mem _ hu) x (List.mem_cons_self ..) hne hni
      rcases before_cons.mp this with ⟨h, _⟩ | h
      · exact hne h.symm
      · exact hn.1 h.mem_right
    · intro u hu t ht hne hni
      have := hb u (List.mem_cons_of_mem _ hu) t (List.mem_cons_of_mem _ ht) hne hni
      rcases before_cons.mp this with ⟨h, _⟩ | h
      · exact absurd (h ▸ hu) hn.1
      · exact h

end Sched2
