/-! Prototype: `Table._make_cache` is the scan specification. -/
namespace Cache

def lookupA {κ ν : Type} [DecidableEq κ] : List (κ × ν) → κ → Option ν
  | [], _ => none
  | (k, v) :: r, k' => if k = k' then some v else lookupA r k'

/-- `d[k] = v` on an insertion-ordered dict -/
def insertA {κ ν : Type} [DecidableEq κ] : List (κ × ν) → κ → ν → List (κ × ν)
  | [], k, v => [(k, v)]
  | (k0, v0) :: r, k, v => if k0 = k then (k0, v) :: r else (k0, v0) :: insertA r k v

theorem lookup_insert {κ ν : Type} [DecidableEq κ] (d : List (κ × ν)) (k k' : κ) (v : ν) :
    lookupA (insertA d k v) k' = if k = k' then some v else lookupA d k' := by
  induction d with
  | nil => by_cases h : k = k' <;> simp [insertA, lookupA, h]
  | cons p r ih =>
    obtain ⟨k0, v0⟩ := p
    simp only [insertA]
    by_cases h0 : k0 = k
    · subst h0
      by_cases h1 : k0 = k' <;> simp [lookupA, h1]
    · simp only [h0, if_false, lookupA]
      by_cases h1 : k0 = k'
      · subst h1
        have : k ≠ k0 := fun e => h0 e.symm
        simp [this]
      · simp [h1, ih]

abbrev Dct := List ((String × Nat) × Nat)
abbrev Cnt := List (String × Nat)

/-- loop body of `_make_cache`: `cc = count.get(nn, -1) + 1; dct[(nn, cc)] = ii; count[nn] = cc` -/
def step (st : Dct × Cnt) (ii : Nat) (nn : String) : Dct × Cnt :=
  let cc := match lookupA st.2 nn with | some c => c + 1 | none => 0
  (insertA st.1 (nn, cc) ii, insertA st.2 nn cc)

def scan : List String → Nat → Dct × Cnt → Dct × Cnt
  | [], _, st => st
  | nn :: rest, ii, st => scan rest (ii + 1) (step st ii nn)

/-- second loop: `count[nn] = cc + 1` -/
def makeCache (col : List String) : Dct × Cnt :=
  let st := scan col 0 ([], [])
  (st.1, st.2.map (fun p => (p.1, p.2 + 1)))

/-! specification by a plain scan -/
def occ (col : List String) (name : String) : Nat := (col.filter (· = name)).length

def nthOcc : List String → String → Nat → Option Nat
  | [], _, _ => none
  | x :: xs, name, c =>
    if x = name then (if c = 0 then some 0 else (nthOcc xs name (c - 1)).map (· + 1))
    else (nthOcc xs name c).map (· + 1)

theorem nthOcc_snoc (pre : List String) (x name : String) (c : Nat) :
    nthOcc (pre ++ [x]) name c =
      match nthOcc pre name c with
      | some i => some i
      | none => if x = name ∧ c = occ pre name then some pre.length else none := by
  induction pre generalizing c with
  | nil =>
    simp only [List.nil_append, nthOcc, occ, List.filter_nil, List.length_nil]
    by_cases hx : x = name <;> by_cases hc : c = 0 <;> simp [hx, hc, nthOcc]
  | cons y pre ih =>
    simp only [List.cons_append, nthOcc]
    by_cases hy : y = name
    · simp only [hy, if_true]
      by_cases hc : c = 0
      · simp [hc]
      · simp only [hc, if_false]
        rw [ih (c - 1)]
        have hocc : occ (name :: pre) name = occ pre name + 1 := by simp [occ]
        cases h : nthOcc pre name (c - 1) with
        | some i => simp
        | none =>
          simp only [Option.map_none, hocc, List.length_cons]
          by_cases hx : x = name
          · by_cases hcc : c - 1 = occ pre name
            · have : c = occ pre name + 1 := by omega
              simp [hx, hcc, this]
            · have : ¬ (c = occ pre name + 1) := by omega
              simp [hx, hcc, this]
          · simp [hx]
    · simp only [hy, if_false]
      rw [ih c]
      have hocc : occ (y :: pre) name = occ pre name := by simp [occ, hy]
      cases h : nthOcc pre name c with
      | some i => simp
      | none =>
        simp only [Option.map_none, hocc, List.length_cons]
        by_cases hx : x = name ∧ c = occ pre name <;> simp [hx]

theorem occ_cons_eq (pre : List String) (nn : String) : occ (nn :: pre) nn = occ pre nn + 1 := by simp [occ]
theorem occ_cons_ne (pre : List String) (y nn : String) (h : y ≠ nn) : occ (y :: pre) nn = occ pre nn := by simp [occ, h]

/-- there are only `occ` occurrences, so the `occ`-th (0-based) does not exist -/
theorem nthOcc_occ_none (pre : List String) (nn : String) : nthOcc pre nn (occ pre nn) = none := by
  induction pre with
  | nil => simp [nthOcc]
  | cons y pre ih =>
    by_cases hy : y = nn
    · subst hy
      rw [occ_cons_eq]
      simp [nthOcc, ih]
    · rw [occ_cons_ne pre y nn hy]
      simp [nthOcc, hy, ih]

/-- what a scan state says about the prefix already processed -/
structure Rep (pre : List String) (st : Dct × Cnt) : Prop where
  dct : ∀ name c, lookupA st.1 (name, c) = nthOcc pre name c
  cnt : ∀ name, lookupA st.2 name = if occ pre name = 0 then none else some (occ pre name - 1)

theorem step_rep (pre : List String) (st : Dct × Cnt) (h : Rep pre st) (nn : String) :
    Rep (pre ++ [nn]) (step st pre.length nn) := by
  have hcc : (match lookupA st.2 nn with | some c => c + 1 | none => 0) = occ pre nn := by
    rw [h.cnt nn]
    by_cases h0 : occ pre nn = 0
    · simp [h0]
    · simp only [h0, if_false]; exact Nat.sub_add_cancel (Nat.pos_of_ne_zero h0)
  constructor
  · intro name c
    simp only [step, hcc, lookup_insert, h.dct, nthOcc_snoc]
    by_cases hk : (nn, occ pre nn) = (name, c)
    · have h1 : nn = name := by cases hk; rfl
      have h2 : occ pre nn = c := by cases hk; rfl
      subst h1
      have hnone : nthOcc pre nn c = none := by
        rw [← h2]; exact nthOcc_occ_none pre nn
      simp [hk, hnone, h2]
    · simp only [hk, if_false]
      cases hn : nthOcc pre name c with
      | some i => rfl
      | none =>
        have : ¬ (nn = name ∧ c = occ pre name) := by
          rintro ⟨rfl, rfl⟩; exact hk rfl
        simp [this]
  · intro name
    simp only [step, hcc, lookup_insert]
    by_cases hk : nn = name
    · subst hk
      have : occ (pre ++ [nn]) nn = occ pre nn + 1 := by simp [occ]
      simp [this]
    · have : occ (pre ++ [nn]) name = occ pre name := by simp [occ, hk]
      simp [hk, this, h.cnt]

theorem scan_rep (suf pre : List String) (st : Dct × Cnt) (h : Rep pre st) :
    Rep (pre ++ suf) (scan suf pre.length st) := by
  induction suf generalizing pre st with
  | nil => simpa [scan] using h
  | cons nn rest ih =>
    simp only [scan]
    have := ih (pre ++ [nn]) _ (step_rep pre st h nn)
    simpa [List.append_assoc] using this

/-- C07: the one-pass cache is the scan specification. -/
theorem makeCache_spec (col : List String) (name : String) (c : Nat) :
    lookupA (makeCache col).1 (name, c) = nthOcc col name c := by
  have h0 : Rep [] (([], []) : Dct × Cnt) := ⟨by intro n c; simp [lookupA, nthOcc], by intro n; simp [lookupA, occ]⟩
  have := scan_rep col [] _ h0
  simpa [makeCache] using this.dct name c

#print axioms makeCache_spec
end Cache
