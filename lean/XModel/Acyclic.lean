import XModel.ManagerC01
/-!
The Boolean tests the driver evaluates (`acyclicFrom`, `validSchedule`, `scopeB`) imply the propositional
hypotheses of the C01 theorems: a history the driver reports as "in scope" is in the scope of the theorem.
-/
namespace Manager
open Store Push Index

section lists
variable {α : Type} [DecidableEq α]

/-- position of the first occurrence -/
def pos : List α → α → Nat
  | [], _ => 0
  | x :: l, a => if x = a then 0 else pos l a + 1

theorem before_iff_pos : ∀ (l : List α), l.Nodup → ∀ a b, Dfs3.Before l a b ↔ a ∈ l ∧ b ∈ l ∧ pos l a < pos l b
  | [], _, a, b => by
    constructor
    · rintro ⟨xs, ys, e, _⟩
      cases xs <;> cases e
    · rintro ⟨h, _⟩; cases h
  | x :: l, hnd, a, b => by
    have hn : x ∉ l ∧ l.Nodup := by simpa using hnd
    rw [Capstone.before_cons, before_iff_pos l hn.2]
    constructor
    · rintro (⟨rfl, hb⟩ | ⟨ha, hb, hlt⟩)
      · have hxb : x ≠ b := fun e => hn.1 (e ▸ hb)
        refine ⟨List.mem_cons_self .., List.mem_cons_of_mem _ hb, ?_⟩
        simp [pos, hxb]
      · have hxa : x ≠ a := fun e => hn.1 (e ▸ ha)
        have hxb : x ≠ b := fun e => hn.1 (e ▸ hb)
        refine ⟨List.mem_cons_of_mem _ ha, List.mem_cons_of_mem _ hb, ?_⟩
        simp only [pos, hxa, hxb, if_false]
        omega
    · rintro ⟨ha, hb, hlt⟩
      by_cases hxa : x = a
      · subst hxa
        left
        refine ⟨rfl, ?_⟩
        rcases List.mem_cons.mp hb with rfl | hb
        · simp [pos] at hlt
        · exact hb
      · right
        have ha' : a ∈ l := by
          rcases List.mem_cons.mp ha with rfl | h
          · exact absurd rfl hxa
          · exact h
        by_cases hxb : x = b
        · subst hxb
          simp [pos, hxa] at hlt
        · have hb' : b ∈ l := by
            rcases List.mem_cons.mp hb with rfl | h
            · exact absurd rfl hxb
            · exact h
          refine ⟨ha', hb', ?_⟩
          simp only [pos, hxa, hxb, if_false] at hlt
          omega

theorem pos_inj : ∀ (l : List α) (a b : α), a ∈ l → b ∈ l → pos l a = pos l b → a = b
  | [], a, _, h, _, _ => by cases h
  | x :: l, a, b, ha, hb, he => by
    by_cases hxa : x = a
    · by_cases hxb : x = b
      · exact hxa.symm.trans hxb
      · simp [pos, hxa, hxb] at he
        subst hxa
        simp [hxb] at he
    · by_cases hxb : x = b
      · subst hxb
        simp [pos, hxa] at he
      · simp only [pos, hxa, hxb, if_false, Nat.add_right_cancel_iff] at he
        have ha' : a ∈ l := by
          rcases List.mem_cons.mp ha with rfl | h
          · exact absurd rfl hxa
          · exact h
        have hb' : b ∈ l := by
          rcases List.mem_cons.mp hb with rfl | h
          · exact absurd rfl hxb
          · exact h
        exact pos_inj l a b ha' hb' he

end lists

/-- `respectsEdges`: no member has an edge back to a different member listed before it -/
theorem respectsAdj_noback (g : Path → List Path) : ∀ (l : List Path), respectsEdges g l = true →
    ∀ u w, Dfs3.Before l u w → w ≠ u → u ∉ g w
  | [], _, u, w, hb, _ => by
    obtain ⟨xs, ys, e, _⟩ := hb
    cases xs <;> cases e
  | x :: l, h, u, w, hb, hne => by
    unfold respectsEdges at h
    simp only [List.map_cons, respectsAdj, Bool.and_eq_true, List.all_eq_true] at h
    rcases Capstone.before_cons.mp hb with ⟨rfl, hw⟩ | hb'
    · have := h.1 (w, g w) (List.mem_map.mpr ⟨w, hw, rfl⟩)
      simp only [Bool.or_eq_true, decide_eq_true_eq, Bool.not_eq_eq_eq_not, Bool.not_true] at this
      rcases this with h1 | h1
      · exact absurd h1 hne
      · intro hmem
        have : (g w).contains x = true := List.contains_iff_mem.mpr hmem
        rw [h1] at this
        cases this
    · exact respectsAdj_noback g l h.2 u w hb' hne

/-- if the order respects the edges, every path between members goes forward -/
theorem reach_forward (g : Path → List Path) (L : List Path) (hnd : L.Nodup)
    (hclosedL : ∀ u ∈ L, ∀ w ∈ g u, w ∈ L) (hre : respectsEdges g L = true) :
    ∀ x y, Dfs3.Reach g x y → x ∈ L → x = y ∨ Dfs3.Before L x y := by
  intro x y r
  induction r with
  | refl => intro _; exact Or.inl rfl
  | @step a b c hab _ ih =>
    intro ha
    have hb : b ∈ L := hclosedL a ha b hab
    by_cases hab' : a = b
    · subst hab'; exact ih ha
    · -- a and b are distinct members: a is listed first, otherwise a → b is a back edge
      have hfwd : Dfs3.Before L a b := by
        refine Classical.byContradiction fun hnot => ?_
        have hlt : ¬ pos L a < pos L b := fun h => hnot ((before_iff_pos L hnd a b).mpr ⟨ha, hb, h⟩)
        have hne : pos L a ≠ pos L b := fun e => hab' (pos_inj L a b ha hb e)
        have hback : Dfs3.Before L b a := (before_iff_pos L hnd b a).mpr ⟨hb, ha, by omega⟩
        exact respectsAdj_noback g L hre b a hback hab' hab
      rcases ih hb with rfl | hbc
      · exact Or.inr hfwd
      · right
        obtain ⟨_, _, h1⟩ := (before_iff_pos L hnd a b).mp hfwd
        obtain ⟨_, hc, h2⟩ := (before_iff_pos L hnd b c).mp hbc
        exact (before_iff_pos L hnd a c).mpr ⟨ha, hc, by omega⟩

/-- **`acyclicFrom` is sound**: when the depth-first order respects every edge, no two distinct tasks below
    the start set reach each other (H1 of the C01 theorems). -/
theorem acyclicFrom_sound (s : MState) (hi : MInv s) (startDeps : List Path)
    (h : acyclicFrom s.idx (startOf s.idx startDeps) = true) :
    ∀ a b, (∃ s0 ∈ startOf s.idx startDeps, Dfs3.Reach (gOf s.idx) s0 a) → a ≠ b →
      Dfs3.Reach (gOf s.idx) a b → Dfs3.Reach (gOf s.idx) b a → False := by
  intro a b ha hne hab hba
  have hfuel := fuelOf_ge s hi
  have hstart := fun k hk => startOf_sub s hi startDeps k hk
  have hclosed : ∀ u ∈ s.defs.map (·.id), ∀ w ∈ gOf s.idx u, w ∈ s.defs.map (·.id) :=
    fun u _ w hw => gOf_closed s hi u w hw
  have hnd := Dfs3.toposort_nodup' (gOf s.idx) _ _ _ hfuel hstart hclosed
  have hmem := Dfs3.toposort_mem_iff' (gOf s.idx) _ _ _ hfuel hstart hclosed
  unfold acyclicFrom at h
  generalize Dfs3.toposort (gOf s.idx) (fuelOf s.idx) (startOf s.idx startDeps) = L at h hnd hmem
  have hclosedL : ∀ u ∈ L, ∀ w ∈ gOf s.idx u, w ∈ L := by
    intro u hu w hw
    obtain ⟨s0, hs0, r⟩ := (hmem u).mp hu
    exact (hmem w).mpr ⟨s0, hs0, r.tail hw⟩
  have haL : a ∈ L := (hmem a).mpr ha
  have hbL : b ∈ L := by
    obtain ⟨s0, hs0, r⟩ := ha
    exact (hmem b).mpr ⟨s0, hs0, r.trans hab⟩
  have h1 := reach_forward (gOf s.idx) L hnd hclosedL h a b hab haL
  have h2 := reach_forward (gOf s.idx) L hnd hclosedL h b a hba hbL
  rcases h1 with h1 | h1
  · exact hne h1
  · rcases h2 with h2 | h2
    · exact hne h2.symm
    · obtain ⟨_, _, l1⟩ := (before_iff_pos L hnd a b).mp h1
      obtain ⟨_, _, l2⟩ := (before_iff_pos L hnd b a).mp h2
      omega

/-- **`validSchedule` is sound**: a list the driver accepts as a schedule is a `ValidSched`. -/
theorem validSchedule_sound (m : Mgr Path Path) (startDeps π : List Path)
    (hv : validSchedule m startDeps π = true) (hac : acyclicFrom m (startOf m startDeps) = true) :
    ValidSched (gOf m) (findTaskids m startDeps) π := by
  unfold validSchedule at hv
  simp only [Bool.and_eq_true, decide_eq_true_eq, hac, Bool.not_true, Bool.false_or] at hv
  obtain ⟨⟨hd, hss⟩, hre⟩ := hv
  have hnd : π.Nodup := by rw [← hd]; exact dedup_nodup π
  unfold sameSet at hss
  simp only [Bool.and_eq_true, List.all_eq_true, decide_eq_true_eq] at hss
  refine ⟨hnd, fun x => ⟨hss.1 x, hss.2 x⟩, ?_⟩
  intro u w hu hw hwg hne
  refine Classical.byContradiction fun hnot => ?_
  have hlt : ¬ pos π u < pos π w := fun h => hnot ((before_iff_pos π hnd u w).mpr ⟨hu, hw, h⟩)
  have hne' : pos π u ≠ pos π w := fun e => hne (pos_inj π u w hu hw e).symm
  have hback : Dfs3.Before π w u := (before_iff_pos π hnd w u).mpr ⟨hw, hu, by omega⟩
  exact respectsAdj_noback (gOf m) π hre w u hback (Ne.symm hne) hwg

/-! ### the decidable scope test -/

def stepCanonB : Step → Bool
  | .item (.int i) => decide (0 ≤ i)
  | _ => true

def pathOKB (p : Path) : Bool := decide (2 ≤ p.length) && p.all stepCanonB

def exprDefB (t : MTask) : Bool :=
  match t.kind with
  | .expr e => decide (t.deps = exprDeps e) && decide (t.tars = chainR t.id)
  | _ => false

/-- H1–H3 and the hygiene conditions of `Scope`, as the driver evaluates them -/
def scopeB (s : MState) (p : Path) : Bool :=
  s.defs.all exprDefB && pathOKB p &&
  s.defs.all (fun t => pathOKB t.id && (leafRefs (toE t).expr).all pathOKB) &&
  acyclicFrom s.idx (startOf s.idx (chainR p)) &&
  s.defs.all (fun t => s.defs.all (fun u => decide (t.id = u.id) || !(comparable u.id t.id))) &&
  s.defs.all (fun t => decide (t.id = p) || !(comparable p t.id)) &&
  s.defs.all (fun t => (leafRefs (toE t).expr).all (fun r => !(comparable t.id r))) &&
  s.faultIn.isNone

theorem stepCanonB_sound (st : Step) (h : stepCanonB st = true) : st.canon := by
  cases st with
  | attr a => trivial
  | item k =>
    cases k with
    | str _ => trivial
    | int i => simpa [stepCanonB, Step.canon] using h

theorem pathOKB_sound (p : Path) (h : pathOKB p = true) : PathOK p := by
  unfold pathOKB at h
  simp only [Bool.and_eq_true, decide_eq_true_eq, List.all_eq_true] at h
  exact ⟨h.1, fun st hst => stepCanonB_sound st (h.2 st hst)⟩

theorem scopeB_sound (s : MState) (hi : MInv s) (p : Path) (h : scopeB s p = true) : Scope s p := by
  unfold scopeB at h
  simp only [Bool.and_eq_true, List.all_eq_true, Bool.or_eq_true, decide_eq_true_eq, Bool.not_eq_eq_eq_not,
    Bool.not_true] at h
  obtain ⟨⟨⟨⟨⟨⟨⟨hex, hp⟩, hpaths⟩, hac⟩, h2⟩, h2p⟩, h3⟩, hnf⟩ := h
  refine
    { exprs := ?_, pathP := pathOKB_sound p hp, paths := ?_, acyclic := acyclicFrom_sound s hi (chainR p) hac,
      h2 := ?_, h2p := ?_, h3 := ?_, nofault := ?_ }
  · intro t ht
    have := hex t ht
    unfold exprDefB at this
    cases hk : t.kind with
    | expr e =>
      simp only [hk, Bool.and_eq_true, decide_eq_true_eq] at this
      exact ⟨e, rfl, this.1, this.2⟩
    | func b => simp [hk] at this
    | knob a b c => simp [hk] at this
  · intro t ht
    obtain ⟨h1, hr⟩ := hpaths t ht
    exact ⟨pathOKB_sound _ h1, fun r hr' => pathOKB_sound r (hr r hr')⟩
  · intro t ht u hu hne
    rcases h2 t ht u hu with h | h
    · exact absurd h hne
    · exact incomparable_of_not_comparable _ _ h
  · intro t ht hne
    rcases h2p t ht with h | h
    · exact absurd h hne
    · exact incomparable_of_not_comparable _ _ h
  · intro t ht r hr
    exact incomparable_of_not_comparable _ _ (h3 t ht r hr)
  · cases hf : s.faultIn with
    | none => rfl
    | some k => simp [hf] at hnf

/-! ### histories, decided -/

def callScopeB (sched : Sched) (s : MState) : Call → Bool
  | .setValue p v =>
    scopeB (preState s p) p &&
    validSchedule (preState s p).idx (chainR p) (sched (findTaskids (preState s p).idx (chainR p))) &&
    (setValue sched s p v).2.isNone
  | .setExpr p e =>
    scopeB (defPart s p e) p &&
    validSchedule (defPart s p e).idx (chainR p) (sched (findTaskids (defPart s p e).idx (chainR p))) &&
    (setExpr sched s p e).2.isNone
  | .inplace op p operand =>
    match inplaceCall s op p operand with
    | some (.setValue q v) =>
      scopeB (preState s q) q &&
      validSchedule (preState s q).idx (chainR q) (sched (findTaskids (preState s q).idx (chainR q))) &&
      (setValue sched s q v).2.isNone
    | some (.setExpr q e) =>
      scopeB (defPart s q e) q &&
      validSchedule (defPart s q e).idx (chainR q) (sched (findTaskids (defPart s q e).idx (chainR q))) &&
      (setExpr sched s q e).2.isNone
    | _ => false
  | .unregister _ => true
  | .cleanup => true
  | .verify => true
  | .refresh => true
  | _ => false

/-- the executable form of `GoodRun`: what the driver evaluates line by line -/
def goodRunB (sched : Sched) : MState → List Call → Bool
  | _, [] => true
  | s, c :: cs => callScopeB sched s c && goodRunB sched (apply sched s c).1 cs

theorem scopeB_acyclic (s : MState) (p : Path) (h : scopeB s p = true) :
    acyclicFrom s.idx (startOf s.idx (chainR p)) = true := by
  unfold scopeB at h
  simp only [Bool.and_eq_true] at h
  exact h.1.1.1.1.2

theorem isNone_eq {α : Type} (o : Option α) (h : o.isNone = true) : o = none := by
  cases o <;> simp_all

theorem unregister_MInv_any (s : MState) (id : Path) (hi : MInv s) : MInv (unregister s id).1 := by
  by_cases hf : s.frozen = true
  · rw [unregister_frozen s id hf]; exact hi
  · have hf' : s.frozen = false := by simpa using hf
    cases hl : lookDef s.defs id with
    | none =>
      have : unregister s id = (s, some .keyError) := by simp [unregister, hf', hl]
      rw [this]; exact hi
    | some t => exact unregister_MInv s id t hi hf' hl

theorem goodRunB_sound (sched : Sched) : ∀ (cs : List Call) (s : MState), MInv s → goodRunB sched s cs = true →
    GoodRun sched s cs
  | [], _, _, _ => trivial
  | c :: cs, s, hi, h => by
    simp only [goodRunB, Bool.and_eq_true] at h
    obtain ⟨hc, hrest⟩ := h
    cases c with
    | setValue p v =>
      simp only [callScopeB, Bool.and_eq_true] at hc
      obtain ⟨⟨hsc, hvs⟩, hok⟩ := hc
      have hok' := isNone_eq _ hok
      have hf : lookDef s.defs p ≠ none → s.frozen = false := by
        intro hne
        cases hl : lookDef s.defs p with
        | none => exact absurd hl hne
        | some t =>
          cases hfz : s.frozen with
          | false => rfl
          | true =>
            rw [setValue_frozen_defined sched s p v t hfz hl] at hok'
            cases hok'
      have hi0 := (preState_facts s p hi hf).1
      exact ⟨scopeB_sound _ hi0 p hsc, validSchedule_sound _ _ _ hvs (scopeB_acyclic _ p hsc), hok',
        goodRunB_sound sched cs _ (setValue_MInv sched s p v hi) hrest⟩
    | setExpr p e =>
      simp only [callScopeB, Bool.and_eq_true] at hc
      obtain ⟨⟨hsc, hvs⟩, hok⟩ := hc
      have hok' := isNone_eq _ hok
      have hf : s.frozen = false := by
        cases hfz : s.frozen with
        | false => rfl
        | true =>
          rw [setExpr_frozen sched s p e hfz] at hok'
          cases hok'
      have hi0 := (defPart_facts s p e hi hf).1
      exact ⟨scopeB_sound _ hi0 p hsc, validSchedule_sound _ _ _ hvs (scopeB_acyclic _ p hsc), hok',
        goodRunB_sound sched cs _ (setExpr_MInv sched s p e hi) hrest⟩
    | unregister id =>
      exact goodRunB_sound sched cs _ (unregister_MInv_any s id hi) hrest
    | cleanup => exact goodRunB_sound sched cs _ (cleanup_MInv s hi) hrest
    | verify => exact goodRunB_sound sched cs _ (verify_MInv s hi) hrest
    | refresh => exact goodRunB_sound sched cs _ (refresh_MInv s hi) hrest
    | inplace op p operand =>
      simp only [callScopeB] at hc
      simp only [GoodRun]
      cases hcall : inplaceCall s op p operand with
      | none => simp [hcall] at hc
      | some c =>
        have heq := inplace_eq sched s op p operand c hcall
        have hnext : (apply sched s (.inplace op p operand)).1 = (apply sched s c).1 := by
          simp only [apply, heq]
        rw [hnext] at hrest
        cases c with
        | setValue q v =>
          simp only [hcall, Bool.and_eq_true] at hc
          obtain ⟨⟨hsc, hvs⟩, hok⟩ := hc
          have hok' := isNone_eq _ hok
          have hf : lookDef s.defs q ≠ none → s.frozen = false := by
            intro hne
            cases hl : lookDef s.defs q with
            | none => exact absurd hl hne
            | some t =>
              cases hfz : s.frozen with
              | false => rfl
              | true =>
                rw [setValue_frozen_defined sched s q v t hfz hl] at hok'
                cases hok'
          have hi0 := (preState_facts s q hi hf).1
          exact ⟨scopeB_sound _ hi0 q hsc, validSchedule_sound _ _ _ hvs (scopeB_acyclic _ q hsc), hok',
            goodRunB_sound sched cs _ (setValue_MInv sched s q v hi) hrest⟩
        | setExpr q e =>
          simp only [hcall, Bool.and_eq_true] at hc
          obtain ⟨⟨hsc, hvs⟩, hok⟩ := hc
          have hok' := isNone_eq _ hok
          have hf : s.frozen = false := by
            cases hfz : s.frozen with
            | false => rfl
            | true =>
              rw [setExpr_frozen sched s q e hfz] at hok'
              cases hok'
          have hi0 := (defPart_facts s q e hi hf).1
          exact ⟨scopeB_sound _ hi0 q hsc, validSchedule_sound _ _ _ hvs (scopeB_acyclic _ q hsc), hok',
            goodRunB_sound sched cs _ (setExpr_MInv sched s q e hi) hrest⟩
        | inplace _ _ _ => simp [hcall] at hc
        | register _ => simp [hcall] at hc
        | unregister _ => simp [hcall] at hc
        | load _ _ => simp [hcall] at hc
        | refresh => simp [hcall] at hc
        | cleanup => simp [hcall] at hc
        | verify => simp [hcall] at hc
    | register _ => simp [callScopeB] at hc
    | load _ _ => simp [callScopeB] at hc

/-- **C01 with every hypothesis decided**: a history the driver accepts line by line (`goodRunB`) ends with
    all definitions holding. -/
theorem C01_decided (sched : Sched) (cs : List Call) (s : MState) (hi : MInv s) (hc : Consistent s)
    (h : goodRunB sched s cs = true) : Consistent (applyAll sched s cs) :=
  (goodRun_consistent sched cs s hi hc (goodRunB_sound sched cs s hi h)).1

end Manager
