import XModel.Table
/-! Lemmas for C07: the name cache is coherent with the current index column across every API
    mutation, and a look-up through a coherent cache is the scan of the current index column. -/
namespace TableM
open Cache

theorem lookupA_mapVal {κ ν μ : Type} [DecidableEq κ] (d : List (κ × ν)) (f : ν → μ) (k : κ) :
    lookupA (d.map (fun p => (p.1, f p.2))) k = (lookupA d k).map f := by
  induction d with
  | nil => simp [lookupA]
  | cons p r ih =>
    obtain ⟨k0, v0⟩ := p
    simp only [List.map_cons, lookupA]
    split
    · rfl
    · exact ih

/-- the count dictionary of `_make_cache`: number of occurrences of each name present -/
theorem makeCache_cnt (col : List String) (name : String) :
    lookupA (makeCache col).2 name = if occ col name = 0 then none else some (occ col name) := by
  have h0 : Rep [] (([], []) : Dct × Cnt) :=
    ⟨by intro n c; simp [lookupA, nthOcc], by intro n; simp [lookupA, occ]⟩
  have := scan_rep col [] _ h0
  have hc := this.cnt name
  simp only [List.nil_append, List.length_nil] at hc
  show lookupA ((scan col 0 ([], [])).2.map (fun p => (p.1, p.2 + 1))) name = _
  have hm := lookupA_mapVal (scan col 0 ([], [])).2 (fun x => x + 1) name
  rw [hm, hc]
  by_cases hz : occ col name = 0
  · simp [hz]
  · simp only [hz, if_false, Option.map_some]
    have : occ col name - 1 + 1 = occ col name := by omega
    rw [this]

/-- the cache, when present, is the one a fresh pass over the *current* index column would build -/
def Coherent (t : Tbl) : Prop := t.cache = none ∨ t.cache = some (makeCache t.indexCol)

theorem getCache_spec (t : Tbl) (h : Coherent t) :
    (getCache t).2 = makeCache t.indexCol ∧ (getCache t).1.cache = some (makeCache t.indexCol) ∧
    (getCache t).1.data = t.data ∧ (getCache t).1.index = t.index ∧ (getCache t).1.colNames = t.colNames := by
  unfold getCache
  rcases h with h | h
  · simp [h]
  · simp [h]

theorem indexCol_of_data {t t' : Tbl} (hd : t'.data = t.data) (hi : t'.index = t.index) :
    t'.indexCol = t.indexCol := by
  unfold Tbl.indexCol Tbl.col
  rw [hd, hi]

theorem getCache_coherent (t : Tbl) (h : Coherent t) : Coherent (getCache t).1 := by
  obtain ⟨_, hc, hd, hi, _⟩ := getCache_spec t h
  right
  rw [hc, indexCol_of_data hd hi]

/-- **C07, look-up.**  Through a coherent cache, `_get_row_cache(name, count, offset)` is the scan of
    the current index column: the `count`-th occurrence (negative from the last) plus `offset`. -/
theorem getRowCache_scan (t : Tbl) (h : Coherent t) (row : String) (count : Int) (offset : Int) :
    (getRowCache t row (some count) offset).2 = .ok (scanLookup t.indexCol row count offset) := by
  obtain ⟨hc2, _, _, _, _⟩ := getCache_spec t h
  unfold getRowCache
  generalize hg : getCache t = g at hc2
  obtain ⟨t1, cache, cnt⟩ := g
  simp only at hc2
  have hcache : cache = (makeCache t.indexCol).1 := by rw [← hc2]
  have hcnt : cnt = (makeCache t.indexCol).2 := by rw [← hc2]
  simp only [Option.getD_some]
  unfold scanLookup
  by_cases hneg : count < 0
  · simp only [hneg, if_true]
    rw [hcnt, makeCache_cnt]
    by_cases hz : occ t.indexCol row = 0
    · simp [hz, hneg]
    · simp only [hz, if_false]
      by_cases h2 : count + (occ t.indexCol row : Int) < 0
      · simp [h2]
      · simp only [h2, if_false]
        rw [hcache, makeCache_spec]
        cases nthOcc t.indexCol row (count + (occ t.indexCol row : Int)).toNat <;> rfl
  · simp only [hneg, if_false]
    rw [hcache, makeCache_spec]
    cases nthOcc t.indexCol row count.toNat <;> rfl

theorem getRowCache_coherent (t : Tbl) (h : Coherent t) (row : String) (count : Option Int) (offset : Int) :
    Coherent (getRowCache t row count offset).1 ∧ (getRowCache t row count offset).1.indexCol = t.indexCol := by
  have hc := getCache_coherent t h
  obtain ⟨_, _, hd, hi, _⟩ := getCache_spec t h
  unfold getRowCache
  generalize getCache t = g at hc hd hi
  obtain ⟨t1, cache, cnt⟩ := g
  simp only at hc hd hi ⊢
  have hcol := indexCol_of_data hd hi
  split
  · exact ⟨hc, hcol⟩
  · split <;> (try split) <;> exact ⟨hc, hcol⟩

/-! ### every API mutation keeps the cache coherent -/

theorem lookupA_insert_other {ν : Type} (d : List (String × ν)) (k k' : String) (v : ν) (h : k ≠ k') :
    lookupA (insertA d k v) k' = lookupA d k' := by
  rw [lookup_insert]; simp [h]

theorem setCol_coherent (t : Tbl) (h : Coherent t) (name : String) (vals : List Cell) :
    Coherent (setCol t name vals).1 := by
  unfold setCol
  by_cases hn : name = t.index
  · -- the index column itself: the cache is dropped first, every branch keeps it dropped
    simp only [hn, if_true]
    split
    · split
      · exact Or.inl rfl
      · split
        · exact Or.inl rfl
        · split <;> exact Or.inl rfl
    · simp only
      split <;> exact Or.inl rfl
  · -- another column: the index column is untouched
    simp only [hn, if_false]
    have keep : ∀ (d' : List (String × List Cell)), lookupA d' t.index = lookupA t.data t.index →
        ∀ t' : Tbl, t'.data = d' → t'.index = t.index → t'.cache = t.cache → Coherent t' := by
      intro d' hd t' h1 h2 h3
      have : t'.indexCol = t.indexCol := by
        unfold Tbl.indexCol Tbl.col; rw [h1, h2, hd]
      rcases h with h | h
      · left; rw [h3, h]
      · right; rw [h3, h, this]
    split
    · split
      · exact h
      · split
        · exact keep _ (lookupA_insert_other _ _ _ _ hn) _ rfl rfl rfl
        · split
          · exact keep _ (lookupA_insert_other _ _ _ _ hn) _ rfl rfl rfl
          · exact h
    · simp only
      split
      · exact keep _ (lookupA_insert_other _ _ _ _ hn) _ rfl rfl rfl
      · exact keep _ (lookupA_insert_other _ _ _ _ hn) _ rfl rfl rfl


/-! ### look-ups only ever touch the cache -/

/-- `t'` is `t` with a (still coherent) cache: same columns, same index, same listed names -/
def Keeps (t t' : Tbl) : Prop :=
  Coherent t' ∧ t'.data = t.data ∧ t'.index = t.index ∧ t'.colNames = t.colNames ∧
  t'.sepCount = t.sepCount ∧ t'.sepPrev = t.sepPrev ∧ t'.sepNext = t.sepNext

theorem Keeps.refl {t : Tbl} (h : Coherent t) : Keeps t t := ⟨h, rfl, rfl, rfl, rfl, rfl, rfl⟩

theorem Keeps.trans {a b c : Tbl} (h1 : Keeps a b) (h2 : Keeps b c) : Keeps a c :=
  ⟨h2.1, h2.2.1.trans h1.2.1, h2.2.2.1.trans h1.2.2.1, h2.2.2.2.1.trans h1.2.2.2.1,
   h2.2.2.2.2.1.trans h1.2.2.2.2.1, h2.2.2.2.2.2.1.trans h1.2.2.2.2.2.1, h2.2.2.2.2.2.2.trans h1.2.2.2.2.2.2⟩

theorem Keeps.indexCol {t t' : Tbl} (h : Keeps t t') : t'.indexCol = t.indexCol := indexCol_of_data h.2.1 h.2.2.1

theorem getCache_keeps (t : Tbl) (h : Coherent t) : Keeps t (getCache t).1 := by
  have hc := getCache_coherent t h
  unfold getCache at hc ⊢
  cases hcache : t.cache with
  | some c => simp only [hcache]; exact Keeps.refl h
  | none =>
    simp only [hcache] at hc ⊢
    exact ⟨hc, rfl, rfl, rfl, rfl, rfl, rfl⟩

theorem getRowCache_keeps (t : Tbl) (h : Coherent t) (row : String) (count : Option Int) (offset : Int) :
    Keeps t (getRowCache t row count offset).1 := by
  have hk := getCache_keeps t h
  unfold getRowCache
  generalize getCache t = g at hk
  obtain ⟨t1, cache, cnt⟩ := g
  simp only at hk ⊢
  split
  · exact hk
  · split <;> (try split) <;> exact hk

theorem getRowCacheRaise_keeps (t : Tbl) (h : Coherent t) (row : String) (count : Option Int) (offset : Int) :
    Keeps t (getRowCacheRaise t row count offset).1 := by
  have hk := getRowCache_keeps t h row count offset
  unfold getRowCacheRaise
  generalize getRowCache t row count offset = r at hk
  obtain ⟨t1, x⟩ := r
  cases x with
  | error e => exact hk
  | ok o => cases o <;> exact hk

theorem getRowIndex_keeps (t : Tbl) (h : Coherent t) (row : Row) : Keeps t (getRowIndex t row).1 := by
  cases row with
  | pos i => exact Keeps.refl h
  | name s =>
    simp only [getRowIndex]
    split
    · exact Keeps.refl h
    · exact getRowCacheRaise_keeps t h _ _ _
  | tup n c o => exact getRowCacheRaise_keeps t h _ _ _

theorem resolveCellRow_keeps (t : Tbl) (h : Coherent t) (row : Row) : Keeps t (resolveCellRow t row).1 := by
  have hk := getCache_keeps t h
  cases row with
  | pos i => exact Keeps.refl h
  | name s =>
    simp only [resolveCellRow]
    generalize getCache t = g at hk
    obtain ⟨t1, cache, cnt⟩ := g
    simp only at hk ⊢
    split
    · exact hk
    · split
      · exact hk
      · exact hk.trans (getRowCacheRaise_keeps t1 hk.1 _ _ _)
  | tup n c o =>
    simp only [resolveCellRow]
    generalize getCache t = g at hk
    obtain ⟨t1, cache, cnt⟩ := g
    simp only at hk ⊢
    split
    · exact hk
    · exact hk.trans (getRowCacheRaise_keeps t1 hk.1 _ _ _)

/-- **C07, look-up by tuple through the public entry point**: `rows.get_index((name, count, offset))` on a
    coherent table is the scan of the current index column, `KeyError` when there is no such occurrence -/
theorem getRowIndex_scan (t : Tbl) (h : Coherent t) (name : String) (count : Int) (offset : Option Int) :
    (getRowIndex t (.tup name count offset)).2 =
      match scanLookup t.indexCol name count (offset.getD 0) with
      | some i => .ok i
      | none => .error .keyError := by
  have hs := getRowCache_scan t h name count (offset.getD 0)
  simp only [getRowIndex, getRowCacheRaise]
  generalize getRowCache t name (some count) (offset.getD 0) = r at hs
  obtain ⟨t1, x⟩ := r
  simp only at hs
  subst hs
  cases scanLookup t.indexCol name count (offset.getD 0) <;> rfl

theorem indexCol_insert_other (t t' : Tbl) (col : String) (nv : List Cell) (hd : t'.data = insertA t.data col nv)
    (hi : t'.index = t.index) (hc : col ≠ t.index) : t'.indexCol = t.indexCol := by
  unfold Tbl.indexCol Tbl.col
  rw [hd, hi, lookupA_insert_other _ _ _ _ hc]

/-- a cell assignment — by position, by name or by tuple, in the index column or elsewhere — keeps the cache
    coherent (a write into the index column drops it) -/
theorem setCell_coherent (t : Tbl) (h : Coherent t) (col : String) (row : Row) (v : Cell) :
    Coherent (setCell t col row v).1 := by
  have hk := resolveCellRow_keeps t h row
  unfold setCell
  split
  · exact h
  · generalize resolveCellRow t row = r at hk
    obtain ⟨t1, x⟩ := r
    simp only at hk ⊢
    cases x with
    | error e => exact hk.1
    | ok i =>
      simp only
      split
      · exact hk.1
      · by_cases hc : col = t.index
        · simp only [hc, if_true]; exact Or.inl rfl
        · simp only [hc, if_false]
          have hc' : col ≠ t1.index := by rw [hk.2.2.1]; exact hc
          rcases hk.1 with h1 | h1
          · left; exact h1
          · right
            simp only
            rw [h1]
            refine congrArg (fun c => some (makeCache c)) (Eq.symm ?_)
            exact indexCol_insert_other t1 _ col _ rfl rfl hc'

/-- deleting a column drops it from the data; the cache stays coherent unless it is the index column, in
    which case no name resolves any more (the scan of an absent column is empty) -/
theorem delCol_coherent (t : Tbl) (h : Coherent t) (name : String) (hn : name ≠ t.index) :
    Coherent (delCol t name).1 := by
  unfold delCol
  have key : ∀ t' : Tbl, t'.index = t.index → t'.cache = t.cache →
      lookupA t'.data t.index = lookupA t.data t.index → Coherent t' := by
    intro t' h2 h3 hd
    have : t'.indexCol = t.indexCol := by
      unfold Tbl.indexCol Tbl.col; rw [h2, hd]
    rcases h with h | h
    · left; rw [h3, h]
    · right; rw [h3, h, this]
  split
  · exact key _ rfl rfl rfl
  · refine key _ rfl rfl ?_
    simp only
    induction t.data with
    | nil => rfl
    | cons p r ih =>
      simp only [List.filter_cons]
      by_cases hp : p.1 = name
      · have : p.1 ≠ t.index := fun e => hn (hp ▸ e)
        simp only [hp, ne_eq, not_true_eq_false, decide_false, Bool.false_eq_true, if_false]
        rw [ih]
        simp only [lookupA]
        rw [if_neg this]
      · simp only [ne_eq, hp, not_false_eq_true, decide_true, if_true, lookupA]
        split
        · rfl
        · exact ih


/-! ### every history of API calls -/

/-- the table API the property quantifies over -/
inductive TOp where
  | setCol (name : String) (vals : List Cell)          -- `t[name] = column`, `t.name = column`, new columns
  | setCell (col : String) (row : Row) (v : Cell)      -- `t[col, row] = v`, row by position / name / tuple
  | delCol (name : String)                             -- `del t[name]`
  | getIndex (row : Row)                               -- `t.rows.get_index(row)`, `t // row`
  | getCell (col : String) (row : Row)                 -- `t[col, row]`

def applyTOp (t : Tbl) : TOp → Tbl
  | .setCol n v => (setCol t n v).1
  | .setCell c r v => (setCell t c r v).1
  | .delCol n => (delCol t n).1
  | .getIndex r => (getRowIndex t r).1
  | .getCell c r => (getCell t c r).1

/-- the index column's *name* never changes -/
theorem applyTOp_index (t : Tbl) (op : TOp) (h : Coherent t) : (applyTOp t op).index = t.index := by
  cases op with
  | setCol n v =>
    simp only [applyTOp, setCol]
    repeat' split
    all_goals rfl
  | setCell c r v =>
    have hk := resolveCellRow_keeps t h r
    simp only [applyTOp, setCell]
    split
    · rfl
    · generalize resolveCellRow t r = x at hk
      obtain ⟨t1, y⟩ := x
      cases y with
      | error e => exact hk.2.2.1
      | ok i =>
        simp only
        split
        · exact hk.2.2.1
        · split <;> exact hk.2.2.1
  | delCol n => simp only [applyTOp, delCol]; split <;> rfl
  | getIndex r => exact (getRowIndex_keeps t h r).2.2.1
  | getCell c r =>
    have hk := resolveCellRow_keeps t h r
    simp only [applyTOp, getCell]
    split
    · rfl
    · generalize resolveCellRow t r = x at hk
      obtain ⟨t1, y⟩ := x
      cases y with
      | error e => exact hk.2.2.1
      | ok i => simp only; split <;> exact hk.2.2.1

theorem applyTOp_coherent (t : Tbl) (op : TOp) (h : Coherent t)
    (hdel : ∀ n, op = .delCol n → n ≠ t.index) : Coherent (applyTOp t op) := by
  cases op with
  | setCol n v => exact setCol_coherent t h n v
  | setCell c r v => exact setCell_coherent t h c r v
  | delCol n => exact delCol_coherent t h n (hdel n rfl)
  | getIndex r => exact (getRowIndex_keeps t h r).1
  | getCell c r =>
    have hk := resolveCellRow_keeps t h r
    simp only [applyTOp, getCell]
    split
    · exact h
    · generalize resolveCellRow t r = x at hk
      obtain ⟨t1, y⟩ := x
      cases y with
      | error e => exact hk.1
      | ok i => simp only; split <;> exact hk.1

/-- **C07 over histories**: after any sequence of API calls (the index column itself is never deleted) the
    cache, if present, is the one a fresh pass over the current index column builds -/
theorem history_coherent : ∀ (ops : List TOp) (t : Tbl), Coherent t →
    (∀ n, TOp.delCol n ∈ ops → n ≠ t.index) → Coherent (ops.foldl applyTOp t)
  | [], t, h, _ => h
  | op :: ops, t, h, hdel => by
    have h1 := applyTOp_coherent t op h (fun n e => hdel n (e ▸ List.mem_cons_self ..))
    refine history_coherent ops _ h1 ?_
    intro n hn
    rw [applyTOp_index t op h]
    exact hdel n (List.mem_cons_of_mem _ hn)

end TableM
