import XModel.Table
/-! Lemmas for C07: the name cache is coherent with the current index column across every API
    mutation, and a look-up through a coherent cache is the scan of the current index column. -/
namespace TableM
open Cache

theorem lookupA_mapVal {κ ν μ : Type} [DecidableEq κ] (d : List (κ × ν)) (f : ν → μ) (k : κ) :
    lookupA (d.map (fun p => (p.1, f p.2))) k = (lookupA d k).map f := by
  induction d with
  | nil => simp [lookupA]
  | cons p r ih =>
    obtain ⟨k0, v0⟩ := p
    simp only [List.map_cons, lookupA]
    split
    · rfl
    · exact ih

/-- the count dictionary of `_make_cache`: number of occurrences of each name present -/
theorem makeCache_cnt (col : List String) (name : String) :
    lookupA (makeCache col).2 name = if occ col name = 0 then none else some (occ col name) := by
  have h0 : Rep [] (([], []) : Dct × Cnt) :=
    ⟨by intro n c; simp [lookupA, nthOcc], by intro n; simp [lookupA, occ]⟩
  have := scan_rep col [] _ h0
  have hc := this.cnt name
  simp only [List.nil_append, List.length_nil] at hc
  show lookupA ((scan col 0 ([], [])).2.map (fun p => (p.1, p.2 + 1))) name = _
  have hm := lookupA_mapVal (scan col 0 ([], [])).2 (fun x => x + 1) name
  rw [hm, hc]
  by_cases hz : occ col name = 0
  · simp [hz]
  · simp only [hz, if_false, Option.map_some]
    have : occ col name - 1 + 1 = occ col name := by omega
    rw [this]

/-- the cache, when present, is the one a fresh pass over the *current* index column would build -/
def Coherent (t : Tbl) : Prop := t.cache = none ∨ t.cache = some (makeCache t.indexCol)

theorem getCache_spec (t : Tbl) (h : Coherent t) :
    (getCache t).2 = makeCache t.indexCol ∧ (getCache t).1.cache = some (makeCache t.indexCol) ∧
    (getCache t).1.data = t.data ∧ (getCache t).1.index = t.index ∧ (getCache t).1.colNames = t.colNames := by
  unfold getCache
  rcases h with h | h
  · simp [h]
  · simp [h]

theorem indexCol_of_data {t t' : Tbl} (hd : t'.data = t.data) (hi : t'.index = t.index) :
    t'.indexCol = t.indexCol := by
  unfold Tbl.indexCol Tbl.col
  rw [hd, hi]

theorem getCache_coherent (t : Tbl) (h : Coherent t) : Coherent (getCache t).1 := by
  obtain ⟨_, hc, hd, hi, _⟩ := getCache_spec t h
  right
  rw [hc, indexCol_of_data hd hi]

/-- **C07, look-up.**  Through a coherent cache, `_get_row_cache(name, count, offset)` is the scan of
    the current index column: the `count`-th occurrence (negative from the last) plus `offset`. -/
theorem getRowCache_scan (t : Tbl) (h : Coherent t) (row : String) (count : Int) (offset : Int) :
    (getRowCache t row (some count) offset).2 = .ok (scanLookup t.indexCol row count offset) := by
  obtain ⟨hc2, _, _, _, _⟩ := getCache_spec t h
  unfold getRowCache
  generalize hg : getCache t = g at hc2
  obtain ⟨t1, cache, cnt⟩ := g
  simp only at hc2
  have hcache : cache = (makeCache t.indexCol).1 := by rw [← hc2]
  have hcnt : cnt = (makeCache t.indexCol).2 := by rw [← hc2]
  simp only [Option.getD_some]
  unfold scanLookup
  by_cases hneg : count < 0
  · simp only [hneg, if_true]
    rw [hcnt, makeCache_cnt]
    by_cases hz : occ t.indexCol row = 0
    · simp [hz, hneg]
    · simp only [hz, if_false]
      by_cases h2 : count + (occ t.indexCol row : Int) < 0
      · simp [h2]
      · simp only [h2, if_false]
        rw [hcache, makeCache_spec]
        cases nthOcc t.indexCol row (count + (occ t.indexCol row : Int)).toNat <;> rfl
  · simp only [hneg, if_false]
    rw [hcache, makeCache_spec]
    cases nthOcc t.indexCol row count.toNat <;> rfl

theorem getRowCache_coherent (t : Tbl) (h : Coherent t) (row : String) (count : Option Int) (offset : Int) :
    Coherent (getRowCache t row count offset).1 ∧ (getRowCache t row count offset).1.indexCol = t.indexCol := by
  have hc := getCache_coherent t h
  obtain ⟨_, _, hd, hi, _⟩ := getCache_spec t h
  unfold getRowCache
  generalize getCache t = g at hc hd hi
  obtain ⟨t1, cache, cnt⟩ := g
  simp only at hc hd hi ⊢
  have hcol := indexCol_of_data hd hi
  split
  · exact ⟨hc, hcol⟩
  · split <;> (try split) <;> exact ⟨hc, hcol⟩

/-! ### every API mutation keeps the cache coherent -/

theorem lookupA_insert_other {ν : Type} (d : List (String × ν)) (k k' : String) (v : ν) (h : k ≠ k') :
    lookupA (insertA d k v) k' = lookupA d k' := by
  rw [lookup_insert]; simp [h]

theorem setCol_coherent (t : Tbl) (h : Coherent t) (name : String) (vals : List Cell) :
    Coherent (setCol t name vals).1 := by
  unfold setCol
  by_cases hn : name = t.index
  · -- the index column itself: the cache is dropped first, every branch keeps it dropped
    simp only [hn, if_true]
    split
    · split
      · exact Or.inl rfl
      · split
        · exact Or.inl rfl
        · split <;> exact Or.inl rfl
    · simp only
      split <;> exact Or.inl rfl
  · -- another column: the index column is untouched
    simp only [hn, if_false]
    have keep : ∀ (d' : List (String × List Cell)), lookupA d' t.index = lookupA t.data t.index →
        ∀ t' : Tbl, t'.data = d' → t'.index = t.index → t'.cache = t.cache → Coherent t' := by
      intro d' hd t' h1 h2 h3
      have : t'.indexCol = t.indexCol := by
        unfold Tbl.indexCol Tbl.col; rw [h1, h2, hd]
      rcases h with h | h
      · left; rw [h3, h]
      · right; rw [h3, h, this]
    split
    · split
      · exact h
      · split
        · exact keep _ (lookupA_insert_other _ _ _ _ hn) _ rfl rfl rfl
        · split
          · exact keep _ (lookupA_insert_other _ _ _ _ hn) _ rfl rfl rfl
          · exact h
    · simp only
      split
      · exact keep _ (lookupA_insert_other _ _ _ _ hn) _ rfl rfl rfl
      · exact keep _ (lookupA_insert_other _ _ _ _ hn) _ rfl rfl rfl

end TableM
