import XModel.TableSpan
/-!
# C08: tuple selectors `rows[s1, s2, …]`, and the three views `rows.indices` / `rows.mask` / `rows[...]`

Statements about the API functions `indicesOf`, `maskOf`, `rowsOf` of `XModel/Table.lean` (not about raw position
lists).  Reading guide:

1. **Invariant.**  `Rect t` speaks of the entry `t.col c` FINDS for each LISTED name `c`; it says nothing about `_data`
   entries that are not listed (e.g. `t['junk'] = [7]` on a longer table) or that are shadowed by an earlier entry of
   the same name — and `_select_rows` (`selectRows`) subscripts every entry.  `dataFull_of_rect`: when `_data` holds
   exactly the listed columns (`Listed`), `Rect` gives the side condition `hfull` of `selectRows_comp`/`C08_compose`
   (`DataFull`).  The invariant the composition law needs is the weaker `DataCovers` (every `_data` entry has AT LEAST
   `nrows` cells); `selectRows_inv`, `rowsOf_inv`, `rowsOf_fst_inv`, `rowsChain_inv`: `Rect ∧ DataCovers` is kept by
   `_select_rows` / `rows[...]` (the result even satisfies `DataFull`).  `junkExample`: `Rect` alone is not enough.
2. **Composition.**  `rowsOf_tuple_chain` (any length ≥ 1), `rowsOf_pair`, `rowsOf_pair_error_first`, `rowsOf_pair_ok`:
   `rows[s1, …, sk]` is `rows[s1].rows[s2]…` as a `Tbl` (all fields), error cases included, proved against the loop
   `indicesOf.go` over successive views (`indicesOf_go_cons`, `indicesOf_go_chain`) and `selectRows` composition.
   `rowsOf_tuple_chain_listed`, `rowsOf_tuple_chain_rect` (2′): with NO hypothesis on `_data` (just `Coherent`, resp.
   `Rect`) both sides fail together with the same error and agree on the index column, the listed names, the number
   of rows and every listed column.  (Remark for the model's owner: `Table._select_rows` in `xdeps/table.py` subscripts
   the listed columns only and copies the other `_data` entries unchanged, whereas `selectRows` subscripts every entry;
   `DataCovers` is needed only because of that, (2′) is insensitive to it.)
   `indicesOf_pair`: the `rows.indices` side.  `rowsOf_tuple_nil`: the empty tuple.  Nested tuples are rejected by the
   model (`stepPos_tuple`, examples).
3. **Three views, every selector.**  `mask_iff_indices`, `rows_eq_indices` / `rows_indexCol_eq`, `views_fail_together`,
   `views_same_table`, `indicesOf_tuple_inrange`.
-/
namespace TableM
open Cache

/-! ## (1) the invariant on `_data` -/

/-- every entry of `_data` — listed in `colNames` or not, shadowed by an earlier entry of the same name or not —
    holds at least `nrows` cells -/
def DataCovers (t : Tbl) : Prop := ∀ p ∈ t.data, t.nrows ≤ p.2.length

/-- every entry of `_data` holds exactly `nrows` cells (the `hfull` side condition of `selectRows_comp`) -/
def DataFull (t : Tbl) : Prop := ∀ p ∈ t.data, p.2.length = t.nrows

/-- `_data` holds the listed columns and nothing else: no two entries under one name, every entry listed -/
def Listed (t : Tbl) : Prop := (t.data.map (·.1)).Nodup ∧ ∀ p ∈ t.data, p.1 ∈ t.colNames

theorem DataFull.covers {t : Tbl} (h : DataFull t) : DataCovers t := fun p hp => Nat.le_of_eq (h p hp).symm

theorem lookupA_of_mem_nodup {ν : Type} : ∀ (d : List (String × ν)) (k : String) (v : ν),
    (d.map (·.1)).Nodup → (k, v) ∈ d → lookupA d k = some v
  | [], _, _, _, h => by cases h
  | (k0, v0) :: r, k, v, hn, h => by
    simp only [List.map_cons, List.nodup_cons] at hn
    simp only [lookupA]
    rcases List.mem_cons.mp h with e | e
    · cases e; simp
    · have hk : k ∈ r.map (·.1) := List.mem_map.mpr ⟨(k, v), e, rfl⟩
      have hne : k0 ≠ k := fun e' => hn.1 (e' ▸ hk)
      rw [if_neg hne]
      exact lookupA_of_mem_nodup r k v hn.2 e

/-- **(1a)** what `Rect` gives for `_data`: the entry that `t.col c` FINDS for a listed name `c` has length `nrows`.
    When nothing else is stored (`Listed`), that is every entry: the `hfull` condition of `selectRows_comp` /
    `C08_compose` with `n = t.nrows`. -/
theorem dataFull_of_rect (t : Tbl) (hr : Rect t) (hl : Listed t) : DataFull t := by
  intro p hp
  obtain ⟨v, hv, hlen⟩ := hr.2 p.1 (hl.2 p hp)
  have : lookupA t.data p.1 = some p.2 := lookupA_of_mem_nodup t.data p.1 p.2 hl.1 hp
  have e : v = p.2 := by
    have hv' : lookupA t.data p.1 = some v := hv
    rw [this] at hv'
    exact (Option.some.inj hv').symm
  rw [← e]; exact hlen

/-! ### lengths after `selectRows` -/

theorem length_filterMap_inrange {α : Type} (v : List α) : ∀ ps : List Nat, (∀ k ∈ ps, k < v.length) →
    (ps.filterMap (fun k => v[k]?)).length = ps.length
  | [], _ => rfl
  | k :: ps, h => by
    have hk : k < v.length := h k (List.mem_cons_self ..)
    simp only [List.filterMap_cons, List.getElem?_eq_getElem hk, List.length_cons]
    rw [length_filterMap_inrange v ps (fun j hj => h j (List.mem_cons_of_mem _ hj))]

theorem selectRows_nrows (t : Tbl) (hr : Rect t) (ps : List Nat) (hps : ∀ k ∈ ps, k < t.nrows) :
    (selectRows t ps).nrows = ps.length := by
  have hne : t.colNames ≠ [] := fun e => by have := hr.1; rw [e] at this; cases this
  unfold Tbl.nrows
  have hcn : (selectRows t ps).colNames = t.colNames := rfl
  rw [hcn]
  cases hc : t.colNames with
  | nil => exact absurd hc hne
  | cons k rest =>
    simp only
    obtain ⟨v, hv, hl⟩ := hr.2 k (by rw [hc]; exact List.mem_cons_self ..)
    rw [selectRows_col, hv]
    simp only [Option.map_some]
    exact length_filterMap_inrange v ps (fun j hj => by rw [hl]; exact hps j hj)

/-- **(1b)** `_select_rows` at positions inside the table keeps the invariant, and makes it exact: the result is
    rectangular with `ps.length` rows, EVERY `_data` entry has exactly that length, and it starts without a cache -/
theorem selectRows_inv (t : Tbl) (hr : Rect t) (hd : DataCovers t) (ps : List Nat) (hps : ∀ k ∈ ps, k < t.nrows) :
    Rect (selectRows t ps) ∧ DataFull (selectRows t ps) ∧ (selectRows t ps).nrows = ps.length ∧
    Coherent (selectRows t ps) := by
  have hn := selectRows_nrows t hr ps hps
  refine ⟨⟨hr.1, ?_⟩, ?_, hn, Or.inl rfl⟩
  · intro c hc
    obtain ⟨v, hv, hl⟩ := hr.2 c hc
    refine ⟨_, by rw [selectRows_col, hv]; rfl, ?_⟩
    rw [hn]
    exact length_filterMap_inrange v ps (fun j hj => by rw [hl]; exact hps j hj)
  · intro p hp
    rw [hn]
    obtain ⟨q, hq, rfl⟩ := List.mem_map.mp hp
    exact length_filterMap_inrange q.2 ps (fun j hj => Nat.lt_of_lt_of_le (hps j hj) (hd q hq))

theorem selectRows_listed (t : Tbl) (ps : List Nat) (hl : Listed t) : Listed (selectRows t ps) := by
  have hk : (selectRows t ps).data.map (·.1) = t.data.map (·.1) := by
    simp [selectRows, List.map_map, Function.comp_def]
  refine ⟨by rw [hk]; exact hl.1, ?_⟩
  intro p hp
  obtain ⟨q, hq, rfl⟩ := List.mem_map.mp hp
  exact hl.2 q hq

/-- a table that differs only by its name cache selects the same rows (the result starts without a cache) -/
theorem selectRows_keeps {t t' : Tbl} (h : Keeps t t') (ps : List Nat) : selectRows t' ps = selectRows t ps := by
  obtain ⟨_, h1, h2, h3, h4, h5, h6⟩ := h
  cases t; cases t'
  simp only [selectRows] at *
  subst h1 h2 h3 h4 h5 h6
  rfl

theorem Keeps.rect {t t' : Tbl} (h : Keeps t t') (hr : Rect t) : Rect t' := by
  refine ⟨by rw [h.2.2.1, h.2.2.2.1]; exact hr.1, ?_⟩
  intro c hc
  rw [h.2.2.2.1] at hc
  obtain ⟨v, hv, hl⟩ := hr.2 c hc
  exact ⟨v, by rw [h.col]; exact hv, by rw [h.nrows]; exact hl⟩

theorem Keeps.covers {t t' : Tbl} (h : Keeps t t') (hd : DataCovers t) : DataCovers t' := by
  intro p hp
  rw [h.nrows]
  rw [h.2.1] at hp
  exact hd p hp

/-! ### positions: `normAll`, Python slices -/

theorem normPos_lt (n : Nat) (i : Int) (k : Nat) (h : normPos n i = some k) : k < n := by
  unfold normPos at h
  split at h
  · split at h
    · cases h; assumption
    · cases h
  · split at h
    · cases h; omega
    · cases h

theorem normAll_nil (n : Nat) : normAll n [] = .ok [] := rfl

theorem normAll_cons_none (n : Nat) (i : Int) (l : List Int) (h : normPos n i = none) :
    normAll n (i :: l) = .error .indexError := by
  unfold normAll
  simp only [List.mapM_cons, h]
  rfl

theorem normAll_cons_some (n : Nat) (i : Int) (l : List Int) (k : Nat) (h : normPos n i = some k) :
    normAll n (i :: l) = (normAll n l).map (fun ps => k :: ps) := by
  unfold normAll
  simp only [List.mapM_cons, h]
  generalize hr : List.mapM (m := Except TErr) _ l = r
  cases r <;> rfl

/-- a successful `normAll` is the element-wise normalisation -/
theorem normAll_ok_iff (n : Nat) : ∀ (l : List Int) (ps : List Nat),
    normAll n l = .ok ps ↔ l.map (normPos n) = ps.map some
  | [], ps => by
    rw [normAll_nil]
    cases ps <;> simp
  | i :: l, ps => by
    have ih := normAll_ok_iff n l
    cases hp : normPos n i with
    | none =>
      rw [normAll_cons_none n i l hp]
      cases ps <;> simp [hp]
    | some k =>
      rw [normAll_cons_some n i l k hp]
      cases hr : normAll n l with
      | error e =>
        simp only [Except.map, reduceCtorEq, false_iff]
        intro hc
        cases ps with
        | nil => simp at hc
        | cons q qs =>
          simp only [List.map_cons, List.cons.injEq] at hc
          have := (ih qs).mpr hc.2
          rw [hr] at this; cases this
      | ok qs =>
        have h1 := (ih qs).mp hr
        simp only [Except.map, Except.ok.injEq]
        constructor
        · rintro rfl
          simp [h1, hp]
        · intro hc
          cases ps with
          | nil => simp at hc
          | cons q qs' =>
            simp only [List.map_cons, List.cons.injEq, hp, Option.some.injEq] at hc
            have := (ih qs').mpr hc.2
            rw [hr] at this
            cases this
            rw [hc.1]

/-- a failing `normAll` is an `IndexError`, and some position does not normalise -/
theorem normAll_error (n : Nat) : ∀ (l : List Int) (e : TErr), normAll n l = .error e →
    e = .indexError ∧ ∃ j ∈ l, normPos n j = none
  | [], e, h => by rw [normAll_nil] at h; cases h
  | i :: l, e, h => by
    cases hp : normPos n i with
    | none =>
      rw [normAll_cons_none n i l hp] at h; cases h
      exact ⟨rfl, i, List.mem_cons_self .., hp⟩
    | some k =>
      rw [normAll_cons_some n i l k hp] at h
      cases hr : normAll n l with
      | error e' =>
        rw [hr] at h; cases h
        obtain ⟨h1, j, hj, h2⟩ := normAll_error n l e hr
        exact ⟨h1, j, List.mem_cons_of_mem _ hj, h2⟩
      | ok qs => rw [hr] at h; cases h

theorem normAll_lt (n : Nat) (l : List Int) (ps : List Nat) (h : normAll n l = .ok ps) : ∀ k ∈ ps, k < n := by
  intro k hk
  have h1 := (normAll_ok_iff n l ps).mp h
  have : some k ∈ l.map (normPos n) := by rw [h1]; exact List.mem_map.mpr ⟨k, hk, rfl⟩
  obtain ⟨i, _, hi⟩ := List.mem_map.mp this
  exact normPos_lt n i k hi

/-- positions that are already inside `0..n-1` normalise to themselves -/
theorem normAll_of_range (n : Nat) (l : List Int) (h : ∀ j ∈ l, 0 ≤ j ∧ j < (n : Int)) :
    normAll n l = .ok (l.map Int.toNat) := by
  rw [normAll_ok_iff]
  simp only [List.map_map]
  apply List.map_congr_left
  intro j hj
  obtain ⟨h0, h1⟩ := h j hj
  simp only [Function.comp, normPos]
  rw [if_pos h0, if_pos (by omega)]

theorem slice_up_arith (start stop step : Int) (k : Nat) (hs : 0 < step) (h0 : 0 ≤ start)
    (hk : k < (if stop > start then ((stop - start + step - 1) / step).toNat else 0)) :
    0 ≤ start + (k : Int) * step ∧ start + (k : Int) * step < stop := by
  split at hk
  · have hq : (k : Int) + 1 ≤ (stop - start + step - 1) / step := by omega
    have h1 : (stop - start + step - 1) / step * step ≤ stop - start + step - 1 :=
      Int.ediv_mul_le _ (by omega)
    have h2 : ((k : Int) + 1) * step ≤ (stop - start + step - 1) / step * step :=
      Int.mul_le_mul_of_nonneg_right hq (by omega)
    have h3 : ((k : Int) + 1) * step = (k : Int) * step + step := by rw [Int.add_mul, Int.one_mul]
    have h4 : 0 ≤ (k : Int) * step := Int.mul_nonneg (by omega) (by omega)
    generalize (k : Int) * step = ks at *
    omega
  · omega

theorem slice_down_arith (start stop step : Int) (k : Nat) (hs : step < 0)
    (hk : k < (if start > stop then ((start - stop + (-step) - 1) / (-step)).toNat else 0)) :
    stop < start + (k : Int) * step ∧ start + (k : Int) * step ≤ start := by
  split at hk
  · have hq : (k : Int) + 1 ≤ (start - stop + (-step) - 1) / (-step) := by omega
    have h1 : (start - stop + (-step) - 1) / (-step) * (-step) ≤ start - stop + (-step) - 1 :=
      Int.ediv_mul_le _ (by omega)
    have h2 : ((k : Int) + 1) * (-step) ≤ (start - stop + (-step) - 1) / (-step) * (-step) :=
      Int.mul_le_mul_of_nonneg_right hq (by omega)
    have h3 : ((k : Int) + 1) * (-step) = -((k : Int) * step) + (-step) := by
      rw [Int.add_mul, Int.one_mul, Int.mul_neg]
    have h4 : 0 ≤ (k : Int) * (-step) := Int.mul_nonneg (by omega) (by omega)
    rw [Int.mul_neg] at h4
    generalize (k : Int) * step = ks at *
    omega
  · omega

theorem slice_up_mem (n : Nat) (start stop step : Int) (hs : 0 < step) (h0 : 0 ≤ start) (hn : stop ≤ (n : Int)) :
    ∀ j ∈ (List.range (if stop > start then ((stop - start + step - 1) / step).toNat else 0)).map
      (fun (k : Nat) => start + (k : Int) * step), 0 ≤ j ∧ j < (n : Int) := by
  intro j hj
  obtain ⟨k, hk, rfl⟩ := List.mem_map.mp hj
  have := slice_up_arith start stop step k hs h0 (List.mem_range.mp hk)
  omega

theorem slice_down_mem (n : Nat) (start stop step : Int) (hs : step < 0) (h0 : start ≤ (n : Int) - 1) (hn : -1 ≤ stop) :
    ∀ j ∈ (List.range (if start > stop then ((start - stop + (-step) - 1) / (-step)).toNat else 0)).map
      (fun (k : Nat) => start + (k : Int) * step), 0 ≤ j ∧ j < (n : Int) := by
  intro j hj
  obtain ⟨k, hk, rfl⟩ := List.mem_map.mp hj
  have := slice_down_arith start stop step k hs (List.mem_range.mp hk)
  omega

/-- Python's `range(n)[a:b:c]` only lists positions of the table -/
theorem pySlice_range (n : Nat) (a b c : Option Int) (l : List Int) (h : pySlice n a b c = .ok l) :
    ∀ j ∈ l, 0 ≤ j ∧ j < (n : Int) := by
  unfold pySlice at h
  simp only at h
  split at h
  · cases h
  · next hne =>
    split at h
    · next hpos =>
      simp only [Except.ok.injEq] at h
      subst h
      apply slice_up_mem n _ _ _ hpos
      · cases a with
        | none => simp
        | some x => simp only; (repeat' split) <;> omega
      · cases b with
        | none => simp
        | some x => simp only; (repeat' split) <;> omega
    · next hnpos =>
      have hneg : c.getD 1 < 0 := by omega
      simp only [Except.ok.injEq] at h
      subst h
      apply slice_down_mem n _ _ _ hneg
      · cases a with
        | none => simp
        | some x => simp only; (repeat' split) <;> omega
      · cases b with
        | none => simp
        | some x => simp only; (repeat' split) <;> omega

/-! ### resolving a selector only ever touches the name cache -/

theorem getRegexpIndices_keeps (t : Tbl) (h : Coherent t) (m : Match) (sel : String) :
    Keeps t (getRegexpIndices t m sel).1 := by
  unfold getRegexpIndices
  cases hsp : splitNameCountOffset t sel with
  | error e => exact Keeps.refl h
  | ok r =>
    obtain ⟨name, count, offset⟩ := r
    cases count with
    | none => exact Keeps.refl h
    | some c =>
      simp only
      have hk := getRowCache_keeps t h name (some c) offset
      generalize getRowCache t name (some c) offset = r at hk
      obtain ⟨t1, x⟩ := r
      simp only at hk
      cases x with
      | error e => exact hk
      | ok o =>
        cases o with
        | some i => exact hk
        | none =>
          simp only
          obtain ⟨t', he, hk'⟩ := regexp_loop_spec c (firstOccNames t1.indexCol m) t1 [] hk.1
          rw [he]
          exact hk.trans hk'

theorem mapMState_keeps {α β : Type} (f : Tbl → α → Tbl × Except TErr β)
    (hf : ∀ t a, Coherent t → Keeps t (f t a).1) : ∀ (l : List α) (t : Tbl), Coherent t →
    Keeps t (mapMState f t l).1
  | [], t, h => Keeps.refl h
  | a :: rest, t, h => by
    have hk := hf t a h
    simp only [mapMState]
    generalize f t a = r at hk
    obtain ⟨t1, x⟩ := r
    simp only at hk
    cases x with
    | error e => exact hk
    | ok b =>
      simp only
      have hk2 := mapMState_keeps f hf rest t1 hk.1
      generalize mapMState f t1 rest = r2 at hk2
      obtain ⟨t2, y⟩ := r2
      cases y <;> exact hk.trans hk2

/-- `_get_row_indices` on a coherent table changes nothing but (possibly) the name cache -/
theorem getRowIndices_keeps (t : Tbl) (h : Coherent t) (m : String → Match) (s : Sel) :
    Keeps t (getRowIndices t m s).1 := by
  cases s with
  | slice a b c =>
    by_cases hs : (isStrB a || isStrB b) = true
    · exact (getRowIndices_span t h m a b c hs).1
    · cases a <;> cases b <;> simp [isStrB] at hs <;> cases c <;>
        simp only [getRowIndices, Bool.or_self, Bool.false_eq_true, if_false] <;>
        (repeat' split) <;> exact Keeps.refl h
  | pattern p =>
    have hk := getRegexpIndices_keeps t h (m p) p
    simp only [getRowIndices]
    generalize getRegexpIndices t (m p) p = r at hk
    obtain ⟨t1, x⟩ := r
    cases x <;> exact hk
  | names l =>
    have hk := mapMState_keeps (fun t s => getRowIndex t (.name s)) (fun t a ht => getRowIndex_keeps t ht _) l t h
    simp only [getRowIndices]
    generalize mapMState (fun t s => getRowIndex t (.name s)) t l = r at hk
    obtain ⟨t1, x⟩ := r
    cases x <;> exact hk
  | ints l => exact Keeps.refl h
  | bools l => simp only [getRowIndices]; split <;> exact Keeps.refl h
  | all => exact Keeps.refl h
  | pos i => exact Keeps.refl h
  | tuple l => exact Keeps.refl h
  | range lo hi c => simp only [getRowIndices]; (repeat' split) <;> exact Keeps.refl h

/-! ### one step of a tuple selector -/

def isTuple : Sel → Bool
  | .tuple _ => true
  | _ => false

/-- the positions (inside the table, negative positions wrapped) one selector denotes in a view: what the loop of
    `rows.indices[s1, s2, …]` computes at each step (`_get_row_indices`, then `arange(n)[ix]`) -/
def stepPos (t : Tbl) (m : String → Match) (s : Sel) : Except TErr (List Nat) :=
  match getRowIndices t m s with
  | (_, .error e) => .error e
  | (_, .ok ix) => ixPositions t.nrows ix

theorem indicesOf_go_nil (m : String → Match) (view : Tbl) (abs : List Nat) :
    indicesOf.go m view abs [] = .ok abs := rfl

theorem indicesOf_go_cons (m : String → Match) (view : Tbl) (abs : List Nat) (s : Sel) (rest : List Sel) :
    indicesOf.go m view abs (s :: rest) =
      (stepPos view m s).bind (fun ps => indicesOf.go m (selectRows view ps) (ps.filterMap (fun k => abs[k]?)) rest) := by
  simp only [indicesOf.go, stepPos]
  generalize getRowIndices view m s = r
  obtain ⟨t1, x⟩ := r
  cases x with
  | error e => rfl
  | ok ix =>
    simp only
    cases ixPositions view.nrows ix <;> rfl

theorem ixPositions_idx (n : Nat) (l : List Int) : ixPositions n (.idx l) = normAll n l := rfl

theorem ixPositions_slice (n : Nat) (a b c : Option Int) :
    ixPositions n (.slice a b c) = (pySlice n a b c).bind (normAll n) := by
  simp only [ixPositions]
  cases hp : pySlice n a b c with
  | error e => rfl
  | ok l =>
    simp only [Except.map, Except.bind]
    rw [normAll_of_range n l (pySlice_range n a b c l hp)]

/-- `rows.indices[s]` for a selector that is not a tuple -/
def indicesFlat (t : Tbl) (m : String → Match) (s : Sel) : Tbl × Except TErr (List Int) :=
  match getRowIndices t m s with
  | (t1, .error e) => (t1, .error e)
  | (t1, .ok (.idx l)) => (t1, .ok l)
  | (t1, .ok (.slice a b c)) =>
    match pySlice t1.nrows a b c with
    | .ok l => (t1, .ok l)
    | .error e => (t1, .error e)

theorem indicesOf_flat (t : Tbl) (m : String → Match) (s : Sel) (hs : isTuple s = false) :
    indicesOf t m s = indicesFlat t m s := by
  cases s <;> first | rfl | (simp [isTuple] at hs)

theorem indicesOf_tuple (t : Tbl) (m : String → Match) (sels : List Sel) :
    indicesOf t m (.tuple sels) =
      (t, (indicesOf.go m t (List.range t.nrows) sels).map (fun l => l.map (fun (k : Nat) => (k : Int)))) := by
  simp only [indicesOf]
  cases indicesOf.go m t (List.range t.nrows) sels <;> rfl

/-- for a selector that is not a tuple, normalising `rows.indices[s]` gives the positions of that step -/
theorem stepPos_eq (t : Tbl) (h : Coherent t) (m : String → Match) (s : Sel) (hs : isTuple s = false) :
    stepPos t m s = (indicesOf t m s).2.bind (normAll t.nrows) ∧ Keeps t (indicesOf t m s).1 := by
  have hk := getRowIndices_keeps t h m s
  rw [indicesOf_flat t m s hs]
  unfold stepPos indicesFlat
  generalize getRowIndices t m s = r at hk
  obtain ⟨t1, x⟩ := r
  simp only at hk
  cases x with
  | error e => exact ⟨rfl, hk⟩
  | ok ix =>
    cases ix with
    | idx l => exact ⟨rfl, hk⟩
    | slice a b c =>
      simp only [ixPositions_slice, hk.nrows]
      cases pySlice t.nrows a b c <;> exact ⟨rfl, hk⟩

theorem ixPositions_lt (n : Nat) (ix : Ix) (ps : List Nat) (h : ixPositions n ix = .ok ps) : ∀ k ∈ ps, k < n := by
  cases ix with
  | idx l => exact normAll_lt n l ps h
  | slice a b c =>
    rw [ixPositions_slice] at h
    cases hp : pySlice n a b c with
    | error e => rw [hp] at h; cases h
    | ok l => rw [hp] at h; exact normAll_lt n l ps h

/-- the positions of a step lie inside the view -/
theorem stepPos_lt (t : Tbl) (m : String → Match) (s : Sel) (ps : List Nat) (h : stepPos t m s = .ok ps) :
    ∀ k ∈ ps, k < t.nrows := by
  unfold stepPos at h
  generalize getRowIndices t m s = r at h
  obtain ⟨t1, x⟩ := r
  cases x with
  | error e => cases h
  | ok ix => exact ixPositions_lt t.nrows ix ps h

/-- a nested tuple is rejected (the model's `_get_row_indices` has no tuple case) -/
theorem stepPos_tuple (t : Tbl) (m : String → Match) (l : List Sel) : stepPos t m (.tuple l) = .error .valueError := rfl

/-- `rows[s]`, `s` not a tuple: the rows at the positions of that step (the result starts without a cache) -/
theorem rowsOf_eq_stepPos (t : Tbl) (h : Coherent t) (m : String → Match) (s : Sel) (hs : isTuple s = false) :
    (rowsOf t m s).2 = (stepPos t m s).map (selectRows t) := by
  obtain ⟨h1, hk⟩ := stepPos_eq t h m s hs
  rw [h1]
  unfold rowsOf
  generalize indicesOf t m s = r at hk
  obtain ⟨t1, x⟩ := r
  simp only at hk
  cases x with
  | error e => rfl
  | ok l =>
    simp only [Except.bind]
    rw [hk.nrows]
    cases normAll t.nrows l with
    | error e => rfl
    | ok ps => simp only [Except.map]; rw [selectRows_keeps hk]

/-! ## (2) `rows[s1, s2, …] = rows[s1].rows[s2]…` -/

/-- selecting twice, under the invariant `DataCovers` (instead of the side condition `hfull` of `selectRows_comp`) -/
theorem selectRows_comp_covers (t : Tbl) (hd : DataCovers t) (ps1 ps2 : List Nat) (h1 : ∀ j ∈ ps1, j < t.nrows) :
    selectRows (selectRows t ps1) ps2 = selectRows t (ps2.filterMap (fun k => ps1[k]?)) := by
  unfold selectRows
  simp only [List.map_map]
  congr 1
  apply List.map_congr_left
  intro p hp
  simp only [Function.comp]
  congr 1
  exact filterMap_comp p.2 ps1 ps2 (fun j hj => Nat.lt_of_lt_of_le (h1 j hj) (hd p hp))

/-- selecting twice: `rows[s1].rows[s2]…`, each selector applied to the table the previous one returned; the first
    error stops the chain -/
def rowsChain (m : String → Match) : Tbl → List Sel → Except TErr Tbl
  | v, [] => .ok v
  | v, s :: rest => (rowsOf v m s).2.bind (fun v' => rowsChain m v' rest)

theorem rowsChain_eq_foldlM (m : String → Match) : ∀ (sels : List Sel) (t : Tbl),
    rowsChain m t sels = sels.foldlM (fun v s => (rowsOf v m s).2) t
  | [], t => rfl
  | s :: rest, t => by
    rw [List.foldlM_cons, rowsChain]
    show _ = Except.bind _ _
    congr 1
    funext v'
    exact rowsChain_eq_foldlM m rest v'

theorem filterMap_range_getElem? (n : Nat) : ∀ ps : List Nat, (∀ k ∈ ps, k < n) →
    ps.filterMap (fun k => (List.range n)[k]?) = ps
  | [], _ => rfl
  | k :: ps, h => by
    have hk : k < n := h k (List.mem_cons_self ..)
    simp only [List.filterMap_cons, List.getElem?_range hk]
    rw [filterMap_range_getElem? n ps (fun j hj => h j (List.mem_cons_of_mem _ hj))]

theorem mem_filterMap_getElem? {α : Type} (abs : List α) (ps : List Nat) (x : α)
    (h : x ∈ ps.filterMap (fun k => abs[k]?)) : x ∈ abs := by
  obtain ⟨k, _, hk⟩ := List.mem_filterMap.mp h
  exact List.mem_of_getElem? hk

/-- the absolute positions the tuple loop returns are positions of the original table -/
theorem indicesOf_go_lt (m : String → Match) (n : Nat) : ∀ (sels : List Sel) (view : Tbl) (abs l : List Nat),
    (∀ k ∈ abs, k < n) → indicesOf.go m view abs sels = .ok l → ∀ k ∈ l, k < n
  | [], view, abs, l, ha, h => by
    rw [indicesOf_go_nil] at h; cases h; exact ha
  | s :: rest, view, abs, l, ha, h => by
    rw [indicesOf_go_cons] at h
    cases hp : stepPos view m s with
    | error e => rw [hp] at h; cases h
    | ok ps =>
      rw [hp] at h
      exact indicesOf_go_lt m n rest _ _ l (fun k hk => ha k (mem_filterMap_getElem? abs ps k hk)) h

/-- the loop of `rows.indices[s1, s2, …]`, started on the view `rows[abs]` of `base`, against selecting twice -/
theorem indicesOf_go_chain (m : String → Match) (base : Tbl) (hd : DataCovers base) :
    ∀ (rest : List Sel) (s : Sel) (abs : List Nat), (∀ k ∈ abs, k < base.nrows) →
    (∀ x ∈ s :: rest, isTuple x = false) →
    (indicesOf.go m (selectRows base abs) abs (s :: rest)).map (selectRows base) =
      rowsChain m (selectRows base abs) (s :: rest)
  | rest, s, abs, ha, hs => by
    have hs0 : isTuple s = false := hs s (List.mem_cons_self ..)
    rw [indicesOf_go_cons, rowsChain, rowsOf_eq_stepPos (selectRows base abs) (Or.inl rfl) m s hs0]
    cases hp : stepPos (selectRows base abs) m s with
    | error e => rfl
    | ok ps =>
      simp only [Except.bind, Except.map]
      rw [selectRows_comp_covers base hd abs ps ha]
      have ha' : ∀ k ∈ ps.filterMap (fun k => abs[k]?), k < base.nrows :=
        fun k hk => ha k (mem_filterMap_getElem? abs ps k hk)
      cases rest with
      | nil => rfl
      | cons s' rest' =>
        exact indicesOf_go_chain m base hd rest' s' _ ha' (fun x hx => hs x (List.mem_cons_of_mem _ hx))

/-- `rows[s1, s2, …]` selects, in the ORIGINAL table, the absolute positions the loop returns; the table handed back
    with the result is the original one (a tuple selector does not even build the name cache) -/
theorem rowsOf_tuple_go (t : Tbl) (m : String → Match) (sels : List Sel) :
    rowsOf t m (.tuple sels) = (t, (indicesOf.go m t (List.range t.nrows) sels).map (selectRows t)) := by
  unfold rowsOf
  rw [indicesOf_tuple]
  cases hg : indicesOf.go m t (List.range t.nrows) sels with
  | error e => rfl
  | ok l =>
    simp only [Except.map]
    have hlt := indicesOf_go_lt m t.nrows sels t _ l (fun k hk => List.mem_range.mp hk) hg
    rw [normAll_cast t.nrows l hlt]

/-- **(2) the composition law, tuples of any length ≥ 1.**  On a table with a coherent name cache whose `_data` entries
    all cover the table's length, `rows[s1, s2, …, sk]` (no `si` itself a tuple) IS `rows[s1].rows[s2]….rows[sk]`:
    the same `Tbl` (same index column, same cells in every `_data` entry, listed or not, same listed names, no cache)
    when every step succeeds, and otherwise the error of the FIRST step that fails -/
theorem rowsOf_tuple_chain (t : Tbl) (h : Coherent t) (hd : DataCovers t) (m : String → Match) (s : Sel)
    (rest : List Sel) (hs : ∀ x ∈ s :: rest, isTuple x = false) :
    (rowsOf t m (.tuple (s :: rest))).2 = rowsChain m t (s :: rest) := by
  have hs0 : isTuple s = false := hs s (List.mem_cons_self ..)
  rw [rowsOf_tuple_go, indicesOf_go_cons, rowsChain, rowsOf_eq_stepPos t h m s hs0]
  cases hp : stepPos t m s with
  | error e => rfl
  | ok ps =>
    have hps := stepPos_lt t m s ps hp
    simp only [Except.bind, Except.map]
    rw [filterMap_range_getElem? t.nrows ps hps]
    cases rest with
    | nil => rfl
    | cons s' rest' =>
      exact indicesOf_go_chain m t hd rest' s' ps hps (fun x hx => hs x (List.mem_cons_of_mem _ hx))

/-- **(2) the documented two-selector form**: `rows[s1, s2] = rows[s1].rows[s2]`, errors included: if `rows[s1]`
    fails, that error; otherwise whatever `rows[s2]` on the returned table gives -/
theorem rowsOf_pair (t : Tbl) (h : Coherent t) (hd : DataCovers t) (m : String → Match) (s1 s2 : Sel)
    (h1 : isTuple s1 = false) (h2 : isTuple s2 = false) :
    (rowsOf t m (.tuple [s1, s2])).2 = (rowsOf t m s1).2.bind (fun v => (rowsOf v m s2).2) := by
  rw [rowsOf_tuple_chain t h hd m s1 [s2] (by
    intro x hx
    simp only [List.mem_cons, List.not_mem_nil, or_false] at hx
    rcases hx with rfl | rfl <;> assumption)]
  simp only [rowsChain]
  congr 1
  funext v
  cases (rowsOf v m s2).2 <;> rfl

/-- which error wins, spelled out -/
theorem rowsOf_pair_error_first (t : Tbl) (h : Coherent t) (hd : DataCovers t) (m : String → Match) (s1 s2 : Sel)
    (h1 : isTuple s1 = false) (h2 : isTuple s2 = false) (e : TErr) (he : (rowsOf t m s1).2 = .error e) :
    (rowsOf t m (.tuple [s1, s2])).2 = .error e := by
  rw [rowsOf_pair t h hd m s1 s2 h1 h2, he]; rfl

theorem rowsOf_pair_ok (t : Tbl) (h : Coherent t) (hd : DataCovers t) (m : String → Match) (s1 s2 : Sel)
    (h1 : isTuple s1 = false) (h2 : isTuple s2 = false) (v : Tbl) (he : (rowsOf t m s1).2 = .ok v) :
    (rowsOf t m (.tuple [s1, s2])).2 = (rowsOf v m s2).2 := by
  rw [rowsOf_pair t h hd m s1 s2 h1 h2, he]; rfl

/-! ### the same law with NO hypothesis on `_data`: what survives on the listed columns

In the model `_select_rows` subscripts every `_data` entry, so on an entry shorter than the table the two sides of the
law can differ (`junkExample` below).  Without `DataCovers` the two sides still fail together with the same error,
and agree on the index name, the listed names, the separators and every column of exactly the table's length — for a
`Rect` table: every listed column, the index column, the number of rows. -/

/-- `v` is, on every `_data` entry of `base` of exactly the table's length, the rows `abs` of `base` -/
def ViewOf (base : Tbl) (abs : List Nat) (v : Tbl) : Prop :=
  v.index = base.index ∧ v.colNames = base.colNames ∧ v.sepCount = base.sepCount ∧ v.sepPrev = base.sepPrev ∧
  v.sepNext = base.sepNext ∧
  ∃ F : List Cell → List Cell, v.data = base.data.map (fun p => (p.1, F p.2)) ∧
    ∀ c : List Cell, c.length = base.nrows → F c = abs.filterMap (fun k => c[k]?)

theorem filterMap_range_self {α : Type} (c : List α) : (List.range c.length).filterMap (fun k => c[k]?) = c := by
  apply List.ext_getElem?
  intro k
  rw [getElem?_filterMap_inrange c _ (fun j hj => List.mem_range.mp hj) k]
  by_cases hk : k < c.length
  · rw [List.getElem?_range hk]; rfl
  · rw [List.getElem?_eq_none (by simpa using Nat.le_of_not_lt hk), List.getElem?_eq_none (Nat.le_of_not_lt hk)]
    rfl

theorem ViewOf.self (t : Tbl) : ViewOf t (List.range t.nrows) t :=
  ⟨rfl, rfl, rfl, rfl, rfl, id, by simp, fun c hc => by rw [← hc]; exact (filterMap_range_self c).symm⟩

theorem ViewOf.step {base v : Tbl} {abs : List Nat} (hv : ViewOf base abs v) (ha : ∀ k ∈ abs, k < base.nrows)
    (ps : List Nat) : ViewOf base (ps.filterMap (fun k => abs[k]?)) (selectRows v ps) := by
  obtain ⟨h1, h2, h3, h4, h5, F, hF, hc⟩ := hv
  refine ⟨h1, h2, h3, h4, h5, fun c => ps.filterMap (fun k => (F c)[k]?), ?_, ?_⟩
  · show v.data.map _ = _
    rw [hF, List.map_map]
    rfl
  · intro c hlen
    show ps.filterMap (fun k => (F c)[k]?) = _
    rw [hc c hlen]
    exact filterMap_comp c abs ps (fun j hj => by rw [hlen]; exact ha j hj)

theorem ViewOf.col {base v : Tbl} {abs : List Nat} (hv : ViewOf base abs v) (c : String) (x : List Cell)
    (hx : base.col c = some x) (hlen : x.length = base.nrows) :
    v.col c = some (abs.filterMap (fun k => x[k]?)) := by
  obtain ⟨_, _, _, _, _, F, hF, hc⟩ := hv
  unfold Tbl.col at hx ⊢
  rw [hF, lookupA_mapVal base.data F c, hx, Option.map_some, hc x hlen]

/-- the outcome of the loop against the outcome of selecting twice -/
def RelGo (base : Tbl) : Except TErr (List Nat) → Except TErr Tbl → Prop
  | .error e, .error e' => e = e'
  | .ok l, .ok r => ViewOf base l r ∧ ∀ k ∈ l, k < base.nrows
  | _, _ => False

theorem indicesOf_go_rel (m : String → Match) (base : Tbl) : ∀ (sels : List Sel) (view : Tbl) (abs : List Nat),
    ViewOf base abs view → Coherent view → (∀ k ∈ abs, k < base.nrows) → (∀ x ∈ sels, isTuple x = false) →
    RelGo base (indicesOf.go m view abs sels) (rowsChain m view sels)
  | [], view, abs, hv, _, ha, _ => ⟨hv, ha⟩
  | s :: rest, view, abs, hv, hc, ha, hs => by
    have hs0 : isTuple s = false := hs s (List.mem_cons_self ..)
    rw [indicesOf_go_cons, rowsChain, rowsOf_eq_stepPos view hc m s hs0]
    cases hp : stepPos view m s with
    | error e => exact (rfl : e = e)
    | ok ps =>
      simp only [Except.bind, Except.map]
      exact indicesOf_go_rel m base rest (selectRows view ps) _ (hv.step ha ps) (Or.inl rfl)
        (fun k hk => ha k (mem_filterMap_getElem? abs ps k hk)) (fun x hx => hs x (List.mem_cons_of_mem _ hx))

/-- **(2′) the composition law on the listed columns, no hypothesis on `_data`.**  On any table with a coherent name
    cache, `rows[s1, …, sk]` (no `si` a tuple) and `rows[s1].rows[s2]…` fail together with the same error, and when
    they succeed the two tables have the same index name, listed names and separators, and the same cells in every
    column that has exactly the table's length in the source -/
theorem rowsOf_tuple_chain_listed (t : Tbl) (h : Coherent t) (m : String → Match) (sels : List Sel)
    (hs : ∀ x ∈ sels, isTuple x = false) :
    (∀ e, (rowsOf t m (.tuple sels)).2 = .error e ↔ rowsChain m t sels = .error e) ∧
    (∀ r1, (rowsOf t m (.tuple sels)).2 = .ok r1 → ∃ r2, rowsChain m t sels = .ok r2 ∧
      r1.index = r2.index ∧ r1.colNames = r2.colNames ∧
      r1.sepCount = r2.sepCount ∧ r1.sepPrev = r2.sepPrev ∧ r1.sepNext = r2.sepNext ∧
      ∀ (c : String) (x : List Cell), t.col c = some x → x.length = t.nrows → r1.col c = r2.col c) := by
  have hrel := indicesOf_go_rel m t sels t (List.range t.nrows) (ViewOf.self t) h
    (fun k hk => List.mem_range.mp hk) hs
  rw [rowsOf_tuple_go]
  simp only
  generalize indicesOf.go m t (List.range t.nrows) sels = g at hrel
  generalize rowsChain m t sels = r at hrel
  cases g with
  | error e =>
    cases r with
    | error e' =>
      have he : e = e' := hrel
      subst he
      exact ⟨fun _ => Iff.rfl, fun r1 h1 => by cases h1⟩
    | ok r2 => exact absurd hrel id
  | ok l =>
    cases r with
    | error e' => exact absurd hrel id
    | ok r2 =>
      obtain ⟨hv, _⟩ : ViewOf t l r2 ∧ ∀ k ∈ l, k < t.nrows := hrel
      refine ⟨fun e => Iff.intro (fun h1 => by cases h1) (fun h1 => by cases h1), ?_⟩
      intro r1 h1
      simp only [Except.map, Except.ok.injEq] at h1
      subst h1
      refine ⟨r2, rfl, hv.1.symm, hv.2.1.symm, hv.2.2.1.symm, hv.2.2.2.1.symm, hv.2.2.2.2.1.symm, ?_⟩
      intro c x hx hlen
      rw [hv.col c x hx hlen, selectRows_col, hx]
      rfl

/-- **(2′) for rectangular tables**: same errors; same index column, same number of rows and the same cells in every
    listed column -/
theorem rowsOf_tuple_chain_rect (t : Tbl) (h : Coherent t) (hr : Rect t) (m : String → Match) (sels : List Sel)
    (hs : ∀ x ∈ sels, isTuple x = false) :
    (∀ e, (rowsOf t m (.tuple sels)).2 = .error e ↔ rowsChain m t sels = .error e) ∧
    (∀ r1, (rowsOf t m (.tuple sels)).2 = .ok r1 → ∃ r2, rowsChain m t sels = .ok r2 ∧
      r1.index = r2.index ∧ r1.colNames = r2.colNames ∧ r1.indexCol = r2.indexCol ∧ r1.nrows = r2.nrows ∧
      ∀ c ∈ t.colNames, r1.col c = r2.col c) := by
  obtain ⟨h1, h2⟩ := rowsOf_tuple_chain_listed t h m sels hs
  refine ⟨h1, ?_⟩
  intro r1 hr1
  obtain ⟨r2, he, hi, hc, _, _, _, hcol⟩ := h2 r1 hr1
  have hlisted : ∀ c ∈ t.colNames, r1.col c = r2.col c := by
    intro c hc'
    obtain ⟨x, hx, hl⟩ := hr.2 c hc'
    exact hcol c x hx hl
  have hidx : r1.index = t.index := by
    rw [rowsOf_tuple_go] at hr1
    simp only at hr1
    cases hg : indicesOf.go m t (List.range t.nrows) sels with
    | error e => rw [hg] at hr1; cases hr1
    | ok l => rw [hg] at hr1; simp only [Except.map, Except.ok.injEq] at hr1; subst hr1; rfl
  have hcn : r1.colNames = t.colNames := by
    rw [rowsOf_tuple_go] at hr1
    simp only at hr1
    cases hg : indicesOf.go m t (List.range t.nrows) sels with
    | error e => rw [hg] at hr1; cases hr1
    | ok l => rw [hg] at hr1; simp only [Except.map, Except.ok.injEq] at hr1; subst hr1; rfl
  refine ⟨r2, he, hi, hc, ?_, ?_, hlisted⟩
  · unfold Tbl.indexCol
    rw [← hi, hlisted r1.index (by rw [hidx]; exact hr.1)]
  · unfold Tbl.nrows
    rw [← hc]
    cases hcs : r1.colNames with
    | nil => rfl
    | cons k rest =>
      simp only
      rw [hlisted k (by rw [← hcn, hcs]; exact List.mem_cons_self ..)]

/-- `rows[()]`: every row, as a fresh table (each `_data` entry cut to the table's length) -/
theorem rowsOf_tuple_nil (t : Tbl) (m : String → Match) :
    rowsOf t m (.tuple []) = (t, .ok (selectRows t (List.range t.nrows))) := by
  rw [rowsOf_tuple_go, indicesOf_go_nil]; rfl

/-- the `rows.indices` side of the law: the positions `rows.indices[s1, s2]` lists are positions of the ORIGINAL
    table, `p1[p2[k]]` for the positions `p1` of `s1` in the table and `p2` of `s2` in the view `rows[s1]` -/
theorem indicesOf_pair (t : Tbl) (m : String → Match) (s1 s2 : Sel) :
    (indicesOf t m (.tuple [s1, s2])).2 =
      (stepPos t m s1).bind (fun p1 => (stepPos (selectRows t p1) m s2).map
        (fun p2 => (p2.filterMap (fun k => p1[k]?)).map (fun (k : Nat) => (k : Int)))) := by
  rw [indicesOf_tuple]
  simp only
  rw [indicesOf_go_cons]
  cases hp : stepPos t m s1 with
  | error e => rfl
  | ok p1 =>
    simp only [Except.bind]
    rw [filterMap_range_getElem? t.nrows p1 (stepPos_lt t m s1 p1 hp), indicesOf_go_cons]
    cases stepPos (selectRows t p1) m s2 with
    | error e => rfl
    | ok p2 => rfl

/-! ### the invariant along `rows[...]` -/

theorem indicesOf_keeps (t : Tbl) (h : Coherent t) (m : String → Match) (s : Sel) : Keeps t (indicesOf t m s).1 := by
  cases hs : isTuple s with
  | false => exact (stepPos_eq t h m s hs).2
  | true =>
    cases s with
    | tuple l => rw [indicesOf_tuple]; exact Keeps.refl h
    | _ => simp [isTuple] at hs

/-- `rows[s]` in terms of `rows.indices[s]`, for every selector, on the table as it was given -/
theorem rowsOf_via_indices (t : Tbl) (h : Coherent t) (m : String → Match) (s : Sel) :
    (rowsOf t m s).2 = (indicesOf t m s).2.bind (fun l => (normAll t.nrows l).map (selectRows t)) := by
  have hk := indicesOf_keeps t h m s
  unfold rowsOf
  generalize indicesOf t m s = r at hk
  obtain ⟨t1, x⟩ := r
  simp only at hk
  cases x with
  | error e => rfl
  | ok l =>
    simp only [Except.bind]
    rw [hk.nrows]
    cases normAll t.nrows l with
    | error e => rfl
    | ok ps => simp only [Except.map]; rw [selectRows_keeps hk]

theorem maskOf_via_indices (t : Tbl) (h : Coherent t) (m : String → Match) (s : Sel) :
    (maskOf t m s).2 = (indicesOf t m s).2.bind (fun l => (normAll t.nrows l).map
      (fun ps => (List.range t.nrows).map (fun k => ps.contains k))) := by
  have hk := indicesOf_keeps t h m s
  unfold maskOf
  generalize indicesOf t m s = r at hk
  obtain ⟨t1, x⟩ := r
  simp only at hk
  cases x with
  | error e => rfl
  | ok l =>
    simp only [Except.bind]
    rw [hk.nrows]
    cases normAll t.nrows l with
    | error e => rfl
    | ok ps => rfl

/-- the tables `rows.indices[s]`, `rows.mask[s]` and `rows[s]` hand back alongside their result are one and the same:
    the original with (possibly) its name cache built -/
theorem views_same_table (t : Tbl) (m : String → Match) (s : Sel) :
    (maskOf t m s).1 = (indicesOf t m s).1 ∧ (rowsOf t m s).1 = (indicesOf t m s).1 := by
  unfold maskOf rowsOf
  generalize indicesOf t m s = r
  obtain ⟨t1, x⟩ := r
  cases x with
  | error e => exact ⟨rfl, rfl⟩
  | ok l => simp only; cases normAll t1.nrows l <;> exact ⟨rfl, rfl⟩

/-- **(1c)** `rows[s]`, any selector (tuples included): the result is a selection of rows of `t` at positions inside
    the table; hence rectangular, EVERY `_data` entry of exactly its length, no cache; `Listed` is kept -/
theorem rowsOf_inv (t : Tbl) (h : Coherent t) (hr : Rect t) (hd : DataCovers t) (m : String → Match) (s : Sel) (r : Tbl)
    (he : (rowsOf t m s).2 = .ok r) :
    (∃ ps, (∀ k ∈ ps, k < t.nrows) ∧ r = selectRows t ps ∧ r.nrows = ps.length) ∧
    Rect r ∧ DataFull r ∧ Coherent r ∧ (Listed t → Listed r) := by
  rw [rowsOf_via_indices t h m s] at he
  cases hi : (indicesOf t m s).2 with
  | error e => rw [hi] at he; cases he
  | ok l =>
    rw [hi] at he
    simp only [Except.bind] at he
    cases hn : normAll t.nrows l with
    | error e => rw [hn] at he; cases he
    | ok ps =>
      rw [hn] at he
      simp only [Except.map, Except.ok.injEq] at he
      subst he
      have hps := normAll_lt t.nrows l ps hn
      obtain ⟨h1, h2, h3, h4⟩ := selectRows_inv t hr hd ps hps
      exact ⟨⟨ps, hps, rfl, h3⟩, h1, h2, h4, selectRows_listed t ps⟩

/-- the table handed back with the result keeps the invariant too -/
theorem rowsOf_fst_inv (t : Tbl) (h : Coherent t) (hr : Rect t) (hd : DataCovers t) (m : String → Match) (s : Sel) :
    Keeps t (rowsOf t m s).1 ∧ Rect (rowsOf t m s).1 ∧ DataCovers (rowsOf t m s).1 := by
  have hk := indicesOf_keeps t h m s
  rw [← (views_same_table t m s).2] at hk
  exact ⟨hk, hk.rect hr, hk.covers hd⟩

/-- the invariant holds at every stage of `rows[s1].rows[s2]…` -/
theorem rowsChain_inv (m : String → Match) : ∀ (sels : List Sel) (t r : Tbl), Coherent t → Rect t → DataCovers t →
    rowsChain m t sels = .ok r → Rect r ∧ DataCovers r ∧ Coherent r
  | [], t, r, h, hr, hd, he => by
    simp only [rowsChain, Except.ok.injEq] at he
    subst he; exact ⟨hr, hd, h⟩
  | s :: rest, t, r, h, hr, hd, he => by
    simp only [rowsChain] at he
    cases hv : (rowsOf t m s).2 with
    | error e => rw [hv] at he; cases he
    | ok v =>
      rw [hv] at he
      obtain ⟨_, h1, h2, h3, _⟩ := rowsOf_inv t h hr hd m s v hv
      exact rowsChain_inv m rest v r h3 h1 h2.covers he

/-! ## (3) `rows.indices[...]`, `rows.mask[...]` and `rows[...]` denote the same rows — every selector -/

theorem getElem?_maskList (n : Nat) (ps : List Nat) (i : Nat) :
    ((List.range n).map (fun k => ps.contains k))[i]? = some true ↔ i < n ∧ i ∈ ps := by
  rw [List.getElem?_map]
  by_cases hi : i < n
  · rw [List.getElem?_range hi]
    simp [hi]
  · rw [List.getElem?_eq_none (by simpa using Nat.le_of_not_lt hi)]
    simp [hi]

theorem normAll_total (n : Nat) (l : List Int) (hn : ∀ j ∈ l, normPos n j ≠ none) :
    ∃ ps, normAll n l = .ok ps ∧ l.map (normPos n) = ps.map some := by
  cases h : normAll n l with
  | error e =>
    obtain ⟨_, j, hj, hj'⟩ := normAll_error n l e h
    exact absurd hj' (hn j hj)
  | ok ps => exact ⟨ps, rfl, (normAll_ok_iff n l ps).mp h⟩

theorem map_some_filterMap_inrange {α : Type} (v : List α) : ∀ ps : List Nat, (∀ k ∈ ps, k < v.length) →
    (ps.filterMap (fun k => v[k]?)).map some = ps.map (fun k => v[k]?)
  | [], _ => rfl
  | k :: ps, h => by
    have hk : k < v.length := h k (List.mem_cons_self ..)
    simp only [List.filterMap_cons, List.getElem?_eq_getElem hk, List.map_cons]
    rw [map_some_filterMap_inrange v ps (fun j hj => h j (List.mem_cons_of_mem _ hj))]

/-- the cells a selection takes from a column, read off the (un-normalised) positions `l` -/
theorem select_cells {α : Type} (n : Nat) (v : List α) (hv : n ≤ v.length) (l : List Int) (ps : List Nat)
    (hps : l.map (normPos n) = ps.map some) :
    (ps.filterMap (fun k => v[k]?)).map some = l.map (fun j => (normPos n j).bind (fun k => v[k]?)) := by
  have hlt : ∀ k ∈ ps, k < v.length := by
    intro k hk
    have : some k ∈ l.map (normPos n) := by rw [hps]; exact List.mem_map.mpr ⟨k, hk, rfl⟩
    obtain ⟨i, _, hi⟩ := List.mem_map.mp this
    exact Nat.lt_of_lt_of_le (normPos_lt n i k hi) hv
  rw [map_some_filterMap_inrange v ps hlt]
  have : ps.map (fun k => v[k]?) = (ps.map some).map (fun o => o.bind (fun k => v[k]?)) := by
    rw [List.map_map]; rfl
  rw [this, ← hps, List.map_map]
  rfl

/-- **(3a) `rows.mask` against `rows.indices`.**  If `rows.indices[s]` lists the positions `l` and each of them
    normalises (`normPos`: `0 ≤ j < n` stays, `-n ≤ j < 0` wraps to `n + j`), then `rows.mask[s]` succeeds with a
    list of `nrows` Booleans, and position `i` is marked exactly when some listed position normalises to `i` -/
theorem mask_iff_indices (t : Tbl) (h : Coherent t) (m : String → Match) (s : Sel) (l : List Int)
    (hl : (indicesOf t m s).2 = .ok l) (hn : ∀ j ∈ l, normPos t.nrows j ≠ none) :
    ∃ mask, (maskOf t m s).2 = .ok mask ∧ mask.length = t.nrows ∧
      ∀ i : Nat, mask[i]? = some true ↔ ∃ j ∈ l, normPos t.nrows j = some i := by
  obtain ⟨ps, hps, hmap⟩ := normAll_total t.nrows l hn
  refine ⟨(List.range t.nrows).map (fun k => ps.contains k), ?_, by simp, ?_⟩
  · rw [maskOf_via_indices t h m s, hl]
    simp only [Except.bind, hps, Except.map]
  · intro i
    rw [getElem?_maskList]
    constructor
    · rintro ⟨_, hi⟩
      have : some i ∈ l.map (normPos t.nrows) := by rw [hmap]; exact List.mem_map.mpr ⟨i, hi, rfl⟩
      obtain ⟨j, hj, hji⟩ := List.mem_map.mp this
      exact ⟨j, hj, hji⟩
    · rintro ⟨j, hj, hji⟩
      refine ⟨normPos_lt _ j i hji, ?_⟩
      have : some i ∈ ps.map some := by rw [← hmap]; exact List.mem_map.mpr ⟨j, hj, hji⟩
      obtain ⟨k, hk, hki⟩ := List.mem_map.mp this
      cases hki; exact hk

/-- **(3b) `rows[...]` against `rows.indices`**, rectangular tables.  Under the same hypotheses `rows[s]` succeeds
    with a table of `l.length` rows whose index column reads, position by position and IN THE ORDER OF `l` (repeats
    included), the name of the row each listed position normalises to; and likewise every column that covers the
    table's length (all listed columns do) -/
theorem rows_eq_indices (t : Tbl) (h : Coherent t) (hr : Rect t) (m : String → Match) (s : Sel) (l : List Int)
    (hl : (indicesOf t m s).2 = .ok l) (hn : ∀ j ∈ l, normPos t.nrows j ≠ none) :
    ∃ r, (rowsOf t m s).2 = .ok r ∧ r.nrows = l.length ∧
      r.indexCol.map some = l.map (fun j => (normPos t.nrows j).bind (fun k => t.indexCol[k]?)) ∧
      ∀ (c : String) (v : List Cell), t.col c = some v → t.nrows ≤ v.length →
        ∃ v', r.col c = some v' ∧ v'.map some = l.map (fun j => (normPos t.nrows j).bind (fun k => v[k]?)) := by
  obtain ⟨ps, hps, hmap⟩ := normAll_total t.nrows l hn
  refine ⟨selectRows t ps, ?_, ?_, ?_, ?_⟩
  · rw [rowsOf_via_indices t h m s, hl]
    simp only [Except.bind, hps, Except.map]
  · rw [selectRows_nrows t hr ps (normAll_lt t.nrows l ps hps)]
    have := congrArg List.length hmap
    simpa using this.symm
  · rw [selectRows_indexCol]
    exact select_cells t.nrows t.indexCol (Nat.le_of_eq hr.indexCol_length.symm) l ps hmap
  · intro c v hv hlen
    refine ⟨_, by rw [selectRows_col, hv]; rfl, ?_⟩
    exact select_cells t.nrows v hlen l ps hmap

/-- the same with a total reading of the index column (`""` would stand for a position outside the table, which the
    hypotheses exclude): `rows[s].index = [ t.index[norm j] for j in rows.indices[s] ]` -/
theorem rows_indexCol_eq (t : Tbl) (h : Coherent t) (hr : Rect t) (m : String → Match) (s : Sel) (l : List Int)
    (hl : (indicesOf t m s).2 = .ok l) (hn : ∀ j ∈ l, normPos t.nrows j ≠ none) :
    ∃ r, (rowsOf t m s).2 = .ok r ∧
      r.indexCol = l.map (fun j => ((normPos t.nrows j).bind (fun k => t.indexCol[k]?)).getD "") := by
  obtain ⟨r, h1, _, h3, _⟩ := rows_eq_indices t h hr m s l hl hn
  refine ⟨r, h1, ?_⟩
  have := congrArg (List.map (fun o => Option.getD o "")) h3
  simpa [List.map_map, Function.comp_def] using this

/-- **(3c) the failure side**: `rows.mask[s]` and `rows[s]` fail exactly together, with the same error — that of
    `rows.indices[s]`, or an `IndexError` when a listed position lies outside `-n … n-1` -/
theorem views_fail_together (t : Tbl) (h : Coherent t) (m : String → Match) (s : Sel) :
    (∀ e, (indicesOf t m s).2 = .error e → (maskOf t m s).2 = .error e ∧ (rowsOf t m s).2 = .error e) ∧
    (∀ l, (indicesOf t m s).2 = .ok l → (∃ j ∈ l, normPos t.nrows j = none) →
      (maskOf t m s).2 = .error .indexError ∧ (rowsOf t m s).2 = .error .indexError) := by
  rw [maskOf_via_indices t h m s, rowsOf_via_indices t h m s]
  constructor
  · intro e he; rw [he]; exact ⟨rfl, rfl⟩
  · rintro l hl ⟨j, hj, hjn⟩
    rw [hl]
    simp only [Except.bind]
    cases hp : normAll t.nrows l with
    | error e =>
      obtain ⟨he, _⟩ := normAll_error t.nrows l e hp
      subst he; exact ⟨rfl, rfl⟩
    | ok ps =>
      have hmap := (normAll_ok_iff t.nrows l ps).mp hp
      have : normPos t.nrows j ∈ ps.map some := by rw [← hmap]; exact List.mem_map.mpr ⟨j, hj, rfl⟩
      rw [hjn] at this
      obtain ⟨k, _, hk⟩ := List.mem_map.mp this
      cases hk

/-- for a tuple selector the listed positions are always positions `0 … n-1` of the original table, so the
    hypothesis `hn` of (3a)/(3b) holds and `rows.mask[s1, …]`, `rows[s1, …]` succeed whenever `rows.indices[s1, …]` does -/
theorem indicesOf_tuple_inrange (t : Tbl) (m : String → Match) (sels : List Sel) (l : List Int)
    (hl : (indicesOf t m (.tuple sels)).2 = .ok l) : ∀ j ∈ l, normPos t.nrows j = some j.toNat ∧ 0 ≤ j := by
  rw [indicesOf_tuple] at hl
  simp only at hl
  cases hg : indicesOf.go m t (List.range t.nrows) sels with
  | error e => rw [hg] at hl; cases hl
  | ok ps =>
    rw [hg] at hl
    simp only [Except.map, Except.ok.injEq] at hl
    subst hl
    have hlt := indicesOf_go_lt m t.nrows sels t _ ps (fun k hk => List.mem_range.mp hk) hg
    intro j hj
    obtain ⟨k, hk, rfl⟩ := List.mem_map.mp hj
    have := hlt k hk
    refine ⟨?_, by omega⟩
    unfold normPos
    rw [if_pos (by omega), if_pos (by simpa using this)]

/-! ## concrete tables

`spanExample` (XModel/TableSpan.lean): names `a, b, a, c`, second column `k = p, q, q, r`. -/

/-- the oracle used below: the regular expression matches the name `a` only -/
def onlyA : String → Match := fun _ nm => nm == "a"

theorem spanExample_listed : Listed spanExample := by
  refine ⟨by decide, ?_⟩
  intro p hp
  have hp' : p = ("name", [.str "a", .str "b", .str "a", .str "c"]) ∨
      p = ("k", [.str "p", .str "q", .str "q", .str "r"]) := by simpa [spanExample] using hp
  rcases hp' with rfl | rfl <;> decide

/-- (1a) applied: a freshly built table satisfies the invariant -/
theorem spanExample_dataFull : DataFull spanExample := dataFull_of_rect _ spanExample_rect spanExample_listed

theorem spanExample_covers : DataCovers spanExample := spanExample_dataFull.covers

/-- `rows['a', [1]]`: the second of the rows named `a` — the theorem, then the value on both sides -/
example : (rowsOf spanExample onlyA (.tuple [.pattern "a", .ints [1]])).2 =
    (rowsOf spanExample onlyA (.pattern "a")).2.bind (fun v => (rowsOf v onlyA (.ints [1])).2) :=
  rowsOf_pair spanExample spanExample_coherent spanExample_covers onlyA _ _ rfl rfl
example : (rowsOf spanExample onlyA (.tuple [.pattern "a", .ints [1]])).2.toOption.map (·.data) =
    some [("name", [.str "a"]), ("k", [.str "q"])] := by rfl
example : (indicesOf spanExample onlyA (.tuple [.pattern "a", .ints [1]])).2 = .ok [2] := by rfl
/-- three selectors: `rows[1:, [2, 0], [False, True]]` — rows 1,2,3, then rows 3,1 of the table, then row 1 -/
example : (rowsOf spanExample onlyA (.tuple [.slice (.int 1) .none .none, .ints [2, 0], .bools [false, true]])).2 =
    rowsChain onlyA spanExample [.slice (.int 1) .none .none, .ints [2, 0], .bools [false, true]] :=
  rowsOf_tuple_chain spanExample spanExample_coherent spanExample_covers onlyA _ _ (by decide)
example : (rowsOf spanExample onlyA (.tuple [.slice (.int 1) .none .none, .ints [2, 0], .bools [false, true]])).2.toOption.map
    (·.data) = some [("name", [.str "b"]), ("k", [.str "q"])] := by rfl
example : (indicesOf spanExample onlyA (.tuple [.slice (.int 1) .none .none, .ints [2, 0]])).2 = .ok [3, 1] := by rfl
/-- which error wins: the first selector's `IndexError` (position 9) before the second's `ValueError` (step 0) -/
example : (rowsOf spanExample onlyA (.tuple [.ints [9], .slice .none .none (.int 0)])).2 = .error .indexError :=
  rowsOf_pair_error_first spanExample spanExample_coherent spanExample_covers onlyA _ _ rfl rfl _ rfl
example : (match (rowsOf spanExample onlyA (.tuple [.all, .slice .none .none (.int 0)])).2 with
    | .error e => some e | .ok _ => none) = some .valueError := by rfl

/-- THE MODEL REJECTS NESTED TUPLES: `rows[(s,), s']` is a `ValueError` although `rows[(s,)].rows[s']` succeeds —
    whence the hypothesis `isTuple x = false` of the composition law -/
example : (match (rowsOf spanExample onlyA (.tuple [.tuple [.all], .all])).2 with
    | .error e => some e | .ok _ => none) = some .valueError := by rfl
example : (rowsChain onlyA spanExample [.tuple [.all], .all]).toOption.map (·.indexCol) = some ["a", "b", "a", "c"] := by rfl

/-- `Rect` ALONE DOES NOT GIVE `hfull`, AND WITHOUT `DataCovers` THE LAW FAILS IN THE MODEL.  `t['junk'] = [7]` on the
    four-row table stores an unlisted one-cell entry in `_data`: the table is still rectangular and coherent, but
    `rows[[1, 0], [0]]` and `rows[[1, 0]].rows[[0]]` differ on that entry (the model's `_select_rows` subscripts every
    `_data` entry and silently drops positions past its end) -/
def junkExample : Tbl := (setCol spanExample "junk" [.int 7]).1

/-- the decidable form used by the driver implies the invariant -/
theorem rect_of_rectB (t : Tbl) (h : rectB t = true) : Rect t := by
  unfold rectB at h
  rw [Bool.and_eq_true] at h
  refine ⟨of_decide_eq_true h.1, ?_⟩
  intro c hc
  have := List.all_eq_true.mp h.2 c hc
  cases hv : t.col c with
  | none => rw [hv] at this; cases this
  | some v => rw [hv] at this; exact ⟨v, rfl, by simpa using this⟩

theorem junkExample_rect : Rect junkExample := rect_of_rectB _ (by rfl)
example : junkExample.cache = none := rfl
example : junkExample.data.map (fun p => (p.1, p.2.length)) = [("name", 4), ("k", 4), ("junk", 1)] := by rfl
example : ¬ DataCovers junkExample := fun h => absurd (h ("junk", [.int 7]) (by decide)) (by decide)
example : (rowsOf junkExample onlyA (.tuple [.ints [1, 0], .ints [0]])).2.toOption.map (·.data) =
    some [("name", [.str "b"]), ("k", [.str "q"]), ("junk", [])] := by rfl
example : (rowsChain onlyA junkExample [.ints [1, 0], .ints [0]]).toOption.map (·.data) =
    some [("name", [.str "b"]), ("k", [.str "q"]), ("junk", [.int 7])] := by rfl

/-- … while (2′) still applies: same index column, same listed columns -/
example : ∃ r2, rowsChain onlyA junkExample [.ints [1, 0], .ints [0]] = .ok r2 ∧
    (selectRows junkExample [1]).indexCol = r2.indexCol :=
  let ⟨r2, h1, _, _, h2, _⟩ := (rowsOf_tuple_chain_rect junkExample (Or.inl rfl) junkExample_rect onlyA
    [.ints [1, 0], .ints [0]] (by decide)).2 (selectRows junkExample [1]) (by rfl)
  ⟨r2, h1, h2⟩

/-- an unlisted entry that is LONGER than the table is harmless: `DataCovers` holds (not `DataFull`), the law applies -/
def longExample : Tbl := (setCol spanExample "long" [.int 1, .int 2, .int 3, .int 4, .int 5]).1

theorem longExample_covers : DataCovers longExample := by
  intro p hp
  have hp' : p = ("name", [.str "a", .str "b", .str "a", .str "c"]) ∨
      p = ("k", [.str "p", .str "q", .str "q", .str "r"]) ∨
      p = ("long", [.int 1, .int 2, .int 3, .int 4, .int 5]) := by
    simpa [longExample, setCol, spanExample, insertA, Tbl.nrows, Tbl.col, lookupA] using hp
  rcases hp' with rfl | rfl | rfl <;> decide

example : (rowsOf longExample onlyA (.tuple [.ints [3, 0], .ints [1]])).2 =
    (rowsOf longExample onlyA (.ints [3, 0])).2.bind (fun v => (rowsOf v onlyA (.ints [1])).2) :=
  rowsOf_pair longExample (Or.inl rfl) longExample_covers onlyA _ _ rfl rfl
example : (rowsOf longExample onlyA (.tuple [.ints [3, 0], .ints [1]])).2.toOption.map (·.data) =
    some [("name", [.str "a"]), ("k", [.str "p"]), ("long", [.int 1])] := by rfl

/-- (3) on `rows[[2, -1, 2]]`: a negative position wraps, a repeated position is one mark but two rows -/
example : (indicesOf spanExample onlyA (.ints [2, -1, 2])).2 = .ok [2, -1, 2] := by rfl
example : (maskOf spanExample onlyA (.ints [2, -1, 2])).2 = .ok [false, false, true, true] := by rfl
example : (rowsOf spanExample onlyA (.ints [2, -1, 2])).2.toOption.map (·.indexCol) = some ["a", "c", "a"] := by rfl
example : ∃ mask, (maskOf spanExample onlyA (.ints [2, -1, 2])).2 = .ok mask ∧ mask.length = spanExample.nrows ∧
    ∀ i : Nat, mask[i]? = some true ↔ ∃ j ∈ [2, -1, 2], normPos spanExample.nrows j = some i :=
  mask_iff_indices spanExample spanExample_coherent onlyA _ _ rfl (by decide)
example : ∃ r, (rowsOf spanExample onlyA (.ints [2, -1, 2])).2 = .ok r ∧
    r.indexCol = [2, -1, 2].map (fun j => ((normPos spanExample.nrows j).bind (fun k => spanExample.indexCol[k]?)).getD "") :=
  rows_indexCol_eq spanExample spanExample_coherent spanExample_rect onlyA _ _ rfl (by decide)
/-- a position outside `-4 … 3`: `rows.indices` still lists it, `rows.mask` and `rows[...]` raise `IndexError` -/
example : (indicesOf spanExample onlyA (.ints [0, -5])).2 = .ok [0, -5] := by rfl
example : (maskOf spanExample onlyA (.ints [0, -5])).2 = .error .indexError ∧
    (rowsOf spanExample onlyA (.ints [0, -5])).2 = .error .indexError :=
  (views_fail_together spanExample spanExample_coherent onlyA _).2 _ rfl ⟨-5, by decide, by decide⟩

end TableM
