/-! Prototype: full correctness of the model of `xdeps/sorting.py::toposort`. -/
namespace Dfs3
variable {α : Type} [DecidableEq α]

structure St (α : Type) where
  stack : List α
  visited : List α

def visitStep (f : α → St α → St α) (st : St α) (w : α) : St α :=
  if w ∈ st.visited then st else f w st

def dfs (g : α → List α) : Nat → α → St α → St α
  | 0, _, st => st
  | n+1, v, st =>
    let st1 := (g v).foldl (visitStep (dfs g n)) { st with visited := v :: st.visited }
    { st1 with stack := v :: st1.stack }

def toposort (g : α → List α) (fuel : Nat) (start : List α) : List α :=
  (start.foldl (visitStep (dfs g fuel)) ⟨[], []⟩).stack

inductive Reach (g : α → List α) : α → α → Prop
  | refl (a) : Reach g a a
  | step {a b c} : b ∈ g a → Reach g b c → Reach g a c

omit [DecidableEq α] in
theorem Reach.trans {g : α → List α} {a b c} (h1 : Reach g a b) (h2 : Reach g b c) : Reach g a c := by
  induction h1 with
  | refl => exact h2
  | step hab _ ih => exact Reach.step hab (ih h2)

omit [DecidableEq α] in
theorem Reach.tail {g : α → List α} {a b c} (h1 : Reach g a b) (h2 : c ∈ g b) : Reach g a c :=
  h1.trans (Reach.step h2 (Reach.refl _))

/-- `a` occurs strictly before an occurrence of `b` -/
def Before (l : List α) (a b : α) : Prop := ∃ xs ys, l = xs ++ a :: ys ∧ b ∈ ys

omit [DecidableEq α] in
theorem Before.append_left {l : List α} {a b} (pre : List α) (h : Before l a b) : Before (pre ++ l) a b := by
  obtain ⟨xs, ys, e, hb⟩ := h
  exact ⟨pre ++ xs, ys, by simp [e], hb⟩

omit [DecidableEq α] in
theorem Before.head {l : List α} {a b} (h : b ∈ l) : Before (a :: l) a b := ⟨[], l, rfl, h⟩

/-- number of universe nodes not yet visited -/
def unv : List α → List α → Nat
  | [], _ => 0
  | a :: l, vis => (if a ∈ vis then 0 else 1) + unv l vis

theorem unv_le_length (nodes vis : List α) : unv nodes vis ≤ nodes.length := by
  induction nodes with
  | nil => simp [unv]
  | cons a l ih => simp only [unv, List.length_cons]; split <;> omega

theorem unv_mono (nodes : List α) {v1 v2 : List α} (h : ∀ x ∈ v1, x ∈ v2) : unv nodes v2 ≤ unv nodes v1 := by
  induction nodes with
  | nil => simp [unv]
  | cons a l ih =>
    simp only [unv]
    by_cases h1 : a ∈ v1
    · have h2 : a ∈ v2 := h a h1
      simp [h1, h2]; exact ih
    · by_cases h2 : a ∈ v2
      · simp [h1, h2]; omega
      · simp [h1, h2]; exact ih

theorem unv_cons_lt (nodes : List α) (vis : List α) (v : α) (hv : v ∈ nodes) (hnv : v ∉ vis) :
    unv nodes (v :: vis) < unv nodes vis := by
  induction nodes with
  | nil => cases hv
  | cons a l ih =>
    simp only [unv]
    by_cases hav : a = v
    · subst hav
      have hle := unv_mono l (v1 := vis) (v2 := a :: vis) (fun x hx => List.mem_cons_of_mem _ hx)
      simp [hnv]; omega
    · have hv' : v ∈ l := by
        rcases List.mem_cons.mp hv with h | h
        · exact absurd h.symm hav
        · exact h
      have := ih hv'
      by_cases ha : a ∈ vis
      · simp [ha]; exact this
      · simp [ha, hav]; omega

/-- Everything the proofs need about a DFS state. `start` = roots, `nodes` = finite universe. -/
structure Good (g : α → List α) (nodes start : List α) (st : St α) : Prop where
  sub : ∀ x ∈ st.stack, x ∈ st.visited
  nodup : st.stack.Nodup
  inNodes : ∀ x ∈ st.visited, x ∈ nodes
  closed : ∀ u ∈ st.stack, ∀ w ∈ g u, w ∈ st.visited
  reach : ∀ x ∈ st.visited, ∃ s ∈ start, Reach g s x
  /-- dependency order — the only part that needs the absence of cycles through two distinct vertices -/
  ord : (∀ a b, (∃ s ∈ start, Reach g s a) → a ≠ b → Reach g a b → Reach g b a → False) →
    ∀ u ∈ st.stack, ∀ w ∈ g u, w ≠ u → Before st.stack u w

structure Ext (st st' : St α) : Prop where
  vis : ∀ x ∈ st.visited, x ∈ st'.visited
  stk : ∃ new, st'.stack = new ++ st.stack
  gray : ∀ x, (x ∈ st'.visited ∧ x ∉ st'.stack) ↔ (x ∈ st.visited ∧ x ∉ st.stack)

omit [DecidableEq α] in
theorem Ext.refl (st : St α) : Ext st st := ⟨fun _ h => h, ⟨[], by simp⟩, fun _ => Iff.rfl⟩

omit [DecidableEq α] in
theorem Ext.trans {a b c : St α} (h1 : Ext a b) (h2 : Ext b c) : Ext a c := by
  obtain ⟨n1, e1⟩ := h1.stk
  obtain ⟨n2, e2⟩ := h2.stk
  exact ⟨fun x hx => h2.vis x (h1.vis x hx), ⟨n2 ++ n1, by simp [e2, e1]⟩,
    fun x => (h2.gray x).trans (h1.gray x)⟩

theorem foldl_spec (f : α → St α → St α) (P : St α → Prop) (ws : List α)
    (hf : ∀ w ∈ ws, ∀ st, P st → w ∉ st.visited → P (f w st) ∧ Ext st (f w st) ∧ w ∈ (f w st).visited)
    (hP : ∀ st st', P st → Ext st st' → True)
    (st : St α) (h : P st) :
    P (ws.foldl (visitStep f) st) ∧ Ext st (ws.foldl (visitStep f) st) ∧
      ∀ w ∈ ws, w ∈ (ws.foldl (visitStep f) st).visited := by
  induction ws generalizing st with
  | nil => exact ⟨h, Ext.refl _, by simp⟩
  | cons w ws ih =>
    simp only [List.foldl_cons]
    have hf' : ∀ w' ∈ ws, ∀ st, P st → w' ∉ st.visited →
        P (f w' st) ∧ Ext st (f w' st) ∧ w' ∈ (f w' st).visited :=
      fun w' hw' => hf w' (List.mem_cons_of_mem _ hw')
    unfold visitStep
    split
    · next hw =>
      obtain ⟨p, e, m⟩ := ih hf' st h
      refine ⟨p, e, ?_⟩
      intro x hx
      rcases List.mem_cons.mp hx with rfl | hx
      · exact e.vis _ hw
      · exact m x hx
    · next hw =>
      obtain ⟨p1, e1, m1⟩ := hf w (List.mem_cons_self ..) st h hw
      obtain ⟨p2, e2, m2⟩ := ih hf' _ p1
      refine ⟨p2, e1.trans e2, ?_⟩
      intro x hx
      rcases List.mem_cons.mp hx with rfl | hx
      · exact e2.vis _ m1
      · exact m2 x hx

section main
variable (g : α → List α) (nodes start : List α)
variable (hclosed : ∀ u ∈ nodes, ∀ w ∈ g u, w ∈ nodes)

/-- loop invariant while exploring the successors of the grey vertex `c` (or at top level: `c = none`) -/
def LoopInv (n : Nat) (c : Option α) (st : St α) : Prop :=
  Good g nodes start st ∧ n ≥ unv nodes st.visited ∧
    ∀ a, a ∈ st.visited → a ∉ st.stack → ∃ v, c = some v ∧ Reach g a v

include hclosed in
theorem dfs_spec (n : Nat) (v : α) (st : St α) (c : Option α)
    (hG : Good g nodes start st) (hvn : v ∈ nodes) (hv : v ∉ st.visited)
    (hr : ∃ s ∈ start, Reach g s v)
    (hgray : ∀ a, a ∈ st.visited → a ∉ st.stack → Reach g a v)
    (hfuel : n ≥ unv nodes st.visited) :
    Good g nodes start (dfs g n v st) ∧ Ext st (dfs g n v st) ∧ v ∈ (dfs g n v st).stack := by
  induction n generalizing v st c with
  | zero =>
    have := unv_cons_lt nodes st.visited v hvn hv
    omega
  | succ n ih =>
    unfold dfs
    simp only
    -- state after marking v
    let st0 : St α := { st with visited := v :: st.visited }
    have hvs : v ∉ st.stack := fun hs => hv (hG.sub v hs)
    have hG0 : Good g nodes start st0 :=
      { sub := fun x hx => List.mem_cons_of_mem _ (hG.sub x hx)
        nodup := hG.nodup
        inNodes := by
          intro x hx
          rcases List.mem_cons.mp hx with rfl | hx
          · exact hvn
          · exact hG.inNodes x hx
        closed := fun u hu w hw => List.mem_cons_of_mem _ (hG.closed u hu w hw)
        reach := by
          intro x hx
          rcases List.mem_cons.mp hx with rfl | hx
          · exact hr
          · exact hG.reach x hx
        ord := hG.ord }
    have hfuel0 : n ≥ unv nodes st0.visited := by
      have := unv_cons_lt nodes st.visited v hvn hv
      show n ≥ unv nodes (v :: st.visited)
      omega
    have hinv0 : LoopInv g nodes start n (some v) st0 := by
      refine ⟨hG0, hfuel0, ?_⟩
      intro a ha has
      refine ⟨v, rfl, ?_⟩
      rcases List.mem_cons.mp ha with rfl | ha
      · exact Reach.refl _
      · exact hgray a ha has
    obtain ⟨⟨hG1, hfuel1, hgray1⟩, e1, m1⟩ :=
      foldl_spec (dfs g n) (LoopInv g nodes start n (some v)) (g v)
        (by
          intro w hw s ⟨hGs, hfs, hgs⟩ hws
          have hwn : w ∈ nodes := hclosed v hvn w hw
          have hrw : ∃ s ∈ start, Reach g s w := by
            obtain ⟨s0, hs0, r0⟩ := hr
            exact ⟨s0, hs0, r0.tail hw⟩
          have hgw : ∀ a, a ∈ s.visited → a ∉ s.stack → Reach g a w := by
            intro a ha has
            obtain ⟨v', hv', r⟩ := hgs a ha has
            cases hv'
            exact r.tail hw
          obtain ⟨hGn, en, mn⟩ := ih w s (some v) hGs hwn hws hrw hgw hfs
          refine ⟨⟨hGn, ?_, ?_⟩, en, hGn.sub w mn⟩
          · exact Nat.le_trans (unv_mono nodes en.vis) hfs
          · intro a ha has
            exact hgs a ((en.gray a).mp ⟨ha, has⟩).1 ((en.gray a).mp ⟨ha, has⟩).2)
        (fun _ _ _ _ => trivial) st0 hinv0
    generalize (g v).foldl (visitStep (dfs g n)) st0 = st1 at hG1 hfuel1 hgray1 e1 m1
    obtain ⟨new, en⟩ := e1.stk
    have hvv : v ∈ st1.visited := e1.vis v (List.mem_cons_self ..)
    have hgr1 : ∀ x, (x ∈ st1.visited ∧ x ∉ st1.stack) ↔ ((x = v ∨ x ∈ st.visited) ∧ x ∉ st.stack) := by
      intro x
      have := e1.gray x
      simpa [st0] using this
    have hvs1 : v ∉ st1.stack := ((hgr1 v).mpr ⟨Or.inl rfl, hvs⟩).2
    -- successors of v other than v itself are finished
    have hsucc : (∀ a b, (∃ s ∈ start, Reach g s a) → a ≠ b → Reach g a b → Reach g b a → False) →
        ∀ w ∈ g v, w ≠ v → w ∈ st1.stack := by
      intro hac w hw hne
      have hwv : w ∈ st1.visited := m1 w hw
      refine Classical.byContradiction fun hns => ?_
      have := (hgr1 w).mp ⟨hwv, hns⟩
      rcases this with ⟨h | h, h2⟩
      · exact hne h
      · -- w was grey before the call: it reaches v, and v → w : a cycle
        have r1 : Reach g w v := hgray w h h2
        have r2 : Reach g v w := Reach.step hw (Reach.refl _)
        exact hac v w hr (Ne.symm hne) r2 r1
    refine ⟨?_, ?_, List.mem_cons_self ..⟩
    · exact
      { sub := by
          intro x hx
          rcases List.mem_cons.mp hx with rfl | hx
          · exact hvv
          · exact hG1.sub x hx
        nodup := List.nodup_cons.mpr ⟨hvs1, hG1.nodup⟩
        inNodes := hG1.inNodes
        closed := by
          intro u hu w hw
          rcases List.mem_cons.mp hu with rfl | hu
          · exact m1 w hw
          · exact hG1.closed u hu w hw
        reach := hG1.reach
        ord := by
          intro hac u hu w hw hne
          rcases List.mem_cons.mp hu with rfl | hu
          · exact Before.head (hsucc hac w hw hne)
          · exact Before.append_left [v] (hG1.ord hac u hu w hw hne) }
    · refine ⟨fun x hx => e1.vis x (List.mem_cons_of_mem _ hx), ⟨v :: new, by simp [en, st0]⟩, ?_⟩
      intro x
      simp only [List.mem_cons, not_or]
      constructor
      · rintro ⟨hxv, hne, hxs⟩
        rcases (hgr1 x).mp ⟨hxv, hxs⟩ with ⟨h | h, h2⟩
        · exact absurd h hne
        · exact ⟨h, h2⟩
      · rintro ⟨hxv, hxs⟩
        have := (hgr1 x).mpr ⟨Or.inr hxv, hxs⟩
        exact ⟨this.1, fun hc => hv (hc ▸ hxv), this.2⟩

include hclosed in
theorem toposort_good (fuel : Nat) (hfuel : fuel ≥ nodes.length) (hstart : ∀ s ∈ start, s ∈ nodes) :
    let st := start.foldl (visitStep (dfs g fuel)) ⟨[], []⟩
    Good g nodes start st ∧ (∀ x ∈ st.visited, x ∈ st.stack) ∧ ∀ s ∈ start, s ∈ st.visited := by
  intro st
  have h0 : LoopInv g nodes start fuel none (⟨[], []⟩ : St α) := by
    refine ⟨⟨by simp, by simp, by simp, by simp, by simp, by simp⟩, ?_, by simp⟩
    have : unv nodes [] ≤ nodes.length := unv_le_length nodes []
    show fuel ≥ unv nodes []
    omega
  obtain ⟨⟨hG, _, hgray⟩, _, m⟩ :=
    foldl_spec (dfs g fuel) (LoopInv g nodes start fuel none) start
      (by
        intro w hw s ⟨hGs, hfs, hgs⟩ hws
        have hgw : ∀ a, a ∈ s.visited → a ∉ s.stack → Reach g a w := by
          intro a ha has
          obtain ⟨v', hv', _⟩ := hgs a ha has
          cases hv'
        obtain ⟨hGn, en, mn⟩ := dfs_spec g nodes start hclosed fuel w s none hGs (hstart w hw) hws
          ⟨w, hw, Reach.refl _⟩ hgw hfs
        refine ⟨⟨hGn, Nat.le_trans (unv_mono nodes en.vis) hfs, ?_⟩, en, hGn.sub w mn⟩
        intro a ha has
        exact hgs a ((en.gray a).mp ⟨ha, has⟩).1 ((en.gray a).mp ⟨ha, has⟩).2)
      (fun _ _ _ _ => trivial) _ h0
  refine ⟨hG, ?_, m⟩
  intro x hx
  refine Classical.byContradiction fun hns => ?_
  obtain ⟨v', hv', _⟩ := hgray x hx hns
  cases hv'

/-- T1: each vertex at most once — for every graph, cyclic or not. -/
theorem toposort_nodup' (fuel : Nat) (hfuel : fuel ≥ nodes.length) (hstart : ∀ s ∈ start, s ∈ nodes)
    (hclosed : ∀ u ∈ nodes, ∀ w ∈ g u, w ∈ nodes) : (toposort g fuel start).Nodup :=
  (toposort_good g nodes start hclosed fuel hfuel hstart).1.nodup

/-- T2: the output is exactly the set of vertices reachable from the start set — for every graph. -/
theorem toposort_mem_iff' (fuel : Nat) (hfuel : fuel ≥ nodes.length) (hstart : ∀ s ∈ start, s ∈ nodes)
    (hclosed : ∀ u ∈ nodes, ∀ w ∈ g u, w ∈ nodes) (x : α) :
    x ∈ toposort g fuel start ↔ ∃ s ∈ start, Reach g s x := by
  obtain ⟨hG, hall, hs⟩ := toposort_good g nodes start hclosed fuel hfuel hstart
  constructor
  · intro hx
    exact hG.reach x (hG.sub x hx)
  · rintro ⟨s, hs', r⟩
    have : s ∈ toposort g fuel start := hall s (hs s hs')
    clear hs'
    induction r with
    | refl => exact this
    | step hab _ ih => exact ih (hall _ (hG.closed _ this _ hab))

/-- T1 (signature kept for earlier callers). -/
theorem toposort_nodup (fuel : Nat) (hfuel : fuel ≥ nodes.length) (hstart : ∀ s ∈ start, s ∈ nodes)
    (hclosed : ∀ u ∈ nodes, ∀ w ∈ g u, w ∈ nodes)
    (_hac : ∀ a b, (∃ s ∈ start, Reach g s a) → a ≠ b → Reach g a b → Reach g b a → False) :
    (toposort g fuel start).Nodup := toposort_nodup' g nodes start fuel hfuel hstart hclosed

theorem toposort_mem_iff (fuel : Nat) (hfuel : fuel ≥ nodes.length) (hstart : ∀ s ∈ start, s ∈ nodes)
    (hclosed : ∀ u ∈ nodes, ∀ w ∈ g u, w ∈ nodes)
    (_hac : ∀ a b, (∃ s ∈ start, Reach g s a) → a ≠ b → Reach g a b → Reach g b a → False) (x : α) :
    x ∈ toposort g fuel start ↔ ∃ s ∈ start, Reach g s x := toposort_mem_iff' g nodes start fuel hfuel hstart hclosed x

/-- T3: dependency order. -/
theorem toposort_before (fuel : Nat) (hfuel : fuel ≥ nodes.length) (hstart : ∀ s ∈ start, s ∈ nodes)
    (hclosed : ∀ u ∈ nodes, ∀ w ∈ g u, w ∈ nodes)
    (hac : ∀ a b, (∃ s ∈ start, Reach g s a) → a ≠ b → Reach g a b → Reach g b a → False)
    (u w : α) (hu : u ∈ toposort g fuel start) (hw : w ∈ g u) (hne : w ≠ u) :
    Before (toposort g fuel start) u w :=
  (toposort_good g nodes start hclosed fuel hfuel hstart).1.ord hac u hu w hw hne

end main
end Dfs3
