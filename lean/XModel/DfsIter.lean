import XModel.Dfs3
/-! Prototype: the explicit-stack DFS (planned repair of the recursion-depth defect) computes exactly
    what the recursive `_dfs` computes. -/
namespace DfsIter
open Dfs3
variable {α : Type} [DecidableEq α]

abbrev Frames (α : Type) := List (α × List α)

/-- one step of the `while todo:` loop (one neighbour consumed, or the frame popped) -/
def iterStep (g : α → List α) : Frames α × St α → Frames α × St α
  | ([], st) => ([], st)
  | ((node, []) :: fs, st) => (fs, { st with stack := node :: st.stack })
  | ((node, w :: ws) :: fs, st) =>
    if w ∈ st.visited then ((node, ws) :: fs, st)
    else ((w, g w) :: (node, ws) :: fs, { st with visited := w :: st.visited })

def iterN (g : α → List α) : Nat → Frames α × St α → Frames α × St α
  | 0, c => c
  | k+1, c => iterN g k (iterStep g c)

theorem iterN_add (g : α → List α) (a b : Nat) (c : Frames α × St α) :
    iterN g (a + b) c = iterN g b (iterN g a c) := by
  induction a generalizing c with
  | zero => simp [iterN]
  | succ a ih =>
    have : a + 1 + b = (a + b) + 1 := by omega
    rw [this]; simp only [iterN]; exact ih _

/-- visited only grows -/
theorem foldl_vis_mono (f : α → St α → St α) (hf : ∀ w st x, x ∈ st.visited → x ∈ (f w st).visited)
    (ws : List α) (st : St α) (x : α) (hx : x ∈ st.visited) : x ∈ (ws.foldl (visitStep f) st).visited := by
  induction ws generalizing st with
  | nil => simpa using hx
  | cons w ws ih =>
    simp only [List.foldl_cons]
    apply ih
    unfold visitStep
    split
    · exact hx
    · exact hf w st x hx

theorem dfs_vis_mono (g : α → List α) (n : Nat) : ∀ (v : α) (st : St α) (x : α), x ∈ st.visited → x ∈ (dfs g n v st).visited := by
  induction n with
  | zero => intro v st x hx; simpa [dfs] using hx
  | succ n ih =>
    intro v st x hx
    unfold dfs
    simp only
    exact foldl_vis_mono (dfs g n) ih (g v) _ x (List.mem_cons_of_mem _ hx)

section
variable (g : α → List α) (nodes : List α) (hclosed : ∀ u ∈ nodes, ∀ w ∈ g u, w ∈ nodes)

/-- neighbour list processed by the loop = `foldl visitStep` of the recursive version -/
def ListClaim (n : Nat) : Prop :=
  ∀ (ws : List α) (st : St α) (node : α) (fs : Frames α),
    (∀ w ∈ ws, w ∈ nodes) → n ≥ unv nodes st.visited →
    ∃ k, iterN g k ((node, ws) :: fs, st) = ((node, []) :: fs, ws.foldl (visitStep (dfs g n)) st)

def DfsClaim (n : Nat) : Prop :=
  ∀ (v : α) (st : St α) (fs : Frames α), v ∈ nodes → v ∉ st.visited → n ≥ unv nodes st.visited →
    ∃ k, iterN g k ((v, g v) :: fs, { st with visited := v :: st.visited }) = (fs, dfs g n v st)

include hclosed in
theorem list_of_dfs (n : Nat) (hd : DfsClaim g nodes n) : ListClaim g nodes n := by
  intro ws
  induction ws with
  | nil => intro st node fs _ _; exact ⟨0, rfl⟩
  | cons w ws ih =>
    intro st node fs hws hfuel
    have hw : w ∈ nodes := hws w (List.mem_cons_self ..)
    have hws' : ∀ x ∈ ws, x ∈ nodes := fun x hx => hws x (List.mem_cons_of_mem _ hx)
    simp only [List.foldl_cons]
    by_cases hv : w ∈ st.visited
    · obtain ⟨k, hk⟩ := ih st node fs hws' hfuel
      refine ⟨k + 1, ?_⟩
      simp only [iterN, iterStep, hv, if_true]
      simpa [visitStep, hv] using hk
    · obtain ⟨k1, hk1⟩ := hd w st ((node, ws) :: fs) hw hv hfuel
      have hfuel' : n ≥ unv nodes (dfs g n w st).visited :=
        Nat.le_trans (unv_mono nodes (dfs_vis_mono g n w st)) hfuel
      obtain ⟨k2, hk2⟩ := ih (dfs g n w st) node fs hws' hfuel'
      refine ⟨1 + (k1 + k2), ?_⟩
      rw [iterN_add]
      have h1 : iterN g 1 ((node, w :: ws) :: fs, st) =
          ((w, g w) :: (node, ws) :: fs, { st with visited := w :: st.visited }) := by
        simp [iterN, iterStep, hv]
      rw [h1, iterN_add, hk1, hk2]
      simp [visitStep, hv]

include hclosed in
theorem dfs_claim : ∀ n, DfsClaim g nodes n := by
  intro n
  induction n with
  | zero =>
    intro v st fs hvn hv hfuel
    have := unv_cons_lt nodes st.visited v hvn hv
    omega
  | succ n ih =>
    intro v st fs hvn hv hfuel
    have hfuel0 : n ≥ unv nodes (v :: st.visited) := by
      have := unv_cons_lt nodes st.visited v hvn hv
      omega
    obtain ⟨k, hk⟩ := list_of_dfs g nodes hclosed n ih (g v) { st with visited := v :: st.visited } v fs
      (hclosed v hvn) hfuel0
    refine ⟨k + 1, ?_⟩
    rw [iterN_add, hk]
    simp [iterN, iterStep, dfs]

end

#print axioms dfs_claim
end DfsIter
