import XModel.Dfs3
import XModel.Push
/-! Prototype: C01 for one assignment, assembled from the DFS order theorem (L0), the push lemma (L1)
    and the container-tree algebra (L3).  The graph `g` and the start set are related to the tasks only
    through two soundness hypotheses (`hedge`, `hstart`), which the index invariant provides. -/
namespace Capstone
open Store Push

abbrev Path := List Step

/-! order facts about `Dfs3.Before` -/
theorem before_cons {α : Type} {x : α} {l : List α} {a b : α} :
    Dfs3.Before (x :: l) a b ↔ (x = a ∧ b ∈ l) ∨ Dfs3.Before l a b := by
  constructor
  · rintro ⟨xs, ys, e, hb⟩
    cases xs with
    | nil =>
      simp only [List.nil_append, List.cons.injEq] at e
      exact Or.inl ⟨e.1, e.2 ▸ hb⟩
    | cons y xs =>
      simp only [List.cons_append, List.cons.injEq] at e
      exact Or.inr ⟨xs, ys, e.2, hb⟩
  · rintro (⟨rfl, hb⟩ | ⟨xs, ys, e, hb⟩)
    · exact ⟨[], l, rfl, hb⟩
    · exact ⟨x :: xs, ys, by simp [e], hb⟩

theorem before_mem_right {α : Type} {l : List α} {a b : α} (h : Dfs3.Before l a b) : b ∈ l := by
  obtain ⟨xs, ys, e, hb⟩ := h; simp [e, hb]

/-- in a duplicate-free list, if `R` fails only when the second comes `Before` the first, then `Pairwise R` -/
theorem pairwise_of_before {α β : Type} (f : β → α) (R : β → β → Prop) (l : List β)
    (hnd : (l.map f).Nodup)
    (hb : ∀ t ∈ l, ∀ u ∈ l, f t ≠ f u → ¬ R t u → Dfs3.Before (l.map f) (f u) (f t)) :
    List.Pairwise R l := by
  induction l with
  | nil => exact List.Pairwise.nil
  | cons x l ih =>
    have hn : f x ∉ l.map f ∧ (l.map f).Nodup := by simpa using hnd
    refine List.pairwise_cons.mpr ⟨?_, ih hn.2 ?_⟩
    · intro u hu
      refine Classical.byContradiction fun hR => ?_
      have hne : f x ≠ f u := fun e => hn.1 (e ▸ List.mem_map_of_mem hu)
      have := hb x (List.mem_cons_self ..) u (List.mem_cons_of_mem _ hu) hne hR
      simp only [List.map_cons] at this
      rcases before_cons.mp this with ⟨h, _⟩ | h
      · exact hne h
      · exact hn.1 (before_mem_right h)
    · intro t ht u hu hne hR
      have := hb t (List.mem_cons_of_mem _ ht) u (List.mem_cons_of_mem _ hu) hne hR
      simp only [List.map_cons] at this
      rcases before_cons.mp this with ⟨h, _⟩ | h
      · exact absurd (h ▸ List.mem_map_of_mem hu) hn.1
      · exact h

/-- a user write that is incomparable with everything a task touches leaves it quiescent -/
theorem Q_after_set (sem : Sem) (t : ETask) (σ σ1 : Val) (p : Path) (v : Val)
    (hq : (exprSys sem).Q t σ) (hset : set σ p v = .ok σ1) (hcp : canonPath p) (hct : canonPath t.target)
    (hit : Incomparable p t.target) (hr : ∀ r ∈ leafRefs t.expr, canonPath r ∧ Incomparable p r) :
    (exprSys sem).Q t σ1 := by
  obtain ⟨w, hev, hget⟩ := hq
  refine ⟨w, ?_, ?_⟩
  · rw [← hev]
    exact eval_frame sem _ _ _ (fun r hr' => get_set_incomparable hset (hr r hr').2 hcp (hr r hr').1)
  · rw [← hget]
    exact get_set_incomparable hset hit hcp hct

theorem incomparable_symm : ∀ {p q : Path}, Incomparable p q → Incomparable q p
  | [], _, h => by simp [Incomparable] at h
  | _ :: _, [], h => by simp [Incomparable] at h
  | s :: p, t :: q, h => by
    simp only [Incomparable] at h ⊢
    rcases h with h | h
    · exact Or.inl (fun e => h e.symm)
    · exact Or.inr (incomparable_symm h)

/-- C01, one assignment of a plain value. -/
theorem setValue_consistent (sem : Sem) (tasks : List ETask) (g : Path → List Path) (start nodes : List Path)
    (fuel : Nat) (σ σ1 σf : Val) (p : Path) (v : Val) (Ltasks : List ETask)
    -- the update that was performed
    (hset : set σ p v = .ok σ1)
    (hL : Ltasks.map (·.target) = Dfs3.toposort g fuel start)
    (hLsub : ∀ t ∈ Ltasks, t ∈ tasks)
    (hrun : runAll? (exprSys sem) Ltasks σ1 = some σf)
    -- the state before: every definition holds
    (hcons : ∀ t ∈ tasks, (exprSys sem).Q t σ)
    -- graph bookkeeping (from the index invariant)
    (hfuel : fuel ≥ nodes.length) (hstartN : ∀ s ∈ start, s ∈ nodes)
    (hclosed : ∀ u ∈ nodes, ∀ w ∈ g u, w ∈ nodes)
    (hedge : ∀ u ∈ tasks, ∀ t ∈ tasks, (∃ r ∈ leafRefs t.expr, ¬ Incomparable u.target r) → t.target ∈ g u.target)
    (hstart : ∀ t ∈ tasks, (∃ r ∈ leafRefs t.expr, ¬ Incomparable p r) → t.target ∈ start)
    (hfind : ∀ x ∈ Dfs3.toposort g fuel start, ∃ t ∈ Ltasks, t.target = x)
    -- H1: no cycle through two distinct tasks among those reachable from the start set
    (hac : ∀ a b, (∃ s ∈ start, Dfs3.Reach g s a) → a ≠ b → Dfs3.Reach g a b → Dfs3.Reach g b a → False)
    -- H2: targets pairwise incomparable, assignment away from targets
    (hH2 : ∀ t ∈ tasks, ∀ u ∈ tasks, t.target ≠ u.target → Incomparable u.target t.target)
    (hinj : ∀ t ∈ tasks, ∀ u ∈ tasks, t.target = u.target → t = u)
    (hH2p : ∀ t ∈ tasks, Incomparable p t.target)
    -- H3 + canonical paths
    (hgood : ∀ t ∈ tasks, (exprSys sem).good t) (hcp : canonPath p) :
    ∀ t ∈ tasks, ∃ w, eval sem σf t.expr = .ok w ∧ get σf t.target = .ok w := by
  have hnd := Dfs3.toposort_nodup g nodes start fuel hfuel hstartN hclosed hac
  have hmem := Dfs3.toposort_mem_iff g nodes start fuel hfuel hstartN hclosed hac
  have hbef := Dfs3.toposort_before g nodes start fuel hfuel hstartN hclosed hac
  -- every listed task's target is in the order, and conversely
  have inL : ∀ t ∈ Ltasks, t.target ∈ Dfs3.toposort g fuel start := by
    intro t ht; rw [← hL]; exact List.mem_map_of_mem ht
  -- if u (listed) disturbs t (any task), then t is listed too
  have closure : ∀ u ∈ Ltasks, ∀ t ∈ tasks, (∃ r ∈ leafRefs t.expr, ¬ Incomparable u.target r) →
      t.target ∈ Dfs3.toposort g fuel start := by
    intro u hu t ht hex
    have he := hedge u (hLsub u hu) t ht hex
    obtain ⟨s, hs, hreach⟩ := (hmem u.target).mp (inL u hu)
    exact (hmem t.target).mpr ⟨s, hs, hreach.tail he⟩
  have NIof : ∀ u ∈ tasks, ∀ t ∈ tasks, u.target ≠ t.target →
      (∀ r ∈ leafRefs t.expr, Incomparable u.target r) → (exprSys sem).NI u t := by
    intro u hu t ht hne hr
    exact ⟨(hgood u hu).1, (hgood t ht).1, hH2 t ht u hu (fun e => hne e.symm),
      fun r hr' => ⟨((hgood t ht).2 r hr').1, hr r hr'⟩⟩
  have key := push_consistent sem Ltasks (fun t => t ∈ tasks ∧ t.target ∉ Dfs3.toposort g fuel start) σ1 σf hrun
    (fun t ht => hgood t (hLsub t ht))
    (by
      -- tasks outside the list are still quiescent after the user's write
      intro t ⟨ht, hnot⟩
      refine Q_after_set sem t σ σ1 p v (hcons t ht) hset hcp (hgood t ht).1 (hH2p t ht) ?_
      intro r hr
      refine ⟨((hgood t ht).2 r hr).1, ?_⟩
      refine Classical.byContradiction fun hc => ?_
      have := hstart t ht ⟨r, hr, hc⟩
      exact hnot ((hmem t.target).mpr ⟨t.target, this, Dfs3.Reach.refl _⟩))
    (by
      -- and no listed task disturbs them
      intro t ⟨ht, hnot⟩ u hu
      have hne : u.target ≠ t.target := fun e => hnot (e ▸ inL u hu)
      refine NIof u (hLsub u hu) t ht hne ?_
      intro r hr
      refine Classical.byContradiction fun hc => ?_
      exact hnot (closure u hu t ht ⟨r, hr, hc⟩))
    (by
      -- the list is in dependency order
      apply pairwise_of_before (·.target) (fun t u => (exprSys sem).NI u t) Ltasks (by rw [hL]; exact hnd)
      intro t ht u hu hne hni
      rw [hL]
      -- u disturbs t, so there is an edge u → t and u comes first
      have hex : ∃ r ∈ leafRefs t.expr, ¬ Incomparable u.target r := by
        refine Classical.byContradiction fun hc => ?_
        apply hni
        refine NIof u (hLsub u hu) t (hLsub t ht) (fun e => hne e.symm) ?_
        intro r hr
        exact Classical.byContradiction fun hc' => hc ⟨r, hr, hc'⟩
      have he := hedge u (hLsub u hu) t (hLsub t ht) hex
      exact hbef u.target t.target (inL u hu) he hne)
  intro t ht
  by_cases hin : t.target ∈ Dfs3.toposort g fuel start
  · obtain ⟨t', ht', heq⟩ := hfind t.target hin
    have : t' = t := hinj t' (hLsub t' ht') t ht heq
    exact key t (Or.inr (this ▸ ht'))
  · exact key t (Or.inl ⟨ht, hin⟩)

/-- The scheduling argument for an arbitrary execution list `order` (any legal iteration order of the
    sets involved, not only the depth-first one): it has no duplicates, contains exactly what is reachable
    from the start set, and respects every edge between distinct members.  `hafter` says that the tasks
    outside the list hold right after the user's write. -/
theorem consistent_of_order (sem : Sem) (tasks : List ETask) (g : Path → List Path) (start order : List Path)
    (σ1 σf : Val) (Ltasks : List ETask)
    (hL : Ltasks.map (·.target) = order)
    (hLsub : ∀ t ∈ Ltasks, t ∈ tasks)
    (hrun : runAll? (exprSys sem) Ltasks σ1 = some σf)
    (hafter : ∀ t ∈ tasks, t.target ∉ order → (exprSys sem).Q t σ1)
    (hnd : order.Nodup)
    (hmem : ∀ x, x ∈ order ↔ ∃ s ∈ start, Dfs3.Reach g s x)
    (hbef : ∀ u w, u ∈ order → w ∈ g u → w ≠ u → Dfs3.Before order u w)
    (hedge : ∀ u ∈ tasks, ∀ t ∈ tasks, (∃ r ∈ leafRefs t.expr, ¬ Incomparable u.target r) → t.target ∈ g u.target)
    (hfind : ∀ x ∈ order, ∃ t ∈ Ltasks, t.target = x)
    (hH2 : ∀ t ∈ tasks, ∀ u ∈ tasks, t.target ≠ u.target → Incomparable u.target t.target)
    (hinj : ∀ t ∈ tasks, ∀ u ∈ tasks, t.target = u.target → t = u)
    (hgood : ∀ t ∈ tasks, (exprSys sem).good t) :
    ∀ t ∈ tasks, ∃ w, eval sem σf t.expr = .ok w ∧ get σf t.target = .ok w := by
  have inL : ∀ t ∈ Ltasks, t.target ∈ order := by
    intro t ht; rw [← hL]; exact List.mem_map_of_mem ht
  have closure : ∀ u ∈ Ltasks, ∀ t ∈ tasks, (∃ r ∈ leafRefs t.expr, ¬ Incomparable u.target r) →
      t.target ∈ order := by
    intro u hu t ht hex
    have he := hedge u (hLsub u hu) t ht hex
    obtain ⟨s, hs, hreach⟩ := (hmem u.target).mp (inL u hu)
    exact (hmem t.target).mpr ⟨s, hs, hreach.tail he⟩
  have NIof : ∀ u ∈ tasks, ∀ t ∈ tasks, u.target ≠ t.target →
      (∀ r ∈ leafRefs t.expr, Incomparable u.target r) → (exprSys sem).NI u t := by
    intro u hu t ht hne hr
    exact ⟨(hgood u hu).1, (hgood t ht).1, hH2 t ht u hu (fun e => hne e.symm),
      fun r hr' => ⟨((hgood t ht).2 r hr').1, hr r hr'⟩⟩
  have key := push_consistent sem Ltasks (fun t => t ∈ tasks ∧ t.target ∉ order) σ1 σf hrun
    (fun t ht => hgood t (hLsub t ht))
    (fun t ⟨ht, hnot⟩ => hafter t ht hnot)
    (by
      intro t ⟨ht, hnot⟩ u hu
      have hne : u.target ≠ t.target := fun e => hnot (e ▸ inL u hu)
      refine NIof u (hLsub u hu) t ht hne ?_
      intro r hr
      refine Classical.byContradiction fun hc => ?_
      exact hnot (closure u hu t ht ⟨r, hr, hc⟩))
    (by
      apply pairwise_of_before (·.target) (fun t u => (exprSys sem).NI u t) Ltasks (by rw [hL]; exact hnd)
      intro t ht u hu hne hni
      rw [hL]
      have hex : ∃ r ∈ leafRefs t.expr, ¬ Incomparable u.target r := by
        refine Classical.byContradiction fun hc => ?_
        apply hni
        refine NIof u (hLsub u hu) t (hLsub t ht) (fun e => hne e.symm) ?_
        intro r hr
        exact Classical.byContradiction fun hc' => hc ⟨r, hr, hc'⟩
      have he := hedge u (hLsub u hu) t (hLsub t ht) hex
      exact hbef u.target t.target (inL u hu) he hne)
  intro t ht
  by_cases hin : t.target ∈ order
  · obtain ⟨t', ht', heq⟩ := hfind t.target hin
    have : t' = t := hinj t' (hLsub t' ht') t ht heq
    exact key t (Or.inr (this ▸ ht'))
  · exact key t (Or.inl ⟨ht, hin⟩)

#print axioms setValue_consistent
end Capstone
