import XModel.ManagerMixed
import XModel.ManagerC20
import XModel.StoreNF
/-!
# Linear knobs that SHARE targets, and the order independence of knob runs (C01 / C20)

`ManagerKnob.lean` (`KnobWF`, `KnobApart`) and `ManagerMixed.lean` (`ScopeM.h2`) demand that the leaf targets of
different tasks be pairwise prefix-incomparable, and that one knob does not list a target twice.  The normal use of
`LinearKnob` — ONE element driven by SEVERAL knobs — is outside those theorems although the model (and the code)
compute the right value.  This file treats exactly that case, for a *family* `F` of knob tasks on integer data.

* `KnobFamily F` (static): distinct ids; each member is a knob with a canonical source;
  every target is a canonical non-empty path; **no knob target is a knob source**.  Targets may be shared between
  knobs and repeated inside one knob.  Sources need not be distinct.
* `wAt k t` — the weight of knob `k` on location `t`: the SUM of `k`'s weights at the positions where `t` occurs in
  its target list (`0` when it does not occur);  `famSum t P F = Σ_{k ∈ F} wAt k t * P k`.
* `SharedInv F base s` — THE INVARIANT: remembered values, sources and targets are ints and every target `t` holds
  `base t + Σ_k wAt k t * prev_k`.  `SharedAt` adds: every knob is settled (`prev_k = value(src_k)`), hence
  (`SharedAt.value`) every target holds `base t + Σ_k wAt k t * value(src_k)` — what the tasks prescribe.
* `runTask_shared`, `runTasks_shared` — the invariant is preserved by running ANY knob / list of knobs of the family,
  the runs complete (completion is a conclusion), each run knob ends settled.
* `writeAndRun_shared`, `setValue_shared`, `setValue_sharedAt`, `sharedAssignAll` — through the manager, one
  assignment and any series of assignments to sources.
* `IntData.sharedInv` — every integer state is in the invariant for its own bases (`baseOf`); `register_sharedAt` —
  registration of one more knob keeps a settled family settled.
* ORDER INDEPENDENCE: `runTask_knob_comm` (two runs commute, whatever targets they share),
  `runTasks_knobs_any_order`, `runTasks_knobs_perm` (two lists with the same members — e.g. two permutations — end in
  the same state),
  `writeAndRun_knob_sched_indep`, `setValue_knob_sched_indep` (two schedulers).  "Same state" is `KnobEquiv`: the same
  container tree (equality of `Val`s), the same remembered value for EVERY id (`lookPrev`), the same
  `idx / defs / frozen / faultIn`.  The association list `MState.prev` itself and the event log `trace` DO depend on the
  order (`SharedExample.prev_lists_differ`): `prev` models a Python attribute per task object, whose only observable is
  the lookup.
* decidable tests `knobFamilyB`, `intDataB`, `sharedInvB`, `sharedAtB`, `sameIdsB` with soundness, and concrete
  examples (`SharedExample`).  NOT decided: the hypotheses that speak of membership of a task in the family
  (`∀ k ∈ l, k ∈ F`, `SharedCall.trig`, `hfam`) — `MTask` has no decidable equality; on the examples they are proved by
  `rfl` on the computed triggered list.

Still outside: a triggered set that mixes knobs with expression / function tasks AND has shared targets; non-int values
(NaN, containers); injected faults (recovery after a fault is FALSE for knobs, `KnobFaultWitness`, C18).
-/
namespace Manager
open Store Push Index

/-! ### the weight of a knob on a location -/

/-- source of a knob task (`[]` for other kinds) -/
def knobSrc (k : MTask) : Path :=
  match k.kind with
  | .knob src _ _ => src
  | _ => []

/-- the (weight, target) pairs the knob loop walks -/
def knobPairs (k : MTask) : List (Int × Path) :=
  match k.kind with
  | .knob _ ws tars => ws.zip tars
  | _ => []

theorem knobSrc_knob {k : MTask} {src : Path} {ws : List Int} {tars : List Path} (hk : k.kind = .knob src ws tars) :
    knobSrc k = src := by simp [knobSrc, hk]

theorem knobPairs_knob {k : MTask} {src : Path} {ws : List Int} {tars : List Path} (hk : k.kind = .knob src ws tars) :
    knobPairs k = ws.zip tars := by simp [knobPairs, hk]

/-- sum of the weights paired with the location `q` -/
def wSum (q : Path) : List (Int × Path) → Int
  | [] => 0
  | (w, a) :: l => (if a = q then w else 0) + wSum q l

/-- the weight of knob `k` on location `q`: the sum of its weights at the positions where `q` is listed -/
def wAt (k : MTask) (q : Path) : Int := wSum q (knobPairs k)

/-- `Σ_{k ∈ F} wAt k q * P k` -/
def famSum (q : Path) (P : MTask → Int) : List MTask → Int
  | [] => 0
  | k :: F => wAt k q * P k + famSum q P F

/-- all targets of the family (with repetitions) -/
def famTargets (F : List MTask) : List Path := F.flatMap leafTargets

theorem wSum_eq_zero (q : Path) : ∀ (l : List (Int × Path)), (∀ wt ∈ l, wt.2 ≠ q) → wSum q l = 0
  | [], _ => rfl
  | (w, a) :: l, h => by
    have h1 : a ≠ q := h (w, a) (List.mem_cons_self ..)
    simp only [wSum, h1, if_false, Int.zero_add]
    exact wSum_eq_zero q l (fun wt hwt => h wt (List.mem_cons_of_mem _ hwt))

theorem mem_famTargets {F : List MTask} {t : Path} : t ∈ famTargets F ↔ ∃ k ∈ F, t ∈ leafTargets k := by
  simp [famTargets, List.mem_flatMap]

theorem wAt_eq_zero {k : MTask} {q : Path} (h : q ∉ leafTargets k) : wAt k q = 0 := by
  unfold wAt
  apply wSum_eq_zero
  intro wt hwt e
  apply h
  cases hk : k.kind with
  | expr e' => simp [knobPairs, hk] at hwt
  | func b => simp [knobPairs, hk] at hwt
  | knob src ws tars =>
    rw [knobPairs_knob hk] at hwt
    rw [leafTargets_knob hk, ← e]
    exact (List.of_mem_zip hwt).2

theorem famSum_congr (q : Path) {P P' : MTask → Int} : ∀ (F : List MTask), (∀ k ∈ F, P k = P' k) →
    famSum q P F = famSum q P' F
  | [], _ => rfl
  | k :: F, h => by
    simp only [famSum]
    rw [h k (List.mem_cons_self ..), famSum_congr q F (fun k' hk' => h k' (List.mem_cons_of_mem _ hk'))]

/-- changing `P` at ONE member of a family with distinct ids changes the sum by that member's weight times the change -/
theorem famSum_update (q : Path) {P P' : MTask → Int} (k : MTask) (x : Int) : ∀ (F : List MTask),
    (F.map (·.id)).Nodup → k ∈ F → P' k = x → (∀ k' ∈ F, k'.id ≠ k.id → P' k' = P k') →
    famSum q P' F = famSum q P F + wAt k q * (x - P k)
  | [], _, hk, _, _ => by cases hk
  | k0 :: F, hnd, hk, hx, hoth => by
    have hn : k0.id ∉ F.map (·.id) ∧ (F.map (·.id)).Nodup := by simpa using hnd
    simp only [famSum]
    by_cases e : k0 = k
    · subst e
      have hrest : famSum q P' F = famSum q P F := by
        apply famSum_congr
        intro k' hk'
        apply hoth k' (List.mem_cons_of_mem _ hk')
        intro e'
        exact hn.1 (e' ▸ List.mem_map_of_mem hk')
      rw [hrest, hx, Int.mul_sub]
      omega
    · have hkF : k ∈ F := by
        rcases List.mem_cons.mp hk with h | h
        · exact absurd h.symm e
        · exact h
      have hne : k0.id ≠ k.id := by
        intro e'
        exact hn.1 (e' ▸ List.mem_map_of_mem hkF)
      rw [hoth k0 (List.mem_cons_self ..) hne,
        famSum_update q k x F hn.2 hkF hx (fun k' hk' => hoth k' (List.mem_cons_of_mem _ hk'))]
      omega

/-! ### the family -/

/-- STATIC hypotheses on a family of knob tasks.  Targets may be shared between members and repeated inside one member;
    sources need not be distinct. -/
structure KnobFamily (F : List MTask) : Prop where
  /-- the remembered value is per task id -/
  ids : (F.map (·.id)).Nodup
  /-- every member is a knob with a canonical source (the loop walks `ws.zip tars`, as the model does: surplus weights
      or targets are ignored, and `wAt` is defined on the zipped pairs) -/
  knob : ∀ k ∈ F, ∃ src ws tars, k.kind = .knob src ws tars ∧ canonPath src
  /-- every target is a canonical, non-empty path -/
  ctars : ∀ t ∈ famTargets F, canonPath t ∧ t ≠ []
  /-- no knob target is a knob source -/
  apart : ∀ k ∈ F, ∀ t ∈ famTargets F, t ≠ knobSrc k

theorem KnobFamily.eq_of_id {F : List MTask} (hF : KnobFamily F) {k k' : MTask} (hk : k ∈ F) (hk' : k' ∈ F)
    (e : k.id = k'.id) : k = k' := eq_of_id_eq F hF.ids k hk k' hk' e

theorem KnobFamily.csrc {F : List MTask} (hF : KnobFamily F) {k : MTask} (hk : k ∈ F) : canonPath (knobSrc k) := by
  obtain ⟨src, ws, tars, hkk, hc⟩ := hF.knob k hk
  rw [knobSrc_knob hkk]; exact hc

theorem KnobFamily.tars_mem {F : List MTask} {k : MTask} (hk : k ∈ F) {t : Path} (ht : t ∈ leafTargets k) :
    t ∈ famTargets F := mem_famTargets.mpr ⟨k, hk, ht⟩

/-! ### integer readings of the state -/

def valI (v : Val) : Int :=
  match v with
  | .int i => i
  | _ => 0

/-- the remembered source value of knob `k`, as an integer (`0` when it is not one) -/
def prevI (s : MState) (k : MTask) : Int := valI (lookPrev s.prev k.id)

/-- the integer at a location (`0` when there is none) -/
def intAt (σ : Val) (q : Path) : Int :=
  match get σ q with
  | .ok v => valI v
  | .error _ => 0

/-- the current source value of knob `k`, as an integer -/
def srcI (s : MState) (k : MTask) : Int := intAt s.store (knobSrc k)

theorem prevI_of {s : MState} {k : MTask} {p : Int} (h : lookPrev s.prev k.id = .int p) : prevI s k = p := by
  simp [prevI, h, valI]

theorem intAt_of {σ : Val} {q : Path} {x : Int} (h : get σ q = .ok (.int x)) : intAt σ q = x := by
  simp [intAt, h, valI]

theorem srcI_of {s : MState} {k : MTask} {x : Int} (h : get s.store (knobSrc k) = .ok (.int x)) : srcI s k = x :=
  intAt_of h

/-- DYNAMIC hypothesis "integer data": remembered values, sources and targets of the family are ints -/
structure IntData (F : List MTask) (s : MState) : Prop where
  prevInt : ∀ k ∈ F, ∃ p, lookPrev s.prev k.id = .int p
  srcInt : ∀ k ∈ F, ∃ x, get s.store (knobSrc k) = .ok (.int x)
  tarInt : ∀ t ∈ famTargets F, ∃ a, get s.store t = .ok (.int a)

/-- THE INVARIANT for shared targets: integer data, and every target `t` holds `base t + Σ_k wAt k t * prev_k` -/
structure SharedInv (F : List MTask) (base : Path → Int) (s : MState) : Prop where
  data : IntData F s
  tars : ∀ t ∈ famTargets F, get s.store t = .ok (.int (base t + famSum t (prevI s) F))

theorem IntData.prev_eq {F : List MTask} {s : MState} (h : IntData F s) {k : MTask} (hk : k ∈ F) :
    lookPrev s.prev k.id = .int (prevI s k) := by
  obtain ⟨p, hp⟩ := h.prevInt k hk
  rw [prevI_of hp]; exact hp

theorem IntData.src_eq {F : List MTask} {s : MState} (h : IntData F s) {k : MTask} (hk : k ∈ F) :
    get s.store (knobSrc k) = .ok (.int (srcI s k)) := by
  obtain ⟨x, hx⟩ := h.srcInt k hk
  rw [srcI_of hx]; exact hx

theorem IntData.tar_eq {F : List MTask} {s : MState} (h : IntData F s) {t : Path} (ht : t ∈ famTargets F) :
    get s.store t = .ok (.int (intAt s.store t)) := by
  obtain ⟨a, ha⟩ := h.tarInt t ht
  rw [intAt_of ha]; exact ha

/-- the bases of an integer state: what each target holds minus what the knobs have added so far -/
def baseOf (F : List MTask) (s : MState) (t : Path) : Int := intAt s.store t - famSum t (prevI s) F

/-- EVERY integer state is in the invariant, for its own bases -/
theorem IntData.sharedInv {F : List MTask} {s : MState} (h : IntData F s) : SharedInv F (baseOf F s) s where
  data := h
  tars := fun t ht => by
    rw [h.tar_eq ht]
    congr 2
    unfold baseOf
    omega

/-- two int locations: equal or prefix-incomparable; here in the form used below -/
theorem incomparable_of_ints_ne {σ : Val} {a q : Path} {i j : Int} (ha : get σ a = .ok (.int i))
    (hq : get σ q = .ok (.int j)) (hne : a ≠ q) : Incomparable a q := by
  rcases int_locs_eq_or_incomparable a q σ i j ha hq with e | h
  · exact absurd e hne
  · exact h

/-! ### the loop over targets that may repeat -/

/-- THE KNOB LOOP ON POSSIBLY REPEATED TARGETS.  Every listed target is a canonical non-empty path holding an int, the
    increment is an int `d`, no fault is armed.  The loop completes; every canonical location `q` that held the int `a`
    holds `a + (sum of the weights paired with q) * d` (so: unchanged when `q` is not listed); the tree is reached from
    the old one by writes to listed targets only. -/
theorem runKnobLoop_shared (d : Int) : ∀ (l : List (Int × Path)) (s : MState), s.faultIn = none →
    (∀ wt ∈ l, canonPath wt.2 ∧ wt.2 ≠ [] ∧ ∃ a, get s.store wt.2 = .ok (.int a)) →
    ∃ s', runKnobLoop s (.int d) l = (s', none) ∧ s'.faultIn = none ∧ s'.prev = s.prev ∧ SameGraph s s' ∧
      (∀ q a, canonPath q → get s.store q = .ok (.int a) → get s'.store q = .ok (.int (a + wSum q l * d))) ∧
      (∀ W : List Path, (∀ wt ∈ l, wt.2 ∈ W) → Reach W s.store s'.store)
  | [], s, hf, _ =>
    ⟨s, rfl, hf, rfl, SameGraph.refl s, fun q a _ h => by simpa [wSum] using h, fun _ _ => Reach.refl⟩
  | (w, t) :: rest, s, hf, h => by
    obtain ⟨hct, hne, a, ha⟩ := h (w, t) (List.mem_cons_self ..)
    obtain ⟨σ1, hset⟩ := set_ok_of_get t s.store _ (.int (a + w * d)) hne ha
    have hw := writeRef_ok s t (.int (a + w * d)) σ1 hf hset
    -- what an int location holds after the first write
    have hafter : ∀ q b, canonPath q → get s.store q = .ok (.int b) →
        get σ1 q = .ok (.int (b + (if t = q then w else 0) * d)) := by
      intro q b hcq hq
      by_cases e : t = q
      · subst e
        rw [ha] at hq
        cases hq
        simp only [if_true]
        exact get_set_same hset
      · rw [get_set_incomparable hset (incomparable_of_ints_ne ha hq e) hct hcq]
        simp [e, hq]
    obtain ⟨s', hrun, hf', hpr, hg, hval, hreach⟩ :=
      runKnobLoop_shared d rest { s with store := σ1, trace := s.trace ++ [(true, t)] } hf
        (fun wt hwt => by
          obtain ⟨hc', hne', b, hb⟩ := h wt (List.mem_cons_of_mem _ hwt)
          exact ⟨hc', hne', _, hafter wt.2 b hc' hb⟩)
    refine ⟨s', ?_, hf', hpr, ⟨hg.1, hg.2.1, hg.2.2⟩, ?_, ?_⟩
    · simp only [runKnobLoop, ha, pyBin_mul_int, pyBin_add_int, hw, hrun]
    · intro q b hcq hq
      rw [hval q _ hcq (hafter q b hcq hq)]
      congr 2
      simp only [wSum]
      rw [Int.add_mul]
      omega
    · intro W hW
      exact Reach.trans (Reach.step Reach.refl (hW (w, t) (List.mem_cons_self ..)) hset)
        (hreach W (fun wt hwt => hW wt (List.mem_cons_of_mem _ hwt)))

/-! ### one run of a knob of the family -/

/-- ONE RUN OF ANY KNOB OF THE FAMILY.  `SharedInv F base s`, no armed fault, `k ∈ F`.  The run completes; the invariant
    holds again with the SAME bases; `k` remembers the current value of its source; the remembered values of all other
    ids and all sources are unchanged; every canonical location `q` that held the int `a` holds
    `a + wAt k q * (value(src_k) - prev_k)` (unchanged when `q` is not a target of `k`); the container tree is reached
    by writes to targets of `k` only; `idx / defs / frozen` are untouched and no fault gets armed. -/
theorem runTask_shared {F : List MTask} {base : Path → Int} {s : MState} (hF : KnobFamily F)
    (hf : s.faultIn = none) (hinv : SharedInv F base s) {k : MTask} (hk : k ∈ F) :
    ∃ s', runTask s k = (s', none) ∧ SharedInv F base s' ∧ s'.faultIn = none ∧ SameGraph s s' ∧
      lookPrev s'.prev k.id = .int (srcI s k) ∧
      (∀ id, id ≠ k.id → lookPrev s'.prev id = lookPrev s.prev id) ∧
      (∀ k' ∈ F, get s'.store (knobSrc k') = get s.store (knobSrc k')) ∧
      (∀ q a, canonPath q → get s.store q = .ok (.int a) →
        get s'.store q = .ok (.int (a + wAt k q * (srcI s k - prevI s k)))) ∧
      (∀ W : List Path, (∀ t ∈ leafTargets k, t ∈ W) → Reach W s.store s'.store) := by
  obtain ⟨src, ws, tars, hkk, _⟩ := hF.knob k hk
  have hsrc := hinv.data.src_eq hk
  rw [knobSrc_knob hkk] at hsrc
  have hprev := hinv.data.prev_eq hk
  have hpairs : ∀ wt ∈ ws.zip tars, wt.2 ∈ leafTargets k := fun wt hwt => by
    rw [leafTargets_knob hkk]; exact (List.of_mem_zip hwt).2
  obtain ⟨s1, hrun, hf1, hpr, hg, hval, hreach⟩ := runKnobLoop_shared (srcI s k - prevI s k) (ws.zip tars) s hf
    (fun wt hwt => by
      have hm := KnobFamily.tars_mem hk (hpairs wt hwt)
      exact ⟨(hF.ctars _ hm).1, (hF.ctars _ hm).2, hinv.data.tarInt _ hm⟩)
  have hval' : ∀ q a, canonPath q → get s.store q = .ok (.int a) →
      get s1.store q = .ok (.int (a + wAt k q * (srcI s k - prevI s k))) := by
    intro q a hq ha
    rw [hval q a hq ha, wAt, knobPairs_knob hkk]
  have hsrcs : ∀ k' ∈ F, get s1.store (knobSrc k') = get s.store (knobSrc k') := by
    intro k' hk'
    have h1 := hinv.data.src_eq hk'
    rw [hval' _ _ (hF.csrc hk') h1, h1, wAt_eq_zero (fun hm => hF.apart k' hk' _ (KnobFamily.tars_mem hk hm) rfl)]
    simp
  -- the remembered values after the run
  have hprevI : ∀ k' ∈ F, prevI { s1 with prev := setPrev s1.prev k.id (.int (srcI s k)) } k' =
      if k'.id = k.id then srcI s k else prevI s k' := by
    intro k' _
    by_cases e : k'.id = k.id
    · simp only [prevI, e, if_true, lookPrev_setPrev_same, valI]
    · simp only [prevI, e, if_false, lookPrev_setPrev_other _ _ _ _ e, hpr]
  refine ⟨{ s1 with prev := setPrev s1.prev k.id (.int (srcI s k)) }, ?_, ?_, hf1, ⟨hg.1, hg.2.1, hg.2.2⟩,
    lookPrev_setPrev_same _ _ _, ?_, hsrcs, hval', ?_⟩
  · simp only [runTask, hkk, hsrc, hprev, pyBin_sub_int, hrun]
  · refine ⟨⟨?_, ?_, ?_⟩, ?_⟩
    · intro k' hk'
      by_cases e : k'.id = k.id
      · exact ⟨srcI s k, by simp only [e, lookPrev_setPrev_same]⟩
      · obtain ⟨p, hp⟩ := hinv.data.prevInt k' hk'
        exact ⟨p, by simp only [lookPrev_setPrev_other _ _ _ _ e, hpr, hp]⟩
    · intro k' hk'
      exact ⟨srcI s k', by show get s1.store _ = _; rw [hsrcs k' hk']; exact hinv.data.src_eq hk'⟩
    · intro t ht
      exact ⟨_, hval' t _ (hF.ctars t ht).1 (hinv.tars t ht)⟩
    · intro t ht
      show get s1.store t = _
      rw [hval' t _ (hF.ctars t ht).1 (hinv.tars t ht)]
      congr 2
      rw [famSum_update t (P := prevI s) (P' := prevI { s1 with prev := setPrev s1.prev k.id (.int (srcI s k)) }) k
        (srcI s k) F hF.ids hk (by rw [hprevI k hk]; simp)
        (fun k' hk' hne => by rw [hprevI k' hk']; simp [hne])]
      omega
  · intro id hne
    simp only [lookPrev_setPrev_other _ _ _ _ hne, hpr]
  · intro W hW
    exact hreach W (fun wt hwt => hW _ (hpairs wt hwt))

/-- `wAt` in the notation of the brief: a knob that lists `t` at positions `i` and `j` acts on it with `w_i + w_j` -/
example : wSum [.item (.str "c")] [((1 : Int), [.item (.str "c")]), (4, [.item (.str "c")]), (9, [.item (.str "e")])] = 5 := by
  decide

/-! ### a list of knobs of the family, in the order given -/

theorem srcI_congr {s s' : MState} {k : MTask} (h : get s'.store (knobSrc k) = get s.store (knobSrc k)) :
    srcI s' k = srcI s k := by
  simp only [srcI, intAt, h]

/-- ANY LIST OF KNOBS OF THE FAMILY (repetitions allowed), run in the order given: completes; the invariant holds again
    with the same bases; every knob of the list remembers the value of its source (which did not change); remembered
    values of ids outside the list, all sources, and every int location that is not a target of the family are
    unchanged; the tree is reached by writes to targets of the family. -/
theorem runTasks_shared {F : List MTask} {base : Path → Int} (hF : KnobFamily F) : ∀ (l : List MTask) (s : MState),
    s.faultIn = none → SharedInv F base s → (∀ k ∈ l, k ∈ F) →
    ∃ s', runTasks s l = (s', none) ∧ SharedInv F base s' ∧ s'.faultIn = none ∧ SameGraph s s' ∧
      (∀ k ∈ l, lookPrev s'.prev k.id = .int (srcI s k)) ∧
      (∀ id, (∀ k ∈ l, id ≠ k.id) → lookPrev s'.prev id = lookPrev s.prev id) ∧
      (∀ k' ∈ F, get s'.store (knobSrc k') = get s.store (knobSrc k')) ∧
      (∀ q a, canonPath q → get s.store q = .ok (.int a) → q ∉ famTargets F → get s'.store q = .ok (.int a)) ∧
      Reach (famTargets F) s.store s'.store
  | [], s, hf, hinv, _ =>
    ⟨s, rfl, hinv, hf, SameGraph.refl s, fun _ h => (by cases h), fun _ _ => rfl, fun _ _ => rfl,
      fun _ _ _ h _ => h, Reach.refl⟩
  | k :: l, s, hf, hinv, hl => by
    have hk : k ∈ F := hl k (List.mem_cons_self ..)
    obtain ⟨s1, hrun, hinv1, hf1, hg1, hp1, hpo1, hsrc1, hval1, hreach1⟩ := runTask_shared hF hf hinv hk
    obtain ⟨s', hrun', hinv', hf', hg', hp', hpo', hsrc', hfr', hreach'⟩ := runTasks_shared hF l s1 hf1 hinv1
      (fun k' hk' => hl k' (List.mem_cons_of_mem _ hk'))
    refine ⟨s', ?_, hinv', hf', ⟨hg'.1.trans hg1.1, hg'.2.1.trans hg1.2.1, hg'.2.2.trans hg1.2.2⟩, ?_, ?_, ?_, ?_, ?_⟩
    · simp only [runTasks, hrun, hrun']
    · intro k' hk'
      have hin : ∀ k'' ∈ l, lookPrev s'.prev k''.id = .int (srcI s k'') := fun k'' hk'' => by
        rw [hp' k'' hk'', srcI_congr (hsrc1 k'' (hl k'' (List.mem_cons_of_mem _ hk'')))]
      rcases List.mem_cons.mp hk' with rfl | hk'
      · by_cases hex : ∃ k'' ∈ l, k''.id = k'.id
        · obtain ⟨k'', hk'', e⟩ := hex
          have : k'' = k' := hF.eq_of_id (hl k'' (List.mem_cons_of_mem _ hk'')) hk e
          subst this
          exact hin k'' hk''
        · rw [hpo' k'.id (fun k'' hk'' e => hex ⟨k'', hk'', e.symm⟩)]
          exact hp1
      · exact hin k' hk'
    · intro id hid
      rw [hpo' id (fun k' hk' => hid k' (List.mem_cons_of_mem _ hk')), hpo1 id (hid k (List.mem_cons_self ..))]
    · intro k' hk'
      rw [hsrc' k' hk', hsrc1 k' hk']
    · intro q a hq ha hnt
      apply hfr' q a hq ?_ hnt
      rw [hval1 q a hq ha, wAt_eq_zero (fun hm => hnt (KnobFamily.tars_mem hk hm))]
      simp
    · exact Reach.trans (hreach1 _ (fun t ht => KnobFamily.tars_mem hk ht)) hreach'

/-! ### order independence -/

/-- the two states cannot be told apart by the manager: the same container tree, the same remembered value for every
    id, the same graph, freeze flag and fault counter.  (The association list `prev` and the event log `trace` are not
    compared: they record the order itself.) -/
structure KnobEquiv (s1 s2 : MState) : Prop where
  store : s1.store = s2.store
  prev : ∀ id, lookPrev s1.prev id = lookPrev s2.prev id
  idx : s1.idx = s2.idx
  defs : s1.defs = s2.defs
  frozen : s1.frozen = s2.frozen
  faultIn : s1.faultIn = s2.faultIn

theorem KnobEquiv.get {s1 s2 : MState} (h : KnobEquiv s1 s2) (q : Path) : get s1.store q = get s2.store q := by
  rw [h.store]

/-- the distinct targets of a family on integer data form a `Family` of the store normal form -/
theorem famTargets_family {F : List MTask} {s : MState} (hF : KnobFamily F) (hd : IntData F s) :
    Family (dedup (famTargets F)) ∧ (∀ w ∈ dedup (famTargets F), w ≠ []) ∧
      AllExist (dedup (famTargets F)) s.store := by
  refine ⟨⟨dedup_nodup _, ?_, ?_⟩, ?_, ?_⟩
  · intro w hw
    exact (hF.ctars w ((mem_dedup _ _).mp hw)).1
  · intro w hw w' hw' hne
    obtain ⟨a, ha⟩ := hd.tarInt w ((mem_dedup _ _).mp hw)
    obtain ⟨b, hb⟩ := hd.tarInt w' ((mem_dedup _ _).mp hw')
    exact incomparable_of_ints_ne ha hb hne
  · intro w hw
    exact (hF.ctars w ((mem_dedup _ _).mp hw)).2
  · intro w hw
    obtain ⟨a, ha⟩ := hd.tarInt w ((mem_dedup _ _).mp hw)
    exact ⟨_, ha⟩

/-- **KNOB RUNS IN ANY ORDER.**  On integer data, two lists of knobs of the family with the same members — in particular
    two permutations of the triggered knobs — both complete and end in the same state (`KnobEquiv`), whatever targets
    the knobs share.  No ordering hypothesis at all: knobs do not read what knobs write. -/
theorem runTasks_knobs_any_order {F : List MTask} {s : MState} (hF : KnobFamily F) (hf : s.faultIn = none)
    (hd : IntData F s) (l l' : List MTask) (hl : ∀ k ∈ l, k ∈ F) (hmem : ∀ k, k ∈ l ↔ k ∈ l') :
    ∃ s1 s2, runTasks s l = (s1, none) ∧ runTasks s l' = (s2, none) ∧ KnobEquiv s1 s2 := by
  have hl' : ∀ k ∈ l', k ∈ F := fun k hk => hl k ((hmem k).mpr hk)
  obtain ⟨s1, hr1, hi1, hf1, hg1, hp1, hpo1, _, _, hre1⟩ := runTasks_shared hF l s hf hd.sharedInv hl
  obtain ⟨s2, hr2, hi2, hf2, hg2, hp2, hpo2, _, _, hre2⟩ := runTasks_shared hF l' s hf hd.sharedInv hl'
  have hprev : ∀ id, lookPrev s1.prev id = lookPrev s2.prev id := by
    intro id
    by_cases hex : ∃ k ∈ l, k.id = id
    · obtain ⟨k, hk, rfl⟩ := hex
      rw [hp1 k hk, hp2 k ((hmem k).mp hk)]
    · rw [hpo1 id (fun k hk e => hex ⟨k, hk, e.symm⟩),
        hpo2 id (fun k hk e => hex ⟨k, (hmem k).mpr hk, e.symm⟩)]
  have hP : prevI s1 = prevI s2 := by
    funext k
    simp only [prevI, hprev]
  obtain ⟨hW, hne, hex⟩ := famTargets_family hF hd
  have hsub : ∀ w ∈ famTargets F, w ∈ dedup (famTargets F) := fun w hw => (mem_dedup _ _).mpr hw
  refine ⟨s1, s2, hr1, hr2, ?_, hprev, by rw [hg1.1, hg2.1], by rw [hg1.2.1, hg2.2.1], by rw [hg1.2.2, hg2.2.2],
    by rw [hf1, hf2]⟩
  apply Reach.eq_of_agree hW hne (hre1.mono hsub) (hre2.mono hsub) hex
  intro w hw
  have hw' := (mem_dedup _ _).mp hw
  rw [hi1.tars w hw', hi2.tars w hw', hP]

/-- the analogue of `OrderIndep.perm_run` for knob tasks: two PERMUTATIONS of a list of knobs of the family both complete
    and end in the same state -/
theorem runTasks_knobs_perm {F : List MTask} {s : MState} (hF : KnobFamily F) (hf : s.faultIn = none)
    (hd : IntData F s) {l l' : List MTask} (hl : ∀ k ∈ l, k ∈ F) (hp : l.Perm l') :
    ∃ s1 s2, runTasks s l = (s1, none) ∧ runTasks s l' = (s2, none) ∧ KnobEquiv s1 s2 :=
  runTasks_knobs_any_order hF hf hd l l' hl (fun _ => hp.mem_iff)

/-- **TWO KNOB RUNS COMMUTE.**  `K`, `K'` knobs of a family on integer data, no armed fault: `K` then `K'` and `K'`
    then `K` both complete and end in the same container tree, with the same remembered value for every id — whatever
    targets the two knobs share. -/
theorem runTask_knob_comm {F : List MTask} {s : MState} (hF : KnobFamily F) (hf : s.faultIn = none)
    (hd : IntData F s) {K K' : MTask} (hK : K ∈ F) (hK' : K' ∈ F) :
    ∃ s12 s21, (runTask s K).2 = none ∧ (runTask s K').2 = none ∧
      runTask (runTask s K).1 K' = (s12, none) ∧ runTask (runTask s K').1 K = (s21, none) ∧ KnobEquiv s12 s21 := by
  obtain ⟨a, ha, hia, hfa, _⟩ := runTask_shared hF hf hd.sharedInv hK
  obtain ⟨b, hb, hib, hfb, _⟩ := runTask_shared hF hf hd.sharedInv hK'
  obtain ⟨ab, hab, _⟩ := runTask_shared hF hfa hia hK'
  obtain ⟨ba, hba, _⟩ := runTask_shared hF hfb hib hK
  obtain ⟨s1, s2, h1, h2, he⟩ := runTasks_knobs_any_order hF hf hd [K, K'] [K', K]
    (fun k hk => by
      rcases List.mem_cons.mp hk with rfl | hk
      · exact hK
      · rw [List.mem_singleton.mp hk]; exact hK')
    (fun k => by simp [or_comm])
  have e1 : runTasks s [K, K'] = (ab, none) := by simp only [runTasks, ha, hab]
  have e2 : runTasks s [K', K] = (ba, none) := by simp only [runTasks, hb, hba]
  rw [e1] at h1
  rw [e2] at h2
  cases h1
  cases h2
  exact ⟨ab, ba, by rw [ha], by rw [hb], by rw [ha]; exact hab, by rw [hb]; exact hba, he⟩

/-! ### through the manager: one assignment -/

/-- the state right after the user's write of an int to a plain int location that is no target: still in the invariant -/
theorem sharedInv_after_write {F : List MTask} {base : Path → Int} {s : MState} (hF : KnobFamily F)
    (hinv : SharedInv F base s) {p : Path} {v x : Int} {σ1 : Val} (hcp : canonPath p)
    (hpx : get s.store p = .ok (.int x)) (hpt : p ∉ famTargets F) (hset : set s.store p (.int v) = .ok σ1) :
    SharedInv F base { s with store := σ1, trace := s.trace ++ [(true, p)] } ∧
      (∀ q a, canonPath q → get s.store q = .ok (.int a) → q ≠ p → get σ1 q = .ok (.int a)) := by
  have hother : ∀ q a, canonPath q → get s.store q = .ok (.int a) → q ≠ p → get σ1 q = .ok (.int a) := by
    intro q a hq ha hne
    rw [get_set_incomparable hset (incomparable_of_ints_ne hpx ha (fun e => hne e.symm)) hcp hq]
    exact ha
  refine ⟨⟨⟨hinv.data.prevInt, ?_, ?_⟩, ?_⟩, hother⟩
  · intro k hk
    by_cases e : knobSrc k = p
    · exact ⟨v, by rw [e]; exact get_set_same hset⟩
    · exact ⟨_, hother _ _ (hF.csrc hk) (hinv.data.src_eq hk) e⟩
  · intro t ht
    exact ⟨_, hother t _ (hF.ctars t ht).1 (hinv.tars t ht) (fun e => hpt (e ▸ ht))⟩
  · intro t ht
    exact hother t _ (hF.ctars t ht).1 (hinv.tars t ht) (fun e => hpt (e ▸ ht))

/-- **ONE ASSIGNMENT, SHARED TARGETS.**  `SharedInv F base s`, no armed fault; `p` is a canonical non-empty path holding
    an int, not a target of the family; the scheduled list of triggered tasks is `l` (whatever the scheduler returned:
    any order, repetitions allowed) and all its members are knobs of the family.  Then `p := v` completes; `p` holds `v`;
    the invariant holds with the same bases; every triggered knob is settled (remembers the current value of its source);
    the knobs that were not triggered remember what they remembered; sources other than `p` and int locations that are
    neither `p` nor targets are unchanged. -/
theorem writeAndRun_shared (sched : Sched) {F : List MTask} {base : Path → Int} (hF : KnobFamily F) (s : MState)
    (p : Path) (v : Int) (l : List MTask) (hf : s.faultIn = none) (hinv : SharedInv F base s) (hcp : canonPath p)
    (hne : p ≠ []) (hpint : ∃ x, get s.store p = .ok (.int x)) (hpt : p ∉ famTargets F)
    (htrig : knobTriggered sched s p = .ok l) (hl : ∀ k ∈ l, k ∈ F) :
    ∃ s', writeAndRun sched s p (.int v) = (s', none) ∧ SharedInv F base s' ∧ s'.faultIn = none ∧ SameGraph s s' ∧
      get s'.store p = .ok (.int v) ∧
      (∀ k ∈ l, lookPrev s'.prev k.id = .int (srcI s' k)) ∧
      (∀ k ∈ F, k ∉ l → lookPrev s'.prev k.id = lookPrev s.prev k.id) ∧
      (∀ k ∈ F, knobSrc k ≠ p → get s'.store (knobSrc k) = get s.store (knobSrc k)) ∧
      (∀ q a, canonPath q → get s.store q = .ok (.int a) → q ≠ p → q ∉ famTargets F → get s'.store q = .ok (.int a)) := by
  obtain ⟨x, hpx⟩ := hpint
  obtain ⟨σ1, hset⟩ := set_ok_of_get p s.store _ (.int v) hne hpx
  have hw := writeRef_ok s p (.int v) σ1 hf hset
  obtain ⟨hinv1, hother⟩ := sharedInv_after_write hF hinv hcp hpx hpt hset
  obtain ⟨s', hrun, hinv', hf', hg, hp', hpo, hsrc, hfr, _⟩ :=
    runTasks_shared hF l { s with store := σ1, trace := s.trace ++ [(true, p)] } hf hinv1 hl
  refine ⟨s', ?_, hinv', hf', ⟨hg.1, hg.2.1, hg.2.2⟩, ?_, ?_, ?_, ?_, ?_⟩
  · unfold knobTriggered at htrig
    simp only [writeAndRun, hw, htrig, hrun]
  · exact hfr p v hcp (get_set_same hset) hpt
  · intro k hk
    rw [hp' k hk, srcI_congr (hsrc k (hl k hk))]
  · intro k hk hnl
    exact hpo k.id (fun k' hk' e => hnl (hF.eq_of_id hk (hl k' hk') e ▸ hk'))
  · intro k hk hsp
    rw [hsrc k hk]
    show get σ1 _ = _
    rw [hother _ _ (hF.csrc hk) (hinv.data.src_eq hk) hsp, hinv.data.src_eq hk]
  · intro q a hq ha hqp hqt
    exact hfr q a hq (hother q a hq ha hqp) hqt

/-- the same for `set_value` on a location that has no definition of its own -/
theorem setValue_shared (sched : Sched) {F : List MTask} {base : Path → Int} (hF : KnobFamily F) (s : MState)
    (p : Path) (v : Int) (l : List MTask) (hnodef : lookDef s.defs p = none) (hf : s.faultIn = none)
    (hinv : SharedInv F base s) (hcp : canonPath p)
    (hne : p ≠ []) (hpint : ∃ x, get s.store p = .ok (.int x)) (hpt : p ∉ famTargets F)
    (htrig : knobTriggered sched s p = .ok l) (hl : ∀ k ∈ l, k ∈ F) :
    ∃ s', setValue sched s p (.int v) = (s', none) ∧ SharedInv F base s' ∧ s'.faultIn = none ∧ SameGraph s s' ∧
      get s'.store p = .ok (.int v) ∧
      (∀ k ∈ l, lookPrev s'.prev k.id = .int (srcI s' k)) ∧
      (∀ k ∈ F, k ∉ l → lookPrev s'.prev k.id = lookPrev s.prev k.id) ∧
      (∀ k ∈ F, knobSrc k ≠ p → get s'.store (knobSrc k) = get s.store (knobSrc k)) ∧
      (∀ q a, canonPath q → get s.store q = .ok (.int a) → q ≠ p → q ∉ famTargets F → get s'.store q = .ok (.int a)) := by
  have : setValue sched s p (.int v) = writeAndRun sched s p (.int v) := by
    unfold setValue; simp only [hnodef]
  rw [this]
  exact writeAndRun_shared sched hF s p v l hf hinv hcp hne hpint hpt htrig hl

/-! ### settled families: "each target holds what the tasks prescribe" -/

/-- knob `k` is settled: it remembers the value its source holds -/
def KnobSettled (k : MTask) (s : MState) : Prop :=
  ∃ x, get s.store (knobSrc k) = .ok (.int x) ∧ lookPrev s.prev k.id = .int x

/-- the invariant with every knob of the family settled -/
structure SharedAt (F : List MTask) (base : Path → Int) (s : MState) : Prop where
  inv : SharedInv F base s
  settled : ∀ k ∈ F, KnobSettled k s

theorem KnobSettled.prev_eq_src {k : MTask} {s : MState} (h : KnobSettled k s) : prevI s k = srcI s k := by
  obtain ⟨x, hs, hp⟩ := h
  rw [prevI_of hp, srcI_of hs]

/-- **EACH TARGET HOLDS WHAT THE TASKS PRESCRIBE**: in a settled family, target `t` holds
    `base t + Σ_{k ∈ F} wAt k t * value(src_k)` -/
theorem SharedAt.value {F : List MTask} {base : Path → Int} {s : MState} (h : SharedAt F base s) :
    ∀ t ∈ famTargets F, get s.store t = .ok (.int (base t + famSum t (srcI s) F)) := by
  intro t ht
  rw [h.inv.tars t ht, famSum_congr t F (fun k hk => (h.settled k hk).prev_eq_src)]

/-- **ONE ASSIGNMENT TO A SOURCE, SETTLED FAMILY.**  As `setValue_shared`, and the schedule runs every knob whose source
    is `p` (it may run other knobs of the family too — they find `Δ = 0`): the family is settled again, so every target
    `t` holds `base t + Σ_k wAt k t * value(src_k)` with `value(src_k) = v` for the knobs on `p` and the old value for
    the others. -/
theorem setValue_sharedAt (sched : Sched) {F : List MTask} {base : Path → Int} (hF : KnobFamily F) (s : MState)
    (p : Path) (v : Int) (l : List MTask) (hnodef : lookDef s.defs p = none) (hf : s.faultIn = none)
    (hat : SharedAt F base s) (hcp : canonPath p)
    (hne : p ≠ []) (hpint : ∃ x, get s.store p = .ok (.int x)) (hpt : p ∉ famTargets F)
    (htrig : knobTriggered sched s p = .ok l) (hl : ∀ k ∈ l, k ∈ F) (hruns : ∀ k ∈ F, knobSrc k = p → k ∈ l) :
    ∃ s', setValue sched s p (.int v) = (s', none) ∧ SharedAt F base s' ∧ s'.faultIn = none ∧ SameGraph s s' ∧
      get s'.store p = .ok (.int v) ∧
      (∀ k ∈ F, srcI s' k = if knobSrc k = p then v else srcI s k) ∧
      (∀ t ∈ famTargets F, get s'.store t = .ok (.int (base t + famSum t (srcI s') F))) := by
  obtain ⟨s', hrun, hinv', hf', hg, hp', hset, hkeep, hsrc, _⟩ :=
    setValue_shared sched hF s p v l hnodef hf hat.inv hcp hne hpint hpt htrig hl
  have hat' : SharedAt F base s' := by
    refine ⟨hinv', fun k hk => ?_⟩
    by_cases hin : k ∈ l
    · exact ⟨srcI s' k, hinv'.data.src_eq hk, hset k hin⟩
    · have hsp : knobSrc k ≠ p := fun e => hin (hruns k hk e)
      obtain ⟨x, hs, hpv⟩ := hat.settled k hk
      exact ⟨x, by rw [hsrc k hk hsp]; exact hs, by rw [hkeep k hk hin]; exact hpv⟩
  refine ⟨s', hrun, hat', hf', hg, hp', ?_, hat'.value⟩
  intro k hk
  by_cases e : knobSrc k = p
  · simp only [e, if_true]
    exact srcI_of (by rw [e]; exact hp')
  · simp only [e, if_false]
    exact srcI_congr (hsrc k hk e)

/-- the bases are determined by the state: whatever `base` the invariant holds for, it is `baseOf` on the targets -/
theorem SharedInv.base_eq {F : List MTask} {base : Path → Int} {s : MState} (h : SharedInv F base s) :
    ∀ t ∈ famTargets F, base t = baseOf F s t := by
  intro t ht
  unfold baseOf
  rw [intAt_of (h.tars t ht)]
  omega

/-! ### any series of assignments to sources -/

/-- the STATIC side of one assignment `p := v` of a series (it only looks at `defs` and `idx`, which assignments do not
    change): `p` is a non-empty plain location and the source of a knob of the family; the scheduled triggered tasks are
    knobs of the family and comprise every knob whose source is `p` -/
structure SharedCall (sched : Sched) (F : List MTask) (s : MState) (p : Path) : Prop where
  nodef : lookDef s.defs p = none
  pne : p ≠ []
  isSrc : ∃ k ∈ F, knobSrc k = p
  trig : ∃ l, knobTriggered sched s p = .ok l ∧ (∀ k ∈ l, k ∈ F) ∧ (∀ k ∈ F, knobSrc k = p → k ∈ l)

theorem SharedCall.congr {sched : Sched} {F : List MTask} {s s' : MState} {p : Path} (h : SharedCall sched F s p)
    (hg : SameGraph s s') : SharedCall sched F s' p where
  nodef := by rw [hg.2.1]; exact h.nodef
  pne := h.pne
  isSrc := h.isSrc
  trig := by
    obtain ⟨l, h1, h2⟩ := h.trig
    refine ⟨l, ?_, h2⟩
    unfold knobTriggered at h1 ⊢
    rw [hg.1, hg.2.1]; exact h1

/-- the value last assigned to `p` in a series (`dflt` when there is none) -/
def lastVal (p : Path) (dflt : Int) : List (Path × Int) → Int
  | [] => dflt
  | (q, v) :: as => lastVal p (if q = p then v else dflt) as

/-- every call of the series completes -/
def allComplete (sched : Sched) : MState → List (Path × Int) → Prop
  | _, [] => True
  | s, (p, v) :: rest =>
    (setValue sched s p (.int v)).2 = none ∧ allComplete sched (setValue sched s p (.int v)).1 rest

/-- **ANY SERIES OF ASSIGNMENTS TO SOURCES.**  A settled family, no armed fault, every assignment of the series a
    `SharedCall`.  Then every call completes, the family is settled again with the SAME bases, every source holds the
    value last assigned to it (its old value if none was), and every target `t` holds
    `base t + Σ_k wAt k t * (last value of src_k)`. -/
theorem sharedAssignAll (sched : Sched) {F : List MTask} {base : Path → Int} (hF : KnobFamily F) :
    ∀ (as : List (Path × Int)) (s : MState), s.faultIn = none → SharedAt F base s →
    (∀ a ∈ as, SharedCall sched F s a.1) →
    allComplete sched s as ∧ SharedAt F base (mixedAssignAll sched s as) ∧
      (mixedAssignAll sched s as).faultIn = none ∧ SameGraph s (mixedAssignAll sched s as) ∧
      (∀ k ∈ F, srcI (mixedAssignAll sched s as) k = lastVal (knobSrc k) (srcI s k) as) ∧
      (∀ t ∈ famTargets F, get (mixedAssignAll sched s as).store t =
        .ok (.int (base t + famSum t (fun k => lastVal (knobSrc k) (srcI s k) as) F)))
  | [], s, hf, hat, _ => by
    refine ⟨trivial, hat, hf, SameGraph.refl s, fun _ _ => rfl, ?_⟩
    simpa [mixedAssignAll, lastVal] using hat.value
  | (p, v) :: rest, s, hf, hat, hcalls => by
    have hc := hcalls (p, v) (List.mem_cons_self ..)
    obtain ⟨k0, hk0, hk0p⟩ := hc.isSrc
    have hk0p : knobSrc k0 = p := hk0p
    obtain ⟨l, htrig, hl, hruns⟩ := hc.trig
    have hcp : canonPath p := hk0p ▸ hF.csrc hk0
    have hpint : ∃ x, get s.store p = .ok (.int x) := hk0p ▸ hat.inv.data.srcInt k0 hk0
    have hpt : p ∉ famTargets F := fun hm => hF.apart k0 hk0 p hm hk0p.symm
    obtain ⟨s1, hrun, hat1, hf1, hg1, _, hsrc1, _⟩ :=
      setValue_sharedAt sched hF s p v l hc.nodef hf hat hcp hc.pne hpint hpt htrig hl hruns
    obtain ⟨hcomp, hat', hf', hg', hsrc', _⟩ := sharedAssignAll sched hF rest s1 hf1 hat1
      (fun a ha => (hcalls a (List.mem_cons_of_mem _ ha)).congr hg1)
    have hlast : ∀ k ∈ F, srcI (mixedAssignAll sched s ((p, v) :: rest)) k =
        lastVal (knobSrc k) (srcI s k) ((p, v) :: rest) := by
      intro k hk
      simp only [mixedAssignAll, hrun, lastVal]
      rw [hsrc' k hk, hsrc1 k hk]
      by_cases e : knobSrc k = p
      · simp [e]
      · have e' : ¬ p = knobSrc k := fun h => e h.symm
        simp [e, e']
    have hat'' : SharedAt F base (mixedAssignAll sched s ((p, v) :: rest)) := by
      simp only [mixedAssignAll, hrun]; exact hat'
    refine ⟨⟨by rw [hrun], by rw [hrun]; exact hcomp⟩, hat'', ?_, ?_, hlast, ?_⟩
    · simp only [mixedAssignAll, hrun]; exact hf'
    · simp only [mixedAssignAll, hrun]
      exact ⟨hg'.1.trans hg1.1, hg'.2.1.trans hg1.2.1, hg'.2.2.trans hg1.2.2⟩
    · intro t ht
      rw [hat''.value t ht, famSum_congr t F hlast]

/-! ### two schedulers -/

theorem mapM_lookTask_mem (defs : List MTask) : ∀ (π : List Path) (l : List MTask),
    π.mapM (lookTask defs) = .ok l → ∀ k, k ∈ l ↔ ∃ id ∈ π, lookDef defs id = some k
  | [], l, h => by
    simp only [List.mapM_nil, pure, Except.pure, Except.ok.injEq] at h
    subst h
    simp
  | x :: π, l, h => by
    simp only [List.mapM_cons, bind, Except.bind] at h
    cases hx : lookTask defs x with
    | error e => simp [hx] at h
    | ok t =>
      simp only [hx] at h
      cases hr : π.mapM (lookTask defs) with
      | error e => simp [hr] at h
      | ok l' =>
        simp only [hr, pure, Except.pure, Except.ok.injEq] at h
        subst h
        have ht := lookTask_ok defs x t hx
        have ih := mapM_lookTask_mem defs π l' hr
        intro k
        constructor
        · intro hk
          rcases List.mem_cons.mp hk with rfl | hk
          · exact ⟨x, List.mem_cons_self .., ht⟩
          · obtain ⟨id, hid, h'⟩ := (ih k).mp hk
            exact ⟨id, List.mem_cons_of_mem _ hid, h'⟩
        · rintro ⟨id, hid, h'⟩
          rcases List.mem_cons.mp hid with rfl | hid
          · rw [ht] at h'
            cases h'
            exact List.mem_cons_self ..
          · exact List.mem_cons_of_mem _ ((ih k).mpr ⟨id, hid, h'⟩)

/-- **TWO SCHEDULERS, `write + run_tasks`, ALL TRIGGERED TASKS KNOBS OF THE FAMILY.**  Integer data, no armed fault, `p` a
    canonical non-empty int location that is no target; every triggered id is the id of a knob of the family; each
    scheduler returns the triggered ids in SOME order (`∀ id, id ∈ sched L ↔ id ∈ L` — the membership half of
    `ValidSched`; no ordering constraint and no duplicate-freeness is needed for knobs).  Then BOTH calls complete and end
    in the same state (`KnobEquiv`), whatever targets the knobs share. -/
theorem writeAndRun_knob_sched_indep (sched1 sched2 : Sched) {F : List MTask} (hF : KnobFamily F) (s : MState)
    (p : Path) (v : Int) (hf : s.faultIn = none) (hd : IntData F s) (hcp : canonPath p) (hne : p ≠ [])
    (hpint : ∃ x, get s.store p = .ok (.int x)) (hpt : p ∉ famTargets F)
    (hfam : ∀ id ∈ findTaskids s.idx (chainR p), ∃ k ∈ F, lookDef s.defs id = some k)
    (h1 : ∀ id, id ∈ sched1 (findTaskids s.idx (chainR p)) ↔ id ∈ findTaskids s.idx (chainR p))
    (h2 : ∀ id, id ∈ sched2 (findTaskids s.idx (chainR p)) ↔ id ∈ findTaskids s.idx (chainR p)) :
    ∃ s1 s2, writeAndRun sched1 s p (.int v) = (s1, none) ∧ writeAndRun sched2 s p (.int v) = (s2, none) ∧
      KnobEquiv s1 s2 := by
  obtain ⟨x, hpx⟩ := hpint
  obtain ⟨σ1, hset⟩ := set_ok_of_get p s.store _ (.int v) hne hpx
  have hw := writeRef_ok s p (.int v) σ1 hf hset
  have hd1 : IntData F { s with store := σ1, trace := s.trace ++ [(true, p)] } :=
    (sharedInv_after_write hF hd.sharedInv hcp hpx hpt hset).1.data
  have hfind : ∀ (sched : Sched), (∀ id, id ∈ sched (findTaskids s.idx (chainR p)) ↔ id ∈ findTaskids s.idx (chainR p)) →
      ∃ l, (sched (findTaskids s.idx (chainR p))).mapM (lookTask s.defs) = .ok l ∧
        ∀ k, k ∈ l ↔ ∃ id ∈ findTaskids s.idx (chainR p), lookDef s.defs id = some k := by
    intro sched hs
    obtain ⟨l, hm⟩ := mapM_lookTask_ok s.defs (sched (findTaskids s.idx (chainR p))) (fun id hid => by
      obtain ⟨k, _, hk⟩ := hfam id ((hs id).mp hid)
      exact ⟨k, hk⟩)
    refine ⟨l, hm, fun k => ?_⟩
    rw [mapM_lookTask_mem s.defs _ l hm k]
    constructor
    · rintro ⟨id, hid, h⟩
      exact ⟨id, (hs id).mp hid, h⟩
    · rintro ⟨id, hid, h⟩
      exact ⟨id, (hs id).mpr hid, h⟩
  obtain ⟨l1, hm1, hl1⟩ := hfind sched1 h1
  obtain ⟨l2, hm2, hl2⟩ := hfind sched2 h2
  obtain ⟨s1, s2, hr1, hr2, he⟩ := runTasks_knobs_any_order
    (s := { s with store := σ1, trace := s.trace ++ [(true, p)] }) hF hf hd1 l1 l2
    (fun k hk => by
      obtain ⟨id, hid, h⟩ := (hl1 k).mp hk
      obtain ⟨k', hk', h'⟩ := hfam id hid
      rw [h] at h'
      cases h'
      exact hk')
    (fun k => by rw [hl1 k, hl2 k])
  exact ⟨s1, s2, by simp only [writeAndRun, hw, hm1, hr1], by simp only [writeAndRun, hw, hm2, hr2], he⟩

/-- **C20 FOR KNOBS, `set_value(ref, int)`**, in the style of `setValue_sched_indep`: the hypotheses are on the state in
    which `set_value` writes (`preState s p`: a definition at `p`, if any, unregistered).  If the call completes under
    the first scheduler it completes under the second, in the same state (`KnobEquiv`). -/
theorem setValue_knob_sched_indep (sched1 sched2 : Sched) {F : List MTask} (hF : KnobFamily F) (s : MState)
    (p : Path) (v : Int) (hf : (preState s p).faultIn = none) (hd : IntData F (preState s p)) (hcp : canonPath p)
    (hne : p ≠ []) (hpint : ∃ x, get (preState s p).store p = .ok (.int x)) (hpt : p ∉ famTargets F)
    (hfam : ∀ id ∈ findTaskids (preState s p).idx (chainR p), ∃ k ∈ F, lookDef (preState s p).defs id = some k)
    (h1 : ∀ id, id ∈ sched1 (findTaskids (preState s p).idx (chainR p)) ↔ id ∈ findTaskids (preState s p).idx (chainR p))
    (h2 : ∀ id, id ∈ sched2 (findTaskids (preState s p).idx (chainR p)) ↔ id ∈ findTaskids (preState s p).idx (chainR p))
    (s1 : MState) (hok : setValue sched1 s p (.int v) = (s1, none)) :
    ∃ s2, setValue sched2 s p (.int v) = (s2, none) ∧ KnobEquiv s1 s2 := by
  rcases setValue_split s p (.int v) with ⟨s0, x, hx⟩ | hsplit
  · rw [hx sched1] at hok; cases hok
  · obtain ⟨a, b, ha, hb, he⟩ :=
      writeAndRun_knob_sched_indep sched1 sched2 hF (preState s p) p v hf hd hcp hne hpint hpt hfam h1 h2
    rw [hsplit sched1, ha] at hok
    cases hok
    exact ⟨b, by rw [hsplit sched2]; exact hb, he⟩

/-- … and when `p` has no definition of its own both calls COMPLETE (completion is a conclusion) -/
theorem setValue_knob_sched_total (sched1 sched2 : Sched) {F : List MTask} (hF : KnobFamily F) (s : MState)
    (p : Path) (v : Int) (hnodef : lookDef s.defs p = none) (hf : s.faultIn = none) (hd : IntData F s)
    (hcp : canonPath p) (hne : p ≠ []) (hpint : ∃ x, get s.store p = .ok (.int x)) (hpt : p ∉ famTargets F)
    (hfam : ∀ id ∈ findTaskids s.idx (chainR p), ∃ k ∈ F, lookDef s.defs id = some k)
    (h1 : ∀ id, id ∈ sched1 (findTaskids s.idx (chainR p)) ↔ id ∈ findTaskids s.idx (chainR p))
    (h2 : ∀ id, id ∈ sched2 (findTaskids s.idx (chainR p)) ↔ id ∈ findTaskids s.idx (chainR p)) :
    ∃ s1 s2, setValue sched1 s p (.int v) = (s1, none) ∧ setValue sched2 s p (.int v) = (s2, none) ∧
      KnobEquiv s1 s2 := by
  have e : ∀ sched, setValue sched s p (.int v) = writeAndRun sched s p (.int v) := by
    intro sched; unfold setValue; simp only [hnodef]
  rw [e sched1, e sched2]
  exact writeAndRun_knob_sched_indep sched1 sched2 hF s p v hf hd hcp hne hpint hpt hfam h1 h2

/-! ### registration -/

/-- **ONE MORE KNOB.**  A settled family `F` on integer data, not frozen; `K` is a new knob (so that `F ++ [K]` is a
    family) whose source and targets hold ints.  `register` succeeds, leaves the container tree alone, and `F ++ [K]` is
    a settled family in the invariant, for the bases `baseOf` of the new state. -/
theorem register_sharedAt {F : List MTask} {s : MState} {K : MTask} (hF' : KnobFamily (F ++ [K]))
    (hfz : s.frozen = false) (hd : IntData F s) (hsettled : ∀ k ∈ F, KnobSettled k s)
    (hsrc : ∃ x, get s.store (knobSrc K) = .ok (.int x))
    (htars : ∀ t ∈ leafTargets K, ∃ a, get s.store t = .ok (.int a)) :
    (register s K).2 = none ∧ (register s K).1.store = s.store ∧ (register s K).1.faultIn = s.faultIn ∧
      SharedAt (F ++ [K]) (baseOf (F ++ [K]) (register s K).1) (register s K).1 := by
  obtain ⟨src, ws, tars, hkk, _⟩ := hF'.knob K (by simp)
  obtain ⟨x, hx⟩ := hsrc
  have hx' : get s.store src = .ok (.int x) := by rw [knobSrc_knob hkk] at hx; exact hx
  have hst : (register s K).1.store = s.store := by simp [register, hfz]
  have hpv : (register s K).1.prev = setPrev s.prev K.id (.int x) := by simp [register, hfz, hkk, hx']
  have hfresh : ∀ k ∈ F, k.id ≠ K.id := by
    intro k hk e
    have hnd := hF'.ids
    rw [List.map_append, List.nodup_append] at hnd
    exact hnd.2.2 k.id (List.mem_map_of_mem hk) K.id (by simp) e
  have hprev : ∀ k ∈ F, lookPrev (register s K).1.prev k.id = lookPrev s.prev k.id := fun k hk => by
    rw [hpv, lookPrev_setPrev_other _ _ _ _ (hfresh k hk)]
  have hprevK : lookPrev (register s K).1.prev K.id = .int x := by rw [hpv, lookPrev_setPrev_same]
  have hd' : IntData (F ++ [K]) (register s K).1 := by
    refine ⟨?_, ?_, ?_⟩
    · intro k hk
      rcases List.mem_append.mp hk with hk | hk
      · obtain ⟨p, hp⟩ := hd.prevInt k hk
        exact ⟨p, by rw [hprev k hk]; exact hp⟩
      · rw [List.mem_singleton.mp hk]; exact ⟨x, hprevK⟩
    · intro k hk
      rw [hst]
      rcases List.mem_append.mp hk with hk | hk
      · exact hd.srcInt k hk
      · rw [List.mem_singleton.mp hk]; exact ⟨x, hx⟩
    · intro t ht
      rw [hst]
      obtain ⟨k, hk, htk⟩ := mem_famTargets.mp ht
      rcases List.mem_append.mp hk with hk | hk
      · exact hd.tarInt t (mem_famTargets.mpr ⟨k, hk, htk⟩)
      · rw [List.mem_singleton.mp hk] at htk; exact htars t htk
  refine ⟨by simp [register, hfz], hst, by simp [register, hfz], hd'.sharedInv, ?_⟩
  intro k hk
  rcases List.mem_append.mp hk with hk | hk
  · obtain ⟨y, hy, hpy⟩ := hsettled k hk
    exact ⟨y, by rw [hst]; exact hy, by rw [hprev k hk]; exact hpy⟩
  · rw [List.mem_singleton.mp hk]
    exact ⟨x, by rw [hst]; exact hx, hprevK⟩

/-! ### decidable tests of the hypotheses -/

def knobShapeB (k : MTask) : Bool :=
  match k.kind with
  | .knob src _ _ => canonPathB src
  | _ => false

/-- `KnobFamily`, decided -/
def knobFamilyB (F : List MTask) : Bool :=
  pairwiseB (fun a b => !decide (a = b)) (F.map (·.id)) && F.all knobShapeB &&
    (famTargets F).all (fun t => canonPathB t && !t.isEmpty) &&
    F.all (fun k => (famTargets F).all (fun t => !decide (t = knobSrc k)))

theorem knobFamilyB_sound {F : List MTask} (h : knobFamilyB F = true) : KnobFamily F := by
  simp only [knobFamilyB, Bool.and_eq_true, List.all_eq_true, Bool.not_eq_true', decide_eq_false_iff_not] at h
  obtain ⟨⟨⟨h1, h2⟩, h3⟩, h4⟩ := h
  exact
    { ids := pairwiseB_sound (R := fun a b => a ≠ b) (fun a b hab => by simpa using hab) h1
      knob := fun k hk => by
        have := h2 k hk
        unfold knobShapeB at this
        split at this
        · next src ws tars hkk => exact ⟨src, ws, tars, hkk, canonPathB_sound this⟩
        · cases this
      ctars := fun t ht => ⟨canonPathB_sound (h3 t ht).1, fun e => by
        have := (h3 t ht).2
        rw [e] at this
        simp at this⟩
      apart := fun k hk t ht => h4 k hk t ht }

def isIntB (v : Val) : Bool :=
  match v with
  | .int _ => true
  | _ => false

theorem isIntB_sound {v : Val} (h : isIntB v = true) : ∃ i, v = .int i := by
  unfold isIntB at h
  split at h
  · next i => exact ⟨i, rfl⟩
  · cases h

theorem holdsIntB_sound {σ : Val} {p : Path} (h : holdsIntB σ p = true) : ∃ x, get σ p = .ok (.int x) := by
  unfold holdsIntB at h
  split at h
  · next x hx => exact ⟨x, hx⟩
  · cases h

/-- `IntData`, decided -/
def intDataB (F : List MTask) (s : MState) : Bool :=
  F.all (fun k => isIntB (lookPrev s.prev k.id) && holdsIntB s.store (knobSrc k)) &&
    (famTargets F).all (holdsIntB s.store)

theorem intDataB_sound {F : List MTask} {s : MState} (h : intDataB F s = true) : IntData F s := by
  simp only [intDataB, Bool.and_eq_true, List.all_eq_true] at h
  exact
    { prevInt := fun k hk => isIntB_sound (h.1 k hk).1
      srcInt := fun k hk => holdsIntB_sound (h.1 k hk).2
      tarInt := fun t ht => holdsIntB_sound (h.2 t ht) }

/-- `SharedInv` for given bases, decided -/
def sharedInvB (F : List MTask) (base : Path → Int) (s : MState) : Bool :=
  intDataB F s && (famTargets F).all (fun t => decide (intAt s.store t = base t + famSum t (prevI s) F))

theorem sharedInvB_sound {F : List MTask} {base : Path → Int} {s : MState} (h : sharedInvB F base s = true) :
    SharedInv F base s := by
  simp only [sharedInvB, Bool.and_eq_true, List.all_eq_true, decide_eq_true_eq] at h
  have hd := intDataB_sound h.1
  exact ⟨hd, fun t ht => by rw [hd.tar_eq ht, h.2 t ht]⟩

/-- `SharedAt` for given bases, decided -/
def sharedAtB (F : List MTask) (base : Path → Int) (s : MState) : Bool :=
  sharedInvB F base s && F.all (fun k => decide (prevI s k = srcI s k))

theorem sharedAtB_sound {F : List MTask} {base : Path → Int} {s : MState} (h : sharedAtB F base s = true) :
    SharedAt F base s := by
  simp only [sharedAtB, Bool.and_eq_true, List.all_eq_true, decide_eq_true_eq] at h
  have hi := sharedInvB_sound h.1
  exact ⟨hi, fun k hk => ⟨srcI s k, hi.data.src_eq hk, by rw [hi.data.prev_eq hk, h.2 k hk]⟩⟩

/-- a scheduler returns the triggered ids in some order, decided (the membership half of `validSchedule`) -/
def sameIdsB (π L : List Path) : Bool := sameSet π L

theorem sameIdsB_sound {π L : List Path} (h : sameIdsB π L = true) : ∀ id, id ∈ π ↔ id ∈ L := by
  simp only [sameIdsB, sameSet, Bool.and_eq_true, List.all_eq_true, decide_eq_true_eq] at h
  exact fun id => ⟨h.1 id, h.2 id⟩

/-! ### the family read off the state: every hypothesis a test -/

theorem lookDef_some_mem {defs : List MTask} {id : Path} {k : MTask} (h : lookDef defs id = some k) : k ∈ defs :=
  List.mem_of_find?_eq_some h

/-- all knob tasks of the manager -/
def knobsOf (s : MState) : List MTask := s.defs.filter isKnobB

/-- `SharedCall` for the family of ALL knobs of the manager, decided: `p` is a non-empty plain location and the source
    of a knob; task ids are unique; every scheduled id resolves to a knob; every knob on `p` is scheduled -/
def sharedCallB (sched : Sched) (s : MState) (p : Path) : Bool :=
  (lookDef s.defs p).isNone && !p.isEmpty && (knobsOf s).any (fun k => decide (knobSrc k = p)) &&
    pairwiseB (fun a b => !decide (a = b)) (s.defs.map (·.id)) &&
    (sched (findTaskids s.idx (chainR p))).all (fun id =>
      match lookDef s.defs id with
      | some k => isKnobB k
      | none => false) &&
    (knobsOf s).all (fun k => !decide (knobSrc k = p) || decide (k.id ∈ sched (findTaskids s.idx (chainR p))))

theorem sharedCallB_sound {sched : Sched} {s : MState} {p : Path} (h : sharedCallB sched s p = true) :
    SharedCall sched (knobsOf s) s p := by
  simp only [sharedCallB, Bool.and_eq_true, List.all_eq_true, List.any_eq_true, Bool.not_eq_true',
    Option.isNone_iff_eq_none, decide_eq_true_eq, Bool.or_eq_true, decide_eq_false_iff_not] at h
  obtain ⟨⟨⟨⟨⟨h1, h2⟩, h3⟩, h4⟩, h5⟩, h6⟩ := h
  have hnd : (s.defs.map (·.id)).Nodup :=
    pairwiseB_sound (R := fun a b => a ≠ b) (fun a b hab => by simpa using hab) h4
  have hres : ∀ id ∈ sched (findTaskids s.idx (chainR p)), ∃ k, lookDef s.defs id = some k ∧ isKnobB k = true := by
    intro id hid
    have := h5 id hid
    split at this
    · next k hk => exact ⟨k, hk, this⟩
    · cases this
  obtain ⟨l, hm⟩ := mapM_lookTask_ok s.defs _ (fun id hid => by
    obtain ⟨k, hk, _⟩ := hres id hid
    exact ⟨k, hk⟩)
  have hmem := mapM_lookTask_mem s.defs _ l hm
  refine ⟨h1, fun e => by rw [e] at h2; simp at h2, h3, l, hm, ?_, ?_⟩
  · intro k hk
    obtain ⟨id, hid, hk'⟩ := (hmem k).mp hk
    obtain ⟨k', hk'', hkn⟩ := hres id hid
    rw [hk'] at hk''
    cases hk''
    exact List.mem_filter.mpr ⟨lookDef_some_mem hk', hkn⟩
  · intro k hk hsp
    rcases h6 k hk with hne | hin
    · exact absurd hsp hne
    · exact (hmem k).mpr ⟨k.id, hin, lookDef_of_mem s.defs hnd k (List.mem_filter.mp hk).1⟩

/-- **ANY SERIES OF ASSIGNMENTS, EVERY HYPOTHESIS A TEST**: the family is the set of all knobs of the manager -/
theorem sharedAssignAll_decided (sched : Sched) (base : Path → Int) (as : List (Path × Int)) (s : MState)
    (hfam : knobFamilyB (knobsOf s) = true) (hat : sharedAtB (knobsOf s) base s = true) (hf : s.faultIn = none)
    (hcalls : as.all (fun a => sharedCallB sched s a.1) = true) :
    allComplete sched s as ∧ SharedAt (knobsOf s) base (mixedAssignAll sched s as) ∧
      (∀ t ∈ famTargets (knobsOf s), get (mixedAssignAll sched s as).store t =
        .ok (.int (base t + famSum t (fun k => lastVal (knobSrc k) (srcI s k) as) (knobsOf s)))) := by
  obtain ⟨h1, h2, _, _, _, h6⟩ := sharedAssignAll sched (knobFamilyB_sound hfam) as s hf (sharedAtB_sound hat)
    (fun a ha => sharedCallB_sound (List.all_eq_true.mp hcalls a ha))
  exact ⟨h1, h2, h6⟩

/-- the knobs an assignment to `p` triggers, read off the state -/
def triggeredFam (s : MState) (p : Path) : List MTask := (findTaskids s.idx (chainR p)).filterMap (lookDef s.defs)

/-- the hypotheses of `setValue_knob_sched_total` for the family of triggered tasks, decided -/
def knobSchedIndepB (sched1 sched2 : Sched) (s : MState) (p : Path) : Bool :=
  (lookDef s.defs p).isNone && s.faultIn.isNone && canonPathB p && !p.isEmpty && holdsIntB s.store p &&
    (findTaskids s.idx (chainR p)).all (fun id => (lookDef s.defs id).isSome) &&
    knobFamilyB (triggeredFam s p) && intDataB (triggeredFam s p) s &&
    (famTargets (triggeredFam s p)).all (fun t => !decide (t = p)) &&
    sameIdsB (sched1 (findTaskids s.idx (chainR p))) (findTaskids s.idx (chainR p)) &&
    sameIdsB (sched2 (findTaskids s.idx (chainR p))) (findTaskids s.idx (chainR p))

/-- **TWO SCHEDULERS, EVERY HYPOTHESIS A TEST** -/
theorem setValue_knob_sched_decided (sched1 sched2 : Sched) (s : MState) (p : Path) (v : Int)
    (h : knobSchedIndepB sched1 sched2 s p = true) :
    ∃ s1 s2, setValue sched1 s p (.int v) = (s1, none) ∧ setValue sched2 s p (.int v) = (s2, none) ∧
      KnobEquiv s1 s2 := by
  simp only [knobSchedIndepB, Bool.and_eq_true, List.all_eq_true, Bool.not_eq_true', Option.isNone_iff_eq_none,
    decide_eq_false_iff_not] at h
  obtain ⟨⟨⟨⟨⟨⟨⟨⟨⟨⟨h1, h2⟩, h3⟩, h4⟩, h5⟩, h6⟩, h7⟩, h8⟩, h9⟩, h10⟩, h11⟩ := h
  refine setValue_knob_sched_total sched1 sched2 (knobFamilyB_sound h7) s p v h1 h2 (intDataB_sound h8)
    (canonPathB_sound h3) (fun e => by rw [e] at h4; simp at h4) (holdsIntB_sound h5) (fun hm => h9 p hm rfl) ?_
    (sameIdsB_sound h10) (sameIdsB_sound h11)
  intro id hid
  have := h6 id hid
  cases hk : lookDef s.defs id with
  | none => simp [hk] at this
  | some k => exact ⟨k, List.mem_filterMap.mpr ⟨id, hid, hk⟩, rfl⟩

/-! ### concrete runs -/

namespace SharedExample

/-- locations of the container `d` -/
def d (a : String) : Path := [.item (.str "d"), .item (.str a)]

/-- `d = {x: 1, y: 2, z: 3, a: 10, b: 20, c: 30}` -/
def store0 : Val :=
  .dict [(.str "d", .dict [(.str "x", .int 1), (.str "y", .int 2), (.str "z", .int 3),
    (.str "a", .int 10), (.str "b", .int 20), (.str "c", .int 30)])]

/-- `#K1: a += 2*Δx` -/
def K1 : MTask := ⟨[.item (.str "#K1")], .knob (d "x") [2] [d "a"], [d "x"], [d "a"]⟩
/-- `#K2: a += 3*Δy, b += 1*Δy` — shares `d.a` with `#K1` -/
def K2 : MTask := ⟨[.item (.str "#K2")], .knob (d "y") [3, 1] [d "a", d "b"], [d "y"], [d "a", d "b"]⟩
/-- `#K3: c += 1*Δz, c += 4*Δz` — lists the SAME target twice -/
def K3 : MTask := ⟨[.item (.str "#K3")], .knob (d "z") [1, 4] [d "c", d "c"], [d "z"], [d "c"]⟩

def F : List MTask := [K1, K2, K3]

def s0 : MState := { MState.init with store := store0 }
/-- the three knobs registered at `x = 1, y = 2, z = 3` -/
def s1 : MState := (register (register (register s0 K1).1 K2).1 K3).1

/-- the bases: `a = 10 - 2*1 - 3*2 = 2`, `b = 20 - 1*2 = 18`, `c = 30 - (1+4)*3 = 15` -/
def bases (t : Path) : Int := if t = d "a" then 2 else if t = d "b" then 18 else if t = d "c" then 15 else 0

/-- an integer location, for `decide` (`Val` has no `DecidableEq`) -/
def geti (s : MState) (p : Path) : Option Int :=
  match get s.store p with
  | .ok (.int i) => some i
  | _ => none

-- the weights: K1 and K2 both act on `d.a`; K3 acts on `d.c` with 1 + 4
example : [wAt K1 (d "a"), wAt K2 (d "a"), wAt K2 (d "b"), wAt K3 (d "c"), wAt K3 (d "a"), wAt K1 (d "b")] =
    [2, 3, 1, 5, 0, 0] := by decide +kernel

-- `d.x := 5` then `d.y := 7`, and the other way round
def sXY : MState := (setValue id (setValue id s1 (d "x") (.int 5)).1 (d "y") (.int 7)).1
def sYX : MState := (setValue id (setValue id s1 (d "y") (.int 7)).1 (d "x") (.int 5)).1

example : (setValue id s1 (d "x") (.int 5)).2 = none ∧ (setValue id (setValue id s1 (d "x") (.int 5)).1 (d "y") (.int 7)).2 = none ∧
    (setValue id s1 (d "y") (.int 7)).2 = none ∧ (setValue id (setValue id s1 (d "y") (.int 7)).1 (d "x") (.int 5)).2 = none :=
  ⟨rfl, rfl, rfl, rfl⟩
/-- both orders end in the same container tree … -/
example : sXY.store = sYX.store := rfl
/-- … in which `d.a = base + 2*5 + 3*7 = 33` and `d.b = 18 + 1*7 = 25` -/
example : get sXY.store (d "a") = .ok (.int (2 + 2 * 5 + 3 * 7)) := rfl
example : [geti sXY (d "a"), geti sYX (d "a"), geti sXY (d "b"), geti sYX (d "b")] = [some 33, some 33, some 25, some 25] := by
  decide +kernel
/-- the same target listed twice: `d.z := 2` moves `d.c` by `(1 + 4) * (2 - 3)`: `c = 15 + 5*2 = 25` -/
example : geti (setValue id s1 (d "z") (.int 2)).1 (d "c") = some 25 := by decide +kernel

-- the hypotheses of the theorems, decided
theorem family_F : KnobFamily F := knobFamilyB_sound (by decide +kernel)
theorem at_s1 : SharedAt F bases s1 := sharedAtB_sound (by decide +kernel)
theorem nofault_s1 : s1.faultIn = none := rfl

theorem trig_x : knobTriggered id s1 (d "x") = .ok [K1] := rfl
theorem trig_y : knobTriggered id s1 (d "y") = .ok [K2] := rfl
theorem trig_z : knobTriggered id s1 (d "z") = .ok [K3] := rfl

theorem mem_F {k : MTask} (hk : k ∈ F) : k = K1 ∨ k = K2 ∨ k = K3 := by
  simpa [F] using hk

theorem runs_x : ∀ k ∈ F, knobSrc k = d "x" → k ∈ [K1] := fun k hk e => by
  rcases mem_F hk with rfl | rfl | rfl
  · simp
  · exact absurd e (by decide)
  · exact absurd e (by decide)

theorem call_x : SharedCall id F s1 (d "x") :=
  ⟨rfl, by decide, ⟨K1, by simp [F], rfl⟩, [K1], trig_x, fun k hk => by simp [F, List.mem_singleton.mp hk], runs_x⟩

theorem call_y : SharedCall id F s1 (d "y") :=
  ⟨rfl, by decide, ⟨K2, by simp [F], rfl⟩, [K2], trig_y, fun k hk => by simp [F, List.mem_singleton.mp hk],
    fun k hk e => by
      rcases mem_F hk with rfl | rfl | rfl
      · exact absurd e (by decide)
      · simp
      · exact absurd e (by decide)⟩

theorem call_z : SharedCall id F s1 (d "z") :=
  ⟨rfl, by decide, ⟨K3, by simp [F], rfl⟩, [K3], trig_z, fun k hk => by simp [F, List.mem_singleton.mp hk],
    fun k hk e => by
      rcases mem_F hk with rfl | rfl | rfl
      · exact absurd e (by decide)
      · exact absurd e (by decide)
      · simp⟩

/-- `sharedAssignAll` instantiated: WHATEVER integers are assigned to `d.x`, `d.y`, `d.z`, in whatever order and however
    often, all calls complete and afterwards `a = 2 + 2*x + 3*y`, `b = 18 + y`, `c = 15 + 5*z` for the last values
    `x, y, z` assigned (the registration values `1, 2, 3` where none was) -/
theorem example_any_history (as : List (Path × Int)) (has : ∀ a ∈ as, a.1 = d "x" ∨ a.1 = d "y" ∨ a.1 = d "z") :
    allComplete id s1 as ∧
    get (mixedAssignAll id s1 as).store (d "a") =
      .ok (.int (2 + (2 * lastVal (d "x") 1 as + (3 * lastVal (d "y") 2 as + (0 * lastVal (d "z") 3 as + 0))))) ∧
    get (mixedAssignAll id s1 as).store (d "b") =
      .ok (.int (18 + (0 * lastVal (d "x") 1 as + (1 * lastVal (d "y") 2 as + (0 * lastVal (d "z") 3 as + 0))))) ∧
    get (mixedAssignAll id s1 as).store (d "c") =
      .ok (.int (15 + (0 * lastVal (d "x") 1 as + (0 * lastVal (d "y") 2 as + (5 * lastVal (d "z") 3 as + 0))))) := by
  obtain ⟨hc, _, _, _, _, hv⟩ := sharedAssignAll id family_F as s1 nofault_s1 at_s1 (fun a ha => by
    rcases has a ha with e | e | e
    · rw [e]; exact call_x
    · rw [e]; exact call_y
    · rw [e]; exact call_z)
  exact ⟨hc, hv (d "a") (by decide +kernel), hv (d "b") (by decide +kernel), hv (d "c") (by decide +kernel)⟩

/-- two runs commute on the example (the theorem, not a computation): `#K1` and `#K2` share `d.a` -/
example : ∃ s12 s21, (runTask s1 K1).2 = none ∧ (runTask s1 K2).2 = none ∧
    runTask (runTask s1 K1).1 K2 = (s12, none) ∧ runTask (runTask s1 K2).1 K1 = (s21, none) ∧ KnobEquiv s12 s21 :=
  runTask_knob_comm family_F nofault_s1 at_s1.inv.data (by simp [F]) (by simp [F])

/-- `runTask_shared` instantiated: ANY of the three knobs may be run at `s1` (or at any state in the invariant): the run
    completes and the invariant holds again with the same bases -/
example (k : MTask) (hk : k ∈ F) : ∃ s', runTask s1 k = (s', none) ∧ SharedInv F bases s' := by
  obtain ⟨s', h1, h2, _⟩ := runTask_shared family_F nofault_s1 at_s1.inv hk
  exact ⟨s', h1, h2⟩

/-- `runTasks_knobs_perm` instantiated: the three knobs in two orders -/
example : ∃ a b, runTasks s1 [K1, K2, K3] = (a, none) ∧ runTasks s1 [K3, K1, K2] = (b, none) ∧ KnobEquiv a b :=
  runTasks_knobs_perm family_F nofault_s1 at_s1.inv.data (fun k hk => by simpa [F] using hk)
    ((List.perm_cons_append_cons K3 (l₁ := [K1, K2]) (l₂ := []) (List.Perm.refl _)).symm)

/-- `setValue_sharedAt` instantiated: `d.x := v` at `s1` for ANY int `v`: afterwards `d.a = 2 + 2*v + 3*2` -/
example (v : Int) : ∃ s', setValue id s1 (d "x") (.int v) = (s', none) ∧
    get s'.store (d "a") = .ok (.int (2 + (2 * v + (3 * 2 + (0 * 3 + 0))))) := by
  obtain ⟨s', h1, _, _, _, _, hsrc, hval⟩ := setValue_sharedAt id family_F s1 (d "x") v [K1] rfl nofault_s1 at_s1
    (canonPathB_sound (by decide)) (by decide) ⟨1, rfl⟩ (by decide +kernel) trig_x
    (fun k hk => by simp [F, List.mem_singleton.mp hk]) runs_x
  refine ⟨s', h1, ?_⟩
  have h := hval (d "a") (by decide +kernel)
  have e1 : srcI s' K1 = v := by rw [hsrc K1 (by simp [F])]; rfl
  have e2 : srcI s' K2 = 2 := by rw [hsrc K2 (by simp [F])]; rfl
  have e3 : srcI s' K3 = 3 := by rw [hsrc K3 (by simp [F])]; rfl
  simpa [F, famSum, e1, e2, e3, bases, show wAt K1 (d "a") = 2 from by decide +kernel,
    show wAt K2 (d "a") = 3 from by decide +kernel, show wAt K3 (d "a") = 0 from by decide +kernel] using h

/-! one assignment that triggers three knobs sharing `d.a` and `d.b`, two of them on the same source, one with `Δ = 0`
    (`#K2x` declares `d.x` as a dependency although its source is `d.y`) -/

def K2x : MTask := ⟨[.item (.str "#K2")], .knob (d "y") [3, 1] [d "a", d "b"], [d "y", d "x"], [d "a", d "b"]⟩
def K4 : MTask := ⟨[.item (.str "#K4")], .knob (d "x") [7, -1] [d "a", d "b"], [d "x"], [d "a", d "b"]⟩
def G : List MTask := [K1, K2x, K4]
def t1 : MState := (register (register (register s0 K1).1 K2x).1 K4).1
def rev : Sched := fun l => l.reverse

theorem family_G : KnobFamily G := knobFamilyB_sound (by decide +kernel)
theorem data_t1 : IntData G t1 := intDataB_sound (by decide +kernel)

example : findTaskids t1.idx (chainR (d "x")) = [K4.id, K2x.id, K1.id] := by decide +kernel
theorem trig_t1 : knobTriggered id t1 (d "x") = .ok [K4, K2x, K1] := rfl
theorem trig_t1_rev : knobTriggered rev t1 (d "x") = .ok [K1, K2x, K4] := rfl

/-- the hypotheses of `setValue_knob_sched_total` hold for the schedulers `id` and `rev` … -/
theorem indep_t1 (v : Int) : ∃ s1 s2, setValue id t1 (d "x") (.int v) = (s1, none) ∧
    setValue rev t1 (d "x") (.int v) = (s2, none) ∧ KnobEquiv s1 s2 :=
  setValue_knob_sched_total id rev family_G t1 (d "x") v rfl rfl data_t1 (canonPathB_sound (by decide)) (by decide)
    ⟨1, rfl⟩ (by decide +kernel)
    (fun id hid => by
      have h : id = K4.id ∨ id = K2x.id ∨ id = K1.id := by
        have e : findTaskids t1.idx (chainR (d "x")) = [K4.id, K2x.id, K1.id] := by decide +kernel
        rw [e] at hid
        simpa using hid
      rcases h with rfl | rfl | rfl
      · exact ⟨K4, by simp [G], rfl⟩
      · exact ⟨K2x, by simp [G], rfl⟩
      · exact ⟨K1, by simp [G], rfl⟩)
    (fun _ => Iff.rfl) (fun _ => by simp [rev])

/-- the `preState` form (`setValue_knob_sched_indep`) on the same call -/
example : ∃ s2, setValue rev t1 (d "x") (.int 5) = (s2, none) ∧ KnobEquiv (setValue id t1 (d "x") (.int 5)).1 s2 :=
  setValue_knob_sched_indep id rev family_G t1 (d "x") 5 rfl data_t1 (canonPathB_sound (by decide)) (by decide)
    ⟨1, rfl⟩ (by decide +kernel)
    (fun id hid => by
      have h : id = K4.id ∨ id = K2x.id ∨ id = K1.id := by
        have e : findTaskids t1.idx (chainR (d "x")) = [K4.id, K2x.id, K1.id] := by decide +kernel
        have hid' : id ∈ findTaskids t1.idx (chainR (d "x")) := hid
        rw [e] at hid'
        simpa using hid'
      rcases h with rfl | rfl | rfl
      · exact ⟨K4, by simp [G], rfl⟩
      · exact ⟨K2x, by simp [G], rfl⟩
      · exact ⟨K1, by simp [G], rfl⟩)
    (fun _ => Iff.rfl) (fun _ => by simp [rev]) _ rfl

/-- the bases of `G` at `t1`: `a = 10 - 2*1 - 3*2 - 7*1 = -5`, `b = 20 - 1*2 + 1*1 = 19` -/
def basesG (t : Path) : Int := if t = d "a" then -5 else if t = d "b" then 19 else 0
theorem at_t1 : SharedAt G basesG t1 := sharedAtB_sound (by decide +kernel)

/-- `setValue_sharedAt` with a triggered list of three knobs, one of which (`#K2`, source `d.y`) finds `Δ = 0`: the family
    is settled again after `d.x := v`, under either scheduler -/
example (v : Int) : (∃ s', setValue id t1 (d "x") (.int v) = (s', none) ∧ SharedAt G basesG s') ∧
    (∃ s', setValue rev t1 (d "x") (.int v) = (s', none) ∧ SharedAt G basesG s') := by
  have hruns : ∀ (l : List MTask), K1 ∈ l → K4 ∈ l → ∀ k ∈ G, knobSrc k = d "x" → k ∈ l := by
    intro l h1 h4 k hk e
    have : k = K1 ∨ k = K2x ∨ k = K4 := by simpa [G] using hk
    rcases this with rfl | rfl | rfl
    · exact h1
    · exact absurd e (by decide)
    · exact h4
  constructor
  · obtain ⟨s', h1, h2, _⟩ := setValue_sharedAt id family_G t1 (d "x") v [K4, K2x, K1] rfl rfl at_t1
      (canonPathB_sound (by decide)) (by decide) ⟨1, rfl⟩ (by decide +kernel) trig_t1
      (fun k hk => by
        have : k = K4 ∨ k = K2x ∨ k = K1 := by simpa using hk
        rcases this with rfl | rfl | rfl <;> simp [G]) (hruns _ (by simp) (by simp))
    exact ⟨s', h1, h2⟩
  · obtain ⟨s', h1, h2, _⟩ := setValue_sharedAt rev family_G t1 (d "x") v [K1, K2x, K4] rfl rfl at_t1
      (canonPathB_sound (by decide)) (by decide) ⟨1, rfl⟩ (by decide +kernel) trig_t1_rev
      (fun k hk => by
        have : k = K1 ∨ k = K2x ∨ k = K4 := by simpa using hk
        rcases this with rfl | rfl | rfl <;> simp [G]) (hruns _ (by simp) (by simp))
    exact ⟨s', h1, h2⟩

/-- … and, computed: the two orders give the same tree, `a = 10 + (2+7)*(5-1) = 46`, `b = 20 - (5-1) = 16` … -/
example : (setValue id t1 (d "x") (.int 5)).1.store = (setValue rev t1 (d "x") (.int 5)).1.store := rfl
example : [geti (setValue id t1 (d "x") (.int 5)).1 (d "a"), geti (setValue rev t1 (d "x") (.int 5)).1 (d "b")] =
    [some 46, some 16] := by decide +kernel
/-- … but NOT the same association list of remembered values, nor the same event log: the model's `prev` is keyed
    storage in order of last update, which is why the theorems compare `lookPrev` at every id -/
theorem prev_lists_differ :
    (setValue id t1 (d "x") (.int 5)).1.prev.map (·.1) = [K4.id, K2x.id, K1.id] ∧
    (setValue rev t1 (d "x") (.int 5)).1.prev.map (·.1) = [K1.id, K2x.id, K4.id] := by
  decide +kernel

/-- registration through `register_sharedAt`: the family `[K1, K2]` settled at `s0 + K1 + K2`, then `K3` -/
example : (register (register (register s0 K1).1 K2).1 K3).2 = none ∧
    SharedAt ([K1, K2] ++ [K3]) (baseOf ([K1, K2] ++ [K3]) s1) s1 := by
  have h := register_sharedAt (F := [K1, K2]) (s := (register (register s0 K1).1 K2).1) (K := K3)
    (knobFamilyB_sound (by decide +kernel)) rfl (intDataB_sound (by decide +kernel))
    (fun k hk => by
      have : k = K1 ∨ k = K2 := by simpa using hk
      rcases this with rfl | rfl
      · exact ⟨1, rfl, rfl⟩
      · exact ⟨2, rfl, rfl⟩)
    ⟨3, rfl⟩ (fun t ht => by
      have : t = d "c" := by
        have : t ∈ [d "c", d "c"] := ht
        simpa using this
      rw [this]; exact ⟨30, rfl⟩)
  exact ⟨h.1, h.2.2.2⟩

/-- the fully decided forms on the examples: the family is read off the state -/
example : knobsOf s1 = F := rfl
theorem decided_s1 : knobFamilyB (knobsOf s1) = true ∧ sharedAtB (knobsOf s1) bases s1 = true ∧
    [(d "x", (5 : Int)), (d "y", 7), (d "z", 2), (d "x", -4)].all (fun a => sharedCallB id s1 a.1) = true := by
  decide +kernel
example : allComplete id s1 [(d "x", 5), (d "y", 7), (d "z", 2), (d "x", -4)] :=
  (sharedAssignAll_decided id bases _ s1 decided_s1.1 decided_s1.2.1 rfl decided_s1.2.2).1
theorem decided_t1 : knobSchedIndepB id rev t1 (d "x") = true := by decide +kernel
example (v : Int) : ∃ a b, setValue id t1 (d "x") (.int v) = (a, none) ∧ setValue rev t1 (d "x") (.int v) = (b, none) ∧
    KnobEquiv a b := setValue_knob_sched_decided id rev t1 (d "x") v decided_t1

end SharedExample

end Manager
