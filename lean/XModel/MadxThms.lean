import XModel.Madx
/-! C19: the deferred value equals the immediate value unless a division by zero occurs. -/
namespace Madx

variable {V : Type}

/-- the step for a binary operator that cannot raise `ZeroDivisionError` itself -/
theorem agreeBin (ops : Ops V) (l r : MTree) (op : V → V → Except MErr V)
    (h : (do let a ← evalI ops false l; let b ← evalI ops false r; op a b) ≠ .error .zeroDiv)
    (ihl : evalI ops false l ≠ .error .zeroDiv → evalI ops true l = evalI ops false l)
    (ihr : evalI ops false r ≠ .error .zeroDiv → evalI ops true r = evalI ops false r) :
    (do let a ← evalI ops true l; let b ← evalI ops true r; op a b) =
    (do let a ← evalI ops false l; let b ← evalI ops false r; op a b) := by
  cases hl : evalI ops false l with
  | error e =>
    have : evalI ops false l ≠ .error .zeroDiv := by
      intro hz; rw [hl] at hz; cases hz; simp [hl, bind, Except.bind] at h
    rw [ihl this, hl]
    rfl
  | ok a =>
    rw [ihl (by rw [hl]; simp), hl]
    cases hr : evalI ops false r with
    | error e =>
      have : evalI ops false r ≠ .error .zeroDiv := by
        intro hz; rw [hr] at hz; cases hz; simp [hl, hr, bind, Except.bind] at h
      rw [ihr this, hr]
    | ok b => rw [ihr (by rw [hr]; simp), hr]

mutual
theorem agree (ops : Ops V) (hd : DivOnly ops) :
    ∀ t : MTree, evalI ops false t ≠ .error .zeroDiv → evalI ops true t = evalI ops false t
  | .number _, _ => rfl
  | .var _, _ => rfl
  | .getitem _ _, _ => rfl
  | .neg a, h => by
    simp only [evalI] at h ⊢
    cases ha : evalI ops false a with
    | error e =>
      have : evalI ops false a ≠ .error .zeroDiv := by
        intro hz; rw [ha] at hz; cases hz; simp [ha, bind, Except.bind] at h
      rw [agree ops hd a this, ha]
    | ok x => rw [agree ops hd a (by rw [ha]; simp), ha]
  | .pos a, h => by
    simp only [evalI] at h ⊢
    cases ha : evalI ops false a with
    | error e =>
      have : evalI ops false a ≠ .error .zeroDiv := by
        intro hz; rw [ha] at hz; cases hz; simp [ha, bind, Except.bind] at h
      rw [agree ops hd a this, ha]
    | ok x => rw [agree ops hd a (by rw [ha]; simp), ha]
  | .call f args, h => by
    simp only [evalI] at h ⊢
    cases ha : evalArgs ops false args with
    | error e =>
      have : evalArgs ops false args ≠ .error .zeroDiv := by
        intro hz; rw [ha] at hz; cases hz; simp [ha, bind, Except.bind] at h
      rw [agreeArgs ops hd args this, ha]
    | ok xs => rw [agreeArgs ops hd args (by rw [ha]; simp), ha]
  | .add l r, h => by
    simp only [evalI] at h ⊢
    exact agreeBin ops l r ops.add h (agree ops hd l) (agree ops hd r)
  | .sub l r, h => by
    simp only [evalI] at h ⊢
    exact agreeBin ops l r ops.sub h (agree ops hd l) (agree ops hd r)
  | .mul l r, h => by
    simp only [evalI] at h ⊢
    exact agreeBin ops l r ops.mul h (agree ops hd l) (agree ops hd r)
  | .pow l r, h => by
    simp only [evalI] at h ⊢
    exact agreeBin ops l r ops.pow h (agree ops hd l) (agree ops hd r)
  | .div l r, h => by
    simp only [evalI] at h ⊢
    cases hl : evalI ops false l with
    | error e =>
      have : evalI ops false l ≠ .error .zeroDiv := by
        intro hz; rw [hl] at hz; cases hz; simp [hl, bind, Except.bind] at h
      rw [agree ops hd l this, hl]
      rfl
    | ok a =>
      rw [agree ops hd l (by rw [hl]; simp), hl]
      cases hr : evalI ops false r with
      | error e =>
        have : evalI ops false r ≠ .error .zeroDiv := by
          intro hz; rw [hr] at hz; cases hz; simp [hl, hr, bind, Except.bind] at h
        rw [agree ops hd r this, hr]
        rfl
      | ok b =>
        rw [agree ops hd r (by rw [hr]; simp), hr]
        simp only [hl, hr, bind, Except.bind] at h ⊢
        cases hq : ops.div a b with
        | ok v => rfl
        | error e =>
          cases e with
          | zeroDiv => simp [hq] at h
          | other w => rfl
theorem agreeArgs (ops : Ops V) (hd : DivOnly ops) :
    ∀ args : List MTree, evalArgs ops false args ≠ .error .zeroDiv → evalArgs ops true args = evalArgs ops false args
  | [], _ => rfl
  | a :: rest, h => by
    simp only [evalArgs] at h ⊢
    cases ha : evalI ops false a with
    | error e =>
      have : evalI ops false a ≠ .error .zeroDiv := by
        intro hz; rw [ha] at hz; cases hz; simp [ha, bind, Except.bind] at h
      rw [agree ops hd a this, ha]
      rfl
    | ok x =>
      rw [agree ops hd a (by rw [ha]; simp), ha]
      cases hr : evalArgs ops false rest with
      | error e =>
        have : evalArgs ops false rest ≠ .error .zeroDiv := by
          intro hz; rw [hr] at hz; cases hz; simp [ha, hr, bind, Except.bind] at h
        rw [agreeArgs ops hd rest this, hr]
      | ok xs => rw [agreeArgs ops hd rest (by rw [hr]; simp), hr]
end

end Madx
