import XModel.MadxThms
/-!
# C19, the "fully parenthesised" clause: for fully parenthesised input the parser decides nothing

`fullParen t` renders a parse tree with every compound node — the five binary operations and the
two unary signs — inside its own pair of parentheses.  Atoms (numbers, names, `element->attribute`,
function calls) are NOT wrapped: a call is already delimited by its own parentheses and the other
three are single lexical units; the arguments of a call are rendered recursively and separated by
commas.  The tokens are exactly those `parseAtom`/`parseArgs` consume:

* `^` and `**` are the same token `Tok.pow` (both grammar alternatives carry the alias `pow`);
* there are no negative literals: `-2` is `[.minus, .num "2"]` and parses to `.neg (.number "2")`;
* a call is `NAME "(" sum ("," sum)* ")"`: at least one argument, any number of them.

Main results: `parse_fullParen` (round trip through `parse` itself, with the fuel `parse` chooses),
`parseSum_fullParen` (the same in context, for every sufficiently large fuel), `parseSum_wf` (the
parser only ever produces well-formed trees, so `WFTree` is exactly the range of the parser) and
the evaluation corollaries `eval_fullParen`, `eval_fullParen_deferred`.
-/
namespace Madx

/-! ### the printer -/

mutual
/-- every compound node (binary operation, unary sign) in its own parentheses; atoms bare -/
def fullParen : MTree → List Tok
  | .number t => [.num t]
  | .var v => [.name v]
  | .getitem e k => [.name e, .arrow, .name k]
  | .neg a => .lpar :: .minus :: (fullParen a ++ [.rpar])
  | .pos a => .lpar :: .plus :: (fullParen a ++ [.rpar])
  | .call f args => .name f :: .lpar :: fullParenArgs args
  | .add l r => .lpar :: (fullParen l ++ .plus :: (fullParen r ++ [.rpar]))
  | .sub l r => .lpar :: (fullParen l ++ .minus :: (fullParen r ++ [.rpar]))
  | .mul l r => .lpar :: (fullParen l ++ .star :: (fullParen r ++ [.rpar]))
  | .div l r => .lpar :: (fullParen l ++ .slash :: (fullParen r ++ [.rpar]))
  | .pow l r => .lpar :: (fullParen l ++ .pow :: (fullParen r ++ [.rpar]))
/-- an argument list after the opening parenthesis: `sum ("," sum)* ")"` (for the empty list, which
    the grammar does not have, just the closing parenthesis) -/
def fullParenArgs : List MTree → List Tok
  | [] => [.rpar]
  | a :: rest => fullParen a ++ fullParenTail rest
/-- the rest of an argument list: `("," sum)* ")"` -/
def fullParenTail : List MTree → List Tok
  | [] => [.rpar]
  | a :: rest => .comma :: (fullParen a ++ fullParenTail rest)
end

/-! ### the trees the grammar can produce -/

mutual
/-- the range of the parser: a call has at least one argument (`NAME "(" sum ("," sum)* ")"`);
    number texts and names are whatever the tokens carry -/
def WFTree : MTree → Prop
  | .number _ => True
  | .var _ => True
  | .getitem _ _ => True
  | .neg a => WFTree a
  | .pos a => WFTree a
  | .call _ args => args ≠ [] ∧ WFArgs args
  | .add l r => WFTree l ∧ WFTree r
  | .sub l r => WFTree l ∧ WFTree r
  | .mul l r => WFTree l ∧ WFTree r
  | .div l r => WFTree l ∧ WFTree r
  | .pow l r => WFTree l ∧ WFTree r
def WFArgs : List MTree → Prop
  | [] => True
  | a :: rest => WFTree a ∧ WFArgs rest
end

/-! ### where the operator loops stop -/

/-- what may follow a bare name without changing what the name means: anything but `(` (a call) and
    `->` (an attribute access) -/
def atomStop : List Tok → Bool
  | .lpar :: _ => false
  | .arrow :: _ => false
  | _ => true

/-- what may follow a complete `sum`: additionally no binary operator -/
def sumStop : List Tok → Bool
  | .lpar :: _ => false
  | .arrow :: _ => false
  | .pow :: _ => false
  | .star :: _ => false
  | .slash :: _ => false
  | .plus :: _ => false
  | .minus :: _ => false
  | _ => true

theorem atomStop_of_sumStop {rest : List Tok} (h : sumStop rest = true) : atomStop rest = true := by
  cases rest with
  | nil => rfl
  | cons tok r => cases tok <;> simp_all [sumStop, atomStop]

theorem parsePowerTail_stop (n : Nat) (acc : MTree) (rest : List Tok)
    (h : ∀ r, rest ≠ .pow :: r) : parsePowerTail (n + 1) acc rest = some (acc, rest) := by
  unfold parsePowerTail
  split <;> simp_all

theorem parseProductTail_stop (n : Nat) (acc : MTree) (rest : List Tok)
    (h1 : ∀ r, rest ≠ .star :: r) (h2 : ∀ r, rest ≠ .slash :: r) :
    parseProductTail (n + 1) acc rest = some (acc, rest) := by
  unfold parseProductTail
  split <;> simp_all

theorem parseSumTail_stop (n : Nat) (acc : MTree) (rest : List Tok)
    (h1 : ∀ r, rest ≠ .plus :: r) (h2 : ∀ r, rest ≠ .minus :: r) :
    parseSumTail (n + 1) acc rest = some (acc, rest) := by
  unfold parseSumTail
  split <;> simp_all

theorem sumStop_ne {rest : List Tok} (h : sumStop rest = true) :
    (∀ r, rest ≠ .pow :: r) ∧ (∀ r, rest ≠ .star :: r) ∧ (∀ r, rest ≠ .slash :: r) ∧
    (∀ r, rest ≠ .plus :: r) ∧ (∀ r, rest ≠ .minus :: r) := by
  refine ⟨?_, ?_, ?_, ?_, ?_⟩ <;> (intro r hr; subst hr; simp [sumStop] at h)

theorem parseAtom_fuel {n : Nat} {toks : List Tok} {x : MTree × List Tok}
    (h : parseAtom n toks = some x) : ∃ m, n = m + 1 := by
  cases n with
  | zero => simp [parseAtom] at h
  | succ m => exact ⟨m, rfl⟩

/-! ### one level of the grammar at a time -/

/-- an atom followed by something that is not an operator is a complete `sum` -/
theorem parseSum_atom {n : Nat} {toks rest : List Tok} {t : MTree}
    (h : parseAtom n toks = some (t, rest)) (hs : sumStop rest = true) :
    parseSum (n + 3) toks = some (t, rest) := by
  obtain ⟨m, rfl⟩ := parseAtom_fuel h
  obtain ⟨h1, h2, h3, h4, h5⟩ := sumStop_ne hs
  simp only [parseSum, parseProduct, parsePower, h, parsePowerTail_stop _ _ _ h1,
    parseProductTail_stop _ _ _ h2 h3, parseSumTail_stop _ _ _ h4 h5]

theorem parseSum_add {n : Nat} {toks toks2 rest : List Tok} {l r : MTree}
    (hl : parseAtom (n + 1) toks = some (l, .plus :: toks2))
    (hr : parseAtom n toks2 = some (r, rest)) (hs : sumStop rest = true) :
    parseSum (n + 4) toks = some (.add l r, rest) := by
  obtain ⟨m, rfl⟩ := parseAtom_fuel hr
  obtain ⟨h1, h2, h3, h4, h5⟩ := sumStop_ne hs
  simp only [parseSum, parseProduct, parsePower, hl, hr, parsePowerTail_stop _ _ _ h1,
    parseProductTail_stop _ _ _ h2 h3, parseSumTail_stop _ _ _ h4 h5,
    parsePowerTail_stop _ _ (.plus :: toks2) (by simp),
    parseProductTail_stop _ _ (.plus :: toks2) (by simp) (by simp), parseSumTail]

theorem parseSum_sub {n : Nat} {toks toks2 rest : List Tok} {l r : MTree}
    (hl : parseAtom (n + 1) toks = some (l, .minus :: toks2))
    (hr : parseAtom n toks2 = some (r, rest)) (hs : sumStop rest = true) :
    parseSum (n + 4) toks = some (.sub l r, rest) := by
  obtain ⟨m, rfl⟩ := parseAtom_fuel hr
  obtain ⟨h1, h2, h3, h4, h5⟩ := sumStop_ne hs
  simp only [parseSum, parseProduct, parsePower, hl, hr, parsePowerTail_stop _ _ _ h1,
    parseProductTail_stop _ _ _ h2 h3, parseSumTail_stop _ _ _ h4 h5,
    parsePowerTail_stop _ _ (.minus :: toks2) (by simp),
    parseProductTail_stop _ _ (.minus :: toks2) (by simp) (by simp), parseSumTail]

theorem parseSum_mul {n : Nat} {toks toks2 rest : List Tok} {l r : MTree}
    (hl : parseAtom (n + 1) toks = some (l, .star :: toks2))
    (hr : parseAtom n toks2 = some (r, rest)) (hs : sumStop rest = true) :
    parseSum (n + 4) toks = some (.mul l r, rest) := by
  obtain ⟨m, rfl⟩ := parseAtom_fuel hr
  obtain ⟨h1, h2, h3, h4, h5⟩ := sumStop_ne hs
  simp only [parseSum, parseProduct, parsePower, hl, hr, parsePowerTail_stop _ _ _ h1,
    parseProductTail_stop _ _ _ h2 h3, parseSumTail_stop _ _ _ h4 h5,
    parsePowerTail_stop _ _ (.star :: toks2) (by simp), parseProductTail]

theorem parseSum_div {n : Nat} {toks toks2 rest : List Tok} {l r : MTree}
    (hl : parseAtom (n + 1) toks = some (l, .slash :: toks2))
    (hr : parseAtom n toks2 = some (r, rest)) (hs : sumStop rest = true) :
    parseSum (n + 4) toks = some (.div l r, rest) := by
  obtain ⟨m, rfl⟩ := parseAtom_fuel hr
  obtain ⟨h1, h2, h3, h4, h5⟩ := sumStop_ne hs
  simp only [parseSum, parseProduct, parsePower, hl, hr, parsePowerTail_stop _ _ _ h1,
    parseProductTail_stop _ _ _ h2 h3, parseSumTail_stop _ _ _ h4 h5,
    parsePowerTail_stop _ _ (.slash :: toks2) (by simp), parseProductTail]

theorem parseSum_pow {n : Nat} {toks toks2 rest : List Tok} {l r : MTree}
    (hl : parseAtom (n + 1) toks = some (l, .pow :: toks2))
    (hr : parseAtom n toks2 = some (r, rest)) (hs : sumStop rest = true) :
    parseSum (n + 4) toks = some (.pow l r, rest) := by
  obtain ⟨m, rfl⟩ := parseAtom_fuel hr
  obtain ⟨h1, h2, h3, h4, h5⟩ := sumStop_ne hs
  simp only [parseSum, parseProduct, parsePower, hl, hr, parsePowerTail_stop _ _ _ h1,
    parseProductTail_stop _ _ _ h2 h3, parseSumTail_stop _ _ _ h4 h5, parsePowerTail]

theorem parseAtom_var (n : Nat) (v : String) (rest : List Tok) (h : atomStop rest = true) :
    parseAtom (n + 1) (.name v :: rest) = some (.var v, rest) := by
  cases rest with
  | nil => simp [parseAtom]
  | cons tok r => cases tok <;> simp_all [parseAtom, atomStop]

theorem sumStop_tail (args : List MTree) (rest : List Tok) :
    sumStop (fullParenTail args ++ rest) = true := by
  cases args <;> simp [fullParenTail, sumStop]

/-! ### the round trip -/

mutual
theorem parseAtom_fullParen : ∀ t : MTree, WFTree t → ∀ rest : List Tok, atomStop rest = true →
    ∀ n, 4 * (fullParen t).length ≤ n → parseAtom n (fullParen t ++ rest) = some (t, rest)
  | .number s, _, rest, _, n, hn => by
    obtain ⟨m, rfl⟩ : ∃ m, n = m + 1 := ⟨n - 1, by simp [fullParen] at hn; omega⟩
    simp [fullParen, parseAtom]
  | .var v, _, rest, hs, n, hn => by
    obtain ⟨m, rfl⟩ : ∃ m, n = m + 1 := ⟨n - 1, by simp [fullParen] at hn; omega⟩
    simpa [fullParen] using parseAtom_var m v rest hs
  | .getitem e k, _, rest, _, n, hn => by
    obtain ⟨m, rfl⟩ : ∃ m, n = m + 1 := ⟨n - 1, by simp [fullParen] at hn; omega⟩
    simp [fullParen, parseAtom]
  | .neg a, h, rest, _, n, hn => by
    simp only [WFTree] at h
    simp only [fullParen, List.length_cons, List.length_append, List.length_nil] at hn
    obtain ⟨m, rfl⟩ : ∃ m, n = m + 5 := ⟨n - 5, by omega⟩
    have ha := parseAtom_fullParen a h (.rpar :: rest) rfl m (by omega)
    have h1 : parseAtom (m + 1) (.minus :: (fullParen a ++ .rpar :: rest)) = some (.neg a, .rpar :: rest) := by
      simp [parseAtom, ha]
    have h2 := parseSum_atom h1 rfl
    simp [fullParen, parseAtom, h2]
  | .pos a, h, rest, _, n, hn => by
    simp only [WFTree] at h
    simp only [fullParen, List.length_cons, List.length_append, List.length_nil] at hn
    obtain ⟨m, rfl⟩ : ∃ m, n = m + 5 := ⟨n - 5, by omega⟩
    have ha := parseAtom_fullParen a h (.rpar :: rest) rfl m (by omega)
    have h1 : parseAtom (m + 1) (.plus :: (fullParen a ++ .rpar :: rest)) = some (.pos a, .rpar :: rest) := by
      simp [parseAtom, ha]
    have h2 := parseSum_atom h1 rfl
    simp [fullParen, parseAtom, h2]
  | .call f [], h, _, _, _, _ => by simp [WFTree] at h
  | .call f (a :: args), h, rest, _, n, hn => by
    simp only [WFTree, WFArgs] at h
    simp only [fullParen, fullParenArgs, List.length_cons, List.length_append] at hn
    have hpos : 1 ≤ (fullParenTail args).length := by cases args <;> simp [fullParenTail]
    obtain ⟨m, rfl⟩ : ∃ m, n = m + 4 := ⟨n - 4, by omega⟩
    have ha := parseAtom_fullParen a h.2.1 (fullParenTail args ++ rest)
      (atomStop_of_sumStop (sumStop_tail args rest)) m (by omega)
    have h1 := parseSum_atom ha (sumStop_tail args rest)
    have h2 := parseArgs_fullParenTail args h.2.2 rest (m + 3) (by omega)
    simp [fullParen, fullParenArgs, parseAtom, h1, h2]
  | .add l r, h, rest, _, n, hn => by
    simp only [WFTree] at h
    simp only [fullParen, List.length_cons, List.length_append, List.length_nil] at hn
    obtain ⟨m, rfl⟩ : ∃ m, n = m + 5 := ⟨n - 5, by omega⟩
    have hl := parseAtom_fullParen l h.1 (.plus :: (fullParen r ++ .rpar :: rest)) rfl (m + 1) (by omega)
    have hr := parseAtom_fullParen r h.2 (.rpar :: rest) rfl m (by omega)
    have h2 := parseSum_add hl hr rfl
    simp [fullParen, parseAtom, h2]
  | .sub l r, h, rest, _, n, hn => by
    simp only [WFTree] at h
    simp only [fullParen, List.length_cons, List.length_append, List.length_nil] at hn
    obtain ⟨m, rfl⟩ : ∃ m, n = m + 5 := ⟨n - 5, by omega⟩
    have hl := parseAtom_fullParen l h.1 (.minus :: (fullParen r ++ .rpar :: rest)) rfl (m + 1) (by omega)
    have hr := parseAtom_fullParen r h.2 (.rpar :: rest) rfl m (by omega)
    have h2 := parseSum_sub hl hr rfl
    simp [fullParen, parseAtom, h2]
  | .mul l r, h, rest, _, n, hn => by
    simp only [WFTree] at h
    simp only [fullParen, List.length_cons, List.length_append, List.length_nil] at hn
    obtain ⟨m, rfl⟩ : ∃ m, n = m + 5 := ⟨n - 5, by omega⟩
    have hl := parseAtom_fullParen l h.1 (.star :: (fullParen r ++ .rpar :: rest)) rfl (m + 1) (by omega)
    have hr := parseAtom_fullParen r h.2 (.rpar :: rest) rfl m (by omega)
    have h2 := parseSum_mul hl hr rfl
    simp [fullParen, parseAtom, h2]
  | .div l r, h, rest, _, n, hn => by
    simp only [WFTree] at h
    simp only [fullParen, List.length_cons, List.length_append, List.length_nil] at hn
    obtain ⟨m, rfl⟩ : ∃ m, n = m + 5 := ⟨n - 5, by omega⟩
    have hl := parseAtom_fullParen l h.1 (.slash :: (fullParen r ++ .rpar :: rest)) rfl (m + 1) (by omega)
    have hr := parseAtom_fullParen r h.2 (.rpar :: rest) rfl m (by omega)
    have h2 := parseSum_div hl hr rfl
    simp [fullParen, parseAtom, h2]
  | .pow l r, h, rest, _, n, hn => by
    simp only [WFTree] at h
    simp only [fullParen, List.length_cons, List.length_append, List.length_nil] at hn
    obtain ⟨m, rfl⟩ : ∃ m, n = m + 5 := ⟨n - 5, by omega⟩
    have hl := parseAtom_fullParen l h.1 (.pow :: (fullParen r ++ .rpar :: rest)) rfl (m + 1) (by omega)
    have hr := parseAtom_fullParen r h.2 (.rpar :: rest) rfl m (by omega)
    have h2 := parseSum_pow hl hr rfl
    simp [fullParen, parseAtom, h2]
theorem parseArgs_fullParenTail : ∀ args : List MTree, WFArgs args → ∀ (rest : List Tok) (n : Nat),
    4 * (fullParenTail args).length ≤ n → parseArgs n (fullParenTail args ++ rest) = some (args, rest)
  | [], _, rest, n, hn => by
    obtain ⟨m, rfl⟩ : ∃ m, n = m + 1 := ⟨n - 1, by simp [fullParenTail] at hn; omega⟩
    simp [fullParenTail, parseArgs]
  | a :: args, h, rest, n, hn => by
    simp only [WFArgs] at h
    simp only [fullParenTail, List.length_cons, List.length_append] at hn
    have hpos : 1 ≤ (fullParenTail args).length := by cases args <;> simp [fullParenTail]
    obtain ⟨m, rfl⟩ : ∃ m, n = m + 4 := ⟨n - 4, by omega⟩
    have ha := parseAtom_fullParen a h.1 (fullParenTail args ++ rest)
      (atomStop_of_sumStop (sumStop_tail args rest)) m (by omega)
    have h1 := parseSum_atom ha (sumStop_tail args rest)
    have h2 := parseArgs_fullParenTail args h.2 rest (m + 3) (by omega)
    simp [fullParenTail, parseArgs, h1, h2]
end

/-- in context: a fully parenthesised tree followed by anything that is not an operator (nor `(`,
    `->`) is parsed back as a complete `sum`, for every sufficiently large fuel -/
theorem parseSum_fullParen (t : MTree) (h : WFTree t) (rest : List Tok) (hs : sumStop rest = true)
    (n : Nat) (hn : 4 * (fullParen t).length + 3 ≤ n) :
    parseSum n (fullParen t ++ rest) = some (t, rest) := by
  obtain ⟨m, rfl⟩ : ∃ m, n = m + 3 := ⟨n - 3, by omega⟩
  exact parseSum_atom (parseAtom_fullParen t h rest (atomStop_of_sumStop hs) m (by omega)) hs

/-- **round trip**: for every tree the grammar can produce, parsing its fully parenthesised
    rendering gives the tree back — with the fuel `parse` itself chooses -/
theorem parse_fullParen (t : MTree) (h : WFTree t) : parse (fullParen t) = some t := by
  have := parseSum_fullParen t h [] rfl (4 * (fullParen t).length + 8) (by omega)
  rw [List.append_nil] at this
  simp [parse, this]

/-! ### `WFTree` is the range of the parser -/

/-- after `unfold f at h; split at h` on a fuelled function applied to `n + 1`: discharge the
    `n + 1 = 0` branch and identify the matched predecessor with `n` -/
local macro "fix_fuel" : tactic =>
  `(tactic| all_goals (first
      | (exfalso; exact Nat.succ_ne_zero _ ‹_ + 1 = 0›)
      | (have hh := Nat.succ.inj ‹_ + 1 = Nat.succ _›; subst hh)
      | skip))

theorem parser_wf (n : Nat) :
    (∀ toks t rest, parseAtom n toks = some (t, rest) → WFTree t) ∧
    (∀ toks ts rest, parseArgs n toks = some (ts, rest) → WFArgs ts) ∧
    (∀ toks t rest, parsePower n toks = some (t, rest) → WFTree t) ∧
    (∀ acc toks t rest, WFTree acc → parsePowerTail n acc toks = some (t, rest) → WFTree t) ∧
    (∀ toks t rest, parseProduct n toks = some (t, rest) → WFTree t) ∧
    (∀ acc toks t rest, WFTree acc → parseProductTail n acc toks = some (t, rest) → WFTree t) ∧
    (∀ toks t rest, parseSum n toks = some (t, rest) → WFTree t) ∧
    (∀ acc toks t rest, WFTree acc → parseSumTail n acc toks = some (t, rest) → WFTree t) := by
  induction n with
  | zero => simp [parseAtom, parseArgs, parsePower, parsePowerTail, parseProduct, parseProductTail,
      parseSum, parseSumTail]
  | succ n ih =>
    obtain ⟨iA, iAs, iP, iPT, iM, iMT, iS, iST⟩ := ih
    refine ⟨?_, ?_, ?_, ?_, ?_, ?_, ?_, ?_⟩
    · intro toks t rest h
      unfold parseAtom at h
      split at h
      fix_fuel
      · simp at h; obtain ⟨rfl, _⟩ := h; trivial
      · simp only [Option.map_eq_some_iff] at h
        obtain ⟨⟨a, r1⟩, hp, hq⟩ := h
        cases hq; simp only [WFTree]; exact iA _ _ _ hp
      · simp only [Option.map_eq_some_iff] at h
        obtain ⟨⟨a, r1⟩, hp, hq⟩ := h
        cases hq; simp only [WFTree]; exact iA _ _ _ hp
      · simp at h; obtain ⟨rfl, _⟩ := h; trivial
      · split at h
        · rename_i a rest1 ha
          simp only [Option.map_eq_some_iff] at h
          obtain ⟨p, hp, hq⟩ := h
          cases hq
          exact ⟨by simp, iS _ _ _ ha, iAs _ _ _ hp⟩
        · simp at h
      · simp at h; obtain ⟨rfl, _⟩ := h; trivial
      · split at h
        · rename_i t' rest1 ht
          simp at h; obtain ⟨rfl, _⟩ := h
          exact iS _ _ _ ht
        · simp at h
      · simp at h
    · intro toks ts rest h
      unfold parseArgs at h
      split at h
      fix_fuel
      · simp at h; obtain ⟨rfl, _⟩ := h; trivial
      · split at h
        · rename_i a rest1 ha
          simp only [Option.map_eq_some_iff] at h
          obtain ⟨p, hp, hq⟩ := h
          cases hq
          exact ⟨iS _ _ _ ha, iAs _ _ _ hp⟩
        · simp at h
      · simp at h
    · intro toks t rest h
      rw [parsePower] at h
      split at h
      · exact iPT _ _ _ _ (iA _ _ _ ‹_›) h
      · simp at h
    · intro acc toks t rest hacc h
      unfold parsePowerTail at h
      split at h
      fix_fuel
      · split at h
        · refine iPT _ _ _ _ ?_ h
          simp only [WFTree]; exact ⟨hacc, iA _ _ _ ‹_›⟩
        · simp at h
      · simp at h; obtain ⟨rfl, _⟩ := h; exact hacc
    · intro toks t rest h
      rw [parseProduct] at h
      split at h
      · exact iMT _ _ _ _ (iP _ _ _ ‹_›) h
      · simp at h
    · intro acc toks t rest hacc h
      unfold parseProductTail at h
      split at h
      fix_fuel
      · split at h
        · refine iMT _ _ _ _ ?_ h
          simp only [WFTree]; exact ⟨hacc, iP _ _ _ ‹_›⟩
        · simp at h
      · split at h
        · refine iMT _ _ _ _ ?_ h
          simp only [WFTree]; exact ⟨hacc, iP _ _ _ ‹_›⟩
        · simp at h
      · simp at h; obtain ⟨rfl, _⟩ := h; exact hacc
    · intro toks t rest h
      rw [parseSum] at h
      split at h
      · exact iST _ _ _ _ (iM _ _ _ ‹_›) h
      · simp at h
    · intro acc toks t rest hacc h
      unfold parseSumTail at h
      split at h
      fix_fuel
      · split at h
        · refine iST _ _ _ _ ?_ h
          simp only [WFTree]; exact ⟨hacc, iM _ _ _ ‹_›⟩
        · simp at h
      · split at h
        · refine iST _ _ _ _ ?_ h
          simp only [WFTree]; exact ⟨hacc, iM _ _ _ ‹_›⟩
        · simp at h
      · simp at h; obtain ⟨rfl, _⟩ := h; exact hacc

/-- whatever the parser returns is well formed -/
theorem parse_wf {toks : List Tok} {t : MTree} (h : parse toks = some t) : WFTree t := by
  unfold parse at h
  split at h
  · rename_i t' ht
    cases h
    exact (parser_wf _).2.2.2.2.2.2.1 _ _ _ ht
  · simp at h

/-- `WFTree` is exactly the range of `parse` -/
theorem wfTree_iff_parse (t : MTree) : WFTree t ↔ ∃ toks, parse toks = some t :=
  ⟨fun h => ⟨fullParen t, parse_fullParen t h⟩, fun ⟨_, h⟩ => parse_wf h⟩

/-- the fully parenthesised rendering determines the tree -/
theorem fullParen_injective {t t' : MTree} (h : WFTree t) (h' : WFTree t')
    (heq : fullParen t = fullParen t') : t = t' := by
  have h1 := parse_fullParen t h
  rw [heq, parse_fullParen t' h'] at h1
  exact (Option.some.inj h1).symm

/-- the "sufficiently large fuel" form of the round trip, in context -/
theorem parseSum_fullParen_ev (t : MTree) (h : WFTree t) (rest : List Tok) (hs : sumStop rest = true) :
    ∃ n0, ∀ n, n ≥ n0 → parseSum n (fullParen t ++ rest) = some (t, rest) :=
  ⟨4 * (fullParen t).length + 3, fun n hn => parseSum_fullParen t h rest hs n hn⟩

/-! ### evaluation of fully parenthesised input -/

/-- for fully parenthesised input the immediate value is the value of the tree the parentheses
    spell out: no precedence or associativity rule of the grammar takes part -/
theorem eval_fullParen {V : Type} (ops : Ops V) (t : MTree) (h : WFTree t) :
    (parse (fullParen t)).map (evalI ops false) = some (evalI ops false t) := by
  rw [parse_fullParen t h]; rfl

/-- … and so is the deferred value, unless a division by zero occurs -/
theorem eval_fullParen_deferred {V : Type} (ops : Ops V) (hd : DivOnly ops) (t : MTree) (h : WFTree t)
    (hz : evalI ops false t ≠ .error .zeroDiv) :
    (parse (fullParen t)).map (evalI ops true) = some (evalI ops false t) := by
  rw [parse_fullParen t h, Option.map_some, agree ops hd t hz]

/-- both evaluators at once, for any guard -/
theorem eval_fullParen_any {V : Type} (ops : Ops V) (hd : DivOnly ops) (t : MTree) (h : WFTree t)
    (hz : evalI ops false t ≠ .error .zeroDiv) (guard : Bool) :
    (parse (fullParen t)).map (evalI ops guard) = some (evalI ops false t) := by
  cases guard
  · exact eval_fullParen ops t h
  · exact eval_fullParen_deferred ops hd t h hz

/-! ### examples: the parentheses decide, not the precedence -/

/-- `-a^2` without parentheses: the model's (and the grammar's) unary minus binds tighter than `^` -/
example : parse [.minus, .name "a", .pow, .num "2"]
    = some (.pow (.neg (.var "a")) (.number "2")) := rfl

/-- `-(a^2)` fully parenthesised is `( - ( a ^ 2 ) )` -/
example : fullParen (.neg (.pow (.var "a") (.number "2")))
    = [.lpar, .minus, .lpar, .name "a", .pow, .num "2", .rpar, .rpar] := rfl
example : parse [.lpar, .minus, .lpar, .name "a", .pow, .num "2", .rpar, .rpar]
    = some (.neg (.pow (.var "a") (.number "2"))) := rfl

/-- `(-a)^2` fully parenthesised is `( ( - a ) ^ 2 )`: it is what the bare `-a^2` means -/
example : fullParen (.pow (.neg (.var "a")) (.number "2"))
    = [.lpar, .lpar, .minus, .name "a", .rpar, .pow, .num "2", .rpar] := rfl
example : parse [.lpar, .lpar, .minus, .name "a", .rpar, .pow, .num "2", .rpar]
    = some (.pow (.neg (.var "a")) (.number "2")) := rfl

/-- the two trees are different, and each is recovered from its own rendering by the theorem -/
example : parse (fullParen (.neg (.pow (.var "a") (.number "2"))))
    = some (.neg (.pow (.var "a") (.number "2"))) := parse_fullParen _ (by simp [WFTree])
example : parse (fullParen (.pow (.neg (.var "a")) (.number "2")))
    = some (.pow (.neg (.var "a")) (.number "2")) := parse_fullParen _ (by simp [WFTree])
example : MTree.neg (.pow (.var "a") (.number "2")) ≠ .pow (.neg (.var "a")) (.number "2") := by simp

/-- right-nested power and subtraction, which the bare grammar cannot express without parentheses
    (`^` and `-` are left-associative) -/
example : parse (fullParen (.pow (.number "2") (.pow (.number "3") (.number "2"))))
    = some (.pow (.number "2") (.pow (.number "3") (.number "2"))) := rfl
example : parse (fullParen (.sub (.var "a") (.sub (.var "b") (.var "c"))))
    = some (.sub (.var "a") (.sub (.var "b") (.var "c"))) := rfl

/-- calls, attribute access, several arguments: `f((a+1), el->k, g(x))` -/
example : fullParen (.call "f" [.add (.var "a") (.number "1"), .getitem "el" "k", .call "g" [.var "x"]])
    = [.name "f", .lpar, .lpar, .name "a", .plus, .num "1", .rpar, .comma,
       .name "el", .arrow, .name "k", .comma, .name "g", .lpar, .name "x", .rpar, .rpar] := rfl
example : parse (fullParen (.call "f" [.add (.var "a") (.number "1"), .getitem "el" "k", .call "g" [.var "x"]]))
    = some (.call "f" [.add (.var "a") (.number "1"), .getitem "el" "k", .call "g" [.var "x"]]) := rfl

#guard match parse [.minus, .name "a", .pow, .num "2"] with
  | some (.pow (.neg (.var "a")) (.number "2")) => true | _ => false
#guard match parse (fullParen (.neg (.pow (.var "a") (.number "2")))) with
  | some (.neg (.pow (.var "a") (.number "2"))) => true | _ => false
#guard match parse (fullParen (.pow (.neg (.var "a")) (.number "2"))) with
  | some (.pow (.neg (.var "a")) (.number "2")) => true | _ => false
#guard fullParen (.neg (.pow (.var "a") (.number "2")))
  == [.lpar, .minus, .lpar, .name "a", .pow, .num "2", .rpar, .rpar]
#guard fullParen (.neg (.number "2")) == [.lpar, .minus, .num "2", .rpar]
-- a call without arguments is not in the grammar: its rendering `f()` is rejected
#guard (parse (fullParen (.call "f" []))).isNone
-- a bare name followed by `(` is always read as a call
#guard (parse [.name "a", .lpar, .name "b", .rpar]).isSome

#print axioms parse_fullParen
#print axioms parseSum_fullParen
#print axioms parse_wf
#print axioms wfTree_iff_parse
#print axioms fullParen_injective
#print axioms eval_fullParen
#print axioms eval_fullParen_deferred
#print axioms eval_fullParen_any

end Madx
