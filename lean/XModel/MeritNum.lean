import XModel.Opt
/-!
# The residual computation of the merit function (C09 / C10 / C15)

`MeritFunctionForMatch.__call__` (`xdeps/optimize/optimize.py`), the part AFTER the actions ran, statement by statement,
over an abstract record of arithmetic operations:

```
err_values = transformed_res_values - target_values            errRaw
tols[ii] = tt.tol                                              (the CURRENT attribute of every target, read at this call)
targets_within_tol = np.abs(err_values) < tols                 withinFlags
err_values[~self.mask_output] = 0                              maskAssign     (an ASSIGNMENT of zero, no arithmetic)
if np.all(targets_within_tol | (~self.mask_output)):           lastWithin
    if zero_if_met: err_values *= 0                            zeroMet        (this one IS a product, as in the code)
    self.last_point_within_tol = True
else: self.last_point_within_tol = False
if tt.weight is not None: err_values[ii] *= tt.weight          scaleW         (the CURRENT attribute; every target, also a disabled one)
out_scalar = np.sum(err_values * err_values)                   penalty2
return out_scalar if return_scalar else np.array(err_values)   output
```

The driver instantiates `NumOps` with IEEE doubles and recomputes `residuals` / `lastWithin` for every recorded evaluation
of the real merit function from the raw target values and the `value` / `tol` / `weight` / `active` attributes of the
`Target` objects as they are at that moment, bit for bit (suite `opt`, op `merit`, fields `resid_ok` / `within_ok`).  The
theorems below are about any `R` and any operations: masking is structural, so no IEEE reasoning is needed — a disabled
target may hold NaN, an infinity, anything.

NOT modelled (the generated problems do not use them; the worker records nothing for such a call):
`optimize_log` (the residual of such a target is replaced by a difference of logarithms), `transform` (a per-target map
applied to the raw value before the subtraction; `res` below is the transformed value), the branch of an action that
returns the string `"failed"` (a constant vector of `1e100`, `last_point_within_tol` left as it was).
`np.sum` is modelled as the left fold from zero: numpy adds in this order for fewer than 8 entries (pairwise blocks
above; the driver compares the penalty only below 8 targets).

Lists of different lengths are truncated to the shortest by `zipWith` (numpy would raise); every statement below is per
index `i` at which all the lists it mentions are defined, so no length hypothesis is needed except where two inputs are
compared.
-/
namespace MeritNum

/-- the arithmetic the residual computation uses (`OptNum.Ops` has no addition; this record is separate) -/
structure NumOps (R : Type) where
  sub : R → R → R
  mul : R → R → R
  add : R → R → R
  abs : R → R
  lt : R → R → Bool
  zero : R

variable {R : Type}

/-- `err_values = transformed_res_values - target_values` -/
def errRaw (o : NumOps R) (res tar : List R) : List R := List.zipWith o.sub res tar

/-- `targets_within_tol = np.abs(err_values) < tols` (stored as `last_targets_within_tol`: every target, also the
    disabled ones) -/
def withinFlags (o : NumOps R) (res tar tols : List R) : List Bool :=
  List.zipWith (fun e t => o.lt (o.abs e) t) (errRaw o res tar) tols

/-- `err_values[~self.mask_output] = 0`: the entries of the disabled targets are REPLACED by zero -/
def maskAssign (o : NumOps R) (err : List R) (mask : List Bool) : List R :=
  List.zipWith (fun e m => if m then e else o.zero) err mask

/-- `np.all(targets_within_tol | (~self.mask_output))`, the value `last_point_within_tol` gets -/
def lastWithin (o : NumOps R) (res tar tols : List R) (mask : List Bool) : Bool :=
  (List.zipWith (fun w m => w || !m) (withinFlags o res tar tols) mask).all id

/-- `if zero_if_met: err_values *= 0` inside the branch of a matched point -/
def zeroMet (o : NumOps R) (zeroIfMet lw : Bool) (err : List R) : List R :=
  if zeroIfMet && lw then err.map (fun e => o.mul e o.zero) else err

/-- `if tt.weight is not None: err_values[ii] *= tt.weight` -/
def scaleW (o : NumOps R) (w : Option R) (e : R) : R :=
  match w with
  | none => e
  | some w => o.mul e w

/-- the returned vector (`return_scalar` false) -/
def residuals (o : NumOps R) (res tar tols : List R) (weights : List (Option R)) (mask : List Bool)
    (zeroIfMet : Bool) : List R :=
  List.zipWith (fun e w => scaleW o w e)
    (zeroMet o zeroIfMet (lastWithin o res tar tols mask) (maskAssign o (errRaw o res tar) mask)) weights

/-- `np.sum(v * v)` -/
def sumSq (o : NumOps R) (v : List R) : R := (v.map (fun e => o.mul e e)).foldl o.add o.zero

/-- `out_scalar = np.sum(err_values * err_values)` (the logged penalty is its square root) -/
def penalty2 (o : NumOps R) (res tar tols : List R) (weights : List (Option R)) (mask : List Bool)
    (zeroIfMet : Bool) : R :=
  sumSq o (residuals o res tar tols weights mask zeroIfMet)

/-- what the call returns -/
inductive Out (R : Type) where
  | vector (v : List R)
  | scalar (x : R)

def output (o : NumOps R) (res tar tols : List R) (weights : List (Option R)) (mask : List Bool)
    (zeroIfMet returnScalar : Bool) : Out R :=
  if returnScalar then .scalar (penalty2 o res tar tols weights mask zeroIfMet)
  else .vector (residuals o res tar tols weights mask zeroIfMet)

/-! ### entry by entry -/

/-- entry `i` of the returned vector as a function of the `i`-th raw value, wanted value, weight and flag (and of the
    two Booleans that are global to the call) -/
def entry (o : NumOps R) (zeroIfMet lw : Bool) (r t : R) (w : Option R) (m : Bool) : R :=
  scaleW o w
    (if zeroIfMet && lw then o.mul (if m then o.sub r t else o.zero) o.zero
     else (if m then o.sub r t else o.zero))

theorem residuals_getElem? (o : NumOps R) (res tar tols : List R) (weights : List (Option R)) (mask : List Bool)
    (zim : Bool) (i : Nat) :
    (residuals o res tar tols weights mask zim)[i]? =
      match res[i]?, tar[i]?, mask[i]?, weights[i]? with
      | some r, some t, some m, some w => some (entry o zim (lastWithin o res tar tols mask) r t w m)
      | _, _, _, _ => none := by
  unfold residuals zeroMet maskAssign errRaw entry
  cases hr : res[i]? <;> cases ht : tar[i]? <;> cases hm : mask[i]? <;> cases hw : weights[i]? <;>
    cases hz : (zim && lastWithin o res tar tols mask) <;>
    simp [List.getElem?_zipWith, hr, ht, hm, hw]

theorem withinFlags_getElem? (o : NumOps R) (res tar tols : List R) (i : Nat) :
    (withinFlags o res tar tols)[i]? =
      match res[i]?, tar[i]?, tols[i]? with
      | some r, some t, some tl => some (o.lt (o.abs (o.sub r t)) tl)
      | _, _, _ => none := by
  unfold withinFlags errRaw
  cases hr : res[i]? <;> cases ht : tar[i]? <;> cases hl : tols[i]? <;>
    simp [List.getElem?_zipWith, hr, ht, hl]

theorem all_id_iff (l : List Bool) : l.all id = true ↔ ∀ (i : Nat) (b : Bool), l[i]? = some b → b = true := by
  rw [List.all_eq_true]
  constructor
  · intro h i b hb
    exact h b (List.mem_iff_getElem?.mpr ⟨i, hb⟩)
  · intro h x hx
    obtain ⟨i, hi⟩ := List.mem_iff_getElem?.mp hx
    exact h i x hi

/-- **(b)** the meaning of a matched point: `last_point_within_tol` is set iff every ACTIVE target is within the
    tolerance it has NOW (`tols` is the list of the `tol` attributes read at this call) of its wanted value -/
theorem lastWithin_iff (o : NumOps R) (res tar tols : List R) (mask : List Bool) :
    lastWithin o res tar tols mask = true ↔
      ∀ (i : Nat) (r t tl : R), mask[i]? = some true → res[i]? = some r → tar[i]? = some t → tols[i]? = some tl →
        o.lt (o.abs (o.sub r t)) tl = true := by
  unfold lastWithin
  rw [all_id_iff]
  constructor
  · intro h i r t tl hm hr ht hl
    have := h i (o.lt (o.abs (o.sub r t)) tl || !true)
      (by simp [List.getElem?_zipWith, withinFlags_getElem?, hm, hr, ht, hl])
    simpa using this
  · intro h i b hb
    rw [List.getElem?_zipWith, withinFlags_getElem?] at hb
    cases hr : res[i]? with
    | none => simp [hr] at hb
    | some r =>
      cases ht : tar[i]? with
      | none => simp [hr, ht] at hb
      | some t =>
        cases hl : tols[i]? with
        | none => simp [hr, ht, hl] at hb
        | some tl =>
          cases hm : mask[i]? with
          | none => simp [hr, ht, hl, hm] at hb
          | some m =>
            simp only [hr, ht, hl, hm, Option.some.injEq] at hb
            cases m with
            | false => simp at hb; exact hb
            | true =>
              have := h i r t tl hm hr ht hl
              simp [this] at hb
              exact hb

/-- the index form with equal lengths `n` -/
theorem lastWithin_iff_of_length (o : NumOps R) (res tar tols : List R) (mask : List Bool) (n : Nat)
    (hr : res.length = n) (ht : tar.length = n) (hl : tols.length = n) (hm : mask.length = n) :
    lastWithin o res tar tols mask = true ↔
      ∀ i (hi : i < n), mask[i]'(hm ▸ hi) = true →
        o.lt (o.abs (o.sub (res[i]'(hr ▸ hi)) (tar[i]'(ht ▸ hi)))) (tols[i]'(hl ▸ hi)) = true := by
  rw [lastWithin_iff]
  constructor
  · intro h i hi ha
    subst hr
    exact h i _ _ _ (by rw [List.getElem?_eq_getElem (hm ▸ hi), ha]) (List.getElem?_eq_getElem hi)
      (List.getElem?_eq_getElem (ht ▸ hi)) (List.getElem?_eq_getElem (hl ▸ hi))
  · intro h i r t tl hma hre hta htl
    subst hr
    have hi : i < res.length := by
      cases Nat.lt_or_ge i res.length with
      | inl h => exact h
      | inr h => rw [List.getElem?_eq_none h] at hre; cases hre
    rw [List.getElem?_eq_getElem hi] at hre
    rw [List.getElem?_eq_getElem (ht ▸ hi)] at hta
    rw [List.getElem?_eq_getElem (hl ▸ hi)] at htl
    rw [List.getElem?_eq_getElem (hm ▸ hi)] at hma
    cases hre; cases hta; cases htl
    exact h i hi (Option.some.inj hma)

/-! ### (a) a disabled target has no influence -/

theorem lastWithin_congr (o : NumOps R) (res₁ res₂ tar tols : List R) (mask : List Bool)
    (h : ∀ i : Nat, mask[i]? = some true → res₁[i]? = res₂[i]?) :
    lastWithin o res₁ tar tols mask = lastWithin o res₂ tar tols mask := by
  rw [Bool.eq_iff_iff, lastWithin_iff, lastWithin_iff]
  constructor
  · intro H i r t tl hm hr ht hl
    exact H i r t tl hm (by rw [h i hm]; exact hr) ht hl
  · intro H i r t tl hm hr ht hl
    exact H i r t tl hm (by rw [← h i hm]; exact hr) ht hl

theorem getElem?_isSome_of_length_eq {α : Type} (l₁ l₂ : List α) (hlen : l₁.length = l₂.length) (i : Nat) :
    l₁[i]? = none ↔ l₂[i]? = none := by
  rw [List.getElem?_eq_none_iff, List.getElem?_eq_none_iff, hlen]

/-- **(a)** two evaluations that agree on the wanted values, tolerances, weights, flags and `zero_if_met`, and on the
    raw value of every ACTIVE target, return the same vector, set the same `last_point_within_tol` and have the same
    penalty — whatever the raw values of the disabled targets are (NaN, infinities, anything: `R` and its operations
    are arbitrary) -/
theorem disabled_target_no_influence (o : NumOps R) (res₁ res₂ tar tols : List R) (weights : List (Option R))
    (mask : List Bool) (zim : Bool) (hlen : res₁.length = res₂.length)
    (h : ∀ i : Nat, mask[i]? = some true → res₁[i]? = res₂[i]?) :
    residuals o res₁ tar tols weights mask zim = residuals o res₂ tar tols weights mask zim ∧
    lastWithin o res₁ tar tols mask = lastWithin o res₂ tar tols mask ∧
    penalty2 o res₁ tar tols weights mask zim = penalty2 o res₂ tar tols weights mask zim := by
  have hlw := lastWithin_congr o res₁ res₂ tar tols mask h
  have hres : residuals o res₁ tar tols weights mask zim = residuals o res₂ tar tols weights mask zim := by
    apply List.ext_getElem?
    intro i
    rw [residuals_getElem?, residuals_getElem?, hlw]
    cases hr1 : res₁[i]? with
    | none =>
      have := (getElem?_isSome_of_length_eq res₁ res₂ hlen i).mp hr1
      rw [this]
    | some r1 =>
      cases hr2 : res₂[i]? with
      | none =>
        have := (getElem?_isSome_of_length_eq res₁ res₂ hlen i).mpr hr2
        rw [this] at hr1; cases hr1
      | some r2 =>
        cases ht : tar[i]? with
        | none => rfl
        | some t =>
          cases hm : mask[i]? with
          | none => rfl
          | some m =>
            cases hw : weights[i]? with
            | none => rfl
            | some w =>
              cases m with
              | true =>
                have := h i hm
                rw [hr1, hr2] at this
                cases this
                rfl
              | false => simp [entry]
  exact ⟨hres, hlw, by unfold penalty2; rw [hres]⟩

/-! ### (c) what an entry of the returned vector is -/

/-- an ACTIVE target, when the vector is not zeroed (`zero_if_met` off, or the point not matched): the residual is
    `(res[i] - tar[i]) * weight[i]` with the weight the target has NOW, unscaled when the weight is `None` -/
theorem residual_of_active (o : NumOps R) (res tar tols : List R) (weights : List (Option R)) (mask : List Bool)
    (zim : Bool) (i : Nat) (r t : R) (w : Option R)
    (hr : res[i]? = some r) (ht : tar[i]? = some t) (hw : weights[i]? = some w) (hm : mask[i]? = some true)
    (hz : (zim && lastWithin o res tar tols mask) = false) :
    (residuals o res tar tols weights mask zim)[i]? =
      some (scaleW o w (o.sub r t)) := by
  rw [residuals_getElem?, hr, ht, hw, hm]
  simp [entry, hz]

/-- an ACTIVE target in general (the zeroing of a matched point under `zero_if_met` is the product `e * 0`) -/
theorem residual_of_active_gen (o : NumOps R) (res tar tols : List R) (weights : List (Option R)) (mask : List Bool)
    (zim : Bool) (i : Nat) (r t : R) (w : Option R)
    (hr : res[i]? = some r) (ht : tar[i]? = some t) (hw : weights[i]? = some w) (hm : mask[i]? = some true) :
    (residuals o res tar tols weights mask zim)[i]? =
      some (scaleW o w (if zim && lastWithin o res tar tols mask then o.mul (o.sub r t) o.zero else o.sub r t)) := by
  rw [residuals_getElem?, hr, ht, hw, hm]
  simp [entry]

/-- a DISABLED target: the entry is built from the constant zero and the weight alone — the raw value does not occur.
    (As in the code, the weight is applied to every entry: the entry is `0 * weight`, and `0 * 0 * weight` when a
    matched point is zeroed.) -/
theorem residual_of_disabled_gen (o : NumOps R) (res tar tols : List R) (weights : List (Option R)) (mask : List Bool)
    (zim : Bool) (i : Nat) (r t : R) (w : Option R)
    (hr : res[i]? = some r) (ht : tar[i]? = some t) (hw : weights[i]? = some w) (hm : mask[i]? = some false) :
    (residuals o res tar tols weights mask zim)[i]? =
      some (scaleW o w (if zim && lastWithin o res tar tols mask then o.mul o.zero o.zero else o.zero)) := by
  rw [residuals_getElem?, hr, ht, hw, hm]
  simp [entry]

/-- a DISABLED target without a weight, the vector not zeroed: the entry is literally `zero` -/
theorem residual_of_disabled (o : NumOps R) (res tar tols : List R) (weights : List (Option R)) (mask : List Bool)
    (zim : Bool) (i : Nat) (r t : R)
    (hr : res[i]? = some r) (ht : tar[i]? = some t) (hw : weights[i]? = some none) (hm : mask[i]? = some false)
    (hz : (zim && lastWithin o res tar tols mask) = false) :
    (residuals o res tar tols weights mask zim)[i]? = some o.zero := by
  rw [residual_of_disabled_gen o res tar tols weights mask zim i r t none hr ht hw hm]
  simp [scaleW, hz]

/-- a DISABLED target over operations in which zero absorbs on the left (`0 * x = 0`: any ring; NOT IEEE doubles,
    where `0 * inf` is NaN — a disabled target with an infinite weight poisons the penalty in the code as it does
    here): the entry is literally `zero`, whatever the weight and `zero_if_met` -/
theorem residual_of_disabled_of_zero_mul (o : NumOps R) (res tar tols : List R) (weights : List (Option R))
    (mask : List Bool) (zim : Bool) (i : Nat) (r t : R) (w : Option R) (h0 : ∀ x, o.mul o.zero x = o.zero)
    (hr : res[i]? = some r) (ht : tar[i]? = some t) (hw : weights[i]? = some w) (hm : mask[i]? = some false) :
    (residuals o res tar tols weights mask zim)[i]? = some o.zero := by
  rw [residual_of_disabled_gen o res tar tols weights mask zim i r t w hr ht hw hm]
  cases w <;> cases (zim && lastWithin o res tar tols mask) <;> simp [scaleW, h0]

/-- the penalty is the sum of the squares of the returned entries — hence a function of the CURRENT weights -/
theorem penalty2_eq (o : NumOps R) (res tar tols : List R) (weights : List (Option R)) (mask : List Bool)
    (zim : Bool) :
    penalty2 o res tar tols weights mask zim =
      ((residuals o res tar tols weights mask zim).map (fun e => o.mul e e)).foldl o.add o.zero := rfl

theorem residuals_length (o : NumOps R) (res tar tols : List R) (weights : List (Option R)) (mask : List Bool)
    (zim : Bool) (n : Nat) (hr : res.length = n) (ht : tar.length = n) (hw : weights.length = n)
    (hm : mask.length = n) : (residuals o res tar tols weights mask zim).length = n := by
  unfold residuals zeroMet maskAssign errRaw
  cases (zim && lastWithin o res tar tols mask) <;> simp [List.length_zipWith, hr, ht, hw, hm]

/-! ### (d) the variant that masks by multiplication, and a model in which (a) fails for it -/

/-- the seeded variant: `err_values = err_values * mask_output` (`one` / `zero` are what `True` / `False` become) in
    place of the assignment; everything else as in `residuals` -/
def residualsByMultiplication (o : NumOps R) (one : R) (res tar tols : List R) (weights : List (Option R))
    (mask : List Bool) (zeroIfMet : Bool) : List R :=
  List.zipWith (fun e w => scaleW o w e)
    (zeroMet o zeroIfMet (lastWithin o res tar tols mask)
      (List.zipWith (fun e m => o.mul e (if m then one else o.zero)) (errRaw o res tar) mask)) weights

def penalty2ByMultiplication (o : NumOps R) (one : R) (res tar tols : List R) (weights : List (Option R))
    (mask : List Bool) (zeroIfMet : Bool) : R :=
  sumSq o (residualsByMultiplication o one res tar tols weights mask zeroIfMet)

/-- integers with one extra absorbing element (`none` plays NaN: every operation on it gives it back, every
    comparison with it is false) -/
def nanInt : NumOps (Option Int) where
  sub a b := match a, b with | some x, some y => some (x - y) | _, _ => none
  mul a b := match a, b with | some x, some y => some (x * y) | _, _ => none
  add a b := match a, b with | some x, some y => some (x + y) | _, _ => none
  abs a := match a with | some x => some (if x < 0 then -x else x) | none => none
  lt a b := match a, b with | some x, some y => decide (x < y) | _, _ => false
  zero := some 0

namespace Counter
/-- two targets, the second one disabled; the two evaluations differ only in the raw value of the disabled target:
    a number in one, NaN in the other -/
def tar : List (Option Int) := [some 1, some 0]
def tols : List (Option Int) := [some 1, some 1]
def weights : List (Option (Option Int)) := [none, none]
def mask : List Bool := [true, false]
def resNum : List (Option Int) := [some 3, some 5]
def resNan : List (Option Int) := [some 3, none]

theorem agree_on_active : ∀ i : Nat, mask[i]? = some true → resNum[i]? = resNan[i]? := by
  intro i h
  match i with
  | 0 => rfl
  | 1 => simp [mask] at h
  | (k+2) => simp [mask] at h

/-- the assignment form is blind to the disabled entry (an instance of `disabled_target_no_influence`) … -/
theorem assignment_blind :
    residuals nanInt resNum tar tols weights mask false = [some 2, some 0] ∧
    residuals nanInt resNan tar tols weights mask false = [some 2, some 0] ∧
    penalty2 nanInt resNan tar tols weights mask false = some 4 := by decide

/-- … the multiplication form is not: the NaN of the disabled target reaches the returned vector and the penalty -/
theorem multiplication_poisoned :
    residualsByMultiplication nanInt (some 1) resNum tar tols weights mask false = [some 2, some 0] ∧
    residualsByMultiplication nanInt (some 1) resNan tar tols weights mask false = [some 2, none] ∧
    penalty2ByMultiplication nanInt (some 1) resNum tar tols weights mask false = some 4 ∧
    penalty2ByMultiplication nanInt (some 1) resNan tar tols weights mask false = none := by decide
end Counter

/-- **(d)** the statement of `disabled_target_no_influence` is FALSE of the multiplication variant: there are
    operations and two inputs that agree on every active target and on everything else, with different returned
    vectors and different penalties -/
theorem disabled_target_influences_multiplication_variant :
    ¬ (∀ (o : NumOps (Option Int)) (one : Option Int) (res₁ res₂ tar tols : List (Option Int))
        (weights : List (Option (Option Int))) (mask : List Bool) (zim : Bool), res₁.length = res₂.length →
        (∀ i : Nat, mask[i]? = some true → res₁[i]? = res₂[i]?) →
        residualsByMultiplication o one res₁ tar tols weights mask zim =
          residualsByMultiplication o one res₂ tar tols weights mask zim ∧
        penalty2ByMultiplication o one res₁ tar tols weights mask zim =
          penalty2ByMultiplication o one res₂ tar tols weights mask zim) := by
  intro H
  have := (H nanInt (some 1) Counter.resNum Counter.resNan Counter.tar Counter.tols Counter.weights Counter.mask false
    rfl Counter.agree_on_active).1
  rw [Counter.multiplication_poisoned.1, Counter.multiplication_poisoned.2.1] at this
  exact absurd this (by decide)

/-- exact integer arithmetic (used by the non-vacuity examples of the property files) -/
def intOps : NumOps Int where
  sub a b := a - b
  mul a b := a * b
  add a b := a + b
  abs a := if a < 0 then -a else a
  lt a b := decide (a < b)
  zero := 0

/-! ### the skeleton's tolerance predicate

`Opt.Cfg.within : (Nat → R) → (Nat → Bool) → Bool` is a free field of the control skeleton (`XModel/Opt.lean`): NONE of
`Opt`'s theorems assumes anything about it — `Coh.flag` only records that the stored flag IS `c.within` of the user's
function at the knobs in the container, and `solve_matched` hands that equation back.  So every instance is admissible;
the one below is the code's, and with it "matched" unfolds to `lastWithin_iff`. -/

/-- `within` as the merit function computes it, for `nt` targets with wanted values `tar` and the tolerances `tols` the
    targets have during the call -/
def withinOf (o : NumOps R) (nt : Nat) (tar tols : List R) : (Nat → R) → (Nat → Bool) → Bool :=
  fun res tAct => lastWithin o ((List.range nt).map res) tar tols ((List.range nt).map tAct)

theorem getElem?_map_range {α : Type} (f : Nat → α) (n i : Nat) :
    ((List.range n).map f)[i]? = if i < n then some (f i) else none := by
  by_cases h : i < n
  · simp [h]
  · simp [h]

theorem withinOf_iff (o : NumOps R) (nt : Nat) (tar tols : List R) (res : Nat → R) (tAct : Nat → Bool) :
    withinOf o nt tar tols res tAct = true ↔
      ∀ (i : Nat) (t tl : R), i < nt → tAct i = true → tar[i]? = some t → tols[i]? = some tl →
        o.lt (o.abs (o.sub (res i) t)) tl = true := by
  unfold withinOf
  rw [lastWithin_iff]
  constructor
  · intro h i t tl hi ha ht hl
    exact h i (res i) t tl (by rw [getElem?_map_range]; simp [hi, ha]) (by rw [getElem?_map_range]; simp [hi]) ht hl
  · intro h i r t tl hm hr ht hl
    rw [getElem?_map_range] at hm hr
    by_cases hi : i < nt
    · simp only [hi, if_true, Option.some.injEq] at hm hr
      subst hr
      exact h i t tl hi hm ht hl
    · simp [hi] at hm

/-- C09, first clause, with the tolerance predicate unfolded: a normal return of `solve` (with `assert_within_tol`)
    leaves knobs at which the user's function puts every active target within its tolerance of its wanted value -/
theorem solve_matched_within (o : NumOps R) (nt : Nat) (tar tols : List R) (c : Opt.Cfg R)
    (hc : c.within = withinOf o nt tar tols) (its : List (Opt.Iter R)) (tb : Option Nat) (s s' : Opt.St R)
    (hassert : c.assertWithinTol = true) (h : Opt.solve c its tb s = (.ok (), s')) :
    ∃ res, c.f s'.knobs = some res ∧
      ∀ (i : Nat) (t tl : R), i < nt → s'.tAct i = true → tar[i]? = some t → tols[i]? = some tl →
        o.lt (o.abs (o.sub (res i) t)) tl = true := by
  obtain ⟨res, hf, hw⟩ := Opt.solve_matched c its tb s s' hassert h
  rw [hc] at hw
  exact ⟨res, hf, (withinOf_iff o nt tar tols res s'.tAct).mp hw⟩

end MeritNum
