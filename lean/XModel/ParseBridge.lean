import XModel.Parse
import XModel.ManagerC11
import XModel.ManagerLoad
/-!
# The bridge between the printed language (`Parse.Expr`) and the manager model's expressions (`Push.Expr`)

`Manager.dump` / `Manager.load` work on STRUCTURE (pairs `Path × Push.Expr`); the real `dump()` writes TEXT
(`repr(ref)`, `repr(expr)`) and the real `load` reads it back with `eval`.  `XModel/Parse.lean` models text as token
lists of its own expression type.  This file connects the two:

* `pathToParse`, `ofManager`   — how a ref / an expression of the manager model prints (as a `Parse.Expr`, whose
                                  token list is `Parse.print`);
* `refToPath`, `toManager`     — the partial inverse (`none` for calls, floats, operators the manager model does not
                                  have);
* `Printable`                  — the decidable fragment of `Push.Expr` that HAS a text which reads back: integer
                                  literals, rooted refs, the five binary and two unary operators `pyBin` / `pyUn`
                                  accept, no unary operator applied directly to a literal;
* `toManager_ofManager`, `wfarg_ofManager`, `read_print`  — translate ∘ parse ∘ print = identity on the fragment;
* `dumpText`, `loadText`, `loadText_dumpText`, `load_dump_through_text`  — C11's second sentence through TEXT;
* `apply_keeps_printable`, `history_printable`  — the fragment is closed under the manager's API.

Outside the bridge (they stay on the `Parse` side only): calls, builtins, keyword arguments, float literals, the
other Python operators (`/`, `**`, `~`, comparisons …).  Outside on the manager side: the literals `nan`, `None`
and container values (they have no text that reads back as the same literal), unrooted paths.
-/
namespace ParseBridge
open Store Manager

/-! ### keys, paths -/

def keyToParse : Store.Key → Parse.Key
  | .str s => .str s
  | .int i => .int i

def keyOfParse : Parse.Key → Store.Key
  | .str s => .str s
  | .int i => .int i

theorem keyOfParse_keyToParse (k : Store.Key) : keyOfParse (keyToParse k) = k := by cases k <;> rfl
theorem keyToParse_keyOfParse (k : Parse.Key) : keyToParse (keyOfParse k) = k := by cases k <;> rfl

/-- the trailers of a ref: `acc[k]` for an item step, `acc.a` for an attribute step -/
def stepsToParse (acc : Parse.Expr) : List Step → Parse.Expr
  | [] => acc
  | .item k :: rest => stepsToParse (.item acc (keyToParse k)) rest
  | .attr a :: rest => stepsToParse (.attr acc a) rest

/-- how a ref prints: the container label is a bare name, every further step a subscript or an attribute access
    (`[d, 'a']` ↦ `d['a']`, `[e, 'q1', .l]` ↦ `e['q1'].l`).  A path that does not start with a label (the model's
    ids of function tasks, the empty path) is not a ref of the library and has no text; it is sent to the name `?`
    followed by its steps (as `Codec.pathToJson` does) and is excluded by `rooted`. -/
def pathToParse : Path → Parse.Expr
  | .item (.str l) :: rest => stepsToParse (.root l) rest
  | p => stepsToParse (.root "?") p

/-- the path of a printed ref; `none` for anything that is not a name followed by subscripts / attributes -/
def refToPath : Parse.Expr → Option Path
  | .root l => some [.item (.str l)]
  | .item o k => (refToPath o).map (· ++ [.item (keyOfParse k)])
  | .attr o a => (refToPath o).map (· ++ [.attr a])
  | _ => none

/-! ### operators: the names of the manager model ↔ the operator tokens of the text -/

/-- exactly the binary operators `Manager.pyBinRaw` accepts -/
def binTable : List (String × String) :=
  [("Add", "+"), ("Sub", "-"), ("Mul", "*"), ("Floordiv", "//"), ("Mod", "%")]

/-- exactly the unary operators `Manager.pyUn` accepts -/
def unTable : List (String × String) := [("Neg", "-"), ("Pos", "+")]

def tokOf (tbl : List (String × String)) (name : String) : Option String :=
  (tbl.find? (fun x => x.1 == name)).map (·.2)

/-- the table read from right to left -/
def nameOf (tbl : List (String × String)) (tok : String) : Option String := tokOf (tbl.map Prod.swap) tok

def binTok (op : String) : Option String := tokOf binTable op
def binName (tok : String) : Option String := nameOf binTable tok
def unTok (op : String) : Option String := tokOf unTable op
def unName (tok : String) : Option String := nameOf unTable tok

/-! ### the two translations -/

/-- how an expression of the manager model prints.  Integer literals, refs and the operators of the two tables are
    the fragment with a faithful text (`Printable`).  Outside it the function is still total: `nan` and `None` go to
    the NAMES `nan` / `None` (that is what Python's tokenizer makes of `repr(float('nan'))` and `repr(None)` — and
    why they do not read back as literals), a container literal to the name `?`, an unknown operator name to itself. -/
def ofManager : Push.Expr → Parse.Expr
  | .lit (.int i) => .lit i
  | .lit .nan => .root "nan"
  | .lit .none => .root "None"
  | .lit _ => .root "?"
  | .ref p => pathToParse p
  | .bin op l r => .bin ((binTok op).getD op) (ofManager l) (ofManager r)
  | .un op a => .un ((unTok op).getD op) (ofManager a)

/-- reading a printed expression as an expression of the manager model; `none` outside the fragment (calls, keyword
    calls, float literals, operator tokens without a name in the tables) -/
def toManager : Parse.Expr → Option Push.Expr
  | .lit i => some (.lit (.int i))
  | .root l => (refToPath (.root l)).map Push.Expr.ref
  | .item o k => (refToPath (.item o k)).map Push.Expr.ref
  | .attr o a => (refToPath (.attr o a)).map Push.Expr.ref
  | .bin op l r =>
    (binName op).bind fun o => (toManager l).bind fun l' => (toManager r).bind fun r' => some (.bin o l' r')
  | .un op a => (unName op).bind fun o => (toManager a).bind fun a' => some (.un o a')
  | .call _ _ => none
  | .flit _ _ => none
  | .callkw _ _ _ => none

/-! ### the fragment -/

def isLit : Push.Expr → Bool
  | .lit _ => true
  | _ => false

/-- the expressions that have a text which reads back as themselves -/
def printableB : Push.Expr → Bool
  | .lit (.int _) => true
  | .lit _ => false
  | .ref p => rooted p
  | .bin op l r => (binTok op).isSome && printableB l && printableB r
  | .un op a => (unTok op).isSome && !isLit a && printableB a

/-- `Printable e`: integer literals; refs that start with a container label; `+ - * // %` of printable operands;
    unary `-` / `+` of a printable operand that is NOT a literal (Python folds `-3` into the literal, and the text
    `(-3)` reads back as the literal `-3`, not as a negation node — see the examples) -/
def Printable (e : Push.Expr) : Prop := printableB e = true

instance (e : Push.Expr) : Decidable (Printable e) := by unfold Printable; infer_instance

/-! ### lemmas: paths -/

theorem stepsToParse_append (a b : List Step) : ∀ acc, stepsToParse acc (a ++ b) = stepsToParse (stepsToParse acc a) b := by
  induction a with
  | nil => intro acc; rfl
  | cons s a ih =>
    intro acc
    cases s with
    | item k => exact ih _
    | attr x => exact ih _

theorem refToPath_stepsToParse (steps : List Step) : ∀ acc,
    refToPath (stepsToParse acc steps) = (refToPath acc).map (· ++ steps) := by
  induction steps with
  | nil => intro acc; simp [stepsToParse]
  | cons s rest ih =>
    intro acc
    cases s with
    | item k =>
      simp only [stepsToParse, ih, refToPath, keyOfParse_keyToParse, Option.map_map]
      congr 1; funext q; simp
    | attr x =>
      simp only [stepsToParse, ih, refToPath, Option.map_map]
      congr 1; funext q; simp

/-- the printed form of a rooted path reads back as the path -/
theorem refToPath_pathToParse (p : Path) (h : rooted p = true) : refToPath (pathToParse p) = some p := by
  obtain ⟨l, rest, rfl⟩ := (rooted_iff p).1 h
  simp [pathToParse, refToPath_stepsToParse, refToPath]

/-- conversely, whatever reads as a path is the printed form of that path, and the path is rooted -/
theorem pathToParse_refToPath : ∀ (x : Parse.Expr) (p : Path), refToPath x = some p → pathToParse p = x ∧ rooted p = true
  | .root l, p, h => by
    simp only [refToPath, Option.some.injEq] at h; subst h; exact ⟨rfl, rfl⟩
  | .item o k, p, h => by
    simp only [refToPath, Option.map_eq_some_iff] at h
    obtain ⟨q, hq, rfl⟩ := h
    obtain ⟨h1, h2⟩ := pathToParse_refToPath o q hq
    obtain ⟨l, rest, rfl⟩ := (rooted_iff q).1 h2
    refine ⟨?_, rfl⟩
    simp only [pathToParse] at h1
    simp only [List.cons_append, pathToParse, stepsToParse_append, h1, stepsToParse, keyToParse_keyOfParse]
  | .attr o a, p, h => by
    simp only [refToPath, Option.map_eq_some_iff] at h
    obtain ⟨q, hq, rfl⟩ := h
    obtain ⟨h1, h2⟩ := pathToParse_refToPath o q hq
    obtain ⟨l, rest, rfl⟩ := (rooted_iff q).1 h2
    refine ⟨?_, rfl⟩
    simp only [pathToParse] at h1
    simp only [List.cons_append, pathToParse, stepsToParse_append, h1, stepsToParse]
  | .lit _, _, h => by simp [refToPath] at h
  | .bin _ _ _, _, h => by simp [refToPath] at h
  | .un _ _, _, h => by simp [refToPath] at h
  | .call _ _, _, h => by simp [refToPath] at h
  | .flit _ _, _, h => by simp [refToPath] at h
  | .callkw _ _ _, _, h => by simp [refToPath] at h

theorem toManager_of_ref (x : Parse.Expr) (p : Path) (h : refToPath x = some p) : toManager x = some (.ref p) := by
  cases x <;> simp_all [toManager, refToPath]

/-! ### lemmas: operator tables -/

theorem tokOf_cons (x y : String) (rest : List (String × String)) (a : String) :
    tokOf ((x, y) :: rest) a = if x = a then some y else tokOf rest a := by
  unfold tokOf
  by_cases h : x = a
  · rw [List.find?_cons_of_pos (by simpa using h)]; simp [h]
  · rw [List.find?_cons_of_neg (by simpa using h)]; simp [h]

theorem tokOf_swap : ∀ (tbl : List (String × String)), (tbl.map (·.2)).Nodup → ∀ a b, tokOf tbl a = some b →
    tokOf (tbl.map Prod.swap) b = some a
  | [], _, a, b, h => by simp [tokOf] at h
  | (x, y) :: rest, hn, a, b, h => by
    have hn' : y ∉ rest.map (·.2) ∧ (rest.map (·.2)).Nodup := by simpa [List.nodup_cons] using hn
    rw [tokOf_cons] at h
    rw [List.map_cons, show Prod.swap (x, y) = (y, x) from rfl, tokOf_cons]
    by_cases hx : x = a
    · subst hx
      simp only [if_true, Option.some.injEq] at h
      subst h
      simp
    · simp only [hx, if_false] at h
      have hb : b ∈ rest.map (·.2) := by
        simp only [tokOf, Option.map_eq_some_iff] at h
        obtain ⟨z, hz, rfl⟩ := h
        exact List.mem_map_of_mem (List.mem_of_find?_eq_some hz)
      have hy : y ≠ b := fun e => hn'.1 (e ▸ hb)
      simp only [hy, if_false]
      exact tokOf_swap rest hn'.2 a b h

theorem map_swap_swap (tbl : List (String × String)) : (tbl.map Prod.swap).map Prod.swap = tbl := by
  simp [List.map_map, Function.comp_def]

theorem binName_binTok (op t : String) (h : binTok op = some t) : binName t = some op :=
  tokOf_swap binTable (by decide) op t h
theorem binTok_binName (op t : String) (h : binName t = some op) : binTok op = some t := by
  have := tokOf_swap (binTable.map Prod.swap) (by decide) t op h
  rwa [map_swap_swap] at this
theorem unName_unTok (op t : String) (h : unTok op = some t) : unName t = some op :=
  tokOf_swap unTable (by decide) op t h
theorem unTok_unName (op t : String) (h : unName t = some op) : unTok op = some t := by
  have := tokOf_swap (unTable.map Prod.swap) (by decide) t op h
  rwa [map_swap_swap] at this

/-- the unary tokens of the bridge are unary operators of the printed language -/
theorem unTok_mem_unops (op t : String) (h : unTok op = some t) : t ∈ Parse.unops := by
  simp only [unTok, tokOf, Option.map_eq_some_iff] at h
  obtain ⟨z, hz, rfl⟩ := h
  have := List.mem_of_find?_eq_some hz
  simp only [unTable, List.mem_cons, List.not_mem_nil, or_false] at this
  rcases this with rfl | rfl <;> decide

/-! ### translate back ∘ translate = identity on the fragment -/

/-- **the bridge is faithful**: a printable expression of the manager model, written in the printed language and
    read back, is itself -/
theorem toManager_ofManager (e : Push.Expr) (h : Printable e) : toManager (ofManager e) = some e := by
  induction e with
  | lit v => cases v <;> simp_all [Printable, printableB, ofManager, toManager]
  | ref p => exact toManager_of_ref _ _ (refToPath_pathToParse p h)
  | bin op l r ihl ihr =>
    simp only [Printable, printableB, Bool.and_eq_true] at h
    obtain ⟨⟨ho, hl⟩, hr⟩ := h
    obtain ⟨t, ht⟩ := Option.isSome_iff_exists.1 ho
    simp [ofManager, toManager, ht, binName_binTok _ _ ht, ihl hl, ihr hr]
  | un op a ih =>
    simp only [Printable, printableB, Bool.and_eq_true] at h
    obtain ⟨⟨ho, _⟩, ha⟩ := h
    obtain ⟨t, ht⟩ := Option.isSome_iff_exists.1 ho
    simp [ofManager, toManager, ht, unName_unTok _ _ ht, ih ha]

/-- and conversely: whatever `toManager` reads is the printed form of the result (so `toManager` is injective on its
    domain) -/
theorem ofManager_toManager : ∀ (x : Parse.Expr) (e : Push.Expr), toManager x = some e → ofManager e = x
  | .lit i, e, h => by simp only [toManager, Option.some.injEq] at h; subst h; rfl
  | .root l, e, h => by
    simp only [toManager, Option.map_eq_some_iff] at h
    obtain ⟨p, hp, rfl⟩ := h
    exact (pathToParse_refToPath _ p hp).1
  | .item o k, e, h => by
    simp only [toManager, Option.map_eq_some_iff] at h
    obtain ⟨p, hp, rfl⟩ := h
    exact (pathToParse_refToPath _ p hp).1
  | .attr o a, e, h => by
    simp only [toManager, Option.map_eq_some_iff] at h
    obtain ⟨p, hp, rfl⟩ := h
    exact (pathToParse_refToPath _ p hp).1
  | .bin op l r, e, h => by
    simp only [toManager, Option.bind_eq_some_iff, Option.some.injEq] at h
    obtain ⟨o, ho, l', hl, r', hr, rfl⟩ := h
    simp [ofManager, binTok_binName _ _ ho, ofManager_toManager l l' hl, ofManager_toManager r r' hr]
  | .un op a, e, h => by
    simp only [toManager, Option.bind_eq_some_iff, Option.some.injEq] at h
    obtain ⟨o, ho, a', ha, rfl⟩ := h
    simp [ofManager, unTok_unName _ _ ho, ofManager_toManager a a' ha]
  | .call _ _, _, h => by simp [toManager] at h
  | .flit _ _, _, h => by simp [toManager] at h
  | .callkw _ _ _, _, h => by simp [toManager] at h

/-! ### the printed form is well formed, so `Parse.parse_print` applies -/

theorem wfpost_stepsToParse (steps : List Step) : ∀ acc, Parse.WFpost acc → Parse.WFpost (stepsToParse acc steps) := by
  induction steps with
  | nil => intro acc h; exact h
  | cons s rest ih =>
    intro acc h
    cases s with
    | item k => exact ih _ (by simpa [Parse.WFpost] using h)
    | attr a => exact ih _ (by simpa [Parse.WFpost] using h)

theorem wfpost_pathToParse (p : Path) : Parse.WFpost (pathToParse p) := by
  unfold pathToParse
  split <;> exact wfpost_stepsToParse _ _ (by simp [Parse.WFpost])

theorem wfarg_of_wfpost (e : Parse.Expr) (h : Parse.WFpost e) : Parse.WFarg e := by
  cases e <;> simp_all [Parse.WFpost, Parse.WFarg]

theorem wfarg_pathToParse (p : Path) : Parse.WFarg (pathToParse p) := wfarg_of_wfpost _ (wfpost_pathToParse p)

theorem wf_ofManager (e : Push.Expr) (h : Printable e) :
    Parse.WFarg (ofManager e) ∧ (isLit e = false → Parse.WFpost (ofManager e)) := by
  induction e with
  | lit v => cases v <;> simp_all [Printable, printableB, ofManager, Parse.WFarg, isLit]
  | ref p => exact ⟨wfarg_pathToParse p, fun _ => wfpost_pathToParse p⟩
  | bin op l r ihl ihr =>
    simp only [Printable, printableB, Bool.and_eq_true] at h
    obtain ⟨⟨_, hl⟩, hr⟩ := h
    have : Parse.WFarg (ofManager l) ∧ Parse.WFarg (ofManager r) := ⟨(ihl hl).1, (ihr hr).1⟩
    exact ⟨by simpa [ofManager, Parse.WFarg] using this, fun _ => by simpa [ofManager, Parse.WFpost] using this⟩
  | un op a ih =>
    simp only [Printable, printableB, Bool.and_eq_true, Bool.not_eq_true'] at h
    obtain ⟨⟨ho, hnl⟩, ha⟩ := h
    obtain ⟨t, ht⟩ := Option.isSome_iff_exists.1 ho
    have : t ∈ Parse.unops ∧ Parse.WFpost (ofManager a) := ⟨unTok_mem_unops _ _ ht, (ih ha).2 hnl⟩
    exact ⟨by simpa [ofManager, Parse.WFarg, ht] using this, fun _ => by simpa [ofManager, Parse.WFpost, ht] using this⟩

/-- the printed form of a printable expression is in the language of the round-trip theorem `Parse.parse_print` -/
theorem wfarg_ofManager (e : Push.Expr) (h : Printable e) : Parse.WFarg (ofManager e) := (wf_ofManager e h).1

/-- conversely: well-formed text that reads as an expression of the manager model reads as a PRINTABLE one; with
    `toManager_ofManager` / `ofManager_toManager` the two translations are mutually inverse bijections between the
    printable expressions and the well-formed printed expressions in the domain of `toManager` -/
theorem printable_of_toManager : ∀ (x : Parse.Expr) (e : Push.Expr), Parse.WFarg x → toManager x = some e →
    Printable e ∧ (Parse.WFpost x → isLit e = false)
  | .lit i, e, _, h => by
    simp only [toManager, Option.some.injEq] at h; subst h
    exact ⟨rfl, fun hp => by simp [Parse.WFpost] at hp⟩
  | .root l, e, _, h => by
    simp only [toManager, Option.map_eq_some_iff] at h
    obtain ⟨p, hp, rfl⟩ := h
    exact ⟨(pathToParse_refToPath _ p hp).2, fun _ => rfl⟩
  | .item o k, e, _, h => by
    simp only [toManager, Option.map_eq_some_iff] at h
    obtain ⟨p, hp, rfl⟩ := h
    exact ⟨(pathToParse_refToPath _ p hp).2, fun _ => rfl⟩
  | .attr o a, e, _, h => by
    simp only [toManager, Option.map_eq_some_iff] at h
    obtain ⟨p, hp, rfl⟩ := h
    exact ⟨(pathToParse_refToPath _ p hp).2, fun _ => rfl⟩
  | .bin op l r, e, hw, h => by
    simp only [toManager, Option.bind_eq_some_iff, Option.some.injEq] at h
    obtain ⟨o, ho, l', hl, r', hr, rfl⟩ := h
    have hw' : Parse.WFarg l ∧ Parse.WFarg r := by simpa [Parse.WFarg] using hw
    refine ⟨?_, fun _ => rfl⟩
    have h1 := (printable_of_toManager l l' hw'.1 hl).1
    have h2 := (printable_of_toManager r r' hw'.2 hr).1
    simp only [Printable] at h1 h2
    simp [Printable, printableB, binTok_binName _ _ ho, h1, h2]
  | .un op a, e, hw, h => by
    simp only [toManager, Option.bind_eq_some_iff, Option.some.injEq] at h
    obtain ⟨o, ho, a', ha, rfl⟩ := h
    have hw' : op ∈ Parse.unops ∧ Parse.WFpost a := by simpa [Parse.WFarg] using hw
    refine ⟨?_, fun _ => rfl⟩
    have h1 := printable_of_toManager a a' (wfarg_of_wfpost a hw'.2) ha
    have h2 := h1.2 hw'.2
    have h3 := h1.1
    simp only [Printable] at h3
    simp [Printable, printableB, unTok_unName _ _ ho, h2, h3]
  | .call _ _, _, _, h => by simp [toManager] at h
  | .flit _ _, _, _, h => by simp [toManager] at h
  | .callkw _ _ _, _, _, h => by simp [toManager] at h

/-! ### reading text: parse, then translate -/

/-- read the text of an expression: parse ALL tokens with the given fuel, then translate; `none` if the text does
    not parse, is not consumed entirely, or is outside the manager model's fragment -/
def readExpr (fuel : Nat) (toks : List Parse.Tok) : Option Push.Expr :=
  match Parse.parseExpr fuel toks with
  | some (x, []) => toManager x
  | _ => none

/-- read the text of a ref (the left-hand side of a line of the dump) -/
def readPath (fuel : Nat) (toks : List Parse.Tok) : Option Path :=
  match Parse.parseExpr fuel toks with
  | some (x, []) => refToPath x
  | _ => none

theorem readExpr_of_parse (fuel : Nat) (toks : List Parse.Tok) (x : Parse.Expr)
    (h : Parse.parseExpr fuel toks = some (x, [])) : readExpr fuel toks = toManager x := by
  unfold readExpr; rw [h]

theorem readPath_of_parse (fuel : Nat) (toks : List Parse.Tok) (x : Parse.Expr)
    (h : Parse.parseExpr fuel toks = some (x, [])) : readPath fuel toks = refToPath x := by
  unfold readPath; rw [h]

/-- **print, parse, translate = identity** (expressions): for all sufficiently large fuel, reading the printed
    tokens of a printable expression of the manager model gives the expression back -/
theorem read_print (e : Push.Expr) (h : Printable e) :
    Parse.Ev (fun n => readExpr n (Parse.print (ofManager e))) e := by
  obtain ⟨n0, hp⟩ := Parse.parse_print (ofManager e) (wfarg_ofManager e h)
  exact ⟨n0, fun n hn => by
    show readExpr n _ = some e
    rw [readExpr_of_parse n _ _ (hp n hn), toManager_ofManager e h]⟩

/-- **print, parse, translate = identity** (refs) -/
theorem readPath_print (p : Path) (h : rooted p = true) :
    Parse.Ev (fun n => readPath n (Parse.print (pathToParse p))) p := by
  obtain ⟨n0, hp⟩ := Parse.parse_print (pathToParse p) (wfarg_pathToParse p)
  exact ⟨n0, fun n hn => by
    show readPath n _ = some p
    rw [readPath_of_parse n _ _ (hp n hn), refToPath_pathToParse p h]⟩

/-- hence "the same value and the same dependencies": whatever is computed from the expression read back — its
    value in any manager state, the dependencies `ExprTask` declares for it — is what is computed from the original -/
theorem read_print_value_deps (s : MState) (e : Push.Expr) (h : Printable e) :
    Parse.Ev (fun n => (readExpr n (Parse.print (ofManager e))).map (fun e' => (evalE s e', exprDeps e')))
      (evalE s e, exprDeps e) := by
  obtain ⟨n0, h0⟩ := read_print e h
  exact ⟨n0, fun n hn => by
    have := h0 n hn
    simp only [this, Option.map_some]⟩

/-- the text determines the expression: two printable expressions with the same tokens are equal -/
theorem print_ofManager_injective (e₁ e₂ : Push.Expr) (h₁ : Printable e₁) (h₂ : Printable e₂)
    (h : Parse.print (ofManager e₁) = Parse.print (ofManager e₂)) : e₁ = e₂ := by
  have := Parse.print_injective _ _ (wfarg_ofManager e₁ h₁) (wfarg_ofManager e₂ h₂) h
  have a := toManager_ofManager e₁ h₁
  rw [this, toManager_ofManager e₂ h₂] at a
  exact (Option.some.inj a).symm

theorem print_pathToParse_injective (p₁ p₂ : Path) (h₁ : rooted p₁ = true) (h₂ : rooted p₂ = true)
    (h : Parse.print (pathToParse p₁) = Parse.print (pathToParse p₂)) : p₁ = p₂ := by
  have := Parse.print_injective _ _ (wfarg_pathToParse p₁) (wfarg_pathToParse p₂) h
  have a := refToPath_pathToParse p₁ h₁
  rw [this, refToPath_pathToParse p₂ h₂] at a
  exact (Option.some.inj a).symm

/-! ### `dump()` as text, `load` from text -/

/-- one line of a dump: the tokens of `repr(ref)` and of `repr(expr)` -/
abbrev Line := List Parse.Tok × List Parse.Tok

/-- the text of a list of definitions -/
def textOf (pairs : List (Path × Push.Expr)) : List Line :=
  pairs.map (fun pe => (Parse.print (pathToParse pe.1), Parse.print (ofManager pe.2)))

/-- `Manager.dump()` as TEXT: for every expression task, in table order, the printed target and the printed
    expression -/
def dumpText (s : MState) : List Line := textOf (dump s)

def readLine (fuel : Nat) (t : Line) : Option (Path × Push.Expr) :=
  (readPath fuel t.1).bind fun p => (readExpr fuel t.2).map fun e => (p, e)

/-- read all lines; `none` as soon as one line is not text of the fragment -/
def readLines (fuel : Nat) : List Line → Option (List (Path × Push.Expr))
  | [] => some []
  | t :: rest => (readLine fuel t).bind fun pe => (readLines fuel rest).map (pe :: ·)

/-- `Manager.load(text, overwrite)`: read every line (parse both sides, translate), then `Manager.load` on the
    pairs.  `none`: some line is not text of the bridge's fragment.  (The real `load` evaluates and registers line by
    line, so it would raise at that line after having loaded the earlier ones; that partial effect is not modelled.) -/
def loadText (fuel : Nat) (s : MState) (ow : Bool) (text : List Line) : Option Res :=
  (readLines fuel text).map (load s ow)

/-- every target is a rooted path and every expression is printable -/
def pairsPrintableB (pairs : List (Path × Push.Expr)) : Bool :=
  pairs.all (fun pe => rooted pe.1 && printableB pe.2)

def PairsPrintable (pairs : List (Path × Push.Expr)) : Prop := pairsPrintableB pairs = true

instance (pairs : List (Path × Push.Expr)) : Decidable (PairsPrintable pairs) := by
  unfold PairsPrintable; infer_instance

/-- every definition a `dump()` of `s` lists has a text that reads back -/
def DumpPrintable (s : MState) : Prop := PairsPrintable (dump s)

instance (s : MState) : Decidable (DumpPrintable s) := by unfold DumpPrintable; infer_instance

theorem pairsPrintable_cons (pe : Path × Push.Expr) (rest : List (Path × Push.Expr)) :
    PairsPrintable (pe :: rest) ↔ (rooted pe.1 = true ∧ Printable pe.2) ∧ PairsPrintable rest := by
  simp [PairsPrintable, pairsPrintableB, Printable]

theorem Ev.and {α β : Type} {f : Nat → Option α} {g : Nat → Option β} {a : α} {b : β}
    (hf : Parse.Ev f a) (hg : Parse.Ev g b) : ∃ n0, ∀ n, n ≥ n0 → f n = some a ∧ g n = some b := by
  obtain ⟨n1, h1⟩ := hf
  obtain ⟨n2, h2⟩ := hg
  exact ⟨n1 + n2, fun n hn => ⟨h1 n (by omega), h2 n (by omega)⟩⟩

theorem readLine_print (p : Path) (e : Push.Expr) (hp : rooted p = true) (he : Printable e) :
    Parse.Ev (fun n => readLine n (Parse.print (pathToParse p), Parse.print (ofManager e))) (p, e) := by
  obtain ⟨n0, h⟩ := Ev.and (readPath_print p hp) (read_print e he)
  exact ⟨n0, fun n hn => by
    show readLine n _ = some (p, e)
    simp only [readLine, (h n hn).1, (h n hn).2, Option.bind_some, Option.map_some]⟩

/-- **the text of printable definitions reads back as the definitions**, with one fuel for all lines -/
theorem readLines_textOf : ∀ (pairs : List (Path × Push.Expr)), PairsPrintable pairs →
    Parse.Ev (fun n => readLines n (textOf pairs)) pairs
  | [], _ => ⟨0, fun _ _ => rfl⟩
  | (p, e) :: rest, h => by
    obtain ⟨⟨hp, he⟩, hr⟩ := (pairsPrintable_cons _ _).1 h
    obtain ⟨n0, h0⟩ := Ev.and (readLine_print p e hp he) (readLines_textOf rest hr)
    exact ⟨n0, fun n hn => by
      show readLines n (textOf ((p, e) :: rest)) = some ((p, e) :: rest)
      have h1 := (h0 n hn).1
      have h2 := (h0 n hn).2
      simp only [textOf, List.map_cons, readLines] at h1 h2 ⊢
      rw [h1, Option.bind_some, h2, Option.map_some]⟩

/-- **loading the text = loading the structure**: for printable pairs, any manager, both values of `overwrite` -/
theorem loadText_textOf (s0 : MState) (ow : Bool) (pairs : List (Path × Push.Expr)) (h : PairsPrintable pairs) :
    Parse.Ev (fun n => loadText n s0 ow (textOf pairs)) (load s0 ow pairs) := by
  obtain ⟨n0, h0⟩ := readLines_textOf pairs h
  exact ⟨n0, fun n hn => by
    show loadText n s0 ow (textOf pairs) = some (load s0 ow pairs)
    have := h0 n hn
    simp only [loadText, this, Option.map_some]⟩

/-- in particular for the dump of a manager whose definitions are printable, loaded into ANY manager `s0` -/
theorem loadText_dumpText (s s0 : MState) (ow : Bool) (h : DumpPrintable s) :
    Parse.Ev (fun n => loadText n s0 ow (dumpText s)) (load s0 ow (dump s)) :=
  loadText_textOf s0 ow (dump s) h

/-- the text of a dump determines the dump: two managers with printable definitions and the same text have the same
    list of definitions -/
theorem textOf_injective : ∀ (a b : List (Path × Push.Expr)), PairsPrintable a → PairsPrintable b →
    textOf a = textOf b → a = b
  | [], [], _, _, _ => rfl
  | [], _ :: _, _, _, h => by simp [textOf] at h
  | _ :: _, [], _, _, h => by simp [textOf] at h
  | (p, e) :: ra, (q, f) :: rb, ha, hb, h => by
    obtain ⟨⟨hp, he⟩, hra⟩ := (pairsPrintable_cons _ _).1 ha
    obtain ⟨⟨hq, hf⟩, hrb⟩ := (pairsPrintable_cons _ _).1 hb
    simp only [textOf, List.map_cons, List.cons.injEq, Prod.mk.injEq] at h
    obtain ⟨⟨h1, h2⟩, h3⟩ := h
    rw [print_pathToParse_injective p q hp hq h1, print_ofManager_injective e f he hf h2,
      textOf_injective ra rb hra hrb h3]

/-! ### C11's second sentence, through text -/

/-- **C11 on the manager model, THROUGH TEXT**: write the dump of `s` as text, read the text (parse both sides of
    every line, translate) and load it into a fresh manager over the same containers.  For all sufficiently large
    fuel the text is read completely, the load raises nothing, the new manager has the same definitions and satisfies
    the index invariant, and every later assignment to a plain location in C01's scope ends with the same container
    contents and definitions on both managers, whatever legal schedules the two use. -/
theorem load_dump_through_text (s : MState) (ow : Bool) (hi : MInv s) (hfz : s.frozen = false)
    (hex : ExprDefs s.defs) (hc : Consistent s) (hp : DumpPrintable s) :
    ∃ s', Parse.Ev (fun n => loadText n (freshOver s) ow (dumpText s)) (s', none) ∧
      s'.defs = s.defs ∧ s'.store = s.store ∧ MInv s' ∧
      ∀ (sched1 sched2 : Sched) (p : Path) (v : Val), lookDef s.defs p = none → Scope s p →
        ValidSched (gOf s.idx) (findTaskids s.idx (chainR p)) (sched1 (findTaskids s.idx (chainR p))) →
        ValidSched (gOf s'.idx) (findTaskids s'.idx (chainR p)) (sched2 (findTaskids s'.idx (chainR p))) →
        ∀ s1, setValue sched1 s p v = (s1, none) →
          ∃ s2, setValue sched2 s' p v = (s2, none) ∧ s2.store = s1.store ∧ s2.defs = s1.defs := by
  obtain ⟨s', h1, h2, h3, h4, h5⟩ := load_dump_reacts_identically s ow hi hfz hex hc
  refine ⟨s', ?_, h2, h3, h4, h5⟩
  have := loadText_dumpText s (freshOver s) ow hp
  rwa [h1] at this

/-! ### the fragment is closed under the manager's API

Which definitions can a manager hold after a call?  Those it held before, and those the call itself attaches.  So
if the expressions handed to the API are printable, every `dump()` along a history has a text that reads back. -/

theorem register_defs_sub (s : MState) (t x : MTask) (h : x ∈ (register s t).1.defs) : x ∈ s.defs ∨ x = t := by
  unfold register at h
  split at h
  · exact Or.inl h
  · simp only at h
    split at h
    · obtain ⟨y, hy, rfl⟩ := List.mem_map.1 h
      split
      · exact Or.inr rfl
      · exact Or.inl hy
    · rcases List.mem_append.1 h with h | h
      · exact Or.inl h
      · exact Or.inr (by simpa using h)

theorem unregister_defs_sub (s : MState) (id : Path) (x : MTask) (h : x ∈ (unregister s id).1.defs) : x ∈ s.defs := by
  unfold unregister at h
  split at h
  · exact h
  · split at h
    · exact h
    · exact (List.mem_filter.1 h).1

theorem writeAndRun_defs (sched : Sched) (s : MState) (p : Path) (v : Val) : (writeAndRun sched s p v).1.defs = s.defs :=
  (writeAndRun_graph sched s p v).2.1

theorem setValue_defs_sub (sched : Sched) (s : MState) (p : Path) (v : Val) (x : MTask)
    (h : x ∈ (setValue sched s p v).1.defs) : x ∈ s.defs := by
  unfold setValue at h
  cases hl : lookDef s.defs p with
  | none => simp only [hl] at h; rw [writeAndRun_defs] at h; exact h
  | some t =>
    simp only [hl] at h
    have hu := unregister_defs_sub s p x
    generalize unregister s p = r at h hu
    obtain ⟨s0, x0⟩ := r
    cases x0 with
    | some e => exact hu h
    | none => simp only at h; rw [writeAndRun_defs] at h; exact hu h

theorem setExpr_defs_sub (sched : Sched) (s : MState) (p : Path) (e : Push.Expr) (x : MTask)
    (h : x ∈ (setExpr sched s p e).1.defs) : x ∈ s.defs ∨ x = mkExprTask p e := by
  have tail : ∀ s0 : MState, (∀ y ∈ s0.defs, y ∈ s.defs) →
      x ∈ (match register s0 (mkExprTask p e) with
        | (s1, some x) => (s1, some x)
        | (s1, none) =>
          match evalE s1 e with
          | .error x => (s1, some x)
          | .ok v => writeAndRun sched s1 p v).1.defs → x ∈ s.defs ∨ x = mkExprTask p e := by
    intro s0 hs0 h
    have hr := register_defs_sub s0 (mkExprTask p e) x
    generalize register s0 (mkExprTask p e) = r at h hr
    obtain ⟨s1, x1⟩ := r
    have fin : x ∈ s1.defs → x ∈ s.defs ∨ x = mkExprTask p e := fun hx => (hr hx).imp (hs0 x) id
    cases x1 with
    | some e1 => exact fin h
    | none =>
      simp only at h
      split at h
      · exact fin h
      · rw [writeAndRun_defs] at h; exact fin h
  unfold setExpr at h
  cases hl : lookDef s.defs p with
  | none => simp only [hl] at h; exact tail s (fun _ hy => hy) h
  | some t =>
    simp only [hl] at h
    have hu := unregister_defs_sub s p
    generalize unregister s p = r at h hu
    obtain ⟨s0, x0⟩ := r
    cases x0 with
    | some e0 => exact Or.inl (hu x h)
    | none => exact tail s0 hu h

/-- the expression an in-place operator attaches: the old expression, or the old VALUE as a literal, on the left -/
theorem inplace_defs_sub (sched : Sched) (s : MState) (op : String) (p : Path) (operand : Push.Expr) (x : MTask)
    (h : x ∈ (inplace sched s op p operand).1.defs) :
    x ∈ s.defs ∨ (∃ e, exprOf s p = some e ∧ x = mkExprTask p (.bin op e operand)) ∨
      (∃ old, exprOf s p = none ∧ Store.get s.store p = .ok old ∧ isLit operand = false ∧
        x = mkExprTask p (.bin op (.lit old) operand)) := by
  unfold inplace at h
  cases he : exprOf s p with
  | some e =>
    simp only [he] at h
    exact (setExpr_defs_sub _ _ _ _ _ h).imp id (fun hx => Or.inl ⟨e, rfl, hx⟩)
  | none =>
    simp only [he] at h
    cases hg : Store.get s.store p with
    | error er => simp only [hg] at h; exact Or.inl h
    | ok old =>
      simp only [hg] at h
      cases operand with
      | lit w =>
        simp only at h
        split at h
        · exact Or.inl h
        · exact Or.inl (setValue_defs_sub _ _ _ _ _ h)
      | ref q => exact (setExpr_defs_sub _ _ _ _ _ h).imp id (fun hx => Or.inr ⟨old, rfl, rfl, rfl, hx⟩)
      | bin o l r => exact (setExpr_defs_sub _ _ _ _ _ h).imp id (fun hx => Or.inr ⟨old, rfl, rfl, rfl, hx⟩)
      | un o a => exact (setExpr_defs_sub _ _ _ _ _ h).imp id (fun hx => Or.inr ⟨old, rfl, rfl, rfl, hx⟩)

theorem load_defs_sub (ow : Bool) : ∀ (pairs : List (Path × Push.Expr)) (s : MState) (x : MTask),
    x ∈ (load s ow pairs).1.defs → x ∈ s.defs ∨ ∃ pe ∈ pairs, x = mkExprTask pe.1 pe.2
  | [], s, x, h => Or.inl h
  | (p, e) :: rest, s, x, h => by
    have lift : ∀ s2 : MState, (∀ y ∈ s2.defs, y ∈ s.defs ∨ y = mkExprTask p e) →
        x ∈ (load s2 ow rest).1.defs → x ∈ s.defs ∨ ∃ pe ∈ (p, e) :: rest, x = mkExprTask pe.1 pe.2 := by
      intro s2 hs2 hx
      rcases load_defs_sub ow rest s2 x hx with h' | ⟨pe, hpe, rfl⟩
      · exact (hs2 x h').imp id (fun hh => ⟨(p, e), List.mem_cons_self .., hh⟩)
      · exact Or.inr ⟨pe, List.mem_cons_of_mem _ hpe, rfl⟩
    have regtail : ∀ s1 : MState, (∀ y ∈ s1.defs, y ∈ s.defs) →
        x ∈ (match register s1 (mkExprTask p e) with
          | (s2, some x) => (s2, some x)
          | (s2, none) => load s2 ow rest).1.defs →
        x ∈ s.defs ∨ ∃ pe ∈ (p, e) :: rest, x = mkExprTask pe.1 pe.2 := by
      intro s1 hs1 hx
      have hr := register_defs_sub s1 (mkExprTask p e)
      generalize register s1 (mkExprTask p e) = r at hx hr
      obtain ⟨s2, x2⟩ := r
      have hs2 : ∀ y ∈ s2.defs, y ∈ s.defs ∨ y = mkExprTask p e := fun y hy => (hr y hy).imp (hs1 y) id
      cases x2 with
      | some e2 => exact (hs2 x hx).imp id (fun hh => ⟨(p, e), List.mem_cons_self .., hh⟩)
      | none => exact lift s2 hs2 hx
    unfold load at h
    cases hl : lookDef s.defs p with
    | none => simp only [hl] at h; exact regtail s (fun _ hy => hy) h
    | some t =>
      simp only [hl] at h
      cases ow with
      | false => exact lift s (fun y hy => Or.inl hy) h
      | true =>
        simp only [if_true] at h
        have hu := unregister_defs_sub s p
        generalize unregister s p = r at h hu
        obtain ⟨s1, x1⟩ := r
        cases x1 with
        | some e1 => exact Or.inl (hu x h)
        | none => exact regtail s1 hu h

/-- a task whose definition (if it is an expression task) has a text that reads back -/
def taskPrintableB (t : MTask) : Bool :=
  match t.kind with
  | .expr e => rooted t.id && printableB e
  | _ => true

def DefsPrintable (defs : List MTask) : Prop := ∀ t ∈ defs, taskPrintableB t = true

theorem taskPrintable_mkExprTask (p : Path) (e : Push.Expr) :
    taskPrintableB (mkExprTask p e) = (rooted p && printableB e) := rfl

theorem dumpPrintable_iff (s : MState) : DumpPrintable s ↔ DefsPrintable s.defs := by
  unfold DumpPrintable PairsPrintable pairsPrintableB DefsPrintable dump
  rw [List.all_eq_true]
  constructor
  · intro h t ht
    unfold taskPrintableB
    split
    · next e he => exact h (t.id, e) (List.mem_filterMap.2 ⟨t, ht, by simp [he]⟩)
    · rfl
  · intro h pe hpe
    obtain ⟨t, ht, hte⟩ := List.mem_filterMap.1 hpe
    have := h t ht
    unfold taskPrintableB at this
    split at hte
    · next e he =>
      simp only [Option.some.injEq] at hte; subst hte
      simpa [he] using this
    · simp at hte

theorem exprOf_printable (s : MState) (p : Path) (e : Push.Expr) (hs : DefsPrintable s.defs)
    (he : exprOf s p = some e) : printableB e = true := by
  unfold exprOf at he
  split at he
  · next t hl =>
    have ht := hs t (lookDef_mem hl)
    unfold taskPrintableB at ht
    split at he
    · next e' hk =>
      simp only [Option.some.injEq] at he; subst he
      simp only [hk, Bool.and_eq_true] at ht
      exact ht.2
    · simp at he
  · simp at he

/-- what a call must be handed for the definitions to stay printable: printable expressions at rooted targets; for
    an in-place operator, an operator of the table and — when the location holds a plain value and the operand is an
    expression, so that the VALUE becomes a literal of the new definition — an integer value (a `nan` there would
    give a definition without text) -/
def callPrintableB (s : MState) : Call → Bool
  | .setValue _ _ => true
  | .setExpr p e => rooted p && printableB e
  | .inplace op p operand =>
    rooted p && (binTok op).isSome && printableB operand &&
      (match exprOf s p with
       | some _ => true
       | none => isLit operand || (match Store.get s.store p with | .ok (.int _) => true | .ok _ => false | .error _ => true))
  | .register t => taskPrintableB t
  | .unregister _ => true
  | .load _ pairs => pairsPrintableB pairs
  | .refresh => true
  | .cleanup => true
  | .verify => true

/-- **one call keeps the definitions printable** -/
theorem apply_keeps_printable (sched : Sched) (s : MState) (c : Call) (hs : DumpPrintable s)
    (hc : callPrintableB s c = true) : DumpPrintable (apply sched s c).1 := by
  rw [dumpPrintable_iff] at hs ⊢
  intro x hx
  cases c with
  | setValue p v => exact hs x (setValue_defs_sub _ _ _ _ _ hx)
  | setExpr p e =>
    rcases setExpr_defs_sub _ _ _ _ _ hx with h | rfl
    · exact hs x h
    · rw [taskPrintable_mkExprTask]; exact hc
  | inplace op p operand =>
    simp only [callPrintableB, Bool.and_eq_true] at hc
    obtain ⟨⟨⟨hp, hop⟩, hpr⟩, hold⟩ := hc
    rcases inplace_defs_sub _ _ _ _ _ _ hx with h | ⟨e, he, rfl⟩ | ⟨old, he, hg, hnl, rfl⟩
    · exact hs x h
    · rw [taskPrintable_mkExprTask]
      simp [printableB, hp, hop, hpr, exprOf_printable s p e hs he]
    · rw [taskPrintable_mkExprTask]
      simp only [he, hg, hnl, Bool.false_or] at hold
      cases old <;> simp_all [printableB]
  | register t =>
    rcases register_defs_sub _ _ _ hx with h | rfl
    · exact hs x h
    · exact hc
  | unregister id => exact hs x (unregister_defs_sub _ _ _ hx)
  | load ow pairs =>
    rcases load_defs_sub ow pairs s x hx with h | ⟨pe, hpe, rfl⟩
    · exact hs x h
    · rw [taskPrintable_mkExprTask]
      exact List.all_eq_true.1 hc pe hpe
  | refresh => exact hs x (by rw [← (refresh_defs s).1]; exact hx)
  | cleanup => exact hs x hx
  | verify => exact hs x (by rw [← (verify_defs s).1]; exact hx)

/-- the condition along a history: each call is checked in the state it is made in -/
def histPrintableB (sched : Sched) : MState → List Call → Bool
  | _, [] => true
  | s, c :: cs => callPrintableB s c && histPrintableB sched (apply sched s c).1 cs

/-- **every `dump()` along a history of calls with printable arguments has a text that reads back** -/
theorem history_printable (sched : Sched) : ∀ (cs : List Call) (s : MState), DumpPrintable s →
    histPrintableB sched s cs = true → DumpPrintable (applyAll sched s cs)
  | [], _, hs, _ => hs
  | c :: cs, s, hs, h => by
    simp only [histPrintableB, Bool.and_eq_true] at h
    exact history_printable sched cs _ (apply_keeps_printable sched s c hs h.1) h.2

/-- a manager without definitions (the initial one, a fresh one) -/
theorem dumpPrintable_of_no_defs (s : MState) (h : s.defs = []) : DumpPrintable s := by
  rw [dumpPrintable_iff, h]; intro t ht; cases ht

/-- the constructors the Python API offers keep the fragment: `ref ⊕ x`, `x ⊕ ref`, `-ref`, `+ref` -/
theorem printable_bin (op : String) (l r : Push.Expr) (ho : (binTok op).isSome = true) (hl : Printable l)
    (hr : Printable r) : Printable (.bin op l r) := by
  simp only [Printable] at hl hr
  simp [Printable, printableB, ho, hl, hr]

theorem printable_un (op : String) (a : Push.Expr) (ho : (unTok op).isSome = true) (ha : Printable a)
    (hnl : isLit a = false) : Printable (.un op a) := by
  simp only [Printable] at ha
  simp [Printable, printableB, ho, ha, hnl]

theorem printable_ref (p : Path) (h : rooted p = true) : Printable (.ref p) := h
theorem printable_int (i : Int) : Printable (.lit (.int i)) := rfl

end ParseBridge

/-! ## computed examples -/
namespace ParseBridge.Example
open Store Manager Parse ParseBridge

def da : Path := [.item (.str "d"), .item (.str "a")]
def dc : Path := [.item (.str "d"), .item (.str "c")]
def va2 : Path := [.item (.str "v"), .item (.str "a"), .item (.int 2)]
def eq1k : Path := [.item (.str "e"), .item (.str "q1"), .attr "k"]
def eq1l : Path := [.item (.str "e"), .item (.str "q1"), .attr "l"]

/-- containers `d = {a: 2, c: 0}`, `v = {a: [10, 20, 30]}`, `e = {q1: <object k=4, l=0>}` -/
def store0 : Val :=
  .dict [(.str "d", .dict [(.str "a", .int 2), (.str "c", .int 0)]),
         (.str "v", .dict [(.str "a", .list [.int 10, .int 20, .int 30])]),
         (.str "e", .dict [(.str "q1", .obj [(.str "k", .int 4), (.str "l", .int 0)])])]
def s0 : MState := { MState.init with store := store0 }

/-- `d['c'] = (-3) * d['a']` (a negative literal on the left) and `e['q1'].l = v['a'][2] + (-e['q1'].k)`
    (nested item / attribute paths, a unary operator) -/
def defC : Push.Expr := .bin "Mul" (.lit (.int (-3))) (.ref da)
def defL : Push.Expr := .bin "Add" (.ref va2) (.un "Neg" (.ref eq1k))
def hist : List Call := [.setExpr dc defC, .setExpr eq1l defL]
def sX : MState := applyAll id s0 hist

example : dump sX = [(dc, defC), (eq1l, defL)] := rfl
example : Store.get sX.store dc = .ok (.int (-6)) ∧ Store.get sX.store eq1l = .ok (.int 26) := ⟨rfl, rfl⟩

/-- the dump as text: `d['c']`, `((-3) * d['a'])` and `e['q1'].l`, `(v['a'][2] + (-e['q1'].k))` -/
def textX : List Line :=
  [([.name "d", .lbr, .str "c", .rbr],
    [.lpar, .lpar, .op "-", .num 3, .rpar, .op "*", .name "d", .lbr, .str "a", .rbr, .rpar]),
   ([.name "e", .lbr, .str "q1", .rbr, .dot, .name "l"],
    [.lpar, .name "v", .lbr, .str "a", .rbr, .lbr, .num 2, .rbr, .op "+",
       .lpar, .op "-", .name "e", .lbr, .str "q1", .rbr, .dot, .name "k", .rpar, .rpar])]

theorem dumpText_sX : dumpText sX = textX := by
  show textOf [(dc, defC), (eq1l, defL)] = textX
  simp [textOf, textX, dc, da, va2, eq1k, eq1l, defC, defL, pathToParse, stepsToParse, ofManager, keyToParse,
    binTok, unTok, tokOf, binTable, unTable, print, printLhs, printInt, printKey]
#guard dumpText sX = textX
example : readLines 8 textX = some [(dc, defC), (eq1l, defL)] := rfl

/-- loading that text into a fresh manager over the same containers: read completely, no error, the same task table -/
def sT : MState := ((loadText 8 (freshOver sX) true textX).getD (sX, some .fault)).1
example : loadText 8 (freshOver sX) true textX = some (load (freshOver sX) true (dump sX)) := rfl
example : (loadText 8 (freshOver sX) true textX).map (·.2) = some none := rfl
example : sT.defs = sX.defs ∧ sT.store = sX.store := ⟨rfl, rfl⟩

/-- the hypotheses of `load_dump_through_text` hold for `sX` -/
theorem s0_inv : MInv s0 := MInv_of_sameGraph (s := MState.init) ⟨rfl, rfl, rfl⟩ MInv.init
theorem sX_inv : MInv sX := applyAll_MInv id hist s0 s0_inv (by simp [hist, WFHist, WFCall])
theorem sX_scope : Scope sX da := scopeB_sound sX sX_inv da (by decide +kernel)
theorem sX_exprs : ExprDefs sX.defs := sX_scope.exprs
theorem sX_consistent : Consistent sX := consistentB_sound sX (by decide +kernel)
theorem sX_printable : DumpPrintable sX := by decide +kernel
/-- the same, from the closure theorem: the two calls that built `sX` were handed printable expressions -/
example : DumpPrintable sX :=
  history_printable id hist s0 (dumpPrintable_of_no_defs s0 rfl) (by decide +kernel)

/-- the theorem instantiated -/
example : ∃ s', Parse.Ev (fun n => loadText n (freshOver sX) true (dumpText sX)) (s', none) ∧
    s'.defs = sX.defs ∧ s'.store = sX.store ∧ MInv s' := by
  obtain ⟨s', h1, h2, h3, h4, _⟩ := load_dump_through_text sX true sX_inv rfl sX_exprs sX_consistent sX_printable
  exact ⟨s', h1, h2, h3, h4⟩

/-- a later assignment `d['a'] = 7` on both managers: same containers, `d['c'] = -21`, `e['q1'].l = 26` -/
example : validSchedule sX.idx (chainR da) (findTaskids sX.idx (chainR da)) = true ∧
    validSchedule sT.idx (chainR da) (findTaskids sT.idx (chainR da)) = true := by decide +kernel
example : (setValue id sT da (.int 7)).1.store = (setValue id sX da (.int 7)).1.store ∧
    (setValue id sT da (.int 7)).2 = none ∧
    Store.get (setValue id sT da (.int 7)).1.store dc = .ok (.int (-21)) := ⟨rfl, rfl, rfl⟩

/-! #### single expressions and paths -/

/-- a negative literal on the LEFT is parenthesised, on the right it is not: `((-3) * d['a'])`, `(d['a'] * -3)` -/
example : print (ofManager (.bin "Mul" (.ref da) (.lit (.int (-3))))) =
    [.lpar, .name "d", .lbr, .str "a", .rbr, .op "*", .op "-", .num 3, .rpar] := by
  simp [da, pathToParse, stepsToParse, ofManager, keyToParse, binTok, tokOf, binTable, print, printLhs, printInt, printKey]
example : readExpr 8 [.lpar, .name "d", .lbr, .str "a", .rbr, .op "*", .op "-", .num 3, .rpar] =
    some (.bin "Mul" (.ref da) (.lit (.int (-3)))) := rfl

/-- a negative list index: `v['a'][-1]` -/
example : print (pathToParse [.item (.str "v"), .item (.str "a"), .item (.int (-1))]) =
    [.name "v", .lbr, .str "a", .rbr, .lbr, .op "-", .num 1, .rbr] := by
  simp [pathToParse, stepsToParse, keyToParse, print, printInt, printKey]
example : readPath 8 [.name "v", .lbr, .str "a", .rbr, .lbr, .op "-", .num 1, .rbr] =
    some [.item (.str "v"), .item (.str "a"), .item (.int (-1))] := rfl

/-- all five binary and both unary operators -/
example : Printable (.bin "Floordiv" (.bin "Mod" (.ref da) (.lit (.int 7))) (.un "Pos" (.bin "Sub" (.ref dc) (.ref da)))) := by
  decide
example : toManager (.bin "//" (.bin "%" (.root "x") (.lit 7)) (.un "+" (.bin "-" (.root "y") (.root "x")))) =
    some (.bin "Floordiv" (.bin "Mod" (.ref [.item (.str "x")]) (.lit (.int 7)))
      (.un "Pos" (.bin "Sub" (.ref [.item (.str "y")]) (.ref [.item (.str "x")])))) := rfl

/-! #### outside the fragment -/

/-- WHY a unary operator on a literal is excluded: the manager model can hold the node `Neg(3)`, its text is
    `(-3)`, and that text reads back as the LITERAL `-3` (Python's `-3` is a literal for the library: the API cannot
    build `Neg(3)`, `-(3)` is an int before the library sees it) -/
example : ¬ Printable (.un "Neg" (.lit (.int 3))) := by decide
example : print (ofManager (.un "Neg" (.lit (.int 3)))) = [.lpar, .op "-", .num 3, .rpar] := by
  simp [ofManager, unTok, tokOf, unTable, print, printInt]
example : readExpr 8 [.lpar, .op "-", .num 3, .rpar] = some (.lit (.int (-3))) := rfl
/-- yet `toManager` itself is defined on the node `un "-" (lit 3)` of the printed language (no text parses to it) -/
example : toManager (.un "-" (.lit 3)) = some (.un "Neg" (.lit (.int 3))) := rfl

/-- a `nan` literal (what an in-place operator on a location holding NaN attaches) has no text that reads back:
    `repr(nan)` is the NAME `nan`, which reads as a ref to a container labelled `nan` -/
example : ¬ Printable (.lit .nan) := by decide
example : ofManager (.lit .nan) = .root "nan" ∧ toManager (.root "nan") = some (.ref [.item (.str "nan")]) := ⟨rfl, rfl⟩

/-- operators the manager model does not evaluate, calls, keyword calls and floats stay on the `Parse` side -/
example : toManager (.bin "**" (.root "x") (.lit 2)) = none ∧ toManager (.un "~" (.root "x")) = none ∧
    toManager (.call (.attr (.root "f") "sin") [.root "x"]) = none ∧ toManager (.flit false "1.5") = none ∧
    toManager (.callkw (.root "round") [.root "x"] [("ndigits", .lit 2)]) = none := ⟨rfl, rfl, rfl, rfl, rfl⟩
example : ¬ Printable (.bin "Pow" (.ref da) (.lit (.int 2))) := by decide

/-- the model's ids of function tasks (`[.attr "#T"]`) and the empty path are not refs: not `rooted` -/
example : rooted [.attr "#T"] = false ∧ rooted [] = false := ⟨rfl, rfl⟩

/-- closure is conditional for in-place operators: `d['a'] += d['c']` on a location holding NaN attaches the
    definition `nan + d['c']`, and the dump of that manager has no faithful text; `callPrintableB` says so -/
def sNan : MState := { s0 with store := .dict [(.str "d", .dict [(.str "a", .nan), (.str "c", .int 0)])] }
example : callPrintableB sNan (.inplace "Add" da (.ref dc)) = false := by decide +kernel
set_option exponentiation.threshold 1100 in
example : dump (apply id sNan (.inplace "Add" da (.ref dc))).1 = [(da, .bin "Add" (.lit .nan) (.ref dc))] := rfl
example : ¬ DumpPrintable (apply id sNan (.inplace "Add" da (.ref dc))).1 := by decide +kernel
/-- on an integer location the same call is fine -/
example : callPrintableB s0 (.inplace "Add" da (.ref dc)) = true := by decide +kernel

end ParseBridge.Example

#print axioms ParseBridge.toManager_ofManager
#print axioms ParseBridge.ofManager_toManager
#print axioms ParseBridge.printable_of_toManager
#print axioms ParseBridge.wfarg_ofManager
#print axioms ParseBridge.read_print
#print axioms ParseBridge.read_print_value_deps
#print axioms ParseBridge.readPath_print
#print axioms ParseBridge.print_ofManager_injective
#print axioms ParseBridge.textOf_injective
#print axioms ParseBridge.loadText_textOf
#print axioms ParseBridge.loadText_dumpText
#print axioms ParseBridge.load_dump_through_text
#print axioms ParseBridge.apply_keeps_printable
#print axioms ParseBridge.history_printable
