import Std.Data.String.ToNat
import XModel.TableSpan
/-!
# C14, second layer: where rectangles come from, what assignments do to them, and what the derivations CONTAIN

`XModel/TableRect.lean` proves that every derivation of `XModel/Table.lean` maps a rectangular table (`Rect`)
to a rectangular table.  That is a statement about shapes only.  This file adds

1. `newT`, a model of the checked constructor `Table(data, index=…)` (`verify=True`): `ValueError` when the listed
   columns have different lengths or the index column is not among them; a successful construction is `Rect`
   and `Coherent` (`newT_rect`), and it succeeds exactly under those two conditions (`newT_ok_iff`);
2. `Rect` is kept by the three mutations of the API, whatever their outcome (success or exception):
   `setCol_rect`, `setCell_rect` (no coherence hypothesis), `delCol_rect` (any column but the index column);
   together with what the assignment stores (`setCol_colNames`, `setCol_col_self`, `setCol_col_other`, …);
3. VALUE theorems, cell by cell (`Tbl.cell t c k` is cell `k` of column `c`):
   `copyT_cell`, `selectRows_cell`, `selectCols_value`, `mulT_cell`, `addT_cell`, `concatT_value` /
   `concatT_two_cell`, `transposeT_columns` / `transposeT_row` / `transposeT_cell`;
   a `copyT` that returned zeros, or a `selectRows` that returned the wrong rows, would violate them;
4. `Deriv2`, the derivation language with a SECOND table (`add other`, `concat others`) and with the assignments
   as steps, and `chain2_rect`: every chain that starts from a rectangular table ends in a rectangular table.

## Immutability: what the model can and cannot say
The model is functional.  Every derivation (`copyT t`, `selectRows t ps`, `addT a b`, …) RETURNS A NEW VALUE; the
argument `t` is a mathematical value and cannot change, so "the source is untouched" is not a theorem one can
state non-trivially here (any statement of that kind is `rfl` for every function whatsoever).  What the model does
express — and what the theorems of part 3 state — is the relation between the new value and the UNCHANGED source:
each cell of the result is a stated cell of the source.  The mutations (`setCol`, `setCell`, `delCol`) are modelled
as functions returning the table AFTER the call; a derived table obtained BEFORE the call is a different value and
is not affected by it.  Whether the Python objects share numpy buffers (so that writing into a derived table
writes into the source) is OUTSIDE this model; it is the business of the correspondence run (source snapshot
before / after every derivation), not of any theorem here.

## What the MODEL does in the corner cases (each with a concrete `example` in part 5)
* `setCol` with a NEW name and a value whose length is not the table's: accepted, stored in the dict, NOT listed
  (an unlisted scalar-like entry); with a LISTED name: equal length replaces, length 1 is broadcast, any other
  length is `ValueError` and the column is left as it was (`setCol_spec`, `setCol_outcome`).
* `copyT` keeps the LISTED columns only — unlisted dict entries are dropped (`copyT_col`), whereas `mulT`, `addT`,
  `selectRows` keep them (`mulT_value`, `addT_value`); Python's `_copy()` copies the whole dict.
* `addT a b` extends only the columns `b` lists: when `a` lists a column `b` does not, the model accepts and the
  result is NOT rectangular — hence the hypothesis "every listed column of `a` is listed by `b`".
* `concatT` always builds its result with index `"name"` and the default separators (`ValueError` when `"name"` is
  not a common column), whatever the index of the arguments.
* `transposeT` renders every cell as a string; a source cell that does not exist becomes `""`.
* `delCol` of the index column leaves a non-rectangular table — excluded by hypothesis in `delCol_rect`.

`Std.Data.String.ToNat` (part of the Lean distribution, not Mathlib) is imported for `Nat.repr_inj`, needed to
tell the generated column names `row0, row1, …` of the transposed table apart.
-/
namespace TableM
open Cache

/-- cell `k` of column `c` (`t[c][k]`), `none` when the column is absent or shorter -/
def Tbl.cell (t : Tbl) (c : String) (k : Nat) : Option Cell := (t.col c).bind (fun v => v[k]?)

/-! ## generic tools -/

/-- a table whose index is listed and whose listed columns all have length `n` is a rectangle of `n` rows -/
theorem rect_of_cols (t : Tbl) (n : Nat) (hidx : t.index ∈ t.colNames)
    (hall : ∀ c ∈ t.colNames, ∃ v, t.col c = some v ∧ v.length = n) : Rect t ∧ t.nrows = n := by
  obtain ⟨idx, names, data, cache, sc, sp, sn⟩ := t
  exact rect_mk names data idx cache sc sp sn n hidx hall

/-- `t'` has the columns, the index and the listed names of `t` (it may differ in the cache) -/
def Framed (t t' : Tbl) : Prop := t'.data = t.data ∧ t'.index = t.index ∧ t'.colNames = t.colNames

theorem Framed.refl (t : Tbl) : Framed t t := ⟨rfl, rfl, rfl⟩

theorem Framed.trans {a b c : Tbl} (h1 : Framed a b) (h2 : Framed b c) : Framed a c :=
  ⟨h2.1.trans h1.1, h2.2.1.trans h1.2.1, h2.2.2.trans h1.2.2⟩

theorem Framed.col {t t' : Tbl} (h : Framed t t') (c : String) : t'.col c = t.col c := by
  unfold Tbl.col; rw [h.1]

theorem Framed.nrows {t t' : Tbl} (h : Framed t t') : t'.nrows = t.nrows := by
  unfold Tbl.nrows; rw [h.2.2]
  cases t.colNames with
  | nil => rfl
  | cons k _ => simp only [h.col k]

theorem Framed.rect {t t' : Tbl} (h : Framed t t') (hr : Rect t) : Rect t' := by
  refine ⟨by rw [h.2.1, h.2.2]; exact hr.1, ?_⟩
  intro c hc
  rw [h.2.2] at hc
  obtain ⟨v, hv, hl⟩ := hr.2 c hc
  exact ⟨v, by rw [h.col c]; exact hv, by rw [h.nrows]; exact hl⟩

/-- the decidable form used by the driver is the invariant -/
theorem rectB_iff (t : Tbl) : rectB t = true ↔ Rect t := by
  unfold rectB Rect
  simp only [Bool.and_eq_true, decide_eq_true_eq, List.all_eq_true]
  constructor
  · rintro ⟨h1, h2⟩
    refine ⟨h1, fun c hc => ?_⟩
    have := h2 c hc
    cases hv : t.col c with
    | none => simp [hv] at this
    | some v => simp only [hv] at this; exact ⟨v, rfl, by simpa using this⟩
  · rintro ⟨h1, h2⟩
    refine ⟨h1, fun c hc => ?_⟩
    obtain ⟨v, hv, hl⟩ := h2 c hc
    simp [hv, hl]

/-! ## 1. the checked constructor -/

/-- `Table(data, index=index)` with `verify=True`: `data` is the dict of columns in insertion order (every entry
    is listed, as with `col_names=None`).  `ValueError("Columns have different lengths")` when the set of column
    lengths has more than one element, `ValueError("Index column … not found")` when the index is not a key. -/
def newT (cols : List (String × List Cell)) (index : String) : Except TErr Tbl :=
  if cols.all (fun p => p.2.length == (cols.headD ("", [])).2.length) then
    if index ∈ cols.map (·.1) then .ok { index := index, colNames := cols.map (·.1), data := cols, cache := none }
    else .error .valueError
  else .error .valueError

/-- **a successfully constructed table is rectangular and coherent**; its columns are the given ones -/
theorem newT_rect (cols : List (String × List Cell)) (index : String) (t : Tbl) (h : newT cols index = .ok t) :
    Rect t ∧ Coherent t ∧ t.index = index ∧ t.colNames = cols.map (·.1) ∧ t.data = cols ∧
      t.nrows = (cols.headD ("", [])).2.length := by
  unfold newT at h
  split at h
  · next hall =>
    split at h
    · next hidx =>
      simp only [Except.ok.injEq] at h
      subst h
      have hr := rect_of_cols
        ({ index := index, colNames := cols.map (·.1), data := cols, cache := none } : Tbl)
        (cols.headD ("", [])).2.length hidx (by
          intro c hc
          obtain ⟨v, hv, hm⟩ := lookupA_some_of_mem cols c hc
          refine ⟨v, hv, ?_⟩
          have := List.all_eq_true.mp hall (c, v) hm
          simpa using this)
      exact ⟨hr.1, Or.inl rfl, rfl, rfl, rfl, hr.2⟩
    · cases h
  · cases h

/-- the constructor succeeds exactly when the index is a key and all columns have one length -/
theorem newT_ok_iff (cols : List (String × List Cell)) (index : String) :
    (∃ t, newT cols index = .ok t) ↔
      index ∈ cols.map (·.1) ∧ ∀ p ∈ cols, ∀ q ∈ cols, p.2.length = q.2.length := by
  unfold newT
  constructor
  · rintro ⟨t, h⟩
    split at h
    · next hall =>
      split at h
      · next hidx =>
        refine ⟨hidx, fun p hp q hq => ?_⟩
        have h1 := List.all_eq_true.mp hall p hp
        have h2 := List.all_eq_true.mp hall q hq
        simp only [beq_iff_eq] at h1 h2
        rw [h1, h2]
      · cases h
    · cases h
  · rintro ⟨hidx, hall⟩
    have : cols.all (fun p => p.2.length == (cols.headD ("", [])).2.length) = true := by
      apply List.all_eq_true.mpr
      intro p hp
      cases cols with
      | nil => cases hp
      | cons q r => simpa using hall p hp q (List.mem_cons_self ..)
    simp only [this, if_true, hidx]
    exact ⟨_, rfl⟩

/-- the only exception of the constructor is `ValueError` -/
theorem newT_error (cols : List (String × List Cell)) (index : String) (e : TErr) (h : newT cols index = .error e) :
    e = .valueError := by
  unfold newT at h
  split at h
  · split at h
    · cases h
    · cases h; rfl
  · cases h; rfl

/-! ## 2. the mutations keep the rectangle -/

theorem setNth_length {α : Type} : ∀ (l : List α) (k : Nat) (x : α), (setNth l k x).length = l.length
  | [], _, _ => rfl
  | _ :: _, 0, _ => rfl
  | _ :: r, k+1, x => by simp [setNth, setNth_length r k x]

theorem getElem?_setNth {α : Type} : ∀ (l : List α) (k : Nat) (x : α) (j : Nat),
    (setNth l k x)[j]? = if j = k ∧ k < l.length then some x else l[j]?
  | [], _, _, _ => by simp [setNth]
  | a :: r, 0, x, j => by
    cases j with
    | zero => simp [setNth]
    | succ j => simp [setNth]
  | a :: r, k+1, x, j => by
    cases j with
    | zero => simp [setNth]
    | succ j => simp [setNth, getElem?_setNth r k x j]

/-! ### look-ups only touch the cache (no coherence needed for the frame) -/

theorem getCache_framed (t : Tbl) : Framed t (getCache t).1 := by
  unfold getCache
  cases t.cache with
  | some c => exact Framed.refl t
  | none => exact ⟨rfl, rfl, rfl⟩

theorem getRowCache_framed (t : Tbl) (row : String) (count : Option Int) (offset : Int) :
    Framed t (getRowCache t row count offset).1 := by
  have hk := getCache_framed t
  unfold getRowCache
  generalize getCache t = g at hk
  obtain ⟨t1, cache, cnt⟩ := g
  simp only at hk ⊢
  split
  · exact hk
  · split <;> (try split) <;> exact hk

theorem getRowCacheRaise_framed (t : Tbl) (row : String) (count : Option Int) (offset : Int) :
    Framed t (getRowCacheRaise t row count offset).1 := by
  have hk := getRowCache_framed t row count offset
  unfold getRowCacheRaise
  generalize getRowCache t row count offset = r at hk
  obtain ⟨t1, x⟩ := r
  cases x with
  | error e => exact hk
  | ok o => cases o <;> exact hk

theorem resolveCellRow_framed (t : Tbl) (row : Row) : Framed t (resolveCellRow t row).1 := by
  have hk := getCache_framed t
  cases row with
  | pos i => exact Framed.refl t
  | name s =>
    simp only [resolveCellRow]
    generalize getCache t = g at hk
    obtain ⟨t1, cache, cnt⟩ := g
    simp only at hk ⊢
    split
    · exact hk
    · split
      · exact hk
      · exact hk.trans (getRowCacheRaise_framed t1 _ _ _)
  | tup n c o =>
    simp only [resolveCellRow]
    generalize getCache t = g at hk
    obtain ⟨t1, cache, cnt⟩ := g
    simp only at hk ⊢
    split
    · exact hk
    · exact hk.trans (getRowCacheRaise_framed t1 _ _ _)

/-! ### `t[col, row] = v` -/

/-- **a cell assignment keeps the rectangle**, whatever its outcome (`KeyError` for an absent column, an
    unresolvable row name, `IndexError` outside the column, or success); listed names, index and length are
    unchanged.  No coherence hypothesis: the row resolution only ever touches the cache. -/
theorem setCell_rect (t : Tbl) (h : Rect t) (col : String) (row : Row) (v : Cell) :
    Rect (setCell t col row v).1 ∧ (setCell t col row v).1.nrows = t.nrows ∧
      (setCell t col row v).1.colNames = t.colNames ∧ (setCell t col row v).1.index = t.index := by
  have hk := resolveCellRow_framed t row
  unfold setCell
  split
  · exact ⟨h, rfl, rfl, rfl⟩
  · next c hc =>
    generalize resolveCellRow t row = r at hk
    obtain ⟨t1, x⟩ := r
    simp only at hk ⊢
    cases x with
    | error e => exact ⟨hk.rect h, hk.nrows, hk.2.2, hk.2.1⟩
    | ok i =>
      simp only
      split
      · exact ⟨hk.rect h, hk.nrows, hk.2.2, hk.2.1⟩
      · next k _ =>
        have core : ∀ t2 : Tbl, t2.data = insertA t1.data col (setNth c k v) → t2.index = t1.index →
            t2.colNames = t1.colNames →
            Rect t2 ∧ t2.nrows = t.nrows ∧ t2.colNames = t.colNames ∧ t2.index = t.index := by
          intro t2 hd hi hn
          have hr := rect_of_cols t2 t.nrows (by rw [hi, hn, hk.2.1, hk.2.2]; exact h.1) (by
            intro c' hc'
            rw [hn, hk.2.2] at hc'
            obtain ⟨w, hw, hl⟩ := h.2 c' hc'
            unfold Tbl.col
            rw [hd, lookup_insert]
            by_cases e : col = c'
            · subst e
              simp only [if_true]
              rw [hc] at hw
              cases hw
              exact ⟨_, rfl, by rw [setNth_length]; exact hl⟩
            · simp only [e, if_false]
              refine ⟨w, ?_, hl⟩
              have := hk.col c'
              unfold Tbl.col at this
              rw [this]; exact hw)
          exact ⟨hr.1, hr.2, by rw [hn, hk.2.2], by rw [hi, hk.2.1]⟩
        by_cases hci : col = t.index
        · simp only [hci, if_true]
          exact core _ (by simp only [hci]) rfl rfl
        · simp only [hci, if_false]
          exact core _ rfl rfl rfl

/-- what a successful assignment by position stores: cell `(col, k)` becomes `v`, every other cell is unchanged -/
theorem setCell_pos_cell (t : Tbl) (col : String) (i : Int) (v : Cell) (c : List Cell) (k : Nat)
    (hc : t.col col = some c) (hk : normPos c.length i = some k) (hkl : k < c.length) (c' : String) (j : Nat) :
    (setCell t col (.pos i) v).2 = .ok () ∧
    (setCell t col (.pos i) v).1.cell c' j = if c' = col ∧ j = k then some v else t.cell c' j := by
  have hcell : ∀ t2 : Tbl, t2.data = insertA t.data col (setNth c k v) →
      t2.cell c' j = if c' = col ∧ j = k then some v else t.cell c' j := by
    intro t2 hd
    unfold Tbl.cell Tbl.col
    rw [hd, lookup_insert]
    by_cases e : col = c'
    · subst e
      have hc' : lookupA t.data col = some c := hc
      simp only [if_true, Option.bind_some, getElem?_setNth, true_and, hc']
      by_cases hj : j = k
      · simp [hj, hkl]
      · simp [hj]
    · have e' : ¬ c' = col := fun x => e x.symm
      simp [e, e']
  simp only [setCell, hc, resolveCellRow, hk]
  refine ⟨trivial, ?_⟩
  split
  · exact hcell _ rfl
  · exact hcell _ rfl

/-! ### `t[name] = column` -/

local macro "tv" : term => `(by first | trivial | rfl | (intros; first | trivial | rfl))

/-- **what a column assignment does, in every case** (the table AFTER the call, also when it raised):
    * the index never changes;
    * a listed name stays listed; a NEW name is listed only when the value has the table's length — a value of
      another length is stored as an unlisted (scalar-like) entry of the dict;
    * every other column is unchanged;
    * the entry `name` is the value (equal length), the value broadcast (length 1), the old column (`ValueError`),
      or, for a new name, the value as given. -/
theorem setCol_spec (t : Tbl) (name : String) (vals : List Cell) :
    (setCol t name vals).1.index = t.index ∧
    (setCol t name vals).1.colNames =
      (if name ∈ t.colNames then t.colNames
       else if vals.length = t.nrows then t.colNames ++ [name] else t.colNames) ∧
    (∀ c, c ≠ name → (setCol t name vals).1.col c = t.col c) ∧
    (setCol t name vals).1.col name =
      (if name ∈ t.colNames then
        (t.col name).map (fun c => if vals.length = c.length then vals
          else if vals.length = 1 then c.map (fun _ => vals.headD (.int 0)) else c)
       else some vals) := by
  have hf : Framed t (if name = t.index then { t with cache := none } else t) := by
    split
    · exact ⟨rfl, rfl, rfl⟩
    · exact Framed.refl t
  simp only [setCol]
  generalize (if name = t.index then { t with cache := none } else t) = t0 at hf ⊢
  rw [← hf.2.1, ← hf.2.2, ← hf.nrows, ← hf.col name]
  have hcol : ∀ c, t.col c = t0.col c := fun c => (hf.col c).symm
  simp only [hcol]
  have hins : ∀ (t2 : Tbl) (w : List Cell), t2.data = insertA t0.data name w →
      (∀ c, c ≠ name → t2.col c = t0.col c) ∧ t2.col name = some w := by
    intro t2 w hd
    unfold Tbl.col
    rw [hd]
    refine ⟨fun c hc => lookupA_insert_other _ _ _ _ (fun e => hc e.symm), ?_⟩
    rw [lookup_insert]; simp
  by_cases hm : name ∈ t0.colNames
  · simp only [hm, if_true]
    cases hc : t0.col name with
    | none => exact ⟨tv, tv, tv, by simp [hc]⟩
    | some c =>
      simp only [Option.map_some]
      by_cases h1 : vals.length = c.length
      · simp only [h1, if_true]
        obtain ⟨ho, hs⟩ := hins { t0 with data := insertA t0.data name vals } vals rfl
        exact ⟨tv, tv, ho, hs⟩
      · simp only [h1, if_false]
        by_cases h2 : vals.length = 1
        · simp only [h2, if_true]
          obtain ⟨ho, hs⟩ := hins { t0 with data := insertA t0.data name (c.map (fun _ => vals.headD (.int 0))) } _ rfl
          exact ⟨tv, tv, ho, hs⟩
        · simp only [h2, if_false]
          exact ⟨tv, tv, tv, hc⟩
  · simp only [hm, if_false]
    by_cases h1 : vals.length = t0.nrows
    · simp only [h1, if_true]
      obtain ⟨ho, hs⟩ := hins { t0 with data := insertA t0.data name vals, colNames := t0.colNames ++ [name] } vals rfl
      exact ⟨tv, tv, ho, hs⟩
    · simp only [h1, if_false]
      obtain ⟨ho, hs⟩ := hins { t0 with data := insertA t0.data name vals } vals rfl
      exact ⟨tv, tv, ho, hs⟩

/-- **a column assignment keeps the rectangle**, whatever its outcome, and the length -/
theorem setCol_rect (t : Tbl) (h : Rect t) (name : String) (vals : List Cell) :
    Rect (setCol t name vals).1 ∧ (setCol t name vals).1.nrows = t.nrows := by
  obtain ⟨hi, hn, ho, hs⟩ := setCol_spec t name vals
  refine rect_of_cols _ t.nrows ?_ ?_
  · rw [hi, hn]
    split
    · exact h.1
    · split
      · exact List.mem_append_left _ h.1
      · exact h.1
  · intro c hc
    by_cases e : c = name
    · subst e
      rw [hs]
      by_cases hm : c ∈ t.colNames
      · obtain ⟨w, hw, hl⟩ := h.2 c hm
        simp only [hm, if_true, hw, Option.map_some]
        refine ⟨_, rfl, ?_⟩
        split
        · next h1 => rw [h1]; exact hl
        · split
          · simp [hl]
          · exact hl
      · rw [hn] at hc
        simp only [hm, if_false] at hc ⊢
        split at hc
        · next h1 => exact ⟨vals, rfl, h1⟩
        · exact absurd hc hm
    · rw [ho c e]
      have hc' : c ∈ t.colNames := by
        rw [hn] at hc
        split at hc
        · exact hc
        · split at hc
          · rcases List.mem_append.mp hc with h' | h'
            · exact h'
            · exact absurd (by simpa using h') e
          · exact hc
      exact h.2 c hc'

/-- the outcome of a column assignment on a rectangular table: `ValueError` exactly when a LISTED column is given a
    value that has neither the table's length nor length 1 -/
theorem setCol_outcome (t : Tbl) (h : Rect t) (name : String) (vals : List Cell) :
    (setCol t name vals).2 =
      if name ∈ t.colNames ∧ vals.length ≠ t.nrows ∧ vals.length ≠ 1 then .error .valueError else .ok () := by
  have hf : Framed t (if name = t.index then { t with cache := none } else t) := by
    split
    · exact ⟨rfl, rfl, rfl⟩
    · exact Framed.refl t
  simp only [setCol]
  generalize (if name = t.index then { t with cache := none } else t) = t0 at hf ⊢
  have h0 := hf.rect h
  rw [← hf.2.2, ← hf.nrows]
  by_cases hm : name ∈ t0.colNames
  · obtain ⟨c, hc, hl⟩ := h0.2 name hm
    simp only [hm, if_true, hc, true_and, ← hl]
    by_cases h1 : vals.length = c.length
    · rw [if_pos h1, if_neg (by simp [h1])]
    · rw [if_neg h1]
      by_cases h2 : vals.length = 1
      · rw [if_pos h2, if_neg (by simp [h2])]
      · rw [if_neg h2, if_pos ⟨h1, h2⟩]
  · simp only [hm, if_false, false_and]

/-! ### `del t[name]` -/

theorem lookupA_filter_ne {ν : Type} (name c : String) (hc : c ≠ name) : ∀ d : List (String × ν),
    lookupA (d.filter (fun p => p.1 ≠ name)) c = lookupA d c
  | [] => rfl
  | (k, v) :: r => by
    simp only [List.filter_cons]
    by_cases hk : k = name
    · have : ¬ k = c := fun e => hc (e ▸ hk)
      simp only [hk, ne_eq, not_true_eq_false, decide_false, Bool.false_eq_true, if_false, lookupA]
      rw [lookupA_filter_ne name c hc r]
      have : ¬ name = c := fun e => hc e.symm
      simp [this]
    · simp only [ne_eq, hk, not_false_eq_true, decide_true, if_true, lookupA]
      split
      · rfl
      · exact lookupA_filter_ne name c hc r

theorem lookupA_filter_self {ν : Type} (name : String) : ∀ d : List (String × ν),
    lookupA (d.filter (fun p => p.1 ≠ name)) name = none
  | [] => rfl
  | (k, v) :: r => by
    simp only [List.filter_cons]
    by_cases hk : k = name
    · simp only [hk, ne_eq, not_true_eq_false, decide_false, Bool.false_eq_true, if_false]
      exact lookupA_filter_self name r
    · simp only [ne_eq, hk, not_false_eq_true, decide_true, if_true, lookupA, if_false]
      exact lookupA_filter_self name r

/-- what `del t[name]` does: the name is unlisted and its entry removed; everything else is unchanged
    (`KeyError` when there was no such entry — the name is unlisted all the same) -/
theorem delCol_spec (t : Tbl) (name : String) :
    (delCol t name).1.index = t.index ∧
    (delCol t name).1.colNames = t.colNames.filter (· ≠ name) ∧
    (∀ c, c ≠ name → (delCol t name).1.col c = t.col c) ∧
    (delCol t name).1.col name = none ∧
    (delCol t name).2 = (if (t.col name).isSome then .ok () else .error .keyError) := by
  unfold delCol
  cases hc : t.col name with
  | none => exact ⟨rfl, rfl, fun _ _ => rfl, hc, rfl⟩
  | some v =>
    refine ⟨rfl, rfl, fun c hcn => ?_, ?_, rfl⟩
    · exact lookupA_filter_ne name c hcn t.data
    · exact lookupA_filter_self name t.data

/-- **deleting any column but the index column keeps the rectangle** and the length -/
theorem delCol_rect (t : Tbl) (h : Rect t) (name : String) (hn : name ≠ t.index) :
    Rect (delCol t name).1 ∧ (delCol t name).1.nrows = t.nrows := by
  obtain ⟨hi, hcn, ho, _, _⟩ := delCol_spec t name
  refine rect_of_cols _ t.nrows ?_ ?_
  · rw [hi, hcn]
    exact List.mem_filter.mpr ⟨h.1, by simpa using fun e => hn e.symm⟩
  · intro c hc
    rw [hcn] at hc
    obtain ⟨hc1, hc2⟩ := List.mem_filter.mp hc
    have : c ≠ name := by simpa using hc2
    rw [ho c this]
    exact h.2 c hc1

/-! ## 3. what the derivations contain -/

theorem cell_of_col {t : Tbl} {c : String} {v : List Cell} (h : t.col c = some v) (k : Nat) :
    t.cell c k = v[k]? := by
  unfold Tbl.cell; rw [h]; rfl

/-- a listed cell inside a rectangular table exists -/
theorem Rect.cell_isSome {t : Tbl} (h : Rect t) {c : String} (hc : c ∈ t.colNames) {k : Nat} (hk : k < t.nrows) :
    (t.cell c k).isSome := by
  obtain ⟨v, hv, hl⟩ := h.2 c hc
  rw [cell_of_col hv, List.getElem?_eq_getElem (by rw [hl]; exact hk)]; rfl

/-! ### `_copy()` -/

theorem copyT_index (t : Tbl) : (copyT t).index = t.index := rfl
theorem copyT_colNames (t : Tbl) : (copyT t).colNames = t.colNames := rfl

/-- the copy holds exactly the LISTED columns, each with the source's cells (unlisted entries are dropped) -/
theorem copyT_col (t : Tbl) (c : String) : (copyT t).col c = if c ∈ t.colNames then t.col c else none := by
  show lookupA (t.colNames.filterMap (fun c => (t.col c).map (fun v => (c, v)))) c = _
  exact lookupA_filterMap_names t.colNames t.col c

/-- **`_copy()`, cell by cell**: every listed cell of the copy is the source's cell -/
theorem copyT_cell (t : Tbl) (c : String) (hc : c ∈ t.colNames) (k : Nat) : (copyT t).cell c k = t.cell c k := by
  unfold Tbl.cell; rw [copyT_col]; simp only [hc, if_true]

/-! ### `_select_rows(positions)` -/

theorem selectRows_index (t : Tbl) (ps : List Nat) : (selectRows t ps).index = t.index := rfl
theorem selectRows_colNames (t : Tbl) (ps : List Nat) : (selectRows t ps).colNames = t.colNames := rfl

/-- **row selection, cell by cell**: for positions inside a rectangular table, cell `(c, k)` of the selection is
    cell `(c, ps[k])` of the source (and there is no cell `k` beyond `ps.length`) -/
theorem selectRows_cell (t : Tbl) (h : Rect t) (ps : List Nat) (hps : ∀ j ∈ ps, j < t.nrows)
    (c : String) (hc : c ∈ t.colNames) (k : Nat) :
    (selectRows t ps).cell c k = (ps[k]?).bind (fun j => t.cell c j) := by
  obtain ⟨v, hv, hl⟩ := h.2 c hc
  unfold Tbl.cell
  rw [selectRows_col, hv]
  simp only [Option.map_some, Option.bind_some]
  exact getElem?_filterMap_inrange v ps (fun j hj => by rw [hl]; exact hps j hj) k

theorem selectRows_cell_lt (t : Tbl) (h : Rect t) (ps : List Nat) (hps : ∀ j ∈ ps, j < t.nrows)
    (c : String) (hc : c ∈ t.colNames) (k : Nat) (hk : k < ps.length) :
    (selectRows t ps).cell c k = t.cell c ps[k] := by
  rw [selectRows_cell t h ps hps c hc k, List.getElem?_eq_getElem hk]; rfl

/-! ### `cols[names]` -/

theorem mapM_cols_keys (t : Tbl) : ∀ (names : List String) (cols : List (String × List Cell)),
    names.mapM (fun c => (t.col c).map (fun v => (c, v))) = some cols → cols.map (·.1) = names
  | [], cols, h => by
    simp only [List.mapM_nil, Option.pure_def, Option.some.injEq] at h
    subst h; rfl
  | n :: rest, cols, h => by
    simp only [List.mapM_cons, Option.bind_eq_bind] at h
    cases hn : t.col n with
    | none => simp [hn] at h
    | some v =>
      simp only [hn, Option.map_some, Option.bind_some] at h
      cases hr : rest.mapM (fun c => (t.col c).map (fun v => (c, v))) with
      | none => simp [hr] at h
      | some cols' =>
        simp only [hr, Option.bind_some, Option.pure_def, Option.some.injEq] at h
        subst h
        simp only [List.map_cons, mapM_cols_keys t rest cols' hr]

theorem lookupA_none_of_not_mem {ν : Type} : ∀ (d : List (String × ν)) (k : String), k ∉ d.map (·.1) →
    lookupA d k = none
  | [], _, _ => rfl
  | (k0, v0) :: r, k, h => by
    simp only [List.map_cons, List.mem_cons, not_or] at h
    simp only [lookupA]
    rw [if_neg (fun e => h.1 e.symm)]
    exact lookupA_none_of_not_mem r k h.2

/-- **column selection keeps the chosen columns' cells**: the result lists the chosen names (the index column
    first when it was not chosen), each chosen column IS the source's column, and nothing else is kept -/
theorem selectCols_value (t : Tbl) (names : List String) (r : Tbl) (hr : selectCols t names = .ok r) :
    r.index = t.index ∧
    r.colNames = (if t.index ∈ names then names else t.index :: names) ∧
    (∀ c ∈ r.colNames, r.col c = t.col c ∧ (t.col c).isSome) ∧
    (∀ c, c ∉ r.colNames → r.col c = none) := by
  unfold selectCols at hr
  simp only at hr
  split at hr
  · cases hr
  · next cols hm =>
    simp only [Except.ok.injEq] at hr
    subst hr
    refine ⟨rfl, rfl, fun c hc => mapM_cols t _ cols hm c hc, fun c hc => ?_⟩
    have hk := mapM_cols_keys t _ cols hm
    exact lookupA_none_of_not_mem cols c (by rw [hk]; exact hc)

theorem selectCols_cell (t : Tbl) (names : List String) (r : Tbl) (hr : selectCols t names = .ok r)
    (c : String) (hc : c ∈ r.colNames) (k : Nat) : r.cell c k = t.cell c k := by
  unfold Tbl.cell; rw [((selectCols_value t names r hr).2.2.1 c hc).1]

/-! ### `t * k` -/

theorem getElem?_replicate_flatten {α : Type} (v : List α) : ∀ (k j : Nat),
    ((List.replicate k v).flatten)[j]? = if j < k * v.length then v[j % v.length]? else none
  | 0, j => by simp
  | k+1, j => by
    simp only [List.replicate_succ, List.flatten_cons, List.getElem?_append]
    by_cases hj : j < v.length
    · have : j < (k + 1) * v.length := by rw [Nat.succ_mul]; omega
      simp only [hj, if_true, this, Nat.mod_eq_of_lt hj]
    · simp only [hj, if_false]
      rw [getElem?_replicate_flatten v k (j - v.length)]
      have hm : (j - v.length) % v.length = j % v.length := (Nat.mod_eq_sub_mod (Nat.le_of_not_lt hj)).symm
      have hc : (j - v.length < k * v.length) ↔ (j < (k + 1) * v.length) := by rw [Nat.succ_mul]; omega
      simp only [hm, hc]

/-- `t * k` on the columns: every LISTED column is repeated `k` times (unlisted entries are kept as they are) -/
theorem mulT_value (t : Tbl) (k : Nat) (r : Tbl) (hr : mulT t k = .ok r) :
    r.index = t.index ∧ r.colNames = t.colNames ∧
    ∀ c, r.col c = (t.col c).map (fun v => if c ∈ t.colNames then (List.replicate k v).flatten else v) := by
  unfold mulT at hr
  split at hr
  · cases hr
  · simp only [Except.ok.injEq] at hr
    subst hr
    refine ⟨rfl, rfl, fun c => ?_⟩
    have hform : (t.data.map (fun p => if p.1 ∈ t.colNames then (p.1, (List.replicate k p.2).flatten) else p)) =
        t.data.map (fun p => (p.1, (fun (n : String) (x : List Cell) =>
          if n ∈ t.colNames then (List.replicate k x).flatten else x) p.1 p.2)) := by
      apply List.map_congr_left
      intro p _
      by_cases hp : p.1 ∈ t.colNames <;> simp [hp]
    show lookupA (t.data.map (fun p => if p.1 ∈ t.colNames then (p.1, (List.replicate k p.2).flatten) else p)) c = _
    rw [hform]
    exact lookupA_mapKV t.data
      (fun (n : String) (x : List Cell) => if n ∈ t.colNames then (List.replicate k x).flatten else x) c

/-- **`t * k`, cell by cell**: cell `(c, j)` of the product is cell `(c, j mod n)` of the source, for `j < k·n` -/
theorem mulT_cell (t : Tbl) (h : Rect t) (k : Nat) (r : Tbl) (hr : mulT t k = .ok r)
    (c : String) (hc : c ∈ t.colNames) (j : Nat) :
    r.cell c j = if j < k * t.nrows then t.cell c (j % t.nrows) else none := by
  obtain ⟨v, hv, hl⟩ := h.2 c hc
  have hcol : r.col c = some (List.replicate k v).flatten := by
    rw [(mulT_value t k r hr).2.2 c, hv]; simp [hc]
  rw [cell_of_col hcol, cell_of_col hv, getElem?_replicate_flatten, hl]

/-! ### `a + b` and `Table.concatenate` -/

/-- cells of a column that is the concatenation of two columns -/
theorem cell_append {a b r : Tbl} {c : String} {v w : List Cell} (hv : a.col c = some v) (hw : b.col c = some w)
    (hr : r.col c = some (v ++ w)) (j : Nat) :
    r.cell c j = if j < v.length then a.cell c j else b.cell c (j - v.length) := by
  rw [cell_of_col hr, cell_of_col hv, cell_of_col hw, List.getElem?_append]

/-- `a + b` on the columns: `a`'s entries, those that `b` lists extended by `b`'s column (`KeyError` unless every
    column `b` lists is present in both) -/
theorem addT_value (a b r : Tbl) (hr : addT a b = .ok r) :
    r.index = a.index ∧ r.colNames = a.colNames ∧
    (∀ c, r.col c = (a.col c).map (fun v => if c ∈ b.colNames then v ++ (b.col c).getD [] else v)) ∧
    (∀ c ∈ b.colNames, (a.col c).isSome ∧ (b.col c).isSome) := by
  unfold addT at hr
  split at hr
  · next hall =>
    simp only [Except.ok.injEq] at hr
    subst hr
    refine ⟨rfl, rfl, fun c => ?_, fun c hc => ?_⟩
    · have hform : (a.data.map (fun p => if p.1 ∈ b.colNames then (p.1, p.2 ++ ((b.col p.1).getD [])) else p)) =
          a.data.map (fun p => (p.1, (fun (n : String) (x : List Cell) =>
            if n ∈ b.colNames then x ++ ((b.col n).getD []) else x) p.1 p.2)) := by
        apply List.map_congr_left
        intro p _
        by_cases hp : p.1 ∈ b.colNames <;> simp [hp]
      show lookupA (a.data.map (fun p => if p.1 ∈ b.colNames then (p.1, p.2 ++ ((b.col p.1).getD [])) else p)) c = _
      rw [hform]
      exact lookupA_mapKV a.data
        (fun (n : String) (x : List Cell) => if n ∈ b.colNames then x ++ ((b.col n).getD []) else x) c
    · have := List.all_eq_true.mp hall c hc
      simpa using this
  · cases hr

/-- **`a + b`, column by column**: a column both tables hold and `b` lists is `a`'s column followed by `b`'s -/
theorem addT_col (a b r : Tbl) (hr : addT a b = .ok r) (c : String) (hcb : c ∈ b.colNames) :
    ∃ v w, a.col c = some v ∧ b.col c = some w ∧ r.col c = some (v ++ w) := by
  obtain ⟨_, _, hcol, hsome⟩ := addT_value a b r hr
  obtain ⟨h1, h2⟩ := hsome c hcb
  cases hv : a.col c with
  | none => simp [hv] at h1
  | some v =>
    cases hw : b.col c with
    | none => simp [hw] at h2
    | some w => exact ⟨v, w, rfl, rfl, by rw [hcol c, hv, hw]; simp [hcb]⟩

/-- **`a + b`, cell by cell** (two different tables): rows `0 … a.nrows-1` are `a`'s rows, the following rows
    are `b`'s rows -/
theorem addT_cell (a b r : Tbl) (ha : Rect a) (hr : addT a b = .ok r)
    (c : String) (hca : c ∈ a.colNames) (hcb : c ∈ b.colNames) (j : Nat) :
    r.cell c j = if j < a.nrows then a.cell c j else b.cell c (j - a.nrows) := by
  obtain ⟨v, w, hv, hw, hvw⟩ := addT_col a b r hr c hcb
  rw [cell_append hv hw hvw j, nrows_eq a ha c hca v hv]

/-- `Table.concatenate(tables)` on the columns.  What the MODEL produces: the index is always `"name"` (the
    default of the constructor; `ValueError` unless `"name"` is a common column), the separators are the defaults,
    the listed columns are those of the first table that every other table lists too, and each is the
    concatenation, table after table, of the tables' columns. -/
theorem concatT_value (ts : List Tbl) (r : Tbl) (hr : concatT ts = .ok r) :
    r.index = "name" ∧ "name" ∈ r.colNames ∧
    (∃ t0 rest, ts = t0 :: rest ∧
      r.colNames = t0.colNames.filter (fun c => rest.all (fun t => decide (c ∈ t.colNames)))) ∧
    (∀ c ∈ r.colNames, ∃ cols, ts.mapM (fun (t : Tbl) => t.col c) = some cols ∧ r.col c = some cols.flatten) ∧
    (∀ c, c ∈ r.colNames ↔ ∀ t ∈ ts, c ∈ t.colNames) := by
  unfold concatT at hr
  cases ts with
  | nil => cases hr
  | cons t0 rest =>
    simp only at hr
    split at hr
    · next hname =>
      split at hr
      · cases hr
      · next data hm =>
        simp only [Except.ok.injEq] at hr
        subst hr
        refine ⟨rfl, hname, ⟨t0, rest, rfl, rfl⟩, fun c hc => ?_, fun c => ?_⟩
        · obtain ⟨cols, hcols, hl⟩ :=
            mapM_flatten_lookup (fun c => (t0 :: rest).mapM (fun (t : Tbl) => t.col c)) _ data hm c hc
          exact ⟨cols, hcols, hl⟩
        · simp only [List.mem_filter, List.all_eq_true, decide_eq_true_eq, List.mem_cons, forall_eq_or_imp]
    · cases hr

/-- **concatenating two tables that list the same columns**: the first table's columns, each followed by the
    second table's column -/
theorem concatT_two (a b r : Tbl) (hr : concatT [a, b] = .ok r) (hsame : ∀ c ∈ a.colNames, c ∈ b.colNames) :
    r.index = "name" ∧ r.colNames = a.colNames ∧
    ∀ c ∈ a.colNames, ∃ v w, a.col c = some v ∧ b.col c = some w ∧ r.col c = some (v ++ w) := by
  obtain ⟨hi, _, ⟨t0, rest, hts, hn⟩, hcols, _⟩ := concatT_value [a, b] r hr
  simp only [List.cons.injEq] at hts
  obtain ⟨rfl, rfl⟩ := hts
  have hn' : r.colNames = a.colNames := by
    rw [hn]
    apply List.filter_eq_self.mpr
    intro c hc
    simpa using hsame c hc
  refine ⟨hi, hn', fun c hc => ?_⟩
  obtain ⟨cols, hm, hcol⟩ := hcols c (by rw [hn']; exact hc)
  simp only [List.mapM_cons, List.mapM_nil, Option.bind_eq_bind, Option.pure_def] at hm
  cases hv : a.col c with
  | none => simp [hv] at hm
  | some v =>
    cases hw : b.col c with
    | none => simp [hv, hw] at hm
    | some w =>
      simp only [hv, hw, Option.bind_some, Option.some.injEq] at hm
      subst hm
      exact ⟨v, w, rfl, rfl, by rw [hcol]; simp⟩

/-- **concatenation of two tables, cell by cell** -/
theorem concatT_two_cell (a b r : Tbl) (ha : Rect a) (hr : concatT [a, b] = .ok r)
    (hsame : ∀ c ∈ a.colNames, c ∈ b.colNames) (c : String) (hc : c ∈ a.colNames) (j : Nat) :
    r.cell c j = if j < a.nrows then a.cell c j else b.cell c (j - a.nrows) := by
  obtain ⟨v, w, hv, hw, hvw⟩ := (concatT_two a b r hr hsame).2.2 c hc
  rw [cell_append hv hw hvw j, nrows_eq a ha c hc v hv]

/-! ### `t._t` -/

theorem rowName_ne_columns (k : Nat) : "row" ++ toString k ≠ "columns" := by
  intro h
  have := congrArg String.toList h
  simp at this

theorem rowName_inj (i j : Nat) (h : "row" ++ toString i = "row" ++ toString j) : i = j := by
  have h1 : toString i = toString j := (String.append_right_inj "row").mp h
  exact Nat.repr_inj.mp h1

theorem lookupA_map_inj {ν : Type} (key : Nat → String) (hinj : ∀ i j, key i = key j → i = j) (f : Nat → ν) :
    ∀ (l : List Nat) (k : Nat), k ∈ l → lookupA (l.map (fun i => (key i, f i))) (key k) = some (f k)
  | [], _, h => by cases h
  | i :: l, k, h => by
    simp only [List.map_cons, lookupA]
    by_cases e : key i = key k
    · rw [if_pos e, hinj i k e]
    · rw [if_neg e]
      rcases List.mem_cons.mp h with rfl | h'
      · exact absurd rfl e
      · exact lookupA_map_inj key hinj f l k h'

/-- the text of a cell of the transposed table: the source cell rendered as a string, `""` when there is none -/
def cellText (x : Option Cell) : Cell := Cell.str ((x.map cellStr).getD "")

/-- **what the model's transposition produces**: index `"columns"`; the column `"columns"` holds the source's listed
    names; for every row `k` of the source there is a column `row<k>` holding, for each listed column `c` of the
    source in order, the TEXT of cell `(c, k)` (numbers are rendered by `cellStr`, every cell is a string) -/
theorem transposeT_value (t : Tbl) :
    (transposeT t).index = "columns" ∧
    (transposeT t).colNames = "columns" :: (List.range t.nrows).map (fun k => "row" ++ toString k) ∧
    (transposeT t).col "columns" = some (t.colNames.map Cell.str) ∧
    ∀ k, k < t.nrows →
      (transposeT t).col ("row" ++ toString k) = some (t.colNames.map (fun c => cellText (t.cell c k))) := by
  refine ⟨rfl, rfl, ?_, fun k hk => ?_⟩
  · simp [transposeT, Tbl.col, lookupA]
  · have hne : ¬ "columns" = "row" ++ toString k := fun e => rowName_ne_columns k e.symm
    have hfun : ∀ k : Nat, (t.colNames.map (fun c => match (t.col c).bind (fun v => v[k]?) with
          | some x => Cell.str (cellStr x) | none => Cell.str "")) =
        t.colNames.map (fun c => cellText (t.cell c k)) := by
      intro k
      apply List.map_congr_left
      intro c _
      unfold cellText Tbl.cell
      cases (t.col c).bind (fun v => v[k]?) <;> rfl
    show lookupA (("columns", t.colNames.map Cell.str) ::
      (List.range t.nrows).map (fun k => ("row" ++ toString k,
        t.colNames.map (fun c => match (t.col c).bind (fun v => v[k]?) with
          | some x => Cell.str (cellStr x) | none => Cell.str ""))) ) ("row" ++ toString k) = _
    simp only [lookupA, hne, if_false, hfun]
    exact lookupA_map_inj (fun k => "row" ++ toString k) rowName_inj
      (fun k => t.colNames.map (fun c => cellText (t.cell c k))) (List.range t.nrows) k (List.mem_range.mpr hk)

/-- **transposition, cell by cell**: cell `i` of `row<k>` is the text of cell `k` of the source's `i`-th listed column -/
theorem transposeT_cell (t : Tbl) (k : Nat) (hk : k < t.nrows) (i : Nat) :
    (transposeT t).cell "columns" i = (t.colNames[i]?).map Cell.str ∧
    (transposeT t).cell ("row" ++ toString k) i = (t.colNames[i]?).map (fun c => cellText (t.cell c k)) := by
  obtain ⟨_, _, h1, h2⟩ := transposeT_value t
  rw [cell_of_col h1, cell_of_col (h2 k hk)]
  simp only [List.getElem?_map, and_self]

/-- in a rectangular source every transposed cell is the rendering of an existing cell -/
theorem transposeT_cell_rect (t : Tbl) (h : Rect t) (k : Nat) (hk : k < t.nrows) (i : Nat) (hi : i < t.colNames.length) :
    ∃ x, t.cell t.colNames[i] k = some x ∧
      (transposeT t).cell ("row" ++ toString k) i = some (Cell.str (cellStr x)) := by
  have hs := Rect.cell_isSome h (List.getElem_mem hi) hk
  cases hx : t.cell t.colNames[i] k with
  | none => simp [hx] at hs
  | some x =>
    refine ⟨x, rfl, ?_⟩
    rw [(transposeT_cell t k hk i).2, List.getElem?_eq_getElem hi]
    simp [cellText, hx]

/-! ## 4. chains of derivations and assignments, with other tables -/

/-- row selection by positions inside the table (the statement of `C14_rows_rect_partial`, proved here so that
    this file depends on `XModel` only) -/
theorem selectRows_rect (t : Tbl) (h : Rect t) (ps : List Nat) (hps : ∀ k ∈ ps, k < t.nrows) :
    Rect (selectRows t ps) ∧ (selectRows t ps).nrows = ps.length := by
  refine rect_of_cols _ ps.length h.1 ?_
  intro c hc
  obtain ⟨v, hv, hl⟩ := h.2 c hc
  refine ⟨ps.filterMap (fun k => v[k]?), by rw [selectRows_col, hv]; rfl, ?_⟩
  clear hv hc
  induction ps with
  | nil => rfl
  | cons k rest ih =>
    have hk : k < v.length := by rw [hl]; exact hps k (by simp)
    simp only [List.filterMap_cons, List.getElem?_eq_getElem hk, List.length_cons]
    rw [ih (fun j hj => hps j (List.mem_cons_of_mem _ hj))]

/-- the API as one language: the derivations (with OTHER tables for `+` and `concatenate`) and the assignments -/
inductive Deriv2 where
  | rows (ps : List Nat)
  | cols (names : List String)
  | copy
  | mul (k : Nat)
  | add (other : Tbl)                                  -- `t + other`
  | concat (others : List Tbl)                         -- `Table.concatenate([t] + others)`
  | transpose
  | setCol (name : String) (vals : List Cell)          -- `t[name] = vals`, also a new column or a scalar entry
  | setCell (col : String) (row : Row) (v : Cell)      -- `t[col, row] = v`
  | delCol (name : String)                             -- `del t[name]`

/-- One step.  The model functions are applied as they are; the guards (`rows`: positions inside the table,
    `cols`: listed names, `add`: every listed column of `t` is listed by `other`, `delCol`: not the index column)
    delimit the calls the theorem speaks about — a guarded-out step ends the chain with an error and is NOT a claim
    about what Python raises.  For the assignments the step yields the table AFTER the call, whether the call
    succeeded or raised. -/
def applyDeriv2 (t : Tbl) : Deriv2 → Except TErr Tbl
  | .rows ps => if ps.all (· < t.nrows) then .ok (selectRows t ps) else .error .indexError
  | .cols names => if names.all (· ∈ t.colNames) then selectCols t names else .error .keyError
  | .copy => .ok (copyT t)
  | .mul k => mulT t k
  | .add other => if t.colNames.all (· ∈ other.colNames) then addT t other else .error .valueError
  | .concat others => concatT (t :: others)
  | .transpose => .ok (transposeT t)
  | .setCol n v => .ok (setCol t n v).1
  | .setCell c r v => .ok (setCell t c r v).1
  | .delCol n => if n = t.index then .error .valueError else .ok (delCol t n).1

/-- the side condition on the OTHER tables of a step: they are rectangular themselves -/
def Deriv2.Valid : Deriv2 → Prop
  | .add other => Rect other
  | .concat others => ∀ o ∈ others, Rect o
  | _ => True

theorem step2_rect (t : Tbl) (h : Rect t) (d : Deriv2) (hv : d.Valid) (r : Tbl) (hr : applyDeriv2 t d = .ok r) :
    Rect r := by
  cases d with
  | rows ps =>
    simp only [applyDeriv2] at hr
    split at hr
    · next hall =>
      cases hr
      exact (selectRows_rect t h ps (fun k hk => by simpa using List.all_eq_true.mp hall k hk)).1
    · cases hr
  | cols names =>
    simp only [applyDeriv2] at hr
    split at hr
    · next hall =>
      exact (selectCols_rect t h names (fun c hc => by simpa using List.all_eq_true.mp hall c hc) r hr).1
    · cases hr
  | copy => simp only [applyDeriv2, Except.ok.injEq] at hr; subst hr; exact (copyT_rect t h).1
  | mul k => exact (mulT_rect t h k r hr).1
  | add other =>
    simp only [applyDeriv2] at hr
    split at hr
    · next hall =>
      exact (addT_rect t other h hv (fun c hc => by simpa using List.all_eq_true.mp hall c hc) r hr).1
    · cases hr
  | concat others =>
    refine (concatT_rect (t :: others) r ?_ hr).1
    intro u hu
    rcases List.mem_cons.mp hu with rfl | hu
    · exact h
    · exact hv u hu
  | transpose => simp only [applyDeriv2, Except.ok.injEq] at hr; subst hr; exact (transposeT_rect t).1
  | setCol n v => simp only [applyDeriv2, Except.ok.injEq] at hr; subst hr; exact (setCol_rect t h n v).1
  | setCell c row v => simp only [applyDeriv2, Except.ok.injEq] at hr; subst hr; exact (setCell_rect t h c row v).1
  | delCol n =>
    simp only [applyDeriv2] at hr
    split at hr
    · cases hr
    · next hn => simp only [Except.ok.injEq] at hr; subst hr; exact (delCol_rect t h n hn).1

/-- **every chain** of derivations (with other rectangular tables) and assignments that starts from a rectangular
    table ends in a rectangular table -/
theorem chain2_rect : ∀ (ds : List Deriv2) (t r : Tbl), Rect t → (∀ d ∈ ds, d.Valid) →
    ds.foldlM applyDeriv2 t = .ok r → Rect r
  | [], t, r, h, _, hr => by
    simp only [List.foldlM_nil, pure, Except.pure, Except.ok.injEq] at hr
    subst hr; exact h
  | d :: ds, t, r, h, hv, hr => by
    simp only [List.foldlM_cons, bind, Except.bind] at hr
    cases h1 : applyDeriv2 t d with
    | error e => simp [h1] at hr
    | ok t1 =>
      simp only [h1] at hr
      exact chain2_rect ds t1 r (step2_rect t h d (hv d (List.mem_cons_self ..)) t1 h1)
        (fun d' hd' => hv d' (List.mem_cons_of_mem _ hd')) hr

/-- the same, from the constructor: nothing is assumed about the starting table but that `Table(…)` accepted it -/
theorem chain2_from_new (cols : List (String × List Cell)) (index : String) (t : Tbl) (hnew : newT cols index = .ok t)
    (ds : List Deriv2) (r : Tbl) (hv : ∀ d ∈ ds, d.Valid) (hr : ds.foldlM applyDeriv2 t = .ok r) : Rect r :=
  chain2_rect ds t r (newT_rect cols index t hnew).1 hv hr

/-! ## 5. concrete instances: the hypotheses are satisfiable, and what the model does in the corner cases -/

/-- three rows `a, b, c` with an integer column `k` -/
def demoA : Tbl :=
  { index := "name", colNames := ["name", "k"],
    data := [("name", [.str "a", .str "b", .str "c"]), ("k", [.int 1, .int 2, .int 3])], cache := none }

/-- a DIFFERENT table with the same listed columns: two rows `d, e` -/
def demoB : Tbl :=
  { index := "name", colNames := ["name", "k"],
    data := [("name", [.str "d", .str "e"]), ("k", [.int 4, .int 5])], cache := none }

-- (1) the constructor: accepted, and the two refusals
example : newT [("name", [.str "a", .str "b", .str "c"]), ("k", [.int 1, .int 2, .int 3])] "name" = .ok demoA := by rfl
example : newT [("name", [.str "a", .str "b", .str "c"]), ("k", [.int 1, .int 2])] "name" = .error .valueError := by rfl
example : newT [("nm", [.str "a"]), ("k", [.int 1])] "name" = .error .valueError := by rfl

theorem demoA_rect : Rect demoA :=
  (newT_rect [("name", [.str "a", .str "b", .str "c"]), ("k", [.int 1, .int 2, .int 3])] "name" demoA (by rfl)).1
theorem demoB_rect : Rect demoB :=
  (newT_rect [("name", [.str "d", .str "e"]), ("k", [.int 4, .int 5])] "name" demoB (by rfl)).1

example : demoA.nrows = 3 ∧ demoA.cell "k" 1 = some (.int 2) := by decide

-- (2) assignments.  A listed column is replaced by a value of the table's length …
example : (setCol demoA "k" [.int 7, .int 8, .int 9]).2 = .ok () ∧
    (setCol demoA "k" [.int 7, .int 8, .int 9]).1.col "k" = some [.int 7, .int 8, .int 9] := ⟨rfl, by decide⟩
-- … a length-1 value is broadcast, any other length is a `ValueError` that leaves the column as it was;
example : (setCol demoA "k" [.int 7]).1.col "k" = some [.int 7, .int 7, .int 7] := by decide
example : (setCol demoA "k" [.int 7, .int 8]).2 = .error .valueError ∧
    (setCol demoA "k" [.int 7, .int 8]).1.col "k" = some [.int 1, .int 2, .int 3] := ⟨rfl, by decide⟩
-- a NEW name with the table's length becomes a listed column, with another length an UNLISTED entry:
example : (setCol demoA "z" [.int 7, .int 8, .int 9]).1.colNames = ["name", "k", "z"] := by decide
example : (setCol demoA "z" [.int 7]).2 = .ok () ∧ (setCol demoA "z" [.int 7]).1.colNames = ["name", "k"] ∧
    (setCol demoA "z" [.int 7]).1.col "z" = some [.int 7] := ⟨rfl, by decide⟩
-- a cell assignment (last row, by negative position), a deletion:
example : (setCell demoA "k" (.pos (-1)) (.int 0)).1.col "k" = some [.int 1, .int 2, .int 0] := by decide
example : (delCol demoA "k").1.colNames = ["name"] ∧ (delCol demoA "k").1.col "k" = none := by decide
-- deleting the INDEX column is what `delCol_rect` excludes: the result is not rectangular
example : rectB (delCol demoA "name").1 = false := by decide

-- (3) values.  The model's copy keeps the listed columns only (an unlisted entry is dropped):
example : (copyT (setCol demoA "z" [.int 7]).1).col "z" = none ∧
    (copyT (setCol demoA "z" [.int 7]).1).col "k" = some [.int 1, .int 2, .int 3] := by decide
example : (selectRows demoA [2, 0]).cell "k" 0 = some (.int 3) ∧ (selectRows demoA [2, 0]).cell "name" 1 = some (.str "a") := by
  decide
example : (selectCols demoA ["k"]).toOption.map (·.colNames) = some ["name", "k"] := by decide
example : (mulT demoA 2).toOption.bind (·.col "k") = some [.int 1, .int 2, .int 3, .int 1, .int 2, .int 3] := by decide
example : (addT demoA demoB).toOption.bind (·.col "k") = some [.int 1, .int 2, .int 3, .int 4, .int 5] := by decide
example : (concatT [demoA, demoB]).toOption.bind (·.col "name") =
    some [.str "a", .str "b", .str "c", .str "d", .str "e"] := by decide
-- `a + b` when `a` lists a column that `b` does not list: accepted by the model, and NOT rectangular — this is
-- why `addT_rect` and the `add` step ask that every listed column of `a` be listed by `b`
example : ((addT (setCol demoA "z" [.int 7, .int 8, .int 9]).1 demoB).toOption.map rectB) = some false := by decide
-- `concatenate` builds its result with the default index `"name"`: tables indexed otherwise are refused
example : concatT [{ demoA with index := "k" }, { demoB with index := "k" }] =
    concatT [demoA, demoB] := by rfl
example : concatT [(transposeT demoA), (transposeT demoA)] = .error .valueError := by rfl
-- transposition: one row per listed column, one string column per source row
example : (transposeT demoA).colNames = ["columns", "row0", "row1", "row2"] ∧
    (transposeT demoA).col "columns" = some [.str "name", .str "k"] ∧
    (transposeT demoA).col "row1" = some [.str "b", .str "2"] := by decide

-- the value theorems instantiated on two DIFFERENT tables (their hypotheses hold)
example : (selectRows demoA [2, 0]).cell "k" 0 = demoA.cell "k" 2 :=
  selectRows_cell_lt demoA demoA_rect [2, 0] (by decide) "k" (by decide) 0 (by decide)
example : ∃ r, addT demoA demoB = .ok r ∧ r.cell "k" 1 = demoA.cell "k" 1 ∧ r.cell "k" 4 = demoB.cell "k" 1 := by
  cases h : addT demoA demoB with
  | error e => exact absurd h (by intro h'; cases h')
  | ok r =>
    have h1 := addT_cell demoA demoB r demoA_rect h "k" (by decide) (by decide) 1
    have h4 := addT_cell demoA demoB r demoA_rect h "k" (by decide) (by decide) 4
    have hn : demoA.nrows = 3 := by decide
    rw [hn] at h1 h4
    exact ⟨r, rfl, by simpa using h1, by simpa using h4⟩
example : ∃ r, concatT [demoA, demoB] = .ok r ∧ r.colNames = demoA.colNames ∧ r.cell "name" 3 = demoB.cell "name" 0 := by
  cases h : concatT [demoA, demoB] with
  | error e => exact absurd h (by intro h'; cases h')
  | ok r =>
    have hsame : ∀ c ∈ demoA.colNames, c ∈ demoB.colNames := by decide
    have h3 := concatT_two_cell demoA demoB r demoA_rect h hsame "name" (by decide) 3
    have hn : demoA.nrows = 3 := by decide
    rw [hn] at h3
    exact ⟨r, rfl, (concatT_two demoA demoB r h hsame).2.1, by simpa using h3⟩
example : ∃ r, mulT demoA 2 = .ok r ∧ r.cell "k" 4 = demoA.cell "k" 1 := by
  cases h : mulT demoA 2 with
  | error e => exact absurd h (by intro h'; cases h')
  | ok r =>
    have h4 := mulT_cell demoA demoA_rect 2 r h "k" (by decide) 4
    have hn : demoA.nrows = 3 := by decide
    rw [hn] at h4
    exact ⟨r, rfl, by simpa using h4⟩
example : (transposeT demoA).cell "row2" 1 = some (.str "3") := by
  have := (transposeT_cell demoA 2 (by decide) 1).2
  rw [show "row" ++ toString 2 = "row2" from by decide] at this
  rw [this]; decide

-- (4) a chain with other tables and assignments; its side conditions hold
def demoChain : List Deriv2 :=
  [.setCol "z" [.int 7, .int 8, .int 9], .setCell "k" (.name "b") (.int 20), .delCol "z", .add demoB,
   .concat [demoB, demoA], .rows [7, 1, 3], .mul 2, .copy, .cols ["k"], .transpose]

theorem demoChain_valid : ∀ d ∈ demoChain, d.Valid := by
  intro d hd
  simp only [demoChain, List.mem_cons, List.not_mem_nil, or_false] at hd
  rcases hd with rfl | rfl | rfl | rfl | rfl | rfl | rfl | rfl | rfl | rfl
  all_goals first
    | exact trivial
    | exact demoB_rect
    | (intro o ho
       simp only [List.mem_cons, List.not_mem_nil, or_false] at ho
       rcases ho with rfl | rfl
       · exact demoB_rect
       · exact demoA_rect)

example : (demoChain.foldlM applyDeriv2 demoA).toOption.map (fun r => (r.colNames, r.col "row0", r.col "row1")) =
    some (["columns", "row0", "row1", "row2", "row3", "row4", "row5"],
          some [.str "a", .str "1"], some [.str "b", .str "20"]) := by decide

example : ∃ r, demoChain.foldlM applyDeriv2 demoA = .ok r ∧ Rect r := by
  have hs : (demoChain.foldlM applyDeriv2 demoA).toOption.isSome = true := by decide
  cases h : demoChain.foldlM applyDeriv2 demoA with
  | error e => rw [h] at hs; cases hs
  | ok r => exact ⟨r, rfl, chain2_rect demoChain demoA r demoA_rect demoChain_valid h⟩

end TableM
