import XModel.ManagerFn
/-!
# C01 with function tasks, along histories

`ManagerFn.lean` proves the one-step theorem for `set_value(ref, value)` with expression and function tasks around.
Here it is lifted to histories in the style of `GoodRun` / `goodRun_consistent` / `goodRunB` (`ManagerC01.lean`,
`Acyclic.lean`).

`Manager.register(task)` does **not** run the task, so right after registering a function task its targets need not
hold what the task prescribes.  The development therefore tracks the list `U` of *unsettled* task ids:

* `ConsistentU U s` — every item of every task whose id is not in `U` holds;
* `register t` puts `t.id` into `U`, unless the (decidable, sufficient) test `itemsHoldB` finds that the items of `t`
  already hold in the current store;
* an assignment removes from `U` every task it triggers (they are run) and the assigned location itself;
* `unregister id` removes `id` from `U` when it succeeds.

The one-step theorem is proved again in the strengthened form this needs (`writeAndRun_consistentU`): only the
*settled, untriggered* tasks are assumed to hold before the call; all settled and all triggered tasks hold after it.
The same statement also covers a definition sitting at the assigned location whose expression evaluates to the value
being written, which gives `set_value(ref, expression)` in the presence of function tasks (the mixed case).

Main results: `goodRunU_consistentU` (any set of unsettled tasks), `goodRunF_consistentF` (`GoodRunF`: the history is
in scope and ends with nothing unsettled), `goodRunFB_sound` and `C01F_decided` (everything decided).
-/
namespace Manager
open Store Push Index

/-! ### the scope of one assignment, with function tasks and possibly a definition at the assigned location -/

/-- `ScopeF`, except that the assigned location only has to be away from the targets of the *other* tasks:
    a task whose id is the assigned location is the definition `set_value(ref, expression)` has just installed. -/
structure ScopeG (s : MState) (p : Path) : Prop where
  decl : ∀ t ∈ s.defs, DeclOK t
  pathP : PathOK p
  paths : ∀ t ∈ s.defs, ∀ it ∈ itemsOf t, PathOK it.target ∧ ∀ r ∈ leafRefs it.expr, PathOK r
  acyclic : ∀ a b, (∃ s0 ∈ startOf s.idx (chainR p), Dfs3.Reach (gOf s.idx) s0 a) → a ≠ b →
      Dfs3.Reach (gOf s.idx) a b → Dfs3.Reach (gOf s.idx) b a → False
  /-- the locations written by different tasks are incomparable -/
  h2 : ∀ t ∈ s.defs, ∀ u ∈ s.defs, t.id ≠ u.id → ∀ a ∈ itemsOf t, ∀ b ∈ itemsOf u, Incomparable b.target a.target
  /-- … and so is the assigned one -/
  h2p : ∀ t ∈ s.defs, t.id ≠ p → ∀ it ∈ itemsOf t, Incomparable p it.target
  /-- no item reads what it writes -/
  h3 : ∀ t ∈ s.defs, ∀ it ∈ itemsOf t, ∀ r ∈ leafRefs it.expr, Incomparable it.target r
  /-- within one body a later line does not disturb an earlier one -/
  body : ∀ t ∈ s.defs, (itemsOf t).Pairwise (fun a b => Incomparable b.target a.target ∧
      ∀ r ∈ leafRefs a.expr, Incomparable b.target r)
  nofault : s.faultIn = none

theorem ScopeF.toG {s : MState} {p : Path} (sc : ScopeF s p) : ScopeG s p :=
  { decl := sc.decl, pathP := sc.pathP, paths := sc.paths, acyclic := sc.acyclic, h2 := sc.h2,
    h2p := fun t ht _ => sc.h2p t ht, h3 := sc.h3, body := sc.body, nofault := sc.nofault }

/-- **One assignment, after the graph part of `set_value`, with unsettled tasks.**  `St` says which task ids are
    settled.  If every settled task that is neither triggered nor sitting at `p` holds, the task at `p` (if there is
    one) writes `p` and evaluates to the value being written, and the scheduler returns a legal order, then after a
    completed `write + run_tasks` every task that is settled, triggered or sitting at `p` holds. -/
theorem writeAndRun_consistentU (sched : Sched) (St : Path → Prop) (s : MState) (p : Path) (v : Val) (hi : MInv s)
    (sc : ScopeG s p)
    (hvs : ValidSched (gOf s.idx) (findTaskids s.idx (chainR p)) (sched (findTaskids s.idx (chainR p))))
    (hbefore : ∀ t ∈ s.defs, t.id ≠ p → t.id ∉ sched (findTaskids s.idx (chainR p)) → St t.id →
      ∀ it ∈ itemsOf t, (exprSys pySem).Q it s.store)
    (hself : ∀ t ∈ s.defs, t.id = p → ∀ it ∈ itemsOf t, it.target = p ∧ eval pySem s.store it.expr = .ok v)
    (s' : MState) (hok : writeAndRun sched s p v = (s', none)) :
    (∀ t ∈ s'.defs, (St t.id ∨ t.id ∈ sched (findTaskids s.idx (chainR p)) ∨ t.id = p) →
      ∀ it ∈ itemsOf t, (exprSys pySem).Q it s'.store) ∧
    s'.defs = s.defs ∧ s'.idx = s.idx ∧ s'.faultIn = none ∧ s'.frozen = s.frozen := by
  unfold writeAndRun at hok
  cases hw : writeRef s p v with
  | mk s1 x =>
    cases x with
    | some x => simp [hw] at hok
    | none =>
      simp only [hw] at hok
      obtain ⟨hset, hnf1, hd1, hi1, hf1⟩ := writeRef_nofault s p v sc.nofault s1 hw
      rw [hi1, hd1] at hok
      generalize hm : List.mapM (lookTask s.defs) (sched (findTaskids s.idx (chainR p))) = res at hok
      cases res with
      | error e => simp at hok
      | ok l =>
        simp only at hok
        obtain ⟨hlmap, hlsub⟩ := mapM_lookDef s.defs _ (lookTask_ok s.defs) _ l hm
        obtain ⟨hrun, hnf'⟩ := runTasks_items l s1 s' hnf1 (fun t ht => declOK_kind (sc.decl t (hlsub t ht))) hok
        have hg := runTasks_graph l s1
        rw [hok] at hg
        obtain ⟨hgi, hgd, hgf⟩ := hg
        obtain ⟨_, hmem, _⟩ := findTaskids_spec s hi (chainR p) sc.acyclic
        generalize hπ : sched (findTaskids s.idx (chainR p)) = π at hvs hlmap hbefore
        have memπ : ∀ x, x ∈ π ↔ ∃ s0 ∈ startOf s.idx (chainR p), Dfs3.Reach (gOf s.idx) s0 x :=
          fun x => (hvs.mem x).trans (hmem x)
        have hlπ : ∀ t ∈ l, t.id ∈ π := fun t ht => by rw [← hlmap]; exact List.mem_map_of_mem ht
        have hlnd : (l.map (·.id)).Nodup := by rw [hlmap]; exact hvs.nodup
        -- non-interference from the absence of an edge
        have niOf : ∀ U ∈ s.defs, ∀ T ∈ s.defs, U.id ≠ T.id → T.id ∉ gOf s.idx U.id →
            ∀ a ∈ itemsOf U, ∀ b ∈ itemsOf T, (exprSys pySem).NI a b := by
          intro U hU T hT hne hno a ha b hb
          refine ⟨(sc.paths U hU a ha).1.2, (sc.paths T hT b hb).1.2, sc.h2 T hT U hU (fun e => hne e.symm) b hb a ha, ?_⟩
          intro r hr
          refine ⟨((sc.paths T hT b hb).2 r hr).2, Classical.byContradiction fun hcmp => hno ?_⟩
          exact edge_of_readF s hi U T hU hT (sc.decl U hU) (sc.decl T hT) a ha b hb (sc.paths U hU a ha).1.1 r hr
            ((sc.paths T hT b hb).2 r hr).1 hcmp
        have key := runAll_Q (exprSys pySem) (l.flatMap itemsOf) s1.store s'.store
          (fun it => ∃ t ∈ s.defs, t.id ∉ π ∧ (St t.id ∨ t.id = p) ∧ it ∈ itemsOf t) hrun
          (by
            intro it hit
            obtain ⟨t, ht, hitt⟩ := List.mem_flatMap.mp hit
            exact ⟨(sc.paths t (hlsub t ht) it hitt).1.2, fun r hr =>
              ⟨((sc.paths t (hlsub t ht) it hitt).2 r hr).2, sc.h3 t (hlsub t ht) it hitt r hr⟩⟩)
          (by
            -- items of settled untriggered tasks still hold after the user's write
            rintro it ⟨t, ht, hnot, hst, hit⟩
            obtain ⟨hpt, hpr⟩ := sc.paths t ht it hit
            by_cases hp : t.id = p
            · -- the definition sitting at `p`
              obtain ⟨htar, hev⟩ := hself t ht hp it hit
              refine ⟨v, ?_, ?_⟩
              · rw [← hev]
                refine eval_frame pySem _ _ _ (fun r hr => ?_)
                exact get_set_incomparable hset (htar ▸ sc.h3 t ht it hit r hr) sc.pathP.2 (hpr r hr).2
              · rw [htar]; exact get_set_same hset
            · have hst' : St t.id := by
                rcases hst with h | h
                · exact h
                · exact absurd h hp
              refine Capstone.Q_after_set pySem it s.store s1.store p v (hbefore t ht hp hnot hst' it hit) hset
                sc.pathP.2 hpt.2 (sc.h2p t ht hp it hit) ?_
              intro r hr
              refine ⟨(hpr r hr).2, Classical.byContradiction fun hcmp => hnot ?_⟩
              have := start_of_readF s hi p t ht (sc.decl t ht) it hit sc.pathP.1 r hr (hpr r hr).1 hcmp
              exact (memπ t.id).mpr ⟨t.id, this, Dfs3.Reach.refl _⟩)
          (by
            -- and no triggered item disturbs them
            rintro it ⟨t, ht, hnot, _, hit⟩ u hu
            obtain ⟨U, hU, huU⟩ := List.mem_flatMap.mp hu
            have hne : U.id ≠ t.id := fun e => hnot (e ▸ hlπ U hU)
            refine niOf U (hlsub U hU) t ht hne ?_ u huU it hit
            intro hedge
            obtain ⟨s0, hs0, hreach⟩ := (memπ U.id).mp (hlπ U hU)
            exact hnot ((memπ t.id).mpr ⟨s0, hs0, hreach.tail hedge⟩))
          (by
            -- the flattened list is in dependency order
            rw [List.pairwise_flatMap]
            constructor
            · intro t ht
              refine (sc.body t (hlsub t ht)).imp_of_mem ?_
              intro a b ha hb hab
              exact ⟨(sc.paths t (hlsub t ht) b hb).1.2, (sc.paths t (hlsub t ht) a ha).1.2, hab.1,
                fun r hr => ⟨((sc.paths t (hlsub t ht) a ha).2 r hr).2, hab.2 r hr⟩⟩
            · apply Capstone.pairwise_of_before (·.id) _ l hlnd
              intro A hA B hB hne hnot
              rw [hlmap]
              -- some item of B disturbs some item of A: B is a predecessor of A
              have hedge : A.id ∈ gOf s.idx B.id := by
                refine Classical.byContradiction fun hno => hnot ?_
                intro a ha b hb
                exact niOf B (hlsub B hB) A (hlsub A hA) (fun e => hne e.symm) hno b hb a ha
              exact hvs.order B.id A.id (hlπ B hB) (hlπ A hA) hedge hne)
        refine ⟨?_, by rw [hgd, hd1], by rw [hgi, hi1], hnf', by rw [hgf, hf1]⟩
        intro t ht hcase it hit
        rw [hgd, hd1] at ht
        by_cases hin : t.id ∈ π
        · have : t.id ∈ l.map (·.id) := by rw [hlmap]; exact hin
          obtain ⟨t', ht', hte⟩ := List.mem_map.mp this
          have : t' = t := eq_of_id_eq s.defs hi.ids t' (hlsub t' ht') t ht hte
          subst this
          exact key.2 it (List.mem_flatMap.mpr ⟨t', ht', hit⟩)
        · refine key.1 it ⟨t, ht, hin, ?_, hit⟩
          rcases hcase with h | h | h
          · exact Or.inl h
          · exact absurd h hin
          · exact Or.inr h

/-! ### unsettled tasks -/

/-- every item of every *settled* definition holds (`U` lists the ids of the unsettled ones) -/
def ConsistentU (U : List Path) (s : MState) : Prop :=
  ∀ t ∈ s.defs, t.id ∉ U → ∀ it ∈ itemsOf t, (exprSys pySem).Q it s.store

theorem consistentU_nil (s : MState) : ConsistentU [] s ↔ ConsistentF s :=
  ⟨fun h t ht it hit => h t ht (by simp) it hit, fun h t ht _ it hit => h t ht it hit⟩

theorem ConsistentU.mono {U V : List Path} {s : MState} (h : ConsistentU U s) (hsub : ∀ x ∈ U, x ∈ V) :
    ConsistentU V s := fun t ht hn it hit => h t ht (fun hx => hn (hsub _ hx)) it hit

/-- equality of scalar values (a sufficient test: containers are never reported equal) -/
def scalarEqB : Val → Val → Bool
  | .int a, .int b => decide (a = b)
  | .none, .none => true
  | .nan, .nan => true
  | _, _ => false

theorem scalarEqB_sound : ∀ (a b : Val), scalarEqB a b = true → a = b
  | .int a, .int b, h => by simp only [scalarEqB, decide_eq_true_eq] at h; rw [h]
  | .none, .none, _ => rfl
  | .nan, .nan, _ => rfl
  | .int _, .none, h | .int _, .nan, h | .int _, .dict _, h | .int _, .list _, h | .int _, .obj _, h => by
    simp [scalarEqB] at h
  | .none, .int _, h | .none, .nan, h | .none, .dict _, h | .none, .list _, h | .none, .obj _, h => by
    simp [scalarEqB] at h
  | .nan, .int _, h | .nan, .none, h | .nan, .dict _, h | .nan, .list _, h | .nan, .obj _, h => by
    simp [scalarEqB] at h
  | .dict _, _, h | .list _, _, h | .obj _, _, h => by simp [scalarEqB] at h

/-- the item holds in the store, decided (sufficient) -/
def itemHoldsB (σ : Val) (it : ETask) : Bool :=
  match eval pySem σ it.expr, get σ it.target with
  | .ok v, .ok w => scalarEqB v w
  | _, _ => false

theorem itemHoldsB_sound (σ : Val) (it : ETask) (h : itemHoldsB σ it = true) : (exprSys pySem).Q it σ := by
  unfold itemHoldsB at h
  cases hev : eval pySem σ it.expr with
  | error x => simp [hev] at h
  | ok v =>
    cases hg : get σ it.target with
    | error x => simp [hev, hg] at h
    | ok w =>
      simp only [hev, hg] at h
      have := scalarEqB_sound v w h
      subst this
      exact ⟨v, hev, hg⟩

/-- all items of the task hold in the store, decided (sufficient) -/
def itemsHoldB (σ : Val) (t : MTask) : Bool := (itemsOf t).all (itemHoldsB σ)

theorem itemsHoldB_sound (σ : Val) (t : MTask) (h : itemsHoldB σ t = true) :
    ∀ it ∈ itemsOf t, (exprSys pySem).Q it σ := by
  unfold itemsHoldB at h
  rw [List.all_eq_true] at h
  exact fun it hit => itemHoldsB_sound σ it (h it hit)

/-- an assignment to `p` that triggers `π` settles the tasks in `π` and whatever sits at `p` -/
def settle (U π : List Path) (p : Path) : List Path :=
  U.filter (fun u => !decide (u = p) && !decide (u ∈ π))

theorem not_mem_settle {U π : List Path} {p x : Path} (h : x ∉ settle U π p) : x ∉ U ∨ x ∈ π ∨ x = p := by
  unfold settle at h
  by_cases hU : x ∈ U
  · by_cases hp : x = p
    · exact Or.inr (Or.inr hp)
    · by_cases hπ : x ∈ π
      · exact Or.inr (Or.inl hπ)
      · exact absurd (List.mem_filter.mpr ⟨hU, by simp [hp, hπ]⟩) h
  · exact Or.inl hU

/-- the unsettled tasks after one of the two assignments -/
def assignU (sched : Sched) (U : List Path) (s : MState) : Call → List Path
  | .setValue p _ => settle U (sched (findTaskids (preState s p).idx (chainR p))) p
  | .setExpr p e => settle U (sched (findTaskids (defPart s p e).idx (chainR p))) p
  | _ => U

/-- the unsettled tasks after one call -/
def stepU (sched : Sched) (U : List Path) (s : MState) : Call → List Path
  | .setValue p v => assignU sched U s (.setValue p v)
  | .setExpr p e => assignU sched U s (.setExpr p e)
  | .inplace op p operand =>
    match inplaceCall s op p operand with
    | some c => assignU sched U s c
    | none => U
  | .register t => if itemsHoldB s.store t then U else U ++ [t.id]
  | .unregister id => if (unregister s id).2.isNone then U.filter (fun u => !decide (u = id)) else U
  | _ => U

/-- the unsettled tasks after a history -/
def unsettledAfter (sched : Sched) : List Path → MState → List Call → List Path
  | U, _, [] => U
  | U, s, c :: cs => unsettledAfter sched (stepU sched U s c) (apply sched s c).1 cs

/-! ### one call -/

/-- an assignment in scope: the state in which the value is written satisfies `ScopeG`, the scheduler returns a
    legal order and the call completes -/
def AssignOK (sched : Sched) (s : MState) : Call → Prop
  | .setValue p v =>
    ScopeG (preState s p) p ∧
    ValidSched (gOf (preState s p).idx) (findTaskids (preState s p).idx (chainR p))
      (sched (findTaskids (preState s p).idx (chainR p))) ∧
    (setValue sched s p v).2 = none
  | .setExpr p e =>
    ScopeG (defPart s p e) p ∧
    ValidSched (gOf (defPart s p e).idx) (findTaskids (defPart s p e).idx (chainR p))
      (sched (findTaskids (defPart s p e).idx (chainR p))) ∧
    (setExpr sched s p e).2 = none
  | _ => False

/-- a call inside the scope of the history theorem: assignments (also through an in-place operator) as in `AssignOK`;
    `register` of a soundly declared task under a fresh id on a manager that is not frozen (the task is *not* required
    to hold: it is unsettled until an assignment triggers it); maintenance calls and `unregister` are free;
    `load` is not part of the theorem. -/
def CallOKF (sched : Sched) (s : MState) : Call → Prop
  | .setValue p v => AssignOK sched s (.setValue p v)
  | .setExpr p e => AssignOK sched s (.setExpr p e)
  | .inplace op p operand =>
    match inplaceCall s op p operand with
    | some c => AssignOK sched s c
    | none => False
  | .register t => s.frozen = false ∧ lookDef s.defs t.id = none ∧ DeclOK t ∧ t.deps.Nodup ∧ t.tars.Nodup
  | .unregister _ => True
  | .refresh => True
  | .cleanup => True
  | .verify => True
  | .load _ _ => False

theorem assign_stepU (sched : Sched) (U : List Path) (s : MState) (c : Call) (hi : MInv s) (hc : ConsistentU U s)
    (hok : AssignOK sched s c) :
    ConsistentU (assignU sched U s c) (apply sched s c).1 ∧ MInv (apply sched s c).1 := by
  cases c with
  | setValue p v =>
    obtain ⟨sc, hvs, hnone⟩ := hok
    have hok' : setValue sched s p v = ((setValue sched s p v).1, none) := by rw [← hnone]
    have hf : lookDef s.defs p ≠ none → s.frozen = false := by
      intro hne
      cases hl : lookDef s.defs p with
      | none => exact absurd hl hne
      | some t =>
        cases hfz : s.frozen with
        | false => rfl
        | true =>
          rw [setValue_frozen_defined sched s p v t hfz hl] at hnone
          cases hnone
    obtain ⟨hi0, hst, _, _, _, hsub⟩ := preState_facts s p hi hf
    have hw := setValue_eq sched s p v _ hok'
    obtain ⟨hcons, _⟩ := writeAndRun_consistentU sched (· ∉ U) (preState s p) p v hi0 sc hvs
      (fun t ht _ _ hst' it hit => by rw [hst]; exact hc t (hsub t ht).1 hst' it hit)
      (fun t ht he => absurd he (hsub t ht).2) _ hw
    refine ⟨?_, setValue_MInv sched s p v hi⟩
    intro t ht hnot it hit
    exact hcons t ht (not_mem_settle hnot) it hit
  | setExpr p e =>
    obtain ⟨sc, hvs, hnone⟩ := hok
    have hok' : setExpr sched s p e = ((setExpr sched s p e).1, none) := by rw [← hnone]
    have hf : s.frozen = false := by
      cases hfz : s.frozen with
      | false => rfl
      | true =>
        rw [setExpr_frozen sched s p e hfz] at hnone
        cases hnone
    obtain ⟨hi0, hst, hsub⟩ := defPart_facts s p e hi hf
    obtain ⟨v, hev, hw⟩ := setExpr_eq sched s p e _ hf hok'
    obtain ⟨hcons, _⟩ := writeAndRun_consistentU sched (· ∉ U) (defPart s p e) p v hi0 sc hvs
      (by
        intro t ht hne _ hst' it hit
        rcases hsub t ht with ⟨h1, _⟩ | h
        · rw [hst]; exact hc t h1 hst' it hit
        · exact absurd (by rw [h]; rfl) hne)
      (by
        intro t ht he it hit
        rcases hsub t ht with ⟨_, h2⟩ | h
        · exact absurd he h2
        · subst h
          simp only [itemsOf, mkExprTask, List.mem_singleton] at hit
          subst hit
          exact ⟨rfl, hev⟩)
      _ hw
    refine ⟨?_, setExpr_MInv sched s p e hi⟩
    intro t ht hnot it hit
    exact hcons t ht (not_mem_settle hnot) it hit
  | inplace _ _ _ => exact absurd hok (by simp [AssignOK])
  | register _ => exact absurd hok (by simp [AssignOK])
  | unregister _ => exact absurd hok (by simp [AssignOK])
  | load _ _ => exact absurd hok (by simp [AssignOK])
  | refresh => exact absurd hok (by simp [AssignOK])
  | cleanup => exact absurd hok (by simp [AssignOK])
  | verify => exact absurd hok (by simp [AssignOK])

/-- **One call of a history**: the settled tasks hold afterwards, for the updated list of unsettled tasks. -/
theorem call_stepU (sched : Sched) (U : List Path) (s : MState) (c : Call) (hi : MInv s) (hc : ConsistentU U s)
    (hok : CallOKF sched s c) :
    ConsistentU (stepU sched U s c) (apply sched s c).1 ∧ MInv (apply sched s c).1 := by
  cases c with
  | setValue p v => exact assign_stepU sched U s _ hi hc hok
  | setExpr p e => exact assign_stepU sched U s _ hi hc hok
  | inplace op p operand =>
    simp only [CallOKF] at hok
    cases hcall : inplaceCall s op p operand with
    | none => simp [hcall] at hok
    | some c' =>
      simp only [hcall] at hok
      have heq : apply sched s (.inplace op p operand) = apply sched s c' := inplace_eq sched s op p operand c' hcall
      have hU : stepU sched U s (.inplace op p operand) = assignU sched U s c' := by simp only [stepU, hcall]
      rw [heq, hU]
      exact assign_stepU sched U s c' hi hc hok
  | register t =>
    obtain ⟨hf, hfresh, _, hnd1, hnd2⟩ := hok
    obtain ⟨_, hdefs, _, _⟩ := register_fresh_eq s t hi hf hfresh
    refine ⟨?_, register_MInv s t hi hf hfresh hnd1 hnd2⟩
    show ConsistentU (stepU sched U s (.register t)) (register s t).1
    intro t' ht' hnot it hit
    rw [(register_store s t).1]
    rw [hdefs] at ht'
    simp only [stepU] at hnot
    rcases List.mem_append.mp ht' with h | h
    · refine hc t' h (fun hx => hnot ?_) it hit
      split
      · exact hx
      · exact List.mem_append_left _ hx
    · have : t' = t := by simpa using h
      subst this
      by_cases hh : itemsHoldB s.store t' = true
      · exact itemsHoldB_sound s.store t' hh it hit
      · simp [hh] at hnot
  | unregister id =>
    show ConsistentU (stepU sched U s (.unregister id)) (unregister s id).1 ∧ MInv (unregister s id).1
    by_cases hf : s.frozen = true
    · have h := unregister_frozen s id hf
      simp only [stepU, h, Option.isNone_some, Bool.false_eq_true, if_false]
      exact ⟨hc, hi⟩
    · have hf' : s.frozen = false := by simpa using hf
      cases hl : lookDef s.defs id with
      | none =>
        have h : unregister s id = (s, some .keyError) := by simp [unregister, hf', hl]
        simp only [stepU, h, Option.isNone_some, Bool.false_eq_true, if_false]
        exact ⟨hc, hi⟩
      | some t =>
        obtain ⟨hnone, hdefs, _, _, hst⟩ := unregister_present_eq s id t hf' hl
        refine ⟨?_, unregister_MInv s id t hi hf' hl⟩
        simp only [stepU, hnone, Option.isNone_none, if_true]
        intro u hu hnot it hit
        rw [hdefs] at hu
        rw [hst]
        obtain ⟨hu1, hu2⟩ := List.mem_filter.mp hu
        refine hc u hu1 (fun hx => hnot (List.mem_filter.mpr ⟨hx, hu2⟩)) it hit
  | load _ _ => exact absurd hok (by simp [CallOKF])
  | refresh =>
    have hd := refresh_defs s
    refine ⟨?_, refresh_MInv s hi⟩
    intro t ht hnot it hit
    show (exprSys pySem).Q it (refresh s).1.store
    rw [hd.2]
    exact hc t (hd.1 ▸ ht) hnot it hit
  | cleanup =>
    refine ⟨?_, cleanup_MInv s hi⟩
    intro t ht hnot it hit
    exact hc t ht hnot it hit
  | verify =>
    have hd := verify_defs s
    refine ⟨?_, verify_MInv s hi⟩
    intro t ht hnot it hit
    show (exprSys pySem).Q it (verify s).1.store
    rw [hd.2.1]
    exact hc t (hd.1 ▸ ht) hnot it hit

/-! ### histories -/

/-- every call of the history is inside the scope of the one-call theorem -/
def GoodRunU (sched : Sched) : MState → List Call → Prop
  | _, [] => True
  | s, c :: cs => CallOKF sched s c ∧ GoodRunU sched (apply sched s c).1 cs

/-- **C01 with function tasks over histories, unsettled tasks tracked.** -/
theorem goodRunU_consistentU (sched : Sched) : ∀ (cs : List Call) (U : List Path) (s : MState), MInv s →
    ConsistentU U s → GoodRunU sched s cs →
    ConsistentU (unsettledAfter sched U s cs) (applyAll sched s cs) ∧ MInv (applyAll sched s cs)
  | [], _, _, hi, hc, _ => ⟨hc, hi⟩
  | c :: cs, U, s, hi, hc, hg => by
    obtain ⟨hc', hi'⟩ := call_stepU sched U s c hi hc hg.1
    exact goodRunU_consistentU sched cs _ _ hi' hc' hg.2

/-- A history every call of which is in scope (`CallOKF`) and which leaves no task unsettled: every task registered
    along the way without holding already has been triggered by a later assignment (or unregistered). -/
def GoodRunF (sched : Sched) (s : MState) (cs : List Call) : Prop :=
  GoodRunU sched s cs ∧ unsettledAfter sched [] s cs = []

/-- **C01 with function tasks over histories, on the executable manager.** -/
theorem goodRunF_consistentF (sched : Sched) (s : MState) (cs : List Call) (hi : MInv s) (hc : ConsistentF s)
    (hg : GoodRunF sched s cs) : ConsistentF (applyAll sched s cs) ∧ MInv (applyAll sched s cs) := by
  obtain ⟨h1, h2⟩ := goodRunU_consistentU sched cs [] s hi ((consistentU_nil s).mpr hc) hg.1
  rw [hg.2] at h1
  exact ⟨(consistentU_nil _).mp h1, h2⟩

/-! ### the variant without bookkeeping: a task is registered only when its items already hold -/

theorem assignU_nil (sched : Sched) (s : MState) (c : Call) : assignU sched [] s c = [] := by
  cases c <;> rfl

theorem stepU_nil (sched : Sched) (s : MState) (c : Call) : (∃ t, c = .register t) ∨ stepU sched [] s c = [] := by
  cases c with
  | register t => exact Or.inl ⟨t, rfl⟩
  | inplace op p operand =>
    right
    simp only [stepU]
    cases inplaceCall s op p operand with
    | none => rfl
    | some c' => exact assignU_nil sched s c'
  | unregister id =>
    right
    simp only [stepU]
    split <;> rfl
  | setValue _ _ => exact Or.inr rfl
  | setExpr _ _ => exact Or.inr rfl
  | load _ _ => exact Or.inr rfl
  | refresh => exact Or.inr rfl
  | cleanup => exact Or.inr rfl
  | verify => exact Or.inr rfl

/-- registering a task whose items hold keeps every definition holding -/
theorem register_consistentF (sched : Sched) (s : MState) (t : MTask) (hi : MInv s) (hc : ConsistentF s)
    (hok : CallOKF sched s (.register t)) (hholds : ∀ it ∈ itemsOf t, (exprSys pySem).Q it s.store) :
    ConsistentF (register s t).1 ∧ MInv (register s t).1 := by
  obtain ⟨hf, hfresh, _, hnd1, hnd2⟩ := hok
  obtain ⟨_, hdefs, _, _⟩ := register_fresh_eq s t hi hf hfresh
  refine ⟨?_, register_MInv s t hi hf hfresh hnd1 hnd2⟩
  intro t' ht' it hit
  rw [(register_store s t).1]
  rw [hdefs] at ht'
  rcases List.mem_append.mp ht' with h | h
  · exact hc t' h it hit
  · have : t' = t := by simpa using h
    subst this
    exact hholds it hit

/-- The history predicate of the simple variant: as `GoodRunU`, and a task may be registered only when its items
    already hold in the current store (which is what a caller gets by running the task's action once before
    registering it).  No task is ever unsettled. -/
def GoodRunF1 (sched : Sched) : MState → List Call → Prop
  | _, [] => True
  | s, .register t :: cs =>
    CallOKF sched s (.register t) ∧ (∀ it ∈ itemsOf t, (exprSys pySem).Q it s.store) ∧
    GoodRunF1 sched (register s t).1 cs
  | s, c :: cs => CallOKF sched s c ∧ GoodRunF1 sched (apply sched s c).1 cs

theorem goodRunF1_consistentF (sched : Sched) : ∀ (cs : List Call) (s : MState), MInv s → ConsistentF s →
    GoodRunF1 sched s cs → ConsistentF (applyAll sched s cs) ∧ MInv (applyAll sched s cs)
  | [], _, hi, hc, _ => ⟨hc, hi⟩
  | c :: cs, s, hi, hc, hg => by
    rcases stepU_nil sched s c with ⟨t, rfl⟩ | hU
    · simp only [GoodRunF1] at hg
      obtain ⟨hok, hholds, hrest⟩ := hg
      obtain ⟨hc', hi'⟩ := register_consistentF sched s t hi hc hok hholds
      exact goodRunF1_consistentF sched cs _ hi' hc' hrest
    · have hg' : CallOKF sched s c ∧ GoodRunF1 sched (apply sched s c).1 cs := by
        cases c with
        | register t =>
          simp only [GoodRunF1] at hg
          exact ⟨hg.1, hg.2.2⟩
        | setValue _ _ => simpa only [GoodRunF1] using hg
        | setExpr _ _ => simpa only [GoodRunF1] using hg
        | inplace _ _ _ => simpa only [GoodRunF1] using hg
        | unregister _ => simpa only [GoodRunF1] using hg
        | load _ _ => simpa only [GoodRunF1] using hg
        | refresh => simpa only [GoodRunF1] using hg
        | cleanup => simpa only [GoodRunF1] using hg
        | verify => simpa only [GoodRunF1] using hg
      obtain ⟨hc', hi'⟩ := call_stepU sched [] s c hi ((consistentU_nil s).mpr hc) hg'.1
      rw [hU] at hc'
      exact goodRunF1_consistentF sched cs _ hi' ((consistentU_nil _).mp hc') hg'.2

/-! ### decided -/

/-- `ScopeG`, as the driver evaluates it -/
def scopeGB (s : MState) (p : Path) : Bool :=
  s.defs.all declOKB && pathOKB p &&
  s.defs.all (fun t => (itemsOf t).all (fun it => pathOKB it.target && (leafRefs it.expr).all pathOKB)) &&
  acyclicFrom s.idx (startOf s.idx (chainR p)) &&
  s.defs.all (fun t => s.defs.all (fun u => decide (t.id = u.id) ||
    (itemsOf t).all (fun a => (itemsOf u).all (fun b => !(comparable b.target a.target))))) &&
  s.defs.all (fun t => decide (t.id = p) || (itemsOf t).all (fun it => !(comparable p it.target))) &&
  s.defs.all (fun t => (itemsOf t).all (fun it => (leafRefs it.expr).all (fun r => !(comparable it.target r)))) &&
  s.defs.all (fun t => bodyOKB (itemsOf t)) &&
  s.faultIn.isNone

theorem scopeGB_sound (s : MState) (hi : MInv s) (p : Path) (h : scopeGB s p = true) : ScopeG s p := by
  unfold scopeGB at h
  simp only [Bool.and_eq_true, List.all_eq_true, Bool.or_eq_true, decide_eq_true_eq, Bool.not_eq_eq_eq_not,
    Bool.not_true] at h
  obtain ⟨⟨⟨⟨⟨⟨⟨⟨hdecl, hp⟩, hpaths⟩, hac⟩, h2⟩, h2p⟩, h3⟩, hbody⟩, hnf⟩ := h
  exact
    { decl := fun t ht => declOKB_sound t (hdecl t ht)
      pathP := pathOKB_sound p hp
      paths := fun t ht it hit => ⟨pathOKB_sound _ (hpaths t ht it hit).1,
        fun r hr => pathOKB_sound r ((hpaths t ht it hit).2 r hr)⟩
      acyclic := acyclicFrom_sound s hi (chainR p) hac
      h2 := by
        intro t ht u hu hne a ha b hb
        rcases h2 t ht u hu with h | h
        · exact absurd h hne
        · exact incomparable_of_not_comparable _ _ (h a ha b hb)
      h2p := by
        intro t ht hne it hit
        rcases h2p t ht with h | h
        · exact absurd h hne
        · exact incomparable_of_not_comparable _ _ (h it hit)
      h3 := fun t ht it hit r hr => incomparable_of_not_comparable _ _ (h3 t ht it hit r hr)
      body := fun t ht => bodyOKB_sound _ (hbody t ht)
      nofault := by
        cases hf : s.faultIn with
        | none => rfl
        | some k => simp [hf] at hnf }

theorem scopeGB_acyclic (s : MState) (p : Path) (h : scopeGB s p = true) :
    acyclicFrom s.idx (startOf s.idx (chainR p)) = true := by
  unfold scopeGB at h
  simp only [Bool.and_eq_true] at h
  exact h.1.1.1.1.1.2

def assignOKB (sched : Sched) (s : MState) : Call → Bool
  | .setValue p v =>
    scopeGB (preState s p) p &&
    validSchedule (preState s p).idx (chainR p) (sched (findTaskids (preState s p).idx (chainR p))) &&
    (setValue sched s p v).2.isNone
  | .setExpr p e =>
    scopeGB (defPart s p e) p &&
    validSchedule (defPart s p e).idx (chainR p) (sched (findTaskids (defPart s p e).idx (chainR p))) &&
    (setExpr sched s p e).2.isNone
  | _ => false

def callOKFB (sched : Sched) (s : MState) : Call → Bool
  | .setValue p v => assignOKB sched s (.setValue p v)
  | .setExpr p e => assignOKB sched s (.setExpr p e)
  | .inplace op p operand =>
    match inplaceCall s op p operand with
    | some c => assignOKB sched s c
    | none => false
  | .register t =>
    !s.frozen && (lookDef s.defs t.id).isNone && declOKB t && decide t.deps.Nodup && decide t.tars.Nodup
  | .unregister _ => true
  | .refresh => true
  | .cleanup => true
  | .verify => true
  | .load _ _ => false

/-- the executable form of `GoodRunU` -/
def goodRunUB (sched : Sched) : MState → List Call → Bool
  | _, [] => true
  | s, c :: cs => callOKFB sched s c && goodRunUB sched (apply sched s c).1 cs

/-- the executable form of `GoodRunF`: what the driver evaluates line by line, and nothing is left unsettled -/
def goodRunFB (sched : Sched) (s : MState) (cs : List Call) : Bool :=
  goodRunUB sched s cs && (unsettledAfter sched [] s cs).isEmpty

theorem assignOKB_sound (sched : Sched) (s : MState) (c : Call) (hi : MInv s) (h : assignOKB sched s c = true) :
    AssignOK sched s c := by
  cases c with
  | setValue p v =>
    simp only [assignOKB, Bool.and_eq_true] at h
    obtain ⟨⟨hsc, hvs⟩, hok⟩ := h
    have hok' := isNone_eq _ hok
    have hf : lookDef s.defs p ≠ none → s.frozen = false := by
      intro hne
      cases hl : lookDef s.defs p with
      | none => exact absurd hl hne
      | some t =>
        cases hfz : s.frozen with
        | false => rfl
        | true =>
          rw [setValue_frozen_defined sched s p v t hfz hl] at hok'
          cases hok'
    have hi0 := (preState_facts s p hi hf).1
    exact ⟨scopeGB_sound _ hi0 p hsc, validSchedule_sound _ _ _ hvs (scopeGB_acyclic _ p hsc), hok'⟩
  | setExpr p e =>
    simp only [assignOKB, Bool.and_eq_true] at h
    obtain ⟨⟨hsc, hvs⟩, hok⟩ := h
    have hok' := isNone_eq _ hok
    have hf : s.frozen = false := by
      cases hfz : s.frozen with
      | false => rfl
      | true =>
        rw [setExpr_frozen sched s p e hfz] at hok'
        cases hok'
    have hi0 := (defPart_facts s p e hi hf).1
    exact ⟨scopeGB_sound _ hi0 p hsc, validSchedule_sound _ _ _ hvs (scopeGB_acyclic _ p hsc), hok'⟩
  | inplace _ _ _ => simp [assignOKB] at h
  | register _ => simp [assignOKB] at h
  | unregister _ => simp [assignOKB] at h
  | load _ _ => simp [assignOKB] at h
  | refresh => simp [assignOKB] at h
  | cleanup => simp [assignOKB] at h
  | verify => simp [assignOKB] at h

theorem callOKFB_sound (sched : Sched) (s : MState) (c : Call) (hi : MInv s) (h : callOKFB sched s c = true) :
    CallOKF sched s c := by
  cases c with
  | setValue p v => exact assignOKB_sound sched s (.setValue p v) hi h
  | setExpr p e => exact assignOKB_sound sched s (.setExpr p e) hi h
  | inplace op p operand =>
    simp only [callOKFB] at h
    simp only [CallOKF]
    cases hcall : inplaceCall s op p operand with
    | none => simp [hcall] at h
    | some c' =>
      simp only [hcall] at h ⊢
      exact assignOKB_sound sched s c' hi h
  | register t =>
    simp only [callOKFB, Bool.and_eq_true, Bool.not_eq_eq_eq_not, Bool.not_true, decide_eq_true_eq] at h
    obtain ⟨⟨⟨⟨hf, hfresh⟩, hdecl⟩, hnd1⟩, hnd2⟩ := h
    exact ⟨hf, isNone_eq _ hfresh, declOKB_sound t hdecl, hnd1, hnd2⟩
  | unregister _ => trivial
  | load _ _ => simp [callOKFB] at h
  | refresh => trivial
  | cleanup => trivial
  | verify => trivial

theorem callOKF_MInv (sched : Sched) (s : MState) (c : Call) (hi : MInv s) (hok : CallOKF sched s c) :
    MInv (apply sched s c).1 :=
  (call_stepU sched (s.defs.map (·.id)) s c hi (fun _ ht h => absurd (List.mem_map_of_mem ht) h) hok).2

theorem goodRunUB_sound (sched : Sched) : ∀ (cs : List Call) (s : MState), MInv s → goodRunUB sched s cs = true →
    GoodRunU sched s cs
  | [], _, _, _ => trivial
  | c :: cs, s, hi, h => by
    simp only [goodRunUB, Bool.and_eq_true] at h
    have hok := callOKFB_sound sched s c hi h.1
    exact ⟨hok, goodRunUB_sound sched cs _ (callOKF_MInv sched s c hi hok) h.2⟩

theorem goodRunFB_sound (sched : Sched) (cs : List Call) (s : MState) (hi : MInv s)
    (h : goodRunFB sched s cs = true) : GoodRunF sched s cs := by
  simp only [goodRunFB, Bool.and_eq_true, List.isEmpty_iff] at h
  exact ⟨goodRunUB_sound sched cs s hi h.1, h.2⟩

/-- **C01 with function tasks, every hypothesis decided**: a history the driver accepts line by line (`goodRunFB`)
    ends with every item of every expression and function task holding. -/
theorem C01F_decided (sched : Sched) (cs : List Call) (s : MState) (hi : MInv s) (hc : ConsistentF s)
    (h : goodRunFB sched s cs = true) : ConsistentF (applyAll sched s cs) :=
  (goodRunF_consistentF sched s cs hi hc (goodRunFB_sound sched cs s hi h)).1

/-- the intermediate form: whatever is still unsettled at the end is listed by `unsettledAfter`, everything else holds -/
theorem C01U_decided (sched : Sched) (cs : List Call) (s : MState) (hi : MInv s) (hc : ConsistentF s)
    (h : goodRunUB sched s cs = true) : ConsistentU (unsettledAfter sched [] s cs) (applyAll sched s cs) :=
  (goodRunU_consistentU sched cs [] s hi ((consistentU_nil s).mpr hc) (goodRunUB_sound sched cs s hi h)).1

/-! ### non-vacuity: a concrete history inside the theorem

The containers of `XProofs/Properties/C01.lean` (`sF0`, `fTask`): a definition `c = a + b`, the function task
`#F : e := c * 2 ; f := a + 1` registered while `e`, `f` are still `None` (so it is unsettled), a second function task
`#G : g := b + 1` registered while it already holds, then assignments to the inputs (one through `+=`) and maintenance
calls. -/
namespace FnHistExample
def da : Path := [.item (.str "d"), .item (.str "a")]
def db : Path := [.item (.str "d"), .item (.str "b")]
def dc : Path := [.item (.str "d"), .item (.str "c")]
def de : Path := [.item (.str "d"), .item (.str "e")]
def df : Path := [.item (.str "d"), .item (.str "f")]
def dg : Path := [.item (.str "d"), .item (.str "g")]
def sF0 : MState :=
  { MState.init with store := .dict [(.str "d", .dict [(.str "a", .int 1), (.str "b", .int 2), (.str "c", .none),
      (.str "e", .none), (.str "f", .none), (.str "g", .int 3)])] }
def fTask : MTask :=
  ⟨[.item (.str "#F")], .func [(de, .bin "Mul" (.ref dc) (.lit (.int 2))), (df, .bin "Add" (.ref da) (.lit (.int 1)))],
   [dc, da], [de, df]⟩
def gTask : MTask := ⟨[.item (.str "#G")], .func [(dg, .bin "Add" (.ref db) (.lit (.int 1)))], [db], [dg]⟩
def histF : List Call :=
  [.setExpr dc (.bin "Add" (.ref da) (.ref db)), .register fTask, .register gTask, .setValue da (.int 5), .cleanup,
   .inplace "Add" da (.lit (.int 2)), .setValue db (.int 10), .verify]

theorem sF0_inv : MInv sF0 := MInv_of_sameGraph (s := MState.init) ⟨rfl, rfl, rfl⟩ MInv.init

/-- `#F` is unsettled after its registration (`#G` is not: its line holds already) until `a` is assigned -/
example : unsettledAfter id [] sF0 (histF.take 3) = [fTask.id] ∧ unsettledAfter id [] sF0 (histF.take 4) = [] :=
  ⟨rfl, rfl⟩

example : goodRunFB id sF0 histF = true := by decide

theorem example_consistentF : ConsistentF (applyAll id sF0 histF) :=
  C01F_decided id histF sF0 sF0_inv (fun _ h => by cases h) (by decide)

/-- the prescribed values: a = 7, b = 10, c = a + b, e = c * 2, f = a + 1, g = b + 1 -/
example : get (applyAll id sF0 histF).store dc = .ok (.int 17) ∧ get (applyAll id sF0 histF).store de = .ok (.int 34) ∧
    get (applyAll id sF0 histF).store df = .ok (.int 8) ∧ get (applyAll id sF0 histF).store dg = .ok (.int 11) :=
  ⟨rfl, rfl, rfl, rfl⟩

/-- the bookkeeping is needed: a history that registers `#F` and never triggers it is in scope call by call, but is
    not a `goodRunFB` history, and `#F` is reported as unsettled (`e` is still `None`) -/
example : goodRunUB id sF0 [.register fTask, .setValue db (.int 10), .cleanup] = true ∧
    goodRunFB id sF0 [.register fTask, .setValue db (.int 10), .cleanup] = false ∧
    unsettledAfter id [] sF0 [.register fTask, .setValue db (.int 10), .cleanup] = [fTask.id] ∧
    get (applyAll id sF0 [.register fTask, .setValue db (.int 10), .cleanup]).store de = .ok .none := by
  refine ⟨by decide, by decide, rfl, rfl⟩
end FnHistExample

#print axioms writeAndRun_consistentU
#print axioms goodRunU_consistentU
#print axioms goodRunF_consistentF
#print axioms goodRunF1_consistentF
#print axioms goodRunFB_sound
#print axioms C01F_decided
#print axioms FnHistExample.example_consistentF

end Manager
