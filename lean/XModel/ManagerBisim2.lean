import XModel.ManagerBisim
import XModel.ManagerC20Fn
/-!
# C03 / C20, second part: queries, wider assignments, failing assignments, refresh anywhere, outcomes call by call

`ManagerBisim.lean` relates two managers with the same task table (`SameTable`) along histories whose assignments are
in C01's *expression-task* scope and complete.  This file answers what that left open.

1. **Queries** (`QueriesAgree`, `sameTable_queries`): `find_deps`, `find_taskids`, the rows and the key sets of the
   four indices, `dump`, `lookDef`, `exprOf` give the same answers (as sets; lists may be ordered differently) on two
   `SameTable` states.  `register_unregister_sameTable`: after registering and removing a definition the manager is
   `SameTable` with the one that never held it.
2. **Wider assignments** (`CallOK'`, `apply_bisim'`, `bisim_history'` …): an assignment is covered when
   * it raises before any task runs (frozen manager, the expression does not evaluate, the write itself raises), or
   * both managers run the triggered tasks in the *same order* (no scope at all: any kind of task, knobs included,
     completing or raising), or
   * it is in the scope `ScopeT` — a scope that only constrains the tasks the assignment *triggers*, which may be
     expression and function tasks; untriggered tasks of any kind (linear knobs, badly declared function tasks) may
     sit in the manager — both schedulers return a legal order and the assignment completes on the first manager.
   Not covered: a *triggered* linear knob run in two different orders (no order-independence theorem for knobs exists).
3. **Failing assignments** (`writeAndRun_fail_bisim`, `FailExample`): in scope, one side raises iff the other does;
   the two errors and the two container trees may differ (example), everything else agrees.
4. **refresh / clone anywhere** (`refresh_anywhere`, `clone_anywhere`, `refresh_spliced`) and **C20 call by call**
   (`history_per_call`: equal lists of (state, error) outcomes; `history_per_call_final`; `history_per_call_GoodRun2`:
   the hypotheses of `history_sched_indep` are a special case).
-/
namespace Manager
open Store Push Index

/-! ## 1. queries -/

/-! ### `find_deps` is reachability in `rdeps`, for every index state -/

/-- adjacency of the graph `find_deps` walks: the keys of `rdeps[u]` -/
def rdOf (m : Mgr Path Path) (u : Path) : List Path := RC.keys (DD.get m.rdeps u)

theorem findDeps_eq (m : Mgr Path Path) (start : List Path) :
    findDeps m start =
      Dfs3.toposort (rdOf m) (m.rdeps.foldl (fun n r => n + 1 + r.2.length) 0 + start.length + 1) start := rfl

theorem foldl_rows_ge {ρ κ : Type} (d : DD ρ κ) : ∀ (n : Nat),
    d.foldl (fun n r => n + 1 + r.2.length) n ≥ n + (d.flatMap (fun r => RC.keys r.2)).length := by
  induction d with
  | nil => intro n; simp
  | cons r d ih =>
    intro n
    simp only [List.foldl_cons, List.flatMap_cons, List.length_append]
    have := ih (n + 1 + r.2.length)
    have hk : (RC.keys r.2).length = r.2.length := by simp [RC.keys]
    omega

theorem DD.get_keys_sub {ρ κ : Type} [DecidableEq ρ] (d : DD ρ κ) (a : ρ) (w : κ) (h : w ∈ RC.keys (DD.get d a)) :
    w ∈ d.flatMap (fun r => RC.keys r.2) := by
  induction d with
  | nil => simp [DD.get, RC.keys] at h
  | cons r d ih =>
    obtain ⟨a', m⟩ := r
    simp only [DD.get] at h
    simp only [List.flatMap_cons, List.mem_append]
    by_cases e : a' = a
    · simp only [e, if_true] at h
      exact Or.inl h
    · simp only [e, if_false] at h
      exact Or.inr (ih h)

/-- **`find_deps(start)` returns exactly the locations reachable from `start` along `rdeps`** — whatever the index
    state (no invariant is needed: the fuel the model gives the walk always suffices) -/
theorem findDeps_mem_iff (m : Mgr Path Path) (start : List Path) (x : Path) :
    x ∈ findDeps m start ↔ ∃ s0 ∈ start, Dfs3.Reach (rdOf m) s0 x := by
  rw [findDeps_eq]
  refine Dfs3.toposort_mem_iff' (rdOf m) (start ++ m.rdeps.flatMap (fun r => RC.keys r.2)) start _ ?_ ?_ ?_ x
  · have := foldl_rows_ge m.rdeps 0
    simp only [List.length_append]
    omega
  · intro s hs; exact List.mem_append_left _ hs
  · intro u _ w hw
    exact List.mem_append_right _ (DD.get_keys_sub m.rdeps u w hw)

theorem findDeps_nodup (m : Mgr Path Path) (start : List Path) : (findDeps m start).Nodup := by
  rw [findDeps_eq]
  refine Dfs3.toposort_nodup' (rdOf m) (start ++ m.rdeps.flatMap (fun r => RC.keys r.2)) start _ ?_ ?_ ?_
  · have := foldl_rows_ge m.rdeps 0
    simp only [List.length_append]
    omega
  · intro s hs; exact List.mem_append_left _ hs
  · intro u _ w hw
    exact List.mem_append_right _ (DD.get_keys_sub m.rdeps u w hw)

/-! ### the rows of the four indices, as sets, are functions of the task table -/

theorem rdeps_mem_iff (s : MState) (hi : MInv s) (d r : Path) :
    r ∈ RC.keys (DD.get s.idx.rdeps d) ↔ sRdeps (s.defs.map MTask.toIdx) d r ≥ 1 := by
  rw [RC.mem_keys_iff _ (hi.inv.wf1 d)]
  show DD.cnt2 s.idx.rdeps d r ≥ 1 ↔ _
  rw [hi.inv.rdeps, hi.link]

theorem deptasks_mem_iff (s : MState) (hi : MInv s) (d k : Path) :
    k ∈ RC.keys (DD.get s.idx.deptasks d) ↔ sDep (s.defs.map MTask.toIdx) d k ≥ 1 := by
  rw [RC.mem_keys_iff _ (hi.inv.wf3 d)]
  show DD.cnt2 s.idx.deptasks d k ≥ 1 ↔ _
  rw [hi.inv.dept, hi.link]

theorem tartasks_mem_iff (s : MState) (hi : MInv s) (r k : Path) :
    k ∈ RC.keys (DD.get s.idx.tartasks r) ↔ sTar (s.defs.map MTask.toIdx) r k ≥ 1 := by
  rw [RC.mem_keys_iff _ (hi.inv.wf4 r)]
  show DD.cnt2 s.idx.tartasks r k ≥ 1 ↔ _
  rw [hi.inv.tart, hi.link]

/-- the ids of the tasks that write `r` (`tartasks[r]`, what the driver's `query` reports as "tasks") are exactly the
    registered tasks whose declared targets contain `r` -/
theorem tartasks_mem_decl (s : MState) (hi : MInv s) (r k : Path) :
    k ∈ RC.keys (DD.get s.idx.tartasks r) ↔ ∃ t ∈ s.defs, t.id = k ∧ r ∈ t.tars := by
  rw [tartasks_mem_iff s hi]
  unfold sTar
  constructor
  · intro h
    cases hl : look (s.defs.map MTask.toIdx) k with
    | none => simp [hl] at h
    | some tk =>
      simp only [hl] at h
      have hm := look_mem hl
      obtain ⟨t, ht, rfl⟩ := List.mem_map.mp hm.1
      refine ⟨t, ht, hm.2, ?_⟩
      by_cases hr : r ∈ t.toIdx.tars
      · exact hr
      · simp [hr] at h
  · rintro ⟨t, ht, rfl, hr⟩
    rw [look_of_mem s.defs hi.ids t ht]
    have : r ∈ t.toIdx.tars := hr
    simp [this]

/-! ### key sets (supports) -/

/-- the keys of an index that have a non-empty row: what `cleanup()` keeps and what the driver reports -/
def supportKeys {ρ κ : Type} (d : DD ρ κ) : List ρ := (support d).map (·.1)

theorem DD.get_mem_of_ne_nil {ρ κ : Type} [DecidableEq ρ] (d : DD ρ κ) (a : ρ) (h : DD.get d a ≠ []) :
    (a, DD.get d a) ∈ d := by
  induction d with
  | nil => simp [DD.get] at h
  | cons r d ih =>
    obtain ⟨a', m⟩ := r
    simp only [DD.get] at h ⊢
    by_cases e : a' = a
    · simp only [e, if_true]
      exact List.mem_cons_self ..
    · simp only [e, if_false] at h ⊢
      exact List.mem_cons_of_mem _ (ih h)

/-- a key is in the support iff its row is not empty -/
theorem mem_supportKeys_iff {ρ κ : Type} [DecidableEq ρ] (d : DD ρ κ) (hnd : (DD.rows d).Nodup) (a : ρ) :
    a ∈ supportKeys d ↔ ∃ k, k ∈ RC.keys (DD.get d a) := by
  unfold supportKeys support
  constructor
  · intro h
    obtain ⟨r, hr, rfl⟩ := List.mem_map.mp h
    obtain ⟨r0, hr0, rfl⟩ := List.mem_map.mp hr
    obtain ⟨hmem, hne⟩ := List.mem_filter.mp hr0
    have hget := get_of_mem_rows d hnd r0 hmem
    simp only
    rw [hget]
    cases hrow : r0.2 with
    | nil => simp [hrow] at hne
    | cons x rest => exact ⟨x.1, by simp [RC.keys]⟩
  · rintro ⟨k, hk⟩
    have hne : DD.get d a ≠ [] := by
      intro e; rw [e] at hk; simp [RC.keys] at hk
    have hm := DD.get_mem_of_ne_nil d a hne
    refine List.mem_map.mpr ⟨(a, RC.keys (DD.get d a)), List.mem_map.mpr ⟨(a, DD.get d a), ?_, rfl⟩, rfl⟩
    refine List.mem_filter.mpr ⟨hm, ?_⟩
    cases hrow : DD.get d a with
    | nil => exact absurd hrow hne
    | cons x rest => rfl

/-! ### the answers of two managers with the same task table -/

/-- every query the manager offers (and the driver's `query` line observes) has the same answer on the two states,
    as a set: lists such as `find_deps` may come in different orders -/
structure QueriesAgree (s s' : MState) : Prop where
  /-- `find_deps(start)` -/
  findDeps : ∀ (start : List Path) (x : Path), x ∈ findDeps s.idx start ↔ x ∈ findDeps s'.idx start
  /-- `find_taskids(start_deps)` / `find_tasks` -/
  findTaskids : ∀ (D : List Path) (x : Path), x ∈ findTaskids s.idx D ↔ x ∈ findTaskids s'.idx D
  /-- the rows of the four indices -/
  rdeps : ∀ d r, r ∈ RC.keys (DD.get s.idx.rdeps d) ↔ r ∈ RC.keys (DD.get s'.idx.rdeps d)
  rtasks : ∀ u k, k ∈ RC.keys (DD.get s.idx.rtasks u) ↔ k ∈ RC.keys (DD.get s'.idx.rtasks u)
  deptasks : ∀ d k, k ∈ RC.keys (DD.get s.idx.deptasks d) ↔ k ∈ RC.keys (DD.get s'.idx.deptasks d)
  tartasks : ∀ r k, k ∈ RC.keys (DD.get s.idx.tartasks r) ↔ k ∈ RC.keys (DD.get s'.idx.tartasks r)
  /-- the key sets of the four indices (keys with a non-empty row) -/
  keys_rdeps : ∀ d, d ∈ supportKeys s.idx.rdeps ↔ d ∈ supportKeys s'.idx.rdeps
  keys_rtasks : ∀ u, u ∈ supportKeys s.idx.rtasks ↔ u ∈ supportKeys s'.idx.rtasks
  keys_deptasks : ∀ d, d ∈ supportKeys s.idx.deptasks ↔ d ∈ supportKeys s'.idx.deptasks
  keys_tartasks : ∀ r, r ∈ supportKeys s.idx.tartasks ↔ r ∈ supportKeys s'.idx.tartasks
  /-- the task table itself: which locations / ids have a definition, with which expression; the dump -/
  lookDef : ∀ p, lookDef s'.defs p = lookDef s.defs p
  exprOf : ∀ p, exprOf s' p = exprOf s p
  dump : dump s' = dump s
  /-- reading a location -/
  get : ∀ p, get s'.store p = get s.store p

/-- **queries cannot tell two managers with the same task table apart** -/
theorem sameTable_queries {s s' : MState} (h : SameTable s s') : QueriesAgree s s' := by
  have hi := h.left
  have hi' := h.right
  have hd : s'.defs = s.defs := h.1
  have h1 : ∀ d r, r ∈ RC.keys (DD.get s.idx.rdeps d) ↔ r ∈ RC.keys (DD.get s'.idx.rdeps d) := fun d r => by
    rw [rdeps_mem_iff s hi, rdeps_mem_iff s' hi', hd]
  have h2 : ∀ u k, k ∈ RC.keys (DD.get s.idx.rtasks u) ↔ k ∈ RC.keys (DD.get s'.idx.rtasks u) := fun u k => by
    have a := gOf_mem_iff s hi u k
    have b := gOf_mem_iff s' hi' u k
    unfold gOf at a b
    rw [a, b, hd]
  have h3 : ∀ d k, k ∈ RC.keys (DD.get s.idx.deptasks d) ↔ k ∈ RC.keys (DD.get s'.idx.deptasks d) := fun d k => by
    rw [deptasks_mem_iff s hi, deptasks_mem_iff s' hi', hd]
  have h4 : ∀ r k, k ∈ RC.keys (DD.get s.idx.tartasks r) ↔ k ∈ RC.keys (DD.get s'.idx.tartasks r) := fun r k => by
    rw [tartasks_mem_iff s hi, tartasks_mem_iff s' hi', hd]
  have keys : ∀ {ρ κ : Type} [DecidableEq ρ] (a b : DD ρ κ), (DD.rows a).Nodup → (DD.rows b).Nodup →
      (∀ x k, k ∈ RC.keys (DD.get a x) ↔ k ∈ RC.keys (DD.get b x)) → ∀ x, x ∈ supportKeys a ↔ x ∈ supportKeys b := by
    intro ρ κ _ a b ha hb hab x
    rw [mem_supportKeys_iff a ha, mem_supportKeys_iff b hb]
    exact ⟨fun ⟨k, hk⟩ => ⟨k, (hab x k).mp hk⟩, fun ⟨k, hk⟩ => ⟨k, (hab x k).mpr hk⟩⟩
  exact
    { findDeps := by
        intro start x
        rw [findDeps_mem_iff, findDeps_mem_iff]
        constructor
        · rintro ⟨s0, hs0, r⟩; exact ⟨s0, hs0, reach_congr _ _ (fun u w => h1 u w) r⟩
        · rintro ⟨s0, hs0, r⟩; exact ⟨s0, hs0, reach_congr _ _ (fun u w => (h1 u w).symm) r⟩
      findTaskids := by
        intro D x
        have hst : ∀ k, k ∈ startOf s.idx D ↔ k ∈ startOf s'.idx D := fun k => by
          rw [startOf_mem_iff s hi, startOf_mem_iff s' hi', hd]
        rw [(findTaskids_once_exact s hi D).2 x, (findTaskids_once_exact s' hi' D).2 x]
        constructor
        · rintro ⟨s0, hs0, r⟩; exact ⟨s0, (hst s0).mp hs0, reach_congr _ _ (fun u w => h2 u w) r⟩
        · rintro ⟨s0, hs0, r⟩; exact ⟨s0, (hst s0).mpr hs0, reach_congr _ _ (fun u w => (h2 u w).symm) r⟩
      rdeps := h1, rtasks := h2, deptasks := h3, tartasks := h4
      keys_rdeps := keys _ _ hi.rows1 hi'.rows1 h1
      keys_rtasks := keys _ _ hi.rows2 hi'.rows2 h2
      keys_deptasks := keys _ _ hi.rows3 hi'.rows3 h3
      keys_tartasks := keys _ _ hi.rows4 hi'.rows4 h4
      lookDef := fun p => by rw [hd]
      exprOf := fun p => by unfold Manager.exprOf; rw [hd]
      dump := by unfold Manager.dump; rw [hd]
      get := fun p => by rw [h.2.1] }

/-- the single-location forms the driver's `query` line reports -/
theorem sameTable_query_line {s s' : MState} (h : SameTable s s') (p : Path) :
    (∀ x, x ∈ findDeps s.idx [p] ↔ x ∈ findDeps s'.idx [p]) ∧
    (∀ k, k ∈ RC.keys (DD.get s.idx.tartasks p) ↔ k ∈ RC.keys (DD.get s'.idx.tartasks p)) ∧
    exprOf s' p = exprOf s p :=
  ⟨(sameTable_queries h).findDeps [p], (sameTable_queries h).tartasks p, (sameTable_queries h).exprOf p⟩

/-- **as if the definition had never existed**: register a task under a fresh id, then unregister it.  For an
    expression or function task the manager is afterwards `SameTable` with the one that never held the definition, so
    (`sameTable_queries`) every query has the same answer.  (For a linear knob the MODEL keeps the knob's remembered
    source value in `prev` after `unregister`; see `knob_leaves_prev`.) -/
theorem register_unregister_sameTable (s : MState) (t : MTask) (hi : MInv s) (hf : s.frozen = false)
    (hfresh : lookDef s.defs t.id = none) (hd : t.deps.Nodup) (ht : t.tars.Nodup)
    (hk : (∃ e, t.kind = .expr e) ∨ ∃ body, t.kind = .func body) :
    (register s t).2 = none ∧ (unregister (register s t).1 t.id).2 = none ∧
    SameTable s (unregister (register s t).1 t.id).1 := by
  obtain ⟨hnone, hdefs, _, _⟩ := register_fresh_eq s t hi hf hfresh
  have hi1 := register_MInv s t hi hf hfresh hd ht
  have hf1 : (register s t).1.frozen = false := by simp [register, hf]
  have hl1 : lookDef (register s t).1.defs t.id = some t := by
    apply lookDef_of_mem _ hi1.ids
    rw [hdefs]; simp
  obtain ⟨hnone2, hdefs2, _, _, hst2⟩ := unregister_present_eq (register s t).1 t.id t hf1 hl1
  have hi2 := unregister_MInv (register s t).1 t.id t hi1 hf1 hl1
  refine ⟨hnone, hnone2, SameTable.mk' ⟨?_, ?_, ?_, ?_, ?_⟩ hi hi2⟩
  · rw [hdefs2, hdefs, List.filter_append]
    have h1 : s.defs.filter (fun x => !decide (x.id = t.id)) = s.defs := by
      rw [List.filter_eq_self]
      intro x hx
      have : x.id ≠ t.id := by
        intro e
        have := lookDef_of_mem s.defs hi.ids x hx
        rw [e, hfresh] at this
        cases this
      simp [this]
    rw [h1]
    simp
  · rw [hst2, (register_store s t).1]
  · simp [unregister, hf1, hl1, hf]
  · have hp : (register s t).1.prev = s.prev := by
      rcases hk with ⟨e, he⟩ | ⟨b, hb⟩
      · simp [register, hf, he]
      · simp [register, hf, hb]
    have : (unregister (register s t).1 t.id).1.prev = (register s t).1.prev := by simp [unregister, hf1, hl1]
    rw [this, hp]
  · have hp : (register s t).1.faultIn = s.faultIn := by simp [register, hf]
    have : (unregister (register s t).1 t.id).1.faultIn = (register s t).1.faultIn := by simp [unregister, hf1, hl1]
    rw [this, hp]

/-! ## 2. wider assignments

### the scope of one assignment, constraining only the tasks it triggers -/

/-- `t` is a registered task that an assignment to `p` triggers -/
def Trig (s : MState) (p : Path) (t : MTask) : Prop := t ∈ s.defs ∧ t.id ∈ findTaskids s.idx (chainR p)

/-- The scope of the order-independence theorem for an assignment to `p`.  It is `ScopeG` (`ManagerFnHist.lean`)
    with every clause restricted to the tasks the assignment triggers, without the clause "no item reads what it
    writes" (not needed for order independence).
    Tasks that are not triggered are not constrained at all: they may be linear knobs or function tasks with unsound
    declarations. -/
structure ScopeT (s : MState) (p : Path) : Prop where
  /-- triggered tasks are expression tasks or soundly declared function tasks -/
  decl : ∀ t, Trig s p t → DeclOK t
  pathP : PathOK p
  paths : ∀ t, Trig s p t → ∀ it ∈ itemsOf t, PathOK it.target ∧ ∀ r ∈ leafRefs it.expr, PathOK r
  acyclic : ∀ a b, (∃ s0 ∈ startOf s.idx (chainR p), Dfs3.Reach (gOf s.idx) s0 a) → a ≠ b →
      Dfs3.Reach (gOf s.idx) a b → Dfs3.Reach (gOf s.idx) b a → False
  /-- the locations written by different triggered tasks are incomparable -/
  h2 : ∀ t, Trig s p t → ∀ u, Trig s p u → t.id ≠ u.id → ∀ a ∈ itemsOf t, ∀ b ∈ itemsOf u,
      Incomparable b.target a.target
  /-- … and so is the assigned one; only the assigned location itself may be written again (by the definition that
      `set_value(ref, expression)` has just installed there) -/
  h2p : ∀ t, Trig s p t → ∀ it ∈ itemsOf t, it.target = p ∨ Incomparable p it.target
  /-- within one body a later line does not disturb an earlier one -/
  body : ∀ t, Trig s p t → (itemsOf t).Pairwise (fun a b => Incomparable b.target a.target ∧
      ∀ r ∈ leafRefs a.expr, Incomparable b.target r)
  nofault : s.faultIn = none

/-- `ScopeG` (all tasks expression / function tasks, C01's function-task scope) is inside `ScopeT` -/
theorem ScopeG.toT {s : MState} {p : Path} (sc : ScopeG s p)
    (hself : ∀ t ∈ s.defs, t.id = p → ∀ it ∈ itemsOf t, it.target = p) : ScopeT s p :=
  { decl := fun t ht => sc.decl t ht.1, pathP := sc.pathP, paths := fun t ht => sc.paths t ht.1,
    acyclic := sc.acyclic, h2 := fun t ht u hu => sc.h2 t ht.1 u hu.1,
    h2p := fun t ht it hit => by
      by_cases he : t.id = p
      · exact Or.inl (hself t ht.1 he it hit)
      · exact Or.inr (sc.h2p t ht.1 he it hit)
    body := fun t ht => sc.body t ht.1, nofault := sc.nofault }

theorem ScopeF.toT {s : MState} {p : Path} (sc : ScopeF s p) : ScopeT s p :=
  { decl := fun t ht => sc.decl t ht.1, pathP := sc.pathP, paths := fun t ht => sc.paths t ht.1,
    acyclic := sc.acyclic, h2 := fun t ht u hu => sc.h2 t ht.1 u hu.1,
    h2p := fun t ht it hit => Or.inr (sc.h2p t ht.1 it hit)
    body := fun t ht => sc.body t ht.1, nofault := sc.nofault }

/-! ### what `ScopeT` says about the items of the triggered tasks -/

section scopeT
open OrderIndep

/-- an item belongs to one triggered definition only -/
theorem item_ownerT {s : MState} {p : Path} (hi : MInv s) (sc : ScopeT s p) {t u : MTask} (ht : Trig s p t)
    (hu : Trig s p u) {a : ETask} (hat : a ∈ itemsOf t) (hau : a ∈ itemsOf u) : t = u := by
  refine eq_of_id_eq s.defs hi.ids t ht.1 u hu.1 (Classical.byContradiction fun hne => ?_)
  exact not_incomparable_selfF _ (sc.h2 t ht u hu hne a hat a hau)

theorem items_nodupT {s : MState} {p : Path} (sc : ScopeT s p) {t : MTask} (ht : Trig s p t) : (itemsOf t).Nodup := by
  refine (sc.body t ht).imp ?_
  intro a b h e
  subst e
  exact not_incomparable_selfF _ h.1

theorem items_targetsT {s : MState} {p : Path} (hi : MInv s) (sc : ScopeT s p) {t u : MTask} (ht : Trig s p t)
    (hu : Trig s p u) {a b : ETask} (ha : a ∈ itemsOf t) (hb : b ∈ itemsOf u) :
    b = a ∨ Incomparable a.target b.target := by
  by_cases hid : t.id = u.id
  · have htu : t = u := eq_of_id_eq s.defs hi.ids t ht.1 u hu.1 hid
    subst htu
    rcases pairwise_mem_cases (sc.body t ht) a ha b hb with rfl | h | h
    · exact Or.inl rfl
    · exact Or.inr (Capstone.incomparable_symm h.1)
    · exact Or.inr h.1
  · exact Or.inr (sc.h2 u hu t ht (fun e => hid e.symm) b hb a ha)

theorem flat_nodupT {s : MState} {p : Path} (hi : MInv s) (sc : ScopeT s p) (l : List MTask)
    (hsub : ∀ t ∈ l, Trig s p t) (hnd : (l.map (·.id)).Nodup) : (l.flatMap itemsOf).Nodup := by
  unfold List.Nodup
  rw [List.pairwise_flatMap]
  refine ⟨fun t ht => items_nodupT sc (hsub t ht), ?_⟩
  have hp : l.Pairwise (fun t u => t.id ≠ u.id) := by
    have := hnd
    unfold List.Nodup at this
    rwa [List.pairwise_map] at this
  refine hp.imp_of_mem ?_
  intro t u ht hu hne x hx y hy e
  subst e
  exact hne (congrArg MTask.id (item_ownerT hi sc (hsub t ht) (hsub u hu) hx hy))

/-- every location written by a triggered task, other than the assigned one, can be read before the assignment -/
def TargetsReadable (s : MState) (p : Path) : Prop :=
  ∀ t, Trig s p t → ∀ it ∈ itemsOf t, it.target ≠ p → ∃ w, get s.store it.target = .ok w

/-- **order independence of `write + run_tasks` in the scope `ScopeT`** (all compared fields): the triggered tasks are
    expression and function tasks; what else the manager holds does not matter.

    `hexist` is what `Store.set_comm` needs: writing two absent dictionary keys in the two orders gives two different
    insertion orders. -/
theorem writeAndRun_sched_indepT (sched1 sched2 : Sched) (s : MState) (p : Path) (v : Val) (hi : MInv s)
    (sc : ScopeT s p)
    (hvs1 : ValidSched (gOf s.idx) (findTaskids s.idx (chainR p)) (sched1 (findTaskids s.idx (chainR p))))
    (hvs2 : ValidSched (gOf s.idx) (findTaskids s.idx (chainR p)) (sched2 (findTaskids s.idx (chainR p))))
    (hexist : TargetsReadable s p)
    (s1 : MState) (hok : writeAndRun sched1 s p v = (s1, none)) :
    ∃ s2, writeAndRun sched2 s p v = (s2, none) ∧ s2.store = s1.store ∧ s2.defs = s1.defs ∧ s2.idx = s1.idx ∧
      s2.frozen = s1.frozen ∧ s2.prev = s1.prev ∧ s2.faultIn = s1.faultIn := by
  unfold writeAndRun at hok ⊢
  cases hw : writeRef s p v with
  | mk sw x =>
    cases x with
    | some x => simp [hw] at hok
    | none =>
      simp only [hw] at hok ⊢
      obtain ⟨hset, hnfw, hdw, hiw, hfw⟩ := writeRef_nofault s p v sc.nofault sw hw
      rw [hiw, hdw] at hok ⊢
      generalize hπ1 : sched1 (findTaskids s.idx (chainR p)) = π1 at hok hvs1
      generalize hπ2 : sched2 (findTaskids s.idx (chainR p)) = π2 at hvs2
      cases hm : List.mapM (lookTask s.defs) π1 with
      | error e => simp [hm] at hok
      | ok l1 =>
        simp only [hm] at hok
        obtain ⟨hl1map, hl1sub⟩ := mapM_lookDef s.defs _ (lookTask_ok s.defs) _ l1 hm
        have hl1π : ∀ t ∈ l1, t.id ∈ π1 := fun t ht => hl1map ▸ List.mem_map_of_mem ht
        have trig1 : ∀ t ∈ l1, Trig s p t := fun t ht => ⟨hl1sub t ht, (hvs1.mem t.id).mp (hl1π t ht)⟩
        have hkind : ∀ (l : List MTask), (∀ t ∈ l, Trig s p t) →
            ∀ t ∈ l, (∃ e, t.kind = .expr e) ∨ ∃ body, t.kind = .func body :=
          fun l hl t ht => declOK_kind (sc.decl t (hl t ht))
        obtain ⟨hrun1, hnf1⟩ := runTasks_items l1 sw s1 hnfw (hkind l1 trig1) hok
        have hprev1 : s1.prev = sw.prev := by
          obtain ⟨s', hs', _, _, hp'⟩ := runTasks_items_conv l1 sw s1.store hnfw (hkind l1 trig1) hrun1
          rw [hok] at hs'
          rw [(Prod.mk.inj hs').1]
          exact hp'
        have hg1 := runTasks_graph l1 sw
        rw [hok] at hg1
        -- the second schedule finds its tasks too
        have hfind2 : ∀ id ∈ π2, ∃ t, lookDef s.defs id = some t := by
          intro id hid
          have : id ∈ π1 := (hvs1.mem id).mpr ((hvs2.mem id).mp hid)
          rw [← hl1map] at this
          obtain ⟨t, ht, rfl⟩ := List.mem_map.mp this
          exact ⟨t, lookDef_of_mem s.defs hi.ids t (hl1sub t ht)⟩
        obtain ⟨l2, hm2⟩ := mapM_lookTask_ok s.defs π2 hfind2
        obtain ⟨hl2map, hl2sub⟩ := mapM_lookDef s.defs _ (lookTask_ok s.defs) _ l2 hm2
        have hl2π : ∀ t ∈ l2, t.id ∈ π2 := fun t ht => hl2map ▸ List.mem_map_of_mem ht
        have trig2 : ∀ t ∈ l2, Trig s p t := fun t ht => ⟨hl2sub t ht, (hvs2.mem t.id).mp (hl2π t ht)⟩
        simp only [hm2]
        -- the two task lists have the same members
        have memT : ∀ (la lb : List MTask) (πa πb : List Path), la.map (·.id) = πa → lb.map (·.id) = πb →
            (∀ t ∈ la, t ∈ s.defs) → (∀ t ∈ lb, t ∈ s.defs) → (∀ id, id ∈ πa → id ∈ πb) →
            ∀ t, t ∈ la → t ∈ lb := by
          intro la lb πa πb ha hb hsa hsb hsub t ht
          have : t.id ∈ lb.map (·.id) := by rw [hb]; exact hsub _ (ha ▸ List.mem_map_of_mem ht)
          obtain ⟨u, hu, hue⟩ := List.mem_map.mp this
          have : u = t := eq_of_id_eq s.defs hi.ids u (hsb u hu) t (hsa t ht) hue
          exact this ▸ hu
        have mem12 : ∀ t, t ∈ l1 → t ∈ l2 :=
          memT l1 l2 π1 π2 hl1map hl2map hl1sub hl2sub (fun id h => (hvs2.mem id).mpr ((hvs1.mem id).mp h))
        have mem21 : ∀ t, t ∈ l2 → t ∈ l1 :=
          memT l2 l1 π2 π1 hl2map hl1map hl2sub hl1sub (fun id h => (hvs1.mem id).mpr ((hvs2.mem id).mp h))
        have memE : ∀ x, x ∈ l1.flatMap itemsOf ↔ x ∈ l2.flatMap itemsOf := by
          intro x
          simp only [List.mem_flatMap]
          exact ⟨fun ⟨t, ht, hx⟩ => ⟨t, mem12 t ht, hx⟩, fun ⟨t, ht, hx⟩ => ⟨t, mem21 t ht, hx⟩⟩
        -- the targets of the triggered items exist after the user's write
        have hP : TargetsExist (l1.flatMap itemsOf) sw.store := by
          intro it hit
          obtain ⟨t, ht, hitt⟩ := List.mem_flatMap.mp hit
          have htd := trig1 t ht
          rcases sc.h2p t htd it hitt with he | hinc
          · exact ⟨v, by rw [he]; exact get_set_same hset⟩
          · obtain ⟨w, hw'⟩ := hexist t htd it hitt (fun e => not_incomparable_selfF p (e ▸ hinc))
            refine ⟨w, ?_⟩
            rw [get_set_incomparable hset hinc sc.pathP.2 (sc.paths t htd it hitt).1.2]
            exact hw'
        have hU : ∀ x ∈ l1.flatMap itemsOf, UE (l1.flatMap itemsOf) x := by
          intro x hx
          obtain ⟨t, ht, hxt⟩ := List.mem_flatMap.mp hx
          have htd := trig1 t ht
          refine ⟨(sc.paths t htd x hxt).1.2, ?_⟩
          intro y hy
          obtain ⟨u, hu, hyu⟩ := List.mem_flatMap.mp hy
          have hud := trig1 u hu
          refine ⟨(sc.paths u hud y hyu).1.2, ?_⟩
          rcases items_targetsT hi sc htd hud hxt hyu with e | h
          · exact Or.inl (congrArg ETask.target e)
          · exact Or.inr h
        -- items of two triggered definitions with no edge from the first to the second
        have niOf : ∀ U, Trig s p U → ∀ T, Trig s p T → U.id ≠ T.id → T.id ∉ gOf s.idx U.id →
            ∀ a ∈ itemsOf U, ∀ b ∈ itemsOf T, (exprSys pySem).NI a b := by
          intro U hU T hT hne hno a ha b hb
          refine ⟨(sc.paths U hU a ha).1.2, (sc.paths T hT b hb).1.2, sc.h2 T hT U hU (fun e => hne e.symm) b hb a ha, ?_⟩
          intro r hr
          refine ⟨((sc.paths T hT b hb).2 r hr).2, Classical.byContradiction fun hcmp => hno ?_⟩
          exact edge_of_readF s hi U T hU.1 hT.1 (sc.decl U hU) (sc.decl T hT) a ha b hb (sc.paths U hU a ha).1.1 r hr
            ((sc.paths T hT b hb).2 r hr).1 hcmp
        have nd1 : l1.Nodup := nodup_of_map (·.id) (hl1map ▸ hvs1.nodup)
        have nd2 : l2.Nodup := nodup_of_map (·.id) (hl2map ▸ hvs2.nodup)
        -- two items ordered differently by the two flattened lists are independent
        have hcompat : ∀ a b, a ≠ b → Dfs3.Before (l1.flatMap itemsOf) a b → Dfs3.Before (l2.flatMap itemsOf) b a →
            IndE pySem (l1.flatMap itemsOf) a b := by
          intro a b _ hb1 hb2
          have ham : a ∈ l1.flatMap itemsOf := before_mem_left hb1
          have hbm : b ∈ l1.flatMap itemsOf := Capstone.before_mem_right hb1
          have key : ∃ ta ∈ l1, ∃ tb ∈ l1, a ∈ itemsOf ta ∧ b ∈ itemsOf tb ∧ Dfs3.Before l1 ta tb ∧
              Dfs3.Before l2 tb ta := by
            rcases before_flatMap itemsOf hb1 with ⟨t, ht, hbt⟩ | ⟨ta, tb, hbt1, hat, hbt⟩
            · exfalso
              have hat : a ∈ itemsOf t := before_mem_left hbt
              have hbt' : b ∈ itemsOf t := Capstone.before_mem_right hbt
              rcases before_flatMap itemsOf hb2 with ⟨t', ht', hbt2⟩ | ⟨tb', ta', hbt2, hb', ha'⟩
              · have : t' = t := item_ownerT hi sc (trig2 t' ht') (trig1 t ht) (Capstone.before_mem_right hbt2) hat
                subst this
                exact not_before_bothC (items_nodupT sc (trig1 t' ht)) hbt hbt2
              · have htb' : tb' ∈ l2 := before_mem_left hbt2
                have hta' : ta' ∈ l2 := Capstone.before_mem_right hbt2
                have e1 : tb' = t := item_ownerT hi sc (trig2 tb' htb') (trig1 t ht) hb' hbt'
                have e2 : ta' = t := item_ownerT hi sc (trig2 ta' hta') (trig1 t ht) ha' hat
                subst e1; subst e2
                exact not_before_self nd2 hbt2
            · have hta : ta ∈ l1 := before_mem_left hbt1
              have htb : tb ∈ l1 := Capstone.before_mem_right hbt1
              rcases before_flatMap itemsOf hb2 with ⟨t', ht', hbt2⟩ | ⟨tb', ta', hbt2, hb', ha'⟩
              · exfalso
                have e1 : ta = t' := item_ownerT hi sc (trig1 ta hta) (trig2 t' ht') hat (Capstone.before_mem_right hbt2)
                have e2 : tb = t' := item_ownerT hi sc (trig1 tb htb) (trig2 t' ht') hbt (before_mem_left hbt2)
                subst e1; subst e2
                exact not_before_self nd1 hbt1
              · have htb' : tb' ∈ l2 := before_mem_left hbt2
                have hta' : ta' ∈ l2 := Capstone.before_mem_right hbt2
                have e1 : tb' = tb := item_ownerT hi sc (trig2 tb' htb') (trig1 tb htb) hb' hbt
                have e2 : ta' = ta := item_ownerT hi sc (trig2 ta' hta') (trig1 ta hta) ha' hat
                subst e1; subst e2
                exact ⟨ta', hta, tb', htb, hat, hbt, hbt1, hbt2⟩
          obtain ⟨ta, hta, tb, htb, hat, hbt, hbt1, hbt2⟩ := key
          have hid : ta.id ≠ tb.id := by
            intro e
            have : ta = tb := eq_of_id_eq s.defs hi.ids ta (hl1sub ta hta) tb (hl1sub tb htb) e
            subst this
            exact not_before_self nd1 hbt1
          have hB1 : Dfs3.Before π1 ta.id tb.id := hl1map ▸ before_map (·.id) hbt1
          have hB2 : Dfs3.Before π2 tb.id ta.id := hl2map ▸ before_map (·.id) hbt2
          have hm1a : ta.id ∈ π1 := hl1π ta hta
          have hm1b : tb.id ∈ π1 := hl1π tb htb
          have hm2a : ta.id ∈ π2 := hl2π ta (mem12 ta hta)
          have hm2b : tb.id ∈ π2 := hl2π tb (mem12 tb htb)
          have no1 : tb.id ∉ gOf s.idx ta.id := fun hedge =>
            not_before_both hvs2.nodup (hvs2.order ta.id tb.id hm2a hm2b hedge (Ne.symm hid)) hB2
          have no2 : ta.id ∉ gOf s.idx tb.id := fun hedge =>
            not_before_both hvs1.nodup (hvs1.order tb.id ta.id hm1b hm1a hedge hid) hB1
          exact ⟨ham, hbm,
            niOf ta (trig1 ta hta) tb (trig1 tb htb) hid no1 a hat b hbt,
            niOf tb (trig1 tb htb) ta (trig1 ta hta) (Ne.symm hid) no2 b hbt a hat⟩
        have hrun2 := perm_runE pySem (l1.flatMap itemsOf) (l1.flatMap itemsOf) (l2.flatMap itemsOf) sw.store s1.store
          (flat_nodupT hi sc l1 trig1 (hl1map ▸ hvs1.nodup)) (flat_nodupT hi sc l2 trig2 (hl2map ▸ hvs2.nodup))
          memE hU hP hcompat hrun1
        obtain ⟨s2, hs2, hst2, hnf2, hprev2⟩ := runTasks_items_conv l2 sw s1.store hnfw (hkind l2 trig2) hrun2
        have hg2 := runTasks_graph l2 sw
        rw [hs2] at hg2
        exact ⟨s2, hs2, hst2, by rw [hg2.2.1, hg1.2.1], by rw [hg2.1, hg1.1], by rw [hg2.2.2, hg1.2.2],
          by rw [hprev2, hprev1], by rw [hnf2, hnf1]⟩

end scopeT

/-! ### the tail `write + run_tasks` on two states with the same task table -/

theorem runList_write_fail (s : MState) (p : Path) (v : Val) (π : List Path) (h : (writeRef s p v).2 ≠ none) :
    runList s p v π = writeRef s p v := by
  unfold runList
  generalize writeRef s p v = r at h
  obtain ⟨s1, x⟩ := r
  cases x with
  | some x => rfl
  | none => exact absurd rfl h

/-- What is asked of `write + run_tasks` made in the states `s0` (first manager, scheduler `sched1`) and `s0'` (second
    manager, scheduler `sched2`); one of:
    * the write to the assigned location itself raises (no task runs);
    * the two managers run the triggered tasks in the same order (then nothing else is asked: the tasks may be of any
      kind, and the call may raise at any point);
    * the assignment is in the scope `ScopeT`, both schedulers return a legal order for their own indices, the
      locations the triggered tasks write can be read, and the call completes on the first manager. -/
def TailOK (sched1 sched2 : Sched) (s0 s0' : MState) (p : Path) (v : Val) : Prop :=
  (writeRef s0 p v).2 ≠ none ∨
  sched1 (findTaskids s0.idx (chainR p)) = sched2 (findTaskids s0'.idx (chainR p)) ∨
  (ScopeT s0 p ∧
   ValidSched (gOf s0.idx) (findTaskids s0.idx (chainR p)) (sched1 (findTaskids s0.idx (chainR p))) ∧
   ValidSched (gOf s0'.idx) (findTaskids s0'.idx (chainR p)) (sched2 (findTaskids s0'.idx (chainR p))) ∧
   TargetsReadable s0 p ∧ (writeAndRun sched1 s0 p v).2 = none)

/-- **`write + run_tasks` on two states with the same task table**: under `TailOK` the same error (or none) and the
    same task table, containers, flag, knob memory and fault counter afterwards -/
theorem writeAndRun_bisimT (sched1 sched2 : Sched) (s s' : MState) (p : Path) (v : Val) (hc : SameCore s s')
    (hi : MInv s) (hi' : MInv s') (hok : TailOK sched1 sched2 s s' p v) :
    (writeAndRun sched2 s' p v).2 = (writeAndRun sched1 s p v).2 ∧
      SameCore (writeAndRun sched1 s p v).1 (writeAndRun sched2 s' p v).1 := by
  rw [writeAndRun_eq_runList sched1 s p v, writeAndRun_eq_runList sched2 s' p v]
  rcases hok with hwf | hsame | ⟨sc, hvs1, hvs2, hex, hdone⟩
  · have hw := writeRef_core hc p v
    have hwf' : (writeRef s' p v).2 ≠ none := by rw [hw.2]; exact hwf
    rw [runList_write_fail s p v _ hwf, runList_write_fail s' p v _ hwf']
    exact ⟨hw.2, hw.1⟩
  · rw [hsame]
    have hr := runList_core hc p v (sched2 (findTaskids s'.idx (chainR p)))
    exact ⟨hr.2, hr.1⟩
  · have hok' : writeAndRun sched1 s p v = ((writeAndRun sched1 s p v).1, none) := by rw [← hdone]
    have hvs2' := validSched_transfer s s' hi hi' hc.1 (chainR p) _ hvs2
    obtain ⟨s2, h2, e1, e2, _, e4, e5, e6⟩ := writeAndRun_sched_indepT sched1
      (fun _ => sched2 (findTaskids s'.idx (chainR p))) s p v hi sc hvs1 hvs2' hex _ hok'
    rw [writeAndRun_eq_runList] at h2
    have hr := runList_core hc p v (sched2 (findTaskids s'.idx (chainR p)))
    rw [h2] at hr
    rw [← writeAndRun_eq_runList sched1 s p v, hdone]
    exact ⟨hr.2, SameCore.trans ⟨e2, e1, e4, e5, e6⟩ hr.1⟩

/-! ### the two assignments -/

/-- `set_value(ref, value)`: either the manager is frozen and the location has a definition (the call is rejected
    before anything happens), or the tail satisfies `TailOK` in the states after the old definition was removed -/
def SetValueOK' (sched1 sched2 : Sched) (s s' : MState) (p : Path) (v : Val) : Prop :=
  (lookDef s.defs p ≠ none ∧ s.frozen = true) ∨ TailOK sched1 sched2 (preState s p) (preState s' p) p v

/-- `set_value(ref, expression)`: either the manager is frozen (rejected), or — if the new expression evaluates at all;
    if it does not the call raises before anything runs — the tail satisfies `TailOK` in the states after the new
    definition was installed -/
def SetExprOK' (sched1 sched2 : Sched) (s s' : MState) (p : Path) (e : Expr) : Prop :=
  s.frozen = true ∨
  ∀ v, evalE (defPart s p e) e = .ok v → TailOK sched1 sched2 (defPart s p e) (defPart s' p e) p v

theorem setExpr_eq_def_err (sched : Sched) (s : MState) (p : Path) (e : Expr) (x : Err) (hf : s.frozen = false)
    (hev : evalE (defPart s p e) e = .error x) :
    setExpr sched s p e = (defPart s p e, some x) := by
  unfold setExpr
  unfold defPart at hev ⊢
  cases hl : lookDef s.defs p with
  | some t =>
    simp only [hl] at hev ⊢
    have hu : (unregister s p).2 = none := by simp [unregister, hf, hl]
    have hfz : (unregister s p).1.frozen = false := by simp [unregister, hf, hl]
    generalize unregister s p = r at hu hfz hev
    obtain ⟨s0, x0⟩ := r
    simp only at hu hfz
    subst hu
    simp only at hev ⊢
    have hr : (register s0 (mkExprTask p e)).2 = none := by simp [register, hfz]
    generalize register s0 (mkExprTask p e) = r at hr hev
    obtain ⟨s1, x1⟩ := r
    simp only at hr
    subst hr
    simp only at hev ⊢
    rw [hev]
  | none =>
    simp only [hl] at hev ⊢
    have hr : (register s (mkExprTask p e)).2 = none := by simp [register, hf]
    generalize register s (mkExprTask p e) = r at hr hev
    obtain ⟨s1, x1⟩ := r
    simp only at hr
    subst hr
    simp only at hev ⊢
    rw [hev]

/-- **`set_value(ref, value)` on two managers with the same task table**, completing or raising -/
theorem setValue_bisim' (sched1 sched2 : Sched) (s s' : MState) (p : Path) (v : Val) (h : SameTable s s')
    (hok : SetValueOK' sched1 sched2 s s' p v) :
    (setValue sched2 s' p v).2 = (setValue sched1 s p v).2 ∧
      SameTable (setValue sched1 s p v).1 (setValue sched2 s' p v).1 := by
  have hcore := h.core
  by_cases hfd : lookDef s.defs p ≠ none ∧ s.frozen = true
  · obtain ⟨hne, hfz⟩ := hfd
    cases hl : lookDef s.defs p with
    | none => exact absurd hl hne
    | some t =>
      rw [setValue_frozen_defined sched1 s p v t hfz hl,
        setValue_frozen_defined sched2 s' p v t (by rw [hcore.2.2.1]; exact hfz) (by rw [hcore.1]; exact hl)]
      exact ⟨rfl, h⟩
  · have hf : lookDef s.defs p ≠ none → s.frozen = false := by
      intro hne
      cases hfz : s.frozen with
      | false => rfl
      | true => exact absurd ⟨hne, hfz⟩ hfd
    have hf' : lookDef s'.defs p ≠ none → s'.frozen = false := by
      rw [hcore.1, hcore.2.2.1]; exact hf
    have htail : TailOK sched1 sched2 (preState s p) (preState s' p) p v := by
      rcases hok with h1 | h1
      · exact absurd h1 hfd
      · exact h1
    obtain ⟨hi0, _⟩ := preState_facts s p h.left hf
    obtain ⟨hi0', _⟩ := preState_facts s' p h.right hf'
    have hm := setValue_MInv sched1 s p v h.left
    have hm' := setValue_MInv sched2 s' p v h.right
    rw [setValue_eq_pre sched1 s p v hf] at hm ⊢
    rw [setValue_eq_pre sched2 s' p v hf'] at hm' ⊢
    obtain ⟨h1, h2⟩ := writeAndRun_bisimT sched1 sched2 (preState s p) (preState s' p) p v (preState_core hcore p)
      hi0 hi0' htail
    exact ⟨h1, SameTable.mk' h2 hm hm'⟩

/-- **`set_value(ref, expression)` on two managers with the same task table**, completing or raising -/
theorem setExpr_bisim' (sched1 sched2 : Sched) (s s' : MState) (p : Path) (e : Expr) (h : SameTable s s')
    (hok : SetExprOK' sched1 sched2 s s' p e) :
    (setExpr sched2 s' p e).2 = (setExpr sched1 s p e).2 ∧
      SameTable (setExpr sched1 s p e).1 (setExpr sched2 s' p e).1 := by
  have hcore := h.core
  cases hfz : s.frozen with
  | true =>
    rw [setExpr_frozen sched1 s p e hfz, setExpr_frozen sched2 s' p e (by rw [hcore.2.2.1]; exact hfz)]
    exact ⟨rfl, h⟩
  | false =>
    have hf' : s'.frozen = false := by rw [hcore.2.2.1]; exact hfz
    have hdc := defPart_core hcore p e
    obtain ⟨hi0, _, _⟩ := defPart_facts s p e h.left hfz
    obtain ⟨hi0', _, _⟩ := defPart_facts s' p e h.right hf'
    have hm := setExpr_MInv sched1 s p e h.left
    have hm' := setExpr_MInv sched2 s' p e h.right
    cases hev : evalE (defPart s p e) e with
    | error x =>
      have hev' : evalE (defPart s' p e) e = .error x := by rw [evalE_core hdc e]; exact hev
      rw [setExpr_eq_def_err sched1 s p e x hfz hev, setExpr_eq_def_err sched2 s' p e x hf' hev']
      exact ⟨rfl, SameTable.mk' hdc hi0 hi0'⟩
    | ok v =>
      have hev' : evalE (defPart s' p e) e = .ok v := by rw [evalE_core hdc e]; exact hev
      have htail : TailOK sched1 sched2 (defPart s p e) (defPart s' p e) p v := by
        rcases hok with h1 | h1
        · rw [hfz] at h1; cases h1
        · exact h1 v hev
      rw [setExpr_eq_def sched1 s p e v hfz hev] at hm ⊢
      rw [setExpr_eq_def sched2 s' p e v hf' hev'] at hm' ⊢
      obtain ⟨h1, h2⟩ := writeAndRun_bisimT sched1 sched2 (defPart s p e) (defPart s' p e) p v hdc hi0 hi0' htail
      exact ⟨h1, SameTable.mk' h2 hm hm'⟩

/-! ### one call -/

/-- What is asked of a call made in the related states `s` (first manager, scheduler `sched1`) and `s'` (second
    manager, scheduler `sched2`):
    * `register`: a fresh id and duplicate-free declared sets (`WFCall`), any kind of task;
    * `unregister`, `load`, `refresh`, `cleanup`, `verify`: nothing;
    * `set_value` with a value or an expression: `SetValueOK'` / `SetExprOK'` — the call is rejected or raises before
      any task runs, or both managers run the triggered tasks in the same order, or it is in the scope `ScopeT`
      (triggered tasks are expression / soundly declared function tasks), both orders are legal and it completes on
      the first manager;
    * an in-place operator: the same for the assignment it reduces to (`inplaceCall`); nothing if it raises before
      assigning. -/
def CallOK' (sched1 sched2 : Sched) (s s' : MState) : Call → Prop
  | .setValue p v => SetValueOK' sched1 sched2 s s' p v
  | .setExpr p e => SetExprOK' sched1 sched2 s s' p e
  | .inplace op p operand =>
    match inplaceCall s op p operand with
    | some (.setValue q v) => SetValueOK' sched1 sched2 s s' q v
    | some (.setExpr q e) => SetExprOK' sched1 sched2 s s' q e
    | some _ => False
    | none => True
  | .register t => lookDef s.defs t.id = none ∧ t.deps.Nodup ∧ t.tars.Nodup
  | _ => True

theorem CallOK'_WFCall {sched1 sched2 : Sched} {s s' : MState} {c : Call} (h : CallOK' sched1 sched2 s s' c) :
    WFCall s c := by
  cases c <;> first | exact h | trivial

/-- **one call keeps two managers with the same task table related, and returns the same error on both** — for
    managers holding expression, function and knob tasks, for assignments that complete and for those that raise
    before a task runs or under equal execution orders (see `CallOK'`) -/
theorem apply_bisim' (sched1 sched2 : Sched) (s s' : MState) (c : Call) (h : SameTable s s')
    (hc : CallOK' sched1 sched2 s s' c) :
    (apply sched2 s' c).2 = (apply sched1 s c).2 ∧ SameTable (apply sched1 s c).1 (apply sched2 s' c).1 := by
  have hw : WFCall s c := CallOK'_WFCall hc
  have hw' : WFCall s' c := by
    cases c <;> first | trivial | (rw [WFCall, h.1]; exact hw)
  have hm := apply_MInv sched1 s c h.left hw
  have hm' := apply_MInv sched2 s' c h.right hw'
  have hcore := h.core
  cases c with
  | setValue p v => exact setValue_bisim' sched1 sched2 s s' p v h hc
  | setExpr p e => exact setExpr_bisim' sched1 sched2 s s' p e h hc
  | inplace op p operand =>
    simp only [CallOK'] at hc
    simp only [apply] at hm hm' ⊢
    cases hcall : inplaceCall s op p operand with
    | none =>
      obtain ⟨a, b, e⟩ := inplace_none_core sched1 sched2 hcore op p operand hcall
      refine ⟨e, ?_⟩
      rw [a, b]; exact h
    | some c0 =>
      have heq := inplace_eq sched1 s op p operand c0 hcall
      have heq' := inplace_eq sched2 s' op p operand c0 (by rw [inplaceCall_core hcore]; exact hcall)
      rw [heq, heq']
      cases c0 with
      | setValue q v =>
        simp only [hcall] at hc
        exact setValue_bisim' sched1 sched2 s s' q v h hc
      | setExpr q e =>
        simp only [hcall] at hc
        exact setExpr_bisim' sched1 sched2 s s' q e h hc
      | inplace _ _ _ => simp [hcall] at hc
      | register _ => simp [hcall] at hc
      | unregister _ => simp [hcall] at hc
      | load _ _ => simp [hcall] at hc
      | refresh => simp [hcall] at hc
      | cleanup => simp [hcall] at hc
      | verify => simp [hcall] at hc
  | register t => exact ⟨(register_core hcore t).2, SameTable.mk' (register_core hcore t).1 hm hm'⟩
  | unregister id => exact ⟨(unregister_core hcore id).2, SameTable.mk' (unregister_core hcore id).1 hm hm'⟩
  | load ow pairs => exact ⟨(load_core ow pairs hcore).2, SameTable.mk' (load_core ow pairs hcore).1 hm hm'⟩
  | refresh => exact ⟨(refresh_core hcore).2, SameTable.mk' (refresh_core hcore).1 hm hm'⟩
  | cleanup => exact ⟨rfl, SameTable.mk' (cleanup_core hcore) hm hm'⟩
  | verify =>
    refine ⟨?_, SameTable.mk' (verify_core hcore) hm hm'⟩
    show (verify s').2 = (verify s).2
    rw [verify_passes s h.left, verify_passes s' h.right]

/-! ### the old `CallOK` is a special case -/

theorem Scope.toT {s : MState} {p : Path} (sc : Scope s p) : ScopeT s p := by
  have items : ∀ t ∈ s.defs, ∃ e, t.kind = .expr e ∧ itemsOf t = [⟨t.id, e⟩] ∧ (toE t).expr = e := by
    intro t ht
    obtain ⟨e, he, _⟩ := sc.exprs t ht
    exact ⟨e, he, by simp [itemsOf, he], by simp [toE, he]⟩
  exact
    { decl := fun t ht => Or.inl (sc.exprs t ht.1)
      pathP := sc.pathP
      paths := by
        intro t ht it hit
        obtain ⟨e, _, hit', hte⟩ := items t ht.1
        rw [hit'] at hit
        simp only [List.mem_singleton] at hit
        subst hit
        exact ⟨(sc.paths t ht.1).1, fun r hr => (sc.paths t ht.1).2 r (by rw [hte]; exact hr)⟩
      acyclic := sc.acyclic
      h2 := by
        intro t ht u hu hne a ha b hb
        obtain ⟨_, _, ha', _⟩ := items t ht.1
        obtain ⟨_, _, hb', _⟩ := items u hu.1
        rw [ha'] at ha; rw [hb'] at hb
        simp only [List.mem_singleton] at ha hb
        subst ha; subst hb
        exact sc.h2 t ht.1 u hu.1 hne
      h2p := by
        intro t ht it hit
        obtain ⟨_, _, hit', _⟩ := items t ht.1
        rw [hit'] at hit
        simp only [List.mem_singleton] at hit
        subst hit
        by_cases he : t.id = p
        · exact Or.inl he
        · exact Or.inr (sc.h2p t ht.1 he)
      body := by
        intro t ht
        obtain ⟨_, _, hit', _⟩ := items t ht.1
        rw [hit']
        exact List.pairwise_singleton _ _
      nofault := sc.nofault }

theorem SetValueOK.to' {sched1 sched2 : Sched} {s s' : MState} {p : Path} {v : Val} (h : SameTable s s')
    (hok : SetValueOK sched1 sched2 s s' p v) : SetValueOK' sched1 sched2 s s' p v := by
  obtain ⟨hc, sc, hv1, hv2, hdone⟩ := hok
  have hf : lookDef s.defs p ≠ none → s.frozen = false := by
    intro hne
    cases hl : lookDef s.defs p with
    | none => exact absurd hl hne
    | some t =>
      cases hfz : s.frozen with
      | false => rfl
      | true =>
        rw [setValue_frozen_defined sched1 s p v t hfz hl] at hdone
        cases hdone
  obtain ⟨_, hst, _, _, _, hsub⟩ := preState_facts s p h.left hf
  refine Or.inr (Or.inr (Or.inr ⟨sc.toT, hv1, hv2, ?_, ?_⟩))
  · intro t ht it hit _
    obtain ⟨e, he, _⟩ := sc.exprs t ht.1
    have hit' : it = ⟨t.id, e⟩ := by simpa [itemsOf, he] using hit
    obtain ⟨w, _, hw⟩ := hc t (hsub t ht.1).1
    exact ⟨w, by rw [hit', hst]; exact hw⟩
  · rw [← setValue_eq_pre sched1 s p v hf]; exact hdone

theorem SetExprOK.to' {sched1 sched2 : Sched} {s s' : MState} {p : Path} {e : Expr} (h : SameTable s s')
    (hok : SetExprOK sched1 sched2 s s' p e) : SetExprOK' sched1 sched2 s s' p e := by
  obtain ⟨hc, sc, hv1, hv2, hdone⟩ := hok
  have hf : s.frozen = false := by
    cases hfz : s.frozen with
    | false => rfl
    | true =>
      rw [setExpr_frozen sched1 s p e hfz] at hdone
      cases hdone
  obtain ⟨_, hst, hsub⟩ := defPart_facts s p e h.left hf
  refine Or.inr fun v hev => Or.inr (Or.inr ⟨sc.toT, hv1, hv2, ?_, ?_⟩)
  · intro t ht it hit hne
    obtain ⟨e', he, _⟩ := sc.exprs t ht.1
    have hit' : it = ⟨t.id, e'⟩ := by simpa [itemsOf, he] using hit
    rcases hsub t ht.1 with ⟨h1, _⟩ | h1
    · obtain ⟨w, _, hw⟩ := hc t h1
      exact ⟨w, by rw [hit', hst]; exact hw⟩
    · exact absurd (by rw [hit', h1]; rfl) hne
  · rw [← setExpr_eq_def sched1 s p e v hf hev]; exact hdone

/-- every call in the scope of `apply_bisim` is in the scope of `apply_bisim'` -/
theorem CallOK.to' {sched1 sched2 : Sched} {s s' : MState} {c : Call} (h : SameTable s s')
    (hok : CallOK sched1 sched2 s s' c) : CallOK' sched1 sched2 s s' c := by
  cases c with
  | setValue p v => exact SetValueOK.to' h hok
  | setExpr p e => exact SetExprOK.to' h hok
  | inplace op p operand =>
    simp only [CallOK] at hok
    simp only [CallOK']
    cases hcall : inplaceCall s op p operand with
    | none => trivial
    | some c0 =>
      cases c0 with
      | setValue q v => simp only [hcall] at hok ⊢; exact SetValueOK.to' h hok
      | setExpr q e => simp only [hcall] at hok ⊢; exact SetExprOK.to' h hok
      | inplace _ _ _ => simp [hcall] at hok
      | register _ => simp [hcall] at hok
      | unregister _ => simp [hcall] at hok
      | load _ _ => simp [hcall] at hok
      | refresh => simp [hcall] at hok
      | cleanup => simp [hcall] at hok
      | verify => simp [hcall] at hok
  | register t => exact hok
  | unregister _ => trivial
  | load _ _ => trivial
  | refresh => trivial
  | cleanup => trivial
  | verify => trivial

/-! ### histories -/

/-- every call of the history satisfies `CallOK'` in the pair of states where it is made -/
def BisimRun' (sched1 sched2 : Sched) : MState → MState → List Call → Prop
  | _, _, [] => True
  | s, s', c :: cs => CallOK' sched1 sched2 s s' c ∧ BisimRun' sched1 sched2 (apply sched1 s c).1 (apply sched2 s' c).1 cs

/-- **bisimulation over histories, wider scope**: two managers with the same task table, run through the same
    `BisimRun'` history with their own schedulers, return the same error at every call and stay related after every
    call -/
theorem bisim_history' (sched1 sched2 : Sched) : ∀ (cs : List Call) (s s' : MState), SameTable s s' →
    BisimRun' sched1 sched2 s s' cs →
    RelatedOutcomes (outcomes sched1 s cs) (outcomes sched2 s' cs)
  | [], _, _, _, _ => trivial
  | c :: cs, s, s', h, hg => by
    obtain ⟨h1, h2⟩ := apply_bisim' sched1 sched2 s s' c h hg.1
    exact ⟨⟨h1, h2⟩, bisim_history' sched1 sched2 cs _ _ h2 hg.2⟩

/-- the same errors, call by call -/
theorem bisim_history_errors' (sched1 sched2 : Sched) : ∀ (cs : List Call) (s s' : MState), SameTable s s' →
    BisimRun' sched1 sched2 s s' cs →
    (outcomes sched2 s' cs).map (·.2) = (outcomes sched1 s cs).map (·.2)
  | [], _, _, _, _ => rfl
  | c :: cs, s, s', h, hg => by
    obtain ⟨h1, h2⟩ := apply_bisim' sched1 sched2 s s' c h hg.1
    simp only [outcomes, List.map_cons, h1, bisim_history_errors' sched1 sched2 cs _ _ h2 hg.2]

/-- the final states are related -/
theorem bisim_history_final' (sched1 sched2 : Sched) : ∀ (cs : List Call) (s s' : MState), SameTable s s' →
    BisimRun' sched1 sched2 s s' cs → SameTable (applyAll sched1 s cs) (applyAll sched2 s' cs)
  | [], _, _, h, _ => h
  | c :: cs, s, s', h, hg => by
    obtain ⟨_, h2⟩ := apply_bisim' sched1 sched2 s s' c h hg.1
    exact bisim_history_final' sched1 sched2 cs _ _ h2 hg.2

/-- a history in the old scope is a history in the new one -/
theorem BisimRun.to' (sched1 sched2 : Sched) : ∀ (cs : List Call) (s s' : MState), SameTable s s' →
    BisimRun sched1 sched2 s s' cs → BisimRun' sched1 sched2 s s' cs
  | [], _, _, _, _ => trivial
  | c :: cs, s, s', h, hg =>
    ⟨CallOK.to' h hg.1, BisimRun.to' sched1 sched2 cs _ _ (apply_bisim sched1 sched2 s s' c h hg.1).2 hg.2⟩

/-- … and after every call, and at the end, all queries agree -/
theorem bisim_history_queries' (sched1 sched2 : Sched) (cs : List Call) (s s' : MState) (h : SameTable s s')
    (hg : BisimRun' sched1 sched2 s s' cs) :
    QueriesAgree (applyAll sched1 s cs) (applyAll sched2 s' cs) :=
  sameTable_queries (bisim_history_final' sched1 sched2 cs s s' h hg)

/-! ## 3. failing assignments

When an assignment raises while the triggered tasks run, the MODEL (like the code) stops at the failing task and leaves
the containers as they are at that moment.  Two legal orders may therefore meet *different* failing tasks first and
stop with *different* errors and *different* container contents (`FailExample`).  What is true in scope: one side
raises iff the other does, and everything except the containers (task table, flag, knob memory, fault counter, index
invariant) agrees afterwards. -/

/-- everything `SameCore` compares, except the containers -/
def SameButStore (s s' : MState) : Prop :=
  s'.defs = s.defs ∧ s'.frozen = s.frozen ∧ s'.prev = s.prev ∧ s'.faultIn = s.faultIn

theorem SameCore.butStore {s s' : MState} (h : SameCore s s') : SameButStore s s' := ⟨h.1, h.2.2.1, h.2.2.2.1, h.2.2.2.2⟩

/-! ### where the error of a failing `write + run_tasks` comes from (any manager, any tasks) -/

/-- **the error of a failing `write + run_tasks` is raised by the write to the assigned location, by the look-up of a
    scheduled id, or by one scheduled task — after the tasks scheduled before it completed and before any task
    scheduled after it ran** -/
theorem writeAndRun_error_source (sched : Sched) (s : MState) (p : Path) (v : Val) (s1 : MState) (x : Err)
    (h : writeAndRun sched s p v = (s1, some x)) :
    writeRef s p v = (s1, some x) ∨
    (writeRef s p v = (s1, none) ∧ (sched (findTaskids s.idx (chainR p))).mapM (lookTask s.defs) = .error x) ∨
    (∃ sw l pre t post sm, writeRef s p v = (sw, none) ∧
      (sched (findTaskids s.idx (chainR p))).mapM (lookTask s.defs) = .ok l ∧ l = pre ++ t :: post ∧
      runTasks sw pre = (sm, none) ∧ runTask sm t = (s1, some x)) := by
  rw [writeAndRun_eq_runList] at h
  unfold runList at h
  have hg := writeRef_graph s p v
  cases hw : writeRef s p v with
  | mk sw y =>
    rw [hw] at h hg
    cases y with
    | some y =>
      simp only [Prod.mk.injEq, Option.some.injEq] at h
      left; rw [h.1, h.2]
    | none =>
      right
      simp only at h hg
      rw [hg.2.1] at h
      cases hm : (sched (findTaskids s.idx (chainR p))).mapM (lookTask s.defs) with
      | error e =>
        rw [hm] at h
        simp only [Prod.mk.injEq, Option.some.injEq] at h
        left; rw [h.1, h.2]; exact ⟨rfl, rfl⟩
      | ok l =>
        rw [hm] at h
        simp only at h
        obtain ⟨pre, t, post, sm, hl, hpre, hfail⟩ := runTasks_prefix l sw s1 x h
        right
        exact ⟨sw, l, pre, t, post, sm, rfl, rfl, hl, hpre, hfail⟩

/-- every id `find_taskids` returns is a registered task -/
theorem findTaskids_sub (s : MState) (hi : MInv s) (D : List Path) (x : Path) (hx : x ∈ findTaskids s.idx D) :
    x ∈ s.defs.map (·.id) := by
  obtain ⟨s0, hs0, r⟩ := ((findTaskids_once_exact s hi D).2 x).mp hx
  have h0 := startOf_sub s hi D s0 hs0
  clear hs0 hx
  induction r with
  | refl => exact h0
  | step hab _ ih => exact ih (gOf_closed s hi _ _ hab)

/-- in a state satisfying the index invariant, under a scheduler that returns only triggered ids, the look-up cannot
    fail: **the error is raised by the initial write or by a triggered task** -/
theorem writeAndRun_error_source_inv (sched : Sched) (s : MState) (p : Path) (v : Val) (hi : MInv s)
    (hsub : ∀ id ∈ sched (findTaskids s.idx (chainR p)), id ∈ findTaskids s.idx (chainR p))
    (s1 : MState) (x : Err) (h : writeAndRun sched s p v = (s1, some x)) :
    writeRef s p v = (s1, some x) ∨
    (∃ sw pre t post sm, writeRef s p v = (sw, none) ∧ Trig s p t ∧
      (pre ++ t :: post).map (·.id) = sched (findTaskids s.idx (chainR p)) ∧
      runTasks sw pre = (sm, none) ∧ runTask sm t = (s1, some x)) := by
  rcases writeAndRun_error_source sched s p v s1 x h with h1 | ⟨_, hm⟩ | ⟨sw, l, pre, t, post, sm, hw, hm, hl, hpre, hfail⟩
  · exact Or.inl h1
  · exfalso
    have : ∀ id ∈ sched (findTaskids s.idx (chainR p)), ∃ t, lookDef s.defs id = some t := by
      intro id hid
      obtain ⟨t, ht, rfl⟩ := List.mem_map.mp (findTaskids_sub s hi _ id (hsub id hid))
      exact ⟨t, lookDef_of_mem s.defs hi.ids t ht⟩
    obtain ⟨l, hl⟩ := mapM_lookTask_ok s.defs _ this
    rw [hl] at hm; cases hm
  · right
    obtain ⟨hlmap, hlsub⟩ := mapM_lookDef s.defs _ (lookTask_ok s.defs) _ l hm
    have ht : t ∈ l := by rw [hl]; simp
    refine ⟨sw, pre, t, post, sm, hw, ⟨hlsub t ht, hsub _ ?_⟩, by rw [← hl]; exact hlmap, hpre, hfail⟩
    rw [← hlmap]; exact List.mem_map_of_mem ht

/-! ### what a failing run keeps -/

theorem writeRef_keep (s : MState) (p : Path) (v : Val) (hnf : s.faultIn = none) :
    (writeRef s p v).1.prev = s.prev ∧ (writeRef s p v).1.faultIn = none := by
  unfold writeRef
  cases set s.store p v with
  | error e => exact ⟨rfl, hnf⟩
  | ok σ' => refine ⟨?_, ?_⟩ <;> simp [hnf]

theorem runBody_keep : ∀ (body : List (Path × Expr)) (s : MState), s.faultIn = none →
    (runBody s body).1.prev = s.prev ∧ (runBody s body).1.faultIn = none
  | [], s, hnf => ⟨rfl, hnf⟩
  | (p, e) :: rest, s, hnf => by
    simp only [runBody]
    cases evalE s e with
    | error x => exact ⟨rfl, hnf⟩
    | ok v =>
      simp only
      have hw := writeRef_keep s p v hnf
      generalize writeRef s p v = r at hw
      obtain ⟨s1, x⟩ := r
      cases x with
      | some x => exact hw
      | none =>
        simp only at hw ⊢
        obtain ⟨h1, h2⟩ := runBody_keep rest s1 hw.2
        exact ⟨h1.trans hw.1, h2⟩

theorem runTask_keep (s : MState) (t : MTask) (hnf : s.faultIn = none)
    (hk : (∃ e, t.kind = .expr e) ∨ ∃ body, t.kind = .func body) :
    (runTask s t).1.prev = s.prev ∧ (runTask s t).1.faultIn = none := by
  rcases hk with ⟨e, hk⟩ | ⟨body, hk⟩
  · simp only [runTask, hk]
    cases evalE s e with
    | error x => exact ⟨rfl, hnf⟩
    | ok v => exact writeRef_keep s t.id v hnf
  · simp only [runTask, hk]
    have hb := runBody_keep body { s with trace := s.trace ++ [(false, t.id)] } hnf
    generalize runBody { s with trace := s.trace ++ [(false, t.id)] } body = r at hb
    obtain ⟨s1, x⟩ := r
    exact hb

theorem runTasks_keep : ∀ (l : List MTask) (s : MState), s.faultIn = none →
    (∀ t ∈ l, (∃ e, t.kind = .expr e) ∨ ∃ body, t.kind = .func body) →
    (runTasks s l).1.prev = s.prev ∧ (runTasks s l).1.faultIn = none
  | [], s, hnf, _ => ⟨rfl, hnf⟩
  | t :: l, s, hnf, hk => by
    simp only [runTasks]
    have ht := runTask_keep s t hnf (hk t (List.mem_cons_self ..))
    generalize runTask s t = r at ht
    obtain ⟨s1, x⟩ := r
    cases x with
    | some x => exact ht
    | none =>
      simp only at ht ⊢
      obtain ⟨h1, h2⟩ := runTasks_keep l s1 ht.2 (fun u hu => hk u (List.mem_cons_of_mem _ hu))
      exact ⟨h1.trans ht.1, h2⟩

/-- `write + run_tasks` of expression / function tasks without an injected fault: completing or raising, at whatever
    point, the knob memory is unchanged and no fault counter appears -/
theorem writeAndRun_keep (sched : Sched) (s : MState) (p : Path) (v : Val) (hnf : s.faultIn = none)
    (hk : ∀ t ∈ s.defs, t.id ∈ sched (findTaskids s.idx (chainR p)) →
      (∃ e, t.kind = .expr e) ∨ ∃ body, t.kind = .func body) :
    (writeAndRun sched s p v).1.prev = s.prev ∧ (writeAndRun sched s p v).1.faultIn = none := by
  rw [writeAndRun_eq_runList]
  unfold runList
  have hw := writeRef_keep s p v hnf
  have hg := writeRef_graph s p v
  generalize writeRef s p v = r at hw hg
  obtain ⟨sw, x⟩ := r
  cases x with
  | some x => exact hw
  | none =>
    simp only at hw hg ⊢
    rw [hg.2.1]
    cases hm : (sched (findTaskids s.idx (chainR p))).mapM (lookTask s.defs) with
    | error e => exact hw
    | ok l =>
      simp only
      obtain ⟨hlmap, hlsub⟩ := mapM_lookDef s.defs _ (lookTask_ok s.defs) _ l hm
      obtain ⟨h1, h2⟩ := runTasks_keep l sw hw.2
        (fun t ht => hk t (hlsub t ht) (by rw [← hlmap]; exact List.mem_map_of_mem ht))
      exact ⟨h1.trans hw.1, h2⟩

/-! ### two managers, any outcome -/

/-- **`write + run_tasks` in scope on two states with the same task table, whatever the outcome.**  With legal orders
    on both sides: (1) the second raises iff the first does (NOT necessarily the same error, see `FailExample`);
    (2) if they complete they end with the same containers (`SameCore`); (3) in every case they end with the same task
    table, flag, knob memory and fault counter (`SameButStore`), each with the task table and indices it started with. -/
theorem writeAndRun_fail_bisim (sched1 sched2 : Sched) (s s' : MState) (p : Path) (v : Val) (hc : SameCore s s')
    (hi : MInv s) (hi' : MInv s') (sc : ScopeT s p)
    (hvs1 : ValidSched (gOf s.idx) (findTaskids s.idx (chainR p)) (sched1 (findTaskids s.idx (chainR p))))
    (hvs2 : ValidSched (gOf s'.idx) (findTaskids s'.idx (chainR p)) (sched2 (findTaskids s'.idx (chainR p))))
    (hex : TargetsReadable s p) :
    ((writeAndRun sched2 s' p v).2 = none ↔ (writeAndRun sched1 s p v).2 = none) ∧
    ((writeAndRun sched1 s p v).2 = none →
      SameCore (writeAndRun sched1 s p v).1 (writeAndRun sched2 s' p v).1) ∧
    SameButStore (writeAndRun sched1 s p v).1 (writeAndRun sched2 s' p v).1 ∧
    SameGraph s (writeAndRun sched1 s p v).1 ∧ SameGraph s' (writeAndRun sched2 s' p v).1 := by
  have hvs2' := validSched_transfer s s' hi hi' hc.1 (chainR p) _ hvs2
  have fwd : (writeAndRun sched1 s p v).2 = none →
      (writeAndRun sched2 s' p v).2 = none ∧ SameCore (writeAndRun sched1 s p v).1 (writeAndRun sched2 s' p v).1 := by
    intro hdone
    obtain ⟨h1, h2⟩ := writeAndRun_bisimT sched1 sched2 s s' p v hc hi hi'
      (Or.inr (Or.inr ⟨sc, hvs1, hvs2, hex, hdone⟩))
    exact ⟨h1.trans hdone, h2⟩
  have bwd : (writeAndRun sched2 s' p v).2 = none → (writeAndRun sched1 s p v).2 = none := by
    intro hdone
    -- the second manager's list, run on the first manager's state, completes too …
    have hr := runList_core hc p v (sched2 (findTaskids s'.idx (chainR p)))
    rw [← writeAndRun_eq_runList sched2 s' p v, hdone] at hr
    have hrun : writeAndRun (fun _ => sched2 (findTaskids s'.idx (chainR p))) s p v =
        ((runList s p v (sched2 (findTaskids s'.idx (chainR p)))).1, none) := by
      rw [writeAndRun_eq_runList]
      exact Prod.ext rfl hr.2.symm
    -- … and then so does every other legal order there
    obtain ⟨s2, h2, _⟩ := writeAndRun_sched_indepT (fun _ => sched2 (findTaskids s'.idx (chainR p))) sched1 s p v hi sc
      hvs2' hvs1 hex _ hrun
    rw [h2]
  have hg1 := writeAndRun_graph sched1 s p v
  have hg2 := writeAndRun_graph sched2 s' p v
  have hq := (sameTable_queries (SameTable.mk' hc hi hi')).findTaskids (chainR p)
  have hk1 : ∀ t ∈ s.defs, t.id ∈ sched1 (findTaskids s.idx (chainR p)) →
      (∃ e, t.kind = .expr e) ∨ ∃ body, t.kind = .func body :=
    fun t ht hin => declOK_kind (sc.decl t ⟨ht, (hvs1.mem t.id).mp hin⟩)
  have hk2 : ∀ t ∈ s'.defs, t.id ∈ sched2 (findTaskids s'.idx (chainR p)) →
      (∃ e, t.kind = .expr e) ∨ ∃ body, t.kind = .func body :=
    fun t ht hin => declOK_kind (sc.decl t ⟨hc.1 ▸ ht, (hq t.id).mpr ((hvs2.mem t.id).mp hin)⟩)
  have hkeep1 := writeAndRun_keep sched1 s p v sc.nofault hk1
  have hkeep2 := writeAndRun_keep sched2 s' p v (by rw [hc.2.2.2.2]; exact sc.nofault) hk2
  refine ⟨⟨bwd, fun h => (fwd h).1⟩, fun h => (fwd h).2, ⟨?_, ?_, ?_, ?_⟩, hg1, hg2⟩
  · rw [hg2.2.1, hg1.2.1]; exact hc.1
  · rw [hg2.2.2, hg1.2.2]; exact hc.2.2.1
  · rw [hkeep2.1, hkeep1.1]; exact hc.2.2.2.1
  · rw [hkeep2.2, hkeep1.2]

/-- the scope of one `set_value(ref, value)` for the any-outcome theorem -/
def SetValueScope (sched1 sched2 : Sched) (s s' : MState) (p : Path) : Prop :=
  ScopeT (preState s p) p ∧
  ValidSched (gOf (preState s p).idx) (findTaskids (preState s p).idx (chainR p))
    (sched1 (findTaskids (preState s p).idx (chainR p))) ∧
  ValidSched (gOf (preState s' p).idx) (findTaskids (preState s' p).idx (chainR p))
    (sched2 (findTaskids (preState s' p).idx (chainR p))) ∧
  TargetsReadable (preState s p) p

/-- **`set_value(ref, value)` in scope on two managers with the same task table, whatever the outcome**: both raise or
    neither does; if neither does they are `SameTable` afterwards; in every case they agree afterwards on the task
    table, the flag, the knob memory and the fault counter and both satisfy the index invariant (so all *graph* queries
    still agree — `queries_after_failure`) — only the containers may differ. -/
theorem setValue_any_outcome (sched1 sched2 : Sched) (s s' : MState) (p : Path) (v : Val) (h : SameTable s s')
    (hsc : SetValueScope sched1 sched2 s s' p) :
    ((setValue sched2 s' p v).2 = none ↔ (setValue sched1 s p v).2 = none) ∧
    ((setValue sched1 s p v).2 = none → SameTable (setValue sched1 s p v).1 (setValue sched2 s' p v).1) ∧
    SameButStore (setValue sched1 s p v).1 (setValue sched2 s' p v).1 ∧
    MInv (setValue sched1 s p v).1 ∧ MInv (setValue sched2 s' p v).1 := by
  have hcore := h.core
  have hm := setValue_MInv sched1 s p v h.left
  have hm' := setValue_MInv sched2 s' p v h.right
  suffices h3 : ((setValue sched2 s' p v).2 = none ↔ (setValue sched1 s p v).2 = none) ∧
      ((setValue sched1 s p v).2 = none → SameTable (setValue sched1 s p v).1 (setValue sched2 s' p v).1) ∧
      SameButStore (setValue sched1 s p v).1 (setValue sched2 s' p v).1 from ⟨h3.1, h3.2.1, h3.2.2, hm, hm'⟩
  by_cases hfd : lookDef s.defs p ≠ none ∧ s.frozen = true
  · obtain ⟨hne, hfz⟩ := hfd
    cases hl : lookDef s.defs p with
    | none => exact absurd hl hne
    | some t =>
      rw [setValue_frozen_defined sched1 s p v t hfz hl,
        setValue_frozen_defined sched2 s' p v t (by rw [hcore.2.2.1]; exact hfz) (by rw [hcore.1]; exact hl)]
      exact ⟨Iff.rfl, fun _ => h, hcore.butStore⟩
  · have hf : lookDef s.defs p ≠ none → s.frozen = false := by
      intro hne
      cases hfz : s.frozen with
      | false => rfl
      | true => exact absurd ⟨hne, hfz⟩ hfd
    have hf' : lookDef s'.defs p ≠ none → s'.frozen = false := by
      rw [hcore.1, hcore.2.2.1]; exact hf
    obtain ⟨hi0, _⟩ := preState_facts s p h.left hf
    obtain ⟨hi0', _⟩ := preState_facts s' p h.right hf'
    obtain ⟨sc, hv1, hv2, hex⟩ := hsc
    rw [setValue_eq_pre sched1 s p v hf] at hm ⊢
    rw [setValue_eq_pre sched2 s' p v hf'] at hm' ⊢
    obtain ⟨a, b, c, _⟩ := writeAndRun_fail_bisim sched1 sched2 (preState s p) (preState s' p) p v
      (preState_core hcore p) hi0 hi0' sc hv1 hv2 hex
    exact ⟨a, fun hd => SameTable.mk' (b hd) hm hm', c⟩

/-- the scope of one `set_value(ref, expression)` for the any-outcome theorem -/
def SetExprScope (sched1 sched2 : Sched) (s s' : MState) (p : Path) (e : Expr) : Prop :=
  ScopeT (defPart s p e) p ∧
  ValidSched (gOf (defPart s p e).idx) (findTaskids (defPart s p e).idx (chainR p))
    (sched1 (findTaskids (defPart s p e).idx (chainR p))) ∧
  ValidSched (gOf (defPart s' p e).idx) (findTaskids (defPart s' p e).idx (chainR p))
    (sched2 (findTaskids (defPart s' p e).idx (chainR p))) ∧
  TargetsReadable (defPart s p e) p

/-- **`set_value(ref, expression)` in scope on two managers with the same task table, whatever the outcome** -/
theorem setExpr_any_outcome (sched1 sched2 : Sched) (s s' : MState) (p : Path) (e : Expr) (h : SameTable s s')
    (hsc : SetExprScope sched1 sched2 s s' p e) :
    ((setExpr sched2 s' p e).2 = none ↔ (setExpr sched1 s p e).2 = none) ∧
    ((setExpr sched1 s p e).2 = none → SameTable (setExpr sched1 s p e).1 (setExpr sched2 s' p e).1) ∧
    SameButStore (setExpr sched1 s p e).1 (setExpr sched2 s' p e).1 ∧
    MInv (setExpr sched1 s p e).1 ∧ MInv (setExpr sched2 s' p e).1 := by
  have hcore := h.core
  have hm := setExpr_MInv sched1 s p e h.left
  have hm' := setExpr_MInv sched2 s' p e h.right
  suffices h3 : ((setExpr sched2 s' p e).2 = none ↔ (setExpr sched1 s p e).2 = none) ∧
      ((setExpr sched1 s p e).2 = none → SameTable (setExpr sched1 s p e).1 (setExpr sched2 s' p e).1) ∧
      SameButStore (setExpr sched1 s p e).1 (setExpr sched2 s' p e).1 from ⟨h3.1, h3.2.1, h3.2.2, hm, hm'⟩
  cases hfz : s.frozen with
  | true =>
    rw [setExpr_frozen sched1 s p e hfz, setExpr_frozen sched2 s' p e (by rw [hcore.2.2.1]; exact hfz)]
    exact ⟨Iff.rfl, fun _ => h, hcore.butStore⟩
  | false =>
    have hf' : s'.frozen = false := by rw [hcore.2.2.1]; exact hfz
    have hdc := defPart_core hcore p e
    obtain ⟨hi0, _, _⟩ := defPart_facts s p e h.left hfz
    obtain ⟨hi0', _, _⟩ := defPart_facts s' p e h.right hf'
    cases hev : evalE (defPart s p e) e with
    | error x =>
      have hev' : evalE (defPart s' p e) e = .error x := by rw [evalE_core hdc e]; exact hev
      rw [setExpr_eq_def_err sched1 s p e x hfz hev, setExpr_eq_def_err sched2 s' p e x hf' hev']
      exact ⟨Iff.rfl, fun _ => SameTable.mk' hdc hi0 hi0', hdc.butStore⟩
    | ok v =>
      have hev' : evalE (defPart s' p e) e = .ok v := by rw [evalE_core hdc e]; exact hev
      obtain ⟨sc, hv1, hv2, hex⟩ := hsc
      rw [setExpr_eq_def sched1 s p e v hfz hev] at hm ⊢
      rw [setExpr_eq_def sched2 s' p e v hf' hev'] at hm' ⊢
      obtain ⟨a, b, c, _⟩ := writeAndRun_fail_bisim sched1 sched2 (defPart s p e) (defPart s' p e) p v hdc hi0 hi0'
        sc hv1 hv2 hex
      exact ⟨a, fun hd => SameTable.mk' (b hd) hm hm', c⟩

/-- after a failing assignment the containers may differ, but the graph queries still agree: they are functions of the
    task table, which the two sides still share -/
theorem queries_after_failure {a b : MState} (h : SameButStore a b) (hi : MInv a) (hi' : MInv b) :
    (∀ start x, x ∈ findDeps a.idx start ↔ x ∈ findDeps b.idx start) ∧
    (∀ D x, x ∈ findTaskids a.idx D ↔ x ∈ findTaskids b.idx D) ∧
    (∀ r k, k ∈ RC.keys (DD.get a.idx.tartasks r) ↔ k ∈ RC.keys (DD.get b.idx.tartasks r)) ∧
    (∀ p, exprOf b p = exprOf a p) ∧ dump b = dump a := by
  -- forget the containers of `b`: the graph queries do not read them
  have hst : SameTable a { b with store := a.store } :=
    ⟨h.1, rfl, h.2.1, h.2.2.1, h.2.2.2, hi, MInv_of_sameGraph (s := b) ⟨rfl, rfl, rfl⟩ hi'⟩
  have q := sameTable_queries hst
  exact ⟨q.findDeps, q.findTaskids, q.tartasks, q.exprOf, q.dump⟩

/-! ## 4. refresh / clone anywhere in a history; C20 call by call -/

/-- the manager `clone()` returns, over the same containers: the task table with indices regenerated from it
    (the driver's `clone` line observes the supports of exactly these indices) -/
def cloneOf (s : MState) : MState := { s with idx := (cleanup { s with idx := regen s.defs }).idx }

theorem cloneOf_MInv (s : MState) (hi : MInv s) : MInv (cloneOf s) := by
  have g := regen_GInv s hi
  have h0 : MInv { s with idx := regen s.defs } := ⟨g.inv, g.link, hi.ids, g.rows1, g.rows2, g.rows3, g.rows4⟩
  exact cleanup_MInv _ h0

/-- a clone has the same task table as the original -/
theorem clone_sameTable (s : MState) (hi : MInv s) : SameTable s (cloneOf s) :=
  ⟨rfl, rfl, rfl, rfl, rfl, hi, cloneOf_MInv s hi⟩

/-- **`refresh()` at any point never changes the outcome of the rest of the history**: take any state `s` a history has
    led to (`MInv s`); the manager that continues from `s` and the one that calls `refresh()` first (frozen or not)
    return the same error at every later call, stay `SameTable` after every call, and answer all queries alike at the
    end — under any schedulers, for every rest `cs` in the scope `BisimRun'`. -/
theorem refresh_anywhere (sched1 sched2 : Sched) (s : MState) (hi : MInv s) (cs : List Call)
    (hg : BisimRun' sched1 sched2 s (refresh s).1 cs) :
    RelatedOutcomes (outcomes sched1 s cs) (outcomes sched2 (refresh s).1 cs) ∧
    (outcomes sched2 (refresh s).1 cs).map (·.2) = (outcomes sched1 s cs).map (·.2) ∧
    SameTable (applyAll sched1 s cs) (applyAll sched2 (refresh s).1 cs) ∧
    QueriesAgree (applyAll sched1 s cs) (applyAll sched2 (refresh s).1 cs) :=
  have h := refresh_bisim s hi
  ⟨bisim_history' sched1 sched2 cs _ _ h hg, bisim_history_errors' sched1 sched2 cs _ _ h hg,
   bisim_history_final' sched1 sched2 cs _ _ h hg, bisim_history_queries' sched1 sched2 cs _ _ h hg⟩

/-- **the same for `clone()`**: continuing on the clone instead of the original -/
theorem clone_anywhere (sched1 sched2 : Sched) (s : MState) (hi : MInv s) (cs : List Call)
    (hg : BisimRun' sched1 sched2 s (cloneOf s) cs) :
    RelatedOutcomes (outcomes sched1 s cs) (outcomes sched2 (cloneOf s) cs) ∧
    (outcomes sched2 (cloneOf s) cs).map (·.2) = (outcomes sched1 s cs).map (·.2) ∧
    SameTable (applyAll sched1 s cs) (applyAll sched2 (cloneOf s) cs) ∧
    QueriesAgree (applyAll sched1 s cs) (applyAll sched2 (cloneOf s) cs) :=
  have h := clone_sameTable s hi
  ⟨bisim_history' sched1 sched2 cs _ _ h hg, bisim_history_errors' sched1 sched2 cs _ _ h hg,
   bisim_history_final' sched1 sched2 cs _ _ h hg, bisim_history_queries' sched1 sched2 cs _ _ h hg⟩

theorem drop_length_succ {α : Type} : ∀ (A : List α) (x : α) (B : List α), (A ++ x :: B).drop (A.length + 1) = B
  | [], _, _ => rfl
  | _ :: A, x, B => by
    simp only [List.cons_append, List.length_cons, List.drop_succ_cons]
    exact drop_length_succ A x B

theorem outcomes_append (sched : Sched) : ∀ (pre cs : List Call) (s : MState),
    outcomes sched s (pre ++ cs) = outcomes sched s pre ++ outcomes sched (applyAll sched s pre) cs
  | [], _, _ => rfl
  | c :: pre, cs, s => by
    simp only [List.cons_append, outcomes, applyAll, outcomes_append sched pre cs]

theorem applyAll_append (sched : Sched) : ∀ (pre cs : List Call) (s : MState),
    applyAll sched s (pre ++ cs) = applyAll sched (applyAll sched s pre) cs
  | [], _, _ => rfl
  | c :: pre, cs, s => by
    simp only [List.cons_append, applyAll, applyAll_append sched pre cs]

/-- **a `refresh()` spliced into a history**: the history `pre ++ rest` on the first manager and the history
    `pre ++ refresh :: rest` on the second (both started in the same state `s0`): the errors of the calls of `rest`
    agree one by one, and the two managers end `SameTable`. -/
theorem refresh_spliced (sched1 sched2 : Sched) (pre rest : List Call) (s0 : MState) (hi : MInv s0)
    (hpre : BisimRun' sched1 sched2 s0 s0 pre)
    (hrest : BisimRun' sched1 sched2 (applyAll sched1 s0 pre) (refresh (applyAll sched2 s0 pre)).1 rest) :
    ((outcomes sched2 s0 (pre ++ .refresh :: rest)).map (·.2)).drop (pre.length + 1) =
      ((outcomes sched1 s0 (pre ++ rest)).map (·.2)).drop pre.length ∧
    SameTable (applyAll sched1 s0 (pre ++ rest)) (applyAll sched2 s0 (pre ++ .refresh :: rest)) := by
  have h1 := bisim_history_final' sched1 sched2 pre s0 s0 (SameTable.refl hi) hpre
  have h2 : SameTable (applyAll sched1 s0 pre) (refresh (applyAll sched2 s0 pre)).1 :=
    h1.trans (refresh_bisim _ h1.right)
  have he := bisim_history_errors' sched1 sched2 rest _ _ h2 hrest
  have hf := bisim_history_final' sched1 sched2 rest _ _ h2 hrest
  constructor
  · rw [outcomes_append, outcomes_append, List.map_append, List.map_append]
    have l1 : ((outcomes sched2 s0 pre).map (·.2)).length = pre.length := by
      rw [List.length_map, outcomes_length]
    have l2 : ((outcomes sched1 s0 pre).map (·.2)).length = pre.length := by
      rw [List.length_map, outcomes_length]
    conv => lhs; rw [← l1]
    conv => rhs; rw [← l2]
    simp only [outcomes, List.map_cons]
    rw [drop_length_succ, List.drop_left]
    exact he
  · rw [applyAll_append, applyAll_append]
    exact hf

/-! ### C20: the same outcomes call by call -/

theorem setValue_idx_sched (sched1 sched2 : Sched) (s : MState) (p : Path) (v : Val) :
    (setValue sched2 s p v).1.idx = (setValue sched1 s p v).1.idx := by
  rcases setValue_split s p v with ⟨s0, x, hx⟩ | hsplit
  · rw [hx sched1, hx sched2]
  · rw [hsplit sched1, hsplit sched2, (writeAndRun_graph sched1 _ p v).1, (writeAndRun_graph sched2 _ p v).1]

theorem setExpr_idx_sched (sched1 sched2 : Sched) (s : MState) (p : Path) (e : Expr) :
    (setExpr sched2 s p e).1.idx = (setExpr sched1 s p e).1.idx := by
  rcases setExpr_split s p e with ⟨s0, x, hx⟩ | ⟨v, hsplit⟩
  · rw [hx sched1, hx sched2]
  · rw [hsplit sched1, hsplit sched2, (writeAndRun_graph sched1 _ p v).1, (writeAndRun_graph sched2 _ p v).1]

theorem inplaceCall_kind (s : MState) (op : String) (p : Path) (operand : Expr) (c : Call)
    (h : inplaceCall s op p operand = some c) : (∃ q v, c = .setValue q v) ∨ (∃ q e, c = .setExpr q e) := by
  unfold inplaceCall at h
  cases he : exprOf s p with
  | some e =>
    simp only [he, Option.some.injEq] at h
    exact Or.inr ⟨_, _, h.symm⟩
  | none =>
    simp only [he] at h
    cases hg : get s.store p with
    | error x => simp [hg] at h
    | ok old =>
      simp only [hg] at h
      cases operand with
      | lit w =>
        simp only at h
        cases hb : pyBinRaw op old w with
        | error x => simp [hb] at h
        | ok v =>
          simp only [hb, Option.some.injEq] at h
          exact Or.inl ⟨_, _, h.symm⟩
      | ref r => simp only [Option.some.injEq] at h; exact Or.inr ⟨_, _, h.symm⟩
      | bin o l r => simp only [Option.some.injEq] at h; exact Or.inr ⟨_, _, h.symm⟩
      | un o a => simp only [Option.some.injEq] at h; exact Or.inr ⟨_, _, h.symm⟩

/-- **the indices after a call do not depend on the scheduler** (no hypothesis: `run_tasks` never touches them) -/
theorem apply_idx_sched (sched1 sched2 : Sched) (s : MState) (c : Call) :
    (apply sched2 s c).1.idx = (apply sched1 s c).1.idx := by
  cases c with
  | setValue p v => exact setValue_idx_sched sched1 sched2 s p v
  | setExpr p e => exact setExpr_idx_sched sched1 sched2 s p e
  | inplace op p operand =>
    simp only [apply]
    cases hcall : inplaceCall s op p operand with
    | none =>
      obtain ⟨a, b, _⟩ := inplace_none_core sched1 sched2 (SameCore.refl s) op p operand hcall
      rw [a, b]
    | some c0 =>
      rw [inplace_eq sched1 s op p operand c0 hcall, inplace_eq sched2 s op p operand c0 hcall]
      rcases inplaceCall_kind s op p operand c0 hcall with ⟨q, v, rfl⟩ | ⟨q, e, rfl⟩
      · exact setValue_idx_sched sched1 sched2 s q v
      · exact setExpr_idx_sched sched1 sched2 s q e
  | register _ => rfl
  | unregister _ => rfl
  | load _ _ => rfl
  | refresh => rfl
  | cleanup => rfl
  | verify => rfl

/-- the outcome (state with the per-call event log cleared, error) of every call of a history, the way the driver runs
    it: the event log is cleared before each call -/
def outcomesR (sched : Sched) : MState → List Call → List Res
  | _, [] => []
  | s, c :: cs => (resetT (apply sched s c).1, (apply sched s c).2) :: outcomesR sched (resetT (apply sched s c).1) cs

/-- every call of the history satisfies `CallOK'` for the two schedulers in the state where it is made
    (one manager, two hash seeds: `s' = s`) -/
def GoodRunR (sched1 sched2 : Sched) : MState → List Call → Prop
  | _, [] => True
  | s, c :: cs => CallOK' sched1 sched2 s s c ∧ GoodRunR sched1 sched2 (resetT (apply sched1 s c).1) cs

/-- one call, one manager, two schedulers: the same error and — the event log aside — the same state -/
theorem apply_two_scheds (sched1 sched2 : Sched) (s : MState) (c : Call) (hi : MInv s)
    (hc : CallOK' sched1 sched2 s s c) :
    (apply sched2 s c).2 = (apply sched1 s c).2 ∧ resetT (apply sched2 s c).1 = resetT (apply sched1 s c).1 := by
  obtain ⟨h1, h2⟩ := apply_bisim' sched1 sched2 s s c (SameTable.refl hi) hc
  exact ⟨h1, resetT_eq h2.2.1 h2.1 (apply_idx_sched sched1 sched2 s c) h2.2.2.1 h2.2.2.2.1 h2.2.2.2.2.1⟩

/-- **C20 over histories, call by call**: under two schedulers (two hash seeds) one manager goes through the same
    states and returns the same errors at every call — the lists of outcomes are equal. -/
theorem history_per_call (sched1 sched2 : Sched) : ∀ (cs : List Call) (s : MState), MInv s →
    GoodRunR sched1 sched2 s cs → outcomesR sched2 s cs = outcomesR sched1 s cs
  | [], _, _, _ => rfl
  | c :: cs, s, hi, hg => by
    obtain ⟨h1, h2⟩ := apply_two_scheds sched1 sched2 s c hi hg.1
    have hi' : MInv (resetT (apply sched1 s c).1) :=
      MInv_resetT (apply_MInv sched1 s c hi (CallOK'_WFCall hg.1))
    simp only [outcomesR, h1, h2, history_per_call sched1 sched2 cs _ hi' hg.2]

theorem applyAllR_eq_last (sched : Sched) : ∀ (cs : List Call) (s : MState),
    applyAllR sched s cs = ((outcomesR sched s cs).getLast?.map (·.1)).getD s
  | [], _ => rfl
  | [c], s => by simp [applyAllR, outcomesR]
  | c :: c' :: cs, s => by
    have ih := applyAllR_eq_last sched (c' :: cs) (resetT (apply sched s c).1)
    have hne : outcomesR sched (resetT (apply sched s c).1) (c' :: cs) ≠ [] := by simp [outcomesR]
    simp only [applyAllR] at ih ⊢
    rw [ih]
    simp only [outcomesR]
    rw [List.getLast?_cons_cons]
    simp only [outcomesR] at *
    cases hl : ((resetT (apply sched (resetT (apply sched s c).1) c').1, (apply sched (resetT (apply sched s c).1) c').2) ::
        outcomesR sched (resetT (apply sched (resetT (apply sched s c).1) c').1) cs).getLast? with
    | none => simp at hl
    | some r => rfl

/-- … in particular the final states agree (the conclusion of `history_sched_indep`) -/
theorem history_per_call_final (sched1 sched2 : Sched) (cs : List Call) (s : MState) (hi : MInv s)
    (hg : GoodRunR sched1 sched2 s cs) : applyAllR sched2 s cs = applyAllR sched1 s cs := by
  rw [applyAllR_eq_last, applyAllR_eq_last, history_per_call sched1 sched2 cs s hi hg]

/-- the hypotheses of `history_sched_indep` (expression-task managers, completing assignments, consistent start) are
    a special case of `GoodRunR` -/
theorem GoodRun2.toR (sched1 sched2 : Sched) : ∀ (cs : List Call) (s : MState), MInv s → Consistent s →
    GoodRun2 sched1 sched2 s cs → GoodRunR sched1 sched2 s cs
  | [], _, _, _, _ => trivial
  | .setValue p v :: cs, s, hi, hc, hg => by
    obtain ⟨sc, hv1, hv2, hok, hrest⟩ := hg
    have hok' : setValue sched1 s p v = ((setValue sched1 s p v).1, none) := by rw [← hok]
    obtain ⟨hc', hi', _⟩ := setValue_consistent sched1 s p v hi hc sc hv1 _ hok'
    exact ⟨SetValueOK.to' (SameTable.refl hi) ⟨hc, sc, hv1, hv2, hok⟩,
      GoodRun2.toR sched1 sched2 cs _ (MInv_resetT hi') (Consistent_resetT hc') hrest⟩
  | .setExpr p e :: cs, s, hi, hc, hg => by
    obtain ⟨sc, hv1, hv2, hok, hrest⟩ := hg
    have hok' : setExpr sched1 s p e = ((setExpr sched1 s p e).1, none) := by rw [← hok]
    obtain ⟨hc', hi', _⟩ := setExpr_consistent sched1 s p e hi hc sc hv1 _ hok'
    exact ⟨SetExprOK.to' (SameTable.refl hi) ⟨hc, sc, hv1, hv2, hok⟩,
      GoodRun2.toR sched1 sched2 cs _ (MInv_resetT hi') (Consistent_resetT hc') hrest⟩
  | .unregister id :: cs, s, hi, hc, hg => by
    obtain ⟨hc', hi'⟩ := unregister_consistent s id hi hc
    exact ⟨trivial, GoodRun2.toR sched1 sched2 cs _ (MInv_resetT hi') (Consistent_resetT hc') hg⟩
  | .cleanup :: cs, s, hi, hc, hg => by
    have hd := cleanup_defs s
    have hc' : Consistent (cleanup s) := by
      intro t ht; rw [hd.1] at ht; rw [hd.2.1]; exact hc t ht
    exact ⟨trivial, GoodRun2.toR sched1 sched2 cs _ (MInv_resetT (cleanup_MInv s hi)) (Consistent_resetT hc') hg⟩
  | .verify :: cs, s, hi, hc, hg => by
    have hd := verify_defs s
    have hc' : Consistent (verify s).1 := by
      intro t ht; rw [hd.1] at ht; rw [hd.2.1]; exact hc t ht
    exact ⟨trivial, GoodRun2.toR sched1 sched2 cs _ (MInv_resetT (verify_MInv s hi)) (Consistent_resetT hc') hg⟩
  | .refresh :: cs, s, hi, hc, hg => by
    have hd := refresh_defs s
    have hc' : Consistent (refresh s).1 := by
      intro t ht; rw [hd.1] at ht; rw [hd.2]; exact hc t ht
    exact ⟨trivial, GoodRun2.toR sched1 sched2 cs _ (MInv_resetT (refresh_MInv s hi)) (Consistent_resetT hc') hg⟩
  | .inplace _ _ _ :: _, _, _, _, hg => by simp [GoodRun2] at hg
  | .register _ :: _, _, _, _, hg => by simp [GoodRun2] at hg
  | .load _ _ :: _, _, _, _, hg => by simp [GoodRun2] at hg

/-- **C20's history theorem with its own hypotheses, call by call** -/
theorem history_per_call_GoodRun2 (sched1 sched2 : Sched) (cs : List Call) (s : MState) (hi : MInv s)
    (hc : Consistent s) (hg : GoodRun2 sched1 sched2 s cs) : outcomesR sched2 s cs = outcomesR sched1 s cs :=
  history_per_call sched1 sched2 cs s hi (GoodRun2.toR sched1 sched2 cs s hi hc hg)

/-! ## every hypothesis as a test that can be evaluated -/

/-- the registered tasks an assignment to `p` triggers -/
def trigTasks (s : MState) (p : Path) : List MTask :=
  s.defs.filter (fun t => decide (t.id ∈ findTaskids s.idx (chainR p)))

theorem mem_trigTasks {s : MState} {p : Path} {t : MTask} : t ∈ trigTasks s p ↔ Trig s p t := by
  simp [trigTasks, Trig]

/-- `ScopeT`, as a test -/
def scopeTB (s : MState) (p : Path) : Bool :=
  (trigTasks s p).all declOKB && pathOKB p &&
  (trigTasks s p).all (fun t => (itemsOf t).all (fun it => pathOKB it.target && (leafRefs it.expr).all pathOKB)) &&
  acyclicFrom s.idx (startOf s.idx (chainR p)) &&
  (trigTasks s p).all (fun t => (trigTasks s p).all (fun u => decide (t.id = u.id) ||
    (itemsOf t).all (fun a => (itemsOf u).all (fun b => !(comparable b.target a.target))))) &&
  (trigTasks s p).all (fun t => (itemsOf t).all (fun it => decide (it.target = p) || !(comparable p it.target))) &&
  (trigTasks s p).all (fun t => bodyOKB (itemsOf t)) &&
  s.faultIn.isNone

theorem scopeTB_sound (s : MState) (hi : MInv s) (p : Path) (h : scopeTB s p = true) : ScopeT s p := by
  unfold scopeTB at h
  simp only [Bool.and_eq_true, List.all_eq_true, Bool.or_eq_true, decide_eq_true_eq, Bool.not_eq_eq_eq_not,
    Bool.not_true] at h
  obtain ⟨⟨⟨⟨⟨⟨⟨hdecl, hp⟩, hpaths⟩, hac⟩, h2⟩, h2p⟩, hbody⟩, hnf⟩ := h
  exact
    { decl := fun t ht => declOKB_sound t (hdecl t (mem_trigTasks.mpr ht))
      pathP := pathOKB_sound p hp
      paths := fun t ht it hit => ⟨pathOKB_sound _ (hpaths t (mem_trigTasks.mpr ht) it hit).1,
        fun r hr => pathOKB_sound r ((hpaths t (mem_trigTasks.mpr ht) it hit).2 r hr)⟩
      acyclic := acyclicFrom_sound s hi (chainR p) hac
      h2 := by
        intro t ht u hu hne a ha b hb
        rcases h2 t (mem_trigTasks.mpr ht) u (mem_trigTasks.mpr hu) with h | h
        · exact absurd h hne
        · exact incomparable_of_not_comparable _ _ (h a ha b hb)
      h2p := by
        intro t ht it hit
        rcases h2p t (mem_trigTasks.mpr ht) it hit with h | h
        · exact Or.inl h
        · exact Or.inr (incomparable_of_not_comparable _ _ h)
      body := fun t ht => bodyOKB_sound _ (hbody t (mem_trigTasks.mpr ht))
      nofault := by
        cases hf : s.faultIn with
        | none => rfl
        | some k => simp [hf] at hnf }

theorem scopeTB_acyclic (s : MState) (p : Path) (h : scopeTB s p = true) :
    acyclicFrom s.idx (startOf s.idx (chainR p)) = true := by
  unfold scopeTB at h
  simp only [Bool.and_eq_true] at h
  exact h.1.1.1.1.2

/-- `TargetsReadable`, as a test -/
def targetsReadableB (s : MState) (p : Path) : Bool :=
  (trigTasks s p).all (fun t => (itemsOf t).all (fun it => decide (it.target = p) || readableB s.store it.target))

theorem targetsReadableB_sound (s : MState) (p : Path) (h : targetsReadableB s p = true) : TargetsReadable s p := by
  unfold targetsReadableB at h
  simp only [List.all_eq_true, Bool.or_eq_true, decide_eq_true_eq] at h
  intro t ht it hit hne
  rcases h t (mem_trigTasks.mpr ht) it hit with h | h
  · exact absurd h hne
  · exact readableB_sound _ _ h

/-- `TailOK`, as a test -/
def tailOKB (sched1 sched2 : Sched) (s0 s0' : MState) (p : Path) (v : Val) : Bool :=
  (writeRef s0 p v).2.isSome ||
  decide (sched1 (findTaskids s0.idx (chainR p)) = sched2 (findTaskids s0'.idx (chainR p))) ||
  (scopeTB s0 p &&
   validSchedule s0.idx (chainR p) (sched1 (findTaskids s0.idx (chainR p))) &&
   acyclicFrom s0'.idx (startOf s0'.idx (chainR p)) &&
   validSchedule s0'.idx (chainR p) (sched2 (findTaskids s0'.idx (chainR p))) &&
   targetsReadableB s0 p && (writeAndRun sched1 s0 p v).2.isNone)

theorem tailOKB_sound (sched1 sched2 : Sched) (s0 s0' : MState) (p : Path) (v : Val) (hi : MInv s0)
    (h : tailOKB sched1 sched2 s0 s0' p v = true) : TailOK sched1 sched2 s0 s0' p v := by
  unfold tailOKB at h
  simp only [Bool.or_eq_true, Bool.and_eq_true, decide_eq_true_eq] at h
  rcases h with (h | h) | ⟨⟨⟨⟨⟨hsc, hv1⟩, hac2⟩, hv2⟩, hex⟩, hdone⟩
  · left
    intro e; rw [e] at h; cases h
  · exact Or.inr (Or.inl h)
  · exact Or.inr (Or.inr ⟨scopeTB_sound s0 hi p hsc,
      validSchedule_sound _ _ _ hv1 (scopeTB_acyclic s0 p hsc), validSchedule_sound _ _ _ hv2 hac2,
      targetsReadableB_sound s0 p hex, isNone_eq _ hdone⟩)

def setValueOKB' (sched1 sched2 : Sched) (s s' : MState) (p : Path) (v : Val) : Bool :=
  ((lookDef s.defs p).isSome && s.frozen) || tailOKB sched1 sched2 (preState s p) (preState s' p) p v

def setExprOKB' (sched1 sched2 : Sched) (s s' : MState) (p : Path) (e : Expr) : Bool :=
  s.frozen ||
  match evalE (defPart s p e) e with
  | .ok v => tailOKB sched1 sched2 (defPart s p e) (defPart s' p e) p v
  | .error _ => true

theorem setValueOKB'_sound (sched1 sched2 : Sched) (s s' : MState) (p : Path) (v : Val) (hi : MInv s)
    (hb : setValueOKB' sched1 sched2 s s' p v = true) : SetValueOK' sched1 sched2 s s' p v := by
  unfold setValueOKB' at hb
  by_cases hfd : lookDef s.defs p ≠ none ∧ s.frozen = true
  · exact Or.inl hfd
  · have hf : lookDef s.defs p ≠ none → s.frozen = false := by
      intro hne
      cases hfz : s.frozen with
      | false => rfl
      | true => exact absurd ⟨hne, hfz⟩ hfd
    have hi0 := (preState_facts s p hi hf).1
    simp only [Bool.or_eq_true, Bool.and_eq_true] at hb
    rcases hb with ⟨h1, h2⟩ | h
    · refine absurd ⟨?_, h2⟩ hfd
      intro e; rw [e] at h1; cases h1
    · exact Or.inr (tailOKB_sound sched1 sched2 _ _ p v hi0 h)

theorem setExprOKB'_sound (sched1 sched2 : Sched) (s s' : MState) (p : Path) (e : Expr) (hi : MInv s)
    (hb : setExprOKB' sched1 sched2 s s' p e = true) : SetExprOK' sched1 sched2 s s' p e := by
  unfold setExprOKB' at hb
  cases hfz : s.frozen with
  | true => exact Or.inl hfz
  | false =>
    have hi0 := (defPart_facts s p e hi hfz).1
    refine Or.inr fun v hev => ?_
    simp only [hfz, hev, Bool.false_or] at hb
    exact tailOKB_sound sched1 sched2 _ _ p v hi0 hb

/-- `CallOK'`, as a test -/
def callOKB' (sched1 sched2 : Sched) (s s' : MState) : Call → Bool
  | .setValue p v => setValueOKB' sched1 sched2 s s' p v
  | .setExpr p e => setExprOKB' sched1 sched2 s s' p e
  | .inplace op p operand =>
    match inplaceCall s op p operand with
    | some (.setValue q v) => setValueOKB' sched1 sched2 s s' q v
    | some (.setExpr q e) => setExprOKB' sched1 sched2 s s' q e
    | some _ => false
    | none => true
  | .register t => (lookDef s.defs t.id).isNone && decide (dedup t.deps = t.deps) && decide (dedup t.tars = t.tars)
  | _ => true

theorem callOKB'_sound (sched1 sched2 : Sched) (s s' : MState) (c : Call) (hi : MInv s)
    (hb : callOKB' sched1 sched2 s s' c = true) : CallOK' sched1 sched2 s s' c := by
  cases c with
  | setValue p v => exact setValueOKB'_sound sched1 sched2 s s' p v hi hb
  | setExpr p e => exact setExprOKB'_sound sched1 sched2 s s' p e hi hb
  | inplace op p operand =>
    simp only [callOKB'] at hb
    simp only [CallOK']
    cases hcall : inplaceCall s op p operand with
    | none => trivial
    | some c0 =>
      cases c0 with
      | setValue q v => simp only [hcall] at hb ⊢; exact setValueOKB'_sound sched1 sched2 s s' q v hi hb
      | setExpr q e => simp only [hcall] at hb ⊢; exact setExprOKB'_sound sched1 sched2 s s' q e hi hb
      | inplace _ _ _ => simp [hcall] at hb
      | register _ => simp [hcall] at hb
      | unregister _ => simp [hcall] at hb
      | load _ _ => simp [hcall] at hb
      | refresh => simp [hcall] at hb
      | cleanup => simp [hcall] at hb
      | verify => simp [hcall] at hb
  | register t =>
    simp only [callOKB', Bool.and_eq_true, decide_eq_true_eq] at hb
    obtain ⟨⟨h1, h2⟩, h3⟩ := hb
    exact ⟨isNone_eq _ h1, by rw [← h2]; exact dedup_nodup _, by rw [← h3]; exact dedup_nodup _⟩
  | unregister _ => trivial
  | load _ _ => trivial
  | refresh => trivial
  | cleanup => trivial
  | verify => trivial

/-- `BisimRun'`, as a test -/
def bisimRunB' (sched1 sched2 : Sched) : MState → MState → List Call → Bool
  | _, _, [] => true
  | s, s', c :: cs =>
    callOKB' sched1 sched2 s s' c && bisimRunB' sched1 sched2 (apply sched1 s c).1 (apply sched2 s' c).1 cs

theorem bisimRunB'_sound (sched1 sched2 : Sched) : ∀ (cs : List Call) (s s' : MState), SameTable s s' →
    bisimRunB' sched1 sched2 s s' cs = true → BisimRun' sched1 sched2 s s' cs
  | [], _, _, _, _ => trivial
  | c :: cs, s, s', h, hb => by
    simp only [bisimRunB', Bool.and_eq_true] at hb
    have hc := callOKB'_sound sched1 sched2 s s' c h.left hb.1
    exact ⟨hc, bisimRunB'_sound sched1 sched2 cs _ _ (apply_bisim' sched1 sched2 s s' c h hc).2 hb.2⟩

/-- `GoodRunR`, as a test -/
def goodRunRB (sched1 sched2 : Sched) : MState → List Call → Bool
  | _, [] => true
  | s, c :: cs => callOKB' sched1 sched2 s s c && goodRunRB sched1 sched2 (resetT (apply sched1 s c).1) cs

theorem goodRunRB_sound (sched1 sched2 : Sched) : ∀ (cs : List Call) (s : MState), MInv s →
    goodRunRB sched1 sched2 s cs = true → GoodRunR sched1 sched2 s cs
  | [], _, _, _ => trivial
  | c :: cs, s, hi, hb => by
    simp only [goodRunRB, Bool.and_eq_true] at hb
    have hc := callOKB'_sound sched1 sched2 s s c hi hb.1
    exact ⟨hc, goodRunRB_sound sched1 sched2 cs _ (MInv_resetT (apply_MInv sched1 s c hi (CallOK'_WFCall hc))) hb.2⟩

/-- the scopes of the any-outcome theorems, as tests -/
def setValueScopeB (sched1 sched2 : Sched) (s s' : MState) (p : Path) : Bool :=
  scopeTB (preState s p) p &&
  validSchedule (preState s p).idx (chainR p) (sched1 (findTaskids (preState s p).idx (chainR p))) &&
  acyclicFrom (preState s' p).idx (startOf (preState s' p).idx (chainR p)) &&
  validSchedule (preState s' p).idx (chainR p) (sched2 (findTaskids (preState s' p).idx (chainR p))) &&
  targetsReadableB (preState s p) p

theorem setValueScopeB_sound (sched1 sched2 : Sched) (s s' : MState) (p : Path) (hi0 : MInv (preState s p))
    (h : setValueScopeB sched1 sched2 s s' p = true) : SetValueScope sched1 sched2 s s' p := by
  unfold setValueScopeB at h
  simp only [Bool.and_eq_true] at h
  obtain ⟨⟨⟨⟨hsc, hv1⟩, hac2⟩, hv2⟩, hex⟩ := h
  exact ⟨scopeTB_sound _ hi0 p hsc, validSchedule_sound _ _ _ hv1 (scopeTB_acyclic _ p hsc),
    validSchedule_sound _ _ _ hv2 hac2, targetsReadableB_sound _ p hex⟩

end Manager

/-! ## non-vacuity

### a manager holding expression tasks, a function task and a linear knob

`c = a + b`, `e = c * a` (defined twice), the function task `#F : f := a * 2 ; g := a + 1`, the linear knob
`#K : x += 2 * Δk`.  The second manager is the clone (regenerated indices: other rows, other row order); it moves `#F`
to the end of every schedule.  The history contains: assignments that trigger expression and function tasks in
different orders on the two sides; an assignment that triggers the knob (same order on both sides); an assignment
whose write raises; a `set_value(ref, expression)` whose expression does not evaluate (the MODEL, like the code,
leaves the new definition installed; it is unregistered by the next call); in-place operators; the overwriting of a
definition by a value; the registration of a second function task; maintenance calls. -/
namespace Bisim2Example
open Manager Store Push Index

def da : Path := [.item (.str "d"), .item (.str "a")]
def db : Path := [.item (.str "d"), .item (.str "b")]
def dc : Path := [.item (.str "d"), .item (.str "c")]
def de : Path := [.item (.str "d"), .item (.str "e")]
def df : Path := [.item (.str "d"), .item (.str "f")]
def dg : Path := [.item (.str "d"), .item (.str "g")]
def dh : Path := [.item (.str "d"), .item (.str "h")]
def dk : Path := [.item (.str "d"), .item (.str "k")]
def dx : Path := [.item (.str "d"), .item (.str "x")]
def dy : Path := [.item (.str "d"), .item (.str "y")]
def dm : Path := [.item (.str "d"), .item (.str "missing")]
def qz : Path := [.item (.str "q"), .item (.str "zz")]
def idF : Path := [.item (.str "#F")]
def idG : Path := [.item (.str "#G")]
def idK : Path := [.item (.str "#K")]
def s0 : MState :=
  { MState.init with store := .dict [(.str "d", .dict [(.str "a", .int 1), (.str "b", .int 2), (.str "c", .int 0),
      (.str "e", .int 0), (.str "f", .int 0), (.str "g", .int 0), (.str "h", .int 0), (.str "k", .int 10),
      (.str "x", .int 100), (.str "y", .int 0)])] }
def fTask : MTask :=
  ⟨idF, .func [(df, .bin "Mul" (.ref da) (.lit (.int 2))), (dg, .bin "Add" (.ref da) (.lit (.int 1)))], [da], [df, dg]⟩
def gTask : MTask := ⟨idG, .func [(dh, .bin "Add" (.ref db) (.lit (.int 1)))], [db], [dh]⟩
/-- a linear knob as the driver registers it: `deps = [source]` -/
def kTask : MTask := ⟨idK, .knob dk [2] [dx], [dk], [dx]⟩
def hist0 : List Call :=
  [.setExpr de (.bin "Mul" (.ref dc) (.ref da)), .setExpr dc (.bin "Add" (.ref da) (.ref db)),
   .register fTask, .register kTask, .setExpr de (.bin "Mul" (.ref dc) (.ref da))]
/-- the original manager -/
def sM : MState := applyAll id s0 hist0
/-- its clone -/
def sC : MState := cloneOf sM
/-- the second manager's iteration order: `#F` last -/
def fLast : Sched := fun l => l.filter (fun x => !decide (x = idF)) ++ l.filter (fun x => decide (x = idF))
def hist : List Call :=
  [.setValue da (.int 5), .setValue dk (.int 13), .setValue qz (.int 1), .setExpr dy (.ref dm), .unregister dy,
   .inplace "Add" db (.lit (.int 1)), .verify, .setExpr dy (.bin "Mul" (.ref da) (.lit (.int 3))),
   .inplace "Sub" dy (.lit (.int 1)), .setValue da (.int 7), .unregister dy, .refresh, .setValue dc (.int 9), .cleanup,
   .register gTask, .setValue db (.int 4), .setValue da (.int 2), .verify]

theorem s0_inv : MInv s0 := MInv_of_sameGraph (s := MState.init) ⟨rfl, rfl, rfl⟩ MInv.init
theorem sM_inv : MInv sM :=
  applyAll_MInv id hist0 s0 s0_inv
    ⟨trivial, trivial, ⟨rfl, by decide, by decide⟩, ⟨rfl, by decide, by decide⟩, trivial, trivial⟩

/-- the two managers are related, with genuinely different index states -/
theorem sM_sC : SameTable sM sC := clone_sameTable sM sM_inv
example : sM.idx.deptasks ≠ sC.idx.deptasks := by decide +kernel

/-- **queries**: `sameTable_queries` applies; e.g. what depends on `a`, which tasks write `f` -/
example : QueriesAgree sM sC := sameTable_queries sM_sC
example : findDeps sM.idx [da] = [da, dg, df, dc, de] ∧ RC.keys (DD.get sC.idx.tartasks df) = [idF] ∧
    supportKeys sM.idx.tartasks = [de, dc, df, dg, dx] ∧ supportKeys sC.idx.tartasks = [dc, df, dg, dx, de] := by
  decide +kernel

/-- **as if it had never existed**, for the function task `#G` … -/
example : SameTable sM (unregister (register sM gTask).1 idG).1 :=
  (register_unregister_sameTable sM gTask sM_inv rfl rfl (by decide) (by decide) (Or.inr ⟨_, rfl⟩)).2.2
/-- … but NOT for a linear knob in the MODEL: `register` stores the source value in the knob memory `prev` and
    `unregister` leaves it there (no later call reads it unless a knob is registered under the same id again, and
    `register` then overwrites it) -/
theorem knob_leaves_prev :
    lookPrev s0.prev idK = .none ∧ lookPrev (unregister (register s0 kTask).1 idK).1.prev idK = .int 10 := ⟨rfl, rfl⟩

/-- the two schedulers run the three tasks an assignment to `a` triggers in different orders -/
example : findTaskids sM.idx (chainR da) = [idF, dc, de] ∧ fLast (findTaskids sC.idx (chainR da)) = [dc, de, idF] := by
  decide +kernel

/-- the assignment to `a` is in the scope `ScopeT` although the manager holds a linear knob (outside `ScopeG`, `Scope`);
    the assignment to `k` triggers the knob alone: same order on both sides -/
example : scopeTB sM da = true ∧ scopeGB sM da = false ∧ scopeB sM da = false ∧
    id (findTaskids sM.idx (chainR dk)) = [idK] ∧ fLast (findTaskids sC.idx (chainR dk)) = [idK] := by decide +kernel

/-- the whole history is in scope: the hypotheses of `bisim_history'` hold … -/
theorem hist_ok : BisimRun' id fLast sM sC hist := bisimRunB'_sound id fLast hist sM sC sM_sC (by decide +kernel)
/-- … while it is outside the scope of `bisim_history` from its first call on -/
example : bisimRunB id fLast sM sC (hist.take 1) = false := by decide +kernel

example : RelatedOutcomes (outcomes id sM hist) (outcomes fLast sC hist) := bisim_history' id fLast hist sM sC sM_sC hist_ok
example : SameTable (applyAll id sM hist) (applyAll fLast sC hist) := bisim_history_final' id fLast hist sM sC sM_sC hist_ok
example : QueriesAgree (applyAll id sM hist) (applyAll fLast sC hist) :=
  bisim_history_queries' id fLast hist sM sC sM_sC hist_ok
/-- the errors, call by call, as the model computes them on either side -/
example : (outcomes id sM hist).map (·.2) =
    [none, none, some .keyError, some .keyError, none, none, none, none, none, none, none, none, none, none, none, none,
     none, none] := by decide +kernel
example : (outcomes fLast sC hist).map (·.2) =
    [none, none, some .keyError, some .keyError, none, none, none, none, none, none, none, none, none, none, none, none,
     none, none] := by decide +kernel
/-- the knob ran (`x = 100 + 2·(13 − 10)`), the function tasks ran (`f = 2a`, `h = b + 1`), `e = c · a` with `c = 9` -/
example : get (applyAll fLast sC hist).store dx = .ok (.int 106) ∧ get (applyAll fLast sC hist).store df = .ok (.int 4) ∧
    get (applyAll fLast sC hist).store dh = .ok (.int 5) ∧ get (applyAll fLast sC hist).store de = .ok (.int 18) :=
  ⟨rfl, rfl, rfl, rfl⟩

/-- **refresh anywhere**: after the first six calls, continue on the refreshed manager -/
def sMid : MState := applyAll id sM (hist.take 6)
theorem sMid_inv : MInv sMid := (bisim_history_final' id fLast (hist.take 6) sM sC sM_sC
  (bisimRunB'_sound id fLast _ sM sC sM_sC (by decide +kernel))).left
example : (outcomes fLast (refresh sMid).1 (hist.drop 6)).map (·.2) = (outcomes id sMid (hist.drop 6)).map (·.2) :=
  (refresh_anywhere id fLast sMid sMid_inv (hist.drop 6)
    (bisimRunB'_sound id fLast _ sMid _ (refresh_bisim sMid sMid_inv) (by decide +kernel))).2.1
example : SameTable (applyAll id sM (hist.take 6 ++ hist.drop 6))
    (applyAll fLast sM (hist.take 6 ++ .refresh :: hist.drop 6)) :=
  (refresh_spliced id fLast (hist.take 6) (hist.drop 6) sM sM_inv
    (bisimRunB'_sound id fLast _ sM sM (SameTable.refl sM_inv) (by decide +kernel))
    (bisimRunB'_sound id fLast _ _ _
      ((bisim_history_final' id fLast (hist.take 6) sM sM (SameTable.refl sM_inv)
        (bisimRunB'_sound id fLast _ sM sM (SameTable.refl sM_inv) (by decide +kernel))).trans
        (refresh_bisim _ (bisim_history_final' id fLast (hist.take 6) sM sM (SameTable.refl sM_inv)
        (bisimRunB'_sound id fLast _ sM sM (SameTable.refl sM_inv) (by decide +kernel))).right))
      (by decide +kernel))).2

/-- **C20 call by call**: one manager, two hash seeds (`id` and `fLast`), the whole history -/
theorem hist_two_seeds : GoodRunR id fLast sM hist := goodRunRB_sound id fLast hist sM sM_inv (by decide +kernel)
example : outcomesR fLast sM hist = outcomesR id sM hist := history_per_call id fLast hist sM sM_inv hist_two_seeds
/-- the two seeds do run the tasks in different orders: the event logs of the first call differ -/
example : (apply id sM (.setValue da (.int 5))).1.trace ≠ (apply fLast sM (.setValue da (.int 5))).1.trace := by
  decide +kernel

end Bisim2Example

/-! ### two legal orders that fail differently

`g = a + 1`, `c = a + b` with `b = 2¹⁰²⁴`, `f = a ⟨Nope⟩ 2` (an operator Python does not know: `TypeError` whatever
`a` is; registered without being evaluated).  All three are triggered by an assignment to `a`, none feeds another, so
every order is legal.  Assigning `a = NaN`: the order `[f, c, g]` stops at `f` with `TypeError` and `g` still holds its
old value; the order `[g, c, f]` updates `g` to NaN and stops at `c` with `OverflowError` (NaN + an int beyond the float
range).  The assignment is in the scope `ScopeT`: `setValue_any_outcome` applies and says what the two runs share. -/
namespace FailExample
open Manager Store Push Index

def da : Path := [.item (.str "d"), .item (.str "a")]
def db : Path := [.item (.str "d"), .item (.str "b")]
def dc : Path := [.item (.str "d"), .item (.str "c")]
def df : Path := [.item (.str "d"), .item (.str "f")]
def dg : Path := [.item (.str "d"), .item (.str "g")]
def s0 : MState :=
  { MState.init with store := .dict [(.str "d", .dict [(.str "a", .int 1), (.str "b", .int (2 ^ 1024)),
      (.str "c", .int 0), (.str "f", .int 0), (.str "g", .int 0)])] }
def hist0 : List Call :=
  [.setExpr dg (.bin "Add" (.ref da) (.lit (.int 1))), .setExpr dc (.bin "Add" (.ref da) (.ref db)),
   .register (mkExprTask df (.bin "Nope" (.ref da) (.lit (.int 2))))]
def sF : MState := applyAll id s0 hist0
def rev : Sched := List.reverse

theorem s0_inv : MInv s0 := MInv_of_sameGraph (s := MState.init) ⟨rfl, rfl, rfl⟩ MInv.init
theorem sF_inv : MInv sF :=
  applyAll_MInv id hist0 s0 s0_inv ⟨trivial, trivial, ⟨rfl, (mkExprTask_nodup _ _).1, (mkExprTask_nodup _ _).2⟩, trivial⟩

example : id (findTaskids sF.idx (chainR da)) = [df, dc, dg] ∧ rev (findTaskids sF.idx (chainR da)) = [dg, dc, df] := by
  decide +kernel

/-- the hypotheses of `setValue_any_outcome` hold: in scope, both orders legal, targets readable -/
theorem scope_ok : SetValueScope id rev sF sF da :=
  setValueScopeB_sound id rev sF sF da sF_inv (by decide +kernel)

/-- what the theorem gives: both raise, and they agree on everything but the containers -/
example : ((setValue rev sF da .nan).2 = none ↔ (setValue id sF da .nan).2 = none) ∧
    SameButStore (setValue id sF da .nan).1 (setValue rev sF da .nan).1 :=
  have h := setValue_any_outcome id rev sF sF da .nan (SameTable.refl sF_inv) scope_ok
  ⟨h.1, h.2.2.1⟩

/-- the location holds the scalar, decided (values are compared by the kernel: `b` is `2 ^ 1024`) -/
def holdsB (σ : Val) (q : Path) (w : Val) : Bool :=
  match get σ q with
  | .ok x => scalarEqB x w
  | .error _ => false

theorem holdsB_sound (σ : Val) (q : Path) (w : Val) (h : holdsB σ q w = true) : get σ q = .ok w := by
  unfold holdsB at h
  cases hg : get σ q with
  | error e => simp [hg] at h
  | ok x => simp only [hg] at h; rw [scalarEqB_sound x w h]

/-- **what it cannot give: the two errors differ, and so do the containers** -/
theorem fail_differently :
    (setValue id sF da .nan).2 = some .typeError ∧ (setValue rev sF da .nan).2 = some .overflow ∧
    get (setValue id sF da .nan).1.store dg = .ok (.int 2) ∧ get (setValue rev sF da .nan).1.store dg = .ok .nan :=
  ⟨by decide +kernel, by decide +kernel, holdsB_sound _ _ _ (by decide +kernel), holdsB_sound _ _ _ (by decide +kernel)⟩

/-- the same on two managers (the original and its clone) -/
example : (setValue rev (cloneOf sF) da .nan).2 = some .overflow ∧
    SameButStore (setValue id sF da .nan).1 (setValue rev (cloneOf sF) da .nan).1 :=
  ⟨by decide +kernel, (setValue_any_outcome id rev sF (cloneOf sF) da .nan (clone_sameTable sF sF_inv)
    (setValueScopeB_sound id rev sF (cloneOf sF) da sF_inv (by decide +kernel))).2.2.1⟩

/-- where each error comes from (`writeAndRun_error_source_inv`): a triggered task, after the ones scheduled before it -/
example : ∃ sw pre t post sm, writeRef sF da .nan = (sw, none) ∧ Trig sF da t ∧
    (pre ++ t :: post).map (·.id) = rev (findTaskids sF.idx (chainR da)) ∧
    runTasks sw pre = (sm, none) ∧ runTask sm t = ((writeAndRun rev sF da .nan).1, some .overflow) := by
  have h2 : (writeAndRun rev sF da .nan).2 = some .overflow := by decide +kernel
  have h : writeAndRun rev sF da .nan = ((writeAndRun rev sF da .nan).1, some .overflow) := by
    generalize writeAndRun rev sF da .nan = r at h2
    obtain ⟨r1, r2⟩ := r
    simp only at h2
    rw [h2]
  rcases writeAndRun_error_source_inv rev sF da .nan sF_inv (fun id hid => List.mem_reverse.mp hid) _ _ h with h1 | h1
  · exact absurd (congrArg Prod.snd h1) (by decide +kernel)
  · exact h1

end FailExample

#print axioms Manager.sameTable_queries
#print axioms Manager.register_unregister_sameTable
#print axioms Manager.writeAndRun_sched_indepT
#print axioms Manager.apply_bisim'
#print axioms Manager.bisim_history'
#print axioms Manager.bisim_history_errors'
#print axioms Manager.bisim_history_final'
#print axioms Manager.BisimRun.to'
#print axioms Manager.writeAndRun_error_source_inv
#print axioms Manager.writeAndRun_fail_bisim
#print axioms Manager.setValue_any_outcome
#print axioms Manager.setExpr_any_outcome
#print axioms Manager.queries_after_failure
#print axioms Manager.refresh_anywhere
#print axioms Manager.clone_anywhere
#print axioms Manager.refresh_spliced
#print axioms Manager.history_per_call
#print axioms Manager.history_per_call_final
#print axioms Manager.history_per_call_GoodRun2
#print axioms Manager.bisimRunB'_sound
#print axioms Manager.goodRunRB_sound
#print axioms Bisim2Example.hist_ok
#print axioms Bisim2Example.hist_two_seeds
#print axioms FailExample.fail_differently

