/-!
# The numbers a table column can hold, as far as comparisons see them (C08, value ranges)

A numeric cell reaches the model as an integer or as the token `repr(float)` prints: decimal digits with an
optional fraction and exponent, or one of `nan`, `inf`, `-inf`.  `Num` is the exact reading of such a token —
an IEEE double that is neither NaN nor infinite IS a decimal number `m × 10^e`, and `repr` prints a decimal that
reads back as the same double and is strictly increasing in the double — and `numLe` is IEEE's `<=` on these
values: false as soon as a NaN is involved, `-inf` below and `+inf` above every other number, finite values by
their exact value (a comparison never rounds).  Everything here is plain data and integer arithmetic, so the
kernel evaluates it (`decide`), unlike Lean's opaque `Float`.

Not modelled: the conversion `int64 → float64` numpy performs when an integer column meets a float bound rounds
integers beyond 2^53; here an integer is compared by its exact value.
-/
namespace TableM

/-- the numeric reading of a cell or bound -/
inductive Num where
  | nan
  | ninf
  | pinf
  | fin (m : Int) (e : Int)        -- `m × 10^e`
deriving DecidableEq, Repr

/-- `m1 × 10^e1 ≤ m2 × 10^e2`, decided over the integers after scaling both sides to the smaller exponent -/
def decLe (m1 e1 m2 e2 : Int) : Bool :=
  let e := min e1 e2
  decide (m1 * 10 ^ (e1 - e).toNat ≤ m2 * 10 ^ (e2 - e).toNat)

/-- IEEE `x <= y` -/
def numLe : Num → Num → Bool
  | .nan, _ => false
  | _, .nan => false
  | .ninf, _ => true
  | _, .pinf => true
  | .pinf, _ => false
  | _, .ninf => false
  | .fin m1 e1, .fin m2 e2 => decLe m1 e1 m2 e2

/-! ### reading a token -/

def numSign : List Char → Bool × List Char
  | '-' :: r => (true, r)
  | '+' :: r => (false, r)
  | r => (false, r)

def numDigits (ds : List Char) : Bool := !ds.isEmpty && ds.all Char.isDigit

def numVal (ds : List Char) : Nat := ds.foldl (fun a c => a * 10 + (c.toNat - '0'.toNat)) 0

def isExpChar (c : Char) : Bool := c == 'e' || c == 'E'

/-- `[sign] digits [. digits] [e [sign] digits]` as `m × 10^e` -/
def parseDecimal (cs : List Char) : Option Num :=
  let (neg, body) := numSign cs
  let mant := body.takeWhile (fun c => !isExpChar c)
  let hasExp := body.any isExpChar
  let expo := (body.dropWhile (fun c => !isExpChar c)).drop 1
  let ip := mant.takeWhile (· != '.')
  let hasDot := mant.any (· == '.')
  let fp := (mant.dropWhile (· != '.')).drop 1
  let (eneg, eds) := numSign expo
  if !numDigits ip || (hasDot && !numDigits fp) || (hasExp && !numDigits eds) then none
  else
    let fp := if hasDot then fp else []
    let m : Int := numVal (ip ++ fp)
    let ex : Int := if hasExp then (if eneg then -(numVal eds : Int) else (numVal eds : Int)) else 0
    some (.fin (if neg then -m else m) (ex - (fp.length : Int)))

/-- the number a float token denotes (`repr(float)`: `1.5`, `-0.0`, `1e-07`, `2.5e+20`, `nan`, `inf`, `-inf`) -/
def parseNum (s : String) : Option Num :=
  if s = "nan" then some .nan
  else if s = "inf" then some .pinf
  else if s = "-inf" then some .ninf
  else parseDecimal s.toList

/-! ### `numLe` is IEEE's `<=` -/

theorem numLe_nan_left (y : Num) : numLe .nan y = false := by cases y <;> rfl

theorem numLe_nan_right (x : Num) : numLe x .nan = false := by cases x <;> rfl

/-- `x <= x` fails exactly for NaN -/
theorem numLe_self_eq_false_iff (x : Num) : numLe x x = false ↔ x = .nan := by
  cases x with
  | nan => simp [numLe]
  | ninf => simp [numLe]
  | pinf => simp [numLe]
  | fin m e => simp [numLe, decLe]

/-- a value that is not below-or-equal itself is unordered with everything -/
theorem numLe_unordered (x : Num) (h : numLe x x = false) (y : Num) : numLe y x = false ∧ numLe x y = false := by
  rw [(numLe_self_eq_false_iff x).mp h]
  exact ⟨numLe_nan_right y, numLe_nan_left y⟩

theorem numLe_ninf_left (y : Num) (hy : y ≠ .nan) : numLe .ninf y = true := by
  cases y <;> first | rfl | exact absurd rfl hy

theorem numLe_pinf_right (x : Num) (hx : x ≠ .nan) : numLe x .pinf = true := by
  cases x <;> first | rfl | exact absurd rfl hx

/-- only `+inf` is above-or-equal `+inf`, only `-inf` below-or-equal `-inf` -/
theorem numLe_pinf_left (y : Num) : numLe .pinf y = true ↔ y = .pinf := by
  cases y <;> simp [numLe]

theorem numLe_ninf_right (x : Num) : numLe x .ninf = true ↔ x = .ninf := by
  cases x <;> simp [numLe]

/-- integers compare as integers -/
theorem numLe_int (a b : Int) : numLe (.fin a 0) (.fin b 0) = decide (a ≤ b) := by
  simp [numLe, decLe]

/-- any two numbers other than NaN are comparable -/
theorem numLe_total (x y : Num) (hx : x ≠ .nan) (hy : y ≠ .nan) : numLe x y = true ∨ numLe y x = true := by
  cases x <;> cases y <;> simp_all [numLe, decLe]
  rename_i m1 e1 m2 e2
  rw [Int.min_comm e2 e1]
  omega

end TableM
