import XModel.Push
/-! Prototype: `consistent_unique` — along a dependency order of all tasks, two stores in which every
    definition holds and which agree on the free reads agree on every defined location. -/
namespace Unique
open Store Push

theorem get_append (σ : Val) (p q : List Step) :
    get σ (p ++ q) = (match get σ p with | .ok c => get c q | .error e => .error e) := by
  induction p generalizing σ with
  | nil => simp [Store.get]
  | cons s p ih =>
    simp only [List.cons_append, Store.get, bind, Except.bind]
    cases getStep σ s with
    | error e => rfl
    | ok c => exact ih c

/-- where a read comes from: a free location, or inside the value of an earlier definition -/
inductive Source (earlier : List ETask) (free : List Step → Prop) (r : List Step) : Prop
  | free : free r → Source earlier free r
  | inside (u : ETask) (q : List Step) : u ∈ earlier → r = u.target ++ q → Source earlier free r

/-- `ts` is listed so that every read of a task is free or inside an earlier task's target -/
def Ordered (free : List Step → Prop) : List ETask → Prop
  | [] => True
  | t :: rest => Ordered free rest ∧ ∀ r ∈ leafRefs t.expr, Source rest free r

/-- (the list is written latest-first: the head may read from the tail) -/
theorem consistent_unique (sem : Sem) (free : List Step → Prop) (ts : List ETask) (σ σ' : Val)
    (hord : Ordered free ts)
    (hfree : ∀ r, free r → get σ r = get σ' r)
    (hq : ∀ t ∈ ts, (exprSys sem).Q t σ) (hq' : ∀ t ∈ ts, (exprSys sem).Q t σ') :
    ∀ t ∈ ts, get σ t.target = get σ' t.target := by
  induction ts with
  | nil => intro t ht; cases ht
  | cons t rest ih =>
    have hrest := ih hord.1 (fun u hu => hq u (List.mem_cons_of_mem _ hu)) (fun u hu => hq' u (List.mem_cons_of_mem _ hu))
    intro u hu
    rcases List.mem_cons.mp hu with rfl | hu
    · -- the head: its reads agree, so its value agrees
      obtain ⟨w, hev, hget⟩ := hq u (List.mem_cons_self ..)
      obtain ⟨w', hev', hget'⟩ := hq' u (List.mem_cons_self ..)
      have hreads : ∀ r ∈ leafRefs u.expr, get σ r = get σ' r := by
        intro r hr
        rcases hord.2 r hr with hf | ⟨v, q, hv, rfl⟩
        · exact hfree r hf
        · rw [get_append, get_append, hrest v hv]
      have : eval sem σ u.expr = eval sem σ' u.expr := eval_frame sem σ σ' u.expr hreads
      rw [hev, hev'] at this
      rw [hget, hget', Except.ok.inj this]
    · exact hrest u hu

#print axioms consistent_unique
end Unique
