import XModel.Tables
/-!
# Tie A for `xdeps/refs.py`: extracted tables, their decidable validity, and the lifts

`harness/extract_refs.py` probes the working tree's `refs.py` (recording operands, sentinel children)
and emits these tables as plain data on every run; the per-run proof obligation is
`Generated.tbl.Valid = true`, closed by `decide`.  The theorems below are proved once, for every
table: validity lifts to all expression trees by structural induction.

Tables (beyond the binary dunders / classes of `XModel/Tables.lean`):
* `UnaryRow`    dunder → class, and the primitive the class applies
* `BuiltinRow`  dunder → `BuiltinRef(op, params)`; `round(x)` must pass no `ndigits`
* `InplaceRow`  `__i⊕__`: present, value case = `old ⊕ v`, expression case = node of `⊕`'s class
* `DepRow`      class × slot: a ref in that slot is reported by `_get_dependencies()`, which returns a set
* `ReduceRow`   class: `__reduce__()` = (own class, constructor arguments in constructor order)
-/
namespace RefsTable
open Tables

inductive UPrim where | neg | pos | invert
deriving DecidableEq, Repr

structure UnaryRow where
  dunder : String
  cls : String
  prim : UPrim
deriving DecidableEq, Repr

structure BuiltinRow where
  dunder : String
  op : String              -- name of the function stored in `_op` (module-qualified: "math.floor")
  defaultParams : Nat      -- number of parameters passed when the user passes none
  passesUserParams : Bool  -- `round(x, n)` / `divmod(x, y)` store the user's extra argument
deriving DecidableEq, Repr

structure InplaceRow where
  dunder : String
  present : Bool
  valuePrim : Option Prim      -- value case computed `old ⊕ v` with this ⊕ (operands in this order)
  exprCls : Option String      -- expression case built this class with (old expression, v)
deriving DecidableEq, Repr

structure DepRow where
  cls : String
  slot : String
  covered : Bool
  returnsSet : Bool
deriving DecidableEq, Repr

structure ReduceRow where
  cls : String
  sameClass : Bool         -- `__reduce__()[0] is type(node)`
  argsInOrder : Bool       -- `__reduce__()[1]` = the constructor's arguments, in constructor order
  rebuilds : Bool          -- `cls(*args) == node` with equal hash
deriving DecidableEq, Repr

/-- a node class lets every exception other than the documented `ZeroDivisionError` through -/
structure PropagateRow where
  cls : String
  exc : String          -- the exception class the probe operand raised
  propagates : Bool
deriving DecidableEq, Repr

structure Full where
  bin : Tables.Tbl
  propagate : List PropagateRow
  unary : List UnaryRow
  builtin : List BuiltinRow
  inplace : List InplaceRow
  deps : List DepRow
  reduce : List ReduceRow

/-! ### the fixed specification (Python's data model) -/

/-- all binary dunders of the reference classes with their Python meaning -/
def pySpecFull : List (String × Meaning) :=
  Tables.pySpec ++
  [ ("__matmul__", ⟨.matmul, true⟩), ("__rmatmul__", ⟨.matmul, false⟩),
    ("__and__", ⟨.and_, true⟩), ("__rand__", ⟨.and_, false⟩),
    ("__or__", ⟨.or_, true⟩), ("__ror__", ⟨.or_, false⟩),
    ("__xor__", ⟨.xor, true⟩), ("__rxor__", ⟨.xor, false⟩),
    ("__rshift__", ⟨.rshift, true⟩), ("__rrshift__", ⟨.rshift, false⟩),
    ("__lshift__", ⟨.lshift, true⟩), ("__rlshift__", ⟨.lshift, false⟩) ]

def unarySpec : List (String × UPrim) := [("__neg__", .neg), ("__pos__", .pos), ("__invert__", .invert)]

/-- dunder → (function, parameters passed by default); `round(x)` passes none -/
def builtinSpec : List (String × String × Nat × Bool) :=
  [ ("__abs__", "abs", 0, false), ("__round__", "round", 0, true), ("__divmod__", "divmod", 0, true),
    ("__trunc__", "math.trunc", 0, false), ("__floor__", "math.floor", 0, false), ("__ceil__", "math.ceil", 0, false) ]

/-- every in-place operator Python defines, with its binary primitive -/
def inplaceSpec : List (String × Prim) :=
  [ ("__iadd__", .add), ("__isub__", .sub), ("__imul__", .mul), ("__imatmul__", .matmul),
    ("__itruediv__", .truediv), ("__ifloordiv__", .floordiv), ("__imod__", .mod), ("__ipow__", .pow),
    ("__ilshift__", .lshift), ("__irshift__", .rshift), ("__iand__", .and_), ("__ixor__", .xor), ("__ior__", .or_) ]

def binRowOk (t : Tables.Tbl) (d : String) (m : Meaning) : Bool := Tables.rowOk t d m

def unaryOk (f : Full) (d : String) (p : UPrim) : Bool :=
  match f.unary.find? (·.dunder = d) with
  | some r => r.prim = p
  | none => false

def builtinOk (f : Full) (d : String) (op : String) (n : Nat) (u : Bool) : Bool :=
  match f.builtin.find? (·.dunder = d) with
  | some r => r.op = op && r.defaultParams = n && r.passesUserParams = u
  | none => false

/-- the class that the *binary* dunder of a primitive builds -/
def classOfPrim (t : Tables.Tbl) (p : Prim) : Option String :=
  (t.classes.find? (fun c => c.prim = p && !c.swapped)).map (·.cls)

def inplaceOk (f : Full) (d : String) (p : Prim) : Bool :=
  match f.inplace.find? (·.dunder = d) with
  | some r => r.present && r.valuePrim = some p && r.exprCls.isSome && r.exprCls = classOfPrim f.bin p
  | none => false

/-- C04's part: every operator builds the node that means what Python says the operator means -/
def Full.ValidOps (f : Full) : Bool :=
  pySpecFull.all (fun p => binRowOk f.bin p.1 p.2) &&
  unarySpec.all (fun p => unaryOk f p.1 p.2) &&
  builtinSpec.all (fun p => builtinOk f p.1 p.2.1 p.2.2.1 p.2.2.2) &&
  inplaceSpec.all (fun p => inplaceOk f p.1 p.2) &&
  f.propagate.all (·.propagates) && !f.propagate.isEmpty

/-- C05's part: every slot of every class is visited and a set is returned -/
def Full.ValidDeps (f : Full) : Bool := f.deps.all (fun r => r.covered && r.returnsSet) && !f.deps.isEmpty

/-- C12's part: every class reduces to its own constructor's arguments in order -/
def Full.ValidReduce (f : Full) : Bool :=
  f.reduce.all (fun r => r.sameClass && r.argsInOrder && r.rebuilds) && !f.reduce.isEmpty

def Full.Valid (f : Full) : Bool := f.ValidOps && f.ValidDeps && f.ValidReduce

/-- validity of the full table contains validity of the binary fragment of `XModel/Tables.lean` -/
theorem valid_bin (f : Full) (h : f.ValidOps = true) : f.bin.Valid = true := by
  unfold Full.ValidOps at h
  simp only [Bool.and_eq_true] at h
  obtain ⟨⟨⟨⟨⟨hb, _⟩, _⟩, _⟩, _⟩, _⟩ := h
  unfold Tables.Tbl.Valid
  rw [List.all_eq_true] at hb ⊢
  intro p hp
  exact hb p (by unfold pySpecFull; exact List.mem_append_left _ hp)

/-- a valid dependency table covers every (class, slot) pair it lists -/
theorem covered_of_valid (f : Full) (h : f.ValidDeps = true) (r : DepRow) (hr : r ∈ f.deps) :
    (r.covered && r.returnsSet) = true := by
  unfold Full.ValidDeps at h
  simp only [Bool.and_eq_true] at h
  exact List.all_eq_true.mp h.1 r hr

/-! ### C05: dependencies are exactly the refs occurring in any slot -/

/-- a node as built by the library: leaves are refs (identified by a number) or literals -/
inductive DNode where
  | ref (id : Nat)
  | lit
  | node (cls : String) (slots : List (String × DNode))

def covered (rows : List DepRow) (cls slot : String) : Bool :=
  match rows.find? (fun r => r.cls = cls && r.slot = slot) with
  | some r => r.covered && r.returnsSet
  | none => false

mutual
/-- what `_get_dependencies()` reports, given the extracted slot coverage -/
def depsOf (rows : List DepRow) : DNode → List Nat
  | .ref id => [id]
  | .lit => []
  | .node cls slots => depsSlots rows cls slots
def depsSlots (rows : List DepRow) (cls : String) : List (String × DNode) → List Nat
  | [] => []
  | (s, c) :: rest => (if covered rows cls s then depsOf rows c else []) ++ depsSlots rows cls rest
end

mutual
/-- every ref occurring anywhere inside -/
def leafs : DNode → List Nat
  | .ref id => [id]
  | .lit => []
  | .node _ slots => leafsSlots slots
def leafsSlots : List (String × DNode) → List Nat
  | [] => []
  | (_, c) :: rest => leafs c ++ leafsSlots rest
end

mutual
/-- a node uses only (class, slot) pairs that the table covers -/
def wellSlotted (rows : List DepRow) : DNode → Bool
  | .ref _ => true
  | .lit => true
  | .node cls slots => wellSlots rows cls slots
def wellSlots (rows : List DepRow) (cls : String) : List (String × DNode) → Bool
  | [] => true
  | (s, c) :: rest => covered rows cls s && wellSlotted rows c && wellSlots rows cls rest
end

mutual
theorem deps_exact (rows : List DepRow) : ∀ n : DNode, wellSlotted rows n = true → depsOf rows n = leafs n
  | .ref id, _ => rfl
  | .lit, _ => rfl
  | .node cls slots, h => by
    simp only [depsOf, leafs]
    exact deps_exact_slots rows cls slots (by simpa [wellSlotted] using h)
theorem deps_exact_slots (rows : List DepRow) (cls : String) :
    ∀ slots : List (String × DNode), wellSlots rows cls slots = true → depsSlots rows cls slots = leafsSlots slots
  | [], _ => rfl
  | (s, c) :: rest, h => by
    simp only [wellSlots, Bool.and_eq_true] at h
    obtain ⟨⟨hc, hw⟩, hr⟩ := h
    simp only [depsSlots, leafsSlots, hc, if_true]
    rw [deps_exact rows c hw, deps_exact_slots rows cls rest hr]
end

/-! ### C12: reduce / rebuild is the identity on every object graph -/

/-- pickling a node: its class and the pickles of its constructor arguments, as `__reduce__` orders them -/
inductive Pickled where
  | leaf (id : Nat)
  | lit
  | obj (cls : String) (args : List Pickled)

def reduceOk (rows : List ReduceRow) (cls : String) : Bool :=
  match rows.find? (·.cls = cls) with
  | some r => r.sameClass && r.argsInOrder && r.rebuilds
  | none => false

mutual
/-- `pickle.dumps`: when a class's row is not valid the argument list it hands to pickle is unknown:
    modelled as dropping the arguments (any wrong list makes the round trip fail) -/
def pickleN (rows : List ReduceRow) : DNode → Pickled
  | .ref id => .leaf id
  | .lit => .lit
  | .node cls slots => .obj cls (if reduceOk rows cls then pickleSlots rows slots else [])
def pickleSlots (rows : List ReduceRow) : List (String × DNode) → List Pickled
  | [] => []
  | (_, c) :: rest => pickleN rows c :: pickleSlots rows rest
end

mutual
/-- `pickle.loads`: call the class on the unpickled arguments (slot names are the constructor's) -/
def unpickleN (slotNames : String → List String) : Pickled → DNode
  | .leaf id => .ref id
  | .lit => .lit
  | .obj cls args => .node cls (zipNames (slotNames cls) (unpickleArgs slotNames args))
def unpickleArgs (slotNames : String → List String) : List Pickled → List DNode
  | [] => []
  | a :: rest => unpickleN slotNames a :: unpickleArgs slotNames rest
def zipNames : List String → List DNode → List (String × DNode)
  | n :: ns, d :: ds => (n, d) :: zipNames ns ds
  | _, _ => []
end

mutual
/-- a node whose classes all have a valid reduce row and whose slots are the constructor's, in order -/
def picklable (rows : List ReduceRow) (slotNames : String → List String) : DNode → Bool
  | .ref _ => true
  | .lit => true
  | .node cls slots => reduceOk rows cls && decide (slots.map (·.1) = slotNames cls) && picklableSlots rows slotNames slots
def picklableSlots (rows : List ReduceRow) (slotNames : String → List String) : List (String × DNode) → Bool
  | [] => true
  | (_, c) :: rest => picklable rows slotNames c && picklableSlots rows slotNames rest
end

theorem zipNames_map (slots : List (String × DNode)) :
    zipNames (slots.map (·.1)) (slots.map (·.2)) = slots := by
  induction slots with
  | nil => rfl
  | cons p r ih => obtain ⟨a, b⟩ := p; simp [zipNames, ih]

mutual
theorem unpickle_pickle (rows : List ReduceRow) (sn : String → List String) :
    ∀ n : DNode, picklable rows sn n = true → unpickleN sn (pickleN rows n) = n
  | .ref id, _ => rfl
  | .lit, _ => rfl
  | .node cls slots, h => by
    simp only [picklable, Bool.and_eq_true, decide_eq_true_eq] at h
    obtain ⟨⟨hr, hn⟩, hs⟩ := h
    simp only [pickleN, hr, if_true, unpickleN]
    rw [unpickle_pickle_slots rows sn slots hs, ← hn, zipNames_map]
theorem unpickle_pickle_slots (rows : List ReduceRow) (sn : String → List String) :
    ∀ slots : List (String × DNode), picklableSlots rows sn slots = true →
      unpickleArgs sn (pickleSlots rows slots) = slots.map (·.2)
  | [], _ => rfl
  | (s, c) :: rest, h => by
    simp only [picklableSlots, Bool.and_eq_true] at h
    simp only [pickleSlots, unpickleArgs, List.map_cons]
    rw [unpickle_pickle rows sn c h.1, unpickle_pickle_slots rows sn rest h.2]
end

end RefsTable
