import XModel.Tables
/-!
# Tie A for `xdeps/refs.py`: extracted tables, their decidable validity, and the lifts

`harness/extract_refs.py` probes the working tree's `refs.py` (recording operands, sentinel children)
and emits these tables as plain data on every run; the per-run proof obligation is
`Generated.tbl.Valid = true`, closed by `decide`.  The theorems below are proved once, for every
table: validity lifts to all expression trees by structural induction.

The validity tests are CLOSED OVER A FIXED CLASS UNIVERSE (`classSlots`, `propClasses`, `probedExcs`,
`leafClasses`, `refClasses`: part of the specification, like `pySpecFull`): a table is valid only if it
has an all-true row for every (class, slot) / class / (class, exception) of the universe, so that
`ValidDeps` gives `wellSlotted` for every tree of the universe (`wellSlotted_of_valid`), `ValidReduce`
gives `picklable` (`picklable_of_valid`), and `ValidOps` gives that every class a term can build was
probed for the exceptions it must let through (`RefsLift.build_eval2_universe`).

Tables (beyond the binary dunders / classes of `XModel/Tables.lean`):
* `UnaryRow`    dunder → class, and the primitive the class applies
* `BuiltinRow`  dunder → `BuiltinRef(op, params)`; `round(x)` must pass no `ndigits`
* `InplaceRow`  `__i⊕__`: present, value case = `old ⊕ v`, expression case = node of `⊕`'s class
* `DepRow`      class × slot: a ref in that slot is reported by `_get_dependencies()`, which returns a set
* `ReduceRow`   class: `__reduce__()` = (own class, constructor arguments in constructor order)
-/
namespace RefsTable
open Tables

inductive UPrim where | neg | pos | invert
deriving DecidableEq, Repr

structure UnaryRow where
  dunder : String
  cls : String
  prim : UPrim
deriving DecidableEq, Repr

structure BuiltinRow where
  dunder : String
  op : String              -- name of the function stored in `_op` (module-qualified: "math.floor")
  defaultParams : Nat      -- number of parameters passed when the user passes none
  passesUserParams : Bool  -- `round(x, n)` / `divmod(x, y)` store the user's extra argument
deriving DecidableEq, Repr

structure InplaceRow where
  dunder : String
  present : Bool
  valuePrim : Option Prim      -- value case computed `old ⊕ v` with this ⊕ (operands in this order)
  exprCls : Option String      -- expression case built this class with (old expression, v)
deriving DecidableEq, Repr

structure DepRow where
  cls : String
  slot : String
  covered : Bool
  returnsSet : Bool
deriving DecidableEq, Repr

structure ReduceRow where
  cls : String
  sameClass : Bool         -- `__reduce__()[0] is type(node)`
  argsInOrder : Bool       -- `__reduce__()[1]` = the constructor's arguments, in constructor order
  rebuilds : Bool          -- `cls(*args) == node` with equal hash
deriving DecidableEq, Repr

/-- a node class lets every exception other than the documented `ZeroDivisionError` through -/
structure PropagateRow where
  cls : String
  exc : String          -- the exception class the probe operand raised
  propagates : Bool
deriving DecidableEq, Repr

structure Full where
  bin : Tables.Tbl
  propagate : List PropagateRow
  unary : List UnaryRow
  builtin : List BuiltinRow
  inplace : List InplaceRow
  deps : List DepRow
  reduce : List ReduceRow

/-! ### the fixed specification (Python's data model) -/

/-- all binary dunders of the reference classes with their Python meaning -/
def pySpecFull : List (String × Meaning) :=
  Tables.pySpec ++
  [ ("__matmul__", ⟨.matmul, true⟩), ("__rmatmul__", ⟨.matmul, false⟩),
    ("__and__", ⟨.and_, true⟩), ("__rand__", ⟨.and_, false⟩),
    ("__or__", ⟨.or_, true⟩), ("__ror__", ⟨.or_, false⟩),
    ("__xor__", ⟨.xor, true⟩), ("__rxor__", ⟨.xor, false⟩),
    ("__rshift__", ⟨.rshift, true⟩), ("__rrshift__", ⟨.rshift, false⟩),
    ("__lshift__", ⟨.lshift, true⟩), ("__rlshift__", ⟨.lshift, false⟩) ]

def unarySpec : List (String × UPrim) := [("__neg__", .neg), ("__pos__", .pos), ("__invert__", .invert)]

/-- dunder → (function, parameters passed by default); `round(x)` passes none -/
def builtinSpec : List (String × String × Nat × Bool) :=
  [ ("__abs__", "abs", 0, false), ("__round__", "round", 0, true), ("__divmod__", "divmod", 0, true),
    ("__trunc__", "math.trunc", 0, false), ("__floor__", "math.floor", 0, false), ("__ceil__", "math.ceil", 0, false) ]

/-- every in-place operator Python defines, with its binary primitive -/
def inplaceSpec : List (String × Prim) :=
  [ ("__iadd__", .add), ("__isub__", .sub), ("__imul__", .mul), ("__imatmul__", .matmul),
    ("__itruediv__", .truediv), ("__ifloordiv__", .floordiv), ("__imod__", .mod), ("__ipow__", .pow),
    ("__ilshift__", .lshift), ("__irshift__", .rshift), ("__iand__", .and_), ("__ixor__", .xor), ("__ior__", .or_) ]

def binRowOk (t : Tables.Tbl) (d : String) (m : Meaning) : Bool := Tables.rowOk t d m

def unaryOk (f : Full) (d : String) (p : UPrim) : Bool :=
  match f.unary.find? (·.dunder = d) with
  | some r => r.prim = p
  | none => false

def builtinOk (f : Full) (d : String) (op : String) (n : Nat) (u : Bool) : Bool :=
  match f.builtin.find? (·.dunder = d) with
  | some r => r.op = op && r.defaultParams = n && r.passesUserParams = u
  | none => false

/-- the class that the *binary* dunder of a primitive builds -/
def classOfPrim (t : Tables.Tbl) (p : Prim) : Option String :=
  (t.classes.find? (fun c => c.prim = p && !c.swapped)).map (·.cls)

def inplaceOk (f : Full) (d : String) (p : Prim) : Bool :=
  match f.inplace.find? (·.dunder = d) with
  | some r => r.present && r.valuePrim = some p && r.exprCls.isSome && r.exprCls = classOfPrim f.bin p
  | none => false

/-! ### the class universe (fixed specification, like `pySpecFull`)

Every expression class of `xdeps/refs.py` with the names of its operand slots, as the translator names
them in the `deps` rows.  `ValidOps` / `ValidDeps` / `ValidReduce` are closed over THIS list, not over the
rows the table happens to contain: a table that says nothing about a class of the universe is invalid.
A class added to the library makes the regenerated table invalid (`ValidOps` asks that every class of
the table is in the universe) until it is added here. -/

/-- the subclasses of `BinOpExpr` (operand slots `lhs`, `rhs`) -/
def binClasses : List String :=
  ["AddExpr", "SubExpr", "MulExpr", "MatmulExpr", "TruedivExpr", "FloordivExpr", "ModExpr", "PowExpr",
   "BitwiseAndExpr", "BitwiseOrExpr", "XorExpr", "LtExpr", "LeExpr", "EqExpr", "NeExpr", "GeExpr", "GtExpr",
   "RshiftExpr", "LshiftExpr"]

/-- the subclasses of `UnaryOpExpr` (operand slot `arg`) -/
def unaryClasses : List String := ["NegExpr", "PosExpr", "InvertExpr"]

/-- every expression class with its operand slots.  `CallRef`'s `arg` / `kwarg` and `BuiltinRef`'s `param`
    stand for any number of operands in that position; `LiteralExpr` has no operand -/
def classSlots : List (String × List String) :=
  binClasses.map (fun c => (c, ["lhs", "rhs"])) ++ unaryClasses.map (fun c => (c, ["arg"])) ++
  [("BuiltinRef", ["arg", "param"]), ("CallRef", ["func", "arg", "kwarg"]),
   ("ItemRef", ["owner", "key"]), ("AttrRef", ["owner", "key"]), ("LiteralExpr", [])]

/-- classes without operand: the translator emits the row `(cls, "none")` for them (is a set returned) -/
def leafClasses : List String := ["LiteralExpr"]

/-- the container references (`Manager.ref`, `Manager.refattr`): the leaves `DNode.ref` of the trees below -/
def refClasses : List String := ["Ref", "ObjectAttrRef"]

/-- the classes whose `_get_value` applies one Python operator to its operand values, inside the
    `try … except ZeroDivisionError` guard or without it: the classes for which "lets every other
    exception through" is a question, and which the translator probes -/
def propClasses : List String := binClasses ++ unaryClasses

/-- the exception classes the translator raises from an operand of every class of `propClasses`:
    `ArithmeticError` is the base class of `ZeroDivisionError`, `OverflowError` and `FloatingPointError`
    are its siblings, `ValueError` and `TypeError` are unrelated to it -/
def probedExcs : List String := ["OverflowError", "FloatingPointError", "ArithmeticError", "ValueError", "TypeError"]

/-- `cls` is a class of the universe -/
def knownClass (cls : String) : Bool := classSlots.any (fun cs => cs.1 = cls)

/-- `slot` is a declared operand slot of class `cls` -/
def declared (cls slot : String) : Bool := classSlots.any (fun cs => cs.1 = cls && cs.2.contains slot)

/-- the constructor's operand slots of a class, in constructor order (`[]` outside the universe) -/
def ctorSlots (cls : String) : List String :=
  match classSlots.find? (fun cs => cs.1 = cls) with
  | some cs => cs.2
  | none => []

/-- the table has, for class `cls` and every probed exception, a row saying that it came through -/
def probedClass (rows : List PropagateRow) (cls : String) : Bool :=
  probedExcs.all (fun e => rows.any (fun r => r.cls = cls && r.exc = e && r.propagates))

/-- the first `deps` row for (class, slot) says: visited, and a set is returned -/
def covered (rows : List DepRow) (cls slot : String) : Bool :=
  match rows.find? (fun r => r.cls = cls && r.slot = slot) with
  | some r => r.covered && r.returnsSet
  | none => false

/-- the first `reduce` row of the class says: own class, constructor arguments in order, rebuilds -/
def reduceOk (rows : List ReduceRow) (cls : String) : Bool :=
  match rows.find? (·.cls = cls) with
  | some r => r.sameClass && r.argsInOrder && r.rebuilds
  | none => false

/-- the operator rows of C04 (binary / reflected, unary, builtin, in-place), spec-driven -/
def Full.ValidOpRows (f : Full) : Bool :=
  pySpecFull.all (fun p => binRowOk f.bin p.1 p.2) &&
  unarySpec.all (fun p => unaryOk f p.1 p.2) &&
  builtinSpec.all (fun p => builtinOk f p.1 p.2.1 p.2.2.1 p.2.2.2) &&
  inplaceSpec.all (fun p => inplaceOk f p.1 p.2)

/-- the `propagate` part of C04, closed over the universe: no listed row records a swallowed exception,
    EVERY class of `propClasses` has a propagating row for EVERY exception of `probedExcs`, and every
    class the table's operator rows can build is a class of the universe -/
def Full.ValidPropagate (f : Full) : Bool :=
  f.propagate.all (·.propagates) &&
  propClasses.all (fun c => probedClass f.propagate c) &&
  f.bin.classes.all (fun c => binClasses.contains c.cls) &&
  f.unary.all (fun r => unaryClasses.contains r.cls)

/-- C04's part: every operator builds the node that means what Python says the operator means, and every
    class of the universe lets the probed exceptions through -/
def Full.ValidOps (f : Full) : Bool := f.ValidOpRows && f.ValidPropagate

/-- C05's part: every listed row is visited and returns a set, and EVERY declared slot of EVERY class of
    the universe has such a row (for a class without operand: the row `(cls, "none")`) -/
def Full.ValidDeps (f : Full) : Bool :=
  f.deps.all (fun r => r.covered && r.returnsSet) && !f.deps.isEmpty &&
  classSlots.all (fun cs => cs.2.all (fun sl => covered f.deps cs.1 sl)) &&
  leafClasses.all (fun c => covered f.deps c "none")

/-- C12's part: every listed class reduces to its own constructor's arguments in order and rebuilds, and
    EVERY class of the universe (and both container-reference classes) has such a row -/
def Full.ValidReduce (f : Full) : Bool :=
  f.reduce.all (fun r => r.sameClass && r.argsInOrder && r.rebuilds) && !f.reduce.isEmpty &&
  classSlots.all (fun cs => reduceOk f.reduce cs.1) &&
  refClasses.all (fun c => reduceOk f.reduce c)

def Full.Valid (f : Full) : Bool := f.ValidOps && f.ValidDeps && f.ValidReduce

/-- validity of the full table contains validity of the binary fragment of `XModel/Tables.lean` -/
theorem valid_bin (f : Full) (h : f.ValidOps = true) : f.bin.Valid = true := by
  unfold Full.ValidOps Full.ValidOpRows at h
  simp only [Bool.and_eq_true] at h
  obtain ⟨⟨⟨⟨hb, _⟩, _⟩, _⟩, _⟩ := h
  unfold Tables.Tbl.Valid
  rw [List.all_eq_true] at hb ⊢
  intro p hp
  exact hb p (by unfold pySpecFull; exact List.mem_append_left _ hp)

/-- a valid dependency table covers every (class, slot) pair it lists -/
theorem covered_of_valid (f : Full) (h : f.ValidDeps = true) (r : DepRow) (hr : r ∈ f.deps) :
    (r.covered && r.returnsSet) = true := by
  unfold Full.ValidDeps at h
  simp only [Bool.and_eq_true] at h
  exact List.all_eq_true.mp h.1.1.1 r hr

/-! ### C05: dependencies are exactly the refs occurring in any slot -/

/-- a node as built by the library: leaves are refs (identified by a number) or literals -/
inductive DNode where
  | ref (id : Nat)
  | lit
  | node (cls : String) (slots : List (String × DNode))

mutual
/-- what `_get_dependencies()` reports, given the extracted slot coverage -/
def depsOf (rows : List DepRow) : DNode → List Nat
  | .ref id => [id]
  | .lit => []
  | .node cls slots => depsSlots rows cls slots
def depsSlots (rows : List DepRow) (cls : String) : List (String × DNode) → List Nat
  | [] => []
  | (s, c) :: rest => (if covered rows cls s then depsOf rows c else []) ++ depsSlots rows cls rest
end

mutual
/-- every ref occurring anywhere inside -/
def leafs : DNode → List Nat
  | .ref id => [id]
  | .lit => []
  | .node _ slots => leafsSlots slots
def leafsSlots : List (String × DNode) → List Nat
  | [] => []
  | (_, c) :: rest => leafs c ++ leafsSlots rest
end

mutual
/-- a node uses only (class, slot) pairs that the table covers -/
def wellSlotted (rows : List DepRow) : DNode → Bool
  | .ref _ => true
  | .lit => true
  | .node cls slots => wellSlots rows cls slots
def wellSlots (rows : List DepRow) (cls : String) : List (String × DNode) → Bool
  | [] => true
  | (s, c) :: rest => covered rows cls s && wellSlotted rows c && wellSlots rows cls rest
end

mutual
theorem deps_exact (rows : List DepRow) : ∀ n : DNode, wellSlotted rows n = true → depsOf rows n = leafs n
  | .ref id, _ => rfl
  | .lit, _ => rfl
  | .node cls slots, h => by
    simp only [depsOf, leafs]
    exact deps_exact_slots rows cls slots (by simpa [wellSlotted] using h)
theorem deps_exact_slots (rows : List DepRow) (cls : String) :
    ∀ slots : List (String × DNode), wellSlots rows cls slots = true → depsSlots rows cls slots = leafsSlots slots
  | [], _ => rfl
  | (s, c) :: rest, h => by
    simp only [wellSlots, Bool.and_eq_true] at h
    obtain ⟨⟨hc, hw⟩, hr⟩ := h
    simp only [depsSlots, leafsSlots, hc, if_true]
    rw [deps_exact rows c hw, deps_exact_slots rows cls rest hr]
end

/-! ### C05 over the class universe: `ValidDeps` gives `wellSlotted` for every tree of the universe -/

mutual
/-- a property of the TREE alone (no table): every node's class is a class of `classSlots` and every
    child sits in a slot that `classSlots` declares for that class (any number of children per slot, in
    any order: `CallRef` has as many `arg` / `kwarg` children as the call has arguments) -/
def InUniverse : DNode → Bool
  | .ref _ => true
  | .lit => true
  | .node cls slots => knownClass cls && inUniverseSlots cls slots
def inUniverseSlots (cls : String) : List (String × DNode) → Bool
  | [] => true
  | (s, c) :: rest => declared cls s && InUniverse c && inUniverseSlots cls rest
end

/-- the universe conjunct of `ValidDeps`: every declared (class, slot) pair is covered -/
theorem covered_of_declared (f : Full) (h : f.ValidDeps = true) (cls slot : String)
    (hd : declared cls slot = true) : covered f.deps cls slot = true := by
  unfold Full.ValidDeps at h
  simp only [Bool.and_eq_true] at h
  have hall := h.1.2
  unfold declared at hd
  obtain ⟨cs, hcs, hp⟩ := List.any_eq_true.mp hd
  simp only [Bool.and_eq_true, decide_eq_true_eq] at hp
  have h1 := List.all_eq_true.mp hall cs hcs
  have h2 := List.all_eq_true.mp h1 slot (by simpa using hp.2)
  rw [← hp.1]
  exact h2

mutual
/-- a valid table covers every slot of every tree of the universe -/
theorem wellSlotted_of_valid (f : Full) (h : f.ValidDeps = true) :
    ∀ n : DNode, InUniverse n = true → wellSlotted f.deps n = true
  | .ref _, _ => rfl
  | .lit, _ => rfl
  | .node cls slots, hu => by
    simp only [InUniverse, Bool.and_eq_true] at hu
    simp only [wellSlotted]
    exact wellSlots_of_valid f h cls slots hu.2
theorem wellSlots_of_valid (f : Full) (h : f.ValidDeps = true) (cls : String) :
    ∀ slots : List (String × DNode), inUniverseSlots cls slots = true → wellSlots f.deps cls slots = true
  | [], _ => rfl
  | (s, c) :: rest, hu => by
    simp only [inUniverseSlots, Bool.and_eq_true] at hu
    obtain ⟨⟨hd, hc⟩, hr⟩ := hu
    simp only [wellSlots, Bool.and_eq_true]
    exact ⟨⟨covered_of_declared f h cls s hd, wellSlotted_of_valid f h c hc⟩, wellSlots_of_valid f h cls rest hr⟩
end

/-- C05 for a valid table: every tree of the universe reports exactly the refs inside it.  The hypothesis
    on the tree does not mention the table. -/
theorem deps_exact_universe (f : Full) (h : f.ValidDeps = true) (n : DNode) (hu : InUniverse n = true) :
    depsOf f.deps n = leafs n :=
  deps_exact f.deps n (wellSlotted_of_valid f h n hu)

/-! ### C12: reduce / rebuild is the identity on every object graph -/

/-- pickling a node: its class and the pickles of its constructor arguments, as `__reduce__` orders them -/
inductive Pickled where
  | leaf (id : Nat)
  | lit
  | obj (cls : String) (args : List Pickled)

mutual
/-- `pickle.dumps`: when a class's row is not valid the argument list it hands to pickle is unknown:
    modelled as dropping the arguments (any wrong list makes the round trip fail) -/
def pickleN (rows : List ReduceRow) : DNode → Pickled
  | .ref id => .leaf id
  | .lit => .lit
  | .node cls slots => .obj cls (if reduceOk rows cls then pickleSlots rows slots else [])
def pickleSlots (rows : List ReduceRow) : List (String × DNode) → List Pickled
  | [] => []
  | (_, c) :: rest => pickleN rows c :: pickleSlots rows rest
end

mutual
/-- `pickle.loads`: call the class on the unpickled arguments (slot names are the constructor's) -/
def unpickleN (slotNames : String → List String) : Pickled → DNode
  | .leaf id => .ref id
  | .lit => .lit
  | .obj cls args => .node cls (zipNames (slotNames cls) (unpickleArgs slotNames args))
def unpickleArgs (slotNames : String → List String) : List Pickled → List DNode
  | [] => []
  | a :: rest => unpickleN slotNames a :: unpickleArgs slotNames rest
def zipNames : List String → List DNode → List (String × DNode)
  | n :: ns, d :: ds => (n, d) :: zipNames ns ds
  | _, _ => []
end

mutual
/-- a node whose classes all have a valid reduce row and whose slots are the constructor's, in order -/
def picklable (rows : List ReduceRow) (slotNames : String → List String) : DNode → Bool
  | .ref _ => true
  | .lit => true
  | .node cls slots => reduceOk rows cls && decide (slots.map (·.1) = slotNames cls) && picklableSlots rows slotNames slots
def picklableSlots (rows : List ReduceRow) (slotNames : String → List String) : List (String × DNode) → Bool
  | [] => true
  | (_, c) :: rest => picklable rows slotNames c && picklableSlots rows slotNames rest
end

theorem zipNames_map (slots : List (String × DNode)) :
    zipNames (slots.map (·.1)) (slots.map (·.2)) = slots := by
  induction slots with
  | nil => rfl
  | cons p r ih => obtain ⟨a, b⟩ := p; simp [zipNames, ih]

mutual
theorem unpickle_pickle (rows : List ReduceRow) (sn : String → List String) :
    ∀ n : DNode, picklable rows sn n = true → unpickleN sn (pickleN rows n) = n
  | .ref id, _ => rfl
  | .lit, _ => rfl
  | .node cls slots, h => by
    simp only [picklable, Bool.and_eq_true, decide_eq_true_eq] at h
    obtain ⟨⟨hr, hn⟩, hs⟩ := h
    simp only [pickleN, hr, if_true, unpickleN]
    rw [unpickle_pickle_slots rows sn slots hs, ← hn, zipNames_map]
theorem unpickle_pickle_slots (rows : List ReduceRow) (sn : String → List String) :
    ∀ slots : List (String × DNode), picklableSlots rows sn slots = true →
      unpickleArgs sn (pickleSlots rows slots) = slots.map (·.2)
  | [], _ => rfl
  | (s, c) :: rest, h => by
    simp only [picklableSlots, Bool.and_eq_true] at h
    simp only [pickleSlots, unpickleArgs, List.map_cons]
    rw [unpickle_pickle rows sn c h.1, unpickle_pickle_slots rows sn rest h.2]
end

/-! ### C12 over the class universe: `ValidReduce` gives `picklable` for every tree of the universe -/

mutual
/-- a property of the TREE alone: every node's class is a class of `classSlots` and its children are
    the constructor's operands, one per slot of `ctorSlots`, in constructor order -/
def InUniverseCtor : DNode → Bool
  | .ref _ => true
  | .lit => true
  | .node cls slots => knownClass cls && decide (slots.map (·.1) = ctorSlots cls) && inUniverseCtorSlots slots
def inUniverseCtorSlots : List (String × DNode) → Bool
  | [] => true
  | (_, c) :: rest => InUniverseCtor c && inUniverseCtorSlots rest
end

/-- the universe conjunct of `ValidReduce`: every class of the universe has a valid reduce row -/
theorem reduceOk_of_known (f : Full) (h : f.ValidReduce = true) (cls : String) (hk : knownClass cls = true) :
    reduceOk f.reduce cls = true := by
  unfold Full.ValidReduce at h
  simp only [Bool.and_eq_true] at h
  have hall := h.1.2
  unfold knownClass at hk
  obtain ⟨cs, hcs, hp⟩ := List.any_eq_true.mp hk
  have h1 := List.all_eq_true.mp hall cs hcs
  have : cs.1 = cls := by simpa using hp
  rw [← this]
  exact h1

mutual
theorem picklable_of_valid (f : Full) (h : f.ValidReduce = true) :
    ∀ n : DNode, InUniverseCtor n = true → picklable f.reduce ctorSlots n = true
  | .ref _, _ => rfl
  | .lit, _ => rfl
  | .node cls slots, hu => by
    simp only [InUniverseCtor, Bool.and_eq_true, decide_eq_true_eq] at hu
    obtain ⟨⟨hk, hn⟩, hs⟩ := hu
    simp only [picklable, Bool.and_eq_true, decide_eq_true_eq]
    exact ⟨⟨reduceOk_of_known f h cls hk, hn⟩, picklableSlots_of_valid f h slots hs⟩
theorem picklableSlots_of_valid (f : Full) (h : f.ValidReduce = true) :
    ∀ slots : List (String × DNode), inUniverseCtorSlots slots = true →
      picklableSlots f.reduce ctorSlots slots = true
  | [], _ => rfl
  | (_, c) :: rest, hu => by
    simp only [inUniverseCtorSlots, Bool.and_eq_true] at hu
    simp only [picklableSlots, Bool.and_eq_true]
    exact ⟨picklable_of_valid f h c hu.1, picklableSlots_of_valid f h rest hu.2⟩
end

/-- C12 for a valid table: reduce / rebuild is the identity on every tree of the universe -/
theorem unpickle_pickle_universe (f : Full) (h : f.ValidReduce = true) (n : DNode)
    (hu : InUniverseCtor n = true) : unpickleN ctorSlots (pickleN f.reduce n) = n :=
  unpickle_pickle f.reduce ctorSlots n (picklable_of_valid f h n hu)

/-- a constructor-shaped tree is a tree of the universe in the sense of C05 -/
theorem declared_of_ctorSlot (cls s : String) (hs : s ∈ ctorSlots cls) :
    declared cls s = true := by
  unfold ctorSlots at hs
  cases hf : classSlots.find? (fun cs => cs.1 = cls) with
  | none => simp [hf] at hs
  | some cs =>
    simp only [hf] at hs
    have hmem := List.mem_of_find?_eq_some hf
    have hname : cs.1 = cls := by simpa using List.find?_some hf
    unfold declared
    exact List.any_eq_true.mpr ⟨cs, hmem, by simp [hname, hs]⟩

mutual
theorem inUniverse_of_ctor : ∀ n : DNode, InUniverseCtor n = true → InUniverse n = true
  | .ref _, _ => rfl
  | .lit, _ => rfl
  | .node cls slots, hu => by
    simp only [InUniverseCtor, Bool.and_eq_true, decide_eq_true_eq] at hu
    obtain ⟨⟨hk, hn⟩, hs⟩ := hu
    simp only [InUniverse, Bool.and_eq_true]
    refine ⟨hk, inUniverseSlots_of_ctor cls slots (fun p hp => ?_) hs⟩
    exact declared_of_ctorSlot cls p.1 (by rw [← hn]; exact List.mem_map_of_mem hp)
theorem inUniverseSlots_of_ctor (cls : String) :
    ∀ slots : List (String × DNode), (∀ p ∈ slots, declared cls p.1 = true) →
      inUniverseCtorSlots slots = true → inUniverseSlots cls slots = true
  | [], _, _ => rfl
  | (s, c) :: rest, hd, hu => by
    simp only [inUniverseCtorSlots, Bool.and_eq_true] at hu
    simp only [inUniverseSlots, Bool.and_eq_true]
    exact ⟨⟨hd (s, c) (by simp), inUniverse_of_ctor c hu.1⟩,
      inUniverseSlots_of_ctor cls rest (fun p hp => hd p (List.mem_cons_of_mem _ hp)) hu.2⟩
end

end RefsTable
