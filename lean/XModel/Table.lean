import XModel.Cache
import XModel.TableNum
/-!
# Executable model of `xdeps/table.py` (L5 of DESIGN.md): name look-up (C07) and row selection (C08)

A table is its index column (strings), further columns of cells, the lazily built name cache and the
three separator strings.  Every function below transcribes one method of `Table` / `_RowView` /
`Indices` / `Mask` / `_View`; the cache is threaded through explicitly because look-ups build it.
`re.fullmatch(name, IGNORECASE)` is an oracle: one bit per distinct row name, supplied by the caller.
-/
namespace TableM
open Cache

inductive Cell where
  | int (i : Int)
  | str (s : String)
  | flt (tok : String)          -- a float, carried as an opaque token
deriving DecidableEq, Repr

inductive TErr where
  | keyError | indexError | valueError | typeError
deriving DecidableEq, Repr

def TErr.name : TErr → String
  | .keyError => "KeyError" | .indexError => "IndexError" | .valueError => "ValueError" | .typeError => "TypeError"

structure Tbl where
  index : String
  colNames : List String
  data : List (String × List Cell)       -- `_data`: every full-length column, the index column included
  cache : Option (Dct × Cnt)
  sepCount : String := "::"
  sepPrev : String := "<<"
  sepNext : String := ">>"

def Tbl.col (t : Tbl) (name : String) : Option (List Cell) := lookupA t.data name

def cellStr : Cell → String
  | .str s => s
  | .int i => toString i
  | .flt tok => tok

/-- the index column as strings -/
def Tbl.indexCol (t : Tbl) : List String :=
  match t.col t.index with
  | some c => c.map cellStr
  | none => []

def Tbl.nrows (t : Tbl) : Nat :=
  match t.colNames with
  | [] => 0
  | k :: _ => match t.col k with | some c => c.length | none => 0

/-- `_get_cache`: build on first use -/
def getCache (t : Tbl) : Tbl × (Dct × Cnt) :=
  match t.cache with
  | some c => (t, c)
  | none => let c := makeCache t.indexCol; ({ t with cache := some c }, c)

/-- `_get_row_cache(row, count, offset)`; the outer `Except` is the `KeyError` of `count_dict[row]`
    (a negative count on an absent name), the inner `Option` is Python's `None` -/
def getRowCache (t : Tbl) (row : String) (count : Option Int) (offset : Int) : Tbl × Except TErr (Option Int) :=
  let (t1, (cache, cnt)) := getCache t
  let count := count.getD 0
  let count? : Except TErr Int :=
    if count < 0 then
      match lookupA cnt row with
      | some c => .ok (count + (c : Int))
      | none => .ok count          -- repaired code: `count_dict.get(row, 0)`
    else .ok count
  match count? with
  | .error e => (t1, .error e)
  | .ok count =>
    if count < 0 then (t1, .ok none)
    else match lookupA cache (row, count.toNat) with
      | some idx => (t1, .ok (some ((idx : Int) + offset)))
      | none => (t1, .ok none)

/-- `_get_row_cache_raise` -/
def getRowCacheRaise (t : Tbl) (row : String) (count : Option Int) (offset : Int) : Tbl × Except TErr Int :=
  match getRowCache t row count offset with
  | (t1, .error e) => (t1, .error e)
  | (t1, .ok none) => (t1, .error .keyError)
  | (t1, .ok (some i)) => (t1, .ok i)

/-! ### `name::count<<offset` -/

def isPrefixC : List Char → List Char → Bool
  | [], _ => true
  | _ :: _, [] => false
  | a :: p, b :: q => a == b && isPrefixC p q

/-- `s.split(sep, 1)` when `sep in s`: the text before and after the first occurrence -/
def splitOnceC (sep : List Char) : List Char → List Char → Option (List Char × List Char)
  | [], _ => none
  | c :: rest, acc =>
    if isPrefixC sep (c :: rest) then some (acc.reverse, (c :: rest).drop sep.length)
    else splitOnceC sep rest (c :: acc)

def splitOnce (s sep : String) : Option (String × String) :=
  if sep.isEmpty then none else
  if isPrefixC sep.toList s.toList && s.isEmpty then none else
  match splitOnceC sep.toList s.toList [] with
  | some (a, b) => some (String.ofList a, String.ofList b)
  | none => none

/-- `int(text)` for the decimal forms the generator produces: optional sign, at least one digit -/
def parseInt (s : String) : Option Int :=
  let cs := s.toList
  let (neg, ds) := match cs with
    | '-' :: r => (true, r)
    | '+' :: r => (false, r)
    | r => (false, r)
  if ds.isEmpty || !(ds.all Char.isDigit) then none
  else
    let n := ds.foldl (fun a c => a * 10 + (c.toNat - '0'.toNat)) 0
    some (if neg then -(n : Int) else (n : Int))

/-- `_split_name_count_offset` -/
def splitNameCountOffset (t : Tbl) (name : String) : Except TErr (String × Option Int × Int) :=
  let step1 : Except TErr (String × Int) :=
    match splitOnce name t.sepPrev with
    | some (n, o) => (match parseInt o with | some k => .ok (n, -k) | none => .error .valueError)
    | none =>
      match splitOnce name t.sepNext with
      | some (n, o) => (match parseInt o with | some k => .ok (n, k) | none => .error .valueError)
      | none => .ok (name, 0)
  match step1 with
  | .error e => .error e
  | .ok (name, offset) =>
    match splitOnce name t.sepCount with
    | some (n, c) => (match parseInt c with | some k => .ok (n, some k, offset) | none => .error .valueError)
    | none => .ok (name, none, offset)

/-! ### row designators -/

inductive Row where
  | pos (i : Int)
  | name (s : String)
  | tup (name : String) (count : Int) (offset : Option Int)

/-- `_get_row_index(row)` (`rows.get_index`, `t // row`) -/
def getRowIndex (t : Tbl) : Row → Tbl × Except TErr Int
  | .pos i => (t, .ok i)
  | .name s =>
    match splitNameCountOffset t s with
    | .error e => (t, .error e)
    | .ok (n, c, o) => getRowCacheRaise t n c o
  | .tup n c o => getRowCacheRaise t n (some c) (o.getD 0)

/-- the row part of `t[col, row]` / `t[col, row] = v`: literal-label fast path first -/
def resolveCellRow (t : Tbl) : Row → Tbl × Except TErr Int
  | .pos i => (t, .ok i)
  | .name s =>
    let (t1, (cache, _)) := getCache t
    match lookupA cache (s, 0) with
    | some idx => (t1, .ok idx)
    | none =>
      match splitNameCountOffset t1 s with
      | .error e => (t1, .error e)
      | .ok (n, c, o) => getRowCacheRaise t1 n c o
  | .tup n c o =>
    let (t1, (cache, _)) := getCache t
    let hit := match o with
      | none => if c ≥ 0 then lookupA cache (n, c.toNat) else none
      | some _ => none
    match hit with
    | some idx => (t1, .ok idx)
    | none => getRowCacheRaise t1 n (some c) (o.getD 0)

/-- numpy position normalisation: negative positions count from the end -/
def normPos (n : Nat) (i : Int) : Option Nat :=
  if 0 ≤ i then (if i.toNat < n then some i.toNat else none)
  else (if (-i).toNat ≤ n then some (n - (-i).toNat) else none)

/-- `t[col, row]` -/
def getCell (t : Tbl) (col : String) (row : Row) : Tbl × Except TErr Cell :=
  match t.col col with
  | none => (t, .error .keyError)
  | some c =>
    match resolveCellRow t row with
    | (t1, .error e) => (t1, .error e)
    | (t1, .ok i) =>
      match normPos c.length i with
      | none => (t1, .error .indexError)
      | some k => (t1, match c[k]? with | some x => .ok x | none => .error .indexError)

/-! ### mutations through the API -/

def setNth {α} : List α → Nat → α → List α
  | [], _, _ => []
  | _ :: r, 0, x => x :: r
  | a :: r, n+1, x => a :: setNth r n x

/-- `t[col, row] = v`; a write into the index column invalidates the name cache (repaired code) -/
def setCell (t : Tbl) (col : String) (row : Row) (v : Cell) : Tbl × Except TErr Unit :=
  match t.col col with
  | none => (t, .error .keyError)
  | some c =>
    match resolveCellRow t row with
    | (t1, .error e) => (t1, .error e)
    | (t1, .ok i) =>
      match normPos c.length i with
      | none => (t1, .error .indexError)
      | some k =>
        let t2 := { t1 with data := insertA t1.data col (setNth c k v) }
        (if col = t.index then { t2 with cache := none } else t2, .ok ())

/-- `t[name] = column` (also `t.name = column`): whole-column assignment or a new column -/
def setCol (t : Tbl) (name : String) (vals : List Cell) : Tbl × Except TErr Unit :=
  let t0 := if name = t.index then { t with cache := none } else t
  if name ∈ t0.colNames then
    -- `self._data[key][:] = val`: numpy broadcasting needs equal lengths (or length 1)
    match t0.col name with
    | none => (t0, .error .keyError)
    | some c =>
      if vals.length = c.length then ({ t0 with data := insertA t0.data name vals }, .ok ())
      else if vals.length = 1 then
        ({ t0 with data := insertA t0.data name (c.map (fun _ => vals.headD (.int 0))) }, .ok ())
      else (t0, .error .valueError)
  else
    let t1 := { t0 with data := insertA t0.data name vals }
    (if vals.length = t0.nrows then { t1 with colNames := t1.colNames ++ [name] } else t1, .ok ())

/-- `del t[name]` -/
def delCol (t : Tbl) (name : String) : Tbl × Except TErr Unit :=
  let cn := t.colNames.filter (· ≠ name)
  match t.col name with
  | none => ({ t with colNames := cn }, .error .keyError)
  | some _ => ({ t with colNames := cn, data := t.data.filter (fun p => p.1 ≠ name) }, .ok ())

/-- `cols.get_index_unique()`: `name` for a unique name, `name::k` otherwise -/
def uniqueLabels (t : Tbl) : List String :=
  let col := t.indexCol
  let (_, cnt) := makeCache col
  let rec go : List String → List (String × Nat) → List String
    | [], _ => []
    | nn :: rest, seen =>
      let k := match lookupA seen nn with | some c => c + 1 | none => 0
      let total := (lookupA cnt nn).getD 0
      (if total = 1 then nn else nn ++ t.sepCount ++ toString k) :: go rest (insertA seen nn k)
  go col []

/-! ### specification of a look-up: a plain scan of the current index column -/

/-- position of the `count`-th occurrence of `name` (negative from the last), shifted -/
def scanLookup (col : List String) (name : String) (count : Int) (offset : Int) : Option Int :=
  let n := occ col name
  let c := if count < 0 then count + n else count
  if c < 0 then none else
  match nthOcc col name c.toNat with
  | some i => some ((i : Int) + offset)
  | none => none

/-! ### row selectors (C08) -/

inductive Bound where
  | none
  | int (i : Int)
  | str (s : String)

inductive Sel where
  | pos (i : Int)
  | ints (l : List Int)
  | bools (l : List Bool)
  | names (l : List String)
  | pattern (s : String)                 -- `'regex::count<<k'`
  | slice (a b c : Bound)
  | all                                  -- `None`
  | tuple (l : List Sel)
  | range (lo hi : Option Cell) (col : String)   -- `lo:hi:'col'` with bounds that are numbers of any kind (floats)

/-- what `_get_row_indices` returns: a Python slice or a list of positions -/
inductive Ix where
  | slice (a b c : Option Int)
  | idx (l : List Int)

/-- Python's `range(n)[a:b:c]` -/
def pySlice (n : Nat) (a b c : Option Int) : Except TErr (List Int) :=
  let step := c.getD 1
  if step = 0 then .error .valueError else
  let n' : Int := n
  let clampLo (x : Int) (lo hi : Int) : Int := if x < lo then lo else if x > hi then hi else x
  if step > 0 then
    let start := match a with
      | none => 0
      | some x => if x < 0 then clampLo (x + n') 0 n' else clampLo x 0 n'
    let stop := match b with
      | none => n'
      | some x => if x < 0 then clampLo (x + n') 0 n' else clampLo x 0 n'
    let cnt := if stop > start then ((stop - start + step - 1) / step).toNat else 0
    .ok ((List.range cnt).map (fun (k : Nat) => start + (k : Int) * step))
  else
    let start := match a with
      | none => n' - 1
      | some x => if x < 0 then clampLo (x + n') (-1) (n' - 1) else clampLo x (-1) (n' - 1)
    let stop := match b with
      | none => -1
      | some x => if x < 0 then clampLo (x + n') (-1) (n' - 1) else clampLo x (-1) (n' - 1)
    let cnt := if start > stop then ((start - stop + (-step) - 1) / (-step)).toNat else 0
    .ok ((List.range cnt).map (fun (k : Nat) => start + (k : Int) * step))

/-- oracle for `re.fullmatch(name, flags)`: one bit per row name -/
abbrev Match := String → Bool

def enumFrom {α} : Nat → List α → List (Nat × α)
  | _, [] => []
  | i, a :: r => (i, a) :: enumFrom (i + 1) r

def firstOccNames (col : List String) (keep : String → Bool) : List String :=
  (col.filter keep).foldl (fun acc x => if x ∈ acc then acc else acc ++ [x]) []

def insertSorted (x : Int) : List Int → List Int
  | [] => [x]
  | y :: r => if x ≤ y then x :: y :: r else y :: insertSorted x r

def sortInts (l : List Int) : List Int := l.foldl (fun acc x => insertSorted x acc) []

/-- `_get_regexp_indices(regexp)` (with the exact-label fast path, the count loop over the matching
    names and the ascending order of the repaired code) -/
def getRegexpIndices (t : Tbl) (m : Match) (sel : String) : Tbl × Except TErr (List Int) :=
  match splitNameCountOffset t sel with
  | .error e => (t, .error e)
  | .ok (name, count, offset) =>
    let fast : Tbl × Except TErr (Option Int) :=
      match count with
      | some c => getRowCache t name (some c) offset
      | none => (t, .ok none)
    match fast with
    | (t1, .error e) => (t1, .error e)
    | (t1, .ok (some i)) => (t1, .ok [i])
    | (t1, .ok none) =>
      let col := t1.indexCol
      match count with
      | none => (t1, .ok (((enumFrom 0 col).filter (fun p => m p.2)).map (fun p => (p.1 : Int) + offset)))
      | some c =>
        let names := firstOccNames col m
        let rec loop (t : Tbl) : List String → List Int → Tbl × Except TErr (List Int)
          | [], acc => (t, .ok acc)
          | nn :: rest, acc =>
            match getRowCache t nn (some c) 0 with
            | (t', .error e) => (t', .error e)
            | (t', .ok none) => loop t' rest acc
            | (t', .ok (some i)) => loop t' rest (acc ++ [i])
        match loop t1 names [] with
        | (t2, .error e) => (t2, .error e)
        | (t2, .ok l) => (t2, .ok ((sortInts l).map (· + offset)))

def cellLe (a b : Cell) : Option Bool :=
  match a, b with
  | .int x, .int y => some (x ≤ y)
  | _, _ => none

/-- `lo <= x <= hi` on cells, either bound optional; `none` where the model does not define the comparison -/
def rangeOk (lo hi : Option Cell) (x : Cell) : Option Bool :=
  match lo, hi with
  | some l, some h => (match cellLe l x, cellLe x h with | some p, some q => some (p && q) | _, _ => none)
  | some l, none => cellLe l x
  | none, some h => cellLe x h
  | none, none => some true

/-- the value-range selector `lo:hi:'col'` on a column -/
def valueRange (col : List Cell) (lo hi : Option Cell) : Except TErr Ix :=
  if col.all (fun x => (rangeOk lo hi x).isSome) then
    .ok (.idx (((enumFrom 0 col).filter (fun p => (rangeOk lo hi p.2).getD false)).map (fun p => (p.1 : Int))))
  else .error .typeError

/-! #### value ranges over any numbers (theorems: `XModel/TableRangeF.lean`) -/

/-- `rangeOk` over an arbitrary comparison of cells (`none` = the comparison raises) -/
def rangeOkBy (le : Cell → Cell → Option Bool) (lo hi : Option Cell) (x : Cell) : Option Bool :=
  match lo, hi with
  | some l, some h => (match le l x, le x h with | some p, some q => some (p && q) | _, _ => none)
  | some l, none => le l x
  | none, some h => le x h
  | none, none => some true

/-- `valueRange` over an arbitrary comparison of cells: `np.where((col >= lo) & (col <= hi))[0]` -/
def valueRangeBy (le : Cell → Cell → Option Bool) (col : List Cell) (lo hi : Option Cell) : Except TErr Ix :=
  if col.all (fun x => (rangeOkBy le lo hi x).isSome) then
    .ok (.idx (((enumFrom 0 col).filter (fun p => (rangeOkBy le lo hi p.2).getD false)).map (fun p => (p.1 : Int))))
  else .error .typeError

/-- the number a cell denotes: an integer cell its value, a float cell what its token reads as (`XModel/TableNum.lean`:
    decimals, `nan`, `inf`, `-inf`); a string cell denotes none (numpy: `'s0' >= 1` is a `TypeError`) -/
def cellNum : Cell → Option Num
  | .int i => some (.fin i 0)
  | .flt tok => parseNum tok
  | .str _ => none

/-- `a <= b` on numeric cells of either kind, with IEEE's reading of NaN and the infinities (`numLe`) -/
def cellLeF (a b : Cell) : Option Bool :=
  match cellNum a, cellNum b with
  | some x, some y => some (numLe x y)
  | _, _ => none

def rangeOkF (lo hi : Option Cell) (x : Cell) : Option Bool := rangeOkBy cellLeF lo hi x

/-- the value-range selector on a column of numbers of any kind -/
def valueRangeF (col : List Cell) (lo hi : Option Cell) : Except TErr Ix := valueRangeBy cellLeF col lo hi

/-- `_get_row_where_col(col, value)`: first row where the column equals the value -/
def rowWhereCol (c : List Cell) (v : Cell) : Except TErr Int :=
  match (enumFrom 0 c).find? (fun p => p.2 = v) with
  | some p => .ok p.1
  | none => .error .indexError

def mapMState {α β} (f : Tbl → α → Tbl × Except TErr β) : Tbl → List α → Tbl × Except TErr (List β)
  | t, [] => (t, .ok [])
  | t, a :: rest =>
    match f t a with
    | (t1, .error e) => (t1, .error e)
    | (t1, .ok b) =>
      match mapMState f t1 rest with
      | (t2, .error e) => (t2, .error e)
      | (t2, .ok bs) => (t2, .ok (b :: bs))

/-- `_get_row_indices(row)` for every selector form except tuples -/
def getRowIndices (t : Tbl) (m : String → Match) : Sel → Tbl × Except TErr Ix
  | .slice a b c =>
    let isStr : Bound → Bool := fun x => match x with | .str _ => true | _ => false
    if isStr a || isStr b then
      -- name matching; a non-string end together with a string end is passed to `_get_row_index` too
      let viaIndex := match c with
        | .none => true
        | .str s => s = t.index
        | .int _ => false
      let endOf (t : Tbl) (x : Bound) (colc : Option (List Cell)) : Tbl × Except TErr (Option Int) :=
        match x with
        | .none => (t, .ok none)
        | .str s =>
          if viaIndex then (match getRowIndex t (.name s) with
            | (t1, .ok i) => (t1, .ok (some i)) | (t1, .error e) => (t1, .error e))
          else (match colc with
            | some cc => (match rowWhereCol cc (.str s) with | .ok i => (t, .ok (some i)) | .error e => (t, .error e))
            | none => (t, .error .keyError))
        | .int i =>
          if viaIndex then (t, .ok (some i))
          else (match colc with
            | some cc => (match rowWhereCol cc (.int i) with | .ok j => (t, .ok (some j)) | .error e => (t, .error e))
            | none => (t, .error .keyError))
      let colc := match c with | .str s => t.col s | _ => none
      if !viaIndex && colc.isNone then (t, .error .keyError) else
      match endOf t a colc with
      | (t1, .error e) => (t1, .error e)
      | (t1, .ok ia) =>
        match endOf t1 b colc with
        | (t2, .error e) => (t2, .error e)
        | (t2, .ok ib) => (t2, .ok (.slice ia (ib.map (· + 1)) none))
    else
      match c with
      | .str cname =>
        -- value range lo <= col <= hi, either bound optional
        match t.col cname with
        | none => (t, .error .keyError)
        | some col =>
          let lo := match a with | .int i => some (Cell.int i) | _ => none
          let hi := match b with | .int i => some (Cell.int i) | _ => none
          match lo, hi with
          | none, none => (t, .ok (.slice none none none))
          | _, _ => (t, valueRange col lo hi)
      | _ =>
        let toI : Bound → Option Int := fun x => match x with | .int i => some i | _ => none
        (t, .ok (.slice (toI a) (toI b) (toI c)))
  | .pattern s =>
    match getRegexpIndices t (m s) s with
    | (t1, .error e) => (t1, .error e)
    | (t1, .ok l) => (t1, .ok (.idx l))
  | .ints l => (t, .ok (.idx l))
  | .bools l => if l.isEmpty then (t, .ok (.idx [])) else
      (t, .ok (.idx (((enumFrom 0 l).filter (·.2)).map (fun p => (p.1 : Int)))))
  | .names l =>
    match mapMState (fun t s => getRowIndex t (.name s)) t l with
    | (t1, .error e) => (t1, .error e)
    | (t1, .ok is) => (t1, .ok (.idx is))
  | .all => (t, .ok (.slice none none none))
  | .pos i => (t, .ok (.idx [i]))
  | .tuple _ => (t, .error .valueError)
  | .range lo hi cname =>
    -- the value-range branch again, for a column and bounds that need not be integers
    match t.col cname with
    | none => (t, .error .keyError)
    | some col =>
      match lo, hi with
      | none, none => (t, .ok (.slice none none none))
      | _, _ => (t, valueRangeF col lo hi)

/-- positions denoted by an `Ix` in a table of `n` rows: `np.arange(n)[ix]` (with numpy's wrap-around
    of negative positions and `IndexError` outside) -/
def ixPositions (n : Nat) : Ix → Except TErr (List Nat)
  | .slice a b c => (pySlice n a b c).map (fun l => l.map Int.toNat)
  | .idx l => l.mapM (fun i => match normPos n i with | some k => .ok k | none => .error .indexError)

/-- `_select_rows(indices)` on the modelled columns (derived tables start without a cache) -/
def selectRows (t : Tbl) (ps : List Nat) : Tbl :=
  { t with data := t.data.map (fun p => (p.1, ps.filterMap (fun k => p.2[k]?))), cache := none }

/-- `rows.indices[sel]`, including the tuple form: `arange(n)[i1][i2]…` over successive views -/
def indicesOf (t : Tbl) (m : String → Match) : Sel → Tbl × Except TErr (List Int)
  | .tuple sels =>
    let rec go (view : Tbl) (abs : List Nat) : List Sel → Except TErr (List Nat)
      | [] => .ok abs
      | s :: rest =>
        match getRowIndices view m s with
        | (_, .error e) => .error e
        | (_, .ok ix) =>
          match ixPositions view.nrows ix with
          | .error e => .error e
          | .ok ps => go (selectRows view ps) (ps.filterMap (fun k => abs[k]?)) rest
    match go t (List.range t.nrows) sels with
    | .error e => (t, .error e)
    | .ok l => (t, .ok (l.map (fun (k : Nat) => (k : Int))))
  | s =>
    match getRowIndices t m s with
    | (t1, .error e) => (t1, .error e)
    | (t1, .ok (.idx l)) => (t1, .ok l)
    | (t1, .ok (.slice a b c)) =>
      match pySlice t1.nrows a b c with
      | .ok l => (t1, .ok l)
      | .error e => (t1, .error e)

/-- numpy's normalisation of a list of positions (negative positions wrap, others raise) -/
def normAll (n : Nat) (l : List Int) : Except TErr (List Nat) :=
  l.mapM (fun i => match normPos n i with | some k => Except.ok k | none => .error TErr.indexError)

/-- `rows.mask[sel]` -/
def maskOf (t : Tbl) (m : String → Match) (s : Sel) : Tbl × Except TErr (List Bool) :=
  match indicesOf t m s with
  | (t1, .error e) => (t1, .error e)
  | (t1, .ok l) =>
    match normAll t1.nrows l with
    | .error e => (t1, .error e)
    | .ok ps => (t1, .ok ((List.range t1.nrows).map (fun k => ps.contains k)))

/-- `rows[sel]`: the selected rows (as a table) -/
def rowsOf (t : Tbl) (m : String → Match) (s : Sel) : Tbl × Except TErr Tbl :=
  match indicesOf t m s with
  | (t1, .error e) => (t1, .error e)
  | (t1, .ok l) =>
    match normAll t1.nrows l with
    | .error e => (t1, .error e)
    | .ok ps => (t1, .ok (selectRows t1 ps))

end TableM

namespace TableM
open Cache

/-! ### derivations (C14) -/

/-- `cols[names]` / `_select_cols`: the listed columns, the index column first when it was not listed -/
def selectCols (t : Tbl) (names : List String) : Except TErr Tbl :=
  let names := if t.index ∈ names then names else t.index :: names
  match names.mapM (fun c => (t.col c).map (fun v => (c, v))) with
  | none => .error .keyError
  | some cols => .ok { t with colNames := names, data := cols, cache := none }

/-- `_copy()` -/
def copyT (t : Tbl) : Tbl := { t with data := t.colNames.filterMap (fun c => (t.col c).map (fun v => (c, v))), cache := none }

/-- `t * k` -/
def mulT (t : Tbl) (k : Nat) : Except TErr Tbl :=
  if k = 0 then .error .valueError else
  .ok { t with data := t.data.map (fun p => if p.1 ∈ t.colNames then (p.1, (List.replicate k p.2).flatten) else p), cache := none }

/-- `a + b`: a copy of `a` with `b`'s columns appended row-wise -/
def addT (a b : Tbl) : Except TErr Tbl :=
  if b.colNames.all (fun c => (a.col c).isSome && (b.col c).isSome) then
    .ok { a with data := a.data.map (fun p => if p.1 ∈ b.colNames then (p.1, p.2 ++ ((b.col p.1).getD [])) else p), cache := none }
  else .error .keyError

/-- `Table.concatenate(tables)`: the columns common to all tables (in the model: in the first table's order; the
    implementation iterates a set, so the order is unspecified), each the concatenation of the tables' columns; the
    result is built by the checked constructor with the default index `"name"` -/
def concatT (ts : List Tbl) : Except TErr Tbl :=
  match ts with
  | [] => .error .indexError
  | t0 :: rest =>
    let names := t0.colNames.filter (fun c => rest.all (fun t => decide (c ∈ t.colNames)))
    if "name" ∈ names then
      match names.mapM (fun c => ((t0 :: rest).mapM (fun (t : Tbl) => t.col c)).map (fun cols => (c, cols.flatten))) with
      | none => .error .keyError
      | some data => .ok { index := "name", colNames := names, data := data, cache := none }
    else .error .valueError

/-- `t._t`: one row per column of `t`, the index column `"columns"` holding the column names, one string column
    `row<k>` per row of `t` -/
def transposeT (t : Tbl) : Tbl :=
  { index := "columns",
    colNames := "columns" :: (List.range t.nrows).map (fun k => "row" ++ toString k),
    data := ("columns", t.colNames.map Cell.str) ::
      (List.range t.nrows).map (fun k => ("row" ++ toString k,
        t.colNames.map (fun c => match (t.col c).bind (fun v => v[k]?) with
          | some x => Cell.str (cellStr x) | none => Cell.str ""))),
    cache := none }

/-- C14's invariant: the index column is listed, every listed column is present with the table's length -/
def Rect (t : Tbl) : Prop :=
  t.index ∈ t.colNames ∧ ∀ c ∈ t.colNames, ∃ v, t.col c = some v ∧ v.length = t.nrows

/-- decidable form, used by the driver -/
def rectB (t : Tbl) : Bool :=
  decide (t.index ∈ t.colNames) && t.colNames.all (fun c => match t.col c with | some v => v.length == t.nrows | none => false)

end TableM
