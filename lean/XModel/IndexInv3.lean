import XModel.IndexInv2
/-! Prototype: `register` (comprehension form) preserves the index invariant. -/
namespace Index
variable {κ ρ : Type} [DecidableEq κ] [DecidableEq ρ]

def look (ts : List (Task ρ κ)) (k : κ) : Option (Task ρ κ) := ts.find? (fun x => decide (x.id = k))

def sRt (ts : List (Task ρ κ)) (u k : κ) : Nat :=
  match look ts u, look ts k with
  | some tu, some tk => (tu.tars.filter (· ∈ tk.deps)).length
  | _, _ => 0
def sRdeps (ts : List (Task ρ κ)) (d r : ρ) : Nat := (ts.filter (fun t => decide (d ∈ t.deps ∧ r ∈ t.tars))).length
def sDep (ts : List (Task ρ κ)) (d : ρ) (k : κ) : Nat :=
  match look ts k with | some tk => if d ∈ tk.deps then 1 else 0 | none => 0
def sTar (ts : List (Task ρ κ)) (r : ρ) (k : κ) : Nat :=
  match look ts k with | some tk => if r ∈ tk.tars then 1 else 0 | none => 0

structure Inv (s : Mgr ρ κ) : Prop where
  wfT : ∀ t ∈ s.tasks, t.deps.Nodup ∧ t.tars.Nodup
  wf1 : DD.WF s.rdeps
  wf2 : DD.WF s.rtasks
  wf3 : DD.WF s.deptasks
  wf4 : DD.WF s.tartasks
  rdeps : ∀ d r, DD.cnt2 s.rdeps d r = sRdeps s.tasks d r
  dept : ∀ d k, DD.cnt2 s.deptasks d k = sDep s.tasks d k
  tart : ∀ r k, DD.cnt2 s.tartasks r k = sTar s.tasks r k
  rt : ∀ u k, DD.cnt2 s.rtasks u k = sRt s.tasks u k

/-- `Manager.register` with each Python double loop written as one comprehension -/
def register' (s : Mgr ρ κ) (t : Task ρ κ) : Mgr ρ κ :=
  let rdeps := appAll s.rdeps (t.deps.flatMap fun dep => t.tars.map fun tar => (dep, tar))
  let deptasks := appAll s.deptasks (t.deps.map fun dep => (dep, t.id))
  let rt1 := appAll s.rtasks (t.deps.flatMap fun dep => (RC.keys (DD.get s.tartasks dep)).map fun u => (u, t.id))
  let tartasks := appAll s.tartasks (t.tars.map fun tar => (tar, t.id))
  let rt2 := appAll rt1 (t.tars.flatMap fun tar => (RC.keys (DD.get deptasks tar)).map fun x => (t.id, x))
  { tasks := s.tasks ++ [t], rdeps := rdeps, rtasks := rt2, deptasks := deptasks, tartasks := tartasks }

theorem look_append (ts : List (Task ρ κ)) (t : Task ρ κ) (k : κ) (hfresh : look ts t.id = none) :
    look (ts ++ [t]) k = if k = t.id then some t else look ts k := by
  unfold look at *
  rw [List.find?_append]
  by_cases hk : k = t.id
  · subst hk
    simp [hfresh]
  · have : ¬ (t.id = k) := fun e => hk e.symm
    cases h : ts.find? (fun x => decide (x.id = k)) <;> simp [hk, this]

theorem countP_eq_indicator {α : Type} [DecidableEq α] (A : List α) (hA : A.Nodup) (a : α) :
    A.countP (fun x => decide (a = x)) = if a ∈ A then 1 else 0 := by
  induction A with
  | nil => simp
  | cons x A ih =>
    have hn := List.nodup_cons.mp hA
    simp only [List.countP_cons, ih hn.2, List.mem_cons]
    by_cases hx : a = x
    · subst hx; simp [hn.1]
    · simp [hx]

theorem count_pairs (A : List ρ) (B : List κ) (hA : A.Nodup) (hB : B.Nodup) (a : ρ) (b : κ) :
    (A.flatMap fun x => B.map fun y => (x, y)).count (a, b) = if a ∈ A ∧ b ∈ B then 1 else 0 := by
  rw [count_flatMap']
  have : (fun x => (B.map fun y => (x, y)).count (a, b)) = fun x => if (a = x ∧ b ∈ B) then 1 else 0 := by
    funext x; exact count_map_pair_right B hB x a b
  rw [this, sum_indicator]
  by_cases hb : b ∈ B
  · simp only [hb, and_true]
    rw [countP_eq_indicator A hA a]
  · simp [hb]

/-- number of `dep`s whose key list contains `u`, tagged with the id -/
theorem count_keys_pairs {α : Type} (A : List α) (f : α → List κ) (hf : ∀ x, (f x).Nodup) (id u k : κ) :
    (A.flatMap fun x => (f x).map fun y => (y, id)).count (u, k) =
      if k = id then A.countP (fun x => decide (u ∈ f x)) else 0 := by
  rw [count_flatMap']
  have : (fun x => ((f x).map fun y => (y, id)).count (u, k)) = fun x => if (u ∈ f x ∧ k = id) then 1 else 0 := by
    funext x; exact count_map_pair_left (f x) (hf x) id u k
  rw [this, sum_indicator]
  by_cases hk : k = id <;> simp [hk]

theorem count_keys_pairs_r {α : Type} (A : List α) (f : α → List κ) (hf : ∀ x, (f x).Nodup) (id u k : κ) :
    (A.flatMap fun x => (f x).map fun y => (id, y)).count (u, k) =
      if u = id then A.countP (fun x => decide (k ∈ f x)) else 0 := by
  rw [count_flatMap']
  have : (fun x => ((f x).map fun y => (id, y)).count (u, k)) = fun x => if (u = id ∧ k ∈ f x) then 1 else 0 := by
    funext x; exact count_map_pair_right (f x) (hf x) id u k
  rw [this, sum_indicator]
  by_cases hk : u = id <;> simp [hk]


theorem look_mem {ts : List (Task ρ κ)} {k : κ} {t : Task ρ κ} (h : look ts k = some t) : t ∈ ts ∧ t.id = k := by
  unfold look at h
  exact ⟨List.mem_of_find?_eq_some h, by simpa using List.find?_some h⟩

theorem countP_mem_eq {α : Type} [DecidableEq α] (A B : List α) :
    A.countP (fun x => decide (x ∈ B)) = (A.filter (· ∈ B)).length := by
  rw [List.countP_eq_length_filter]

theorem register_inv (s : Mgr ρ κ) (t : Task ρ κ) (h : Inv s) (hfresh : look s.tasks t.id = none)
    (hd : t.deps.Nodup) (ht : t.tars.Nodup) : Inv (register' s t) := by
  have keysND1 : ∀ dep, (RC.keys (DD.get s.tartasks dep)).Nodup := fun dep => (h.wf4 dep).1
  have wfDep' : DD.WF (appAll s.deptasks (t.deps.map fun dep => (dep, t.id))) := appAll_WF _ h.wf3 _
  have keysND2 : ∀ tar, (RC.keys (DD.get (appAll s.deptasks (t.deps.map fun dep => (dep, t.id))) tar)).Nodup :=
    fun tar => (wfDep' tar).1
  -- counts of the new deptasks
  have dept' : ∀ d k, DD.cnt2 (appAll s.deptasks (t.deps.map fun dep => (dep, t.id))) d k =
      sDep s.tasks d k + (if d ∈ t.deps ∧ k = t.id then 1 else 0) := by
    intro d k
    rw [appAll_cnt, h.dept, count_map_pair_left t.deps hd]
  refine
    { wfT := ?_, wf1 := appAll_WF _ h.wf1 _, wf2 := appAll_WF _ (appAll_WF _ h.wf2 _) _, wf3 := wfDep',
      wf4 := appAll_WF _ h.wf4 _, rdeps := ?_, dept := ?_, tart := ?_, rt := ?_ }
  · intro x hx
    rcases List.mem_append.mp hx with hx | hx
    · exact h.wfT x hx
    · simp only [List.mem_singleton] at hx; subst hx; exact ⟨hd, ht⟩
  · intro d r
    show DD.cnt2 (appAll s.rdeps _) d r = sRdeps (s.tasks ++ [t]) d r
    rw [appAll_cnt, h.rdeps, count_pairs t.deps t.tars hd ht]
    simp only [sRdeps, List.filter_append, List.length_append, List.filter_cons, List.filter_nil]
    by_cases hc : d ∈ t.deps ∧ r ∈ t.tars <;> simp [hc]
  · intro d k
    show DD.cnt2 (appAll s.deptasks _) d k = sDep (s.tasks ++ [t]) d k
    rw [dept']
    simp only [sDep, look_append s.tasks t k hfresh]
    by_cases hk : k = t.id
    · subst hk; simp [hfresh]
    · simp [hk]
  · intro r k
    show DD.cnt2 (appAll s.tartasks _) r k = sTar (s.tasks ++ [t]) r k
    rw [appAll_cnt, h.tart, count_map_pair_left t.tars ht]
    simp only [sTar, look_append s.tasks t k hfresh]
    by_cases hk : k = t.id
    · subst hk; simp [hfresh]
    · simp [hk]
  · intro u k
    show DD.cnt2 (appAll (appAll s.rtasks _) _) u k = sRt (s.tasks ++ [t]) u k
    rw [appAll_cnt, appAll_cnt, h.rt,
      count_keys_pairs t.deps (fun dep => RC.keys (DD.get s.tartasks dep)) keysND1,
      count_keys_pairs_r t.tars _ keysND2]
    -- membership in key lists, through the invariant
    have mem1 : ∀ dep, (u ∈ RC.keys (DD.get s.tartasks dep)) ↔ sTar s.tasks dep u ≥ 1 := by
      intro dep
      rw [RC.mem_keys_iff _ (h.wf4 dep)]
      show DD.cnt2 s.tartasks dep u ≥ 1 ↔ _
      rw [h.tart]
    have mem2 : ∀ tar, (k ∈ RC.keys (DD.get (appAll s.deptasks (t.deps.map fun dep => (dep, t.id))) tar)) ↔
        sDep s.tasks tar k + (if tar ∈ t.deps ∧ k = t.id then 1 else 0) ≥ 1 := by
      intro tar
      rw [RC.mem_keys_iff _ (wfDep' tar)]
      show DD.cnt2 _ tar k ≥ 1 ↔ _
      rw [dept']
    simp only [sRt, look_append s.tasks t _ hfresh]
    by_cases hu : u = t.id
    · subst hu
      simp only [hfresh, if_true]
      by_cases hk : k = t.id
      · subst hk
        simp only [hfresh, if_true]
        -- c1 = 0 because no task has this id yet; c2 counts tars ∩ deps
        have c1 : t.deps.countP (fun dep => decide (t.id ∈ RC.keys (DD.get s.tartasks dep))) = 0 := by
          apply List.countP_eq_zero.mpr
          intro dep _
          simp only [decide_eq_true_eq, mem1, sTar, hfresh]
          omega
        have c2 : t.tars.countP (fun tar => decide (t.id ∈ RC.keys (DD.get (appAll s.deptasks (t.deps.map fun dep => (dep, t.id))) tar)))
            = (t.tars.filter (· ∈ t.deps)).length := by
          rw [← countP_mem_eq]
          apply List.countP_congr
          intro tar _
          simp only [decide_eq_true_eq, mem2, sDep, hfresh]
          by_cases hm : tar ∈ t.deps <;> simp [hm]
        rw [c1, c2]; simp
      · simp only [hk, if_false]
        have c2 : t.tars.countP (fun tar => decide (k ∈ RC.keys (DD.get (appAll s.deptasks (t.deps.map fun dep => (dep, t.id))) tar)))
            = (match look s.tasks k with | some tk => (t.tars.filter (· ∈ tk.deps)).length | none => 0) := by
          cases hl : look s.tasks k with
          | none =>
            apply List.countP_eq_zero.mpr
            intro tar _
            simp [mem2, sDep, hl, hk]
          | some tk =>
            simp only
            rw [← countP_mem_eq]
            apply List.countP_congr
            intro tar _
            simp only [decide_eq_true_eq, mem2, sDep, hl, hk, and_false, if_false, Nat.add_zero]
            by_cases hm : tar ∈ tk.deps <;> simp [hm]
        rw [c2]
        cases hl : look s.tasks k <;> simp
    · simp only [hu, if_false]
      by_cases hk : k = t.id
      · subst hk
        simp only [if_true, hfresh]
        have c1 : t.deps.countP (fun dep => decide (u ∈ RC.keys (DD.get s.tartasks dep)))
            = (match look s.tasks u with | some tu => (tu.tars.filter (· ∈ t.deps)).length | none => 0) := by
          cases hl : look s.tasks u with
          | none =>
            apply List.countP_eq_zero.mpr
            intro dep _
            simp [mem1, sTar, hl]
          | some tu =>
            simp only
            have htu := (h.wfT tu (look_mem hl).1).2
            rw [inter_comm tu.tars t.deps htu hd, ← countP_mem_eq]
            apply List.countP_congr
            intro dep _
            simp only [decide_eq_true_eq, mem1, sTar, hl]
            by_cases hm : dep ∈ tu.tars <;> simp [hm]
        rw [c1]
        cases hl : look s.tasks u <;> simp
      · simp [hk]

#print axioms register_inv
end Index
