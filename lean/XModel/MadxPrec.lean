import XModel.MadxParen
/-!
# C19: precedence and associativity of UNparenthesised MAD-X input, as theorems

The grammar (`xdeps/madxutils.py`):

    sum: product | sum "+" product | sum "-" product
    product: power | product "*" power | product "/" power
    power: atom | power "^" atom | power "**" atom
    atom: NUMBER | "-" atom | "+" atom | NAME | NAME "->" NAME | NAME "(" sum ("," sum)* ")" | "(" sum ")"

encodes precedence and associativity by rule nesting.  This file gives that encoding formal content
for the model parser `parse` of `XModel/Madx.lean`:

* `level t`: the grammar level of the root of a tree (`0` sum, `1` product, `2` power, `3` atom —
  the unary signs are atoms: `"-" atom`);
* `render t`: the MINIMAL-parentheses printer.  A child is put in parentheses iff its level is lower
  than the position requires: left child of `+ -` any level, right child `≥ 1`; left child of `* /`
  `≥ 1`, right child `≥ 2`; left child of `^` `≥ 2`, right child `= 3`; operand of unary `±` `= 3`;
  call arguments any level;
* `ReadsAt k w t`: "the token list `w`, in a position where the grammar expects level `k`, is read
  as the tree `t`" — stated through the parser's own functions, in continuation form for the three
  left-recursive levels;
* `readsAt_wrapAt`: every well-formed tree, rendered for a position of level `k`, is read back as
  itself at level `k`; `parse_render`: `parse (render t) = some t`;
* the facts users rely on, for ALL operands (any text that reads as an operand of the required
  level — in particular `render`ed and `fullParen`ed trees): `parse_left_assoc` (`a op b op' c` with
  `op`, `op'` of the same level is `(a op b) op' c`), `parse_prec_right` (`a op b op' c` with `op'`
  binding tighter is `a op (b op' c)`), `parse_prec_left` (`a op' b op c` is `(a op' b) op c`),
  `parse_neg_pow` (`-a^b` is `(-a)^b`: unary minus binds TIGHTER than `^`, unlike Python and
  ordinary mathematical notation — this is what the grammar says, and what the model does),
  `parse_pow_neg` (`a^-b` is `a^(-b)`);
* `render_injective`, and `render_noParen_iff`: `render t` contains no parenthesis token iff `t` is
  built from non-call atoms with every child already at the level its position requires (`Flat`).
-/
namespace Madx

/-! ### levels and the minimal-parentheses printer -/

/-- the grammar level of the root: `0` sum, `1` product, `2` power, `3` atom -/
def level : MTree → Nat
  | .add _ _ => 0
  | .sub _ _ => 0
  | .mul _ _ => 1
  | .div _ _ => 1
  | .pow _ _ => 2
  | _ => 3

/-- `w` in parentheses if `c` holds, bare otherwise -/
def parenIf (c : Prop) [Decidable c] (w : List Tok) : List Tok :=
  if c then .lpar :: (w ++ [.rpar]) else w

mutual
/-- minimal parentheses: a child is wrapped iff its level is lower than its position requires -/
def render : MTree → List Tok
  | .number t => [.num t]
  | .var v => [.name v]
  | .getitem e k => [.name e, .arrow, .name k]
  | .neg a => .minus :: parenIf (level a < 3) (render a)
  | .pos a => .plus :: parenIf (level a < 3) (render a)
  | .call f args => .name f :: .lpar :: renderArgs args
  | .add l r => render l ++ .plus :: parenIf (level r < 1) (render r)
  | .sub l r => render l ++ .minus :: parenIf (level r < 1) (render r)
  | .mul l r => parenIf (level l < 1) (render l) ++ .star :: parenIf (level r < 2) (render r)
  | .div l r => parenIf (level l < 1) (render l) ++ .slash :: parenIf (level r < 2) (render r)
  | .pow l r => parenIf (level l < 2) (render l) ++ .pow :: parenIf (level r < 3) (render r)
/-- an argument list after the opening parenthesis: `sum ("," sum)* ")"` -/
def renderArgs : List MTree → List Tok
  | [] => [.rpar]
  | a :: rest => render a ++ renderTail rest
/-- the rest of an argument list: `("," sum)* ")"` -/
def renderTail : List MTree → List Tok
  | [] => [.rpar]
  | a :: rest => .comma :: (render a ++ renderTail rest)
end

/-- the text of `t` for a position where the grammar expects level `k` -/
def wrapAt (k : Nat) (t : MTree) : List Tok := parenIf (level t < k) (render t)

theorem wrapAt_of_le {k : Nat} {t : MTree} (h : k ≤ level t) : wrapAt k t = render t := by
  simp [wrapAt, parenIf, Nat.not_lt.mpr h]

theorem wrapAt_of_lt {k : Nat} {t : MTree} (h : level t < k) :
    wrapAt k t = .lpar :: (render t ++ [.rpar]) := by
  simp [wrapAt, parenIf, h]

theorem wrapAt_zero (t : MTree) : wrapAt 0 t = render t := wrapAt_of_le (Nat.zero_le _)

theorem level_le_three (t : MTree) : level t ≤ 3 := by cases t <;> simp [level]

/-- the five binary operators of the grammar -/
inductive BinOp where
  | add | sub | mul | div | pow
deriving DecidableEq, Repr

/-- the token (`^` and `**` are the same token `Tok.pow`) -/
def BinOp.tok : BinOp → Tok
  | .add => .plus | .sub => .minus | .mul => .star | .div => .slash | .pow => .pow

/-- the tree constructor -/
def BinOp.mk : BinOp → MTree → MTree → MTree
  | .add => .add | .sub => .sub | .mul => .mul | .div => .div | .pow => .pow

/-- the level of the rule the operator belongs to -/
def BinOp.level : BinOp → Nat
  | .add => 0 | .sub => 0 | .mul => 1 | .div => 1 | .pow => 2

theorem level_mk (op : BinOp) (l r : MTree) : level (op.mk l r) = op.level := by cases op <;> rfl

/-- the level discipline of the printer, uniformly: the left operand at the operator's own level
    (left recursion of the rule), the right operand one level up -/
theorem render_mk (op : BinOp) (l r : MTree) :
    render (op.mk l r) = wrapAt op.level l ++ op.tok :: wrapAt (op.level + 1) r := by
  cases op <;> rfl

theorem render_neg (a : MTree) : render (.neg a) = .minus :: wrapAt 3 a := by simp [render, wrapAt]
theorem render_pos (a : MTree) : render (.pos a) = .plus :: wrapAt 3 a := by simp [render, wrapAt]

/-! ### where each loop stops -/

/-- what may follow a complete `power` inside a `product`: not `(`, `->`, `^` -/
def powStop : List Tok → Bool
  | .lpar :: _ => false
  | .arrow :: _ => false
  | .pow :: _ => false
  | _ => true

/-- what may follow a complete `product` inside a `sum`: additionally not `*`, `/` -/
def prodStop : List Tok → Bool
  | .lpar :: _ => false
  | .arrow :: _ => false
  | .pow :: _ => false
  | .star :: _ => false
  | .slash :: _ => false
  | _ => true

theorem atomStop_of_powStop {rest : List Tok} (h : powStop rest = true) : atomStop rest = true := by
  cases rest with
  | nil => rfl
  | cons tok r => cases tok <;> simp_all [powStop, atomStop]

theorem powStop_of_prodStop {rest : List Tok} (h : prodStop rest = true) : powStop rest = true := by
  cases rest with
  | nil => rfl
  | cons tok r => cases tok <;> simp_all [powStop, prodStop]

theorem prodStop_of_sumStop {rest : List Tok} (h : sumStop rest = true) : prodStop rest = true := by
  cases rest with
  | nil => rfl
  | cons tok r => cases tok <;> simp_all [sumStop, prodStop]

theorem powStop_ne {rest : List Tok} (h : powStop rest = true) : ∀ r, rest ≠ .pow :: r := by
  intro r hr; subst hr; simp [powStop] at h

theorem prodStop_ne {rest : List Tok} (h : prodStop rest = true) :
    (∀ r, rest ≠ .star :: r) ∧ (∀ r, rest ≠ .slash :: r) := by
  refine ⟨?_, ?_⟩ <;> (intro r hr; subst hr; simp [prodStop] at h)

/-! ### "this text is read as that tree at that level" -/

/-- `w` is read as the atom `t`, whatever follows (except `(` and `->`, which would extend a name) -/
def ReadsAtom (w : List Tok) (t : MTree) : Prop :=
  ∀ rest, atomStop rest = true → ∀ N, 4 * w.length ≤ N → parseAtom N (w ++ rest) = some (t, rest)

/-- `w` is read as the power `t`: after `w` the `^`-loop continues with `t` as its left operand -/
def ReadsPower (w : List Tok) (t : MTree) : Prop :=
  ∀ rest, atomStop rest = true → ∀ N, 4 * w.length + 1 ≤ N →
    ∃ k, N ≤ k + 4 * w.length ∧ parsePower N (w ++ rest) = parsePowerTail k t rest

/-- `w` is read as the product `t`: after `w` (not followed by `^`) the `* /`-loop continues with `t` -/
def ReadsProduct (w : List Tok) (t : MTree) : Prop :=
  ∀ rest, powStop rest = true → ∀ N, 4 * w.length + 2 ≤ N →
    ∃ k, N ≤ k + 4 * w.length + 1 ∧ parseProduct N (w ++ rest) = parseProductTail k t rest

/-- `w` is read as the sum `t`: after `w` (not followed by `^ * /`) the `+ -`-loop continues with `t` -/
def ReadsSum (w : List Tok) (t : MTree) : Prop :=
  ∀ rest, prodStop rest = true → ∀ N, 4 * w.length + 3 ≤ N →
    ∃ k, N ≤ k + 4 * w.length + 2 ∧ parseSum N (w ++ rest) = parseSumTail k t rest

/-- `w`, in a position where the grammar expects level `k`, is read as `t` -/
def ReadsAt : Nat → List Tok → MTree → Prop
  | 0 => ReadsSum
  | 1 => ReadsProduct
  | 2 => ReadsPower
  | _ + 3 => ReadsAtom

theorem ReadsAtom.ne_nil {w : List Tok} {t : MTree} (h : ReadsAtom w t) : 1 ≤ w.length := by
  cases w with
  | nil => have := h [] rfl 0 (by simp); simp [parseAtom] at this
  | cons a w => simp

/-- `power: atom` -/
theorem ReadsAtom.power {w : List Tok} {t : MTree} (h : ReadsAtom w t) : ReadsPower w t := by
  intro rest hs N hN
  have := h.ne_nil
  obtain ⟨M, rfl⟩ : ∃ M, N = M + 1 := ⟨N - 1, by omega⟩
  exact ⟨M, by omega, by rw [parsePower, h rest hs M (by omega)]⟩

/-- `product: power` -/
theorem ReadsPower.product {w : List Tok} {t : MTree} (h : ReadsPower w t) : ReadsProduct w t := by
  intro rest hs N hN
  obtain ⟨M, rfl⟩ : ∃ M, N = M + 1 := ⟨N - 1, by omega⟩
  obtain ⟨k, hk, e⟩ := h rest (atomStop_of_powStop hs) M (by omega)
  obtain ⟨j, rfl⟩ : ∃ j, k = j + 1 := ⟨k - 1, by omega⟩
  exact ⟨M, by omega, by rw [parseProduct, e, parsePowerTail_stop _ _ _ (powStop_ne hs)]⟩

/-- `sum: product` -/
theorem ReadsProduct.sum {w : List Tok} {t : MTree} (h : ReadsProduct w t) : ReadsSum w t := by
  intro rest hs N hN
  obtain ⟨M, rfl⟩ : ∃ M, N = M + 1 := ⟨N - 1, by omega⟩
  obtain ⟨k, hk, e⟩ := h rest (powStop_of_prodStop hs) M (by omega)
  obtain ⟨j, rfl⟩ : ∃ j, k = j + 1 := ⟨k - 1, by omega⟩
  obtain ⟨h1, h2⟩ := prodStop_ne hs
  exact ⟨M, by omega, by rw [parseSum, e, parseProductTail_stop _ _ _ h1 h2]⟩

/-- `atom: "(" sum ")"` -/
theorem ReadsSum.paren {w : List Tok} {t : MTree} (h : ReadsSum w t) :
    ReadsAtom (.lpar :: (w ++ [.rpar])) t := by
  intro rest _ N hN
  simp only [List.length_cons, List.length_append, List.length_nil] at hN
  obtain ⟨M, rfl⟩ : ∃ M, N = M + 1 := ⟨N - 1, by omega⟩
  obtain ⟨k, hk, e⟩ := h (.rpar :: rest) rfl M (by omega)
  obtain ⟨j, rfl⟩ : ∃ j, k = j + 1 := ⟨k - 1, by omega⟩
  have e' : parseSum M (w ++ .rpar :: rest) = some (t, .rpar :: rest) := by
    rw [e, parseSumTail_stop _ _ _ (by simp) (by simp)]
  simp [parseAtom, e']

/-- `power: power "^" atom` — the LEFT operand is a power (left recursion = left associativity), the
    right operand an atom -/
theorem ReadsPower.pow {wl wr : List Tok} {l r : MTree} (hl : ReadsPower wl l) (hr : ReadsAtom wr r) :
    ReadsPower (wl ++ .pow :: wr) (.pow l r) := by
  intro rest hs N hN
  simp only [List.length_cons, List.length_append] at hN ⊢
  obtain ⟨k, hk, e⟩ := hl (.pow :: (wr ++ rest)) rfl N (by omega)
  obtain ⟨j, rfl⟩ : ∃ j, k = j + 1 := ⟨k - 1, by omega⟩
  refine ⟨j, by omega, ?_⟩
  rw [List.append_assoc, List.cons_append, e, parsePowerTail, hr rest hs j (by omega)]

/-- `product: product "*" power` -/
theorem ReadsProduct.mul {wl wr : List Tok} {l r : MTree} (hl : ReadsProduct wl l)
    (hr : ReadsPower wr r) : ReadsProduct (wl ++ .star :: wr) (.mul l r) := by
  intro rest hs N hN
  simp only [List.length_cons, List.length_append] at hN ⊢
  obtain ⟨k, hk, e⟩ := hl (.star :: (wr ++ rest)) rfl N (by omega)
  obtain ⟨j, rfl⟩ : ∃ j, k = j + 1 := ⟨k - 1, by omega⟩
  obtain ⟨i, hi, e2⟩ := hr rest (atomStop_of_powStop hs) j (by omega)
  obtain ⟨i', rfl⟩ : ∃ i', i = i' + 1 := ⟨i - 1, by omega⟩
  refine ⟨j, by omega, ?_⟩
  rw [List.append_assoc, List.cons_append, e, parseProductTail, e2,
    parsePowerTail_stop _ _ _ (powStop_ne hs)]

/-- `product: product "/" power` -/
theorem ReadsProduct.div {wl wr : List Tok} {l r : MTree} (hl : ReadsProduct wl l)
    (hr : ReadsPower wr r) : ReadsProduct (wl ++ .slash :: wr) (.div l r) := by
  intro rest hs N hN
  simp only [List.length_cons, List.length_append] at hN ⊢
  obtain ⟨k, hk, e⟩ := hl (.slash :: (wr ++ rest)) rfl N (by omega)
  obtain ⟨j, rfl⟩ : ∃ j, k = j + 1 := ⟨k - 1, by omega⟩
  obtain ⟨i, hi, e2⟩ := hr rest (atomStop_of_powStop hs) j (by omega)
  obtain ⟨i', rfl⟩ : ∃ i', i = i' + 1 := ⟨i - 1, by omega⟩
  refine ⟨j, by omega, ?_⟩
  rw [List.append_assoc, List.cons_append, e, parseProductTail, e2,
    parsePowerTail_stop _ _ _ (powStop_ne hs)]

/-- `sum: sum "+" product` -/
theorem ReadsSum.add {wl wr : List Tok} {l r : MTree} (hl : ReadsSum wl l)
    (hr : ReadsProduct wr r) : ReadsSum (wl ++ .plus :: wr) (.add l r) := by
  intro rest hs N hN
  simp only [List.length_cons, List.length_append] at hN ⊢
  obtain ⟨k, hk, e⟩ := hl (.plus :: (wr ++ rest)) rfl N (by omega)
  obtain ⟨j, rfl⟩ : ∃ j, k = j + 1 := ⟨k - 1, by omega⟩
  obtain ⟨i, hi, e2⟩ := hr rest (powStop_of_prodStop hs) j (by omega)
  obtain ⟨i', rfl⟩ : ∃ i', i = i' + 1 := ⟨i - 1, by omega⟩
  obtain ⟨h1, h2⟩ := prodStop_ne hs
  refine ⟨j, by omega, ?_⟩
  rw [List.append_assoc, List.cons_append, e, parseSumTail, e2,
    parseProductTail_stop _ _ _ h1 h2]

/-- `sum: sum "-" product` -/
theorem ReadsSum.sub {wl wr : List Tok} {l r : MTree} (hl : ReadsSum wl l)
    (hr : ReadsProduct wr r) : ReadsSum (wl ++ .minus :: wr) (.sub l r) := by
  intro rest hs N hN
  simp only [List.length_cons, List.length_append] at hN ⊢
  obtain ⟨k, hk, e⟩ := hl (.minus :: (wr ++ rest)) rfl N (by omega)
  obtain ⟨j, rfl⟩ : ∃ j, k = j + 1 := ⟨k - 1, by omega⟩
  obtain ⟨i, hi, e2⟩ := hr rest (powStop_of_prodStop hs) j (by omega)
  obtain ⟨i', rfl⟩ : ∃ i', i = i' + 1 := ⟨i - 1, by omega⟩
  obtain ⟨h1, h2⟩ := prodStop_ne hs
  refine ⟨j, by omega, ?_⟩
  rw [List.append_assoc, List.cons_append, e, parseSumTail, e2,
    parseProductTail_stop _ _ _ h1 h2]

/-- `atom: "-" atom` — the operand is an ATOM, so the sign binds tighter than every binary operator -/
theorem ReadsAtom.neg {w : List Tok} {a : MTree} (h : ReadsAtom w a) : ReadsAtom (.minus :: w) (.neg a) := by
  intro rest hs N hN
  simp only [List.length_cons] at hN
  obtain ⟨M, rfl⟩ : ∃ M, N = M + 1 := ⟨N - 1, by omega⟩
  simp [parseAtom, h rest hs M (by omega)]

/-- `atom: "+" atom` -/
theorem ReadsAtom.pos {w : List Tok} {a : MTree} (h : ReadsAtom w a) : ReadsAtom (.plus :: w) (.pos a) := by
  intro rest hs N hN
  simp only [List.length_cons] at hN
  obtain ⟨M, rfl⟩ : ∃ M, N = M + 1 := ⟨N - 1, by omega⟩
  simp [parseAtom, h rest hs M (by omega)]

theorem readsAtom_number (s : String) : ReadsAtom [.num s] (.number s) := by
  intro rest _ N hN
  obtain ⟨M, rfl⟩ : ∃ M, N = M + 1 := ⟨N - 1, by simp at hN; omega⟩
  simp [parseAtom]

theorem readsAtom_var (v : String) : ReadsAtom [.name v] (.var v) := by
  intro rest hs N hN
  obtain ⟨M, rfl⟩ : ∃ M, N = M + 1 := ⟨N - 1, by simp at hN; omega⟩
  simpa using parseAtom_var M v rest hs

theorem readsAtom_getitem (e k : String) : ReadsAtom [.name e, .arrow, .name k] (.getitem e k) := by
  intro rest _ N hN
  obtain ⟨M, rfl⟩ : ∃ M, N = M + 1 := ⟨N - 1, by simp at hN; omega⟩
  simp [parseAtom]

/-- the fully parenthesised text of any well-formed tree is an atom text -/
theorem readsAtom_fullParen (t : MTree) (h : WFTree t) : ReadsAtom (fullParen t) t :=
  fun rest hs N hN => parseAtom_fullParen t h rest hs N hN

/-! ### the levels are cumulative -/

theorem ReadsAt.atom_iff {k : Nat} {w : List Tok} {t : MTree} (hk : 3 ≤ k) :
    ReadsAt k w t ↔ ReadsAtom w t := by
  obtain ⟨j, rfl⟩ : ∃ j, k = j + 3 := ⟨k - 3, by omega⟩
  exact Iff.rfl

/-- a text good for a position of level `k` is good for every less demanding position -/
theorem ReadsAt.mono {k j : Nat} {w : List Tok} {t : MTree} (h : ReadsAt k w t) (hjk : j ≤ k) :
    ReadsAt j w t := by
  rcases j with _ | _ | _ | j <;> rcases k with _ | _ | _ | k <;> first
    | exact h
    | exact ReadsProduct.sum h
    | exact ReadsPower.product h
    | exact ReadsAtom.power h
    | exact ReadsProduct.sum (ReadsPower.product h)
    | exact ReadsPower.product (ReadsAtom.power h)
    | exact ReadsProduct.sum (ReadsPower.product (ReadsAtom.power h))
    | (exfalso; omega)

/-! ### every tree, rendered for a position, is read back at that position -/

/-- from the reading of `render t` at the tree's own level: the reading of `wrapAt k t` at every
    level `k` (bare if `k ≤ level t`, otherwise through `atom: "(" sum ")"`) -/
theorem readsAt_wrapAt_of_own {t : MTree} (h : ReadsAt (level t) (render t) t) (k : Nat) :
    ReadsAt k (wrapAt k t) t := by
  by_cases hk : k ≤ level t
  · rw [wrapAt_of_le hk]; exact h.mono hk
  · rw [wrapAt_of_lt (by omega)]
    have h0 : ReadsSum (render t) t := h.mono (Nat.zero_le _)
    have ha : ReadsAt (k + 3) (.lpar :: (render t ++ [.rpar])) t := h0.paren
    exact ha.mono (by omega)

theorem sumStop_renderTail (args : List MTree) (rest : List Tok) :
    sumStop (renderTail args ++ rest) = true := by
  cases args <;> simp [renderTail, sumStop]

mutual
/-- the text of a well-formed tree is read, at the tree's own level, as the tree -/
theorem readsAt_render : ∀ t : MTree, WFTree t → ReadsAt (level t) (render t) t
  | .number s, _ => readsAtom_number s
  | .var v, _ => readsAtom_var v
  | .getitem e k, _ => readsAtom_getitem e k
  | .neg a, h => by
    simp only [WFTree] at h
    rw [render_neg]
    exact ReadsAtom.neg (readsAt_wrapAt_of_own (readsAt_render a h) 3)
  | .pos a, h => by
    simp only [WFTree] at h
    rw [render_pos]
    exact ReadsAtom.pos (readsAt_wrapAt_of_own (readsAt_render a h) 3)
  | .call f [], h => by simp [WFTree] at h
  | .call f (a :: args), h => by
    simp only [WFTree, WFArgs] at h
    show ReadsAtom _ _
    intro rest _ N hN
    simp only [render, renderArgs, List.length_cons, List.length_append] at hN
    have hpos : 1 ≤ (renderTail args).length := by cases args <;> simp [renderTail]
    obtain ⟨M, rfl⟩ : ∃ M, N = M + 1 := ⟨N - 1, by omega⟩
    have ha : ReadsSum (render a) a := (readsAt_render a h.2.1).mono (Nat.zero_le _)
    have hst := sumStop_renderTail args rest
    obtain ⟨k, hk, e⟩ := ha (renderTail args ++ rest) (prodStop_of_sumStop hst) M (by omega)
    obtain ⟨j, rfl⟩ : ∃ j, k = j + 1 := ⟨k - 1, by omega⟩
    obtain ⟨_, _, _, h4, h5⟩ := sumStop_ne hst
    have e' : parseSum M (render a ++ (renderTail args ++ rest)) = some (a, renderTail args ++ rest) := by
      rw [e, parseSumTail_stop _ _ _ h4 h5]
    have h2 := parseArgs_renderTail args h.2.2 rest M (by omega)
    simp [render, renderArgs, parseAtom, e', h2]
  | .add l r, h => by
    simp only [WFTree] at h
    rw [show render (.add l r) = wrapAt 0 l ++ .plus :: wrapAt 1 r from render_mk .add l r]
    exact ReadsSum.add (readsAt_wrapAt_of_own (readsAt_render l h.1) 0)
      (readsAt_wrapAt_of_own (readsAt_render r h.2) 1)
  | .sub l r, h => by
    simp only [WFTree] at h
    rw [show render (.sub l r) = wrapAt 0 l ++ .minus :: wrapAt 1 r from render_mk .sub l r]
    exact ReadsSum.sub (readsAt_wrapAt_of_own (readsAt_render l h.1) 0)
      (readsAt_wrapAt_of_own (readsAt_render r h.2) 1)
  | .mul l r, h => by
    simp only [WFTree] at h
    rw [show render (.mul l r) = wrapAt 1 l ++ .star :: wrapAt 2 r from render_mk .mul l r]
    exact ReadsProduct.mul (readsAt_wrapAt_of_own (readsAt_render l h.1) 1)
      (readsAt_wrapAt_of_own (readsAt_render r h.2) 2)
  | .div l r, h => by
    simp only [WFTree] at h
    rw [show render (.div l r) = wrapAt 1 l ++ .slash :: wrapAt 2 r from render_mk .div l r]
    exact ReadsProduct.div (readsAt_wrapAt_of_own (readsAt_render l h.1) 1)
      (readsAt_wrapAt_of_own (readsAt_render r h.2) 2)
  | .pow l r, h => by
    simp only [WFTree] at h
    rw [show render (.pow l r) = wrapAt 2 l ++ .pow :: wrapAt 3 r from render_mk .pow l r]
    exact ReadsPower.pow (readsAt_wrapAt_of_own (readsAt_render l h.1) 2)
      (readsAt_wrapAt_of_own (readsAt_render r h.2) 3)
/-- the rest of a rendered argument list is read back as the list -/
theorem parseArgs_renderTail : ∀ args : List MTree, WFArgs args → ∀ (rest : List Tok) (N : Nat),
    4 * (renderTail args).length ≤ N → parseArgs N (renderTail args ++ rest) = some (args, rest)
  | [], _, rest, N, hN => by
    obtain ⟨M, rfl⟩ : ∃ M, N = M + 1 := ⟨N - 1, by simp [renderTail] at hN; omega⟩
    simp [renderTail, parseArgs]
  | a :: args, h, rest, N, hN => by
    simp only [WFArgs] at h
    simp only [renderTail, List.length_cons, List.length_append] at hN
    have hpos : 1 ≤ (renderTail args).length := by cases args <;> simp [renderTail]
    obtain ⟨M, rfl⟩ : ∃ M, N = M + 1 := ⟨N - 1, by omega⟩
    have ha : ReadsSum (render a) a := (readsAt_render a h.1).mono (Nat.zero_le _)
    have hst := sumStop_renderTail args rest
    obtain ⟨k, hk, e⟩ := ha (renderTail args ++ rest) (prodStop_of_sumStop hst) M (by omega)
    obtain ⟨j, rfl⟩ : ∃ j, k = j + 1 := ⟨k - 1, by omega⟩
    obtain ⟨_, _, _, h4, h5⟩ := sumStop_ne hst
    have e' : parseSum M (render a ++ (renderTail args ++ rest)) = some (a, renderTail args ++ rest) := by
      rw [e, parseSumTail_stop _ _ _ h4 h5]
    have h2 := parseArgs_renderTail args h.2 rest M (by omega)
    simp [renderTail, parseArgs, e', h2]
end

/-- **the level discipline is the grammar's**: every well-formed tree, rendered for a position where
    the grammar expects level `k` (parenthesised iff its own level is lower), is read at level `k`
    as itself -/
theorem readsAt_wrapAt (t : MTree) (h : WFTree t) (k : Nat) : ReadsAt k (wrapAt k t) t :=
  readsAt_wrapAt_of_own (readsAt_render t h) k

/-- a tree whose level is at least `k` needs no parentheses in a position of level `k` -/
theorem readsAt_render_of_le (t : MTree) (h : WFTree t) {k : Nat} (hk : k ≤ level t) :
    ReadsAt k (render t) t := (readsAt_render t h).mono hk

/-! ### from "reads as a sum" to `parse` -/

/-- in context: a text that reads as the sum `t`, followed by anything that is not an operator (nor
    `(`, `->`), is parsed as the complete sum `t` by every sufficiently large fuel -/
theorem parseSum_of_readsSum {w : List Tok} {t : MTree} (h : ReadsSum w t) (rest : List Tok)
    (hs : sumStop rest = true) (N : Nat) (hN : 4 * w.length + 3 ≤ N) :
    parseSum N (w ++ rest) = some (t, rest) := by
  obtain ⟨k, hk, e⟩ := h rest (prodStop_of_sumStop hs) N hN
  obtain ⟨j, rfl⟩ : ∃ j, k = j + 1 := ⟨k - 1, by omega⟩
  obtain ⟨_, _, _, h4, h5⟩ := sumStop_ne hs
  rw [e, parseSumTail_stop _ _ _ h4 h5]

/-- … and `parse`, with the fuel it chooses itself, returns `t` -/
theorem parse_of_readsSum {w : List Tok} {t : MTree} (h : ReadsSum w t) : parse w = some t := by
  have := parseSum_of_readsSum h [] rfl (4 * w.length + 8) (by omega)
  rw [List.append_nil] at this
  simp [parse, this]

theorem parse_of_readsAt {k : Nat} {w : List Tok} {t : MTree} (h : ReadsAt k w t) : parse w = some t :=
  parse_of_readsSum (h.mono (Nat.zero_le _) : ReadsAt 0 w t)

/-- **round trip through the minimal-parentheses printer**: for every tree the grammar can produce,
    parsing its rendering gives the tree back -/
theorem parse_render (t : MTree) (h : WFTree t) : parse (render t) = some t :=
  parse_of_readsAt (readsAt_render t h)

/-- in context, for every sufficiently large fuel -/
theorem parseSum_render (t : MTree) (h : WFTree t) (rest : List Tok) (hs : sumStop rest = true)
    (N : Nat) (hN : 4 * (render t).length + 3 ≤ N) : parseSum N (render t ++ rest) = some (t, rest) :=
  parseSum_of_readsSum ((readsAt_render t h).mono (Nat.zero_le _) : ReadsAt 0 _ _) rest hs N hN

/-- the minimal rendering determines the tree -/
theorem render_injective {t t' : MTree} (h : WFTree t) (h' : WFTree t')
    (heq : render t = render t') : t = t' := by
  have h1 := parse_render t h
  rw [heq, parse_render t' h'] at h1
  exact (Option.some.inj h1).symm

/-! ### associativity and precedence, for all operands

Operands are TEXTS with their readings (`ReadsAt k w t`): rendered trees of level `≥ k`
(`readsAt_render_of_le`), trees rendered for the position (`readsAt_wrapAt`), fully parenthesised trees
(`readsAtom_fullParen`), or anything assembled with the rules above. -/

/-- one application of a binary rule `X: X op Y` (`Y` the next level up) -/
theorem ReadsAt.binop (op : BinOp) {wl wr : List Tok} {l r : MTree}
    (hl : ReadsAt op.level wl l) (hr : ReadsAt (op.level + 1) wr r) :
    ReadsAt op.level (wl ++ op.tok :: wr) (op.mk l r) := by
  cases op
  · exact ReadsSum.add hl hr
  · exact ReadsSum.sub hl hr
  · exact ReadsProduct.mul hl hr
  · exact ReadsProduct.div hl hr
  · exact ReadsPower.pow hl hr

/-- **left associativity**: `a op b op' c` with `op`, `op'` of the same level (`+ -`, or `* /`, or
    `^ ^`) is `(a op b) op' c` -/
theorem parse_left_assoc (op op' : BinOp) (heq : op.level = op'.level)
    {wa wb wc : List Tok} {a b c : MTree}
    (ha : ReadsAt op.level wa a) (hb : ReadsAt (op.level + 1) wb b) (hc : ReadsAt (op'.level + 1) wc c) :
    parse (wa ++ op.tok :: (wb ++ op'.tok :: wc)) = some (op'.mk (op.mk a b) c) := by
  have h1 := ReadsAt.binop op ha hb
  rw [heq] at h1
  have h2 := parse_of_readsAt (ReadsAt.binop op' h1 hc)
  simpa [List.append_assoc] using h2

/-- **precedence, tighter operator on the right**: `a op b op' c` with `op'` of a higher level than
    `op` (`a + b * c`, `a * b ^ c`, `a - b ^ c`, …) is `a op (b op' c)` -/
theorem parse_prec_right (op op' : BinOp) (hlt : op.level < op'.level)
    {wa wb wc : List Tok} {a b c : MTree}
    (ha : ReadsAt op.level wa a) (hb : ReadsAt op'.level wb b) (hc : ReadsAt (op'.level + 1) wc c) :
    parse (wa ++ op.tok :: (wb ++ op'.tok :: wc)) = some (op.mk a (op'.mk b c)) :=
  parse_of_readsAt (ReadsAt.binop op ha ((ReadsAt.binop op' hb hc).mono hlt))

/-- **precedence, tighter operator on the left**: `a op' b op c` with `op'` of a higher level than
    `op` (`a * b + c`, `a ^ b * c`, …) is `(a op' b) op c` -/
theorem parse_prec_left (op op' : BinOp) (hlt : op.level < op'.level)
    {wa wb wc : List Tok} {a b c : MTree}
    (ha : ReadsAt op'.level wa a) (hb : ReadsAt (op'.level + 1) wb b) (hc : ReadsAt (op.level + 1) wc c) :
    parse (wa ++ op'.tok :: (wb ++ op.tok :: wc)) = some (op.mk (op'.mk a b) c) := by
  have h1 := (ReadsAt.binop op' ha hb).mono (Nat.le_of_lt hlt)
  have h2 := parse_of_readsAt (ReadsAt.binop op h1 hc)
  simpa [List.append_assoc] using h2

/-- an atom text is good for every position -/
theorem ReadsAtom.at {w : List Tok} {t : MTree} (h : ReadsAtom w t) (k : Nat) : ReadsAt k w t := by
  by_cases hk : k ≤ 3
  · exact (show ReadsAt 3 w t from h).mono hk
  · exact (ReadsAt.atom_iff (by omega)).mpr h

/-- left associativity and left precedence in one statement: in `a op b op' c`, if `op'` does NOT bind
    tighter than `op`, the reading is `(a op b) op' c` -/
theorem parse_left_of_le (op op' : BinOp) (hle : op'.level ≤ op.level)
    {wa wb wc : List Tok} {a b c : MTree}
    (ha : ReadsAt op.level wa a) (hb : ReadsAt (op.level + 1) wb b) (hc : ReadsAt (op'.level + 1) wc c) :
    parse (wa ++ op.tok :: (wb ++ op'.tok :: wc)) = some (op'.mk (op.mk a b) c) := by
  have h2 := parse_of_readsAt (ReadsAt.binop op' ((ReadsAt.binop op ha hb).mono hle) hc)
  simpa [List.append_assoc] using h2

/-- **the complete table for two operators over atomic operands**: `a op b op' c` is `a op (b op' c)`
    if `op'` binds tighter than `op`, and `(a op b) op' c` in every other case -/
theorem parse_two_ops (op op' : BinOp) {wa wb wc : List Tok} {a b c : MTree}
    (ha : ReadsAtom wa a) (hb : ReadsAtom wb b) (hc : ReadsAtom wc c) :
    parse (wa ++ op.tok :: (wb ++ op'.tok :: wc))
      = some (if op.level < op'.level then op.mk a (op'.mk b c) else op'.mk (op.mk a b) c) := by
  by_cases hlt : op.level < op'.level
  · rw [if_pos hlt]; exact parse_prec_right op op' hlt (ha.at _) (hb.at _) (hc.at _)
  · rw [if_neg hlt]; exact parse_left_of_le op op' (by omega) (ha.at _) (hb.at _) (hc.at _)

/-- **n-ary left associativity**: a chain `a op₁ b₁ op₂ b₂ … opₙ bₙ` of operators of one level `k`
    is the left-nested tree `(…((a op₁ b₁) op₂ b₂)…) opₙ bₙ` -/
theorem readsAt_chain (k : Nat) (items : List (BinOp × List Tok × MTree))
    (h : ∀ it ∈ items, it.1.level = k ∧ ReadsAt (k + 1) it.2.1 it.2.2) :
    ∀ {wa : List Tok} {a : MTree}, ReadsAt k wa a →
      ReadsAt k (wa ++ items.flatMap (fun it => it.1.tok :: it.2.1))
        (items.foldl (fun acc it => it.1.mk acc it.2.2) a) := by
  induction items with
  | nil => intro wa a ha; simpa using ha
  | cons it items ih =>
    intro wa a ha
    obtain ⟨hk, hr⟩ := h it (by simp)
    have h1 : ReadsAt k (wa ++ it.1.tok :: it.2.1) (it.1.mk a it.2.2) := by
      have := ReadsAt.binop it.1 (hk ▸ ha) (hk ▸ hr)
      rwa [hk] at this
    have h2 := ih (fun it' hm => h it' (by simp [hm])) h1
    simpa [List.flatMap_cons, List.append_assoc] using h2

theorem parse_chain (k : Nat) (items : List (BinOp × List Tok × MTree))
    (h : ∀ it ∈ items, it.1.level = k ∧ ReadsAt (k + 1) it.2.1 it.2.2)
    {wa : List Tok} {a : MTree} (ha : ReadsAt k wa a) :
    parse (wa ++ items.flatMap (fun it => it.1.tok :: it.2.1))
      = some (items.foldl (fun acc it => it.1.mk acc it.2.2) a) :=
  parse_of_readsAt (readsAt_chain k items h ha)

/-- **unary minus binds tighter than every binary operator, `^` included**: `-a op b` is
    `(-a) op b`; in particular `-a^b` is `(-a)^b`, NOT `-(a^b)` — the grammar's `atom: "-" atom` -/
theorem parse_neg_binop (op : BinOp) {wa wb : List Tok} {a b : MTree}
    (ha : ReadsAtom wa a) (hb : ReadsAt (op.level + 1) wb b) :
    parse (.minus :: (wa ++ op.tok :: wb)) = some (op.mk (.neg a) b) := by
  have h3 : ReadsAt 3 (.minus :: wa) (.neg a) := ha.neg
  exact parse_of_readsAt (ReadsAt.binop op (h3.mono (by cases op <;> simp [BinOp.level])) hb)

/-- `-a^b` is `(-a)^b` -/
theorem parse_neg_pow {wa wb : List Tok} {a b : MTree} (ha : ReadsAtom wa a) (hb : ReadsAtom wb b) :
    parse (.minus :: (wa ++ .pow :: wb)) = some (.pow (.neg a) b) :=
  parse_neg_binop .pow ha hb

/-- a sign may follow a binary operator: `a op -b` is `a op (-b)`; in particular `a^-b` is `a^(-b)`,
    `a*-b` is `a*(-b)`, `a - -b` is `a - (-b)` -/
theorem parse_binop_neg (op : BinOp) {wa wb : List Tok} {a b : MTree}
    (ha : ReadsAt op.level wa a) (hb : ReadsAtom wb b) :
    parse (wa ++ op.tok :: .minus :: wb) = some (op.mk a (.neg b)) := by
  have h3 : ReadsAt 3 (.minus :: wb) (.neg b) := hb.neg
  exact parse_of_readsAt (ReadsAt.binop op ha (h3.mono (by cases op <;> simp [BinOp.level])))

/-- `a^-b` is `a^(-b)` -/
theorem parse_pow_neg {wa wb : List Tok} {a b : MTree} (ha : ReadsPower wa a) (hb : ReadsAtom wb b) :
    parse (wa ++ .pow :: .minus :: wb) = some (.pow a (.neg b)) :=
  parse_binop_neg .pow ha hb

/-- the same for unary plus -/
theorem parse_pos_binop (op : BinOp) {wa wb : List Tok} {a b : MTree}
    (ha : ReadsAtom wa a) (hb : ReadsAt (op.level + 1) wb b) :
    parse (.plus :: (wa ++ op.tok :: wb)) = some (op.mk (.pos a) b) := by
  have h3 : ReadsAt 3 (.plus :: wa) (.pos a) := ha.pos
  exact parse_of_readsAt (ReadsAt.binop op (h3.mono (by cases op <;> simp [BinOp.level])) hb)

theorem parse_binop_pos (op : BinOp) {wa wb : List Tok} {a b : MTree}
    (ha : ReadsAt op.level wa a) (hb : ReadsAtom wb b) :
    parse (wa ++ op.tok :: .plus :: wb) = some (op.mk a (.pos b)) := by
  have h3 : ReadsAt 3 (.plus :: wb) (.pos b) := hb.pos
  exact parse_of_readsAt (ReadsAt.binop op ha (h3.mono (by cases op <;> simp [BinOp.level])))

/-! ### the same with rendered trees as operands -/

/-- `a op b op' c` (same level), operands any well-formed trees of sufficient level, rendered bare -/
theorem parse_render_left_assoc (op op' : BinOp) (heq : op.level = op'.level) (a b c : MTree)
    (wa : WFTree a) (wb : WFTree b) (wc : WFTree c)
    (ha : op.level ≤ level a) (hb : op.level < level b) (hc : op'.level < level c) :
    parse (render a ++ op.tok :: (render b ++ op'.tok :: render c)) = some (op'.mk (op.mk a b) c) :=
  parse_left_assoc op op' heq (readsAt_render_of_le a wa ha) (readsAt_render_of_le b wb hb)
    (readsAt_render_of_le c wc hc)

theorem parse_render_prec_right (op op' : BinOp) (hlt : op.level < op'.level) (a b c : MTree)
    (wa : WFTree a) (wb : WFTree b) (wc : WFTree c)
    (ha : op.level ≤ level a) (hb : op'.level ≤ level b) (hc : op'.level < level c) :
    parse (render a ++ op.tok :: (render b ++ op'.tok :: render c)) = some (op.mk a (op'.mk b c)) :=
  parse_prec_right op op' hlt (readsAt_render_of_le a wa ha) (readsAt_render_of_le b wb hb)
    (readsAt_render_of_le c wc hc)

theorem parse_render_prec_left (op op' : BinOp) (hlt : op.level < op'.level) (a b c : MTree)
    (wa : WFTree a) (wb : WFTree b) (wc : WFTree c)
    (ha : op'.level ≤ level a) (hb : op'.level < level b) (hc : op.level < level c) :
    parse (render a ++ op'.tok :: (render b ++ op.tok :: render c)) = some (op.mk (op'.mk a b) c) :=
  parse_prec_left op op' hlt (readsAt_render_of_le a wa ha) (readsAt_render_of_le b wb hb)
    (readsAt_render_of_le c wc hc)

/-! ### when no parenthesis is printed -/

/-- built from numbers, names and attribute accesses (no calls: a call carries its own
    parentheses), every child already at the level its position requires -/
def Flat : MTree → Prop
  | .number _ => True
  | .var _ => True
  | .getitem _ _ => True
  | .call _ _ => False
  | .neg a => 3 ≤ level a ∧ Flat a
  | .pos a => 3 ≤ level a ∧ Flat a
  | .add l r => Flat l ∧ 1 ≤ level r ∧ Flat r
  | .sub l r => Flat l ∧ 1 ≤ level r ∧ Flat r
  | .mul l r => (1 ≤ level l ∧ Flat l) ∧ 2 ≤ level r ∧ Flat r
  | .div l r => (1 ≤ level l ∧ Flat l) ∧ 2 ≤ level r ∧ Flat r
  | .pow l r => (2 ≤ level l ∧ Flat l) ∧ 3 ≤ level r ∧ Flat r

theorem lpar_notin_parenIf (c : Prop) [Decidable c] (w : List Tok) :
    Tok.lpar ∉ parenIf c w ↔ ¬ c ∧ Tok.lpar ∉ w := by
  by_cases hc : c <;> simp [parenIf, hc]

theorem rpar_notin_parenIf (c : Prop) [Decidable c] (w : List Tok) :
    Tok.rpar ∉ parenIf c w ↔ ¬ c ∧ Tok.rpar ∉ w := by
  by_cases hc : c <;> simp [parenIf, hc]

/-- the rendering contains no opening parenthesis exactly for the `Flat` trees -/
theorem lpar_notin_render_iff : ∀ t : MTree, Tok.lpar ∉ render t ↔ Flat t
  | .number _ => by simp [render, Flat]
  | .var _ => by simp [render, Flat]
  | .getitem _ _ => by simp [render, Flat]
  | .call _ _ => by simp [render, Flat]
  | .neg a => by simp [render, Flat, lpar_notin_parenIf, lpar_notin_render_iff a, Nat.not_lt]
  | .pos a => by simp [render, Flat, lpar_notin_parenIf, lpar_notin_render_iff a, Nat.not_lt]
  | .add l r => by
    simp [render, Flat, lpar_notin_parenIf, lpar_notin_render_iff l, lpar_notin_render_iff r,
      Nat.one_le_iff_ne_zero]
  | .sub l r => by
    simp [render, Flat, lpar_notin_parenIf, lpar_notin_render_iff l, lpar_notin_render_iff r,
      Nat.one_le_iff_ne_zero]
  | .mul l r => by
    simp [render, Flat, lpar_notin_parenIf, lpar_notin_render_iff l, lpar_notin_render_iff r, Nat.not_lt,
      Nat.one_le_iff_ne_zero]
  | .div l r => by
    simp [render, Flat, lpar_notin_parenIf, lpar_notin_render_iff l, lpar_notin_render_iff r, Nat.not_lt,
      Nat.one_le_iff_ne_zero]
  | .pow l r => by
    simp [render, Flat, lpar_notin_parenIf, lpar_notin_render_iff l, lpar_notin_render_iff r, Nat.not_lt]

/-- a `Flat` tree is rendered without closing parenthesis either -/
theorem rpar_notin_render_of_flat : ∀ t : MTree, Flat t → Tok.rpar ∉ render t
  | .number _, _ => by simp [render]
  | .var _, _ => by simp [render]
  | .getitem _ _, _ => by simp [render]
  | .call _ _, h => by simp [Flat] at h
  | .neg a, h => by
    simp only [Flat] at h
    simp [render, rpar_notin_parenIf, rpar_notin_render_of_flat a h.2, Nat.not_lt, h.1]
  | .pos a, h => by
    simp only [Flat] at h
    simp [render, rpar_notin_parenIf, rpar_notin_render_of_flat a h.2, Nat.not_lt, h.1]
  | .add l r, h => by
    simp only [Flat] at h
    simp [render, rpar_notin_parenIf, rpar_notin_render_of_flat l h.1, rpar_notin_render_of_flat r h.2.2]
    omega
  | .sub l r, h => by
    simp only [Flat] at h
    simp [render, rpar_notin_parenIf, rpar_notin_render_of_flat l h.1, rpar_notin_render_of_flat r h.2.2]
    omega
  | .mul l r, h => by
    simp only [Flat] at h
    simp [render, rpar_notin_parenIf, rpar_notin_render_of_flat l h.1.2, rpar_notin_render_of_flat r h.2.2,
      Nat.not_lt, h.2.1]
    omega
  | .div l r, h => by
    simp only [Flat] at h
    simp [render, rpar_notin_parenIf, rpar_notin_render_of_flat l h.1.2, rpar_notin_render_of_flat r h.2.2,
      Nat.not_lt, h.2.1]
    omega
  | .pow l r, h => by
    simp only [Flat] at h
    simp [render, rpar_notin_parenIf, rpar_notin_render_of_flat l h.1.2, rpar_notin_render_of_flat r h.2.2,
      Nat.not_lt, h.2.1, h.1.1]

/-- **no parenthesis is printed iff none is needed**: `render t` is free of parenthesis tokens
    exactly when `t` is `Flat` -/
theorem render_noParen_iff (t : MTree) : (Tok.lpar ∉ render t ∧ Tok.rpar ∉ render t) ↔ Flat t :=
  ⟨fun h => (lpar_notin_render_iff t).mp h.1,
   fun h => ⟨(lpar_notin_render_iff t).mpr h, rpar_notin_render_of_flat t h⟩⟩

/-- a `Flat` tree has no call, so it is in the parser's range -/
theorem Flat.wf : ∀ t : MTree, Flat t → WFTree t
  | .number _, _ => trivial
  | .var _, _ => trivial
  | .getitem _ _, _ => trivial
  | .call _ _, h => by simp [Flat] at h
  | .neg a, h => by simp only [Flat] at h; simp only [WFTree]; exact Flat.wf a h.2
  | .pos a, h => by simp only [Flat] at h; simp only [WFTree]; exact Flat.wf a h.2
  | .add l r, h => by simp only [Flat] at h; simp only [WFTree]; exact ⟨Flat.wf l h.1, Flat.wf r h.2.2⟩
  | .sub l r, h => by simp only [Flat] at h; simp only [WFTree]; exact ⟨Flat.wf l h.1, Flat.wf r h.2.2⟩
  | .mul l r, h => by simp only [Flat] at h; simp only [WFTree]; exact ⟨Flat.wf l h.1.2, Flat.wf r h.2.2⟩
  | .div l r, h => by simp only [Flat] at h; simp only [WFTree]; exact ⟨Flat.wf l h.1.2, Flat.wf r h.2.2⟩
  | .pow l r, h => by simp only [Flat] at h; simp only [WFTree]; exact ⟨Flat.wf l h.1.2, Flat.wf r h.2.2⟩

/-- a left-nested chain of one operator over flat atoms is flat: `a op b₁ op b₂ …` is printed
    without any parenthesis -/
theorem flat_leftNested (op : BinOp) (bs : List MTree) (hb : ∀ b ∈ bs, level b = 3 ∧ Flat b) :
    ∀ a : MTree, op.level ≤ level a → Flat a →
      Flat (bs.foldl op.mk a) ∧ op.level ≤ level (bs.foldl op.mk a) := by
  induction bs with
  | nil => intro a ha hf; exact ⟨hf, ha⟩
  | cons b bs ih =>
    intro a ha hf
    obtain ⟨hb3, hbf⟩ := hb b (by simp)
    refine ih (fun b' hm => hb b' (by simp [hm])) (op.mk a b) (by rw [level_mk]; exact Nat.le_refl _) ?_
    cases op <;> simp_all [BinOp.mk, BinOp.level, Flat]

/-! ### examples -/

section Examples
private abbrev va : MTree := .var "a"
private abbrev vb : MTree := .var "b"
private abbrev vc : MTree := .var "c"

/-- `(a - b) - c` needs no parentheses, `a - (b - c)` needs them on the right -/
example : render (.sub (.sub va vb) vc) = [.name "a", .minus, .name "b", .minus, .name "c"] := rfl
example : render (.sub va (.sub vb vc))
    = [.name "a", .minus, .lpar, .name "b", .minus, .name "c", .rpar] := rfl
/-- `2^(3^2)` needs them, `(2^3)^2` does not -/
example : render (.pow (.number "2") (.pow (.number "3") (.number "2")))
    = [.num "2", .pow, .lpar, .num "3", .pow, .num "2", .rpar] := rfl
example : render (.pow (.pow (.number "2") (.number "3")) (.number "2"))
    = [.num "2", .pow, .num "3", .pow, .num "2"] := rfl
/-- `(a + b) * c` against `a + b * c` -/
example : render (.mul (.add va vb) vc) = [.lpar, .name "a", .plus, .name "b", .rpar, .star, .name "c"] := rfl
example : render (.add va (.mul vb vc)) = [.name "a", .plus, .name "b", .star, .name "c"] := rfl
/-- THE surprise of this grammar: the bare text `-a^2` is the rendering of `(-a)^2`; `-(a^2)` needs
    parentheses (in Python and in ordinary notation it is the other way round) -/
example : render (.pow (.neg va) (.number "2")) = [.minus, .name "a", .pow, .num "2"] := rfl
example : render (.neg (.pow va (.number "2")))
    = [.minus, .lpar, .name "a", .pow, .num "2", .rpar] := rfl
/-- `a^-b`, `a*-b`, `--a` need none -/
example : render (.pow va (.neg vb)) = [.name "a", .pow, .minus, .name "b"] := rfl
example : render (.mul va (.neg vb)) = [.name "a", .star, .minus, .name "b"] := rfl
example : render (.neg (.neg va)) = [.minus, .minus, .name "a"] := rfl
/-- call arguments are sums: `f(a+1, el->k, g(x))^2` -/
example : render (.pow (.call "f" [.add va (.number "1"), .getitem "el" "k", .call "g" [.var "x"]]) (.number "2"))
    = [.name "f", .lpar, .name "a", .plus, .num "1", .comma, .name "el", .arrow, .name "k", .comma,
       .name "g", .lpar, .name "x", .rpar, .rpar, .pow, .num "2"] := rfl

/-- the round-trip theorem on a tree with every constructor, hypotheses discharged -/
example : parse (render (.sub (.div (.pos va) (.pow (.neg (.mul vb vc)) (.number "2")))
      (.call "f" [.add va (.number "1"), .getitem "el" "k"])))
    = some (.sub (.div (.pos va) (.pow (.neg (.mul vb vc)) (.number "2")))
      (.call "f" [.add va (.number "1"), .getitem "el" "k"])) :=
  parse_render _ (by simp [WFTree, WFArgs])
example : render (.sub (.div (.pos va) (.pow (.neg (.mul vb vc)) (.number "2")))
      (.call "f" [.add va (.number "1"), .getitem "el" "k"]))
    = [.plus, .name "a", .slash, .minus, .lpar, .name "b", .star, .name "c", .rpar, .pow, .num "2", .minus,
       .name "f", .lpar, .name "a", .plus, .num "1", .comma, .name "el", .arrow, .name "k", .rpar] := rfl

/-- left associativity with a call, a parenthesised sum and an attribute as operands:
    `f(x) - (a + b) + el->k` is `(f(x) - (a + b)) + el->k` -/
example : parse ([.name "f", .lpar, .name "x", .rpar] ++ Tok.minus ::
      ([.lpar, .name "a", .plus, .name "b", .rpar] ++ Tok.plus :: [.name "el", .arrow, .name "k"]))
    = some (.add (.sub (.call "f" [.var "x"]) (.add va vb)) (.getitem "el" "k")) :=
  parse_left_assoc .sub .add rfl
    (wa := render (.call "f" [.var "x"])) (wb := wrapAt 1 (.add va vb)) (wc := render (.getitem "el" "k"))
    (readsAt_render_of_le (.call "f" [.var "x"]) (by simp [WFTree, WFArgs]) (Nat.zero_le _))
    (readsAt_wrapAt (.add va vb) (by simp [WFTree]) 1)
    (readsAt_render_of_le (.getitem "el" "k") trivial (by simp [level, BinOp.level]))

/-- precedence: `a + b * c`, `a * b ^ c`, `a ^ b * c` -/
example : parse [.name "a", .plus, .name "b", .star, .name "c"] = some (.add va (.mul vb vc)) :=
  parse_render_prec_right .add .mul (by decide) va vb vc trivial trivial trivial
    (by decide) (by decide) (by decide)
example : parse [.name "a", .star, .name "b", .pow, .name "c"] = some (.mul va (.pow vb vc)) :=
  parse_render_prec_right .mul .pow (by decide) va vb vc trivial trivial trivial
    (by decide) (by decide) (by decide)
example : parse [.name "a", .pow, .name "b", .star, .name "c"] = some (.mul (.pow va vb) vc) :=
  parse_render_prec_left .mul .pow (by decide) va vb vc trivial trivial trivial
    (by decide) (by decide) (by decide)

/-- unary minus: `-a^b` is `(-a)^b`, `a^-b` is `a^(-b)`, `a^-b^c` is `(a^(-b))^c` -/
example : parse [.minus, .name "a", .pow, .name "b"] = some (.pow (.neg va) vb) :=
  parse_neg_pow (readsAtom_var "a") (readsAtom_var "b")
example : parse [.name "a", .pow, .minus, .name "b"] = some (.pow va (.neg vb)) :=
  parse_pow_neg (readsAtom_var "a").power (readsAtom_var "b")
example : parse [.name "a", .pow, .minus, .name "b", .pow, .name "c"]
    = some (.pow (.pow va (.neg vb)) vc) :=
  parse_left_assoc .pow .pow rfl (wa := [.name "a"]) (wb := [.minus, .name "b"]) (wc := [.name "c"])
    (readsAtom_var "a").power (readsAtom_var "b").neg (readsAtom_var "c")

/-- the table on `a / b * c` (same level: left) and `a ^ b - c` (looser on the right: left) -/
example : parse [.name "a", .slash, .name "b", .star, .name "c"] = some (.mul (.div va vb) vc) :=
  parse_two_ops .div .mul (readsAtom_var "a") (readsAtom_var "b") (readsAtom_var "c")
example : parse [.name "a", .pow, .name "b", .minus, .name "c"] = some (.sub (.pow va vb) vc) :=
  parse_two_ops .pow .sub (readsAtom_var "a") (readsAtom_var "b") (readsAtom_var "c")
/-- operands may be any fully parenthesised trees: `(a+b) - (b*c) - (-c)` -/
example : parse (fullParen (.add va vb) ++ Tok.minus :: (fullParen (.mul vb vc) ++ Tok.minus :: fullParen (.neg vc)))
    = some (.sub (.sub (.add va vb) (.mul vb vc)) (.neg vc)) :=
  parse_two_ops .sub .sub (readsAtom_fullParen _ (by simp [WFTree])) (readsAtom_fullParen _ (by simp [WFTree]))
    (readsAtom_fullParen _ (by simp [WFTree]))

/-- a chain: `a - b + c - 2` -/
example : parse [.name "a", .minus, .name "b", .plus, .name "c", .minus, .num "2"]
    = some (.sub (.add (.sub va vb) vc) (.number "2")) :=
  parse_chain 0 [(.sub, [.name "b"], vb), (.add, [.name "c"], vc), (.sub, [.num "2"], .number "2")]
    (by
      intro it hm
      simp only [List.mem_cons, List.not_mem_nil, or_false] at hm
      rcases hm with rfl | rfl | rfl
      · exact ⟨rfl, (readsAtom_var "b").power.product⟩
      · exact ⟨rfl, (readsAtom_var "c").power.product⟩
      · exact ⟨rfl, (readsAtom_number "2").power.product⟩)
    (wa := [.name "a"]) (readsAtom_var "a").power.product.sum

/-- no parentheses: `Flat` holds for `a - b * c ^ -2 + el->k`, and fails for `a - (b - c)` -/
example : Flat (.add (.sub va (.mul vb (.pow vc (.neg (.number "2"))))) (.getitem "el" "k")) := by
  simp [Flat, level]
example : ¬ Flat (.sub va (.sub vb vc)) := by simp [Flat, level]
example : Tok.lpar ∉ render (.add (.sub va (.mul vb (.pow vc (.neg (.number "2"))))) (.getitem "el" "k")) :=
  ((render_noParen_iff _).mpr (by simp [Flat, level])).1

#guard render (.sub va (.sub vb vc)) == [.name "a", .minus, .lpar, .name "b", .minus, .name "c", .rpar]
#guard render (.neg (.pow va (.number "2"))) == [.minus, .lpar, .name "a", .pow, .num "2", .rpar]
#guard render (.pow (.neg va) (.number "2")) == [.minus, .name "a", .pow, .num "2"]
#guard (render (.sub (.sub va vb) vc)).length < (fullParen (.sub (.sub va vb) vc)).length
end Examples

#print axioms readsAt_wrapAt
#print axioms parse_render
#print axioms parseSum_render
#print axioms render_injective
#print axioms parse_left_assoc
#print axioms parse_prec_right
#print axioms parse_prec_left
#print axioms parse_chain
#print axioms parse_left_of_le
#print axioms parse_two_ops
#print axioms parse_neg_binop
#print axioms parse_binop_neg
#print axioms parse_neg_pow
#print axioms parse_pow_neg
#print axioms parse_render_left_assoc
#print axioms parse_render_prec_right
#print axioms parse_render_prec_left
#print axioms render_noParen_iff
#print axioms flat_leftNested

end Madx
