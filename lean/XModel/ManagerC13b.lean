import XModel.ManagerC13
import XModel.StoreComm
import XModel.ManagerBisim
import XModel.ManagerC13Fn
/-!
# C13, completion: the manager's sequence of assignments completes ⇒ the generated function completes

`execGen_equiv_assignAll` (ManagerC13.lean) assumes that BOTH runs complete.  The two assumptions are not symmetric:

* `assignAll_completes_execGen` — if the manager's sequence of assignments `ref_i._owner[key_i] = value_i`
  completes, then the generated function completes too, and ends with the same container tree, definitions and
  indices.  (The generated function evaluates every triggered expression exactly once, on the FINAL argument values;
  every read it makes has the value it has in the manager's final state, where — C01 — every definition evaluates
  without error.)
* `converse_fails` — the converse is false.  The manager re-evaluates the triggered expressions after EACH
  assignment, i.e. also on intermediate argument vectors the generated function never sees; one of those can raise.
  Witness: `c = a + b`, `b` holds `2^1024`, arguments `(a := NaN, b := 1)`: after the first assignment the manager
  evaluates `NaN + 2^1024` → `OverflowError` (Python: `int too large to convert to float`); the generated function
  only evaluates `NaN + 1`.
-/
namespace Manager
open Store Push Index

/-- a container write through a ref succeeds when the underlying `set` does and no fault is injected -/
theorem c13b_writeRef_ok (s : MState) (p : Path) (v : Val) (hnf : s.faultIn = none) (σ' : Val)
    (h : set s.store p v = .ok σ') : ∃ s', writeRef s p v = (s', none) := by
  unfold writeRef
  simp only [h, hnf]
  exact ⟨_, rfl⟩

/-- the plain argument assignments of the generated function complete on existing, pairwise incomparable locations -/
theorem c13b_assign_completes : ∀ (args : List (Path × Val)) (s : MState), s.faultIn = none →
    (∀ a ∈ args, a.1 ≠ [] ∧ canonPath a.1) → (args.map (·.1)).Nodup →
    (∀ a ∈ args, ∀ b ∈ args, a.1 ≠ b.1 → Incomparable a.1 b.1) →
    (∀ a ∈ args, ∃ x, get s.store a.1 = .ok x) → ∃ s1, execGen.assign s args = (s1, none)
  | [], s, _, _, _, _, _ => ⟨s, rfl⟩
  | (p, v) :: rest, s, hnf, hok, hnd, hinc, hex => by
    have hpm : (p, v) ∈ (p, v) :: rest := List.mem_cons_self ..
    obtain ⟨x, hx⟩ := hex (p, v) hpm
    obtain ⟨σ1, hset⟩ := set_ok_of_get p s.store x v (hok (p, v) hpm).1 hx
    obtain ⟨sw, hw⟩ := c13b_writeRef_ok s p v hnf σ1 hset
    obtain ⟨hset', hnfw, _, _, _⟩ := writeRef_nofault s p v hnf sw hw
    have hn : p ∉ rest.map (·.1) ∧ (rest.map (·.1)).Nodup := by simpa using hnd
    obtain ⟨s1, h1⟩ := c13b_assign_completes rest sw hnfw (fun a ha => hok a (List.mem_cons_of_mem _ ha)) hn.2
      (fun a ha b hb => hinc a (List.mem_cons_of_mem _ ha) b (List.mem_cons_of_mem _ hb))
      (by
        intro a ha
        obtain ⟨y, hy⟩ := hex a (List.mem_cons_of_mem _ ha)
        have hne : p ≠ a.1 := fun e => hn.1 (e ▸ List.mem_map_of_mem ha)
        refine ⟨y, ?_⟩
        rw [get_set_incomparable hset' (hinc (p, v) hpm a (List.mem_cons_of_mem _ ha) hne) (hok (p, v) hpm).2
          (hok a (List.mem_cons_of_mem _ ha)).2]
        exact hy)
    exact ⟨s1, by simp only [execGen.assign, hw]; exact h1⟩

/-- every listed id names a registered task ⇒ the look-ups of `run_tasks` succeed -/
theorem c13b_mapM_lookTask_ok (defs : List MTask) : ∀ (π : List Path), (∀ x ∈ π, x ∈ defs.map (·.id)) →
    ∃ l, π.mapM (lookTask defs) = .ok l
  | [], _ => ⟨[], rfl⟩
  | x :: π, h => by
    obtain ⟨l, hl⟩ := c13b_mapM_lookTask_ok defs π (fun y hy => h y (List.mem_cons_of_mem _ hy))
    obtain ⟨t, ht, hte⟩ := List.mem_map.mp (h x (List.mem_cons_self ..))
    have : ∃ t', lookDef defs x = some t' := by
      cases hx : lookDef defs x with
      | some t' => exact ⟨t', rfl⟩
      | none =>
        unfold lookDef at hx
        have := List.find?_eq_none.mp hx t ht
        simp [hte] at this
    obtain ⟨t', ht'⟩ := this
    refine ⟨t' :: l, ?_⟩
    simp only [List.mapM_cons, lookTask, ht', hl, bind, Except.bind, pure, Except.pure]

/-- every reachable id of the declared graph is a registered task -/
theorem c13b_reach_defs (s : MState) (hi : MInv s) (startDeps : List Path) (x : Path)
    (hx : ∃ s0 ∈ startOf s.idx startDeps, Dfs3.Reach (gOf s.idx) s0 x) : x ∈ s.defs.map (·.id) := by
  obtain ⟨s0, hs0, hr⟩ := hx
  have : ∀ {a b}, Dfs3.Reach (gOf s.idx) a b → a ∈ s.defs.map (·.id) → b ∈ s.defs.map (·.id) := by
    intro a b r
    induction r with
    | refl => exact id
    | step hab' _ ih => intro _; exact ih (gOf_closed s hi _ _ hab')
  exact this hr (startOf_sub s hi startDeps _ hs0)

/-- **C13, completion (the direction that holds)**: under the scope / consistency / legal-schedule hypotheses of
    `execGen_equiv_assignAll`, if the manager's sequence of assignments completes then the generated function
    completes, with the same container tree, definitions and indices. -/
theorem assignAll_completes_execGen (schedG schedS : Sched) (s : MState) (args : List (Path × Val)) (hi : MInv s)
    (hc : Consistent s) (gs : GenScope s args)
    (hvsG : ValidSched (gOf s.idx) (findTaskids s.idx (argDeps args)) (schedG (findTaskids s.idx (argDeps args))))
    (hvsS : ∀ a ∈ args, ValidSched (gOf s.idx) (findTaskids s.idx (chainR a.1)) (schedS (findTaskids s.idx (chainR a.1))))
    (sS : MState) (hS : assignAll schedS s args = (sS, none)) :
    ∃ sG, execGen schedG s args = (sG, none) ∧ sG.store = sS.store ∧ sG.defs = sS.defs ∧ sG.idx = sS.idx := by
  obtain ⟨_, hmem, _⟩ := findTaskids_spec s hi (argDeps args) gs.acyclic
  -- the argument assignments complete
  obtain ⟨s1, hassign⟩ := c13b_assign_completes args s gs.nofault
    (fun a ha => ⟨by intro e; have := (gs.argsOK a ha).1; rw [e] at this; simp at this, (gs.argsOK a ha).2⟩)
    gs.argsNodup gs.argsInc gs.argsExist
  obtain ⟨hreach1, hnf1, hd1, hi1, _⟩ := assign_spec args s s1 gs.nofault hassign
  have hvals1 := assign_values args s s1 gs.nofault (fun a ha => (gs.argsOK a ha).2) gs.argsNodup gs.argsInc hassign
  -- the listing names registered tasks
  generalize hT : schedG (findTaskids s.idx (argDeps args)) = T at hvsG
  have memT : ∀ x, x ∈ T ↔ ∃ s0 ∈ startOf s.idx (argDeps args), Dfs3.Reach (gOf s.idx) s0 x :=
    fun x => (hvsG.mem x).trans (hmem x)
  obtain ⟨l, hm⟩ := c13b_mapM_lookTask_ok s.defs T (fun x hx => c13b_reach_defs s hi (argDeps args) x ((memT x).mp hx))
  obtain ⟨hlmap, hlsub⟩ := mapM_lookDef s.defs _ (lookTask_ok s.defs) _ l hm
  -- the manager's final state
  have hinvS := assignAll_facts schedS s args T gs (fun x hx => (memT x).mpr hx) hvsS args [] s sS
    (fun _ h => h) (by intro a h; cases h) (by intro a _ b hb; cases hb) gs.argsNodup
    { inv := hi, cons := hc, defs := rfl, idx := rfl, nofault := gs.nofault, reach := Reach.refl
      vals := by intro a h; cases h } hS
  simp only [List.nil_append] at hinvS
  have hTdefs : ∀ w ∈ T, ∃ t ∈ l, t.id = w := by
    intro w hw
    have : w ∈ l.map (·.id) := by rw [hlmap]; exact hw
    obtain ⟨t, ht, hte⟩ := List.mem_map.mp this
    exact ⟨t, ht, hte⟩
  have hsubW : ∀ w ∈ args.map (·.1) ++ T, w ∈ famW s args := by
    intro w hw
    unfold famW
    rcases List.mem_append.mp hw with h | h
    · exact List.mem_append.mpr (Or.inl h)
    · obtain ⟨t, ht, rfl⟩ := hTdefs w h
      exact List.mem_append.mpr (Or.inr (List.mem_map_of_mem (hlsub t ht)))
  have hW := famW_family s args hi gs
  have hexW := famW_exist s args hc gs
  have frameU : ∀ (σ : Val), Reach (args.map (·.1) ++ T) s.store σ → ∀ q, canonPath q →
      (∀ a ∈ args, Incomparable a.1 q) → (∀ t ∈ l, Incomparable t.id q) → get σ q = get s.store q := by
    intro σ hr q hq ha ht
    refine hr.frame q hq ?_
    intro w hw
    rcases List.mem_append.mp hw with h | h
    · obtain ⟨a, haa, rfl⟩ := List.mem_map.mp h
      exact ⟨(gs.argsOK a haa).2, ha a haa⟩
    · obtain ⟨t, htl, rfl⟩ := hTdefs w h
      exact ⟨(gs.paths t (hlsub t htl)).1.2, ht t htl⟩
  have untrig : ∀ (σ : Val), Reach (args.map (·.1) ++ T) s.store σ → ∀ u ∈ s.defs, u.id ∉ T →
      get σ u.id = get s.store u.id := by
    intro σ hr u hu hnot
    refine frameU σ hr u.id (gs.paths u hu).1.2 (fun a ha => gs.argsFree a ha u hu) ?_
    intro t ht
    have hne : u.id ≠ t.id := fun e => hnot (by rw [e, ← hlmap]; exact List.mem_map_of_mem ht)
    exact gs.h2 u hu t (hlsub t ht) hne
  -- the tasks of the listing complete one after the other: every read has the value it has in the manager's
  -- final state
  have core : ∀ (post pre : List MTask) (σ : MState), l = pre ++ post → σ.faultIn = none →
      Reach (args.map (·.1) ++ T) s.store σ.store → (∀ a ∈ args, get σ.store a.1 = .ok a.2) →
      (∀ u ∈ pre, get σ.store u.id = get sS.store u.id) → ∃ s', runTasks σ post = (s', none) := by
    intro post
    induction post with
    | nil => intro pre σ _ _ _ _ _; exact ⟨σ, rfl⟩
    | cons t post ih =>
      intro pre σ hsplit hnf hreach hvals hpre
      have htl : t ∈ l := by rw [hsplit]; simp
      have ht := hlsub t htl
      obtain ⟨hpt, hpr⟩ := gs.paths t ht
      obtain ⟨e, hk, _⟩ := gs.exprs t ht
      have hTsplit : T = pre.map (·.id) ++ t.id :: post.map (·.id) := by
        rw [← hlmap, hsplit]; simp
      have htT : t.id ∈ T := by rw [← hlmap]; exact List.mem_map_of_mem htl
      have hreads : ∀ r ∈ leafRefs (toE t).expr, get σ.store r = get sS.store r := by
        intro r hr
        by_cases hex : ∃ w, ((∃ a ∈ args, w = a.1) ∨ ∃ u ∈ s.defs, w = u.id) ∧ ∃ q, r = w ++ q
        · obtain ⟨w, hw, q, rfl⟩ := hex
          rcases hw with ⟨a, ha, rfl⟩ | ⟨u, hu, rfl⟩
          · rw [Unique.get_append, Unique.get_append, hvals a ha, hinvS.vals a ha]
          · by_cases huT : u.id ∈ T
            · have hune : u.id ≠ [] := by
                intro e; have := (gs.paths u hu).1.1; rw [e] at this; simp at this
              have hcmp : ¬ Incomparable u.id (u.id ++ q) := not_incomparable_append u.id q hune
              have hedge := edge_of_read s hi gs.exprs u t hu ht (gs.paths u hu).1.1 _ hr (hpr _ hr).1 hcmp
              have hne : t.id ≠ u.id := by
                intro e
                have := gs.h3 t ht _ hr
                rw [e] at this
                exact hcmp this
              have hbef := hvsG.order u.id t.id huT htT hedge hne
              have hin := mem_prefix_of_before hvsG.nodup hbef hTsplit
              obtain ⟨u', hu', hue⟩ := List.mem_map.mp hin
              rw [Unique.get_append, Unique.get_append, ← hue, hpre u' hu']
            · rw [Unique.get_append, Unique.get_append, untrig σ.store hreach u hu huT,
                untrig sS.store hinvS.reach u hu huT]
        · have hinc : ∀ w, ((∃ a ∈ args, w = a.1) ∨ ∃ u ∈ s.defs, w = u.id) → Incomparable w r := by
            intro w hw
            rcases gs.leaf t ht r hr w hw with h | ⟨q, hq⟩
            · exact h
            · exact absurd ⟨w, hw, q, hq⟩ hex
          rw [frameU σ.store hreach r (hpr r hr).2 (fun a ha => hinc a.1 (Or.inl ⟨a, ha, rfl⟩))
                (fun u hu => hinc u.id (Or.inr ⟨u, hlsub u hu, rfl⟩)),
              frameU sS.store hinvS.reach r (hpr r hr).2 (fun a ha => hinc a.1 (Or.inl ⟨a, ha, rfl⟩))
                (fun u hu => hinc u.id (Or.inr ⟨u, hlsub u hu, rfl⟩))]
      -- the expression evaluates as in the manager's final state, where the definition holds
      obtain ⟨w, hevS, hgetS⟩ := hinvS.cons t (by rw [hinvS.defs]; exact ht)
      have hev : eval pySem σ.store (toE t).expr = .ok w := by
        rw [← hevS]; exact eval_frame pySem _ _ _ hreads
      have hevE : evalE σ e = .ok w := by
        have : (toE t).expr = e := by simp [toE, hk]
        rw [← this]; exact hev
      -- the target exists, so the write succeeds
      have hfam : t.id ∈ famW s args := hsubW _ (List.mem_append.mpr (Or.inr htT))
      obtain ⟨x, hx⟩ := (hreach.mono hsubW).allExist hW hexW t.id hfam
      obtain ⟨σ1, hset⟩ := set_ok_of_get t.id σ.store x w (famW_ne_nil s args gs t.id hfam) hx
      obtain ⟨sw, hw⟩ := c13b_writeRef_ok σ t.id w hnf σ1 hset
      obtain ⟨hset', hnfw, _, _, _⟩ := writeRef_nofault σ t.id w hnf sw hw
      have hrt : runTask σ t = (sw, none) := by
        simp only [runTask, hk, hevE]; exact hw
      have hstep := ih (pre ++ [t]) sw (by rw [hsplit]; simp) hnfw
        (Reach.step hreach (List.mem_append.mpr (Or.inr htT)) hset')
        (by
          intro a ha
          rw [get_set_incomparable hset' (incomparable_symm' (gs.argsFree a ha t ht)) hpt.2 (gs.argsOK a ha).2]
          exact hvals a ha)
        (by
          intro u hu
          rcases List.mem_append.mp hu with hu | hu
          · have hul : u ∈ l := by rw [hsplit]; exact List.mem_append.mpr (Or.inl hu)
            have hne : t.id ≠ u.id := by
              intro e
              have hnd := hvsG.nodup
              rw [hTsplit] at hnd
              have h1 : u.id ∈ pre.map (·.id) := List.mem_map_of_mem hu
              have := (List.nodup_append.mp hnd).2.2 u.id h1 t.id (List.mem_cons_self ..)
              exact this e.symm
            rw [get_set_incomparable hset' (gs.h2 u (hlsub u hul) t ht (fun e => hne e.symm)) hpt.2
              (gs.paths u (hlsub u hul)).1.2]
            exact hpre u hu
          · simp only [List.mem_singleton] at hu
            subst hu
            rw [get_set_same hset']; exact hgetS.symm)
      obtain ⟨s', hs'⟩ := hstep
      exact ⟨s', by simp only [runTasks, hrt]; exact hs'⟩
  obtain ⟨sG, hrun⟩ := core l [] s1 rfl hnf1
    (hreach1.mono (fun w hw => List.mem_append.mpr (Or.inl hw))) hvals1 (by intro u hu; cases hu)
  have hG : execGen schedG s args = (sG, none) := by
    unfold execGen
    simp only [hassign, hi1, hd1]
    show (match (schedG (findTaskids s.idx (argDeps args))).mapM (lookTask s.defs) with
      | .error x => (s1, some x) | .ok l => runTasks s1 l) = (sG, none)
    rw [hT, hm]
    exact hrun
  exact ⟨sG, hG, execGen_equiv_assignAll schedG schedS s args hi hc gs (by rw [hT]; exact hvsG) hvsS sG hG sS hS⟩

/-- the acyclicity conjunct of the decidable scope test -/
theorem genScopeB_acyclic (s : MState) (args : List (Path × Val)) (h : genScopeB s args = true) :
    acyclicFrom s.idx (startOf s.idx (argDeps args)) = true := by
  unfold genScopeB at h
  simp only [Bool.and_eq_true] at h
  exact h.1.1.1.1.2

/-- `assignAll_completes_execGen` with every hypothesis other than the completion of the manager's run a Boolean
    test (`genScopeB`, `consistentB`, `validSchedule`, `argSchedsB`) -/
theorem assignAll_completes_execGen_decided (schedG schedS : Sched) (s : MState) (args : List (Path × Val))
    (hi : MInv s) (hsc : genScopeB s args = true) (hc : consistentB s = true)
    (hvG : validSchedule s.idx (argDeps args) (schedG (findTaskids s.idx (argDeps args))) = true)
    (hvS : argSchedsB schedS s args = true)
    (sS : MState) (hS : assignAll schedS s args = (sS, none)) :
    ∃ sG, execGen schedG s args = (sG, none) ∧ sG.store = sS.store ∧ sG.defs = sS.defs ∧ sG.idx = sS.idx :=
  assignAll_completes_execGen schedG schedS s args hi (consistentB_sound s hc) (genScopeB_sound s hi args hsc)
    (validSchedule_sound s.idx (argDeps args) _ hvG (genScopeB_acyclic s args hsc))
    (argSchedsB_sound schedS s args hvS) sS hS

/-! ### the converse fails -/

theorem res_eq_of_snd {r : Res} {x : Option Err} (h : r.2 = x) : r = (r.1, x) := by
  cases r; cases h; rfl

def isNanAt (s : MState) (p : Path) : Bool :=
  match get s.store p with | .ok .nan => true | _ => false

theorem isNanAt_sound {s : MState} {p : Path} (h : isNanAt s p = true) : get s.store p = .ok .nan := by
  unfold isNanAt at h
  split at h
  · assumption
  · cases h

namespace C13bWitness

def da : Path := [.item (.str "d"), .item (.str "a")]
def db : Path := [.item (.str "d"), .item (.str "b")]
def dc : Path := [.item (.str "d"), .item (.str "c")]
def de : Path := [.item (.str "d"), .item (.str "e")]
/-- `d = {a: 1, b: 2, c: None, e: None}` -/
def s0 : MState :=
  { MState.init with store := .dict [(.str "d", .dict [(.str "a", .int 1), (.str "b", .int 2), (.str "c", .none), (.str "e", .none)])] }
/-- `c = a + b`, `e = c * a` (the state `base` of `Properties.C13`'s example section) -/
def defsHist : List Call := [.setExpr dc (.bin "Add" (.ref da) (.ref db)), .setExpr de (.bin "Mul" (.ref dc) (.ref da))]
def base : MState := applyAll id s0 defsHist
/-- `b` holds an int beyond the float range -/
def big : Int := Int.ofNat (2 ^ 1024)
def base2 : MState := (setValue id base db (.int big)).1
/-- the arguments of the generated function: `a := NaN`, `b := 1` -/
def args2 : List (Path × Val) := [(da, .nan), (db, .int 1)]

theorem s0_inv : MInv s0 := MInv_of_sameGraph (s := MState.init) ⟨rfl, rfl, rfl⟩ MInv.init
theorem base_inv : MInv base := applyAll_MInv id defsHist s0 s0_inv (by simp [defsHist, WFHist, WFCall])
theorem base2_inv : MInv base2 := setValue_MInv id base db (.int big) base_inv

/-- the four decidable tests, and what the two procedures do -/
theorem tests : genScopeB base2 args2 = true ∧ consistentB base2 = true ∧
    validSchedule base2.idx (argDeps args2) (findTaskids base2.idx (argDeps args2)) = true ∧
    args2.all (fun a => validSchedule base2.idx (chainR a.1) (findTaskids base2.idx (chainR a.1))) = true ∧
    acyclicFrom base2.idx (startOf base2.idx (argDeps args2)) = true ∧
    args2.all (fun a => acyclicFrom base2.idx (startOf base2.idx (chainR a.1))) = true := by
  decide +kernel

/-- the generated function completes: `a = NaN, b = 1, c = NaN, e = NaN` -/
theorem gen_completes : (execGen id base2 args2).2 = none ∧
    get (execGen id base2 args2).1.store dc = .ok .nan ∧ get (execGen id base2 args2).1.store de = .ok .nan := by
  have h : (execGen id base2 args2).2 = none ∧ isNanAt (execGen id base2 args2).1 dc = true ∧
      isNanAt (execGen id base2 args2).1 de = true := by decide +kernel
  exact ⟨h.1, isNanAt_sound h.2.1, isNanAt_sound h.2.2⟩

/-- the manager raises at the first assignment: `c = a + b` is evaluated with `a = NaN`, `b = 2^1024` -/
theorem manager_raises : (assignAll id base2 args2).2 = some .overflow ∧
    (setValue id base2 da .nan).2 = some .overflow := by
  decide +kernel

end C13bWitness

open C13bWitness in
/-- **the converse of `assignAll_completes_execGen` is false**: a state and an argument list satisfying every
    hypothesis of `execGen_equiv_assignAll` other than completion, for which the generated function completes and
    the manager's sequence of assignments raises `OverflowError` (at an intermediate argument vector). -/
theorem converse_fails :
    MInv base2 ∧ Consistent base2 ∧ GenScope base2 args2 ∧
    ValidSched (gOf base2.idx) (findTaskids base2.idx (argDeps args2)) (id (findTaskids base2.idx (argDeps args2))) ∧
    (∀ a ∈ args2, ValidSched (gOf base2.idx) (findTaskids base2.idx (chainR a.1)) (id (findTaskids base2.idx (chainR a.1)))) ∧
    (∃ sG, execGen id base2 args2 = (sG, none)) ∧
    (∃ sS, assignAll id base2 args2 = (sS, some .overflow)) := by
  obtain ⟨h1, h2, h3, h4, h5, h6⟩ := tests
  refine ⟨base2_inv, consistentB_sound base2 h2, genScopeB_sound base2 base2_inv args2 h1,
    validSchedule_sound _ _ _ h3 h5, ?_, ?_, ?_⟩
  · intro a ha
    rw [List.all_eq_true] at h4 h6
    exact validSchedule_sound _ _ _ (h4 a ha) (h6 a ha)
  · exact ⟨_, res_eq_of_snd gen_completes.1⟩
  · exact ⟨_, res_eq_of_snd manager_raises.1⟩

/-- the same as a refutation of the universally quantified converse -/
theorem not_execGen_completes_assignAll :
    ¬ (∀ (schedG schedS : Sched) (s : MState) (args : List (Path × Val)), MInv s → Consistent s → GenScope s args →
      ValidSched (gOf s.idx) (findTaskids s.idx (argDeps args)) (schedG (findTaskids s.idx (argDeps args))) →
      (∀ a ∈ args, ValidSched (gOf s.idx) (findTaskids s.idx (chainR a.1)) (schedS (findTaskids s.idx (chainR a.1)))) →
      ∀ sG, execGen schedG s args = (sG, none) → ∃ sS, assignAll schedS s args = (sS, none)) := by
  intro h
  obtain ⟨hi, hc, gs, hG, hS, ⟨sG, hg⟩, ⟨sS, hs⟩⟩ := converse_fails
  obtain ⟨sS', hs'⟩ := h id id _ _ hi hc gs hG hS sG hg
  rw [hs] at hs'
  cases hs'

/-! non-vacuity of `assignAll_completes_execGen`: `c = a + b`, `e = c * a`, arguments `a := 5`, `b := 4`; every
    hypothesis holds, the manager's two assignments complete, hence so does the generated function (`e = 45`) -/
section example_
open C13bWitness
def C13bWitness.twoArgs : List (Path × Val) := [(da, .int 5), (db, .int 4)]

theorem C13bWitness.tests_pos : genScopeB base twoArgs = true ∧ consistentB base = true ∧
    validSchedule base.idx (argDeps twoArgs) (findTaskids base.idx (argDeps twoArgs)) = true ∧
    twoArgs.all (fun a => validSchedule base.idx (chainR a.1) (findTaskids base.idx (chainR a.1))) = true ∧
    acyclicFrom base.idx (startOf base.idx (argDeps twoArgs)) = true ∧
    twoArgs.all (fun a => acyclicFrom base.idx (startOf base.idx (chainR a.1))) = true ∧
    (assignAll id base twoArgs).2 = none := by
  decide +kernel

example : ∃ sG, execGen id base twoArgs = (sG, none) ∧ sG.store = (assignAll id base twoArgs).1.store ∧
    sG.defs = (assignAll id base twoArgs).1.defs ∧ sG.idx = (assignAll id base twoArgs).1.idx := by
  obtain ⟨h1, h2, h3, h4, h5, h6, h7⟩ := tests_pos
  rw [List.all_eq_true] at h4 h6
  exact assignAll_completes_execGen id id base twoArgs base_inv (consistentB_sound base h2)
    (genScopeB_sound base base_inv twoArgs h1) (validSchedule_sound _ _ _ h3 h5)
    (fun a ha => validSchedule_sound _ _ _ (h4 a ha) (h6 a ha)) _ (res_eq_of_snd h7)
end example_

end Manager
