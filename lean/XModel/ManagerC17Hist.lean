import XModel.ManagerC17b
/-!
# C17 over whole histories: `freeze_tree()` / `unfreeze_tree()` as events

`ManagerC17.lean` covers ONE bracket (a frozen copy of a state, a list of calls, one unfreeze).  Here the two flag
operations are events of the history like any call, in any number and in any order (redundant freezes, unfreeze on a
never-frozen manager, several brackets):

* `HEv` / `stepEv` / `runEvs` — the history, executed as the driver executes the protocol ops `freeze` / `unfreeze`
  (`Driver/Mgr.lean`: `Manager.setF true s` / `Manager.setF false s`, outcome "ok") and `Manager.apply` for calls;
* `runEvs_flag` — the FLAG LAW: the flag after a history is `flagAfter (initial flag) history`, i.e. frozen iff the last
  flag event was a freeze (`flagAfter_last_freeze`, `flagAfter_last_unfreeze`, `flagAfter_no_flag_event`): a Boolean,
  not a nesting counter;
* `runEvs_state` — the whole history ends, up to the flag, in the very state (equality of `MState`s) that the
  never-frozen manager reaches on `eff`, the calls of the history that were not dropped by the freeze;
* `runEvs_at` — position by position: a dropped call returned `ValueError` and changed nothing, a kept call returned
  what it returns on the never-frozen manager (which has received exactly the kept calls before it);
* `runEvs_outcomes` — the same for the list of outcomes;
* `after_last_unfreeze` — after a final unfreeze every further history runs exactly as on that never-frozen manager.

(The event type is called `HEv` because `Parse.Ev` already exists in the project.)

**Schedulers.**  No legality hypothesis (`ValidSched`) on the scheduler is needed.  What is used is that the SAME
function `sched : List Path → List Path` is applied on both sides: the frozen manager and its never-frozen shadow have
the same indices at every call, so `find_taskids` returns the same list to both and the same function of it is run.
-/
namespace Manager
open Store Push Index

/-! ### no call writes the flag -/

theorem register_keeps_flag (s : MState) (t : MTask) : (register s t).1.frozen = s.frozen := by
  unfold register
  split <;> rfl

theorem unregister_keeps_flag (s : MState) (id : Path) : (unregister s id).1.frozen = s.frozen := by
  unfold unregister
  split
  · rfl
  · split <;> rfl

theorem refresh_keeps_flag (s : MState) : (refresh s).1.frozen = s.frozen := by
  unfold refresh
  split <;> rfl

theorem setValue_keeps_flag (sched : Sched) (s : MState) (p : Path) (v : Val) :
    (setValue sched s p v).1.frozen = s.frozen := by
  unfold setValue
  cases hl : lookDef s.defs p with
  | none => exact (writeAndRun_graph sched s p v).2.2
  | some t =>
    simp only
    have hu := unregister_keeps_flag s p
    generalize unregister s p = r at hu
    obtain ⟨s0, x0⟩ := r
    cases x0 with
    | some x => exact hu
    | none => exact ((writeAndRun_graph sched s0 p v).2.2).trans hu

theorem setExpr_keeps_flag (sched : Sched) (s : MState) (p : Path) (e : Expr) :
    (setExpr sched s p e).1.frozen = s.frozen := by
  have tail : ∀ s0 : MState, s0.frozen = s.frozen →
      (match register s0 (mkExprTask p e) with
        | (s1, some x) => ((s1, some x) : Res)
        | (s1, none) =>
          match evalE s1 e with
          | .error x => (s1, some x)
          | .ok v => writeAndRun sched s1 p v).1.frozen = s.frozen := by
    intro s0 h0
    have hr := register_keeps_flag s0 (mkExprTask p e)
    generalize register s0 (mkExprTask p e) = r at hr
    obtain ⟨s1, x1⟩ := r
    cases x1 with
    | some x => exact hr.trans h0
    | none =>
      simp only
      cases evalE s1 e with
      | error x => exact hr.trans h0
      | ok v => exact ((writeAndRun_graph sched s1 p v).2.2).trans (hr.trans h0)
  unfold setExpr
  cases hl : lookDef s.defs p with
  | none => exact tail s rfl
  | some t =>
    simp only
    have hu := unregister_keeps_flag s p
    generalize unregister s p = r at hu
    obtain ⟨s0, x0⟩ := r
    cases x0 with
    | some x => exact hu
    | none => exact tail s0 hu

theorem inplace_keeps_flag (sched : Sched) (s : MState) (op : String) (p : Path) (operand : Expr) :
    (inplace sched s op p operand).1.frozen = s.frozen := by
  unfold inplace
  cases exprOf s p with
  | some e => exact setExpr_keeps_flag sched s p _
  | none =>
    simp only
    cases get s.store p with
    | error e => rfl
    | ok old =>
      simp only
      cases operand with
      | lit w =>
        simp only
        cases pyBinRaw op old w with
        | error e => rfl
        | ok v => exact setValue_keeps_flag sched s p v
      | ref q => exact setExpr_keeps_flag sched s p _
      | bin o l r => exact setExpr_keeps_flag sched s p _
      | un o a => exact setExpr_keeps_flag sched s p _

theorem load_keeps_flag (ow : Bool) : ∀ (pairs : List (Path × Expr)) (s : MState),
    (load s ow pairs).1.frozen = s.frozen
  | [], _ => rfl
  | (p, e) :: rest, s => by
    have reg : ∀ s0 : MState, s0.frozen = s.frozen →
        (match register s0 (mkExprTask p e) with
          | (s2, some x) => ((s2, some x) : Res)
          | (s2, none) => load s2 ow rest).1.frozen = s.frozen := by
      intro s0 h0
      have hr := register_keeps_flag s0 (mkExprTask p e)
      generalize register s0 (mkExprTask p e) = r at hr
      obtain ⟨s2, x2⟩ := r
      cases x2 with
      | some x => exact hr.trans h0
      | none => exact (load_keeps_flag ow rest s2).trans (hr.trans h0)
    simp only [load]
    cases lookDef s.defs p with
    | none => exact reg s rfl
    | some t =>
      simp only
      cases ow with
      | false => exact load_keeps_flag false rest s
      | true =>
        simp only [if_true]
        have hu := unregister_keeps_flag s p
        generalize unregister s p = r at hu
        obtain ⟨s1, x1⟩ := r
        cases x1 with
        | some x => exact hu
        | none => exact reg s1 hu

/-- **no call of the API writes the freeze flag**, whatever the state, the call and its outcome -/
theorem apply_keeps_flag (sched : Sched) (s : MState) (c : Call) : (apply sched s c).1.frozen = s.frozen := by
  cases c with
  | setValue p v => exact setValue_keeps_flag sched s p v
  | setExpr p e => exact setExpr_keeps_flag sched s p e
  | inplace op p operand => exact inplace_keeps_flag sched s op p operand
  | register t => exact register_keeps_flag s t
  | unregister id => exact unregister_keeps_flag s id
  | load ow pairs => exact load_keeps_flag ow pairs s
  | refresh => exact refresh_keeps_flag s
  | cleanup => rfl
  | verify => exact (verify_defs s).2.2

theorem applyAll_keeps_flag (sched : Sched) : ∀ (cs : List Call) (s : MState),
    (applyAll sched s cs).frozen = s.frozen
  | [], _ => rfl
  | c :: cs, s => (applyAll_keeps_flag sched cs _).trans (apply_keeps_flag sched s c)

/-! ### histories with flag events -/

/-- an event of a history: an API call, `freeze_tree()`, `unfreeze_tree()` -/
inductive HEv where
  | call (c : Call)
  | freeze
  | unfreeze

/-- one event, as the driver executes it (`Driver/Mgr.lean`, ops `freeze` / `unfreeze`: `Manager.setF true s` /
    `Manager.setF false s`, never an exception; every other op: the model's function, here through `apply`) -/
def stepEv (sched : Sched) (s : MState) : HEv → Res
  | .call c => apply sched s c
  | .freeze => (setF true s, none)
  | .unfreeze => (setF false s, none)

/-- a history: the events one after the other whatever their outcome; final state and the list of outcomes -/
def runEvs (sched : Sched) : MState → List HEv → MState × List (Option Err)
  | s, [] => (s, [])
  | s, e :: es =>
    ((runEvs sched (stepEv sched s e).1 es).1, (stepEv sched s e).2 :: (runEvs sched (stepEv sched s e).1 es).2)

/-- the flag a Boolean freeze flag holds after a history that started with flag `b` -/
def flagAfter : Bool → List HEv → Bool
  | b, [] => b
  | b, .call _ :: es => flagAfter b es
  | _, .freeze :: es => flagAfter true es
  | _, .unfreeze :: es => flagAfter false es

/-- the last flag event of a history (`some true` = a freeze, `some false` = an unfreeze, `none` = no flag event) -/
def lastFlag : List HEv → Option Bool
  | [] => none
  | .call _ :: es => lastFlag es
  | .freeze :: es => some ((lastFlag es).getD true)
  | .unfreeze :: es => some ((lastFlag es).getD false)

theorem flagAfter_eq_lastFlag : ∀ (evs : List HEv) (b : Bool), flagAfter b evs = (lastFlag evs).getD b
  | [], _ => rfl
  | .call _ :: es, b => flagAfter_eq_lastFlag es b
  | .freeze :: es, _ => flagAfter_eq_lastFlag es true
  | .unfreeze :: es, _ => flagAfter_eq_lastFlag es false

theorem flagAfter_append : ∀ (a b : List HEv) (f : Bool), flagAfter f (a ++ b) = flagAfter (flagAfter f a) b
  | [], _, _ => rfl
  | .call _ :: es, b, f => flagAfter_append es b f
  | .freeze :: es, b, _ => flagAfter_append es b true
  | .unfreeze :: es, b, _ => flagAfter_append es b false

theorem flagAfter_calls : ∀ (cs : List Call) (f : Bool), flagAfter f (cs.map HEv.call) = f
  | [], _ => rfl
  | _ :: cs, f => flagAfter_calls cs f

/-- no flag event at all: the flag is the initial one -/
theorem flagAfter_no_flag_event (f : Bool) (cs : List Call) : flagAfter f (cs.map HEv.call) = f :=
  flagAfter_calls cs f

/-- the last flag event is a freeze (anything before it, only calls after it): frozen — however many freezes and
    unfreezes came before, balanced or not -/
theorem flagAfter_last_freeze (f : Bool) (pre : List HEv) (cs : List Call) :
    flagAfter f (pre ++ HEv.freeze :: cs.map HEv.call) = true := by
  rw [flagAfter_append]; exact flagAfter_calls cs true

/-- the last flag event is an unfreeze: not frozen — however many freezes came before -/
theorem flagAfter_last_unfreeze (f : Bool) (pre : List HEv) (cs : List Call) :
    flagAfter f (pre ++ HEv.unfreeze :: cs.map HEv.call) = false := by
  rw [flagAfter_append]; exact flagAfter_calls cs false

theorem stepEv_flag (sched : Sched) (s : MState) (e : HEv) :
    (stepEv sched s e).1.frozen = flagAfter s.frozen [e] := by
  cases e with
  | call c => exact apply_keeps_flag sched s c
  | freeze => rfl
  | unfreeze => rfl

/-- **the flag law**: after any history the flag is `flagAfter (initial flag) history` — the manager is frozen iff
    the last flag event was a freeze (or there was none and it started frozen) -/
theorem runEvs_flag (sched : Sched) : ∀ (evs : List HEv) (s : MState),
    (runEvs sched s evs).1.frozen = flagAfter s.frozen evs
  | [], _ => rfl
  | e :: es, s => by
    have h := runEvs_flag sched es (stepEv sched s e).1
    rw [stepEv_flag] at h
    cases e with
    | call c => exact h
    | freeze => exact h
    | unfreeze => exact h

theorem runEvs_append (sched : Sched) : ∀ (a b : List HEv) (s : MState),
    runEvs sched s (a ++ b) =
      ((runEvs sched (runEvs sched s a).1 b).1, (runEvs sched s a).2 ++ (runEvs sched (runEvs sched s a).1 b).2)
  | [], _, _ => rfl
  | e :: es, b, s => by
    simp only [List.cons_append, runEvs]
    rw [runEvs_append sched es b]

theorem runEvs_length (sched : Sched) : ∀ (evs : List HEv) (s : MState), (runEvs sched s evs).2.length = evs.length
  | [], _ => rfl
  | e :: es, s => by simp only [runEvs, List.length_cons, runEvs_length sched es]

/-! ### the calls that the freeze did not drop -/

/-- the call is dropped because of the freeze: the manager is frozen and the call is one that a frozen manager
    rejects (`rejectedExplB`: it would add, replace or remove a definition) -/
def droppedB (s : MState) (c : Call) : Bool := s.frozen && rejectedExplB s c

/-- the sub-history of CALLS that were not dropped because of the freeze: every call made while unfrozen, and the
    calls made while frozen that a frozen manager lets through (plain-value assignments to locations without a
    definition, cleanup, verify, a `load` that skips every pair, …).  The test is made on the state the real
    (sometimes frozen) manager is in at that moment. -/
def eff (sched : Sched) : MState → List HEv → List Call
  | _, [] => []
  | s, .call c :: es =>
    if droppedB s c then eff sched (apply sched s c).1 es else c :: eff sched (apply sched s c).1 es
  | s, .freeze :: es => eff sched (setF true s) es
  | s, .unfreeze :: es => eff sched (setF false s) es

theorem setF_frozen_eq (s : MState) (b : Bool) (h : s.frozen = b) : setF b s = s := by
  subst h; exact setF_self s

/-- one call, frozen or not: dropped (`ValueError`, whole state untouched) or the call of the never-frozen manager
    `setF false s` (same outcome, same new state up to the flag) -/
theorem apply_sim (sched : Sched) (s : MState) (c : Call) :
    (droppedB s c = true ∧ apply sched s c = (s, some .valueError)) ∨
    (droppedB s c = false ∧
      apply sched s c = (setF s.frozen (apply sched (setF false s) c).1, (apply sched (setF false s) c).2)) := by
  cases hf : s.frozen with
  | false =>
    refine Or.inr ⟨by simp [droppedB, hf], ?_⟩
    rw [setF_frozen_eq s false hf]
    refine Prod.ext ?_ rfl
    exact (setF_frozen_eq _ false ((apply_keeps_flag sched s c).trans hf)).symm
  | true =>
    have hs : setF true (setF false s) = s := by rw [setF_setF]; exact setF_frozen_eq s true hf
    have h := frozen_sim_expl sched (setF false s) rfl c
    rw [hs] at h
    rcases h with ⟨hr, ha⟩ | ⟨hr, ha, _⟩
    · exact Or.inl ⟨by simp [droppedB, hf, hr], ha⟩
    · exact Or.inr ⟨by simp [droppedB, hr], ha⟩

/-- **whole histories, state**: any history of calls, freezes and unfreezes (any number of brackets, redundant or
    unbalanced flag calls) ends — up to the flag, which obeys the flag law — in the very state the never-frozen
    manager reaches on the calls that were not dropped -/
theorem runEvs_state (sched : Sched) : ∀ (evs : List HEv) (s : MState),
    (runEvs sched s evs).1 = setF (flagAfter s.frozen evs) (applyAll sched (setF false s) (eff sched s evs))
  | [], s => (setF_self s).symm
  | .freeze :: es, s => by
    have h := runEvs_state sched es (setF true s)
    rw [setF_setF] at h
    simp only [runEvs, stepEv, eff, flagAfter]
    exact h
  | .unfreeze :: es, s => by
    have h := runEvs_state sched es (setF false s)
    rw [setF_setF] at h
    simp only [runEvs, stepEv, eff, flagAfter]
    exact h
  | .call c :: es, s => by
    have h := runEvs_state sched es (apply sched s c).1
    rw [apply_keeps_flag] at h
    simp only [runEvs, stepEv, eff, flagAfter]
    rw [h]
    rcases apply_sim sched s c with ⟨hd, ha⟩ | ⟨hd, ha⟩
    · rw [hd, ha]; rfl
    · rw [hd, ha]
      simp only [Bool.false_eq_true, if_false, applyAll, setF_setF]
      rw [setF_frozen_eq (apply sched (setF false s) c).1 false (apply_keeps_flag sched (setF false s) c)]

/-- **unfreeze after any history = the never-frozen manager with the calls that were not dropped**, as whole states
    (containers, task table, the four indices with their insertion orders, knob memories) — the general form of
    `unfreeze_as_never_frozen` -/
theorem unfreeze_runEvs (sched : Sched) (evs : List HEv) (s : MState) :
    setF false (runEvs sched s evs).1 = applyAll sched (setF false s) (eff sched s evs) := by
  rw [runEvs_state, setF_setF]
  exact setF_frozen_eq _ false (applyAll_keeps_flag sched _ (setF false s))

theorem eff_append (sched : Sched) : ∀ (a b : List HEv) (s : MState),
    eff sched s (a ++ b) = eff sched s a ++ eff sched (runEvs sched s a).1 b
  | [], _, _ => rfl
  | .freeze :: es, b, s => eff_append sched es b (setF true s)
  | .unfreeze :: es, b, s => eff_append sched es b (setF false s)
  | .call c :: es, b, s => by
    have h := eff_append sched es b (apply sched s c).1
    simp only [List.cons_append, eff, runEvs, stepEv]
    split
    · exact h
    · rw [h]; rfl

/-- the calls of a history, flag events removed -/
def callsOf : List HEv → List Call
  | [] => []
  | .call c :: es => c :: callsOf es
  | .freeze :: es => callsOf es
  | .unfreeze :: es => callsOf es

/-- `eff` is a sub-history: it only removes calls -/
theorem eff_sublist (sched : Sched) : ∀ (evs : List HEv) (s : MState), (eff sched s evs).Sublist (callsOf evs)
  | [], _ => List.Sublist.slnil
  | .freeze :: es, s => eff_sublist sched es (setF true s)
  | .unfreeze :: es, s => eff_sublist sched es (setF false s)
  | .call c :: es, s => by
    simp only [eff, callsOf]
    split
    · exact List.Sublist.cons _ (eff_sublist sched es _)
    · exact List.Sublist.cons_cons _ (eff_sublist sched es _)

/-- while the manager is not frozen nothing is dropped -/
theorem eff_calls_unfrozen (sched : Sched) : ∀ (cs : List Call) (s : MState), s.frozen = false →
    eff sched s (cs.map HEv.call) = cs
  | [], _, _ => rfl
  | c :: cs, s, h => by
    have hd : droppedB s c = false := by simp [droppedB, h]
    simp only [List.map_cons, eff, hd, Bool.false_eq_true, if_false]
    rw [eff_calls_unfrozen sched cs _ ((apply_keeps_flag sched s c).trans h)]

/-- inside one bracket `eff` is `effective` of `ManagerC17.lean` -/
theorem eff_calls_frozen (sched : Sched) : ∀ (cs : List Call) (sf : MState), sf.frozen = true →
    eff sched sf (cs.map HEv.call) = effective sched sf cs
  | [], _, _ => rfl
  | c :: cs, sf, h => by
    have hd : droppedB sf c = rejectedB sf c := by
      simp only [droppedB, h, Bool.true_and]; exact rejectedExplB_eq sf h c
    simp only [List.map_cons, eff, effective, hd]
    rw [eff_calls_frozen sched cs _ ((apply_keeps_flag sched sf c).trans h)]
    cases hr : rejectedB sf c with
    | false => rfl
    | true =>
      simp only [if_true]
      rcases apply_sim sched sf c with ⟨_, ha⟩ | ⟨hd', _⟩
      · rw [ha]
      · rw [hd, hr] at hd'; cases hd'

theorem runEvs_calls (sched : Sched) : ∀ (cs : List Call) (s : MState),
    (runEvs sched s (cs.map HEv.call)).1 = applyAll sched s cs
  | [], _ => rfl
  | c :: cs, s => by
    simp only [List.map_cons, runEvs, stepEv, applyAll]
    exact runEvs_calls sched cs _

/-- the one-bracket theorem `unfreeze_as_never_frozen` is the instance `freeze :: calls` of `unfreeze_runEvs` -/
theorem one_bracket_instance (sched : Sched) (cs : List Call) (s : MState) (hs : s.frozen = false) :
    setF false (applyAll sched (setF true s) cs) = applyAll sched s (effective sched (setF true s) cs) := by
  have h := unfreeze_runEvs sched (HEv.freeze :: cs.map HEv.call) s
  simp only [runEvs, stepEv, eff] at h
  rw [runEvs_calls, eff_calls_frozen sched cs (setF true s) rfl, setF_frozen_eq s false hs] at h
  exact h

/-- **whole histories, position by position**: at any point of any history (after the prefix `pre`), the next call
    `c` is either dropped — the manager is frozen and `c` would change the expression graph: it returned `ValueError`
    and the whole state is untouched — or kept: it returned exactly what it returns on the never-frozen manager that
    has received the kept calls of `pre`, and the new state is that manager's new state up to the flag -/
theorem runEvs_at (sched : Sched) (s : MState) (pre : List HEv) (c : Call) :
    (droppedB (runEvs sched s pre).1 c = true ∧
      stepEv sched (runEvs sched s pre).1 (.call c) = ((runEvs sched s pre).1, some .valueError)) ∨
    (droppedB (runEvs sched s pre).1 c = false ∧
      stepEv sched (runEvs sched s pre).1 (.call c) =
        (setF (flagAfter s.frozen pre) (apply sched (applyAll sched (setF false s) (eff sched s pre)) c).1,
         (apply sched (applyAll sched (setF false s) (eff sched s pre)) c).2)) := by
  rcases apply_sim sched (runEvs sched s pre).1 c with ⟨hd, ha⟩ | ⟨hd, ha⟩
  · exact Or.inl ⟨hd, ha⟩
  · refine Or.inr ⟨hd, ?_⟩
    rw [unfreeze_runEvs, runEvs_flag] at ha
    exact ha

/-- what `eff` does with the call at a given position: nothing if dropped, the call itself if kept -/
theorem eff_at (sched : Sched) (s : MState) (pre : List HEv) (c : Call) (post : List HEv) :
    eff sched s (pre ++ HEv.call c :: post) =
      eff sched s pre ++ (if droppedB (runEvs sched s pre).1 c then [] else [c]) ++
        eff sched (stepEv sched (runEvs sched s pre).1 (.call c)).1 post := by
  rw [eff_append]
  simp only [eff, stepEv]
  split <;> simp

/-! ### the list of outcomes -/

/-- outcomes of a history of calls on one manager -/
def applyOuts (sched : Sched) : MState → List Call → List (Option Err)
  | _, [] => []
  | s, c :: cs => (apply sched s c).2 :: applyOuts sched (apply sched s c).1 cs

/-- what happened to an event: a flag event, a call dropped by the freeze, a call kept -/
inductive EvKind where
  | flag | dropped | kept
deriving DecidableEq

def kindOf (s : MState) : HEv → EvKind
  | .call c => if droppedB s c then .dropped else .kept
  | .freeze => .flag
  | .unfreeze => .flag

/-- the kind of every event of a history, in order -/
def kinds (sched : Sched) : MState → List HEv → List EvKind
  | _, [] => []
  | s, e :: es => kindOf s e :: kinds sched (stepEv sched s e).1 es

theorem kinds_length (sched : Sched) : ∀ (evs : List HEv) (s : MState), (kinds sched s evs).length = evs.length
  | [], _ => rfl
  | e :: es, s => by simp only [kinds, List.length_cons, kinds_length sched es]

/-- the entries of kind `k` of a list of (kind, outcome) pairs -/
def outsOf (k : EvKind) : List (EvKind × Option Err) → List (Option Err)
  | [] => []
  | (k', x) :: rest => if k' = k then x :: outsOf k rest else outsOf k rest

/-- the kept calls of a history, read off the kinds -/
def keptOf : List (EvKind × HEv) → List Call
  | [] => []
  | (.kept, .call c) :: rest => c :: keptOf rest
  | _ :: rest => keptOf rest

/-- `eff` is the list of the calls of kind `kept` -/
theorem eff_eq_keptOf (sched : Sched) : ∀ (evs : List HEv) (s : MState),
    eff sched s evs = keptOf ((kinds sched s evs).zip evs)
  | [], _ => rfl
  | .freeze :: es, s => eff_eq_keptOf sched es (setF true s)
  | .unfreeze :: es, s => eff_eq_keptOf sched es (setF false s)
  | .call c :: es, s => by
    have h := eff_eq_keptOf sched es (apply sched s c).1
    simp only [eff, kinds, kindOf, stepEv, List.zip_cons_cons]
    cases droppedB s c with
    | true => simpa only [if_true, keptOf] using h
    | false => simp only [Bool.false_eq_true, if_false, keptOf, h]

/-- **whole histories, outcomes**: pair every outcome of the history with the kind of its event; then the outcomes
    of the kept calls are, in order, exactly the outcomes of the never-frozen manager on `eff`; every dropped call
    returned `ValueError`; no flag event ever raised -/
theorem runEvs_outcomes (sched : Sched) : ∀ (evs : List HEv) (s : MState),
    outsOf .kept ((kinds sched s evs).zip (runEvs sched s evs).2) =
        applyOuts sched (setF false s) (eff sched s evs) ∧
    (∀ x ∈ outsOf .dropped ((kinds sched s evs).zip (runEvs sched s evs).2), x = some .valueError) ∧
    (∀ x ∈ outsOf .flag ((kinds sched s evs).zip (runEvs sched s evs).2), x = none)
  | [], _ => ⟨rfl, by simp [kinds, runEvs, outsOf], by simp [kinds, runEvs, outsOf]⟩
  | .freeze :: es, s => by
    have h := runEvs_outcomes sched es (setF true s)
    rw [setF_setF] at h
    simp only [kinds, kindOf, runEvs, stepEv, eff, List.zip_cons_cons, outsOf]
    refine ⟨h.1, h.2.1, ?_⟩
    simp only [if_true, List.mem_cons]
    rintro x (hx | hx)
    · exact hx
    · exact h.2.2 x hx
  | .unfreeze :: es, s => by
    have h := runEvs_outcomes sched es (setF false s)
    rw [setF_setF] at h
    simp only [kinds, kindOf, runEvs, stepEv, eff, List.zip_cons_cons, outsOf]
    refine ⟨h.1, h.2.1, ?_⟩
    simp only [if_true, List.mem_cons]
    rintro x (hx | hx)
    · exact hx
    · exact h.2.2 x hx
  | .call c :: es, s => by
    have h := runEvs_outcomes sched es (apply sched s c).1
    simp only [kinds, kindOf, runEvs, stepEv, eff, List.zip_cons_cons]
    rcases apply_sim sched s c with ⟨hd, ha⟩ | ⟨hd, ha⟩
    · rw [ha] at h
      rw [hd, ha]
      simp only [if_true, outsOf]
      refine ⟨h.1, ?_, h.2.2⟩
      simp only [List.mem_cons]
      rintro x (hx | hx)
      · exact hx
      · exact h.2.1 x hx
    · rw [hd]
      simp only [Bool.false_eq_true, if_false, outsOf, applyOuts]
      refine ⟨?_, h.2.1, h.2.2⟩
      simp only [if_true]
      rw [h.1, ha]
      simp only [setF_setF]
      rw [setF_frozen_eq (apply sched (setF false s) c).1 false (apply_keeps_flag sched (setF false s) c)]

/-! ### after the last unfreeze -/

/-- **after a final `unfreeze_tree()`** the manager IS the never-frozen manager that received the kept calls (equality
    of whole states), so it reacts to any further history — calls, and further freezes / unfreezes — exactly as that
    manager does: same final state, same outcomes -/
theorem after_last_unfreeze (sched : Sched) (evs more : List HEv) (s : MState) :
    (runEvs sched s (evs ++ [HEv.unfreeze])).1 = applyAll sched (setF false s) (eff sched s evs) ∧
    eff sched s (evs ++ [HEv.unfreeze]) = eff sched s evs ∧
    runEvs sched s (evs ++ HEv.unfreeze :: more) =
      ((runEvs sched (applyAll sched (setF false s) (eff sched s evs)) more).1,
       (runEvs sched s evs).2 ++ none :: (runEvs sched (applyAll sched (setF false s) (eff sched s evs)) more).2) := by
  have h1 : (runEvs sched s (evs ++ [HEv.unfreeze])).1 = applyAll sched (setF false s) (eff sched s evs) := by
    rw [runEvs_append]
    simp only [runEvs, stepEv]
    exact unfreeze_runEvs sched evs s
  refine ⟨h1, ?_, ?_⟩
  · rw [eff_append]; simp [eff]
  · rw [runEvs_append]
    simp only [runEvs, stepEv]
    rw [unfreeze_runEvs]

/-! ### examples -/
namespace HistExample

def pa : Path := [.item (.str "d"), .item (.str "a")]
def pb : Path := [.item (.str "d"), .item (.str "b")]
def pc : Path := [.item (.str "d"), .item (.str "c")]

/-- a fresh, never-frozen manager over `d = {a: 1, b: 0, c: 0}`, no definitions -/
def fresh : MState :=
  { MState.init with store := .dict [(.str "d", .dict [(.str "a", .int 1), (.str "b", .int 0), (.str "c", .int 0)])] }

/-- `d.b = d.a + 1` -/
def defB : Call := .setExpr pb (.bin "Add" (.ref pa) (.lit (.int 1)))
/-- `d.c = d.b * 2` -/
def defC : Call := .setExpr pc (.bin "Mul" (.ref pb) (.lit (.int 2)))

def holdsInt (r : Except Err Val) (i : Int) : Bool := match r with | .ok (.int j) => i == j | _ => false

/-! the three shapes a nesting COUNTER gets wrong -/

/-- `unfreeze` first on a fresh manager, then an expression assignment: it succeeds (a counter would now be at -1,
    i.e. "frozen") -/
example : (runEvs id fresh [.unfreeze, .call defB]).2 = [none, none] ∧
    (runEvs id fresh [.unfreeze, .call defB]).1.frozen = false ∧
    (runEvs id fresh [.unfreeze, .call defB]).1.defs.length = 1 := by decide +kernel

/-- `freeze; freeze; unfreeze`, then an expression assignment: it succeeds (a counter would still be at 1) -/
example : (runEvs id fresh [.freeze, .freeze, .unfreeze, .call defB]).2 = [none, none, none, none] ∧
    (runEvs id fresh [.freeze, .freeze, .unfreeze, .call defB]).1.frozen = false ∧
    (runEvs id fresh [.freeze, .freeze, .unfreeze, .call defB]).1.defs.length = 1 := by decide +kernel

/-- `unfreeze; freeze`, then an expression assignment: rejected, nothing registered (a counter would be back at 0) -/
example : (runEvs id fresh [.unfreeze, .freeze, .call defB]).2 = [none, none, some .valueError] ∧
    (runEvs id fresh [.unfreeze, .freeze, .call defB]).1.frozen = true ∧
    (runEvs id fresh [.unfreeze, .freeze, .call defB]).1.defs.length = 0 := by decide +kernel

example : flagAfter false [.unfreeze, .call defB] = false ∧ flagAfter false [.freeze, .freeze, .unfreeze] = false ∧
    flagAfter false [.unfreeze, .freeze] = true := ⟨rfl, rfl, rfl⟩

/-! a history with two brackets, a redundant freeze, an unbalanced unfreeze, kept and dropped calls -/
def hist : List HEv :=
  [.unfreeze,                       -- unbalanced
   .call defB,                      -- unfrozen: kept
   .freeze, .freeze,                -- redundant
   .call (.setValue pa (.int 5)),   -- frozen, plain value, no definition: kept (d.b becomes 6)
   .call defC,                      -- frozen, expression: dropped
   .call (.unregister pb),          -- frozen: dropped
   .call (.setValue pb (.int 9)),   -- frozen, onto a defined location: dropped
   .call .verify,                   -- kept
   .unfreeze,
   .call defC,                      -- unfrozen again: kept (d.c = 12)
   .freeze,
   .call (.setValue pa (.int 7)),   -- second bracket: kept (d.b = 8, d.c = 16)
   .call .refresh,                  -- dropped
   .call (.load false [(pb, .lit (.int 0))]),  -- every pair skipped: kept (a no-op)
   .call (.load true [(pb, .lit (.int 0))])]   -- would re-register: dropped

example : eff id fresh hist =
    [defB, .setValue pa (.int 5), .verify, defC, .setValue pa (.int 7), .load false [(pb, .lit (.int 0))]] := rfl

example : kinds id fresh hist =
    [.flag, .kept, .flag, .flag, .kept, .dropped, .dropped, .dropped, .kept, .flag, .kept, .flag, .kept, .dropped,
     .kept, .dropped] := by decide +kernel

example : (runEvs id fresh hist).2 =
    [none, none, none, none, none, some .valueError, some .valueError, some .valueError, none, none, none, none, none,
     some .valueError, none, some .valueError] := by decide +kernel

example : applyOuts id fresh (eff id fresh hist) = [none, none, none, none, none, none] := by decide +kernel

/-- the history ends frozen (last flag event: a freeze), with `d.b = 8`, `d.c = 16`, two definitions -/
example : (runEvs id fresh hist).1.frozen = true ∧ (runEvs id fresh hist).1.defs.length = 2 ∧
    holdsInt (get (runEvs id fresh hist).1.store pb) 8 = true ∧
    holdsInt (get (runEvs id fresh hist).1.store pc) 16 = true := by decide +kernel

/-- … exactly as the never-frozen manager that received the six kept calls -/
example : (applyAll id fresh (eff id fresh hist)).frozen = false ∧
    (applyAll id fresh (eff id fresh hist)).defs.length = 2 ∧
    holdsInt (get (applyAll id fresh (eff id fresh hist)).store pb) 8 = true ∧
    holdsInt (get (applyAll id fresh (eff id fresh hist)).store pc) 16 = true := by decide +kernel

/-- the whole-state equation of `runEvs_state` on this history, checked by computation -/
example : (runEvs id fresh hist).1 = setF true (applyAll id fresh (eff id fresh hist)) := rfl

/-- after a final unfreeze, a further history (here: redefine `d.c`, assign `d.a`) on both managers -/
def more : List HEv := [.call (.setExpr pc (.bin "Add" (.ref pb) (.ref pa))), .call (.setValue pa (.int 1))]
example : runEvs id fresh (hist ++ .unfreeze :: more) =
    ((runEvs id (applyAll id fresh (eff id fresh hist)) more).1,
     (runEvs id fresh hist).2 ++ none :: (runEvs id (applyAll id fresh (eff id fresh hist)) more).2) := rfl
example : (runEvs id fresh (hist ++ .unfreeze :: more)).2.drop 16 = [none, none, none] ∧
    holdsInt (get (runEvs id fresh (hist ++ .unfreeze :: more)).1.store pc) 3 = true := by decide +kernel

end HistExample

end Manager
