import XModel.ManagerC13
/-!
# C01, last sentence: the result does not depend on the order in which definitions and assignments were made

A container tree in which every definition holds is a function of (i) the tree it was reached from by writes to the
definitions' targets and to the plainly assigned locations, (ii) the definitions, (iii) the values at the plainly
assigned locations — whenever the definitions can be listed in a dependency order.  Two histories that end with the same
definitions and the same plain values therefore end with the same tree, whatever the order of their calls.
-/
namespace Manager
open Store Push Index

/-- **uniqueness of the consistent tree.**  `ord` lists the definitions so that every read lies inside the target of
    an earlier one, or inside a plainly assigned location of `P`, or is incomparable with everything ever written. -/
theorem unique_store (sem : Sem) (τ σA σB : Val) (ord : List ETask) (P : List Path)
    (hW : Family (P ++ ord.map (·.target))) (hne : ∀ w ∈ P ++ ord.map (·.target), w ≠ [])
    (hex : AllExist (P ++ ord.map (·.target)) τ)
    (hA : Reach (P ++ ord.map (·.target)) τ σA) (hB : Reach (P ++ ord.map (·.target)) τ σB)
    (hqA : ∀ t ∈ ord, (exprSys sem).Q t σA) (hqB : ∀ t ∈ ord, (exprSys sem).Q t σB)
    (hP : ∀ p ∈ P, get σA p = get σB p)
    (hord : ∀ pre t post, ord = pre ++ t :: post → ∀ r ∈ leafRefs t.expr, canonPath r ∧
      ((∀ w ∈ P ++ ord.map (·.target), Incomparable w r) ∨ (∃ p ∈ P, ∃ q, r = p ++ q) ∨
       ∃ u ∈ pre, ∃ q, r = u.target ++ q)) :
    σA = σB := by
  have htar := unique_along sem σA σB ord [] (by intro u hu; cases hu)
    (by
      intro pre t post hsplit r hr
      obtain ⟨hcr, hcase⟩ := hord pre t post hsplit r hr
      rcases hcase with hinc | ⟨p, hp, q, rfl⟩ | ⟨u, hu, q, rfl⟩
      · left
        rw [hA.frame r hcr (fun w hw => ⟨hW.canon w hw, hinc w hw⟩),
            hB.frame r hcr (fun w hw => ⟨hW.canon w hw, hinc w hw⟩)]
      · left
        rw [Unique.get_append, Unique.get_append, hP p hp]
      · exact Or.inr ⟨u, Or.inr hu, q, rfl⟩)
    hqA hqB
  refine Reach.eq_of_agree hW hne hA hB hex ?_
  intro w hw
  rcases List.mem_append.mp hw with h | h
  · exact hP w h
  · obtain ⟨t, ht, rfl⟩ := List.mem_map.mp h
    exact htar t ht

/-! ### what a history writes -/

/-- the locations the calls of a history assign -/
def assigned : List Call → List Path
  | [] => []
  | .setValue p _ :: cs => p :: assigned cs
  | .setExpr p _ :: cs => p :: assigned cs
  | _ :: cs => assigned cs

/-- along a good run of plain and expression assignments (and maintenance calls) only initial definition targets and
    assigned locations are ever written, and every definition's id is one of them -/
theorem goodRun_reach (sched : Sched) (W : List Path) : ∀ (cs : List Call) (s : MState), MInv s → Consistent s →
    (∀ c ∈ cs, (∃ p v, c = .setValue p v) ∨ (∃ p e, c = .setExpr p e) ∨ c = .cleanup ∨ c = .verify ∨ c = .refresh) →
    GoodRun sched s cs → (∀ t ∈ s.defs, t.id ∈ W) → (∀ p ∈ assigned cs, p ∈ W) →
    Reach W s.store (applyAll sched s cs).store ∧ ∀ t ∈ (applyAll sched s cs).defs, t.id ∈ W
  | [], s, _, _, _, _, hd, _ => ⟨Reach.refl, hd⟩
  | c :: cs, s, hi, hc, hkinds, hg, hd, ha => by
    have hk := hkinds c (List.mem_cons_self ..)
    have hkinds' : ∀ c' ∈ cs, _ := fun c' hc' => hkinds c' (List.mem_cons_of_mem _ hc')
    rcases hk with ⟨p, v, rfl⟩ | ⟨p, e, rfl⟩ | rfl | rfl | rfl
    · -- set_value(ref, value)
      obtain ⟨sc, hvs, hok, hrest⟩ := hg
      have hok' : setValue sched s p v = ((setValue sched s p v).1, none) := by rw [← hok]
      obtain ⟨hc', hi', _⟩ := setValue_consistent sched s p v hi hc sc hvs _ hok'
      have hpW : p ∈ W := ha p (by simp [assigned])
      have hf : lookDef s.defs p ≠ none → s.frozen = false := by
        intro hne
        cases hl : lookDef s.defs p with
        | none => exact absurd hl hne
        | some t =>
          cases hfz : s.frozen with
          | false => rfl
          | true =>
            rw [setValue_frozen_defined sched s p v t hfz hl] at hok'
            cases hok'
      obtain ⟨hi0, hst, _, _, _, hsub⟩ := preState_facts s p hi hf
      have hw := setValue_eq sched s p v _ hok'
      have hreach := writeAndRun_reach sched (preState s p) p v sc.nofault sc.exprs _ hw
      have hg' := writeAndRun_graph sched (preState s p) p v
      rw [hw] at hg'
      have hdefs' : ∀ t ∈ (setValue sched s p v).1.defs, t.id ∈ W := by
        intro t ht
        rw [hg'.2.1] at ht
        exact hd t (hsub t ht).1
      obtain ⟨_, hmem⟩ := findTaskids_once_exact (preState s p) hi0 (chainR p)
      have hsubW : ∀ w ∈ p :: sched (findTaskids (preState s p).idx (chainR p)), w ∈ W := by
        intro w hw'
        rcases List.mem_cons.mp hw' with rfl | hw'
        · exact hpW
        · -- a triggered id is a definition of the pre-state
          unfold writeAndRun at hw
          cases hwr : writeRef (preState s p) p v with
          | mk sw x =>
            cases x with
            | some x => simp [hwr] at hw
            | none =>
              simp only [hwr] at hw
              obtain ⟨_, _, hdw, hiw, _⟩ := writeRef_nofault (preState s p) p v sc.nofault sw hwr
              rw [hiw, hdw] at hw
              generalize hm : List.mapM (lookTask (preState s p).defs) (sched (findTaskids (preState s p).idx (chainR p))) = res at hw
              cases res with
              | error e => simp at hw
              | ok l =>
                obtain ⟨hlmap, hlsub⟩ := mapM_lookDef (preState s p).defs _ (lookTask_ok _) _ l hm
                have : w ∈ l.map (·.id) := by rw [hlmap]; exact hw'
                obtain ⟨t, ht, rfl⟩ := List.mem_map.mp this
                exact hd t (hsub t (hlsub t ht)).1
      obtain ⟨ih1, ih2⟩ := goodRun_reach sched W cs _ hi' hc' hkinds' hrest hdefs'
        (fun q hq => ha q (by simp [assigned, hq]))
      refine ⟨?_, ih2⟩
      have : Reach W s.store (setValue sched s p v).1.store := by
        rw [← hst]; exact hreach.mono hsubW
      exact this.trans ih1
    · -- set_value(ref, expression)
      obtain ⟨sc, hvs, hok, hrest⟩ := hg
      have hok' : setExpr sched s p e = ((setExpr sched s p e).1, none) := by rw [← hok]
      obtain ⟨hc', hi', _⟩ := setExpr_consistent sched s p e hi hc sc hvs _ hok'
      have hpW : p ∈ W := ha p (by simp [assigned])
      have hf : s.frozen = false := by
        cases hfz : s.frozen with
        | false => rfl
        | true =>
          rw [setExpr_frozen sched s p e hfz] at hok'
          cases hok'
      obtain ⟨hi0, hst, hsub⟩ := defPart_facts s p e hi hf
      obtain ⟨v, _, hw⟩ := setExpr_eq sched s p e _ hf hok'
      have hreach := writeAndRun_reach sched (defPart s p e) p v sc.nofault sc.exprs _ hw
      have hg' := writeAndRun_graph sched (defPart s p e) p v
      rw [hw] at hg'
      have hidW : ∀ t ∈ (defPart s p e).defs, t.id ∈ W := by
        intro t ht
        rcases hsub t ht with ⟨h1, _⟩ | h
        · exact hd t h1
        · rw [h]; exact hpW
      have hdefs' : ∀ t ∈ (setExpr sched s p e).1.defs, t.id ∈ W := by
        intro t ht
        rw [hg'.2.1] at ht
        exact hidW t ht
      have hsubW : ∀ w ∈ p :: sched (findTaskids (defPart s p e).idx (chainR p)), w ∈ W := by
        intro w hw'
        rcases List.mem_cons.mp hw' with rfl | hw'
        · exact hpW
        · unfold writeAndRun at hw
          cases hwr : writeRef (defPart s p e) p v with
          | mk sw x =>
            cases x with
            | some x => simp [hwr] at hw
            | none =>
              simp only [hwr] at hw
              obtain ⟨_, _, hdw, hiw, _⟩ := writeRef_nofault (defPart s p e) p v sc.nofault sw hwr
              rw [hiw, hdw] at hw
              generalize hm : List.mapM (lookTask (defPart s p e).defs) (sched (findTaskids (defPart s p e).idx (chainR p))) = res at hw
              cases res with
              | error x => simp at hw
              | ok l =>
                obtain ⟨hlmap, hlsub⟩ := mapM_lookDef (defPart s p e).defs _ (lookTask_ok _) _ l hm
                have : w ∈ l.map (·.id) := by rw [hlmap]; exact hw'
                obtain ⟨t, ht, rfl⟩ := List.mem_map.mp this
                exact hidW t (hlsub t ht)
      obtain ⟨ih1, ih2⟩ := goodRun_reach sched W cs _ hi' hc' hkinds' hrest hdefs'
        (fun q hq => ha q (by simp [assigned, hq]))
      refine ⟨?_, ih2⟩
      have : Reach W s.store (setExpr sched s p e).1.store := by
        rw [← hst]; exact hreach.mono hsubW
      exact this.trans ih1
    · -- cleanup
      have hdd := cleanup_defs s
      have hc' : Consistent (cleanup s) := by
        intro t ht; rw [hdd.1] at ht; rw [hdd.2.1]; exact hc t ht
      obtain ⟨ih1, ih2⟩ := goodRun_reach sched W cs (cleanup s) (cleanup_MInv s hi) hc' hkinds' hg
        (by intro t ht; rw [hdd.1] at ht; exact hd t ht) (fun q hq => ha q (by simpa [assigned] using hq))
      refine ⟨?_, ih2⟩
      have e : (cleanup s).store = s.store := hdd.2.1
      rw [← e]; exact ih1
    · -- verify
      have hdd := verify_defs s
      have hc' : Consistent (verify s).1 := by
        intro t ht; rw [hdd.1] at ht; rw [hdd.2.1]; exact hc t ht
      obtain ⟨ih1, ih2⟩ := goodRun_reach sched W cs (verify s).1 (verify_MInv s hi) hc' hkinds' hg
        (by intro t ht; rw [hdd.1] at ht; exact hd t ht) (fun q hq => ha q (by simpa [assigned] using hq))
      refine ⟨?_, ih2⟩
      have e : (verify s).1.store = s.store := hdd.2.1
      rw [← e]; exact ih1
    · -- refresh
      have hdd := refresh_defs s
      have hc' : Consistent (refresh s).1 := by
        intro t ht; rw [hdd.1] at ht; rw [hdd.2]; exact hc t ht
      obtain ⟨ih1, ih2⟩ := goodRun_reach sched W cs (refresh s).1 (refresh_MInv s hi) hc' hkinds' hg
        (by intro t ht; rw [hdd.1] at ht; exact hd t ht) (fun q hq => ha q (by simpa [assigned] using hq))
      refine ⟨?_, ih2⟩
      have e : (refresh s).1.store = s.store := hdd.2
      rw [← e]; exact ih1

/-- **order independence of definitions and assignments**: two good runs from the same state that end with the same
    definitions (listed in a dependency order by `ord`) and with the same values at the plainly assigned locations
    `P` end with the same container tree — whatever the order of their calls and whatever schedulers were used. -/
theorem order_independent (sched1 sched2 : Sched) (s : MState) (cs1 cs2 : List Call) (hi : MInv s) (hc : Consistent s)
    (hk1 : ∀ c ∈ cs1, (∃ p v, c = .setValue p v) ∨ (∃ p e, c = .setExpr p e) ∨ c = .cleanup ∨ c = .verify ∨ c = .refresh)
    (hk2 : ∀ c ∈ cs2, (∃ p v, c = .setValue p v) ∨ (∃ p e, c = .setExpr p e) ∨ c = .cleanup ∨ c = .verify ∨ c = .refresh)
    (hg1 : GoodRun sched1 s cs1) (hg2 : GoodRun sched2 s cs2)
    (P : List Path) (ord : List ETask)
    (hd : ∀ t ∈ s.defs, t.id ∈ P ++ ord.map (·.target))
    (ha1 : ∀ p ∈ assigned cs1, p ∈ P ++ ord.map (·.target)) (ha2 : ∀ p ∈ assigned cs2, p ∈ P ++ ord.map (·.target))
    (hW : Family (P ++ ord.map (·.target))) (hne : ∀ w ∈ P ++ ord.map (·.target), w ≠ [])
    (hex : AllExist (P ++ ord.map (·.target)) s.store)
    (hdefs1 : ∀ t ∈ ord, ∃ d ∈ (applyAll sched1 s cs1).defs, toE d = t)
    (hdefs2 : ∀ t ∈ ord, ∃ d ∈ (applyAll sched2 s cs2).defs, toE d = t)
    (hP : ∀ p ∈ P, get (applyAll sched1 s cs1).store p = get (applyAll sched2 s cs2).store p)
    (hord : ∀ pre t post, ord = pre ++ t :: post → ∀ r ∈ leafRefs t.expr, canonPath r ∧
      ((∀ w ∈ P ++ ord.map (·.target), Incomparable w r) ∨ (∃ p ∈ P, ∃ q, r = p ++ q) ∨
       ∃ u ∈ pre, ∃ q, r = u.target ++ q)) :
    (applyAll sched1 s cs1).store = (applyAll sched2 s cs2).store := by
  obtain ⟨hc1, _⟩ := goodRun_consistent sched1 cs1 s hi hc hg1
  obtain ⟨hc2, _⟩ := goodRun_consistent sched2 cs2 s hi hc hg2
  obtain ⟨hr1, _⟩ := goodRun_reach sched1 _ cs1 s hi hc hk1 hg1 hd ha1
  obtain ⟨hr2, _⟩ := goodRun_reach sched2 _ cs2 s hi hc hk2 hg2 hd ha2
  refine unique_store pySem s.store _ _ ord P hW hne hex hr1 hr2 ?_ ?_ hP hord
  · intro t ht
    obtain ⟨d, hdm, rfl⟩ := hdefs1 t ht
    exact hc1 d hdm
  · intro t ht
    obtain ⟨d, hdm, rfl⟩ := hdefs2 t ht
    exact hc2 d hdm

end Manager
