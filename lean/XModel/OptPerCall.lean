import XModel.Opt
import XModel.OptFix
import XModel.OptBest2
/-!
# C10: the per-call `enable_*` / `disable_*` arguments of `Optimize.step`

`Optimize.step` (`xdeps/optimize/optimize.py`) takes six optional arguments that switch knobs / targets on or off
"for the performed steps".  The code applies them before the start row is logged, through `self.enable(..)` /
`self.disable(..)`, in this order

    enable(target=enable_target)      enable(vary=enable_vary)
    disable(target=disable_target)    disable(vary=disable_vary)    disable(vary_name=disable_vary_name)
    enable(vary_name=enable_vary_name)

then runs the start row, the loop and the `take_best` reload (`Opt.optStep`), and afterwards undoes them *in the same
order with the opposite state*

    disable(target=enable_target)     disable(vary=enable_vary)
    enable(target=disable_target)     enable(vary=disable_vary)     enable(vary_name=disable_vary_name)
    disable(vary_name=enable_vary_name)

There is **no `try/finally`**: an exception raised between the two blocks propagates and the second block does not run.
The undo is not a restore either: it does not remember the flags of before the call, it *sets* every index of a
`disable_*` list active and every index of an `enable_*` list inactive.

What is modelled here and what stays in Python:

* each argument is a `List Nat`: the positions in `opt.vary` / `opt.targets` that `_set_state` switches for that
  argument.  The resolution of ids, tags (`re.fullmatch` on `.tag`) and names (`re.fullmatch` on `.name`) to positions is
  done by the harness (`harness/w_opt.py::resolve_sel`), not by the model; `None` and the empty list are both `[]` (neither
  switches anything).  The Boolean forms (`enable_vary=True/False`: all on / all off) are outside the model.
* within one `_set_state` call every listed index is set to the same state, so the order of a list is immaterial
  (`setFlags`); the order of the six calls matters and is kept (`applyArgs`, `undoArgs`).
* `if not self.check_limits: self._clip_to_limits()` at the top of `step` is outside the skeleton (the driver is fed the
  default configuration `check_limits=True` only, as for every other call).

`optStepWith a c its tb = applyArgs a ; optStep c its tb ; undoArgs a` in the state-with-exceptions monad of
`XModel/Opt.lean`: `bind'` stops at the first exception and keeps the state reached, which is exactly "no undo on an
exception".
-/
namespace Opt

variable {R : Type}

/-! ### the model -/

/-- the six per-call arguments of `step`, each resolved to the positions it switches -/
structure StepArgs where
  enableTarget : List Nat := []
  enableVary : List Nat := []
  enableVaryName : List Nat := []
  disableTarget : List Nat := []
  disableVary : List Nat := []
  disableVaryName : List Nat := []

/-- `_set_state(lst, b, entries)` with `entries` resolved to the positions `l` -/
def setFlags (l : List Nat) (b : Bool) (f : Nat → Bool) : Nat → Bool := fun i => if i ∈ l then b else f i

/-- `_set_state(self.vary, b, ..)` -/
def setV (l : List Nat) (b : Bool) : M R Unit := fun s => (.ok (), { s with vAct := setFlags l b s.vAct })
/-- `_set_state(self.targets, b, ..)` -/
def setT (l : List Nat) (b : Bool) : M R Unit := fun s => (.ok (), { s with tAct := setFlags l b s.tAct })

/-- the block before the loop, statement by statement -/
def applyArgs (a : StepArgs) : M R Unit :=
  bind' (setT a.enableTarget true) (fun _ =>
  bind' (setV a.enableVary true) (fun _ =>
  bind' (setT a.disableTarget false) (fun _ =>
  bind' (setV a.disableVary false) (fun _ =>
  bind' (setV a.disableVaryName false) (fun _ =>
  setV a.enableVaryName true)))))

/-- the block after the `take_best` reload, statement by statement -/
def undoArgs (a : StepArgs) : M R Unit :=
  bind' (setT a.enableTarget false) (fun _ =>
  bind' (setV a.enableVary false) (fun _ =>
  bind' (setT a.disableTarget true) (fun _ =>
  bind' (setV a.disableVary true) (fun _ =>
  bind' (setV a.disableVaryName true) (fun _ =>
  setV a.enableVaryName false)))))

/-- **`Optimize.step` with its per-call arguments**: flags, then the call proper, then the undo — which an exception
    skips -/
def optStepWith (a : StepArgs) (c : Cfg R) (its : List (Iter R)) (takeBest : Option Nat) : M R Unit :=
  bind' (applyArgs a) (fun _ => bind' (optStep c its takeBest) (fun _ => undoArgs a))

/-! ### closed forms of the two blocks -/

/-- the knob flags during the call -/
def tempV (a : StepArgs) (f : Nat → Bool) : Nat → Bool :=
  setFlags a.enableVaryName true (setFlags a.disableVaryName false (setFlags a.disableVary false
    (setFlags a.enableVary true f)))
/-- the target flags during the call -/
def tempT (a : StepArgs) (f : Nat → Bool) : Nat → Bool :=
  setFlags a.disableTarget false (setFlags a.enableTarget true f)
/-- what the undo block makes of knob flags `f` -/
def finalV (a : StepArgs) (f : Nat → Bool) : Nat → Bool :=
  setFlags a.enableVaryName false (setFlags a.disableVaryName true (setFlags a.disableVary true
    (setFlags a.enableVary false f)))
/-- what the undo block makes of target flags `f` -/
def finalT (a : StepArgs) (f : Nat → Bool) : Nat → Bool :=
  setFlags a.disableTarget true (setFlags a.enableTarget false f)

/-- the state the call proper starts from -/
def argState (a : StepArgs) (s : St R) : St R := { s with vAct := tempV a s.vAct, tAct := tempT a s.tAct }
/-- the state the undo block leaves -/
def undoState (a : StepArgs) (s : St R) : St R := { s with vAct := finalV a s.vAct, tAct := finalT a s.tAct }

theorem applyArgs_eq (a : StepArgs) (s : St R) : applyArgs a s = (.ok (), argState a s) := rfl
theorem undoArgs_eq (a : StepArgs) (s : St R) : undoArgs a s = (.ok (), undoState a s) := rfl

/-- **the shape of the call**: normal return of the call proper → undo; exception → the state as the exception left it -/
theorem optStepWith_eq (a : StepArgs) (c : Cfg R) (its : List (Iter R)) (tb : Option Nat) (s : St R) :
    optStepWith a c its tb s =
      match optStep c its tb (argState a s) with
      | (.ok _, s1) => (.ok (), undoState a s1)
      | (.error e, s1) => (.error e, s1) := by
  simp only [optStepWith, bind', applyArgs_eq]
  cases h : optStep c its tb (argState a s) with
  | mk r s1 =>
    cases r with
    | error e => rfl
    | ok u => simp only [undoArgs_eq]

theorem optStepWith_ok (a : StepArgs) (c : Cfg R) (its : List (Iter R)) (tb : Option Nat) (s s' : St R)
    (h : optStepWith a c its tb s = (.ok (), s')) :
    ∃ s1, optStep c its tb (argState a s) = (.ok (), s1) ∧ s' = undoState a s1 := by
  rw [optStepWith_eq] at h
  cases h1 : optStep c its tb (argState a s) with
  | mk r s1 =>
    rw [h1] at h
    cases r with
    | error e => simp at h
    | ok u => simp only at h; exact ⟨s1, rfl, ((Prod.mk.inj h).2).symm⟩

theorem optStepWith_error (a : StepArgs) (c : Cfg R) (its : List (Iter R)) (tb : Option Nat) (s s' : St R) (e : Err)
    (h : optStepWith a c its tb s = (.error e, s')) : optStep c its tb (argState a s) = (.error e, s') := by
  rw [optStepWith_eq] at h
  cases h1 : optStep c its tb (argState a s) with
  | mk r s1 =>
    rw [h1] at h
    cases r with
    | error e1 => simp only at h; exact h
    | ok u => simp at h

/-- whatever the outcome: the call proper ran from `argState a s`, and the final state is its state (exception) or the
    undo of it (normal return) -/
theorem optStepWith_cases (a : StepArgs) (c : Cfg R) (its : List (Iter R)) (tb : Option Nat) (s s' : St R)
    (r : Except Err Unit) (h : optStepWith a c its tb s = (r, s')) :
    ∃ s1, optStep c its tb (argState a s) = (r, s1) ∧ s'.knobs = s1.knobs ∧ s'.log = s1.log ∧
      ((r = .ok () ∧ s' = undoState a s1) ∨ ((∃ e, r = .error e) ∧ s' = s1)) := by
  rw [optStepWith_eq] at h
  cases h1 : optStep c its tb (argState a s) with
  | mk r1 s1 =>
    rw [h1] at h
    cases r1 with
    | error e =>
      simp only at h
      obtain ⟨hr, hs⟩ := Prod.mk.inj h
      subst hr; subst hs
      exact ⟨s1, rfl, rfl, rfl, Or.inr ⟨⟨e, rfl⟩, rfl⟩⟩
    | ok u =>
      simp only at h
      obtain ⟨hr, hs⟩ := Prod.mk.inj h
      subst hr; subst hs
      exact ⟨s1, rfl, rfl, rfl, Or.inl ⟨rfl, rfl⟩⟩

/-- no argument given: `step()` as modelled before -/
theorem setFlags_nil (b : Bool) (f : Nat → Bool) : setFlags [] b f = f := by
  funext i; simp [setFlags]

theorem optStepWith_noArgs (c : Cfg R) (its : List (Iter R)) (tb : Option Nat) (s : St R) :
    optStepWith {} c its tb s = optStep c its tb s := by
  have h1 : argState {} s = s := by simp [argState, tempV, tempT, setFlags_nil]
  have h2 : ∀ s1 : St R, undoState {} s1 = s1 := by intro s1; simp [undoState, finalV, finalT, setFlags_nil]
  rw [optStepWith_eq, h1]
  cases h : optStep c its tb s with
  | mk r s1 =>
    cases r with
    | error e => rfl
    | ok u => simp only [h2]

/-! ### point-wise reading of the closed forms -/

theorem setFlags_mem {l : List Nat} {i : Nat} (h : i ∈ l) (b : Bool) (f : Nat → Bool) : setFlags l b f i = b := by
  simp [setFlags, h]
theorem setFlags_not_mem {l : List Nat} {i : Nat} (h : i ∉ l) (b : Bool) (f : Nat → Bool) : setFlags l b f i = f i := by
  simp [setFlags, h]

/-- an index no knob argument mentions -/
def UnmentionedV (a : StepArgs) (i : Nat) : Prop :=
  i ∉ a.enableVary ∧ i ∉ a.disableVary ∧ i ∉ a.disableVaryName ∧ i ∉ a.enableVaryName
/-- an index no target argument mentions -/
def UnmentionedT (a : StepArgs) (i : Nat) : Prop := i ∉ a.enableTarget ∧ i ∉ a.disableTarget

theorem tempV_unmentioned (a : StepArgs) (f : Nat → Bool) (i : Nat) (h : UnmentionedV a i) : tempV a f i = f i := by
  obtain ⟨h1, h2, h3, h4⟩ := h
  simp [tempV, setFlags, h1, h2, h3, h4]
theorem finalV_unmentioned (a : StepArgs) (f : Nat → Bool) (i : Nat) (h : UnmentionedV a i) : finalV a f i = f i := by
  obtain ⟨h1, h2, h3, h4⟩ := h
  simp [finalV, setFlags, h1, h2, h3, h4]
theorem tempT_unmentioned (a : StepArgs) (f : Nat → Bool) (i : Nat) (h : UnmentionedT a i) : tempT a f i = f i := by
  obtain ⟨h1, h2⟩ := h
  simp [tempT, setFlags, h1, h2]
theorem finalT_unmentioned (a : StepArgs) (f : Nat → Bool) (i : Nat) (h : UnmentionedT a i) : finalT a f i = f i := by
  obtain ⟨h1, h2⟩ := h
  simp [finalT, setFlags, h1, h2]

/-- a knob in `disable_vary` or `disable_vary_name` is off during the call unless `enable_vary_name` — which is applied
    LAST — names it too (`enable_vary`, applied before, does not save it) -/
theorem tempV_disabled (a : StepArgs) (f : Nat → Bool) (i : Nat) (hd : i ∈ a.disableVary ∨ i ∈ a.disableVaryName)
    (hn : i ∉ a.enableVaryName) : tempV a f i = false := by
  unfold tempV
  rw [setFlags_not_mem hn]
  by_cases h2 : i ∈ a.disableVaryName
  · exact setFlags_mem h2 _ _
  · rw [setFlags_not_mem h2]
    rcases hd with h1 | h1
    · exact setFlags_mem h1 _ _
    · exact absurd h1 h2

theorem tempV_enabled_by_name (a : StepArgs) (f : Nat → Bool) (i : Nat) (h : i ∈ a.enableVaryName) :
    tempV a f i = true := setFlags_mem h _ _

/-- the undo leaves a knob of `disable_vary` / `disable_vary_name` ON unless `enable_vary_name` names it too -/
theorem finalV_disabled (a : StepArgs) (f : Nat → Bool) (i : Nat) (hd : i ∈ a.disableVary ∨ i ∈ a.disableVaryName)
    (hn : i ∉ a.enableVaryName) : finalV a f i = true := by
  unfold finalV
  rw [setFlags_not_mem hn]
  by_cases h2 : i ∈ a.disableVaryName
  · exact setFlags_mem h2 _ _
  · rw [setFlags_not_mem h2]
    rcases hd with h1 | h1
    · exact setFlags_mem h1 _ _
    · exact absurd h1 h2

/-- the undo leaves a knob of `enable_vary_name` OFF, whatever else names it -/
theorem finalV_enabled_by_name (a : StepArgs) (f : Nat → Bool) (i : Nat) (h : i ∈ a.enableVaryName) :
    finalV a f i = false := setFlags_mem h _ _

/-- the undo leaves a knob of `enable_vary` OFF unless a `disable_*` list names it too -/
theorem finalV_enabled (a : StepArgs) (f : Nat → Bool) (i : Nat) (h : i ∈ a.enableVary)
    (h1 : i ∉ a.disableVary) (h2 : i ∉ a.disableVaryName) : finalV a f i = false := by
  unfold finalV
  by_cases h4 : i ∈ a.enableVaryName
  · exact setFlags_mem h4 _ _
  · rw [setFlags_not_mem h4, setFlags_not_mem h2, setFlags_not_mem h1]
    exact setFlags_mem h _ _

theorem finalT_disabled (a : StepArgs) (f : Nat → Bool) (i : Nat) (h : i ∈ a.disableTarget) : finalT a f i = true :=
  setFlags_mem h _ _

theorem finalT_enabled (a : StepArgs) (f : Nat → Bool) (i : Nat) (h : i ∈ a.enableTarget) (hn : i ∉ a.disableTarget) :
    finalT a f i = false := by
  unfold finalT
  rw [setFlags_not_mem hn]
  exact setFlags_mem h _ _

theorem tempT_disabled (a : StepArgs) (f : Nat → Bool) (i : Nat) (h : i ∈ a.disableTarget) : tempT a f i = false :=
  setFlags_mem h _ _

/-- the undo forgets the flags it finds wherever an argument names the index: `finalV a` after `tempV a` is `finalV a` -/
theorem finalV_tempV (a : StepArgs) (f : Nat → Bool) : finalV a (tempV a f) = finalV a f := by
  funext i
  simp only [finalV, tempV, setFlags]
  by_cases h4 : i ∈ a.enableVaryName <;> by_cases h3 : i ∈ a.disableVaryName <;> by_cases h2 : i ∈ a.disableVary <;>
    by_cases h1 : i ∈ a.enableVary <;> simp [h1, h2, h3, h4]

theorem finalT_tempT (a : StepArgs) (f : Nat → Bool) : finalT a (tempT a f) = finalT a f := by
  funext i
  simp only [finalT, tempT, setFlags]
  by_cases h2 : i ∈ a.disableTarget <;> by_cases h1 : i ∈ a.enableTarget <;> simp [h1, h2]

/-! ### the flags during `optStep`: constant, whatever the outcome, when `take_best` reloads a row of this call -/

/-- the invariant, relative to the log length `n` at the start of the call: both masks are `va`, `ta`, and so are those
    of every row logged since -/
def FlagInv (va ta : Nat → Bool) (n : Nat) (s : St R) : Prop :=
  s.vAct = va ∧ s.tAct = ta ∧ ∀ i row, n ≤ i → s.log[i]? = some row → row.vAct = va ∧ row.tAct = ta

/-- an operation keeps the invariant whatever its outcome -/
def GP (va ta : Nat → Bool) (n : Nat) {α : Type} (m : M R α) : Prop :=
  ∀ s r s', FlagInv va ta n s → m s = (r, s') → FlagInv va ta n s'

section
variable {va ta : Nat → Bool} {n : Nat}

theorem GP.bind {α β : Type} {m : M R α} {f : α → M R β} (hm : GP va ta n m) (hf : ∀ a, GP va ta n (f a)) :
    GP va ta n (bind' m f) := by
  intro s r s' hi h
  simp only [bind'] at h
  cases hms : m s with
  | mk r1 s1 =>
    rw [hms] at h
    have h1 := hm s r1 s1 hi hms
    cases r1 with
    | error e => simp only at h; cases h; exact h1
    | ok a => simp only at h; exact hf a s1 r s' h1 h

theorem GP_pure {α : Type} (a : α) : GP va ta n (pure' a : M R α) := fun s r s' hi h => by
  simp only [pure'] at h; cases h; exact hi

theorem GP_raise {α : Type} (e : Err) : GP va ta n (raise e : M R α) := fun s r s' hi h => by
  simp only [raise] at h; cases h; exact hi

theorem FlagInv.of_eq {s s' : St R} (hi : FlagInv va ta n s) (hv : s'.vAct = s.vAct) (ht : s'.tAct = s.tAct)
    (hl : s'.log = s.log) : FlagInv va ta n s' :=
  ⟨hv.trans hi.1, ht.trans hi.2.1, by rw [hl]; exact hi.2.2⟩

theorem GP_merit (c : Cfg R) (check : Bool) (x : Nat → R) : GP va ta n (merit c check x) := by
  intro s r s' hi h
  obtain ⟨a1, a2, a3, _⟩ := merit_frame c check x s r s' h
  exact hi.of_eq a1 a2 a3

theorem GP_meritAll (c : Cfg R) (check : Bool) : ∀ xs : List (Nat → R), GP va ta n (meritAll c check xs)
  | [] => GP_pure ()
  | x :: xs => GP.bind (GP_merit c check x) (fun _ => GP_meritAll c check xs)

theorem FlagInv_append {s : St R} (hi : FlagInv va ta n s) (kn : Nat → R) (vr tr : Nat → Bool)
    (hv : vr = va) (ht : tr = ta) : FlagInv va ta n { s with log := s.log ++ [⟨kn, vr, tr⟩] } := by
  refine ⟨hi.1, hi.2.1, ?_⟩
  intro i row hn hrow
  simp only at hrow
  by_cases hlt : i < s.log.length
  · rw [List.getElem?_append_left hlt] at hrow
    exact hi.2.2 i row hn hrow
  · have hge : s.log.length ≤ i := Nat.le_of_not_lt hlt
    rw [List.getElem?_append_right hge] at hrow
    cases hd : i - s.log.length with
    | zero =>
      rw [hd] at hrow
      simp only [List.getElem?_cons_zero, Option.some.injEq] at hrow
      subst hrow
      exact ⟨hv, ht⟩
    | succ d =>
      rw [hd] at hrow
      simp at hrow

theorem GP_addPoint (c : Cfg R) : GP va ta n (addPoint c) := by
  intro s r s' hi h
  simp only [addPoint] at h
  cases hm : merit c true (extractX c s) s with
  | mk r1 s1 =>
    rw [hm] at h
    have h1 := GP_merit c true _ s r1 s1 hi hm
    cases r1 with
    | error e => simp only at h; cases h; exact h1
    | ok u =>
      simp only at h
      cases h
      exact FlagInv_append h1 s.knobs s.vAct s.tAct hi.1 hi.2.1

/-- `reload(i)` of a row logged since the start of the call -/
theorem GP_reload (c : Cfg R) (i : Nat) (hn : n ≤ i) : GP va ta n (reload c i) := by
  intro s r s' hi h
  simp only [reload] at h
  cases hl : s.log[i]? with
  | none => simp only [hl] at h; cases h; exact hi
  | some row =>
    simp only [hl] at h
    obtain ⟨rv, rt⟩ := hi.2.2 i row hn hl
    exact GP_addPoint c { s with knobs := row.knobs, vAct := row.vAct, tAct := row.tAct } r s' ⟨rv, rt, hi.2.2⟩ h

theorem GP_setKnobs (c : Cfg R) : GP va ta n (setKnobsFromX c) := by
  intro s r s' hi h
  simp only [setKnobsFromX] at h
  cases h
  exact ⟨hi.1, hi.2.1, hi.2.2⟩

theorem GP_solverStep (c : Cfg R) (jac trials : List (Nat → R)) (last : Nat → R) (pe : Bool) :
    GP va ta n (solverStep c jac trials last pe) := by
  intro s r s' hi h
  simp only [solverStep] at h
  refine (GP.bind (GP_merit c true s.solverX) (fun _ =>
    GP.bind (GP_meritAll c false jac) (fun _ =>
    GP.bind (GP_meritAll c true trials) (fun _ =>
    GP.bind (GP_merit c true last) (fun _ => ?_))))) s r s' hi h
  by_cases hpe : pe = true
  · simp only [hpe, if_true]
    exact GP.bind (GP_merit c true s.solverX) (fun _ => GP_raise .penalty)
  · simp only [hpe, Bool.false_eq_true, if_false]
    intro s1 r1 s1' hi1 h1
    cases h1
    exact ⟨hi1.1, hi1.2.1, hi1.2.2⟩

theorem GP_optIter (c : Cfg R) (resync early : Bool) (jac trials : List (Nat → R)) (last : Nat → R) (pe : Bool) :
    GP va ta n (optIter c resync early jac trials last pe) := by
  unfold optIter
  refine GP.bind ?_ (fun _ => GP.bind ?_ (fun _ => GP.bind (GP_setKnobs c) (fun _ => ?_)))
  · intro s r s' hi h
    cases h
    by_cases hr : resync = true
    · simp only [hr, if_true]; exact ⟨hi.1, hi.2.1, hi.2.2⟩
    · simp only [hr, Bool.false_eq_true, if_false]; exact hi
  · by_cases he : early = true
    · simp only [he, if_true]
      intro s r s' hi h
      exact GP_merit c true s.solverX s r s' hi h
    · simp only [he, Bool.false_eq_true, if_false]
      exact GP_solverStep c jac trials last pe
  · intro s r s' hi h
    cases h
    exact FlagInv_append hi s.knobs s.vAct s.tAct hi.1 hi.2.1

theorem GP_optLoop (c : Cfg R) : ∀ its : List (Iter R), GP va ta n (optLoop c its)
  | [] => GP_pure ()
  | it :: rest => by
    simp only [optLoop]
    refine GP.bind (GP_optIter c it.resync it.early it.jac it.trials it.last it.pe) (fun _ => ?_)
    intro s r s' hi h
    by_cases hw : s.lastWithin = true
    · simp only [hw, if_true] at h; cases h; exact hi
    · simp only [hw] at h
      exact GP_optLoop c rest s r s' hi h

end

theorem FlagInv_start (s : St R) : FlagInv s.vAct s.tAct s.log.length s := ⟨rfl, rfl, by
  intro i row hn hrow
  have : s.log[i]? = none := List.getElem?_eq_none hn
  rw [this] at hrow; cases hrow⟩

/-- the start row and the loop never touch a flag, whatever their outcome -/
theorem optBody_flags (c : Cfg R) (its : List (Iter R)) (s s' : St R) (r : Except Err Unit)
    (h : bind' (addPoint c) (fun _ => optLoop c its) s = (r, s')) : FlagInv s.vAct s.tAct s.log.length s' :=
  (GP.bind (GP_addPoint c) (fun _ => GP_optLoop c its)) s r s' (FlagInv_start s) h

/-- **the flags are constant during `step()`**, whatever the numerics and whatever the outcome (normal return or
    exception), when `take_best` reloads a row logged during the call; and every row the call logs records them -/
theorem optStep_flags_fixed (c : Cfg R) (its : List (Iter R)) (tb : Option Nat) (s s' : St R) (r : Except Err Unit)
    (htb : ∀ i, tb = some i → s.log.length ≤ i) (h : optStep c its tb s = (r, s')) :
    s'.vAct = s.vAct ∧ s'.tAct = s.tAct ∧
    ∀ i row, s.log.length ≤ i → s'.log[i]? = some row → row.vAct = s.vAct ∧ row.tAct = s.tAct := by
  have hgp : GP s.vAct s.tAct s.log.length (optStep c its tb) := by
    unfold optStep
    refine GP.bind (GP_addPoint c) (fun _ => GP.bind (GP_optLoop c its) (fun _ => ?_))
    intro s1 r1 s1' hi1 h1
    cases tb with
    | none => simp only at h1; cases h1; exact hi1
    | some i =>
      simp only at h1
      by_cases hw : s1.lastWithin = true
      · simp only [hw, if_true] at h1; cases h1; exact hi1
      · simp only [hw] at h1
        exact GP_reload c i (htb i rfl) s1 r1 s1' hi1 h1
  exact hgp s r s' (FlagInv_start s) h

/-- **without the hypothesis on `take_best`**: whatever the outcome, the flags `step()` leaves are those it started with,
    or those recorded in the log row `i` that `take_best` reloaded -/
theorem optStep_flags_cases (c : Cfg R) (its : List (Iter R)) (tb : Option Nat) (s s' : St R) (r : Except Err Unit)
    (h : optStep c its tb s = (r, s')) :
    (s'.vAct = s.vAct ∧ s'.tAct = s.tAct) ∨
    ∃ i row, tb = some i ∧ s'.log[i]? = some row ∧ s'.vAct = row.vAct ∧ s'.tAct = row.tAct := by
  simp only [optStep, bind'] at h
  cases h1 : addPoint c s with
  | mk r1 s1 =>
    rw [h1] at h
    have i1 := GP_addPoint c s r1 s1 (FlagInv_start s) h1
    cases r1 with
    | error e => simp only at h; cases h; exact Or.inl ⟨i1.1, i1.2.1⟩
    | ok u =>
      simp only at h
      cases h2 : optLoop c its s1 with
      | mk r2 s2 =>
        rw [h2] at h
        have i2 := GP_optLoop c its s1 r2 s2 i1 h2
        cases r2 with
        | error e => simp only at h; cases h; exact Or.inl ⟨i2.1, i2.2.1⟩
        | ok u2 =>
          simp only at h
          cases tb with
          | none => simp only at h; cases h; exact Or.inl ⟨i2.1, i2.2.1⟩
          | some i =>
            simp only at h
            by_cases hw : s2.lastWithin = true
            · simp only [hw, if_true] at h; cases h; exact Or.inl ⟨i2.1, i2.2.1⟩
            · simp only [hw] at h
              cases hl : s2.log[i]? with
              | none =>
                simp only [reload, hl] at h
                cases h
                exact Or.inl ⟨i2.1, i2.2.1⟩
              | some row =>
                obtain ⟨fv, ft, _⟩ := reload_frame c i row s2 r s' hl h
                obtain ⟨suf, hs⟩ := LM_reload c i s2 r s' h
                refine Or.inr ⟨i, row, rfl, ?_, fv, ft⟩
                rw [hs]
                have hlt : i < s2.log.length := (List.getElem?_eq_some_iff.mp hl).1
                rw [List.getElem?_append_left hlt]
                exact hl

/-! ### (a) normal return: the flags afterwards -/

/-- **the flags after a normal return, for the indices the arguments mention** — no hypothesis on `take_best`, the
    numerics or the flags before the call: the undo block *sets* them.

    * a knob listed in `disable_vary` or `disable_vary_name` and not in `enable_vary_name` ends ACTIVE — also when it was
      inactive before the call;
    * a knob listed in `enable_vary_name` ends INACTIVE (whatever else lists it: that undo comes last); a knob listed in
      `enable_vary` and in no `disable_*` list ends INACTIVE — also when it was active before the call;
    * a target listed in `disable_target` ends ACTIVE; a target listed in `enable_target` only ends INACTIVE. -/
theorem optStepWith_ok_mentioned (a : StepArgs) (c : Cfg R) (its : List (Iter R)) (tb : Option Nat) (s s' : St R)
    (h : optStepWith a c its tb s = (.ok (), s')) :
    (∀ k, (k ∈ a.disableVary ∨ k ∈ a.disableVaryName) → k ∉ a.enableVaryName → s'.vAct k = true) ∧
    (∀ k, k ∈ a.enableVaryName → s'.vAct k = false) ∧
    (∀ k, k ∈ a.enableVary → k ∉ a.disableVary → k ∉ a.disableVaryName → s'.vAct k = false) ∧
    (∀ k, k ∈ a.disableTarget → s'.tAct k = true) ∧
    (∀ k, k ∈ a.enableTarget → k ∉ a.disableTarget → s'.tAct k = false) := by
  obtain ⟨s1, _, rfl⟩ := optStepWith_ok a c its tb s s' h
  refine ⟨?_, ?_, ?_, ?_, ?_⟩
  · intro k hd hn; exact finalV_disabled a s1.vAct k hd hn
  · intro k hk; exact finalV_enabled_by_name a s1.vAct k hk
  · intro k hk h1 h2; exact finalV_enabled a s1.vAct k hk h1 h2
  · intro k hk; exact finalT_disabled a s1.tAct k hk
  · intro k hk hn; exact finalT_enabled a s1.tAct k hk hn

/-- **the flags after a normal return, all of them**, when `take_best` reloads a row logged during the call: they are
    `finalV a` / `finalT a` of the flags BEFORE the call; in particular an index no argument mentions has the flag it had
    before the call.  Knobs and log are those the call proper left. -/
theorem optStepWith_ok_flags (a : StepArgs) (c : Cfg R) (its : List (Iter R)) (tb : Option Nat) (s s' : St R)
    (htb : ∀ i, tb = some i → s.log.length ≤ i) (h : optStepWith a c its tb s = (.ok (), s')) :
    s'.vAct = finalV a s.vAct ∧ s'.tAct = finalT a s.tAct ∧
    (∀ k, UnmentionedV a k → s'.vAct k = s.vAct k) ∧ (∀ k, UnmentionedT a k → s'.tAct k = s.tAct k) := by
  obtain ⟨s1, h1, rfl⟩ := optStepWith_ok a c its tb s s' h
  obtain ⟨hv, ht, _⟩ := optStep_flags_fixed c its tb (argState a s) s1 _ htb h1
  have ev : (undoState a s1).vAct = finalV a s.vAct := by
    show finalV a s1.vAct = _
    rw [hv]; exact finalV_tempV a s.vAct
  have et : (undoState a s1).tAct = finalT a s.tAct := by
    show finalT a s1.tAct = _
    rw [ht]; exact finalT_tempT a s.tAct
  refine ⟨ev, et, ?_, ?_⟩
  · intro k hk; rw [ev]; exact finalV_unmentioned a s.vAct k hk
  · intro k hk; rw [et]; exact finalT_unmentioned a s.tAct k hk

/-! ### (b) a knob disabled for the call keeps its value through the whole call -/

/-- **a knob that is off during the call** (`tempV a s.vAct k = false`) holds its entry value in the container after the
    call, whatever the outcome, and every row the call logs records that value with the flag off.  `take_best` reloads a
    row logged during the call. -/
theorem optStepWith_temp_disabled_fixed (a : StepArgs) (c : Cfg R) (its : List (Iter R)) (tb : Option Nat) (k : Nat)
    (s s' : St R) (r : Except Err Unit) (hk : tempV a s.vAct k = false)
    (htb : ∀ i, tb = some i → s.log.length ≤ i) (h : optStepWith a c its tb s = (r, s')) :
    s'.knobs k = s.knobs k ∧
    ∀ i row, s.log.length ≤ i → s'.log[i]? = some row → row.knobs k = s.knobs k ∧ row.vAct k = false := by
  obtain ⟨s1, h1, ek, el, _⟩ := optStepWith_cases a c its tb s s' r h
  obtain ⟨f1, _, f3⟩ := optStep_disabled_fixed c its tb k (argState a s) s1 r hk htb h1
  refine ⟨by rw [ek]; exact f1, ?_⟩
  intro i row hn hrow
  rw [el] at hrow
  exact f3 i row hn hrow

/-- the instance the property speaks of: a knob listed in `disable_vary` or `disable_vary_name` and not re-enabled by
    `enable_vary_name` (which is applied after them; being listed in `enable_vary`, applied before, changes nothing) -/
theorem optStepWith_disabled_fixed (a : StepArgs) (c : Cfg R) (its : List (Iter R)) (tb : Option Nat) (k : Nat)
    (s s' : St R) (r : Except Err Unit) (hd : k ∈ a.disableVary ∨ k ∈ a.disableVaryName) (hn : k ∉ a.enableVaryName)
    (htb : ∀ i, tb = some i → s.log.length ≤ i) (h : optStepWith a c its tb s = (r, s')) :
    s'.knobs k = s.knobs k ∧
    ∀ i row, s.log.length ≤ i → s'.log[i]? = some row → row.knobs k = s.knobs k ∧ row.vAct k = false :=
  optStepWith_temp_disabled_fixed a c its tb k s s' r (tempV_disabled a s.vAct k hd hn) htb h

/-- a knob that was off before the call and that no argument mentions stays put as well -/
theorem optStepWith_unmentioned_disabled_fixed (a : StepArgs) (c : Cfg R) (its : List (Iter R)) (tb : Option Nat)
    (k : Nat) (s s' : St R) (r : Except Err Unit) (hk : s.vAct k = false) (hu : UnmentionedV a k)
    (htb : ∀ i, tb = some i → s.log.length ≤ i) (h : optStepWith a c its tb s = (r, s')) :
    s'.knobs k = s.knobs k ∧
    ∀ i row, s.log.length ≤ i → s'.log[i]? = some row → row.knobs k = s.knobs k ∧ row.vAct k = false :=
  optStepWith_temp_disabled_fixed a c its tb k s s' r (by rw [tempV_unmentioned a s.vAct k hu]; exact hk) htb h

/-- the `take_best` index the driver computes (`s.log.length + j`) satisfies the hypothesis: the per-call flag updates
    do not touch the log -/
theorem optStepWith_take_best_disabled_fixed (a : StepArgs) (c : Cfg R) (its : List (Iter R)) (j k : Nat)
    (s s' : St R) (r : Except Err Unit) (hd : k ∈ a.disableVary ∨ k ∈ a.disableVaryName) (hn : k ∉ a.enableVaryName)
    (h : optStepWith a c its (some (s.log.length + j)) s = (r, s')) :
    s'.knobs k = s.knobs k ∧
    ∀ i row, s.log.length ≤ i → s'.log[i]? = some row → row.knobs k = s.knobs k ∧ row.vAct k = false :=
  optStepWith_disabled_fixed a c its _ k s s' r hd hn (take_best_htb _ j) h

/-! ### (c) an exception: the undo block does not run -/

/-- **after an exception the flags are the temporary ones** — nothing is undone — when `take_best` reloads a row logged
    during the call (or does not reload): a knob listed in `disable_vary` / `disable_vary_name` (and not in
    `enable_vary_name`) is LEFT DISABLED, a target listed in `disable_target` is left disabled, an index of
    `enable_vary_name` is left enabled; and every row the call logged records the temporary flags. -/
theorem optStepWith_error_flags (a : StepArgs) (c : Cfg R) (its : List (Iter R)) (tb : Option Nat) (s s' : St R)
    (e : Err) (htb : ∀ i, tb = some i → s.log.length ≤ i) (h : optStepWith a c its tb s = (.error e, s')) :
    s'.vAct = tempV a s.vAct ∧ s'.tAct = tempT a s.tAct ∧
    (∀ k, (k ∈ a.disableVary ∨ k ∈ a.disableVaryName) → k ∉ a.enableVaryName → s'.vAct k = false) ∧
    (∀ k, k ∈ a.disableTarget → s'.tAct k = false) ∧
    (∀ k, k ∈ a.enableVaryName → s'.vAct k = true) ∧
    (∀ i row, s.log.length ≤ i → s'.log[i]? = some row → row.vAct = tempV a s.vAct ∧ row.tAct = tempT a s.tAct) := by
  have h1 := optStepWith_error a c its tb s s' e h
  obtain ⟨hv, ht, hr⟩ := optStep_flags_fixed c its tb (argState a s) s' _ htb h1
  have hv' : s'.vAct = tempV a s.vAct := hv
  have ht' : s'.tAct = tempT a s.tAct := ht
  refine ⟨hv', ht', ?_, ?_, ?_, hr⟩
  · intro k hd hn; rw [hv']; exact tempV_disabled a s.vAct k hd hn
  · intro k hk; rw [ht']; exact tempT_disabled a s.tAct k hk
  · intro k hk; rw [hv']; exact tempV_enabled_by_name a s.vAct k hk

/-- **without the hypothesis on `take_best`**: after an exception the flags are the temporary ones, or those recorded in
    the log row `take_best` reloaded (the exception was then raised by that reload's evaluation) -/
theorem optStepWith_error_flags_cases (a : StepArgs) (c : Cfg R) (its : List (Iter R)) (tb : Option Nat) (s s' : St R)
    (e : Err) (h : optStepWith a c its tb s = (.error e, s')) :
    (s'.vAct = tempV a s.vAct ∧ s'.tAct = tempT a s.tAct) ∨
    ∃ i row, tb = some i ∧ s'.log[i]? = some row ∧ s'.vAct = row.vAct ∧ s'.tAct = row.tAct :=
  optStep_flags_cases c its tb (argState a s) s' _ (optStepWith_error a c its tb s s' e h)

/-! ### concrete instances -/

namespace PerCallExample
open LimitsExample

/-- three knobs, unit weights, limits `[-10, 10]`; `bad` makes the user's function raise -/
def cfg3 (bad : (Nat → Int) → Bool) : Cfg Int := { LimitsExample.cfg bad with n := 3 }

def st3 (va ta : Nat → Bool) (log : List (Row Int)) : St Int where
  knobs := fun j => (j : Int) + 1
  vAct := va
  tAct := ta
  solverX := fun _ => 0
  lastWithin := false
  log := log
  evalX := fun _ => 0
  evalKnobs := fun _ => 0
  evalTAct := fun _ => true

/-- knob 0 on, knob 1 OFF, knob 2 on; target 0 on, target 1 OFF -/
def s0 : St Int := st3 (fun j => decide (j ≠ 1)) (fun j => decide (j ≠ 1)) []

/-- one iteration that accepts the point `(7, 7, 7)` -/
def it7 : Iter Int := ⟨true, false, [], [], fun _ => 7, false⟩

/-- `step(disable_vary=[1], disable_vary_name=[2], disable_target=[1])`: knob 1 (off before) and knob 2 (on before) are off
    during the call, target 1 (off before) too -/
def argsD : StepArgs := { disableVary := [1], disableVaryName := [2], disableTarget := [1] }

def good3 : Cfg Int := cfg3 (fun _ => false)

def flagsOf (f : Nat → Bool) : List Bool := [f 0, f 1, f 2]
def knobsOf (s : St Int) : List Int := [s.knobs 0, s.knobs 1, s.knobs 2]

/-- the run: normal return; only knob 0 moves; afterwards knobs 1 and 2 and target 1 are ACTIVE — knob 1 and target 1
    were not before the call; the rows of the call record the temporary flags -/
example : isOk (optStepWith argsD good3 [it7] none s0).1 = true ∧
    knobsOf (optStepWith argsD good3 [it7] none s0).2 = [7, 2, 3] ∧
    flagsOf (optStepWith argsD good3 [it7] none s0).2.vAct = [true, true, true] ∧
    flagsOf (optStepWith argsD good3 [it7] none s0).2.tAct = [true, true, true] ∧
    flagsOf s0.vAct = [true, false, true] ∧ flagsOf s0.tAct = [true, false, true] ∧
    (optStepWith argsD good3 [it7] none s0).2.log.map (fun r => (flagsOf r.vAct, [r.knobs 0, r.knobs 1, r.knobs 2]))
      = [([true, false, false], [1, 2, 3]), ([true, false, false], [7, 2, 3])] := by
  decide +kernel

/-- the hypotheses of (a), (b) hold of this run, so the theorems apply to it -/
example := optStepWith_ok_flags argsD good3 [it7] none s0 _ (by intro i hi; cases hi)
  (BestExample.ok_eta (optStepWith argsD good3 [it7] none s0) (by decide +kernel))
example := optStepWith_disabled_fixed argsD good3 [it7] none 2 s0 _ _ (Or.inr (by decide)) (by decide)
  (by intro i hi; cases hi) (pair_eta (optStepWith argsD good3 [it7] none s0))

/-- `step(enable_vary=[0, 1], enable_target=[1])`: knob 1 and target 1 are ON during the call (knob 1 moves), and
    afterwards knobs 0 and 1 and target 1 are INACTIVE — knob 0 was active before the call -/
def argsE : StepArgs := { enableVary := [0, 1], enableTarget := [1] }

example : isOk (optStepWith argsE good3 [it7] none s0).1 = true ∧
    knobsOf (optStepWith argsE good3 [it7] none s0).2 = [7, 7, 7] ∧
    flagsOf (optStepWith argsE good3 [it7] none s0).2.vAct = [false, false, true] ∧
    flagsOf (optStepWith argsE good3 [it7] none s0).2.tAct = [true, false, true] ∧
    (optStepWith argsE good3 [it7] none s0).2.log.map (fun r => (flagsOf r.vAct, flagsOf r.tAct))
      = [([true, true, true], [true, true, true]), ([true, true, true], [true, true, true])] := by
  decide +kernel

/-- **the order matters**: knob 2 is listed in `disable_vary` AND in `enable_vary_name` — the latter is applied last, so
    the knob is ON during the call and moves; it is undone last too, so the knob ends OFF.  Knob 0 is listed in
    `enable_vary` AND `disable_vary`: OFF during the call (does not move), ON afterwards. -/
def argsO : StepArgs := { disableVary := [2, 0], enableVaryName := [2], enableVary := [0] }

example : isOk (optStepWith argsO good3 [it7] none s0).1 = true ∧
    knobsOf (optStepWith argsO good3 [it7] none s0).2 = [1, 2, 7] ∧
    flagsOf (optStepWith argsO good3 [it7] none s0).2.vAct = [true, false, false] ∧
    (optStepWith argsO good3 [it7] none s0).2.log.map (fun r => flagsOf r.vAct)
      = [[false, false, true], [false, false, true]] := by
  decide +kernel

/-- **no `try/finally`**: the user's function raises at the accepted point `(7, ·, ·)`; `step(disable_vary=[1],
    disable_vary_name=[2], disable_target=[1])` raises `.user`, and knob 2 — active before the call — and target 1 are
    LEFT DISABLED; nothing but the start row was logged -/
def raises7 : Cfg Int := cfg3 (fun k => decide (k 0 = 7))

def sAllOn : St Int := st3 (fun _ => true) (fun _ => true) []

example : errOf (optStepWith argsD raises7 [it7] none sAllOn).1 = some .user ∧
    flagsOf sAllOn.vAct = [true, true, true] ∧
    flagsOf (optStepWith argsD raises7 [it7] none sAllOn).2.vAct = [true, false, false] ∧
    flagsOf (optStepWith argsD raises7 [it7] none sAllOn).2.tAct = [true, false, true] ∧
    knobsOf (optStepWith argsD raises7 [it7] none sAllOn).2 = [7, 2, 3] ∧
    (optStepWith argsD raises7 [it7] none sAllOn).2.log.length = 1 := by
  decide +kernel

theorem err_eta (p : Except Err Unit × St Int) (e : Err) (h : errOf p.1 = some e) : p = (.error e, p.2) := by
  obtain ⟨r, s⟩ := p
  cases r with
  | error e1 => simp only [errOf, Option.some.injEq] at h; subst h; rfl
  | ok u => simp [errOf] at h

/-- the hypotheses of (c) hold of this run -/
example := optStepWith_error_flags argsD raises7 [it7] none sAllOn _ .user (by intro i hi; cases hi)
  (err_eta (optStepWith argsD raises7 [it7] none sAllOn) .user (by decide +kernel))

/-- **the `take_best` hypothesis is needed for the unmentioned indices**: an OLD row (logged before the call, knob 0 off)
    is reloaded; the call returns normally and knob 0 — mentioned by no argument, active before — ends inactive -/
def oldRow3 : Row Int := ⟨fun _ => 5, fun j => decide (j ≠ 0), fun _ => true⟩
def sOld : St Int := st3 (fun _ => true) (fun _ => true) [oldRow3]

example : isOk (optStepWith argsD good3 [it7] (some 0) sOld).1 = true ∧
    flagsOf sOld.vAct = [true, true, true] ∧
    flagsOf (optStepWith argsD good3 [it7] (some 0) sOld).2.vAct = [false, true, true] := by
  decide +kernel

end PerCallExample

end Opt
