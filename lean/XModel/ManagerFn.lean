import XModel.ManagerC18
import XModel.Acyclic
/-!
# C01 with function tasks

"… each target of a function … task holds what that task prescribes" (C01).  A `FunctionTask` of the model is a
body of assignments `target := expression` run in order; in the graph it is one node with the dependencies and targets
its author declared.  Treating every body line as an item, the scheduling argument goes through at the level of items
as long as the declaration is *sound* (it lists the owner chains of everything the body reads and writes) and the
body's lines do not disturb each other.
-/
namespace Manager
open Store Push Index

/-- the `target := expression` items a task stands for -/
def itemsOf (t : MTask) : List ETask :=
  match t.kind with
  | .expr e => [⟨t.id, e⟩]
  | .func body => body.map (fun b => ⟨b.1, b.2⟩)
  | .knob _ _ _ => []

/-- every item of every definition holds -/
def ConsistentF (s : MState) : Prop := ∀ t ∈ s.defs, ∀ it ∈ itemsOf t, (exprSys pySem).Q it s.store

theorem runAll_append {S T : Type} (sys : Sys S T) : ∀ (l1 l2 : List T) (σ : S),
    runAll? sys (l1 ++ l2) σ = (runAll? sys l1 σ).bind (runAll? sys l2)
  | [], _, _ => rfl
  | t :: l1, l2, σ => by
    simp only [List.cons_append, runAll?]
    cases sys.run? t σ with
    | none => rfl
    | some σ' => exact runAll_append sys l1 l2 σ'

/-! ### runs of expression and function tasks are runs of their items -/

theorem runBody_items : ∀ (body : List (Path × Expr)) (s s' : MState), s.faultIn = none →
    runBody s body = (s', none) →
    runAll? (exprSys pySem) (body.map (fun b => (⟨b.1, b.2⟩ : ETask))) s.store = some s'.store ∧ s'.faultIn = none
  | [], s, s', hnf, h => by
    simp only [runBody] at h
    have := (Prod.mk.inj h).1
    subst this
    exact ⟨rfl, hnf⟩
  | (p, e) :: rest, s, s', hnf, h => by
    simp only [runBody] at h
    cases hev : evalE s e with
    | error x => simp [hev] at h
    | ok v =>
      simp only [hev] at h
      cases hw : writeRef s p v with
      | mk s1 x =>
        cases x with
        | some x => simp [hw] at h
        | none =>
          simp only [hw] at h
          obtain ⟨hset, hnf1, _, _, _⟩ := writeRef_nofault s p v hnf s1 hw
          obtain ⟨ih, hnf'⟩ := runBody_items rest s1 s' hnf1 h
          refine ⟨?_, hnf'⟩
          simp only [List.map_cons, runAll?]
          have : (exprSys pySem).run? ⟨p, e⟩ s.store = some s1.store := by
            simp only [exprSys]
            unfold evalE at hev
            simp [hev, hset]
          rw [this]
          exact ih

theorem runTask_items (s s' : MState) (t : MTask) (hnf : s.faultIn = none)
    (hk : (∃ e, t.kind = .expr e) ∨ ∃ body, t.kind = .func body) (h : runTask s t = (s', none)) :
    runAll? (exprSys pySem) (itemsOf t) s.store = some s'.store ∧ s'.faultIn = none := by
  rcases hk with ⟨e, hk⟩ | ⟨body, hk⟩
  · have := runTasks_expr [t] s s' hnf (by intro u hu; simp only [List.mem_singleton] at hu; subst hu; exact ⟨e, hk⟩)
      (by simp only [runTasks, h])
    simpa [itemsOf, hk, toE] using this
  · simp only [runTask, hk] at h
    generalize hb : runBody { s with trace := s.trace ++ [(false, t.id)] } body = r at h
    obtain ⟨s1, x⟩ := r
    simp only [Prod.mk.injEq] at h
    obtain ⟨h1, h2⟩ := h
    subst h2
    obtain ⟨hr, hnf1⟩ := runBody_items body { s with trace := s.trace ++ [(false, t.id)] } s1 hnf hb
    subst h1
    simpa [itemsOf, hk] using And.intro hr hnf1

theorem runTasks_items : ∀ (l : List MTask) (s s' : MState), s.faultIn = none →
    (∀ t ∈ l, (∃ e, t.kind = .expr e) ∨ ∃ body, t.kind = .func body) → runTasks s l = (s', none) →
    runAll? (exprSys pySem) (l.flatMap itemsOf) s.store = some s'.store ∧ s'.faultIn = none
  | [], s, s', hnf, _, h => by
    simp only [runTasks] at h
    have := (Prod.mk.inj h).1
    subst this
    exact ⟨rfl, hnf⟩
  | t :: l, s, s', hnf, hk, h => by
    simp only [runTasks] at h
    cases hrt : runTask s t with
    | mk s1 x =>
      cases x with
      | some x => simp [hrt] at h
      | none =>
        simp only [hrt] at h
        obtain ⟨h1, hnf1⟩ := runTask_items s s1 t hnf (hk t (List.mem_cons_self ..)) hrt
        obtain ⟨h2, hnf2⟩ := runTasks_items l s1 s' hnf1 (fun u hu => hk u (List.mem_cons_of_mem _ hu)) h
        refine ⟨?_, hnf2⟩
        simp only [List.flatMap_cons]
        rw [runAll_append, h1]
        exact h2

/-! ### sound declarations -/

/-- the task is an `ExprTask` as `set_value` builds it, or a function task whose declared dependencies and targets
    list the owner chains of everything its body reads and writes -/
def DeclOK (t : MTask) : Prop :=
  (∃ e, t.kind = .expr e ∧ t.deps = exprDeps e ∧ t.tars = chainR t.id) ∨
  (∃ body, t.kind = .func body ∧ (∀ b ∈ body, ∀ d ∈ chainR b.1, d ∈ t.tars) ∧
    (∀ b ∈ body, ∀ r ∈ leafRefs b.2, ∀ d ∈ chainR r, d ∈ t.deps))

theorem declOK_kind {t : MTask} (h : DeclOK t) : (∃ e, t.kind = .expr e) ∨ ∃ body, t.kind = .func body := by
  rcases h with ⟨e, he, _⟩ | ⟨b, hb, _⟩
  · exact Or.inl ⟨e, he⟩
  · exact Or.inr ⟨b, hb⟩

theorem declOK_tars {t : MTask} (h : DeclOK t) (it : ETask) (hit : it ∈ itemsOf t) : ∀ d ∈ chainR it.target, d ∈ t.tars := by
  rcases h with ⟨e, he, _, htars⟩ | ⟨body, hb, htars, _⟩
  · simp only [itemsOf, he, List.mem_singleton] at hit
    subst hit
    intro d hd; rw [htars]; exact hd
  · simp only [itemsOf, hb, List.mem_map] at hit
    obtain ⟨b, hbm, rfl⟩ := hit
    exact htars b hbm

theorem declOK_deps {t : MTask} (h : DeclOK t) (it : ETask) (hit : it ∈ itemsOf t) (r : Path)
    (hr : r ∈ leafRefs it.expr) : ∀ d ∈ chainR r, d ∈ t.deps := by
  rcases h with ⟨e, he, hdeps, _⟩ | ⟨body, hb, _, hdeps⟩
  · simp only [itemsOf, he, List.mem_singleton] at hit
    subst hit
    intro d hd
    rw [hdeps]
    exact (mem_exprDeps e d).mpr ⟨r, hr, hd⟩
  · simp only [itemsOf, hb, List.mem_map] at hit
    obtain ⟨b, hbm, rfl⟩ := hit
    exact hdeps b hbm r hr

/-- a task one of whose items reads what an item of another task writes is a successor of that task -/
theorem edge_of_readF (s : MState) (hi : MInv s) (u t : MTask) (hu : u ∈ s.defs) (ht : t ∈ s.defs)
    (hdu : DeclOK u) (hdt : DeclOK t) (a : ETask) (ha : a ∈ itemsOf u) (b : ETask) (hb : b ∈ itemsOf t)
    (hal : 2 ≤ a.target.length) (r : Path) (hr : r ∈ leafRefs b.expr) (hrl : 2 ≤ r.length)
    (hc : ¬ Incomparable a.target r) : t.id ∈ gOf s.idx u.id := by
  obtain ⟨d, hd1, hd2⟩ := common_of_not_incomparable a.target r hal hrl hc
  unfold gOf
  rw [RC.mem_keys_iff _ (hi.inv.wf2 u.id)]
  show DD.cnt2 s.idx.rtasks u.id t.id ≥ 1
  rw [hi.inv.rt, hi.link]
  exact sRt_pos _ u.id t.id u.toIdx t.toIdx (look_of_mem s.defs hi.ids u hu) (look_of_mem s.defs hi.ids t ht) d
    (declOK_tars hdu a ha d hd1) (declOK_deps hdt b hb r hr d hd2)

theorem start_of_readF (s : MState) (hi : MInv s) (p : Path) (t : MTask) (ht : t ∈ s.defs) (hdt : DeclOK t)
    (b : ETask) (hb : b ∈ itemsOf t) (hpl : 2 ≤ p.length) (r : Path) (hr : r ∈ leafRefs b.expr) (hrl : 2 ≤ r.length)
    (hc : ¬ Incomparable p r) : t.id ∈ startOf s.idx (chainR p) := by
  obtain ⟨d, hd1, hd2⟩ := common_of_not_incomparable p r hpl hrl hc
  unfold startOf
  rw [mem_uniq]
  refine List.mem_flatMap.mpr ⟨d, hd1, ?_⟩
  rw [RC.mem_keys_iff _ (hi.inv.wf3 d)]
  show DD.cnt2 s.idx.deptasks d t.id ≥ 1
  rw [hi.inv.dept, hi.link]
  exact sDep_pos _ t.id t.toIdx (look_of_mem s.defs hi.ids t ht) d (declOK_deps hdt b hb r hr d hd2)

/-! ### the scope with function tasks -/

structure ScopeF (s : MState) (p : Path) : Prop where
  decl : ∀ t ∈ s.defs, DeclOK t
  pathP : PathOK p
  paths : ∀ t ∈ s.defs, ∀ it ∈ itemsOf t, PathOK it.target ∧ ∀ r ∈ leafRefs it.expr, PathOK r
  acyclic : ∀ a b, (∃ s0 ∈ startOf s.idx (chainR p), Dfs3.Reach (gOf s.idx) s0 a) → a ≠ b →
      Dfs3.Reach (gOf s.idx) a b → Dfs3.Reach (gOf s.idx) b a → False
  /-- the locations written by different tasks are incomparable -/
  h2 : ∀ t ∈ s.defs, ∀ u ∈ s.defs, t.id ≠ u.id → ∀ a ∈ itemsOf t, ∀ b ∈ itemsOf u, Incomparable b.target a.target
  /-- … and so is the assigned one -/
  h2p : ∀ t ∈ s.defs, ∀ it ∈ itemsOf t, Incomparable p it.target
  /-- no item reads what it writes -/
  h3 : ∀ t ∈ s.defs, ∀ it ∈ itemsOf t, ∀ r ∈ leafRefs it.expr, Incomparable it.target r
  /-- within one body a later line does not disturb an earlier one -/
  body : ∀ t ∈ s.defs, (itemsOf t).Pairwise (fun a b => Incomparable b.target a.target ∧
      ∀ r ∈ leafRefs a.expr, Incomparable b.target r)
  nofault : s.faultIn = none

/-- **C01 with function tasks, `set_value(ref, value)` on a plain location.** -/
theorem writeAndRun_consistentF (sched : Sched) (s : MState) (p : Path) (v : Val) (hi : MInv s) (sc : ScopeF s p)
    (hvs : ValidSched (gOf s.idx) (findTaskids s.idx (chainR p)) (sched (findTaskids s.idx (chainR p))))
    (hc : ConsistentF s) (s' : MState) (hok : writeAndRun sched s p v = (s', none)) :
    ConsistentF s' ∧ s'.defs = s.defs ∧ s'.idx = s.idx := by
  unfold writeAndRun at hok
  cases hw : writeRef s p v with
  | mk s1 x =>
    cases x with
    | some x => simp [hw] at hok
    | none =>
      simp only [hw] at hok
      obtain ⟨hset, hnf1, hd1, hi1, _⟩ := writeRef_nofault s p v sc.nofault s1 hw
      rw [hi1, hd1] at hok
      generalize hm : List.mapM (lookTask s.defs) (sched (findTaskids s.idx (chainR p))) = res at hok
      cases res with
      | error e => simp at hok
      | ok l =>
        simp only at hok
        obtain ⟨hlmap, hlsub⟩ := mapM_lookDef s.defs _ (lookTask_ok s.defs) _ l hm
        obtain ⟨hrun, _⟩ := runTasks_items l s1 s' hnf1 (fun t ht => declOK_kind (sc.decl t (hlsub t ht))) hok
        have hg := runTasks_graph l s1
        rw [hok] at hg
        obtain ⟨hgi, hgd, _⟩ := hg
        obtain ⟨_, hmem, _⟩ := findTaskids_spec s hi (chainR p) sc.acyclic
        generalize hπ : sched (findTaskids s.idx (chainR p)) = π at hvs hlmap
        have memπ : ∀ x, x ∈ π ↔ ∃ s0 ∈ startOf s.idx (chainR p), Dfs3.Reach (gOf s.idx) s0 x :=
          fun x => (hvs.mem x).trans (hmem x)
        have hlπ : ∀ t ∈ l, t.id ∈ π := fun t ht => by rw [← hlmap]; exact List.mem_map_of_mem ht
        have hlnd : (l.map (·.id)).Nodup := by rw [hlmap]; exact hvs.nodup
        -- non-interference from the absence of an edge
        have niOf : ∀ U ∈ s.defs, ∀ T ∈ s.defs, U.id ≠ T.id → T.id ∉ gOf s.idx U.id →
            ∀ a ∈ itemsOf U, ∀ b ∈ itemsOf T, (exprSys pySem).NI a b := by
          intro U hU T hT hne hno a ha b hb
          refine ⟨(sc.paths U hU a ha).1.2, (sc.paths T hT b hb).1.2, sc.h2 T hT U hU (fun e => hne e.symm) b hb a ha, ?_⟩
          intro r hr
          refine ⟨((sc.paths T hT b hb).2 r hr).2, Classical.byContradiction fun hcmp => hno ?_⟩
          exact edge_of_readF s hi U T hU hT (sc.decl U hU) (sc.decl T hT) a ha b hb (sc.paths U hU a ha).1.1 r hr
            ((sc.paths T hT b hb).2 r hr).1 hcmp
        have key := runAll_Q (exprSys pySem) (l.flatMap itemsOf) s1.store s'.store
          (fun it => ∃ t ∈ s.defs, t.id ∉ π ∧ it ∈ itemsOf t) hrun
          (by
            intro it hit
            obtain ⟨t, ht, hitt⟩ := List.mem_flatMap.mp hit
            exact ⟨(sc.paths t (hlsub t ht) it hitt).1.2, fun r hr =>
              ⟨((sc.paths t (hlsub t ht) it hitt).2 r hr).2, sc.h3 t (hlsub t ht) it hitt r hr⟩⟩)
          (by
            -- items of untriggered tasks still hold after the user's write
            rintro it ⟨t, ht, hnot, hit⟩
            obtain ⟨hpt, hpr⟩ := sc.paths t ht it hit
            refine Capstone.Q_after_set pySem it s.store s1.store p v (hc t ht it hit) hset sc.pathP.2 hpt.2
              (sc.h2p t ht it hit) ?_
            intro r hr
            refine ⟨(hpr r hr).2, Classical.byContradiction fun hcmp => hnot ?_⟩
            have := start_of_readF s hi p t ht (sc.decl t ht) it hit sc.pathP.1 r hr (hpr r hr).1 hcmp
            exact (memπ t.id).mpr ⟨t.id, this, Dfs3.Reach.refl _⟩)
          (by
            -- and no triggered item disturbs them
            rintro it ⟨t, ht, hnot, hit⟩ u hu
            obtain ⟨U, hU, huU⟩ := List.mem_flatMap.mp hu
            have hne : U.id ≠ t.id := fun e => hnot (e ▸ hlπ U hU)
            refine niOf U (hlsub U hU) t ht hne ?_ u huU it hit
            intro hedge
            obtain ⟨s0, hs0, hreach⟩ := (memπ U.id).mp (hlπ U hU)
            exact hnot ((memπ t.id).mpr ⟨s0, hs0, hreach.tail hedge⟩))
          (by
            -- the flattened list is in dependency order
            rw [List.pairwise_flatMap]
            constructor
            · intro t ht
              refine (sc.body t (hlsub t ht)).imp_of_mem ?_
              intro a b ha hb hab
              exact ⟨(sc.paths t (hlsub t ht) b hb).1.2, (sc.paths t (hlsub t ht) a ha).1.2, hab.1,
                fun r hr => ⟨((sc.paths t (hlsub t ht) a ha).2 r hr).2, hab.2 r hr⟩⟩
            · apply Capstone.pairwise_of_before (·.id) _ l hlnd
              intro A hA B hB hne hnot
              rw [hlmap]
              -- some item of B disturbs some item of A: B is a predecessor of A
              have hedge : A.id ∈ gOf s.idx B.id := by
                refine Classical.byContradiction fun hno => hnot ?_
                intro a ha b hb
                exact niOf B (hlsub B hB) A (hlsub A hA) (fun e => hne e.symm) hno b hb a ha
              exact hvs.order B.id A.id (hlπ B hB) (hlπ A hA) hedge hne)
        refine ⟨?_, by rw [hgd, hd1], by rw [hgi, hi1]⟩
        intro t ht it hit
        rw [hgd, hd1] at ht
        by_cases hin : t.id ∈ π
        · have : t.id ∈ l.map (·.id) := by rw [hlmap]; exact hin
          obtain ⟨t', ht', hte⟩ := List.mem_map.mp this
          have : t' = t := eq_of_id_eq s.defs hi.ids t' (hlsub t' ht') t ht hte
          subst this
          exact key.2 it (List.mem_flatMap.mpr ⟨t', ht', hit⟩)
        · exact key.1 it ⟨t, ht, hin, hit⟩

/-- **`set_value(ref, value)` on a plain location, expression and function tasks.** -/
theorem setValue_consistentF (sched : Sched) (s : MState) (p : Path) (v : Val) (hi : MInv s)
    (hnodef : lookDef s.defs p = none) (sc : ScopeF s p)
    (hvs : ValidSched (gOf s.idx) (findTaskids s.idx (chainR p)) (sched (findTaskids s.idx (chainR p))))
    (hc : ConsistentF s) (s' : MState) (hok : setValue sched s p v = (s', none)) : ConsistentF s' := by
  have : setValue sched s p v = writeAndRun sched s p v := by
    unfold setValue; simp only [hnodef]
  rw [this] at hok
  exact (writeAndRun_consistentF sched s p v hi sc hvs hc s' hok).1

/-! ### decided -/

def declOKB (t : MTask) : Bool :=
  match t.kind with
  | .expr e => decide (t.deps = exprDeps e) && decide (t.tars = chainR t.id)
  | .func body =>
    body.all (fun b => (chainR b.1).all (fun d => decide (d ∈ t.tars))) &&
    body.all (fun b => (leafRefs b.2).all (fun r => (chainR r).all (fun d => decide (d ∈ t.deps))))
  | .knob _ _ _ => false

theorem declOKB_sound (t : MTask) (h : declOKB t = true) : DeclOK t := by
  unfold declOKB at h
  cases hk : t.kind with
  | expr e =>
    simp only [hk, Bool.and_eq_true, decide_eq_true_eq] at h
    exact Or.inl ⟨e, hk, h.1, h.2⟩
  | func body =>
    simp only [hk, Bool.and_eq_true, List.all_eq_true, decide_eq_true_eq] at h
    exact Or.inr ⟨body, hk, h.1, h.2⟩
  | knob a b c => simp [hk] at h

/-- later lines of a body do not disturb earlier ones -/
def bodyOKB : List ETask → Bool
  | [] => true
  | a :: rest => rest.all (fun b => !(comparable b.target a.target) &&
      (leafRefs a.expr).all (fun r => !(comparable b.target r))) && bodyOKB rest

theorem bodyOKB_sound : ∀ l : List ETask, bodyOKB l = true →
    l.Pairwise (fun a b => Incomparable b.target a.target ∧ ∀ r ∈ leafRefs a.expr, Incomparable b.target r)
  | [], _ => List.Pairwise.nil
  | a :: rest, h => by
    simp only [bodyOKB, Bool.and_eq_true, List.all_eq_true, Bool.not_eq_eq_eq_not, Bool.not_true] at h
    refine List.pairwise_cons.mpr ⟨?_, bodyOKB_sound rest h.2⟩
    intro b hb
    obtain ⟨h1, h2⟩ := h.1 b hb
    exact ⟨incomparable_of_not_comparable _ _ h1, fun r hr => incomparable_of_not_comparable _ _ (h2 r hr)⟩

def scopeFB (s : MState) (p : Path) : Bool :=
  s.defs.all declOKB && pathOKB p &&
  s.defs.all (fun t => (itemsOf t).all (fun it => pathOKB it.target && (leafRefs it.expr).all pathOKB)) &&
  acyclicFrom s.idx (startOf s.idx (chainR p)) &&
  s.defs.all (fun t => s.defs.all (fun u => decide (t.id = u.id) ||
    (itemsOf t).all (fun a => (itemsOf u).all (fun b => !(comparable b.target a.target))))) &&
  s.defs.all (fun t => (itemsOf t).all (fun it => !(comparable p it.target))) &&
  s.defs.all (fun t => (itemsOf t).all (fun it => (leafRefs it.expr).all (fun r => !(comparable it.target r)))) &&
  s.defs.all (fun t => bodyOKB (itemsOf t)) &&
  s.faultIn.isNone

theorem scopeFB_sound (s : MState) (hi : MInv s) (p : Path) (h : scopeFB s p = true) : ScopeF s p := by
  unfold scopeFB at h
  simp only [Bool.and_eq_true, List.all_eq_true, Bool.or_eq_true, decide_eq_true_eq, Bool.not_eq_eq_eq_not,
    Bool.not_true] at h
  obtain ⟨⟨⟨⟨⟨⟨⟨⟨hdecl, hp⟩, hpaths⟩, hac⟩, h2⟩, h2p⟩, h3⟩, hbody⟩, hnf⟩ := h
  exact
    { decl := fun t ht => declOKB_sound t (hdecl t ht)
      pathP := pathOKB_sound p hp
      paths := fun t ht it hit => ⟨pathOKB_sound _ (hpaths t ht it hit).1,
        fun r hr => pathOKB_sound r ((hpaths t ht it hit).2 r hr)⟩
      acyclic := acyclicFrom_sound s hi (chainR p) hac
      h2 := by
        intro t ht u hu hne a ha b hb
        rcases h2 t ht u hu with h | h
        · exact absurd h hne
        · exact incomparable_of_not_comparable _ _ (h a ha b hb)
      h2p := fun t ht it hit => incomparable_of_not_comparable _ _ (h2p t ht it hit)
      h3 := fun t ht it hit r hr => incomparable_of_not_comparable _ _ (h3 t ht it hit r hr)
      body := fun t ht => bodyOKB_sound _ (hbody t ht)
      nofault := by
        cases hf : s.faultIn with
        | none => rfl
        | some k => simp [hf] at hnf }

end Manager
