import XModel.Store
/-! Writes to prefix-incomparable, existing locations commute (the container-tree fact behind the
    independence of the result from the order in which independent tasks run, C20). -/
namespace Store

/-! ### association lists and value lists -/

theorem KVs.update_update_same (kvs : KVs) (k : Key) (x y : Val) :
    KVs.update (KVs.update kvs k x) k y = KVs.update kvs k y := by
  induction kvs with
  | nil => simp [KVs.update]
  | cons kv rest ih =>
    obtain ⟨k0, v0⟩ := kv
    by_cases h : k0 = k
    · simp [KVs.update, h]
    · simp [KVs.update, h, ih]

/-- updates of two different keys commute when the first key is present (no new key is appended by it) -/
theorem KVs.update_comm (kvs : KVs) (k k' : Key) (x y : Val) (hne : k ≠ k') (hk : (KVs.lookup kvs k).isSome) :
    KVs.update (KVs.update kvs k x) k' y = KVs.update (KVs.update kvs k' y) k x := by
  induction kvs with
  | nil => simp [KVs.lookup] at hk
  | cons kv rest ih =>
    obtain ⟨k0, v0⟩ := kv
    by_cases h : k0 = k
    · subst h
      simp [KVs.update, hne]
    · by_cases h' : k0 = k'
      · subst h'
        simp [KVs.update, h]
      · have hk' : (KVs.lookup rest k).isSome := by simpa [KVs.lookup, h] using hk
        simp [KVs.update, h, h', ih hk']

theorem Vals.set?_set?_same : ∀ (xs ys : Vals) (n : Nat) (x y : Val), Vals.set? xs n x = some ys →
    Vals.set? ys n y = Vals.set? xs n y
  | [], _, _, _, _, h => by simp [Vals.set?] at h
  | v :: rest, ys, 0, x, y, h => by
    simp [Vals.set?] at h; subst h; simp [Vals.set?]
  | v :: rest, ys, n+1, x, y, h => by
    simp only [Vals.set?, Option.map_eq_some_iff] at h
    obtain ⟨zs, hz, rfl⟩ := h
    simp only [Vals.set?]
    rw [Vals.set?_set?_same rest zs n x y hz]

theorem Vals.set?_comm : ∀ (xs ys zs : Vals) (n m : Nat) (x y : Val), n ≠ m → Vals.set? xs n x = some ys →
    Vals.set? ys m y = some zs → ∃ ws, Vals.set? xs m y = some ws ∧ Vals.set? ws n x = some zs
  | [], _, _, _, _, _, _, _, h, _ => by simp [Vals.set?] at h
  | v :: rest, ys, zs, 0, 0, x, y, hne, _, _ => absurd rfl hne
  | v :: rest, ys, zs, 0, m+1, x, y, _, h1, h2 => by
    simp [Vals.set?] at h1; subst h1
    simp only [Vals.set?, Option.map_eq_some_iff] at h2
    obtain ⟨ws, hw, rfl⟩ := h2
    exact ⟨v :: ws, by simp [Vals.set?, hw], by simp [Vals.set?]⟩
  | v :: rest, ys, zs, n+1, 0, x, y, _, h1, h2 => by
    simp only [Vals.set?, Option.map_eq_some_iff] at h1
    obtain ⟨us, hu, rfl⟩ := h1
    simp [Vals.set?] at h2; subst h2
    exact ⟨y :: rest, by simp [Vals.set?], by simp [Vals.set?, hu]⟩
  | v :: rest, ys, zs, n+1, m+1, x, y, hne, h1, h2 => by
    simp only [Vals.set?, Option.map_eq_some_iff] at h1
    obtain ⟨us, hu, rfl⟩ := h1
    simp only [Vals.set?, Option.map_eq_some_iff] at h2
    obtain ⟨ts, ht, rfl⟩ := h2
    obtain ⟨ws, hw1, hw2⟩ := Vals.set?_comm rest us ts n m x y (fun e => hne (by omega)) hu ht
    exact ⟨v :: ws, by simp [Vals.set?, hw1], by simp [Vals.set?, hw2]⟩

/-! ### one step -/

/-- writing the same step twice: the second write wins -/
theorem setStep_overwrite {v v1 : Val} {s : Step} {x : Val} (y : Val) (h : setStep v s x = .ok v1) :
    setStep v1 s y = setStep v s y := by
  cases v <;> cases s <;> simp only [setStep] at h <;> try (cases h; done)
  · rename_i kvs k
    cases h
    simp [setStep, KVs.update_update_same]
  · rename_i xs k
    cases k with
    | str s => simp at h
    | int i =>
      simp only at h
      split at h
      · next n hn =>
        split at h
        · next ys hy =>
          cases h
          simp only [setStep, Vals.length_set? hy, hn, Vals.set?_set?_same xs ys n x y hy]
        · cases h
      · cases h
  · rename_i as a
    cases h
    simp [setStep, KVs.update_update_same]

/-- writes through two different canonical steps commute when the first step exists -/
theorem setStep_comm {v v1 v12 : Val} {s s' : Step} {x y : Val} (hne : s ≠ s') (hc : s.canon) (hc' : s'.canon)
    (hex : ∃ a, getStep v s = .ok a)
    (h1 : setStep v s x = .ok v1) (h2 : setStep v1 s' y = .ok v12) :
    ∃ v2, setStep v s' y = .ok v2 ∧ setStep v2 s x = .ok v12 := by
  obtain ⟨a, ha⟩ := hex
  cases v with
  | int i => cases s <;> simp [setStep] at h1
  | none => cases s <;> simp [setStep] at h1
  | nan => cases s <;> simp [setStep] at h1
  | dict kvs =>
    cases s with
    | attr a' => simp [setStep] at h1
    | item k =>
      simp only [setStep, Except.ok.injEq] at h1
      subst h1
      cases s' with
      | attr a' => simp [setStep] at h2
      | item k' =>
        simp only [setStep, Except.ok.injEq] at h2
        subst h2
        have hk : k ≠ k' := fun e => hne (by rw [e])
        have hpres : (KVs.lookup kvs k).isSome := by
          simp only [getStep] at ha
          cases hl : KVs.lookup kvs k with
          | none => simp [hl] at ha
          | some _ => rfl
        exact ⟨_, rfl, by simp [setStep, KVs.update_comm kvs k k' x y hk hpres]⟩
  | obj as =>
    cases s with
    | item k => simp [setStep] at h1
    | attr a1 =>
      simp only [setStep, Except.ok.injEq] at h1
      subst h1
      cases s' with
      | item k => simp [setStep] at h2
      | attr a2 =>
        simp only [setStep, Except.ok.injEq] at h2
        subst h2
        have hk : Key.str a1 ≠ Key.str a2 := fun e => hne (by cases e; rfl)
        have hpres : (KVs.lookup as (.str a1)).isSome := by
          simp only [getStep] at ha
          cases hl : KVs.lookup as (.str a1) with
          | none => simp [hl] at ha
          | some _ => rfl
        exact ⟨_, rfl, by simp [setStep, KVs.update_comm as _ _ x y hk hpres]⟩
  | list xs =>
    cases s with
    | attr a' => simp [setStep] at h1
    | item k =>
      cases k with
      | str _ => simp [setStep] at h1
      | int i =>
        simp only [setStep] at h1
        split at h1
        · next n hn =>
          split at h1
          · next ys hy =>
            cases h1
            cases s' with
            | attr a' => simp [setStep] at h2
            | item k' =>
              cases k' with
              | str _ => simp [setStep] at h2
              | int j =>
                simp only [setStep, Vals.length_set? hy] at h2
                split at h2
                · next m hm =>
                  split at h2
                  · next zs hz =>
                    cases h2
                    have hij : i ≠ j := fun e => hne (by rw [e])
                    have e1 := normIdx_nonneg (by simpa [Step.canon] using hc) hn
                    have e2 := normIdx_nonneg (by simpa [Step.canon] using hc') hm
                    have hnm : n ≠ m := fun e => hij (by omega)
                    obtain ⟨ws, hw1, hw2⟩ := Vals.set?_comm xs ys zs n m x y hnm hy hz
                    refine ⟨.list ws, by simp [setStep, hm, hw1], ?_⟩
                    simp [setStep, Vals.length_set? hw1, hn, hw2]
                  · cases h2
                · cases h2
          · cases h1
        · cases h1

/-- a step that can be read can be written -/
theorem setStep_ok_of_getStep {v a : Val} {s : Step} (x : Val) (h : getStep v s = .ok a) :
    ∃ v', setStep v s x = .ok v' := by
  cases v with
  | int i => cases s <;> simp [getStep] at h
  | none => cases s <;> simp [getStep] at h
  | nan => cases s <;> simp [getStep] at h
  | dict kvs => cases s with
    | attr _ => simp [getStep] at h
    | item k => exact ⟨_, rfl⟩
  | obj as => cases s with
    | item _ => simp [getStep] at h
    | attr a1 => exact ⟨_, rfl⟩
  | list xs =>
    cases s with
    | attr _ => simp [getStep] at h
    | item k =>
      cases k with
      | str _ => simp [getStep] at h
      | int i =>
        simp only [getStep] at h
        split at h
        · next n hn =>
          split at h
          · next a' hg =>
            have : ∃ ys, Vals.set? xs n x = some ys := by
              clear h hn
              induction xs generalizing n with
              | nil => simp [Vals.get?] at hg
              | cons v rest ih =>
                cases n with
                | zero => exact ⟨_, rfl⟩
                | succ n =>
                  simp only [Vals.get?] at hg
                  obtain ⟨ys, hy⟩ := ih n hg
                  exact ⟨v :: ys, by simp [Vals.set?, hy]⟩
            obtain ⟨ys, hy⟩ := this
            exact ⟨.list ys, by simp [setStep, hn, hy]⟩
          · cases h
        · cases h

/-! ### paths -/

/-- a location that can be read can be written -/
theorem set_ok_of_get : ∀ (p : List Step) (v a : Val) (x : Val), p ≠ [] → get v p = .ok a → ∃ v', set v p x = .ok v'
  | [], _, _, _, h, _ => absurd rfl h
  | [s], v, a, x, _, h => by
    simp only [get, bind, Except.bind] at h
    cases hs : getStep v s with
    | error e => simp [hs] at h
    | ok c => simpa [set] using setStep_ok_of_getStep x hs
  | s :: t :: p, v, a, x, _, h => by
    simp only [get, bind, Except.bind] at h
    cases hs : getStep v s with
    | error e => simp [hs] at h
    | ok c =>
      simp only [hs] at h
      obtain ⟨c', hc'⟩ := set_ok_of_get (t :: p) c a x (by simp) (by simpa [get, bind, Except.bind] using h)
      obtain ⟨v', hv'⟩ := setStep_ok_of_getStep c' hs
      exact ⟨v', by rw [set_cons_cons]; simp [hs, hc', hv', bind, Except.bind]⟩

/-- uniform unfolding of `set` on a non-empty path -/
theorem set_cons (v : Val) (s : Step) (p : List Step) (x : Val) :
    set v (s :: p) x = (if p = [] then setStep v s x else
      (match getStep v s with
       | .error e => .error e
       | .ok c => (match set c p x with | .error e => .error e | .ok c' => setStep v s c'))) := by
  cases p with
  | nil => simp [set]
  | cons t p =>
    rw [set_cons_cons]
    simp only [bind, Except.bind, reduceCtorEq, if_false]
    cases hc : getStep v s with
    | error e => rfl
    | ok c =>
      simp only
      cases hs : set c (t :: p) x <;> rfl

/-- what a write leaves at its first step: the written value itself, or the updated child -/
theorem set_first_step {v v1 : Val} {s : Step} {p : List Step} {x : Val} (h : set v (s :: p) x = .ok v1) :
    ∃ w, setStep v s w = .ok v1 ∧
      ((p = [] ∧ w = x) ∨ (p ≠ [] ∧ ∃ c, getStep v s = .ok c ∧ set c p x = .ok w)) := by
  rw [set_cons] at h
  by_cases hp : p = []
  · simp only [hp, if_true] at h
    exact ⟨x, h, Or.inl ⟨hp, rfl⟩⟩
  · simp only [hp, if_false] at h
    cases hc : getStep v s with
    | error e => simp [hc] at h
    | ok c =>
      simp only [hc] at h
      cases hw : set c p x with
      | error e => simp [hw] at h
      | ok w =>
        simp only [hw] at h
        exact ⟨w, h, Or.inr ⟨hp, c, rfl, hw⟩⟩

/-- **writes to incomparable existing locations commute** -/
theorem set_comm : ∀ (p q : List Step) (v v1 v12 a b : Val) (pa qb : Val), Incomparable p q →
    (∀ s ∈ p, s.canon) → (∀ s ∈ q, s.canon) → get v p = .ok pa → get v q = .ok qb →
    set v p a = .ok v1 → set v1 q b = .ok v12 →
    ∃ v2, set v q b = .ok v2 ∧ set v2 p a = .ok v12
  | [], _, _, _, _, _, _, _, _, hi, _, _, _, _, _, _ => by simp [Incomparable] at hi
  | _ :: _, [], _, _, _, _, _, _, _, hi, _, _, _, _, _, _ => by simp [Incomparable] at hi
  | s :: p, t :: q, v, v1, v12, a, b, pa, qb, hi, hcp, hcq, hgp, hgq, h1, h2 => by
    have hsc : s.canon := hcp s (List.mem_cons_self ..)
    have htc : t.canon := hcq t (List.mem_cons_self ..)
    -- the first steps exist
    have hexs : ∃ c, getStep v s = .ok c := by
      simp only [get, bind, Except.bind] at hgp
      cases hs : getStep v s with
      | error e => simp [hs] at hgp
      | ok c => exact ⟨c, rfl⟩
    have hext : ∃ c, getStep v t = .ok c := by
      simp only [get, bind, Except.bind] at hgq
      cases hs : getStep v t with
      | error e => simp [hs] at hgq
      | ok c => exact ⟨c, rfl⟩
    obtain ⟨w1, hw1, hw1'⟩ := set_first_step h1
    obtain ⟨w2, hw2, hw2'⟩ := set_first_step h2
    by_cases hst : s = t
    · -- same first step: both writes go into the same child
      subst hst
      have hi' : Incomparable p q := by
        simp only [Incomparable] at hi
        rcases hi with h | h
        · exact absurd rfl h
        · exact h
      have hpne : p ≠ [] := by intro e; subst e; simp [Incomparable] at hi'
      have hqne : q ≠ [] := by intro e; subst e; cases p <;> simp [Incomparable] at hi'
      obtain ⟨c, hc⟩ := hexs
      rcases hw1' with ⟨e, _⟩ | ⟨_, c0, hc0, hset1⟩
      · exact absurd e hpne
      rcases hw2' with ⟨e, _⟩ | ⟨_, c1, hc1, hset2⟩
      · exact absurd e hqne
      rw [hc] at hc0; cases hc0
      have hg1 : getStep v1 s = .ok w1 := getStep_setStep_same hw1
      rw [hg1] at hc1; cases hc1
      -- inside the child
      have hgp' : get c p = .ok pa := by simpa [get, hc, bind, Except.bind] using hgp
      have hgq' : get c q = .ok qb := by simpa [get, hc, bind, Except.bind] using hgq
      obtain ⟨c2, hc2a, hc2b⟩ := set_comm p q c w1 w2 a b pa qb hi'
        (fun s hs => hcp s (List.mem_cons_of_mem _ hs)) (fun s hs => hcq s (List.mem_cons_of_mem _ hs))
        hgp' hgq' hset1 hset2
      obtain ⟨v2, hv2⟩ := setStep_ok_of_getStep c2 hc
      refine ⟨v2, ?_, ?_⟩
      · rw [set_cons]; simp [hqne, hc, hc2a, hv2]
      · rw [set_cons]
        have hg2 : getStep v2 s = .ok c2 := getStep_setStep_same hv2
        simp only [hpne, if_false, hg2, hc2b]
        rw [setStep_overwrite w2 hv2, ← setStep_overwrite w2 hw1]
        exact hw2
    · -- different first steps: different children
      have hg_t : getStep v1 t = getStep v t := getStep_setStep_other hw1 hst hsc htc
      obtain ⟨v2', hv2'a, hv2'b⟩ := setStep_comm hst hsc htc hexs hw1 hw2
      -- the value written at `t` does not depend on the first write
      have hw2v : ((q = [] ∧ w2 = b) ∨ (q ≠ [] ∧ ∃ c, getStep v t = .ok c ∧ set c q b = .ok w2)) := by
        rcases hw2' with h | ⟨hq, c, hc, hs⟩
        · exact Or.inl h
        · exact Or.inr ⟨hq, c, by rw [← hg_t]; exact hc, hs⟩
      have hset_q : set v (t :: q) b = .ok v2' := by
        rw [set_cons]
        rcases hw2v with ⟨hq, rfl⟩ | ⟨hq, c, hc, hs⟩
        · simp [hq, hv2'a]
        · simp [hq, hc, hs, hv2'a]
      refine ⟨v2', hset_q, ?_⟩
      have hg_s : getStep v2' s = getStep v s := getStep_setStep_other hv2'a (fun e => hst e.symm) htc hsc
      rw [set_cons]
      rcases hw1' with ⟨hp, rfl⟩ | ⟨hp, c, hc, hs⟩
      · simp [hp, hv2'b]
      · simp [hp, hg_s, hc, hs, hv2'b]

end Store
