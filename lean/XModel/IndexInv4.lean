import XModel.IndexInv3
/-! Prototype: the repaired `unregister` (comprehension form) restores the index invariant. -/
namespace Index
variable {κ ρ : Type} [DecidableEq κ] [DecidableEq ρ]

def DD.rows (d : DD ρ κ) : List ρ := d.map (·.1)

theorem DD.get_eq_nil_of_not_mem (d : DD ρ κ) (a : ρ) (h : a ∉ DD.rows d) : DD.get d a = [] := by
  induction d with
  | nil => rfl
  | cons p r ih =>
    obtain ⟨a', m⟩ := p
    simp only [DD.rows, List.map_cons, List.mem_cons, not_or] at h
    have : a' ≠ a := fun e => h.1 e.symm
    simp only [DD.get, this, if_false]
    exact ih h.2

theorem DD.get_del (d : DD ρ κ) (hnd : (DD.rows d).Nodup) (a b : ρ) :
    DD.get (DD.del d a) b = if a = b then [] else DD.get d b := by
  induction d with
  | nil => simp [DD.del, DD.get]
  | cons p r ih =>
    obtain ⟨a', m⟩ := p
    have hn : a' ∉ DD.rows r ∧ (DD.rows r).Nodup := by simpa [DD.rows] using hnd
    simp only [DD.del]
    by_cases h : a' = a
    · subst h
      simp only [if_true]
      by_cases h2 : a' = b
      · subst h2; simp [DD.get_eq_nil_of_not_mem r a' hn.1]
      · simp [DD.get, h2]
    · simp only [h, if_false, DD.get]
      by_cases h2 : a' = b
      · subst h2
        have : a ≠ a' := fun e => h e.symm
        simp [this]
      · simp only [h2, if_false]; exact ih hn.2

theorem DD.rows_modify (d : DD ρ κ) (a : ρ) (f : RC κ → RC κ) (hnd : (DD.rows d).Nodup) :
    (DD.rows (DD.modify d a f)).Nodup := by
  induction d with
  | nil => simp [DD.modify, DD.rows]
  | cons p r ih =>
    obtain ⟨a', m⟩ := p
    have hn : a' ∉ DD.rows r ∧ (DD.rows r).Nodup := by simpa [DD.rows] using hnd
    simp only [DD.modify]
    by_cases h : a' = a
    · subst h; simpa [DD.rows] using hnd
    · simp only [h, if_false]
      show (a' :: DD.rows (DD.modify r a f)).Nodup
      refine List.nodup_cons.mpr ⟨?_, ih hn.2⟩
      intro hmem
      -- rows of modify ⊆ a :: rows
      have sub : ∀ (r : DD ρ κ) x, x ∈ DD.rows (DD.modify r a f) → x = a ∨ x ∈ DD.rows r := by
        intro r
        induction r with
        | nil => intro x hx; simpa [DD.modify, DD.rows] using hx
        | cons q r ihr =>
          obtain ⟨a2, m2⟩ := q
          intro x hx
          simp only [DD.modify] at hx
          by_cases h3 : a2 = a
          · subst h3; right; simpa [DD.rows] using hx
          · simp only [h3, if_false, DD.rows, List.map_cons, List.mem_cons] at hx ⊢
            rcases hx with hx | hx
            · exact Or.inr (Or.inl hx)
            · rcases ihr x hx with h4 | h4
              · exact Or.inl h4
              · exact Or.inr (Or.inr h4)
      rcases sub r a' hmem with h4 | h4
      · exact h h4
      · exact hn.1 h4

theorem rmAll_rows (d : DD ρ κ) (hnd : (DD.rows d).Nodup) (xs : List (ρ × κ)) : (DD.rows (rmAll d xs)).Nodup := by
  induction xs generalizing d with
  | nil => simpa [rmAll] using hnd
  | cons p xs ih =>
    simp only [rmAll, List.foldl_cons]
    exact ih _ (DD.rows_modify d p.1 _ hnd)

theorem rmAll_WF (d : DD ρ κ) (h : DD.WF d) (xs : List (ρ × κ)) : DD.WF (rmAll d xs) := by
  induction xs generalizing d with
  | nil => simpa [rmAll] using h
  | cons p xs ih =>
    simp only [rmAll, List.foldl_cons]
    apply ih
    intro a
    rw [DD.get_modify]
    split
    · exact rmIf_WF _ (h _) _
    · exact h a

/-- repaired `Manager.unregister`, each loop as one comprehension -/
def unregister' (s : Mgr ρ κ) (t : Task ρ κ) : Mgr ρ κ :=
  let rdeps := rmAll s.rdeps (t.deps.flatMap fun dep => t.tars.map fun tar => (dep, tar))
  let rt1 := rmAll s.rtasks (t.deps.flatMap fun dep => (RC.keys (DD.get s.tartasks dep)).map fun u => (u, t.id))
  let deptasks := rmAll s.deptasks (t.deps.map fun dep => (dep, t.id))
  let tartasks := rmAll s.tartasks (t.tars.map fun tar => (tar, t.id))
  { tasks := s.tasks.filter (fun x => !decide (x.id = t.id)), rdeps := rdeps, rtasks := DD.del rt1 t.id,
    deptasks := deptasks, tartasks := tartasks }

theorem look_filter (ts : List (Task ρ κ)) (id k : κ) :
    look (ts.filter (fun x => !decide (x.id = id))) k = if k = id then none else look ts k := by
  unfold look
  induction ts with
  | nil => simp
  | cons x ts ih =>
    by_cases hx : x.id = id
    · have : List.filter (fun x => !decide (x.id = id)) (x :: ts) = List.filter (fun x => !decide (x.id = id)) ts := by
        simp [List.filter_cons, hx]
      rw [this, ih]
      by_cases hk : k = id
      · simp [hk]
      · have : ¬ (x.id = k) := fun e => hk (e ▸ hx)
        simp [hk, List.find?_cons, this]
    · have : List.filter (fun x => !decide (x.id = id)) (x :: ts) = x :: List.filter (fun x => !decide (x.id = id)) ts := by
        simp [List.filter_cons, hx]
      rw [this]
      simp only [List.find?_cons]
      by_cases hxk : x.id = k
      · have : k ≠ id := fun e => hx (hxk.trans e)
        simp [hxk, this]
      · simp only [hxk, decide_false]
        exact ih

/-- with distinct ids, the tasks carrying `t`'s id are exactly `t` -/
theorem sRdeps_filter (ts : List (Task ρ κ)) (t : Task ρ κ) (hids : (ts.map (·.id)).Nodup) (ht : t ∈ ts) (d r : ρ) :
    sRdeps (ts.filter (fun x => !decide (x.id = t.id))) d r = sRdeps ts d r - (if d ∈ t.deps ∧ r ∈ t.tars then 1 else 0) := by
  unfold sRdeps
  induction ts with
  | nil => cases ht
  | cons x ts ih =>
    have hn : x.id ∉ ts.map (·.id) ∧ (ts.map (·.id)).Nodup := by simpa using hids
    rcases List.mem_cons.mp ht with rfl | ht'
    · -- head is t; nobody else carries its id
      have hrest : ts.filter (fun x => !decide (x.id = t.id)) = ts := by
        apply List.filter_eq_self.mpr
        intro y hy
        have : y.id ≠ t.id := fun e => hn.1 (e ▸ List.mem_map_of_mem hy)
        simpa using this
      have : List.filter (fun x => !decide (x.id = t.id)) (t :: ts) = ts := by
        simp [List.filter_cons, hrest]
      rw [this]
      by_cases hc : d ∈ t.deps ∧ r ∈ t.tars <;> simp [List.filter_cons, hc]
    · have hxt : x.id ≠ t.id := fun e => hn.1 (e ▸ List.mem_map_of_mem ht')
      have hf : List.filter (fun x => !decide (x.id = t.id)) (x :: ts) = x :: List.filter (fun x => !decide (x.id = t.id)) ts := by
        simp [List.filter_cons, hxt]
      rw [hf]
      simp only [List.filter_cons]
      have := ih hn.2 ht'
      by_cases hcx : d ∈ x.deps ∧ r ∈ x.tars
      · simp only [hcx, and_self, decide_true, if_true, List.length_cons]
        -- t ∈ ts contributes to the count when it matches, so the subtraction does not truncate
        have hpos : (if d ∈ t.deps ∧ r ∈ t.tars then 1 else 0) ≤ (ts.filter (fun t => decide (d ∈ t.deps ∧ r ∈ t.tars))).length := by
          by_cases hc : d ∈ t.deps ∧ r ∈ t.tars
          · simp only [hc, and_self, if_true]
            exact List.length_pos_of_mem (List.mem_filter.mpr ⟨ht', by simpa using hc⟩)
          · simp [hc]
        omega
      · simp only [hcx, decide_false]
        exact this


theorem unregister_inv (s : Mgr ρ κ) (t : Task ρ κ) (h : Inv s) (hids : (s.tasks.map (·.id)).Nodup)
    (hrows : (DD.rows s.rtasks).Nodup) (hl : look s.tasks t.id = some t) : Inv (unregister' s t) := by
  have htm : t ∈ s.tasks := (look_mem hl).1
  have hd : t.deps.Nodup := (h.wfT t htm).1
  have ht : t.tars.Nodup := (h.wfT t htm).2
  have keysND1 : ∀ dep, (RC.keys (DD.get s.tartasks dep)).Nodup := fun dep => (h.wf4 dep).1
  have mem1 : ∀ u dep, (u ∈ RC.keys (DD.get s.tartasks dep)) ↔ sTar s.tasks dep u ≥ 1 := by
    intro u dep
    rw [RC.mem_keys_iff _ (h.wf4 dep)]
    show DD.cnt2 s.tartasks dep u ≥ 1 ↔ _
    rw [h.tart]
  refine
    { wfT := ?_, wf1 := rmAll_WF _ h.wf1 _, wf2 := ?_, wf3 := rmAll_WF _ h.wf3 _,
      wf4 := rmAll_WF _ h.wf4 _, rdeps := ?_, dept := ?_, tart := ?_, rt := ?_ }
  · intro x hx
    exact h.wfT x (List.mem_filter.mp hx).1
  · intro a
    show RC.WF (DD.get (DD.del _ t.id) a)
    rw [DD.get_del _ (rmAll_rows _ hrows _)]
    split
    · exact ⟨by simp [RC.keys], by simp⟩
    · exact rmAll_WF _ h.wf2 _ a
  · intro d r
    show DD.cnt2 (rmAll s.rdeps _) d r = sRdeps (s.tasks.filter _) d r
    rw [rmAll_cnt _ h.wf1, h.rdeps, count_pairs t.deps t.tars hd ht, sRdeps_filter s.tasks t hids htm]
  · intro d k
    show DD.cnt2 (rmAll s.deptasks _) d k = sDep (s.tasks.filter _) d k
    rw [rmAll_cnt _ h.wf3, h.dept, count_map_pair_left t.deps hd]
    simp only [sDep, look_filter]
    by_cases hk : k = t.id
    · subst hk; simp only [hl, if_true]; by_cases hm : d ∈ t.deps <;> simp [hm]
    · simp [hk]
  · intro r k
    show DD.cnt2 (rmAll s.tartasks _) r k = sTar (s.tasks.filter _) r k
    rw [rmAll_cnt _ h.wf4, h.tart, count_map_pair_left t.tars ht]
    simp only [sTar, look_filter]
    by_cases hk : k = t.id
    · subst hk; simp only [hl, if_true]; by_cases hm : r ∈ t.tars <;> simp [hm]
    · simp [hk]
  · intro u k
    show RC.cnt (DD.get (DD.del (rmAll s.rtasks _) t.id) u) k = sRt (s.tasks.filter _) u k
    rw [DD.get_del _ (rmAll_rows _ hrows _)]
    simp only [sRt, look_filter]
    by_cases hu : u = t.id
    · subst hu; simp [RC.cnt]
    · have hu' : ¬ (t.id = u) := fun e => hu e.symm
      simp only [hu', hu, if_false]
      show DD.cnt2 (rmAll s.rtasks _) u k = _
      rw [rmAll_cnt _ h.wf2, h.rt,
        count_keys_pairs t.deps (fun dep => RC.keys (DD.get s.tartasks dep)) keysND1]
      by_cases hk : k = t.id
      · subst hk
        simp only [if_true, sRt, hl]
        cases hlu : look s.tasks u with
        | none => simp
        | some tu =>
          simp only
          have htu := (h.wfT tu (look_mem hlu).1).2
          have c1 : t.deps.countP (fun dep => decide (u ∈ RC.keys (DD.get s.tartasks dep)))
              = (tu.tars.filter (· ∈ t.deps)).length := by
            rw [inter_comm tu.tars t.deps htu hd, ← countP_mem_eq]
            apply List.countP_congr
            intro dep _
            simp only [decide_eq_true_eq, mem1, sTar, hlu]
            by_cases hm : dep ∈ tu.tars <;> simp [hm]
          rw [c1]; simp
      · simp [hk, sRt]

#print axioms unregister_inv
end Index
