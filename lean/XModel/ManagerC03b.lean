import XModel.ManagerC20
/-!
# C03, last clause: regenerating the indices never changes behaviour

`refresh()` / `clone()` rebuild the four indices from the task table.  The rebuilt indices satisfy the same
invariant (`refresh_MInv`), so they have the same edges and the same start sets *as sets* — only the insertion
order (the iteration order of later look-ups) can differ.  By the order independence of C20 an assignment therefore
has the same outcome before and after `refresh()`.
-/
namespace Manager
open Store Push Index

/-! ### nothing that runs reads the indices -/

theorem writeRef_idx (s : MState) (m : Mgr Path Path) (p : Path) (v : Val) :
    writeRef { s with idx := m } p v = ({ (writeRef s p v).1 with idx := m }, (writeRef s p v).2) := by
  unfold writeRef
  simp only
  split
  · rfl
  · split <;> rfl

theorem runTask_expr_idx (s : MState) (m : Mgr Path Path) (t : MTask) (e : Expr) (hk : t.kind = .expr e) :
    runTask { s with idx := m } t = ({ (runTask s t).1 with idx := m }, (runTask s t).2) := by
  simp only [runTask, hk, evalE]
  split
  · rfl
  · exact writeRef_idx s m t.id _

theorem runTasks_expr_idx : ∀ (l : List MTask) (s : MState) (m : Mgr Path Path), (∀ t ∈ l, ∃ e, t.kind = .expr e) →
    runTasks { s with idx := m } l = ({ (runTasks s l).1 with idx := m }, (runTasks s l).2)
  | [], _, _, _ => rfl
  | t :: l, s, m, hex => by
    obtain ⟨e, hk⟩ := hex t (List.mem_cons_self ..)
    simp only [runTasks]
    rw [runTask_expr_idx s m t e hk]
    generalize runTask s t = r
    obtain ⟨s1, x⟩ := r
    cases x with
    | some x => rfl
    | none =>
      simp only
      exact runTasks_expr_idx l s1 m (fun u hu => hex u (List.mem_cons_of_mem _ hu))

/-- `write + run_tasks` with the execution list given explicitly -/
def runList (s : MState) (p : Path) (v : Val) (π : List Path) : Res :=
  match writeRef s p v with
  | (s1, some x) => (s1, some x)
  | (s1, none) =>
    match π.mapM (lookTask s1.defs) with
    | .error x => (s1, some x)
    | .ok l => runTasks s1 l

theorem writeAndRun_eq_runList (sched : Sched) (s : MState) (p : Path) (v : Val) :
    writeAndRun sched s p v = runList s p v (sched (findTaskids s.idx (chainR p))) := by
  unfold writeAndRun runList
  have hg := writeRef_graph s p v
  generalize writeRef s p v = r at hg
  obtain ⟨s1, x⟩ := r
  cases x with
  | some x => rfl
  | none =>
    simp only at hg ⊢
    rw [hg.1]
    rfl

theorem runList_idx (s : MState) (m : Mgr Path Path) (p : Path) (v : Val) (π : List Path)
    (hex : ∀ t ∈ s.defs, ∃ e, t.kind = .expr e) :
    runList { s with idx := m } p v π = ({ (runList s p v π).1 with idx := m }, (runList s p v π).2) := by
  unfold runList
  rw [writeRef_idx]
  have hg := writeRef_graph s p v
  generalize writeRef s p v = r at hg
  obtain ⟨s1, x⟩ := r
  cases x with
  | some x => rfl
  | none =>
    simp only at hg ⊢
    cases hm : π.mapM (lookTask s1.defs) with
    | error e => rfl
    | ok l =>
      simp only
      obtain ⟨_, hlsub⟩ := mapM_lookDef s1.defs _ (lookTask_ok s1.defs) _ l hm
      exact runTasks_expr_idx l s1 m (fun t ht => hex t (by rw [← hg.2.1]; exact hlsub t ht))

/-! ### two index states for the same task table have the same edges -/

theorem gOf_mem_iff (s : MState) (hi : MInv s) (u w : Path) :
    w ∈ gOf s.idx u ↔ sRt (s.defs.map MTask.toIdx) u w ≥ 1 := by
  unfold gOf
  rw [RC.mem_keys_iff _ (hi.inv.wf2 u)]
  show DD.cnt2 s.idx.rtasks u w ≥ 1 ↔ _
  rw [hi.inv.rt, hi.link]

theorem startOf_mem_iff (s : MState) (hi : MInv s) (D : List Path) (k : Path) :
    k ∈ startOf s.idx D ↔ ∃ d ∈ D, sDep (s.defs.map MTask.toIdx) d k ≥ 1 := by
  unfold startOf
  rw [mem_uniq, List.mem_flatMap]
  constructor
  · rintro ⟨d, hd, hk⟩
    rw [RC.mem_keys_iff _ (hi.inv.wf3 d)] at hk
    have : DD.cnt2 s.idx.deptasks d k ≥ 1 := hk
    rw [hi.inv.dept, hi.link] at this
    exact ⟨d, hd, this⟩
  · rintro ⟨d, hd, hk⟩
    refine ⟨d, hd, ?_⟩
    rw [RC.mem_keys_iff _ (hi.inv.wf3 d)]
    show DD.cnt2 s.idx.deptasks d k ≥ 1
    rw [hi.inv.dept, hi.link]
    exact hk

theorem reach_congr (g g' : Path → List Path) (h : ∀ u w, w ∈ g u ↔ w ∈ g' u) {a b : Path}
    (r : Dfs3.Reach g a b) : Dfs3.Reach g' a b := by
  induction r with
  | refl => exact Dfs3.Reach.refl _
  | step hab _ ih => exact Dfs3.Reach.step ((h _ _).mp hab) ih

/-- a schedule that is legal for one index state is legal for any other index state of the same task table -/
theorem validSched_transfer (s s' : MState) (hi : MInv s) (hi' : MInv s') (hd : s'.defs = s.defs) (D π : List Path)
    (h : ValidSched (gOf s'.idx) (findTaskids s'.idx D) π) : ValidSched (gOf s.idx) (findTaskids s.idx D) π := by
  have hg : ∀ u w, w ∈ gOf s'.idx u ↔ w ∈ gOf s.idx u := by
    intro u w
    rw [gOf_mem_iff s' hi', gOf_mem_iff s hi, hd]
  have hst : ∀ k, k ∈ startOf s'.idx D ↔ k ∈ startOf s.idx D := by
    intro k
    rw [startOf_mem_iff s' hi', startOf_mem_iff s hi, hd]
  obtain ⟨_, hm'⟩ := findTaskids_once_exact s' hi' D
  obtain ⟨_, hm⟩ := findTaskids_once_exact s hi D
  refine ⟨h.nodup, ?_, ?_⟩
  · intro x
    rw [h.mem x, hm' x, hm x]
    constructor
    · rintro ⟨s0, hs0, r⟩
      exact ⟨s0, (hst s0).mp hs0, reach_congr _ _ hg r⟩
    · rintro ⟨s0, hs0, r⟩
      exact ⟨s0, (hst s0).mpr hs0, reach_congr _ _ (fun u w => (hg u w).symm) r⟩
  · intro u w hu hw hwg hne
    exact h.order u w hu hw ((hg u w).mpr hwg) hne

theorem scope_transfer (s s' : MState) (hi : MInv s) (hi' : MInv s') (hd : s'.defs = s.defs)
    (hf : s'.faultIn = s.faultIn) (p : Path) (h : Scope s p) : Scope s' p := by
  have hg : ∀ u w, w ∈ gOf s.idx u ↔ w ∈ gOf s'.idx u := by
    intro u w
    rw [gOf_mem_iff s' hi', gOf_mem_iff s hi, hd]
  have hst : ∀ k, k ∈ startOf s'.idx (chainR p) ↔ k ∈ startOf s.idx (chainR p) := by
    intro k
    rw [startOf_mem_iff s' hi', startOf_mem_iff s hi, hd]
  exact
    { exprs := by rw [ExprDefs, hd]; exact h.exprs
      pathP := h.pathP
      paths := by rw [hd]; exact h.paths
      acyclic := by
        intro a b ha hne hab hba
        obtain ⟨s0, hs0, r⟩ := ha
        exact h.acyclic a b ⟨s0, (hst s0).mp hs0, reach_congr _ _ (fun u w => (hg u w).symm) r⟩ hne
          (reach_congr _ _ (fun u w => (hg u w).symm) hab) (reach_congr _ _ (fun u w => (hg u w).symm) hba)
      h2 := by rw [hd]; exact h.h2
      h2p := by rw [hd]; exact h.h2p
      h3 := by rw [hd]; exact h.h3
      nofault := by rw [hf]; exact h.nofault }

/-- **an assignment to a plain location behaves the same after the indices were regenerated**: with any legal
    schedule before and any legal schedule after `refresh()`, the container contents and the definitions are the
    same (and the assignment after `refresh()` completes whenever the one before does). -/
theorem refresh_same_behaviour (sched1 sched2 : Sched) (s : MState) (p : Path) (v : Val) (hi : MInv s)
    (hc : Consistent s) (hfz : s.frozen = false) (hnodef : lookDef s.defs p = none) (sc : Scope s p)
    (hvs1 : ValidSched (gOf s.idx) (findTaskids s.idx (chainR p)) (sched1 (findTaskids s.idx (chainR p))))
    (hvs2 : ValidSched (gOf (refresh s).1.idx) (findTaskids (refresh s).1.idx (chainR p))
      (sched2 (findTaskids (refresh s).1.idx (chainR p))))
    (s1 : MState) (hok : setValue sched1 s p v = (s1, none)) :
    ∃ s2, setValue sched2 (refresh s).1 p v = (s2, none) ∧ s2.store = s1.store ∧ s2.defs = s1.defs := by
  have hi' := refresh_MInv s hi
  have hrd := refresh_defs s
  -- the refreshed state is `s` with other indices
  have hform : (refresh s).1 = { s with idx := (refresh s).1.idx } := by
    unfold refresh
    simp only [hfz, Bool.false_eq_true, if_false, cleanup]
  have hex : ∀ t ∈ s.defs, ∃ e, t.kind = .expr e := fun t ht => by
    obtain ⟨e, he, _⟩ := sc.exprs t ht; exact ⟨e, he⟩
  -- the schedule used after the refresh is legal before it
  have hvs2' := validSched_transfer s (refresh s).1 hi hi' hrd.1 (chainR p) _ hvs2
  -- run that very list on the original state: same outcome as some legal scheduler there (C20)
  have hpre : preState s p = s := by unfold preState; rw [hnodef]
  obtain ⟨s2', h2', e1, e2, _, _, _, _⟩ := setValue_sched_indep sched1
    (fun _ => sched2 (findTaskids (refresh s).1.idx (chainR p))) s p v hi hc (by rw [hpre]; exact sc)
    (by rw [hpre]; exact hvs1) (by rw [hpre]; exact hvs2') s1 hok
  -- and the refreshed state runs the same list
  have hsv : ∀ (sch : Sched) (st : MState), lookDef st.defs p = none → setValue sch st p v = writeAndRun sch st p v := by
    intro sch st h
    unfold setValue
    simp only [h]
  rw [hsv _ s hnodef, writeAndRun_eq_runList] at h2'
  have hnodef' : lookDef (refresh s).1.defs p = none := by rw [hrd.1]; exact hnodef
  rw [hsv _ _ hnodef', writeAndRun_eq_runList]
  rw [hform, runList_idx s _ p v _ hex]
  simp only at h2' ⊢
  rw [h2']
  exact ⟨_, rfl, e1, e2⟩

end Manager
