import XModel.Store
/-! Prototype: push consistency for expression tasks over the container tree (assembly of L1 with L3/L4). -/
namespace Push
open Store

/-! ### abstract scheduling lemma, partial `run` (an update that completes) -/
structure Sys (S T : Type) where
  run? : T → S → Option S
  Q : T → S → Prop
  NI : T → T → Prop
  good : T → Prop
  q_run : ∀ t σ σ', good t → run? t σ = some σ' → Q t σ'
  q_ni : ∀ u t σ σ', NI u t → Q t σ → run? u σ = some σ' → Q t σ'

def runAll? {S T} (sys : Sys S T) : List T → S → Option S
  | [], σ => some σ
  | t :: l, σ => match sys.run? t σ with | some σ' => runAll? sys l σ' | none => none

theorem runAll_Q {S T} (sys : Sys S T) (l : List T) (σ σf : S) (keep : T → Prop)
    (hrun : runAll? sys l σ = some σf)
    (hgood : ∀ t ∈ l, sys.good t)
    (hkeep : ∀ t, keep t → sys.Q t σ)
    (hsafe : ∀ t, keep t → ∀ u ∈ l, sys.NI u t)
    (hord : List.Pairwise (fun t u => sys.NI u t) l) :
    (∀ t, keep t → sys.Q t σf) ∧ (∀ t ∈ l, sys.Q t σf) := by
  induction l generalizing σ keep with
  | nil =>
    simp only [runAll?, Option.some.injEq] at hrun
    subst hrun
    exact ⟨hkeep, by simp⟩
  | cons a l ih =>
    have hp := List.pairwise_cons.mp hord
    simp only [runAll?] at hrun
    cases ha : sys.run? a σ with
    | none => simp [ha] at hrun
    | some σ1 =>
      simp only [ha] at hrun
      have := ih σ1 (fun t => keep t ∨ t = a) hrun
        (fun t ht => hgood t (List.mem_cons_of_mem _ ht))
        (by
          intro t ht
          rcases ht with ht | rfl
          · exact sys.q_ni a t σ σ1 (hsafe t ht a (List.mem_cons_self ..)) (hkeep t ht) ha
          · exact sys.q_run t σ σ1 (hgood t (List.mem_cons_self ..)) ha)
        (by
          intro t ht u hu
          rcases ht with ht | rfl
          · exact hsafe t ht u (List.mem_cons_of_mem _ hu)
          · exact hp.1 u hu)
        hp.2
      refine ⟨fun t ht => this.1 t (Or.inl ht), fun t ht => ?_⟩
      rcases List.mem_cons.mp ht with rfl | ht
      · exact this.1 t (Or.inr rfl)
      · exact this.2 t ht

/-! ### expressions over the tree store (static paths) -/
inductive Expr where
  | lit (v : Val)
  | ref (p : List Step)
  | bin (op : String) (l r : Expr)
  | un (op : String) (a : Expr)

structure Sem where
  bin : String → Val → Val → Except Err Val
  un : String → Val → Except Err Val

def eval (sem : Sem) (σ : Val) : Expr → Except Err Val
  | .lit v => .ok v
  | .ref p => get σ p
  | .bin op l r => do let a ← eval sem σ l; let b ← eval sem σ r; sem.bin op a b
  | .un op a => do let x ← eval sem σ a; sem.un op x

def leafRefs : Expr → List (List Step)
  | .lit _ => []
  | .ref p => [p]
  | .bin _ l r => leafRefs l ++ leafRefs r
  | .un _ a => leafRefs a

/-- C05's soundness in the form the scheduling lemma consumes -/
theorem eval_frame (sem : Sem) (σ₁ σ₂ : Val) (e : Expr)
    (h : ∀ r ∈ leafRefs e, get σ₁ r = get σ₂ r) : eval sem σ₁ e = eval sem σ₂ e := by
  induction e with
  | lit v => rfl
  | ref p => exact h p (by simp [leafRefs])
  | bin op l r ihl ihr =>
    simp only [eval]
    rw [ihl (fun r hr => h r (by simp [leafRefs, hr])), ihr (fun r' hr => h r' (by simp [leafRefs, hr]))]
  | un op a ih =>
    simp only [eval]
    rw [ih (fun r hr => h r (by simpa [leafRefs] using hr))]

structure ETask where
  target : List Step
  expr : Expr

def canonPath (p : List Step) : Prop := ∀ s ∈ p, s.canon

def exprSys (sem : Sem) : Sys Val ETask where
  run? t σ := match eval sem σ t.expr with
    | .ok v => (match set σ t.target v with | .ok σ' => some σ' | .error _ => none)
    | .error _ => none
  Q t σ := ∃ v, eval sem σ t.expr = .ok v ∧ get σ t.target = .ok v
  NI u t := canonPath u.target ∧ canonPath t.target ∧ Incomparable u.target t.target ∧
    ∀ r ∈ leafRefs t.expr, canonPath r ∧ Incomparable u.target r
  good t := canonPath t.target ∧ ∀ r ∈ leafRefs t.expr, canonPath r ∧ Incomparable t.target r
  q_run := by
    intro t σ σ' ⟨hc, hr⟩ hrun
    cases he : eval sem σ t.expr with
    | error e => simp [he] at hrun
    | ok v =>
      simp only [he] at hrun
      cases hs : set σ t.target v with
      | error e => simp [hs] at hrun
      | ok σ1 =>
        simp only [hs, Option.some.injEq] at hrun
        subst hrun
        refine ⟨v, ?_, get_set_same hs⟩
        rw [← he]
        exact eval_frame sem _ _ _ (fun r hr' => get_set_incomparable hs (hr r hr').2 hc (hr r hr').1)
  q_ni := by
    intro u t σ σ' ⟨hcu, hct, hinc, hr⟩ ⟨v, hev, hget⟩ hrun
    cases he : eval sem σ u.expr with
    | error e => simp [he] at hrun
    | ok w =>
      simp only [he] at hrun
      cases hs : set σ u.target w with
      | error e => simp [hs] at hrun
      | ok σ1 =>
        simp only [hs, Option.some.injEq] at hrun
        subst hrun
        refine ⟨v, ?_, ?_⟩
        · rw [← hev]
          exact eval_frame sem _ _ _ (fun r hr' => get_set_incomparable hs (hr r hr').2 hcu (hr r hr').1)
        · rw [← hget]
          exact get_set_incomparable hs hinc hcu hct

/-- C01 core, for one completed update: every expression task holds its definition afterwards. -/
theorem push_consistent (sem : Sem) (triggered : List ETask) (others : ETask → Prop) (σ σf : Val)
    (hrun : runAll? (exprSys sem) triggered σ = some σf)
    (hgood : ∀ t ∈ triggered, (exprSys sem).good t)
    (hothers : ∀ t, others t → (exprSys sem).Q t σ)
    (hsafe : ∀ t, others t → ∀ u ∈ triggered, (exprSys sem).NI u t)
    (hord : List.Pairwise (fun t u => (exprSys sem).NI u t) triggered) :
    ∀ t, (others t ∨ t ∈ triggered) → ∃ v, eval sem σf t.expr = .ok v ∧ get σf t.target = .ok v := by
  have := runAll_Q (exprSys sem) triggered σ σf others hrun hgood hothers hsafe hord
  intro t ht
  rcases ht with h | h
  · exact this.1 t h
  · exact this.2 t h

#print axioms push_consistent
end Push
