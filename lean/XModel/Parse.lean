/-! Prototype: token-level print / parse round trip for the printed expression language of xdeps.
    The language: refs (root label, item / attribute access), integer literals, float literals (the text of
    `repr(float)` carried opaquely by one token), binary and unary operators, and calls with positional
    arguments followed by keyword arguments `name=value`. -/
namespace Parse

inductive Tok where
  | lpar | rpar | lbr | rbr | dot | comma
  | name (s : String)
  | op (s : String)
  | num (n : Nat)
  | str (s : String)
  /-- a non-negative float literal: ONE NUMBER token of Python's tokenizer; `text` is the (uninterpreted) text
      of `repr(abs(x))`.  That distinct floats have distinct texts and that the text evaluates back to the float
      is Python's guarantee, a recorded assumption outside the model. -/
  | fnum (text : String)
deriving DecidableEq, Repr

inductive Key where
  | str (s : String)
  | int (i : Int)
deriving DecidableEq, Repr

inductive Expr where
  | root (l : String)
  | item (o : Expr) (k : Key)
  | attr (o : Expr) (a : String)
  | lit (i : Int)
  | bin (op : String) (l r : Expr)
  | un (op : String) (a : Expr)
  | call (f : Expr) (args : List Expr)
  /-- float literal: sign and the text of the magnitude (never interpreted) -/
  | flit (neg : Bool) (text : String)
  /-- call with keyword arguments `f(a, b, k=v, k2=v2)`; well-formed only with at least one keyword
      (a call without keywords is `call`) -/
  | callkw (f : Expr) (args : List Expr) (kws : List (String × Expr))
deriving Repr

def printInt (i : Int) : List Tok := if 0 ≤ i then [.num i.toNat] else [.op "-", .num (-i).toNat]

/-- `repr(float)`: a negative float is the operator `-` followed by a NUMBER token -/
def printFloat (neg : Bool) (t : String) : List Tok := if neg then [.op "-", .fnum t] else [.fnum t]

def printKey : Key → List Tok
  | .str s => [.str s]
  | .int i => printInt i

mutual
def print : Expr → List Tok
  | .root l => [.name l]
  | .item o k => print o ++ [.lbr] ++ printKey k ++ [.rbr]
  | .attr o a => print o ++ [.dot, .name a]
  | .lit i => printInt i
  | .bin op l r => [.lpar] ++ printLhs l ++ [.op op] ++ print r ++ [.rpar]
  | .un op a => [.lpar, .op op] ++ print a ++ [.rpar]
  | .call f args => print f ++ [.lpar] ++ printArgs args
  | .flit neg t => printFloat neg t
  | .callkw f args kws => print f ++ [.lpar] ++ printPos args ++ printKws kws
/-- a negative literal on the left is parenthesised (repaired `BinOpExpr.__repr__`) -/
def printLhs : Expr → List Tok
  | .lit i => if 0 ≤ i then printInt i else [.lpar] ++ printInt i ++ [.rpar]
  | .root l => print (.root l)
  | .item o k => print (.item o k)
  | .attr o a => print (.attr o a)
  | .bin op l r => print (.bin op l r)
  | .un op a => print (.un op a)
  | .call f args => print (.call f args)
  | .flit neg t => if neg then [.lpar] ++ printFloat neg t ++ [.rpar] else printFloat neg t
  | .callkw f args kws => print (.callkw f args kws)
/-- arguments followed by the closing parenthesis -/
def printArgs : List Expr → List Tok
  | [] => [.rpar]
  | [a] => print a ++ [.rpar]
  | a :: b :: rest => print a ++ [.comma] ++ printArgs (b :: rest)
/-- positional arguments that are followed by keyword arguments: each one followed by a comma -/
def printPos : List Expr → List Tok
  | [] => []
  | a :: rest => print a ++ [.comma] ++ printPos rest
/-- keyword arguments `name = value` followed by the closing parenthesis -/
def printKws : List (String × Expr) → List Tok
  | [] => [.rpar]
  | [(k, v)] => [.name k, .op "="] ++ print v ++ [.rpar]
  | (k, v) :: b :: rest => [.name k, .op "="] ++ print v ++ [.comma] ++ printKws (b :: rest)
end

def unops : List String := ["-", "+", "~"]

/-- Python identifiers (ASCII): a letter or `_`, then letters, digits or `_` -/
def identStart (c : Char) : Bool := c.isAlpha || c == '_'
def identCont (c : Char) : Bool := c.isAlphanum || c == '_'
def isIdent (s : String) : Bool :=
  match s.toList with
  | [] => false
  | c :: cs => identStart c && cs.all identCont

def kwNames (kws : List (String × Expr)) : List String := kws.map Prod.fst

/-- Python rejects a repeated keyword (`SyntaxError: keyword argument repeated`) -/
def namesDistinct (kws : List (String × Expr)) : Bool := decide (kwNames kws).Nodup

/-- the node built by a call: without keywords it is `call` -/
def mkCall (f : Expr) (args : List Expr) (kws : List (String × Expr)) : Expr :=
  if kws.isEmpty then .call f args else .callkw f args kws

mutual
/-- E: a negative literal or a postfix expression -/
def parseExpr : Nat → List Tok → Option (Expr × List Tok)
  | 0, _ => none
  | n+1, .op "-" :: .num k :: rest => some (.lit (-(k : Int)), rest)
  | _+1, .op "-" :: .fnum t :: rest => some (.flit true t, rest)
  | n+1, toks => match parsePrimary n toks with
    | some (p, rest) => parseTrailers n p rest
    | none => none
def parsePrimary : Nat → List Tok → Option (Expr × List Tok)
  | 0, _ => none
  | _+1, .num k :: rest => some (.lit k, rest)
  | _+1, .fnum t :: rest => some (.flit false t, rest)
  | _+1, .name l :: rest => some (.root l, rest)
  | _+1, .lpar :: .op "-" :: .num k :: .rpar :: rest => some (.lit (-(k : Int)), rest)
  | _+1, .lpar :: .op "-" :: .fnum t :: .rpar :: rest => some (.flit true t, rest)
  | n+1, .lpar :: .op o :: rest =>
    if o ∈ unops then
      match parseExpr n rest with
      | some (a, .rpar :: rest') => some (.un o a, rest')
      | _ => none
    else none
  | n+1, .lpar :: rest =>
    match parseExpr n rest with
    | some (l, .op o :: r1) =>
      (match parseExpr n r1 with
       | some (r, .rpar :: r2) => some (.bin o l r, r2)
       | _ => none)
    | _ => none
  | _+1, _ => none
def parseTrailers : Nat → Expr → List Tok → Option (Expr × List Tok)
  | 0, _, _ => none
  | n+1, acc, .lbr :: .str s :: .rbr :: rest => parseTrailers n (.item acc (.str s)) rest
  | n+1, acc, .lbr :: .num k :: .rbr :: rest => parseTrailers n (.item acc (.int k)) rest
  | n+1, acc, .lbr :: .op "-" :: .num k :: .rbr :: rest => parseTrailers n (.item acc (.int (-(k : Int)))) rest
  | n+1, acc, .dot :: .name a :: rest => parseTrailers n (.attr acc a) rest
  | n+1, acc, .lpar :: rest =>
    match parseArgs n rest with
    | some ((args, kws), rest') => parseTrailers n (mkCall acc args kws) rest'
    | none => none
  | _+1, acc, toks => some (acc, toks)
/-- positional arguments, then keyword arguments (one token of look-ahead: a name followed by the operator
    `=` starts the keyword part; after it only keyword arguments are read), then the closing parenthesis -/
def parseArgs : Nat → List Tok → Option ((List Expr × List (String × Expr)) × List Tok)
  | 0, _ => none
  | _+1, .rpar :: rest => some (([], []), rest)
  | n+1, .name k :: .op "=" :: rest =>
    match parseKws n (.name k :: .op "=" :: rest) with
    | some (kws, rest') => if namesDistinct kws then some (([], kws), rest') else none
    | none => none
  | n+1, toks =>
    match parseExpr n toks with
    | some (a, .comma :: rest) =>
      (match parseArgs n rest with
       | some ((as, kws), rest') => if as.isEmpty && kws.isEmpty then none else some ((a :: as, kws), rest')
       | none => none)
    | some (a, .rpar :: rest) => some (([a], []), rest)
    | _ => none
/-- one or more `name = value`, comma separated, up to the closing parenthesis -/
def parseKws : Nat → List Tok → Option (List (String × Expr) × List Tok)
  | 0, _ => none
  | n+1, .name k :: .op "=" :: rest =>
    match parseExpr n rest with
    | some (v, .comma :: rest') =>
      (match parseKws n rest' with
       | some (kws, r) => some ((k, v) :: kws, r)
       | none => none)
    | some (v, .rpar :: rest') => some ([(k, v)], rest')
    | _ => none
  | _+1, _ => none
end

def ex1 : Expr := .bin "**" (.lit (-3)) (.item (.item (.root "d") (.str "a")) (.int (-1)))
def ex2 : Expr := .call (.attr (.root "f") "atan2") [.un "-" (.attr (.root "r") "x"), .lit (-2), .bin "+" (.root "a") (.lit 1)]
#eval print ex1
#eval (parseExpr 50 (print ex1)).map (fun p => (toString (repr p.1), p.2.length))
#eval (parseExpr 50 (print ex2)).map (fun p => (toString (repr p.1), p.2.length))
def ex3 : Expr := .callkw (.root "round") [.bin "**" (.flit true "1.5") (.root "x")] [("ndigits", .lit 2), ("k", .flit true "1e-07")]
#eval print ex3
#eval (parseExpr 50 (print ex3)).map (fun p => (toString (repr p.1), p.2.length))


/-! ### round trip -/

/-- "for all sufficiently large fuel the answer is `r`" -/
def Ev {α : Type} (f : Nat → Option α) (r : α) : Prop := ∃ n0, ∀ n, n ≥ n0 → f n = some r

theorem Ev.shift {α : Type} {f g : Nat → Option α} {r : α} (h : Ev g r) (hfg : ∀ n, f (n + 1) = g n) : Ev f r := by
  obtain ⟨n0, h⟩ := h
  refine ⟨n0 + 1, fun n hn => ?_⟩
  obtain ⟨m, rfl⟩ : ∃ m, n = m + 1 := ⟨n - 1, by omega⟩
  rw [hfg]; exact h m (by omega)

def NoTrail : List Tok → Prop
  | .lbr :: _ => False
  | .dot :: _ => False
  | .lpar :: _ => False
  | _ => True

theorem parseTrailers_stop (n : Nat) (acc : Expr) (toks : List Tok) (h : NoTrail toks) :
    parseTrailers (n + 1) acc toks = some (acc, toks) := by
  unfold parseTrailers
  split <;> simp_all [NoTrail]

theorem ev_trailers_stop (acc : Expr) (toks : List Tok) (h : NoTrail toks) :
    Ev (fun n => parseTrailers n acc toks) (acc, toks) :=
  ⟨1, fun n hn => by
    obtain ⟨m, rfl⟩ : ∃ m, n = m + 1 := ⟨n - 1, by omega⟩
    exact parseTrailers_stop m acc toks h⟩


/-! well-formed = what the library can build and print -/
mutual
def WFpost : Expr → Prop
  | .root _ => True
  | .item o _ => WFpost o
  | .attr o _ => WFpost o
  | .lit _ => False
  | .flit _ _ => False
  | .bin _ l r => WFarg l ∧ WFarg r
  | .un op a => op ∈ unops ∧ WFpost a
  | .call f args => WFpost f ∧ WFargs args
  | .callkw f args kws => WFpost f ∧ WFargs args ∧ kws ≠ [] ∧ WFkws kws ∧ (kwNames kws).Nodup
def WFarg : Expr → Prop
  | .lit _ => True
  | .flit _ _ => True
  | .root _ => True
  | .item o _ => WFpost o
  | .attr o _ => WFpost o
  | .bin _ l r => WFarg l ∧ WFarg r
  | .un op a => op ∈ unops ∧ WFpost a
  | .call f args => WFpost f ∧ WFargs args
  | .callkw f args kws => WFpost f ∧ WFargs args ∧ kws ≠ [] ∧ WFkws kws ∧ (kwNames kws).Nodup
def WFargs : List Expr → Prop
  | [] => True
  | a :: r => WFarg a ∧ WFargs r
/-- keyword arguments: every name a (non-empty) Python identifier, every value an argument expression -/
def WFkws : List (String × Expr) → Prop
  | [] => True
  | (k, v) :: r => isIdent k = true ∧ WFarg v ∧ WFkws r
end

/-- first token classes -/
def HeadAtom : List Tok → Prop
  | .name _ :: _ => True
  | .lpar :: _ => True
  | _ => False

theorem head_post : ∀ e : Expr, WFpost e → ∀ rest, HeadAtom (print e ++ rest)
  | .root l, _, rest => by simp [print, HeadAtom]
  | .item o k, h, rest => by
    have := head_post o (by simpa [WFpost] using h) ([.lbr] ++ printKey k ++ [.rbr] ++ rest)
    simpa [print, List.append_assoc] using this
  | .attr o a, h, rest => by
    have := head_post o (by simpa [WFpost] using h) ([.dot, .name a] ++ rest)
    simpa [print, List.append_assoc] using this
  | .lit _, h, _ => by simp [WFpost] at h
  | .flit _ _, h, _ => by simp [WFpost] at h
  | .bin _ _ _, _, rest => by simp [print, HeadAtom]
  | .un _ _, _, rest => by simp [print, HeadAtom]
  | .call f args, h, rest => by
    have := head_post f (by simp [WFpost] at h; exact h.1) ([.lpar] ++ printArgs args ++ rest)
    simpa [print, List.append_assoc] using this
  | .callkw f args kws, h, rest => by
    have := head_post f (by simp [WFpost] at h; exact h.1) ([.lpar] ++ printPos args ++ printKws kws ++ rest)
    simpa [print, List.append_assoc] using this

/-- the keyword look-ahead: a name followed by an operator token -/
def NotKw : List Tok → Prop
  | .name _ :: .op _ :: _ => False
  | _ => True

def NoOpHead : List Tok → Prop
  | .op _ :: _ => False
  | _ => True

theorem notkw_name (l : String) (rest : List Tok) (h : NoOpHead rest) : NotKw (.name l :: rest) := by
  cases rest with
  | nil => simp [NotKw]
  | cons x xs => cases x <;> simp_all [NotKw, NoOpHead]

theorem notkw_post : ∀ e : Expr, WFpost e → ∀ rest, NoOpHead rest → NotKw (print e ++ rest)
  | .root l, _, rest, hr => by simpa [print] using notkw_name l rest hr
  | .item o k, h, rest, _ => by
    have := notkw_post o (by simpa [WFpost] using h) ([.lbr] ++ printKey k ++ [.rbr] ++ rest) (by simp [NoOpHead])
    simpa [print, List.append_assoc] using this
  | .attr o a, h, rest, _ => by
    have := notkw_post o (by simpa [WFpost] using h) ([.dot, .name a] ++ rest) (by simp [NoOpHead])
    simpa [print, List.append_assoc] using this
  | .lit _, h, _, _ => by simp [WFpost] at h
  | .flit _ _, h, _, _ => by simp [WFpost] at h
  | .bin _ _ _, _, rest, _ => by simp [print, NotKw]
  | .un _ _, _, rest, _ => by simp [print, NotKw]
  | .call f args, h, rest, _ => by
    have := notkw_post f (by simp [WFpost] at h; exact h.1) ([.lpar] ++ printArgs args ++ rest) (by simp [NoOpHead])
    simpa [print, List.append_assoc] using this
  | .callkw f args kws, h, rest, _ => by
    have := notkw_post f (by simp [WFpost] at h; exact h.1) ([.lpar] ++ printPos args ++ printKws kws ++ rest) (by simp [NoOpHead])
    simpa [print, List.append_assoc] using this

theorem parseExpr_atom (n : Nat) (toks : List Tok) (h : HeadAtom toks) :
    parseExpr (n + 1) toks = match parsePrimary n toks with
      | some (p, rest) => parseTrailers n p rest
      | none => none := by
  unfold parseExpr
  split <;> simp_all [HeadAtom]

theorem parsePrimary_name (n : Nat) (l : String) (rest : List Tok) :
    parsePrimary (n + 1) (.name l :: rest) = some (.root l, rest) := by
  unfold parsePrimary; rfl

/-- opening parenthesis followed by an atom start: a binary node -/
theorem parsePrimary_bin (n : Nat) (X : List Tok)
    (h : HeadAtom X ∨ (∃ k r, X = .num k :: r) ∨ (∃ t r, X = .fnum t :: r)) :
    parsePrimary (n + 1) (.lpar :: X) =
      match parseExpr n X with
      | some (l, .op o :: r1) =>
        (match parseExpr n r1 with
         | some (r, .rpar :: r2) => some (.bin o l r, r2)
         | _ => none)
      | _ => none := by
  unfold parsePrimary
  rcases h with h | ⟨k, r, rfl⟩ | ⟨t, r, rfl⟩
  · split <;> simp_all [HeadAtom]
  · split <;> simp_all
  · split <;> simp_all

theorem parsePrimary_un (n : Nat) (o : String) (X : List Tok) (ho : o ∈ unops) (h : HeadAtom X) :
    parsePrimary (n + 1) (.lpar :: .op o :: X) =
      match parseExpr n X with
      | some (a, .rpar :: rest') => some (.un o a, rest')
      | _ => none := by
  unfold parsePrimary
  split
  all_goals first
    | (simp_all [HeadAtom]; done)
    | (exfalso; rename_i hne _ heq; exact hne _ _ (List.cons.inj heq.symm).2)


theorem parseTrailers_call (n : Nat) (acc : Expr) (Y : List Tok) :
    parseTrailers (n + 1) acc (.lpar :: Y) =
      match parseArgs n Y with
      | some ((args, kws), rest') => parseTrailers n (mkCall acc args kws) rest'
      | none => none := by
  conv => lhs; unfold parseTrailers

theorem parseTrailers_attr (n : Nat) (acc : Expr) (a : String) (rest : List Tok) :
    parseTrailers (n + 1) acc (.dot :: .name a :: rest) = parseTrailers n (.attr acc a) rest := by
  conv => lhs; unfold parseTrailers

theorem parseTrailers_item_str (n : Nat) (acc : Expr) (x : String) (rest : List Tok) :
    parseTrailers (n + 1) acc (.lbr :: .str x :: .rbr :: rest) = parseTrailers n (.item acc (.str x)) rest := by
  conv => lhs; unfold parseTrailers

theorem parseTrailers_item_num (n : Nat) (acc : Expr) (k : Nat) (rest : List Tok) :
    parseTrailers (n + 1) acc (.lbr :: .num k :: .rbr :: rest) = parseTrailers n (.item acc (.int k)) rest := by
  conv => lhs; unfold parseTrailers

theorem parseTrailers_item_neg (n : Nat) (acc : Expr) (k : Nat) (rest : List Tok) :
    parseTrailers (n + 1) acc (.lbr :: .op "-" :: .num k :: .rbr :: rest) = parseTrailers n (.item acc (.int (-(k : Int)))) rest := by
  conv => lhs; unfold parseTrailers
  simp

theorem parseTrailers_item (n : Nat) (acc : Expr) (k : Key) (rest : List Tok) :
    parseTrailers (n + 1) acc (.lbr :: printKey k ++ .rbr :: rest) = parseTrailers n (.item acc k) rest := by
  cases k with
  | str s => exact parseTrailers_item_str n acc s rest
  | int i =>
    by_cases hi : 0 ≤ i
    · have : printKey (.int i) = [.num i.toNat] := by simp [printKey, printInt, hi]
      rw [this]
      have h2 : ((i.toNat : Nat) : Int) = i := Int.toNat_of_nonneg hi
      have := parseTrailers_item_num n acc i.toNat rest
      rw [h2] at this
      exact this
    · have : printKey (.int i) = [.op "-", .num (-i).toNat] := by simp [printKey, printInt, hi]
      rw [this]
      have h2 : -(((-i).toNat : Nat) : Int) = i := by
        have : ((-i).toNat : Int) = -i := Int.toNat_of_nonneg (by omega)
        omega
      have := parseTrailers_item_neg n acc (-i).toNat rest
      rw [h2] at this
      exact this

def HeadArg : List Tok → Prop
  | [] => False
  | .rpar :: _ => False
  | _ => True

/-- a positional argument: not the closing parenthesis and not the keyword look-ahead -/
theorem parseArgs_arg (n : Nat) (toks : List Tok) (h : HeadArg toks) (hk : NotKw toks) :
    parseArgs (n + 1) toks =
      match parseExpr n toks with
      | some (a, .comma :: rest) =>
        (match parseArgs n rest with
         | some ((as, kws), rest') => if as.isEmpty && kws.isEmpty then none else some ((a :: as, kws), rest')
         | none => none)
      | some (a, .rpar :: rest) => some (([a], []), rest)
      | _ => none := by
  conv => lhs; unfold parseArgs
  split <;> simp_all [HeadArg, NotKw]

/-- the keyword look-ahead -/
theorem parseArgs_kw (n : Nat) (k : String) (rest : List Tok) :
    parseArgs (n + 1) (.name k :: .op "=" :: rest) =
      match parseKws n (.name k :: .op "=" :: rest) with
      | some (kws, rest') => if namesDistinct kws then some (([], kws), rest') else none
      | none => none := by
  conv => lhs; unfold parseArgs
  simp

theorem parseKws_kw (n : Nat) (k : String) (rest : List Tok) :
    parseKws (n + 1) (.name k :: .op "=" :: rest) =
      match parseExpr n rest with
      | some (v, .comma :: rest') =>
        (match parseKws n rest' with
         | some (kws, r) => some ((k, v) :: kws, r)
         | none => none)
      | some (v, .rpar :: rest') => some ([(k, v)], rest')
      | _ => none := by
  conv => lhs; unfold parseKws
  simp

theorem parseExpr_lit (n : Nat) (i : Int) (rest : List Tok) (hnt : NoTrail rest) :
    parseExpr (n + 3) (printInt i ++ rest) = some (.lit i, rest) := by
  by_cases hi : 0 ≤ i
  · have h2 : ((i.toNat : Nat) : Int) = i := Int.toNat_of_nonneg hi
    simp only [printInt, hi, if_true, List.singleton_append]
    unfold parseExpr
    simp only [parsePrimary, parseTrailers_stop _ _ _ hnt, h2]
  · have h2 : -(((-i).toNat : Nat) : Int) = i := by
      have : ((-i).toNat : Int) = -i := Int.toNat_of_nonneg (by omega)
      omega
    simp only [printInt, hi, if_false, List.cons_append, List.nil_append]
    unfold parseExpr
    simp only [h2]

theorem parseExpr_flit (n : Nat) (neg : Bool) (t : String) (rest : List Tok) (hnt : NoTrail rest) :
    parseExpr (n + 3) (printFloat neg t ++ rest) = some (.flit neg t, rest) := by
  cases neg with
  | false =>
    simp only [printFloat, Bool.false_eq_true, if_false, List.singleton_append]
    unfold parseExpr
    simp only [parsePrimary, parseTrailers_stop _ _ _ hnt]
  | true =>
    simp only [printFloat, if_true, List.cons_append, List.nil_append]
    unfold parseExpr
    simp


abbrev PostClaim (e : Expr) : Prop :=
  WFpost e → ∀ rest res, Ev (fun n => parseTrailers n e rest) res → Ev (fun n => parseExpr n (print e ++ rest)) res

theorem ev_lit (i : Int) (rest : List Tok) (hnt : NoTrail rest) :
    Ev (fun n => parseExpr n (printInt i ++ rest)) (.lit i, rest) :=
  ⟨3, fun n hn => by
    obtain ⟨m, rfl⟩ : ∃ m, n = m + 3 := ⟨n - 3, by omega⟩
    exact parseExpr_lit m i rest hnt⟩

theorem ev_flit (neg : Bool) (t : String) (rest : List Tok) (hnt : NoTrail rest) :
    Ev (fun n => parseExpr n (printFloat neg t ++ rest)) (.flit neg t, rest) :=
  ⟨3, fun n hn => by
    obtain ⟨m, rfl⟩ : ∃ m, n = m + 3 := ⟨n - 3, by omega⟩
    exact parseExpr_flit m neg t rest hnt⟩

/-- right operands and call arguments -/
theorem arg_of_post (e : Expr) (hp : PostClaim e) (h : WFarg e) (rest : List Tok) (hnt : NoTrail rest) :
    Ev (fun n => parseExpr n (print e ++ rest)) (e, rest) := by
  cases e with
  | lit i => simpa [print] using ev_lit i rest hnt
  | flit neg t => simpa [print] using ev_flit neg t rest hnt
  | root l => exact hp (by simp [WFpost]) rest _ (ev_trailers_stop _ rest hnt)
  | item o k => exact hp (by simpa [WFpost, WFarg] using h) rest _ (ev_trailers_stop _ rest hnt)
  | attr o a => exact hp (by simpa [WFpost, WFarg] using h) rest _ (ev_trailers_stop _ rest hnt)
  | bin op l r => exact hp (by simpa [WFpost, WFarg] using h) rest _ (ev_trailers_stop _ rest hnt)
  | un op a => exact hp (by simpa [WFpost, WFarg] using h) rest _ (ev_trailers_stop _ rest hnt)
  | call f args => exact hp (by simpa [WFpost, WFarg] using h) rest _ (ev_trailers_stop _ rest hnt)
  | callkw f args kws => exact hp (by simpa [WFpost, WFarg] using h) rest _ (ev_trailers_stop _ rest hnt)

theorem parseExpr_parenneg (n : Nat) (k : Nat) (rest : List Tok) (hnt : NoTrail rest) :
    parseExpr (n + 3) (.lpar :: .op "-" :: .num k :: .rpar :: rest) = some (.lit (-(k : Int)), rest) := by
  rw [parseExpr_atom _ _ (by simp [HeadAtom])]
  have : parsePrimary (n + 2) (.lpar :: .op "-" :: .num k :: .rpar :: rest) = some (.lit (-(k : Int)), rest) := by
    conv => lhs; unfold parsePrimary
    simp
  rw [this]
  exact parseTrailers_stop _ _ _ hnt

theorem parseExpr_parennegf (n : Nat) (t : String) (rest : List Tok) (hnt : NoTrail rest) :
    parseExpr (n + 3) (.lpar :: .op "-" :: .fnum t :: .rpar :: rest) = some (.flit true t, rest) := by
  rw [parseExpr_atom _ _ (by simp [HeadAtom])]
  have : parsePrimary (n + 2) (.lpar :: .op "-" :: .fnum t :: .rpar :: rest) = some (.flit true t, rest) := by
    conv => lhs; unfold parsePrimary
    simp
  rw [this]
  exact parseTrailers_stop _ _ _ hnt

/-- left operands (negative literals are parenthesised) -/
theorem lhs_of_post (e : Expr) (hp : PostClaim e) (h : WFarg e) (rest : List Tok) (hnt : NoTrail rest) :
    Ev (fun n => parseExpr n (printLhs e ++ rest)) (e, rest) := by
  cases e with
  | lit i =>
    by_cases hi : 0 ≤ i
    · simpa [printLhs, hi] using ev_lit i rest hnt
    · have h2 : -(((-i).toNat : Nat) : Int) = i := by
        have : ((-i).toNat : Int) = -i := Int.toNat_of_nonneg (by omega)
        omega
      refine ⟨3, fun n hn => ?_⟩
      obtain ⟨m, rfl⟩ : ∃ m, n = m + 3 := ⟨n - 3, by omega⟩
      have := parseExpr_parenneg m (-i).toNat rest hnt
      rw [h2] at this
      simpa [printLhs, hi, printInt] using this
  | flit neg t =>
    cases neg with
    | false => simpa [printLhs] using ev_flit false t rest hnt
    | true =>
      refine ⟨3, fun n hn => ?_⟩
      obtain ⟨m, rfl⟩ : ∃ m, n = m + 3 := ⟨n - 3, by omega⟩
      have := parseExpr_parennegf m t rest hnt
      simpa [printLhs, printFloat] using this
  | root l => simpa [printLhs] using arg_of_post _ hp h rest hnt
  | item o k => simpa [printLhs] using arg_of_post _ hp h rest hnt
  | attr o a => simpa [printLhs] using arg_of_post _ hp h rest hnt
  | bin op l r => simpa [printLhs] using arg_of_post _ hp h rest hnt
  | un op a => simpa [printLhs] using arg_of_post _ hp h rest hnt
  | call f args => simpa [printLhs] using arg_of_post _ hp h rest hnt
  | callkw f args kws => simpa [printLhs] using arg_of_post _ hp h rest hnt


theorem head_lhs (e : Expr) (h : WFarg e) (rest : List Tok) :
    HeadAtom (printLhs e ++ rest) ∨ (∃ k r, printLhs e ++ rest = .num k :: r) ∨
      (∃ t r, printLhs e ++ rest = .fnum t :: r) := by
  cases e with
  | lit i =>
    by_cases hi : 0 ≤ i
    · right; left; exact ⟨i.toNat, rest, by simp [printLhs, hi, printInt]⟩
    · left; simp [printLhs, hi, HeadAtom]
  | flit neg t =>
    cases neg with
    | false => right; right; exact ⟨t, rest, by simp [printLhs, printFloat]⟩
    | true => left; simp [printLhs, HeadAtom]
  | root l => left; simpa [printLhs] using head_post (.root l) (by simp [WFpost]) rest
  | item o k => left; simpa [printLhs] using head_post (.item o k) (by simpa [WFpost, WFarg] using h) rest
  | attr o a => left; simpa [printLhs] using head_post (.attr o a) (by simpa [WFpost, WFarg] using h) rest
  | bin op l r => left; simp [printLhs, print, HeadAtom]
  | un op a => left; simp [printLhs, print, HeadAtom]
  | call f args => left; simpa [printLhs] using head_post (.call f args) (by simpa [WFpost, WFarg] using h) rest
  | callkw f args kws =>
    left; simpa [printLhs] using head_post (.callkw f args kws) (by simpa [WFpost, WFarg] using h) rest

theorem headArg_of_atom (t : List Tok) (h : HeadAtom t) : HeadArg t := by
  cases t with
  | nil => simp [HeadAtom] at h
  | cons x xs => cases x <;> simp_all [HeadAtom, HeadArg]

theorem head_arg (e : Expr) (h : WFarg e) (rest : List Tok) : HeadArg (print e ++ rest) := by
  cases e with
  | lit i => by_cases hi : 0 ≤ i <;> simp [print, printInt, hi, HeadArg]
  | flit neg t => cases neg <;> simp [print, printFloat, HeadArg]
  | root l => simp [print, HeadArg]
  | item o k => exact headArg_of_atom _ (head_post (.item o k) (by simpa [WFpost, WFarg] using h) rest)
  | attr o a => exact headArg_of_atom _ (head_post (.attr o a) (by simpa [WFpost, WFarg] using h) rest)
  | bin op l r => simp [print, HeadArg]
  | un op a => simp [print, HeadArg]
  | call f args => exact headArg_of_atom _ (head_post (.call f args) (by simpa [WFpost, WFarg] using h) rest)
  | callkw f args kws =>
    exact headArg_of_atom _ (head_post (.callkw f args kws) (by simpa [WFpost, WFarg] using h) rest)

/-- a positional argument never looks like the start of a keyword argument -/
theorem notkw_arg (e : Expr) (h : WFarg e) (rest : List Tok) (hr : NoOpHead rest) : NotKw (print e ++ rest) := by
  cases e with
  | lit i => by_cases hi : 0 ≤ i <;> simp [print, printInt, hi, NotKw]
  | flit neg t => cases neg <;> simp [print, printFloat, NotKw]
  | root l => exact notkw_post (.root l) (by simp [WFpost]) rest hr
  | item o k => exact notkw_post (.item o k) (by simpa [WFpost, WFarg] using h) rest hr
  | attr o a => exact notkw_post (.attr o a) (by simpa [WFpost, WFarg] using h) rest hr
  | bin op l r => simp [print, NotKw]
  | un op a => simp [print, NotKw]
  | call f args => exact notkw_post (.call f args) (by simpa [WFpost, WFarg] using h) rest hr
  | callkw f args kws => exact notkw_post (.callkw f args kws) (by simpa [WFpost, WFarg] using h) rest hr

/-- the keyword part read by `parseArgs`, from the keyword part read by `parseKws` -/
theorem ev_args_of_kws (kws : List (String × Expr)) (toks rest : List Tok)
    (hh : ∃ k r, toks = .name k :: .op "=" :: r) (hd : (kwNames kws).Nodup)
    (h : Ev (fun n => parseKws n toks) (kws, rest)) :
    Ev (fun n => parseArgs n toks) (([], kws), rest) := by
  obtain ⟨k, r, rfl⟩ := hh
  obtain ⟨n0, h⟩ := h
  refine ⟨n0 + 1, fun n hn => ?_⟩
  obtain ⟨m, rfl⟩ : ∃ m, n = m + 1 := ⟨n - 1, by omega⟩
  have q := h m (by omega)
  dsimp only at q
  show parseArgs (m + 1) _ = _
  rw [parseArgs_kw, q]
  simp [namesDistinct, hd]

theorem printKws_head (kws : List (String × Expr)) (hne : kws ≠ []) (rest : List Tok) :
    ∃ k r, printKws kws ++ rest = .name k :: .op "=" :: r := by
  match kws, hne with
  | [(k, v)], _ => exact ⟨k, print v ++ .rpar :: rest, by simp [printKws]⟩
  | (k, v) :: b :: r, _ => exact ⟨k, print v ++ .comma :: (printKws (b :: r) ++ rest), by simp [printKws]⟩

mutual
theorem rt_post : ∀ e : Expr, PostClaim e
  | .root l => by
    intro _ rest res ⟨n0, h⟩
    refine ⟨n0 + 2, fun n hn => ?_⟩
    obtain ⟨m, rfl⟩ : ∃ m, n = m + 2 := ⟨n - 2, by omega⟩
    show parseExpr (m + 2) (print (.root l) ++ rest) = some res
    simp only [print, List.singleton_append]
    rw [parseExpr_atom _ _ (by simp [HeadAtom]), parsePrimary_name]
    exact h (m + 1) (by omega)
  | .item o k => by
    intro hw rest res hev
    have := rt_post o (by simpa [WFpost] using hw) (.lbr :: printKey k ++ .rbr :: rest) res
      (Ev.shift hev (fun n => parseTrailers_item n o k rest))
    simpa [print, List.append_assoc] using this
  | .attr o a => by
    intro hw rest res hev
    have := rt_post o (by simpa [WFpost] using hw) (.dot :: .name a :: rest) res
      (Ev.shift hev (fun n => parseTrailers_attr n o a rest))
    simpa [print, List.append_assoc] using this
  | .lit i => by intro hw; simp [WFpost] at hw
  | .flit _ _ => by intro hw; simp [WFpost] at hw
  | .bin op l r => by
    intro hw rest res ⟨n3, h3⟩
    have hl : WFarg l := by simp [WFpost] at hw; exact hw.1
    have hr : WFarg r := by simp [WFpost] at hw; exact hw.2
    obtain ⟨n1, h1⟩ := lhs_of_post l (rt_post l) hl (.op op :: (print r ++ .rpar :: rest)) (by simp [NoTrail])
    obtain ⟨n2, h2⟩ := arg_of_post r (rt_post r) hr (.rpar :: rest) (by simp [NoTrail])
    refine ⟨n1 + n2 + n3 + 2, fun n hn => ?_⟩
    obtain ⟨m, rfl⟩ : ∃ m, n = m + 2 := ⟨n - 2, by omega⟩
    show parseExpr (m + 2) (print (.bin op l r) ++ rest) = some res
    have e1 : print (.bin op l r) ++ rest = .lpar :: (printLhs l ++ .op op :: (print r ++ .rpar :: rest)) := by
      simp [print, List.append_assoc]
    have q1 := h1 m (by omega)
    have q2 := h2 m (by omega)
    dsimp only at q1 q2
    rw [e1, parseExpr_atom _ _ (by simp [HeadAtom]), parsePrimary_bin _ _ (head_lhs l hl _), q1]
    simp only
    rw [q2]
    simp only
    exact h3 (m + 1) (by omega)
  | .un op a => by
    intro hw rest res ⟨n3, h3⟩
    have ho : op ∈ unops := by simp [WFpost] at hw; exact hw.1
    have ha : WFpost a := by simp [WFpost] at hw; exact hw.2
    obtain ⟨n1, h1⟩ := rt_post a ha (.rpar :: rest) (a, .rpar :: rest) (ev_trailers_stop _ _ (by simp [NoTrail]))
    refine ⟨n1 + n3 + 2, fun n hn => ?_⟩
    obtain ⟨m, rfl⟩ : ∃ m, n = m + 2 := ⟨n - 2, by omega⟩
    show parseExpr (m + 2) (print (.un op a) ++ rest) = some res
    have e1 : print (.un op a) ++ rest = .lpar :: .op op :: (print a ++ .rpar :: rest) := by
      simp [print, List.append_assoc]
    have q1 := h1 m (by omega)
    dsimp only at q1
    rw [e1, parseExpr_atom _ _ (by simp [HeadAtom]), parsePrimary_un _ _ _ ho (head_post a ha _), q1]
    simp only
    exact h3 (m + 1) (by omega)
  | .call f args => by
    intro hw rest res ⟨n3, h3⟩
    have hf : WFpost f := by simp [WFpost] at hw; exact hw.1
    have hargs : WFargs args := by simp [WFpost] at hw; exact hw.2
    obtain ⟨n1, h1⟩ := rt_args args hargs rest
    have hev : Ev (fun n => parseTrailers n f (.lpar :: (printArgs args ++ rest))) res := by
      refine ⟨n1 + n3 + 1, fun n hn => ?_⟩
      obtain ⟨m, rfl⟩ : ∃ m, n = m + 1 := ⟨n - 1, by omega⟩
      show parseTrailers (m + 1) f (.lpar :: (printArgs args ++ rest)) = some res
      have q1 := h1 m (by omega)
      dsimp only at q1
      rw [parseTrailers_call, q1]
      exact h3 m (by omega)
    have := rt_post f hf (.lpar :: (printArgs args ++ rest)) res hev
    simpa [print, List.append_assoc] using this
  | .callkw f args kws => by
    intro hw rest res ⟨n3, h3⟩
    have hw' : WFpost f ∧ WFargs args ∧ kws ≠ [] ∧ WFkws kws ∧ (kwNames kws).Nodup := by
      simpa [WFpost] using hw
    obtain ⟨hf, hargs, hne, hkws, hd⟩ := hw'
    have hk := ev_args_of_kws kws (printKws kws ++ rest) rest (printKws_head kws hne rest) hd
      (rt_kws kws hne hkws rest)
    obtain ⟨n1, h1⟩ := rt_pos args hargs (printKws kws ++ rest) kws rest hne hk
    have hev : Ev (fun n => parseTrailers n f (.lpar :: (printPos args ++ (printKws kws ++ rest)))) res := by
      refine ⟨n1 + n3 + 1, fun n hn => ?_⟩
      obtain ⟨m, rfl⟩ : ∃ m, n = m + 1 := ⟨n - 1, by omega⟩
      show parseTrailers (m + 1) f (.lpar :: (printPos args ++ (printKws kws ++ rest))) = some res
      have q1 := h1 m (by omega)
      dsimp only at q1
      rw [parseTrailers_call, q1]
      have : mkCall f args kws = .callkw f args kws := by
        cases kws with
        | nil => exact absurd rfl hne
        | cons x xs => simp [mkCall]
      simp only [this]
      exact h3 m (by omega)
    have := rt_post f hf (.lpar :: (printPos args ++ (printKws kws ++ rest))) res hev
    simpa [print, List.append_assoc] using this
theorem rt_args : ∀ args : List Expr, WFargs args → ∀ rest,
    Ev (fun n => parseArgs n (printArgs args ++ rest)) ((args, []), rest)
  | [], _, rest => ⟨1, fun n hn => by
      obtain ⟨m, rfl⟩ : ∃ m, n = m + 1 := ⟨n - 1, by omega⟩
      show parseArgs (m + 1) (printArgs [] ++ rest) = some (([], []), rest)
      simp only [printArgs, List.singleton_append]
      conv => lhs; unfold parseArgs⟩
  | [a], hw, rest => by
    have ha : WFarg a := by simp [WFargs] at hw; exact hw
    obtain ⟨n1, h1⟩ := arg_of_post a (rt_post a) ha (.rpar :: rest) (by simp [NoTrail])
    refine ⟨n1 + 1, fun n hn => ?_⟩
    obtain ⟨m, rfl⟩ : ∃ m, n = m + 1 := ⟨n - 1, by omega⟩
    show parseArgs (m + 1) (printArgs [a] ++ rest) = some (([a], []), rest)
    have e1 : printArgs [a] ++ rest = print a ++ .rpar :: rest := by simp [printArgs, List.append_assoc]
    have q1 := h1 m (by omega)
    dsimp only at q1
    rw [e1, parseArgs_arg _ _ (head_arg a ha _) (notkw_arg a ha _ (by simp [NoOpHead])), q1]
  | a :: b :: r, hw, rest => by
    have ha : WFarg a := by simp [WFargs] at hw; exact hw.1
    have hbr : WFargs (b :: r) := by simp [WFargs] at hw ⊢; exact hw.2
    obtain ⟨n1, h1⟩ := arg_of_post a (rt_post a) ha (.comma :: (printArgs (b :: r) ++ rest)) (by simp [NoTrail])
    obtain ⟨n2, h2⟩ := rt_args (b :: r) hbr rest
    refine ⟨n1 + n2 + 1, fun n hn => ?_⟩
    obtain ⟨m, rfl⟩ : ∃ m, n = m + 1 := ⟨n - 1, by omega⟩
    show parseArgs (m + 1) (printArgs (a :: b :: r) ++ rest) = some ((a :: b :: r, []), rest)
    have e1 : printArgs (a :: b :: r) ++ rest = print a ++ .comma :: (printArgs (b :: r) ++ rest) := by
      simp [printArgs, List.append_assoc]
    have q1 := h1 m (by omega)
    have q2 := h2 m (by omega)
    dsimp only at q1 q2
    rw [e1, parseArgs_arg _ _ (head_arg a ha _) (notkw_arg a ha _ (by simp [NoOpHead])), q1]
    simp only
    rw [q2]
    simp
/-- positional arguments in front of a keyword part `toks` -/
theorem rt_pos : ∀ args : List Expr, WFargs args → ∀ (toks : List Tok) (kws : List (String × Expr)) (rest : List Tok),
    kws ≠ [] → Ev (fun n => parseArgs n toks) (([], kws), rest) →
    Ev (fun n => parseArgs n (printPos args ++ toks)) ((args, kws), rest)
  | [], _, toks, kws, rest, _, h => by simpa [printPos] using h
  | a :: r, hw, toks, kws, rest, hne, h => by
    have ha : WFarg a := by simp [WFargs] at hw; exact hw.1
    have hr : WFargs r := by simp [WFargs] at hw; exact hw.2
    obtain ⟨n1, h1⟩ := arg_of_post a (rt_post a) ha (.comma :: (printPos r ++ toks)) (by simp [NoTrail])
    obtain ⟨n2, h2⟩ := rt_pos r hr toks kws rest hne h
    refine ⟨n1 + n2 + 1, fun n hn => ?_⟩
    obtain ⟨m, rfl⟩ : ∃ m, n = m + 1 := ⟨n - 1, by omega⟩
    show parseArgs (m + 1) (printPos (a :: r) ++ toks) = some ((a :: r, kws), rest)
    have e1 : printPos (a :: r) ++ toks = print a ++ .comma :: (printPos r ++ toks) := by
      simp [printPos, List.append_assoc]
    have q1 := h1 m (by omega)
    have q2 := h2 m (by omega)
    dsimp only at q1 q2
    rw [e1, parseArgs_arg _ _ (head_arg a ha _) (notkw_arg a ha _ (by simp [NoOpHead])), q1]
    simp only
    rw [q2]
    have : kws.isEmpty = false := by cases kws <;> simp_all
    simp [this]
theorem rt_kws : ∀ kws : List (String × Expr), kws ≠ [] → WFkws kws → ∀ rest,
    Ev (fun n => parseKws n (printKws kws ++ rest)) (kws, rest)
  | [], hne, _, _ => absurd rfl hne
  | [(k, v)], _, hw, rest => by
    have hv : WFarg v := by simp [WFkws] at hw; exact hw.2
    obtain ⟨n1, h1⟩ := arg_of_post v (rt_post v) hv (.rpar :: rest) (by simp [NoTrail])
    refine ⟨n1 + 1, fun n hn => ?_⟩
    obtain ⟨m, rfl⟩ : ∃ m, n = m + 1 := ⟨n - 1, by omega⟩
    show parseKws (m + 1) (printKws [(k, v)] ++ rest) = some ([(k, v)], rest)
    have e1 : printKws [(k, v)] ++ rest = .name k :: .op "=" :: (print v ++ .rpar :: rest) := by
      simp [printKws, List.append_assoc]
    have q1 := h1 m (by omega)
    dsimp only at q1
    rw [e1, parseKws_kw, q1]
  | (k, v) :: b :: r, _, hw, rest => by
    have hv : WFarg v := by simp [WFkws] at hw; exact hw.2.1
    have hbr : WFkws (b :: r) := by simp [WFkws] at hw; exact hw.2.2
    obtain ⟨n1, h1⟩ := arg_of_post v (rt_post v) hv (.comma :: (printKws (b :: r) ++ rest)) (by simp [NoTrail])
    obtain ⟨n2, h2⟩ := rt_kws (b :: r) (by simp) hbr rest
    refine ⟨n1 + n2 + 1, fun n hn => ?_⟩
    obtain ⟨m, rfl⟩ : ∃ m, n = m + 1 := ⟨n - 1, by omega⟩
    show parseKws (m + 1) (printKws ((k, v) :: b :: r) ++ rest) = some ((k, v) :: b :: r, rest)
    have e1 : printKws ((k, v) :: b :: r) ++ rest =
        .name k :: .op "=" :: (print v ++ .comma :: (printKws (b :: r) ++ rest)) := by
      simp [printKws, List.append_assoc]
    have q1 := h1 m (by omega)
    have q2 := h2 m (by omega)
    dsimp only at q1 q2
    rw [e1, parseKws_kw, q1]
    simp only
    rw [q2]
end

/-- C11 (token level): printing then parsing gives the expression back, for every well-formed expression. -/
theorem parse_print (e : Expr) (h : WFarg e) : Ev (fun n => parseExpr n (print e)) (e, []) := by
  have := arg_of_post e (rt_post e) h [] (by simp [NoTrail])
  simpa using this

theorem print_injective (e₁ e₂ : Expr) (h₁ : WFarg e₁) (h₂ : WFarg e₂) (h : print e₁ = print e₂) : e₁ = e₂ := by
  obtain ⟨n1, p1⟩ := parse_print e₁ h₁
  obtain ⟨n2, p2⟩ := parse_print e₂ h₂
  have a := p1 (n1 + n2) (by omega)
  have b := p2 (n1 + n2) (by omega)
  rw [h] at a
  rw [a] at b
  exact (Prod.mk.inj (Option.some.inj b)).1

#print axioms parse_print
#print axioms print_injective
end Parse
