import XModel.ManagerC13
import XModel.ManagerC18Fn
/-!
# C13 with function tasks: the generated setter ≡ assigning through the manager

`ManagerC13.lean` proves C13 for managers that hold expression tasks only.  Here the manager may also hold
function tasks (`Kind.func body`, a list of `target := expression` lines run in order; every line is an *item*,
`itemsOf`, `ManagerFn.lean`).

* Stage A (`execGen_single`, `execGen_single_indepF`, `execGen_single_equiv_assignAllF`): for ONE argument the
  generated function and `write + run_tasks` are the same computation up to the schedule, so order independence with
  function tasks (`writeAndRun_sched_indepF'`) gives the result — including that the second run completes.
* Stage C, the general case (`execGen_equiv_assignAllF`): several arguments whose triggered sets may overlap
  (`GenScopeF`, the item-level translation of `GenScope`).  Both runs end with every item of every task holding
  (`execGen_factsF`, `assignAll_factsF`), both only write argument locations and item targets of triggered tasks, and
  along the flattened item list of the generated listing the values are unique (`unique_along`), so by the normal
  form of `StoreNF` the container trees are equal.  Stage B (pairwise disjoint triggered sets) is the special case.
* `genScopeFB` / `genScopeFB_sound`: the scope, decided; `execGen_equiv_assignAllF_decided`; an example.
-/
namespace Manager
open Store Push Index OrderIndep

/-! ## Stage A: one argument -/

/-- the generated function of ONE argument is literally `write + run_tasks` -/
theorem execGen_single (sched : Sched) (s : MState) (p : Path) (v : Val) :
    execGen sched s [(p, v)] = writeAndRun sched s p v := by
  unfold execGen writeAndRun
  simp only [execGen.assign, List.flatMap_cons, List.flatMap_nil, List.append_nil]
  cases writeRef s p v with
  | mk s1 x =>
    cases x with
    | some x => rfl
    | none => rfl

/-- **C13 with function tasks, one argument**: if the generated function completes under one legal order of its
    listing, `write + run_tasks` through the manager completes under any legal schedule, with the same container
    tree, definitions, indices, freeze flag, knob memory and fault flag. -/
theorem execGen_single_indepF (schedG schedS : Sched) (s : MState) (p : Path) (v : Val) (hi : MInv s)
    (sc : ScopeF s p)
    (hvsG : ValidSched (gOf s.idx) (findTaskids s.idx (chainR p)) (schedG (findTaskids s.idx (chainR p))))
    (hvsS : ValidSched (gOf s.idx) (findTaskids s.idx (chainR p)) (schedS (findTaskids s.idx (chainR p))))
    (hexist : ∀ t ∈ s.defs, t.id ∈ findTaskids s.idx (chainR p) → ∀ it ∈ itemsOf t, ∃ w, get s.store it.target = .ok w)
    (sG : MState) (hG : execGen schedG s [(p, v)] = (sG, none)) :
    ∃ sS, writeAndRun schedS s p v = (sS, none) ∧ sS.store = sG.store ∧ sS.defs = sG.defs ∧ sS.idx = sG.idx ∧
      sS.frozen = sG.frozen ∧ sS.prev = sG.prev ∧ sS.faultIn = sG.faultIn := by
  rw [execGen_single] at hG
  exact writeAndRun_sched_indepF' schedG schedS s p v hi sc hvsG hvsS hexist sG hG

/-- the sequence of manager assignments for one argument at a location that is not a task id -/
theorem assignAll_single (sched : Sched) (s : MState) (p : Path) (v : Val) (hnodef : lookDef s.defs p = none) :
    assignAll sched s [(p, v)] = writeAndRun sched s p v := by
  simp only [assignAll, setValue_plain_unfold sched s p v hnodef]
  cases writeAndRun sched s p v with
  | mk s1 x =>
    cases x with
    | some x => rfl
    | none => rfl

/-- Stage A in the form of C13: generated function vs `assignAll`, and conversely -/
theorem execGen_single_equiv_assignAllF (schedG schedS : Sched) (s : MState) (p : Path) (v : Val) (hi : MInv s)
    (hnodef : lookDef s.defs p = none) (sc : ScopeF s p)
    (hvsG : ValidSched (gOf s.idx) (findTaskids s.idx (chainR p)) (schedG (findTaskids s.idx (chainR p))))
    (hvsS : ValidSched (gOf s.idx) (findTaskids s.idx (chainR p)) (schedS (findTaskids s.idx (chainR p))))
    (hexist : ∀ t ∈ s.defs, t.id ∈ findTaskids s.idx (chainR p) → ∀ it ∈ itemsOf t, ∃ w, get s.store it.target = .ok w) :
    (∀ sG, execGen schedG s [(p, v)] = (sG, none) →
      ∃ sS, assignAll schedS s [(p, v)] = (sS, none) ∧ sS.store = sG.store ∧ sS.defs = sG.defs ∧ sS.idx = sG.idx) ∧
    (∀ sS, assignAll schedS s [(p, v)] = (sS, none) →
      ∃ sG, execGen schedG s [(p, v)] = (sG, none) ∧ sG.store = sS.store ∧ sG.defs = sS.defs ∧ sG.idx = sS.idx) := by
  rw [execGen_single, assignAll_single schedS s p v hnodef]
  constructor
  · intro sG hG
    obtain ⟨sS, h, h1, h2, h3, _⟩ := writeAndRun_sched_indepF' schedG schedS s p v hi sc hvsG hvsS hexist sG hG
    exact ⟨sS, h, h1, h2, h3⟩
  · intro sS hS
    obtain ⟨sG, h, h1, h2, h3, _⟩ := writeAndRun_sched_indepF' schedS schedG s p v hi sc hvsS hvsG hexist sS hS
    exact ⟨sG, h, h1, h2, h3⟩

/-! ## Stage C: several arguments, overlapping triggered sets -/

/-! ### lists -/

/-- two members of one block, in this order: in this order in the flattened list -/
theorem before_flatMap_block {α β : Type} (f : α → List β) : ∀ {l : List α} {t : α} {a b : β}, t ∈ l →
    Dfs3.Before (f t) a b → Dfs3.Before (l.flatMap f) a b
  | [], _, _, _, h, _ => by cases h
  | x :: l, t, a, b, h, hb => by
    rw [List.flatMap_cons]
    rcases List.mem_cons.mp h with rfl | h
    · obtain ⟨xs, ys, e, hy⟩ := hb
      exact ⟨xs, ys ++ l.flatMap f, by rw [e]; simp, List.mem_append.mpr (Or.inl hy)⟩
    · exact Dfs3.Before.append_left _ (before_flatMap_block f h hb)

/-- members of two blocks that come in this order: in this order in the flattened list -/
theorem before_flatMap_blocks {α β : Type} (f : α → List β) {l : List α} {t u : α} {a b : β}
    (h : Dfs3.Before l t u) (ha : a ∈ f t) (hb : b ∈ f u) : Dfs3.Before (l.flatMap f) a b := by
  obtain ⟨xs, ys, e, hu⟩ := h
  obtain ⟨p1, p2, ea⟩ := List.append_of_mem ha
  refine ⟨xs.flatMap f ++ p1, p2 ++ ys.flatMap f, ?_, ?_⟩
  · rw [e, List.flatMap_append, List.flatMap_cons, ea]; simp
  · exact List.mem_append.mpr (Or.inr (List.mem_flatMap.mpr ⟨u, hu, hb⟩))

/-- an abstract run of items is a sequence of writes to their targets -/
theorem runAll_reachF (W : List Path) : ∀ (l : List ETask) (σ σ' : Val), (∀ it ∈ l, it.target ∈ W) →
    runAll? (exprSys pySem) l σ = some σ' → Reach W σ σ'
  | [], σ, σ', _, h => by
    simp only [runAll?, Option.some.injEq] at h
    subst h
    exact Reach.refl
  | it :: l, σ, σ', hW, h => by
    simp only [runAll?] at h
    cases hr : (exprSys pySem).run? it σ with
    | none => simp [hr] at h
    | some σ1 =>
      simp only [hr] at h
      obtain ⟨v, _, hset⟩ := run_eq hr
      exact (Reach.step Reach.refl (hW it (List.mem_cons_self ..)) hset).trans
        (runAll_reachF W l σ1 σ' (fun u hu => hW u (List.mem_cons_of_mem _ hu)) h)

/-- the locations a list of tasks writes -/
def itemTargets (l : List MTask) : List Path := (l.flatMap itemsOf).map (·.target)

theorem mem_itemTargets {l : List MTask} {t : MTask} {it : ETask} (ht : t ∈ l) (hit : it ∈ itemsOf t) :
    it.target ∈ itemTargets l :=
  List.mem_map_of_mem (List.mem_flatMap.mpr ⟨t, ht, hit⟩)

theorem mem_itemTargets_iff {l : List MTask} {w : Path} :
    w ∈ itemTargets l ↔ ∃ t ∈ l, ∃ it ∈ itemsOf t, it.target = w := by
  unfold itemTargets
  constructor
  · intro h
    obtain ⟨it, hit, rfl⟩ := List.mem_map.mp h
    obtain ⟨t, ht, hitt⟩ := List.mem_flatMap.mp hit
    exact ⟨t, ht, it, hitt, rfl⟩
  · rintro ⟨t, ht, it, hit, rfl⟩
    exact mem_itemTargets ht hit

/-- a completed run of expression / function tasks is a sequence of writes to their item targets -/
theorem runTasks_reachF (W : List Path) (l : List MTask) (s s' : MState) (hnf : s.faultIn = none)
    (hk : ∀ t ∈ l, ((∃ e, t.kind = .expr e) ∨ ∃ body, t.kind = .func body) ∧ ∀ it ∈ itemsOf t, it.target ∈ W)
    (h : runTasks s l = (s', none)) : Reach W s.store s'.store := by
  obtain ⟨hrun, _⟩ := runTasks_items l s s' hnf (fun t ht => (hk t ht).1) h
  refine runAll_reachF W _ _ _ ?_ hrun
  intro it hit
  obtain ⟨t, ht, hitt⟩ := List.mem_flatMap.mp hit
  exact (hk t ht).2 it hitt

/-! ### the scope -/

/-- a task one of whose items reads an assigned location (or below / above it) is in the start set -/
theorem start_of_readF_gen (s : MState) (hi : MInv s) (startDeps : List Path) (p : Path)
    (hsub : ∀ d ∈ chainR p, d ∈ startDeps) (t : MTask) (ht : t ∈ s.defs) (hdt : DeclOK t)
    (b : ETask) (hb : b ∈ itemsOf t) (hpl : 2 ≤ p.length) (r : Path) (hr : r ∈ leafRefs b.expr) (hrl : 2 ≤ r.length)
    (hc : ¬ Incomparable p r) : t.id ∈ startOf s.idx startDeps :=
  startOf_mono s.idx (chainR p) startDeps hsub t.id (start_of_readF s hi p t ht hdt b hb hpl r hr hrl hc)

/-- hypotheses of C13 for a state holding expression and function tasks and a list of (location, value) arguments:
    `GenScope` with every field about a definition's target translated to the items of the task -/
structure GenScopeF (s : MState) (args : List (Path × Val)) : Prop where
  /-- every task is an `ExprTask`, or a function task with a sound declaration -/
  decl : ∀ t ∈ s.defs, DeclOK t
  argsOK : ∀ a ∈ args, PathOK a.1
  argsNodup : (args.map (·.1)).Nodup
  argsInc : ∀ a ∈ args, ∀ b ∈ args, a.1 ≠ b.1 → Incomparable a.1 b.1
  /-- the arguments are away from everything a task writes -/
  argsFree : ∀ a ∈ args, ∀ t ∈ s.defs, ∀ it ∈ itemsOf t, Incomparable a.1 it.target
  /-- no task is registered under an argument location (`set_value` would unregister it) -/
  argsNoTask : ∀ a ∈ args, ∀ t ∈ s.defs, t.id ≠ a.1
  argsExist : ∀ a ∈ args, ∃ x, get s.store a.1 = .ok x
  paths : ∀ t ∈ s.defs, ∀ it ∈ itemsOf t, PathOK it.target ∧ ∀ r ∈ leafRefs it.expr, PathOK r
  acyclic : ∀ a b, (∃ s0 ∈ startOf s.idx (argDeps args), Dfs3.Reach (gOf s.idx) s0 a) → a ≠ b →
      Dfs3.Reach (gOf s.idx) a b → Dfs3.Reach (gOf s.idx) b a → False
  h2 : ∀ t ∈ s.defs, ∀ u ∈ s.defs, t.id ≠ u.id → ∀ a ∈ itemsOf t, ∀ b ∈ itemsOf u, Incomparable b.target a.target
  h3 : ∀ t ∈ s.defs, ∀ it ∈ itemsOf t, ∀ r ∈ leafRefs it.expr, Incomparable it.target r
  body : ∀ t ∈ s.defs, (itemsOf t).Pairwise (fun a b => Incomparable b.target a.target ∧
      ∀ r ∈ leafRefs a.expr, Incomparable b.target r)
  /-- items read leaves: a read is away from every written location, or inside it -/
  leaf : ∀ t ∈ s.defs, ∀ it ∈ itemsOf t, ∀ r ∈ leafRefs it.expr, ∀ w,
      ((∃ a ∈ args, w = a.1) ∨ ∃ u ∈ s.defs, ∃ b ∈ itemsOf u, w = b.target) → Incomparable w r ∨ ∃ q, r = w ++ q
  nofault : s.faultIn = none

theorem argDeps_sub {args : List (Path × Val)} {a : Path × Val} (ha : a ∈ args) :
    ∀ d ∈ chainR a.1, d ∈ argDeps args := fun _ hd => List.mem_flatMap.mpr ⟨a, ha, hd⟩

/-- the scope of one of the assignments -/
theorem GenScopeF.scopeF {s : MState} {args : List (Path × Val)} (gs : GenScopeF s args) {a : Path × Val}
    (ha : a ∈ args) : ScopeF s a.1 :=
  { decl := gs.decl
    pathP := gs.argsOK a ha
    paths := gs.paths
    acyclic := by
      intro x y hx
      obtain ⟨s0, hs0, hr⟩ := hx
      exact gs.acyclic x y ⟨s0, startOf_mono s.idx (chainR a.1) (argDeps args) (argDeps_sub ha) s0 hs0, hr⟩
    h2 := gs.h2
    h2p := gs.argsFree a ha
    h3 := gs.h3
    body := gs.body
    nofault := gs.nofault }

/-- no task is registered under an argument location: `set_value` there is `write + run_tasks` -/
theorem GenScopeF.lookDef_none {s : MState} {args : List (Path × Val)} (gs : GenScopeF s args) {a : Path × Val}
    (ha : a ∈ args) : lookDef s.defs a.1 = none := by
  cases hl : lookDef s.defs a.1 with
  | none => rfl
  | some t => exact absurd (lookDef_id hl) (gs.argsNoTask a ha t (lookDef_mem hl))

/-! ### what `GenScopeF` says about the items -/

theorem item_ownerG {s : MState} {args : List (Path × Val)} (hi : MInv s) (gs : GenScopeF s args) {t u : MTask}
    (ht : t ∈ s.defs) (hu : u ∈ s.defs) {a : ETask} (hat : a ∈ itemsOf t) (hau : a ∈ itemsOf u) : t = u := by
  refine eq_of_id_eq s.defs hi.ids t ht u hu (Classical.byContradiction fun hne => ?_)
  exact not_incomparable_self _ (gs.h2 t ht u hu hne a hat a hau)

theorem items_nodupG {s : MState} {args : List (Path × Val)} (gs : GenScopeF s args) {t : MTask} (ht : t ∈ s.defs) :
    (itemsOf t).Nodup := by
  refine (gs.body t ht).imp ?_
  intro a b h e
  subst e
  exact not_incomparable_self _ h.1

/-- the flattened items of a list of definitions with distinct ids have pairwise incomparable targets -/
theorem flat_pairwiseG {s : MState} {args : List (Path × Val)} (gs : GenScopeF s args) (l : List MTask)
    (hsub : ∀ t ∈ l, t ∈ s.defs) (hnd : (l.map (·.id)).Nodup) :
    (l.flatMap itemsOf).Pairwise (fun a b => Incomparable a.target b.target) := by
  rw [List.pairwise_flatMap]
  constructor
  · intro t ht
    exact (gs.body t (hsub t ht)).imp (fun h => incomparable_symm' h.1)
  · have hp : l.Pairwise (fun t u => t.id ≠ u.id) := by
      have := hnd
      unfold List.Nodup at this
      rwa [List.pairwise_map] at this
    refine hp.imp_of_mem ?_
    intro t u ht hu hne x hx y hy
    exact gs.h2 u (hsub u hu) t (hsub t ht) (fun e => hne e.symm) y hy x hx

theorem flat_nodupG {s : MState} {args : List (Path × Val)} (gs : GenScopeF s args) (l : List MTask)
    (hsub : ∀ t ∈ l, t ∈ s.defs) (hnd : (l.map (·.id)).Nodup) : (l.flatMap itemsOf).Nodup := by
  refine (flat_pairwiseG gs l hsub hnd).imp ?_
  intro a b h e
  subst e
  exact not_incomparable_self _ h

theorem itemTargets_nodupG {s : MState} {args : List (Path × Val)} (gs : GenScopeF s args) (l : List MTask)
    (hsub : ∀ t ∈ l, t ∈ s.defs) (hnd : (l.map (·.id)).Nodup) : (itemTargets l).Nodup := by
  unfold itemTargets List.Nodup
  rw [List.pairwise_map]
  refine (flat_pairwiseG gs l hsub hnd).imp ?_
  intro a b h e
  rw [e] at h
  exact not_incomparable_self _ h

/-! ### the generated function -/

/-- non-interference from the absence of an edge (sound declarations) -/
theorem niOfG {s : MState} {args : List (Path × Val)} (hi : MInv s) (gs : GenScopeF s args) :
    ∀ U ∈ s.defs, ∀ T ∈ s.defs, U.id ≠ T.id → T.id ∉ gOf s.idx U.id →
      ∀ a ∈ itemsOf U, ∀ b ∈ itemsOf T, (exprSys pySem).NI a b := by
  intro U hU T hT hne hno a ha b hb
  refine ⟨(gs.paths U hU a ha).1.2, (gs.paths T hT b hb).1.2, gs.h2 T hT U hU (fun e => hne e.symm) b hb a ha, ?_⟩
  intro r hr
  refine ⟨((gs.paths T hT b hb).2 r hr).2, Classical.byContradiction fun hcmp => hno ?_⟩
  exact edge_of_readF s hi U T hU hT (gs.decl U hU) (gs.decl T hT) a ha b hb (gs.paths U hU a ha).1.1 r hr
    ((gs.paths T hT b hb).2 r hr).1 hcmp

/-- **the generated function, with function tasks**: after a completed call every item of every task holds, the
    graph is untouched, only argument locations and item targets of the listed tasks were written, and the arguments
    hold the given values -/
theorem execGen_factsF (sched : Sched) (s : MState) (args : List (Path × Val)) (hi : MInv s) (hc : ConsistentF s)
    (gs : GenScopeF s args)
    (hvs : ValidSched (gOf s.idx) (findTaskids s.idx (argDeps args)) (sched (findTaskids s.idx (argDeps args))))
    (s' : MState) (hok : execGen sched s args = (s', none)) :
    ∃ l : List MTask, l.map (·.id) = sched (findTaskids s.idx (argDeps args)) ∧ (∀ t ∈ l, t ∈ s.defs) ∧
      ConsistentF s' ∧ s'.defs = s.defs ∧ s'.idx = s.idx ∧
      Reach (args.map (·.1) ++ itemTargets l) s.store s'.store ∧
      ∀ a ∈ args, get s'.store a.1 = .ok a.2 := by
  obtain ⟨s1, l, hassign, hm, hrun⟩ := execGen_unfold sched s args s' hok
  obtain ⟨hreach1, hnf1, hd1, hi1, _⟩ := assign_spec args s s1 gs.nofault hassign
  have hvals1 := assign_values args s s1 gs.nofault (fun a ha => (gs.argsOK a ha).2) gs.argsNodup gs.argsInc hassign
  rw [hd1, hi1] at hm
  obtain ⟨hlmap, hlsub⟩ := mapM_lookDef s.defs _ (lookTask_ok s.defs) _ l hm
  have hkind : ∀ t ∈ l, (∃ e, t.kind = .expr e) ∨ ∃ body, t.kind = .func body :=
    fun t ht => declOK_kind (gs.decl t (hlsub t ht))
  obtain ⟨hrunA, _⟩ := runTasks_items l s1 s' hnf1 hkind hrun
  have hg := runTasks_graph l s1
  rw [hrun] at hg
  obtain ⟨hgi, hgd, _⟩ := hg
  obtain ⟨_, hmem, _⟩ := findTaskids_spec s hi (argDeps args) gs.acyclic
  refine ⟨l, hlmap, hlsub, ?_⟩
  generalize hπ : sched (findTaskids s.idx (argDeps args)) = π at hvs hlmap
  have memπ : ∀ x, x ∈ π ↔ ∃ s0 ∈ startOf s.idx (argDeps args), Dfs3.Reach (gOf s.idx) s0 x :=
    fun x => (hvs.mem x).trans (hmem x)
  have hlπ : ∀ t ∈ l, t.id ∈ π := fun t ht => by rw [← hlmap]; exact List.mem_map_of_mem ht
  have hlnd : (l.map (·.id)).Nodup := by rw [hlmap]; exact hvs.nodup
  have niOf := niOfG hi gs
  have key := runAll_Q (exprSys pySem) (l.flatMap itemsOf) s1.store s'.store
    (fun it => ∃ t ∈ s.defs, t.id ∉ π ∧ it ∈ itemsOf t) hrunA
    (by
      intro it hit
      obtain ⟨t, ht, hitt⟩ := List.mem_flatMap.mp hit
      exact ⟨(gs.paths t (hlsub t ht) it hitt).1.2, fun r hr =>
        ⟨((gs.paths t (hlsub t ht) it hitt).2 r hr).2, gs.h3 t (hlsub t ht) it hitt r hr⟩⟩)
    (by
      -- items of untriggered tasks still hold after the argument writes
      rintro it ⟨t, ht, hnot, hit⟩
      obtain ⟨hpt, hpr⟩ := gs.paths t ht it hit
      refine Q_of_frame it s.store s1.store (hc t ht it hit) ?_ ?_
      · intro r hr
        refine hreach1.frame r (hpr r hr).2 ?_
        intro w hw
        obtain ⟨a, ha, rfl⟩ := List.mem_map.mp hw
        refine ⟨(gs.argsOK a ha).2, Classical.byContradiction fun hcmp => hnot ?_⟩
        have := start_of_readF_gen s hi (argDeps args) a.1 (argDeps_sub ha) t ht (gs.decl t ht) it hit
          (gs.argsOK a ha).1 r hr (hpr r hr).1 hcmp
        exact (memπ t.id).mpr ⟨t.id, this, Dfs3.Reach.refl _⟩
      · refine hreach1.frame it.target hpt.2 ?_
        intro w hw
        obtain ⟨a, ha, rfl⟩ := List.mem_map.mp hw
        exact ⟨(gs.argsOK a ha).2, gs.argsFree a ha t ht it hit⟩)
    (by
      -- and no triggered item disturbs them
      rintro it ⟨t, ht, hnot, hit⟩ u hu
      obtain ⟨U, hU, huU⟩ := List.mem_flatMap.mp hu
      have hne : U.id ≠ t.id := fun e => hnot (e ▸ hlπ U hU)
      refine niOf U (hlsub U hU) t ht hne ?_ u huU it hit
      intro hedge
      obtain ⟨s0, hs0, hreach⟩ := (memπ U.id).mp (hlπ U hU)
      exact hnot ((memπ t.id).mpr ⟨s0, hs0, hreach.tail hedge⟩))
    (by
      -- the flattened list is in dependency order
      rw [List.pairwise_flatMap]
      constructor
      · intro t ht
        refine (gs.body t (hlsub t ht)).imp_of_mem ?_
        intro a b ha hb hab
        exact ⟨(gs.paths t (hlsub t ht) b hb).1.2, (gs.paths t (hlsub t ht) a ha).1.2, hab.1,
          fun r hr => ⟨((gs.paths t (hlsub t ht) a ha).2 r hr).2, hab.2 r hr⟩⟩
      · apply Capstone.pairwise_of_before (·.id) _ l hlnd
        intro A hA B hB hne hnot
        rw [hlmap]
        have hedge : A.id ∈ gOf s.idx B.id := by
          refine Classical.byContradiction fun hno => hnot ?_
          intro a ha b hb
          exact niOf B (hlsub B hB) A (hlsub A hA) (fun e => hne e.symm) hno b hb a ha
        exact hvs.order B.id A.id (hlπ B hB) (hlπ A hA) hedge hne)
  have hreach2 : Reach (itemTargets l) s1.store s'.store :=
    runTasks_reachF _ l s1 s' hnf1 (fun t ht => ⟨hkind t ht, fun it hit => mem_itemTargets ht hit⟩) hrun
  refine ⟨?_, by rw [hgd, hd1], by rw [hgi, hi1], ?_, ?_⟩
  · intro t ht it hit
    rw [hgd, hd1] at ht
    by_cases hin : t.id ∈ π
    · have : t.id ∈ l.map (·.id) := by rw [hlmap]; exact hin
      obtain ⟨t', ht', hte⟩ := List.mem_map.mp this
      have : t' = t := eq_of_id_eq s.defs hi.ids t' (hlsub t' ht') t ht hte
      subst this
      exact key.2 it (List.mem_flatMap.mpr ⟨t', ht', hit⟩)
    · exact key.1 it ⟨t, ht, hin, hit⟩
  · exact (hreach1.mono (fun w hw => List.mem_append.mpr (Or.inl hw))).trans
      (hreach2.mono (fun w hw => List.mem_append.mpr (Or.inr hw)))
  · intro a ha
    have : get s'.store a.1 = get s1.store a.1 := by
      refine hreach2.frame a.1 (gs.argsOK a ha).2 ?_
      intro w hw
      obtain ⟨t, ht, it, hit, rfl⟩ := mem_itemTargets_iff.mp hw
      exact ⟨(gs.paths t (hlsub t ht) it hit).1.2, incomparable_symm' (gs.argsFree a ha t (hlsub t ht) it hit)⟩
    rw [this]
    exact hvals1 a ha

/-! ### the manager, one argument after the other -/

/-- a completed `write + run_tasks` with expression / function tasks: the assigned location is written first, then
    only item targets of triggered tasks -/
theorem writeAndRun_splitF (sched : Sched) (s : MState) (p : Path) (v : Val) (hnf : s.faultIn = none) (W : List Path)
    (hW : ∀ t ∈ s.defs, t.id ∈ sched (findTaskids s.idx (chainR p)) →
      ((∃ e, t.kind = .expr e) ∨ ∃ body, t.kind = .func body) ∧ ∀ it ∈ itemsOf t, it.target ∈ W)
    (s' : MState) (hok : writeAndRun sched s p v = (s', none)) :
    ∃ σw, set s.store p v = .ok σw ∧ Reach W σw s'.store := by
  unfold writeAndRun at hok
  cases hw : writeRef s p v with
  | mk sw x =>
    cases x with
    | some x => simp [hw] at hok
    | none =>
      simp only [hw] at hok
      obtain ⟨hset, hnfw, hdw, hiw, _⟩ := writeRef_nofault s p v hnf sw hw
      rw [hiw, hdw] at hok
      generalize hm : List.mapM (lookTask s.defs) (sched (findTaskids s.idx (chainR p))) = res at hok
      cases res with
      | error e => simp at hok
      | ok l =>
        simp only at hok
        obtain ⟨hlmap, hlsub⟩ := mapM_lookDef s.defs _ (lookTask_ok s.defs) _ l hm
        refine ⟨sw.store, hset, runTasks_reachF W l sw s' hnfw ?_ hok⟩
        intro t ht
        exact hW t (hlsub t ht) (by rw [← hlmap]; exact List.mem_map_of_mem ht)

/-- the invariant carried along the sequence of assignments -/
structure SeqInvF (s : MState) (W : List Path) (done : List (Path × Val)) (st : MState) : Prop where
  inv : MInv st
  cons : ConsistentF st
  defs : st.defs = s.defs
  idx : st.idx = s.idx
  nofault : st.faultIn = none
  reach : Reach W s.store st.store
  vals : ∀ a ∈ done, get st.store a.1 = .ok a.2

theorem assignAll_factsF (sched : Sched) (s : MState) (args : List (Path × Val)) (L : List MTask)
    (gs : GenScopeF s args) (hLsub : ∀ t ∈ L, t ∈ s.defs)
    (hL : ∀ t ∈ s.defs, (∃ s0 ∈ startOf s.idx (argDeps args), Dfs3.Reach (gOf s.idx) s0 t.id) → t ∈ L)
    (hvs : ∀ a ∈ args, ValidSched (gOf s.idx) (findTaskids s.idx (chainR a.1)) (sched (findTaskids s.idx (chainR a.1)))) :
    ∀ (todo done : List (Path × Val)) (st s' : MState), (∀ a ∈ todo, a ∈ args) → (∀ a ∈ done, a ∈ args) →
      (∀ a ∈ todo, ∀ b ∈ done, a.1 ≠ b.1) → (todo.map (·.1)).Nodup →
      SeqInvF s (args.map (·.1) ++ itemTargets L) done st → assignAll sched st todo = (s', none) →
      SeqInvF s (args.map (·.1) ++ itemTargets L) (done ++ todo) s'
  | [], done, st, s', _, _, _, _, hinv, h => by
    simp only [assignAll] at h
    have := (Prod.mk.inj h).1
    subst this
    simpa using hinv
  | (p, v) :: rest, done, st, s', htodo, hdone, hdisj, hnd, hinv, h => by
    have hpa : (p, v) ∈ args := htodo _ (List.mem_cons_self ..)
    have hn : p ∉ rest.map (·.1) ∧ (rest.map (·.1)).Nodup := by simpa using hnd
    simp only [assignAll] at h
    cases hsv : setValue sched st p v with
    | mk s1 x =>
      cases x with
      | some x => simp [hsv] at h
      | none =>
        simp only [hsv] at h
        -- no task sits at an argument location: `set_value` is `write + run_tasks`
        have hnodef : lookDef st.defs p = none := by rw [hinv.defs]; exact gs.lookDef_none hpa
        have hw : writeAndRun sched st p v = (s1, none) := by
          rw [← setValue_plain_unfold sched st p v hnodef]; exact hsv
        have sc : ScopeF st p := ScopeF_congr (gs.scopeF hpa) hinv.defs hinv.idx hinv.nofault
        have hvs' : ValidSched (gOf st.idx) (findTaskids st.idx (chainR p)) (sched (findTaskids st.idx (chainR p))) := by
          rw [hinv.idx]; exact hvs (p, v) hpa
        obtain ⟨hc1, hgd, hgi, hnf1, hgf⟩ := writeAndRun_consistentU sched (fun _ => True) st p v hinv.inv sc.toG hvs'
          (fun t ht _ _ _ it hit => hinv.cons t ht it hit)
          (fun t ht he => absurd he (gs.argsNoTask (p, v) hpa t (by rw [← hinv.defs]; exact ht))) s1 hw
        have hi1 : MInv s1 := MInv_of_sameGraph (s := st) ⟨hgi, hgd, hgf⟩ hinv.inv
        -- everything written after the argument is an item target of a triggered task
        obtain ⟨_, hmemp⟩ := findTaskids_once_exact st hinv.inv (chainR p)
        obtain ⟨σw, hset, hreach2⟩ := writeAndRun_splitF sched st p v hinv.nofault (itemTargets L) (by
          intro t ht htπ
          have htd : t ∈ s.defs := by rw [← hinv.defs]; exact ht
          refine ⟨declOK_kind (gs.decl t htd), fun it hit => mem_itemTargets (hL t htd ?_) hit⟩
          obtain ⟨s0, hs0, hr⟩ := (hmemp t.id).mp ((hvs'.mem t.id).mp htπ)
          rw [hinv.idx] at hs0 hr
          exact ⟨s0, startOf_mono s.idx (chainR p) (argDeps args) (argDeps_sub hpa) s0 hs0, hr⟩) s1 hw
        -- the triggered tasks do not write an argument
        have frameL : ∀ a ∈ args, get s1.store a.1 = get σw a.1 := by
          intro a ha
          refine hreach2.frame a.1 (gs.argsOK a ha).2 ?_
          intro w hw'
          obtain ⟨t, ht, it, hit, rfl⟩ := mem_itemTargets_iff.mp hw'
          exact ⟨(gs.paths t (hLsub t ht) it hit).1.2, incomparable_symm' (gs.argsFree a ha t (hLsub t ht) it hit)⟩
        have hinv1 : SeqInvF s (args.map (·.1) ++ itemTargets L) (done ++ [(p, v)]) s1 :=
          { inv := hi1
            cons := fun t ht it hit => hc1 t ht (Or.inl trivial) it hit
            defs := by rw [hgd, hinv.defs]
            idx := by rw [hgi, hinv.idx]
            nofault := hnf1
            reach := by
              refine hinv.reach.trans ((Reach.step Reach.refl ?_ hset).trans
                (hreach2.mono (fun w hw' => List.mem_append.mpr (Or.inr hw'))))
              exact List.mem_append.mpr (Or.inl (List.mem_map.mpr ⟨(p, v), hpa, rfl⟩))
            vals := by
              intro a ha
              rcases List.mem_append.mp ha with ha | ha
              · -- an earlier argument: not touched by this step
                have haa := hdone a ha
                have hne : p ≠ a.1 := hdisj (p, v) (List.mem_cons_self ..) a ha
                rw [frameL a haa, get_set_incomparable hset (gs.argsInc (p, v) hpa a haa hne) (gs.argsOK (p, v) hpa).2
                  (gs.argsOK a haa).2]
                exact hinv.vals a ha
              · simp only [List.mem_singleton] at ha
                subst ha
                rw [frameL (p, v) hpa]
                exact get_set_same hset }
        have := assignAll_factsF sched s args L gs hLsub hL hvs rest (done ++ [(p, v)]) s1 s'
          (fun a ha => htodo a (List.mem_cons_of_mem _ ha))
          (by
            intro a ha
            rcases List.mem_append.mp ha with ha | ha
            · exact hdone a ha
            · simp only [List.mem_singleton] at ha; subst ha; exact hpa)
          (by
            intro a ha b hb
            rcases List.mem_append.mp hb with hb | hb
            · exact hdisj a (List.mem_cons_of_mem _ ha) b hb
            · simp only [List.mem_singleton] at hb
              subst hb
              intro e
              have e' : a.1 = p := e
              exact hn.1 (e' ▸ List.mem_map_of_mem ha))
          hn.2 hinv1 h
        simpa [List.append_assoc] using this

/-! ### both end in the same container tree -/

theorem before_total {α : Type} : ∀ {l : List α} {a b : α}, a ∈ l → b ∈ l →
    a = b ∨ Dfs3.Before l a b ∨ Dfs3.Before l b a
  | [], _, _, h, _ => by cases h
  | x :: l, a, b, ha, hb => by
    rcases List.mem_cons.mp ha with rfl | ha'
    · rcases List.mem_cons.mp hb with rfl | hb'
      · exact Or.inl rfl
      · exact Or.inr (Or.inl (Dfs3.Before.head hb'))
    · rcases List.mem_cons.mp hb with rfl | hb'
      · exact Or.inr (Or.inr (Dfs3.Before.head ha'))
      · rcases before_total ha' hb' with h | h | h
        · exact Or.inl h
        · exact Or.inr (Or.inl (Dfs3.Before.append_left [x] h))
        · exact Or.inr (Or.inr (Dfs3.Before.append_left [x] h))

theorem rel_of_pairwise_before {α : Type} {R : α → α → Prop} {l : List α} {a b : α} (h : l.Pairwise R)
    (hb : Dfs3.Before l a b) : R a b := by
  obtain ⟨xs, ys, e, hy⟩ := hb
  rw [e] at h
  exact List.rel_of_pairwise_cons (List.pairwise_append.mp h).2.1 hy

/-- the family of locations either run ever writes: the arguments and every item target -/
def famWF (s : MState) (args : List (Path × Val)) : List Path := args.map (·.1) ++ itemTargets s.defs

theorem famWF_family (s : MState) (args : List (Path × Val)) (hi : MInv s) (gs : GenScopeF s args) :
    Family (famWF s args) where
  nodup := by
    unfold famWF
    refine List.nodup_append.mpr ⟨gs.argsNodup, itemTargets_nodupG gs s.defs (fun _ h => h) hi.ids, ?_⟩
    intro x hx y hy e
    subst e
    obtain ⟨a, ha, rfl⟩ := List.mem_map.mp hx
    obtain ⟨t, ht, it, hit, he⟩ := mem_itemTargets_iff.mp hy
    have := gs.argsFree a ha t ht it hit
    rw [he] at this
    exact not_incomparable_self _ this
  canon := by
    intro w hw
    unfold famWF at hw
    rcases List.mem_append.mp hw with h | h
    · obtain ⟨a, ha, rfl⟩ := List.mem_map.mp h
      exact (gs.argsOK a ha).2
    · obtain ⟨t, ht, it, hit, rfl⟩ := mem_itemTargets_iff.mp h
      exact (gs.paths t ht it hit).1.2
  inc := by
    intro w hw w' hw' hne
    unfold famWF at hw hw'
    rcases List.mem_append.mp hw with h | h <;> rcases List.mem_append.mp hw' with h' | h'
    · obtain ⟨a, ha, rfl⟩ := List.mem_map.mp h
      obtain ⟨b, hb, rfl⟩ := List.mem_map.mp h'
      exact gs.argsInc a ha b hb hne
    · obtain ⟨a, ha, rfl⟩ := List.mem_map.mp h
      obtain ⟨t, ht, it, hit, rfl⟩ := mem_itemTargets_iff.mp h'
      exact gs.argsFree a ha t ht it hit
    · obtain ⟨t, ht, it, hit, rfl⟩ := mem_itemTargets_iff.mp h
      obtain ⟨a, ha, rfl⟩ := List.mem_map.mp h'
      exact incomparable_symm' (gs.argsFree a ha t ht it hit)
    · obtain ⟨t, ht, a, hat, rfl⟩ := mem_itemTargets_iff.mp h
      obtain ⟨u, hu, b, hbu, rfl⟩ := mem_itemTargets_iff.mp h'
      rcases pairwise_mem_cases (flat_pairwiseG gs s.defs (fun _ h => h) hi.ids) a
        (List.mem_flatMap.mpr ⟨t, ht, hat⟩) b (List.mem_flatMap.mpr ⟨u, hu, hbu⟩) with e | h | h
      · exact absurd (congrArg ETask.target e) hne
      · exact h
      · exact incomparable_symm' h

theorem famWF_exist (s : MState) (args : List (Path × Val)) (hc : ConsistentF s) (gs : GenScopeF s args) :
    AllExist (famWF s args) s.store := by
  intro w hw
  unfold famWF at hw
  rcases List.mem_append.mp hw with h | h
  · obtain ⟨a, ha, rfl⟩ := List.mem_map.mp h
    exact gs.argsExist a ha
  · obtain ⟨t, ht, it, hit, rfl⟩ := mem_itemTargets_iff.mp h
    obtain ⟨x, _, hx⟩ := hc t ht it hit
    exact ⟨x, hx⟩

theorem pathOK_ne_nil {p : Path} (h : PathOK p) : p ≠ [] := by
  intro e
  have := h.1
  rw [e] at this
  simp at this

theorem famWF_ne_nil (s : MState) (args : List (Path × Val)) (gs : GenScopeF s args) :
    ∀ w ∈ famWF s args, w ≠ [] := by
  intro w hw
  unfold famWF at hw
  rcases List.mem_append.mp hw with h | h
  · obtain ⟨a, ha, rfl⟩ := List.mem_map.mp h
    exact pathOK_ne_nil (gs.argsOK a ha)
  · obtain ⟨t, ht, it, hit, rfl⟩ := mem_itemTargets_iff.mp h
    exact pathOK_ne_nil (gs.paths t ht it hit).1

/-- **C13 on the executable manager, expression and function tasks**: the generated function and the manager's own
    sequence of assignments end with the same container tree, the same definitions and the same indices. -/
theorem execGen_equiv_assignAllF (schedG schedS : Sched) (s : MState) (args : List (Path × Val)) (hi : MInv s)
    (hc : ConsistentF s) (gs : GenScopeF s args)
    (hvsG : ValidSched (gOf s.idx) (findTaskids s.idx (argDeps args)) (schedG (findTaskids s.idx (argDeps args))))
    (hvsS : ∀ a ∈ args, ValidSched (gOf s.idx) (findTaskids s.idx (chainR a.1)) (schedS (findTaskids s.idx (chainR a.1))))
    (sG : MState) (hG : execGen schedG s args = (sG, none))
    (sS : MState) (hS : assignAll schedS s args = (sS, none)) :
    sG.store = sS.store ∧ sG.defs = sS.defs ∧ sG.idx = sS.idx := by
  obtain ⟨_, hmem, _⟩ := findTaskids_spec s hi (argDeps args) gs.acyclic
  obtain ⟨l, hlmap, hlsub, hcG, hdG, hiG, hrG, hvG⟩ := execGen_factsF schedG s args hi hc gs hvsG sG hG
  generalize hT : schedG (findTaskids s.idx (argDeps args)) = T at hvsG hlmap
  have memT : ∀ x, x ∈ T ↔ ∃ s0 ∈ startOf s.idx (argDeps args), Dfs3.Reach (gOf s.idx) s0 x :=
    fun x => (hvsG.mem x).trans (hmem x)
  have hlnd : (l.map (·.id)).Nodup := by rw [hlmap]; exact hvsG.nodup
  have hlT : ∀ t ∈ l, t.id ∈ T := fun t ht => by rw [← hlmap]; exact List.mem_map_of_mem ht
  have hTl : ∀ t ∈ s.defs, t.id ∈ T → t ∈ l := by
    intro t ht hin
    have : t.id ∈ l.map (·.id) := by rw [hlmap]; exact hin
    obtain ⟨t', ht', hte⟩ := List.mem_map.mp this
    have : t' = t := eq_of_id_eq s.defs hi.ids t' (hlsub t' ht') t ht hte
    exact this ▸ ht'
  have hinvS := assignAll_factsF schedS s args l gs hlsub (fun t ht hx => hTl t ht ((memT t.id).mpr hx)) hvsS args [] s sS
    (fun _ h => h) (by intro a h; cases h) (by intro a _ b hb; cases hb) gs.argsNodup
    { inv := hi, cons := hc, defs := rfl, idx := rfl, nofault := gs.nofault, reach := Reach.refl
      vals := by intro a h; cases h } hS
  simp only [List.nil_append] at hinvS
  refine ⟨?_, by rw [hdG, hinvS.defs], by rw [hiG, hinvS.idx]⟩
  have hsubW : ∀ w ∈ args.map (·.1) ++ itemTargets l, w ∈ famWF s args := by
    intro w hw
    unfold famWF
    rcases List.mem_append.mp hw with h | h
    · exact List.mem_append.mpr (Or.inl h)
    · obtain ⟨t, ht, it, hit, rfl⟩ := mem_itemTargets_iff.mp h
      exact List.mem_append.mpr (Or.inr (mem_itemTargets (hlsub t ht) hit))
  have hW := famWF_family s args hi gs
  have hexW := famWF_exist s args hc gs
  -- what is not written keeps its value
  have frameU : ∀ (σ : Val), Reach (args.map (·.1) ++ itemTargets l) s.store σ → ∀ q, canonPath q →
      (∀ a ∈ args, Incomparable a.1 q) → (∀ t ∈ l, ∀ it ∈ itemsOf t, Incomparable it.target q) →
      get σ q = get s.store q := by
    intro σ hr q hq ha ht
    refine hr.frame q hq ?_
    intro w hw
    rcases List.mem_append.mp hw with h | h
    · obtain ⟨a, haa, rfl⟩ := List.mem_map.mp h
      exact ⟨(gs.argsOK a haa).2, ha a haa⟩
    · obtain ⟨t, htl, it, hit, rfl⟩ := mem_itemTargets_iff.mp h
      exact ⟨(gs.paths t (hlsub t htl) it hit).1.2, ht t htl it hit⟩
  -- the items of untriggered tasks keep their value in both
  have untrig : ∀ (σ : Val), Reach (args.map (·.1) ++ itemTargets l) s.store σ → ∀ u ∈ s.defs, u.id ∉ T →
      ∀ b ∈ itemsOf u, get σ b.target = get s.store b.target := by
    intro σ hr u hu hnot b hb
    refine frameU σ hr b.target (gs.paths u hu b hb).1.2 (fun a ha => gs.argsFree a ha u hu b hb) ?_
    intro t ht it hit
    have hne : u.id ≠ t.id := fun e => hnot (e ▸ hlT t ht)
    exact gs.h2 u hu t (hlsub t ht) hne b hb it hit
  have hLnd : (l.flatMap itemsOf).Nodup := flat_nodupG gs l hlsub hlnd
  -- items of triggered tasks: uniqueness along the flattened generated order
  have htrig := unique_along pySem sG.store sS.store (l.flatMap itemsOf) []
    (by intro u hu; cases hu)
    (by
      intro pre it post hsplit r hr
      have hitmem : it ∈ l.flatMap itemsOf := by rw [hsplit]; simp
      obtain ⟨t, htl, hit⟩ := List.mem_flatMap.mp hitmem
      have ht := hlsub t htl
      obtain ⟨_, hpr⟩ := gs.paths t ht it hit
      by_cases hex : ∃ w, ((∃ a ∈ args, w = a.1) ∨ ∃ u ∈ s.defs, ∃ b ∈ itemsOf u, w = b.target) ∧ ∃ q, r = w ++ q
      · obtain ⟨w, hw, q, rfl⟩ := hex
        rcases hw with ⟨a, ha, rfl⟩ | ⟨u, hu, b, hb, rfl⟩
        · -- inside an argument: the value that was assigned
          left
          rw [Unique.get_append, Unique.get_append, hvG a ha, hinvS.vals a ha]
        · by_cases huT : u.id ∈ T
          · -- inside the target of a triggered item: that item comes earlier in the flattened list
            right
            have hcmp : ¬ Incomparable b.target (b.target ++ q) :=
              not_incomparable_append b.target q (pathOK_ne_nil (gs.paths u hu b hb).1)
            have hbef : Dfs3.Before (l.flatMap itemsOf) b it := by
              by_cases hut : u.id = t.id
              · have : u = t := eq_of_id_eq s.defs hi.ids u hu t ht hut
                subst this
                rcases before_total hb hit with e | h | h
                · subst e
                  exact absurd (gs.h3 u hu b hb _ hr) hcmp
                · exact before_flatMap_block itemsOf htl h
                · exact absurd ((rel_of_pairwise_before (gs.body u hu) h).2 _ hr) hcmp
              · have hedge := edge_of_readF s hi u t hu ht (gs.decl u hu) (gs.decl t ht) b hb it hit
                  (gs.paths u hu b hb).1.1 _ hr (hpr _ hr).1 hcmp
                have hb' := hvsG.order u.id t.id huT (hlT t htl) hedge (fun e => hut e.symm)
                rw [← hlmap] at hb'
                obtain ⟨u', t', hu', ht', hbl⟩ := before_of_map (fun x : MTask => x.id) hb'
                have e1 : u' = u := eq_of_id_eq s.defs hi.ids u' (hlsub u' (before_mem_left hbl)) u hu hu'
                have e2 : t' = t := eq_of_id_eq s.defs hi.ids t' (hlsub t' (Capstone.before_mem_right hbl)) t ht ht'
                subst e1; subst e2
                exact before_flatMap_blocks itemsOf hbl hb hit
            exact ⟨b, Or.inr (mem_prefix_of_before hLnd hbef hsplit), q, rfl⟩
          · left
            rw [Unique.get_append, Unique.get_append, untrig sG.store hrG u hu huT b hb,
              untrig sS.store hinvS.reach u hu huT b hb]
      · -- incomparable with everything that is ever written
        left
        have hinc : ∀ w, ((∃ a ∈ args, w = a.1) ∨ ∃ u ∈ s.defs, ∃ b ∈ itemsOf u, w = b.target) → Incomparable w r := by
          intro w hw
          rcases gs.leaf t ht it hit r hr w hw with h | ⟨q, hq⟩
          · exact h
          · exact absurd ⟨w, hw, q, hq⟩ hex
        rw [frameU sG.store hrG r (hpr r hr).2 (fun a ha => hinc a.1 (Or.inl ⟨a, ha, rfl⟩))
              (fun u hu b hb => hinc b.target (Or.inr ⟨u, hlsub u hu, b, hb, rfl⟩)),
            frameU sS.store hinvS.reach r (hpr r hr).2 (fun a ha => hinc a.1 (Or.inl ⟨a, ha, rfl⟩))
              (fun u hu b hb => hinc b.target (Or.inr ⟨u, hlsub u hu, b, hb, rfl⟩))])
    (by
      intro it hit
      obtain ⟨t, htl, hitt⟩ := List.mem_flatMap.mp hit
      exact hcG t (by rw [hdG]; exact hlsub t htl) it hitt)
    (by
      intro it hit
      obtain ⟨t, htl, hitt⟩ := List.mem_flatMap.mp hit
      exact hinvS.cons t (by rw [hinvS.defs]; exact hlsub t htl) it hitt)
  -- agreement on the whole family, hence equality
  refine Reach.eq_of_agree hW (famWF_ne_nil s args gs) (hrG.mono hsubW) (hinvS.reach.mono hsubW) hexW ?_
  intro w hw
  unfold famWF at hw
  rcases List.mem_append.mp hw with h | h
  · obtain ⟨a, ha, rfl⟩ := List.mem_map.mp h
    rw [hvG a ha, hinvS.vals a ha]
  · obtain ⟨u, hu, b, hb, rfl⟩ := mem_itemTargets_iff.mp h
    by_cases huT : u.id ∈ T
    · exact htrig b (List.mem_flatMap.mpr ⟨u, hTl u hu huT, hb⟩)
    · rw [untrig sG.store hrG u hu huT b hb, untrig sS.store hinvS.reach u hu huT b hb]

/-! ### Stage B as a corollary: pairwise disjoint triggered sets are a special case — nothing about the overlap of
    the triggered sets is assumed in `GenScopeF`, so the theorem above applies as it stands. -/

/-- after the generated function every item of every task holds and the arguments hold their values -/
theorem execGen_consistentF (sched : Sched) (s : MState) (args : List (Path × Val)) (hi : MInv s) (hc : ConsistentF s)
    (gs : GenScopeF s args)
    (hvs : ValidSched (gOf s.idx) (findTaskids s.idx (argDeps args)) (sched (findTaskids s.idx (argDeps args))))
    (s' : MState) (hok : execGen sched s args = (s', none)) :
    ConsistentF s' ∧ s'.defs = s.defs ∧ s'.idx = s.idx ∧ ∀ a ∈ args, get s'.store a.1 = .ok a.2 := by
  obtain ⟨_, _, _, h1, h2, h3, _, h4⟩ := execGen_factsF sched s args hi hc gs hvs s' hok
  exact ⟨h1, h2, h3, h4⟩

/-- after the manager's sequence of assignments every item of every task holds and the arguments hold their values -/
theorem assignAll_consistentF (sched : Sched) (s : MState) (args : List (Path × Val)) (hi : MInv s) (hc : ConsistentF s)
    (gs : GenScopeF s args)
    (hvs : ∀ a ∈ args, ValidSched (gOf s.idx) (findTaskids s.idx (chainR a.1)) (sched (findTaskids s.idx (chainR a.1))))
    (s' : MState) (hok : assignAll sched s args = (s', none)) :
    ConsistentF s' ∧ s'.defs = s.defs ∧ s'.idx = s.idx ∧ ∀ a ∈ args, get s'.store a.1 = .ok a.2 := by
  have h := assignAll_factsF sched s args s.defs gs (fun _ h => h) (fun _ h _ => h) hvs args [] s s'
    (fun _ h => h) (by intro a h; cases h) (by intro a _ b hb; cases hb) gs.argsNodup
    { inv := hi, cons := hc, defs := rfl, idx := rfl, nofault := gs.nofault, reach := Reach.refl
      vals := by intro a h; cases h } hok
  simp only [List.nil_append] at h
  exact ⟨h.cons, h.defs, h.idx, h.vals⟩

/-! ### the expression-only theorem is an instance -/

theorem itemsOf_exprTask {t : MTask} {e : Expr} (hk : t.kind = .expr e) : itemsOf t = [toE t] := by
  simp [itemsOf, toE, hk]

/-- with expression tasks only, `GenScope` is `GenScopeF` -/
theorem GenScope.toF {s : MState} {args : List (Path × Val)} (gs : GenScope s args) : GenScopeF s args := by
  have hitems : ∀ t ∈ s.defs, itemsOf t = [toE t] := fun t ht => by
    obtain ⟨e, hk, _⟩ := gs.exprs t ht
    exact itemsOf_exprTask hk
  exact
    { decl := fun t ht => Or.inl (gs.exprs t ht)
      argsOK := gs.argsOK
      argsNodup := gs.argsNodup
      argsInc := gs.argsInc
      argsFree := by
        intro a ha t ht it hit
        rw [hitems t ht, List.mem_singleton] at hit
        subst hit
        exact gs.argsFree a ha t ht
      argsNoTask := by
        intro a ha t ht e
        have := gs.argsFree a ha t ht
        rw [e] at this
        exact not_incomparable_self _ this
      argsExist := gs.argsExist
      paths := by
        intro t ht it hit
        rw [hitems t ht, List.mem_singleton] at hit
        subst hit
        exact gs.paths t ht
      acyclic := gs.acyclic
      h2 := by
        intro t ht u hu hne a ha b hb
        rw [hitems t ht, List.mem_singleton] at ha
        rw [hitems u hu, List.mem_singleton] at hb
        subst ha; subst hb
        exact gs.h2 t ht u hu hne
      h3 := by
        intro t ht it hit
        rw [hitems t ht, List.mem_singleton] at hit
        subst hit
        exact gs.h3 t ht
      body := by
        intro t ht
        rw [hitems t ht]
        exact List.pairwise_singleton _ _
      leaf := by
        intro t ht it hit r hr w hw
        rw [hitems t ht, List.mem_singleton] at hit
        subst hit
        refine gs.leaf t ht r hr w ?_
        rcases hw with h | ⟨u, hu, b, hb, rfl⟩
        · exact Or.inl h
        · rw [hitems u hu, List.mem_singleton] at hb
          subst hb
          exact Or.inr ⟨u, hu, rfl⟩
      nofault := gs.nofault }

theorem consistentF_of_consistent {s : MState} (hex : ExprDefs s.defs) (hc : Consistent s) : ConsistentF s := by
  intro t ht it hit
  obtain ⟨e, hk, _⟩ := hex t ht
  rw [itemsOf_exprTask hk, List.mem_singleton] at hit
  subst hit
  exact hc t ht

/-- `execGen_equiv_assignAll` (expression tasks only) again, as a corollary of the theorem with function tasks -/
theorem execGen_equiv_assignAll_ofF (schedG schedS : Sched) (s : MState) (args : List (Path × Val)) (hi : MInv s)
    (hc : Consistent s) (gs : GenScope s args)
    (hvsG : ValidSched (gOf s.idx) (findTaskids s.idx (argDeps args)) (schedG (findTaskids s.idx (argDeps args))))
    (hvsS : ∀ a ∈ args, ValidSched (gOf s.idx) (findTaskids s.idx (chainR a.1)) (schedS (findTaskids s.idx (chainR a.1))))
    (sG : MState) (hG : execGen schedG s args = (sG, none))
    (sS : MState) (hS : assignAll schedS s args = (sS, none)) :
    sG.store = sS.store ∧ sG.defs = sS.defs ∧ sG.idx = sS.idx :=
  execGen_equiv_assignAllF schedG schedS s args hi (consistentF_of_consistent gs.exprs hc) gs.toF hvsG hvsS sG hG sS hS

/-! ### the scope, decided -/

/-- `GenScopeF` as the driver can evaluate it -/
def genScopeFB (s : MState) (args : List (Path × Val)) : Bool :=
  s.defs.all declOKB &&
  args.all (fun a => pathOKB a.1) &&
  decide (dedup (args.map (·.1)) = args.map (·.1)) &&
  args.all (fun a => args.all (fun b => decide (a.1 = b.1) || !(comparable a.1 b.1))) &&
  args.all (fun a => s.defs.all (fun t => (itemsOf t).all (fun it => !(comparable a.1 it.target)))) &&
  args.all (fun a => s.defs.all (fun t => !(decide (t.id = a.1)))) &&
  args.all (fun a => isOkB (get s.store a.1)) &&
  s.defs.all (fun t => (itemsOf t).all (fun it => pathOKB it.target && (leafRefs it.expr).all pathOKB)) &&
  acyclicFrom s.idx (startOf s.idx (argDeps args)) &&
  s.defs.all (fun t => s.defs.all (fun u => decide (t.id = u.id) ||
    (itemsOf t).all (fun a => (itemsOf u).all (fun b => !(comparable b.target a.target))))) &&
  s.defs.all (fun t => (itemsOf t).all (fun it => (leafRefs it.expr).all (fun r => !(comparable it.target r)))) &&
  s.defs.all (fun t => bodyOKB (itemsOf t)) &&
  s.defs.all (fun t => (itemsOf t).all (fun it => (leafRefs it.expr).all (fun r =>
    (args.map (·.1) ++ itemTargets s.defs).all (fun w => !(comparable w r) || isPrefix w r)))) &&
  s.faultIn.isNone

theorem genScopeFB_sound (s : MState) (hi : MInv s) (args : List (Path × Val)) (h : genScopeFB s args = true) :
    GenScopeF s args := by
  unfold genScopeFB at h
  simp only [Bool.and_eq_true, List.all_eq_true, Bool.or_eq_true, decide_eq_true_eq, Bool.not_eq_eq_eq_not,
    Bool.not_true, decide_eq_false_iff_not] at h
  obtain ⟨⟨⟨⟨⟨⟨⟨⟨⟨⟨⟨⟨⟨hdecl, haok⟩, hnd⟩, hinc⟩, hfree⟩, hnotask⟩, hexist⟩, hpaths⟩, hac⟩, h2⟩, h3⟩, hbody⟩, hleaf⟩, hnf⟩ := h
  exact
    { decl := fun t ht => declOKB_sound t (hdecl t ht)
      argsOK := fun a ha => pathOKB_sound a.1 (haok a ha)
      argsNodup := by rw [← hnd]; exact dedup_nodup _
      argsInc := by
        intro a ha b hb hne
        rcases hinc a ha b hb with h | h
        · exact absurd h hne
        · exact incomparable_of_not_comparable _ _ h
      argsFree := fun a ha t ht it hit => incomparable_of_not_comparable _ _ (hfree a ha t ht it hit)
      argsNoTask := fun a ha t ht => hnotask a ha t ht
      argsExist := by
        intro a ha
        have := hexist a ha
        cases hg : get s.store a.1 with
        | ok x => exact ⟨x, rfl⟩
        | error e => simp [hg, isOkB] at this
      paths := fun t ht it hit => ⟨pathOKB_sound _ (hpaths t ht it hit).1,
        fun r hr => pathOKB_sound r ((hpaths t ht it hit).2 r hr)⟩
      acyclic := acyclicFrom_sound s hi (argDeps args) hac
      h2 := by
        intro t ht u hu hne a ha b hb
        rcases h2 t ht u hu with h | h
        · exact absurd h hne
        · exact incomparable_of_not_comparable _ _ (h a ha b hb)
      h3 := fun t ht it hit r hr => incomparable_of_not_comparable _ _ (h3 t ht it hit r hr)
      body := fun t ht => bodyOKB_sound _ (hbody t ht)
      leaf := by
        intro t ht it hit r hr w hw
        have hwmem : w ∈ args.map (·.1) ++ itemTargets s.defs := by
          rcases hw with ⟨a, ha, rfl⟩ | ⟨u, hu, b, hb, rfl⟩
          · exact List.mem_append.mpr (Or.inl (List.mem_map_of_mem ha))
          · exact List.mem_append.mpr (Or.inr (mem_itemTargets hu hb))
        rcases hleaf t ht it hit r hr w hwmem with h | h
        · exact Or.inl (incomparable_of_not_comparable _ _ h)
        · exact Or.inr (isPrefix_sound w r h)
      nofault := by
        cases hf : s.faultIn with
        | none => rfl
        | some k => simp [hf] at hnf }

theorem genScopeFB_acyclic (s : MState) (args : List (Path × Val)) (h : genScopeFB s args = true) :
    acyclicFrom s.idx (startOf s.idx (argDeps args)) = true := by
  unfold genScopeFB at h
  simp only [Bool.and_eq_true] at h
  exact h.1.1.1.1.1.2

/-- the manager's schedules, one per argument, decided (`validSchedule` asks for producers before consumers only when
    the graph below the start set is acyclic, so that test is made as well) -/
def argSchedsB (sched : Sched) (s : MState) (args : List (Path × Val)) : Bool :=
  args.all (fun a => acyclicFrom s.idx (startOf s.idx (chainR a.1)) &&
    validSchedule s.idx (chainR a.1) (sched (findTaskids s.idx (chainR a.1))))

theorem argSchedsB_sound (sched : Sched) (s : MState) (args : List (Path × Val)) (h : argSchedsB sched s args = true) :
    ∀ a ∈ args, ValidSched (gOf s.idx) (findTaskids s.idx (chainR a.1)) (sched (findTaskids s.idx (chainR a.1))) := by
  unfold argSchedsB at h
  simp only [List.all_eq_true, Bool.and_eq_true] at h
  exact fun a ha => validSchedule_sound s.idx (chainR a.1) _ (h a ha).2 (h a ha).1

/-- **C13 with function tasks, every hypothesis decided by Boolean tests.** -/
theorem execGen_equiv_assignAllF_decided (schedG schedS : Sched) (s : MState) (args : List (Path × Val)) (hi : MInv s)
    (hsc : genScopeFB s args = true) (hc : consistentFB s = true)
    (hvG : validSchedule s.idx (argDeps args) (schedG (findTaskids s.idx (argDeps args))) = true)
    (hvS : argSchedsB schedS s args = true)
    (sG : MState) (hG : execGen schedG s args = (sG, none))
    (sS : MState) (hS : assignAll schedS s args = (sS, none)) :
    sG.store = sS.store ∧ sG.defs = sS.defs ∧ sG.idx = sS.idx :=
  execGen_equiv_assignAllF schedG schedS s args hi (consistentFB_sound s hc) (genScopeFB_sound s hi args hsc)
    (validSchedule_sound s.idx (argDeps args) _ hvG (genScopeFB_acyclic s args hsc))
    (argSchedsB_sound schedS s args hvS) sG hG sS hS

/-! ### non-vacuity: the state of `C18FnExample` — the definition `c = a + b` (expression task) and the function task
    `#F : e := c * 2 ; f := a + 1`, consistent with `a = 5`, `b = 2` — and the two arguments `a := 9`, `b := 4`.
    Both arguments trigger `c` and `#F` (the triggered sets overlap completely): the manager runs both tasks twice,
    the generated function once. -/
namespace C13FnExample
open C18FnExample

def twoArgs : List (Path × Val) := [(da, .int 9), (db, .int 4)]

/-- the hypotheses of the decided theorem hold (generated listing in the model's order, and reversed schedules for the
    manager would be illegal here: `c` feeds `#F`) -/
theorem hyps : genScopeFB sF twoArgs = true ∧ consistentFB sF = true ∧
    validSchedule sF.idx (argDeps twoArgs) (id (findTaskids sF.idx (argDeps twoArgs))) = true ∧
    argSchedsB id sF twoArgs = true := by decide

/-- the listing of the generated function: the definition of `c`, then the function task — once each -/
example : findTaskids sF.idx (argDeps twoArgs) = [dc, [.item (.str "#F")]] ∧
    findTaskids sF.idx (chainR da) = [dc, [.item (.str "#F")]] ∧
    findTaskids sF.idx (chainR db) = [dc, [.item (.str "#F")]] := by decide

/-- the theorem applied to the example -/
example (sG sS : MState) (hG : execGen id sF twoArgs = (sG, none)) (hS : assignAll id sF twoArgs = (sS, none)) :
    sG.store = sS.store ∧ sG.defs = sS.defs ∧ sG.idx = sS.idx :=
  execGen_equiv_assignAllF_decided id id sF twoArgs sF_inv hyps.1 hyps.2.1 hyps.2.2.1 hyps.2.2.2 sG hG sS hS

/-- and computed: both complete, same containers; `c = 13`, `e = 26`, `f = 10` -/
example : (execGen id sF twoArgs).2 = none ∧ (assignAll id sF twoArgs).2 = none ∧
    (execGen id sF twoArgs).1.store = (assignAll id sF twoArgs).1.store ∧
    get (execGen id sF twoArgs).1.store dc = .ok (.int 13) ∧
    get (execGen id sF twoArgs).1.store de = .ok (.int 26) ∧
    get (execGen id sF twoArgs).1.store df = .ok (.int 10) := ⟨rfl, rfl, rfl, rfl, rfl, rfl⟩

/-- Stage A on the same state: one argument -/
example : execGen id sF [(da, .int 9)] = writeAndRun id sF da (.int 9) := execGen_single id sF da (.int 9)
end C13FnExample

/-! ### a second example with two *different* legal orders: the state of `C20FnExample` (`c = a + b` next to
    `#G : e := a * 2 ; f := a + 1`, neither feeds the other) made consistent by one assignment.  The generated
    function lists `[c, #G]` (reversed model order), the manager runs `[#G, c]` after `a` and `[c]` after `b`. -/
namespace C13FnExample2
open C20FnExample

def sC : MState := (setValue id sG da (.int 5)).1
theorem sC_inv : MInv sC := setValue_MInv id sG da _ sG_inv
def twoArgs : List (Path × Val) := [(da, .int 9), (db, .int 4)]

theorem hyps : genScopeFB sC twoArgs = true ∧ consistentFB sC = true ∧
    validSchedule sC.idx (argDeps twoArgs) (List.reverse (findTaskids sC.idx (argDeps twoArgs))) = true ∧
    argSchedsB id sC twoArgs = true := by decide

example : List.reverse (findTaskids sC.idx (argDeps twoArgs)) = [dc, [.item (.str "#G")]] ∧
    findTaskids sC.idx (chainR da) = [[.item (.str "#G")], dc] ∧ findTaskids sC.idx (chainR db) = [dc] := by decide

example (s1 s2 : MState) (hG : execGen List.reverse sC twoArgs = (s1, none)) (hS : assignAll id sC twoArgs = (s2, none)) :
    s1.store = s2.store ∧ s1.defs = s2.defs ∧ s1.idx = s2.idx :=
  execGen_equiv_assignAllF_decided List.reverse id sC twoArgs sC_inv hyps.1 hyps.2.1 hyps.2.2.1 hyps.2.2.2 s1 hG s2 hS

example : (execGen List.reverse sC twoArgs).2 = none ∧ (assignAll id sC twoArgs).2 = none ∧
    (execGen List.reverse sC twoArgs).1.store = (assignAll id sC twoArgs).1.store ∧
    get (assignAll id sC twoArgs).1.store dc = .ok (.int 13) ∧
    get (assignAll id sC twoArgs).1.store de = .ok (.int 18) ∧
    get (assignAll id sC twoArgs).1.store df = .ok (.int 10) := ⟨rfl, rfl, rfl, rfl, rfl, rfl⟩
end C13FnExample2

#print axioms execGen_single
#print axioms execGen_single_indepF
#print axioms execGen_single_equiv_assignAllF
#print axioms execGen_factsF
#print axioms assignAll_factsF
#print axioms execGen_equiv_assignAllF
#print axioms execGen_consistentF
#print axioms assignAll_consistentF
#print axioms genScopeFB_sound
#print axioms execGen_equiv_assignAllF_decided
#print axioms C13FnExample.hyps
#print axioms C13FnExample2.hyps
#print axioms GenScope.toF
#print axioms execGen_equiv_assignAll_ofF

end Manager
