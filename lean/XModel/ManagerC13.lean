import XModel.ManagerC18
import XModel.Acyclic
import XModel.StoreNF
import XModel.Unique
/-!
# C13 on the executable manager: the generated setter ≡ assigning through the manager

`execGen` is the body of the function `gen_fun` produces: plain assignments of all arguments, then the triggered
tasks once each in dependency order.  The manager assigns the arguments one after the other, each followed by its own
propagation.  Both end with every definition holding (C01), both only ever write the argument locations and
definition targets, and they agree on everything else — so, by the normal form of `StoreNF`, the container trees
are *equal*.
-/
namespace Manager
open Store Push Index

/-! ### start sets for several assigned locations -/

theorem start_of_read_gen (s : MState) (hi : MInv s) (hex : ExprDefs s.defs) (startDeps : List Path) (p : Path)
    (hsub : ∀ d ∈ chainR p, d ∈ startDeps) (t : MTask) (ht : t ∈ s.defs)
    (hpl : 2 ≤ p.length) (r : Path) (hr : r ∈ leafRefs (toE t).expr) (hrl : 2 ≤ r.length)
    (hc : ¬ Incomparable p r) : t.id ∈ startOf s.idx startDeps := by
  obtain ⟨et, hkt, htdeps, _⟩ := hex t ht
  have hr' : r ∈ leafRefs et := by simpa [toE, hkt] using hr
  obtain ⟨d, hd1, hd2⟩ := common_of_not_incomparable p r hpl hrl hc
  unfold startOf
  rw [mem_uniq]
  refine List.mem_flatMap.mpr ⟨d, hsub d hd1, ?_⟩
  rw [RC.mem_keys_iff _ (hi.inv.wf3 d)]
  show DD.cnt2 s.idx.deptasks d t.id ≥ 1
  rw [hi.inv.dept, hi.link]
  have hdt : d ∈ t.deps := by rw [htdeps]; exact (mem_exprDeps et d).mpr ⟨r, hr', hd2⟩
  exact sDep_pos _ t.id t.toIdx (look_of_mem s.defs hi.ids t ht) d hdt

/-- the start set of one argument is part of the start set of all of them -/
theorem startOf_mono (m : Mgr Path Path) (A B : List Path) (h : ∀ d ∈ A, d ∈ B) :
    ∀ k ∈ startOf m A, k ∈ startOf m B := by
  intro k hk
  unfold startOf at hk ⊢
  rw [mem_uniq] at hk ⊢
  obtain ⟨d, hd, hkd⟩ := List.mem_flatMap.mp hk
  exact List.mem_flatMap.mpr ⟨d, h d hd, hkd⟩

/-! ### runs as sequences of writes to a family of locations -/

theorem runTasks_reach (W : List Path) : ∀ (l : List MTask) (s s' : MState), s.faultIn = none →
    (∀ t ∈ l, (∃ e, t.kind = .expr e) ∧ t.id ∈ W) → runTasks s l = (s', none) → Reach W s.store s'.store
  | [], s, s', _, _, h => by
    simp only [runTasks] at h
    have := (Prod.mk.inj h).1
    subst this
    exact Reach.refl
  | t :: l, s, s', hnf, hex, h => by
    obtain ⟨⟨e, hk⟩, hW⟩ := hex t (List.mem_cons_self ..)
    simp only [runTasks] at h
    cases hrt : runTask s t with
    | mk s1 x =>
      cases x with
      | some x => simp [hrt] at h
      | none =>
        simp only [hrt] at h
        have hrt' := hrt
        simp only [runTask, hk] at hrt'
        cases hev : evalE s e with
        | error x => simp [hev] at hrt'
        | ok v =>
          simp only [hev] at hrt'
          obtain ⟨hset, hnf1, _, _, _⟩ := writeRef_nofault s t.id v hnf s1 hrt'
          have ih := runTasks_reach W l s1 s' hnf1 (fun u hu => hex u (List.mem_cons_of_mem _ hu)) h
          exact (Reach.step Reach.refl hW hset).trans ih

/-- a tree reached by writes to `W` is unchanged at every location incomparable with all of `W` -/
theorem _root_.Store.Reach.frame {W : List Path} {τ σ : Val} (h : Reach W τ σ) (q : Path) (hq : canonPath q)
    (hc : ∀ w ∈ W, canonPath w ∧ Incomparable w q) : get σ q = get τ q := by
  induction h with
  | refl => rfl
  | step _ hp hs ih => rw [get_set_incomparable hs (hc _ hp).2 (hc _ hp).1 hq]; exact ih

/-! ### the generated function -/

theorem assign_spec : ∀ (args : List (Path × Val)) (s s1 : MState), s.faultIn = none →
    execGen.assign s args = (s1, none) →
    Reach (args.map (·.1)) s.store s1.store ∧ s1.faultIn = none ∧ s1.defs = s.defs ∧ s1.idx = s.idx ∧
    s1.frozen = s.frozen
  | [], s, s1, hnf, h => by
    simp only [execGen.assign] at h
    have := (Prod.mk.inj h).1
    subst this
    exact ⟨Reach.refl, hnf, rfl, rfl, rfl⟩
  | (p, v) :: rest, s, s1, hnf, h => by
    simp only [execGen.assign] at h
    cases hw : writeRef s p v with
    | mk sw x =>
      cases x with
      | some x => simp [hw] at h
      | none =>
        simp only [hw] at h
        obtain ⟨hset, hnfw, hdw, hiw, hfw⟩ := writeRef_nofault s p v hnf sw hw
        obtain ⟨hr, hnf1, hd1, hi1, hf1⟩ := assign_spec rest sw s1 hnfw h
        refine ⟨?_, hnf1, by rw [hd1, hdw], by rw [hi1, hiw], by rw [hf1, hfw]⟩
        have h0 : Reach (((p, v) :: rest).map (·.1)) s.store sw.store :=
          Reach.step Reach.refl (by simp) hset
        exact h0.trans (hr.mono (fun w hw => by simp only [List.map_cons, List.mem_cons]; exact Or.inr hw))

/-- the start dependencies `mk_fun` uses: the owner chains of all argument refs -/
def argDeps (args : List (Path × Val)) : List Path := args.flatMap (fun a => chainR a.1)

/-- hypotheses of C13 for a state and a list of (location, value) arguments: C01's scope for the union of the
    start sets, arguments that are plain existing locations away from every definition, and expressions that read
    leaves (never a whole container that holds a target or an argument) -/
structure GenScope (s : MState) (args : List (Path × Val)) : Prop where
  exprs : ExprDefs s.defs
  argsOK : ∀ a ∈ args, PathOK a.1
  argsNodup : (args.map (·.1)).Nodup
  argsInc : ∀ a ∈ args, ∀ b ∈ args, a.1 ≠ b.1 → Incomparable a.1 b.1
  argsFree : ∀ a ∈ args, ∀ t ∈ s.defs, Incomparable a.1 t.id
  argsExist : ∀ a ∈ args, ∃ x, get s.store a.1 = .ok x
  paths : ∀ t ∈ s.defs, PathOK t.id ∧ ∀ r ∈ leafRefs (toE t).expr, PathOK r
  acyclic : ∀ a b, (∃ s0 ∈ startOf s.idx (argDeps args), Dfs3.Reach (gOf s.idx) s0 a) → a ≠ b →
      Dfs3.Reach (gOf s.idx) a b → Dfs3.Reach (gOf s.idx) b a → False
  h2 : ∀ t ∈ s.defs, ∀ u ∈ s.defs, t.id ≠ u.id → Incomparable u.id t.id
  h3 : ∀ t ∈ s.defs, ∀ r ∈ leafRefs (toE t).expr, Incomparable t.id r
  leaf : ∀ t ∈ s.defs, ∀ r ∈ leafRefs (toE t).expr, ∀ w, ((∃ a ∈ args, w = a.1) ∨ ∃ u ∈ s.defs, w = u.id) →
      Incomparable w r ∨ ∃ q, r = w ++ q
  nofault : s.faultIn = none

/-- the family of locations either run ever writes -/
def famW (s : MState) (args : List (Path × Val)) : List Path := args.map (·.1) ++ s.defs.map (·.id)

theorem incomparable_symm' {p q : Path} (h : Incomparable p q) : Incomparable q p := Capstone.incomparable_symm h

theorem famW_family (s : MState) (args : List (Path × Val)) (hi : MInv s) (gs : GenScope s args) :
    Family (famW s args) where
  nodup := by
    unfold famW
    refine List.nodup_append.mpr ⟨gs.argsNodup, hi.ids, ?_⟩
    intro x hx y hy e
    subst e
    obtain ⟨a, ha, rfl⟩ := List.mem_map.mp hx
    obtain ⟨t, ht, he⟩ := List.mem_map.mp hy
    have := gs.argsFree a ha t ht
    rw [he] at this
    have hne := (gs.argsOK a ha).1
    -- a path is never incomparable with itself
    have : ∀ p : Path, ¬ Incomparable p p := by
      intro p
      induction p with
      | nil => simp [Incomparable]
      | cons s p ih => simp [Incomparable, ih]
    exact this _ ‹Incomparable a.1 a.1›
  canon := by
    intro w hw
    unfold famW at hw
    rcases List.mem_append.mp hw with h | h
    · obtain ⟨a, ha, rfl⟩ := List.mem_map.mp h
      exact (gs.argsOK a ha).2
    · obtain ⟨t, ht, rfl⟩ := List.mem_map.mp h
      exact (gs.paths t ht).1.2
  inc := by
    intro w hw w' hw' hne
    unfold famW at hw hw'
    rcases List.mem_append.mp hw with h | h <;> rcases List.mem_append.mp hw' with h' | h'
    · obtain ⟨a, ha, rfl⟩ := List.mem_map.mp h
      obtain ⟨b, hb, rfl⟩ := List.mem_map.mp h'
      exact gs.argsInc a ha b hb hne
    · obtain ⟨a, ha, rfl⟩ := List.mem_map.mp h
      obtain ⟨t, ht, rfl⟩ := List.mem_map.mp h'
      exact gs.argsFree a ha t ht
    · obtain ⟨t, ht, rfl⟩ := List.mem_map.mp h
      obtain ⟨a, ha, rfl⟩ := List.mem_map.mp h'
      exact incomparable_symm' (gs.argsFree a ha t ht)
    · obtain ⟨t, ht, rfl⟩ := List.mem_map.mp h
      obtain ⟨u, hu, rfl⟩ := List.mem_map.mp h'
      exact gs.h2 u hu t ht (fun e => hne e.symm)

theorem famW_exist (s : MState) (args : List (Path × Val)) (hc : Consistent s) (gs : GenScope s args) :
    AllExist (famW s args) s.store := by
  intro w hw
  unfold famW at hw
  rcases List.mem_append.mp hw with h | h
  · obtain ⟨a, ha, rfl⟩ := List.mem_map.mp h
    exact gs.argsExist a ha
  · obtain ⟨t, ht, rfl⟩ := List.mem_map.mp h
    obtain ⟨x, _, hx⟩ := hc t ht
    exact ⟨x, hx⟩

theorem famW_ne_nil (s : MState) (args : List (Path × Val)) (gs : GenScope s args) : ∀ w ∈ famW s args, w ≠ [] := by
  intro w hw e
  subst e
  unfold famW at hw
  rcases List.mem_append.mp hw with h | h
  · obtain ⟨a, ha, he⟩ := List.mem_map.mp h
    have := (gs.argsOK a ha).1
    rw [he] at this; simp at this
  · obtain ⟨t, ht, he⟩ := List.mem_map.mp h
    have := (gs.paths t ht).1.1
    rw [he] at this; simp at this

/-! ### what the two procedures write -/

theorem writeAndRun_reach (sched : Sched) (s : MState) (p : Path) (v : Val) (hnf : s.faultIn = none)
    (hex : ExprDefs s.defs) (s' : MState) (hok : writeAndRun sched s p v = (s', none)) :
    Reach (p :: sched (findTaskids s.idx (chainR p))) s.store s'.store := by
  unfold writeAndRun at hok
  cases hw : writeRef s p v with
  | mk sw x =>
    cases x with
    | some x => simp [hw] at hok
    | none =>
      simp only [hw] at hok
      obtain ⟨hset, hnfw, hdw, hiw, _⟩ := writeRef_nofault s p v hnf sw hw
      rw [hiw, hdw] at hok
      generalize hm : List.mapM (lookTask s.defs) (sched (findTaskids s.idx (chainR p))) = res at hok
      cases res with
      | error e => simp at hok
      | ok l =>
        simp only at hok
        obtain ⟨hlmap, hlsub⟩ := mapM_lookDef s.defs _ (lookTask_ok s.defs) _ l hm
        have h1 : Reach (p :: sched (findTaskids s.idx (chainR p))) s.store sw.store :=
          Reach.step Reach.refl (List.mem_cons_self ..) hset
        refine h1.trans (runTasks_reach _ l sw s' hnfw ?_ hok)
        intro t ht
        obtain ⟨e, he, _⟩ := hex t (hlsub t ht)
        exact ⟨⟨e, he⟩, List.mem_cons_of_mem _ (by rw [← hlmap]; exact List.mem_map_of_mem ht)⟩

theorem execGen_unfold (sched : Sched) (s : MState) (args : List (Path × Val)) (s' : MState)
    (hok : execGen sched s args = (s', none)) :
    ∃ s1 l, execGen.assign s args = (s1, none) ∧
      List.mapM (lookTask s1.defs) (sched (findTaskids s1.idx (argDeps args))) = .ok l ∧
      runTasks s1 l = (s', none) := by
  unfold execGen at hok
  cases ha : execGen.assign s args with
  | mk s1 x =>
    cases x with
    | some x => simp [ha] at hok
    | none =>
      simp only [ha] at hok
      cases hm : List.mapM (lookTask s1.defs) (sched (findTaskids s1.idx (args.flatMap (fun a => chainR a.1)))) with
      | error e => simp [hm] at hok
      | ok l =>
        simp only [hm] at hok
        exact ⟨s1, l, rfl, hm, hok⟩

theorem assign_values : ∀ (args : List (Path × Val)) (s s1 : MState), s.faultIn = none →
    (∀ a ∈ args, canonPath a.1) → (args.map (·.1)).Nodup →
    (∀ a ∈ args, ∀ b ∈ args, a.1 ≠ b.1 → Incomparable a.1 b.1) →
    execGen.assign s args = (s1, none) → ∀ a ∈ args, get s1.store a.1 = .ok a.2
  | [], _, _, _, _, _, _, _, a, ha => by cases ha
  | (p, v) :: rest, s, s1, hnf, hcan, hnd, hinc, h, a, ha => by
    simp only [execGen.assign] at h
    cases hw : writeRef s p v with
    | mk sw x =>
      cases x with
      | some x => simp [hw] at h
      | none =>
        simp only [hw] at h
        obtain ⟨hset, hnfw, _, _, _⟩ := writeRef_nofault s p v hnf sw hw
        have hn : p ∉ rest.map (·.1) ∧ (rest.map (·.1)).Nodup := by simpa using hnd
        rcases List.mem_cons.mp ha with rfl | ha'
        · -- the first argument: the later writes are elsewhere
          obtain ⟨hr, _⟩ := assign_spec rest sw s1 hnfw h
          have : get s1.store p = get sw.store p := by
            refine hr.frame p (hcan (p, v) (List.mem_cons_self ..)) ?_
            intro w hw'
            obtain ⟨b, hb, rfl⟩ := List.mem_map.mp hw'
            have hne : b.1 ≠ p := fun e => hn.1 (e ▸ List.mem_map_of_mem hb)
            exact ⟨hcan b (List.mem_cons_of_mem _ hb),
              hinc b (List.mem_cons_of_mem _ hb) (p, v) (List.mem_cons_self ..) hne⟩
          rw [this]
          exact get_set_same hset
        · exact assign_values rest sw s1 hnfw (fun b hb => hcan b (List.mem_cons_of_mem _ hb)) hn.2
            (fun b hb c hc => hinc b (List.mem_cons_of_mem _ hb) c (List.mem_cons_of_mem _ hc)) h a ha'

/-- **the generated function**: after a completed call every definition holds, the graph is untouched, only
    argument locations and triggered targets were written, and the arguments hold the given values -/
theorem execGen_facts (sched : Sched) (s : MState) (args : List (Path × Val)) (hi : MInv s) (hc : Consistent s)
    (gs : GenScope s args)
    (hvs : ValidSched (gOf s.idx) (findTaskids s.idx (argDeps args)) (sched (findTaskids s.idx (argDeps args))))
    (s' : MState) (hok : execGen sched s args = (s', none)) :
    Consistent s' ∧ s'.defs = s.defs ∧ s'.idx = s.idx ∧
    Reach (args.map (·.1) ++ sched (findTaskids s.idx (argDeps args))) s.store s'.store ∧
    ∀ a ∈ args, get s'.store a.1 = .ok a.2 := by
  obtain ⟨s1, l, hassign, hm, hrun⟩ := execGen_unfold sched s args s' hok
  obtain ⟨hreach1, hnf1, hd1, hi1, _⟩ := assign_spec args s s1 gs.nofault hassign
  have hvals1 := assign_values args s s1 gs.nofault (fun a ha => (gs.argsOK a ha).2) gs.argsNodup gs.argsInc hassign
  rw [hd1, hi1] at hm
  obtain ⟨hlmap, hlsub⟩ := mapM_lookDef s.defs _ (lookTask_ok s.defs) _ l hm
  have hexl : ∀ t ∈ l, ∃ e, t.kind = .expr e := fun t ht => by
    obtain ⟨e, he, _⟩ := gs.exprs t (hlsub t ht); exact ⟨e, he⟩
  obtain ⟨hrunA, _⟩ := runTasks_expr l s1 s' hnf1 hexl hrun
  have hg := runTasks_graph l s1
  rw [hrun] at hg
  obtain ⟨hgi, hgd, _⟩ := hg
  obtain ⟨_, hmem, _⟩ := findTaskids_spec s hi (argDeps args) gs.acyclic
  generalize hπ : sched (findTaskids s.idx (argDeps args)) = π at hvs hlmap
  have memπ : ∀ x, x ∈ π ↔ ∃ s0 ∈ startOf s.idx (argDeps args), Dfs3.Reach (gOf s.idx) s0 x :=
    fun x => (hvs.mem x).trans (hmem x)
  have hsubdeps : ∀ a ∈ args, ∀ d ∈ chainR a.1, d ∈ argDeps args := by
    intro a ha d hd
    exact List.mem_flatMap.mpr ⟨a, ha, hd⟩
  have key := Capstone.consistent_of_order pySem (s.defs.map toE) (gOf s.idx) (startOf s.idx (argDeps args)) π
    s1.store s'.store (l.map toE)
    (by rw [List.map_map]; exact hlmap)
    (by
      intro t ht
      obtain ⟨t0, ht0, rfl⟩ := List.mem_map.mp ht
      exact List.mem_map_of_mem (hlsub t0 ht0))
    hrunA
    (by
      -- definitions outside the list are untouched by the argument writes
      intro t' ht' hnot
      obtain ⟨t, ht, rfl⟩ := List.mem_map.mp ht'
      have hnot' : t.id ∉ π := hnot
      obtain ⟨hpt, hpr⟩ := gs.paths t ht
      refine Q_of_frame (toE t) s.store s1.store (hc t ht) ?_ ?_
      · intro r hr
        refine hreach1.frame r (hpr r hr).2 ?_
        intro w hw
        obtain ⟨a, ha, rfl⟩ := List.mem_map.mp hw
        refine ⟨(gs.argsOK a ha).2, Classical.byContradiction fun hcmp => hnot' ?_⟩
        have := start_of_read_gen s hi gs.exprs (argDeps args) a.1 (hsubdeps a ha) t ht (gs.argsOK a ha).1 r hr
          (hpr r hr).1 hcmp
        exact (memπ t.id).mpr ⟨t.id, this, Dfs3.Reach.refl _⟩
      · refine hreach1.frame t.id hpt.2 ?_
        intro w hw
        obtain ⟨a, ha, rfl⟩ := List.mem_map.mp hw
        exact ⟨(gs.argsOK a ha).2, gs.argsFree a ha t ht⟩)
    hvs.nodup memπ
    (by
      intro u w hu hw hne
      obtain ⟨s0, hs0, hr0⟩ := (memπ u).mp hu
      exact hvs.order u w hu ((memπ w).mpr ⟨s0, hs0, hr0.tail hw⟩) hw hne)
    (by
      intro u' hu' t' ht' hex
      obtain ⟨u, hu, rfl⟩ := List.mem_map.mp hu'
      obtain ⟨t, ht, rfl⟩ := List.mem_map.mp ht'
      obtain ⟨r, hr, hcmp⟩ := hex
      exact edge_of_read s hi gs.exprs u t hu ht (gs.paths u hu).1.1 r hr ((gs.paths t ht).2 r hr).1 hcmp)
    (by
      intro x hx
      have : x ∈ l.map (·.id) := by rw [hlmap]; exact hx
      obtain ⟨t, ht, rfl⟩ := List.mem_map.mp this
      exact ⟨toE t, List.mem_map_of_mem ht, rfl⟩)
    (by
      intro t' ht' u' hu' hne
      obtain ⟨t, ht, rfl⟩ := List.mem_map.mp ht'
      obtain ⟨u, hu, rfl⟩ := List.mem_map.mp hu'
      exact gs.h2 t ht u hu hne)
    (by
      intro t' ht' u' hu' he
      obtain ⟨t, ht, rfl⟩ := List.mem_map.mp ht'
      obtain ⟨u, hu, rfl⟩ := List.mem_map.mp hu'
      rw [eq_of_id_eq s.defs hi.ids t ht u hu he])
    (by
      intro t' ht'
      obtain ⟨t, ht, rfl⟩ := List.mem_map.mp ht'
      exact ⟨(gs.paths t ht).1.2, fun r hr => ⟨((gs.paths t ht).2 r hr).2, gs.h3 t ht r hr⟩⟩)
  have hreach2 : Reach (args.map (·.1) ++ π) s1.store s'.store := by
    refine runTasks_reach _ l s1 s' hnf1 ?_ hrun
    intro t ht
    exact ⟨hexl t ht, List.mem_append.mpr (Or.inr (by rw [← hlmap]; exact List.mem_map_of_mem ht))⟩
  refine ⟨?_, by rw [hgd, hd1], by rw [hgi, hi1], ?_, ?_⟩
  · intro t ht
    rw [hgd, hd1] at ht
    exact key (toE t) (List.mem_map_of_mem ht)
  · exact (hreach1.mono (fun w hw => List.mem_append.mpr (Or.inl hw))).trans hreach2
  · intro a ha
    have : get s'.store a.1 = get s1.store a.1 := by
      have := runTasks_frame l s1 a.1 (gs.argsOK a ha).2 (fun t ht =>
        ⟨hexl t ht, (gs.paths t (hlsub t ht)).1.2, incomparable_symm' (gs.argsFree a ha t (hlsub t ht))⟩)
      rw [hrun] at this
      exact this
    rw [this]
    exact hvals1 a ha

/-! ### the manager, one argument after the other -/

/-- `ref_i._owner[key_i] = value_i` for each argument in turn -/
def assignAll (sched : Sched) : MState → List (Path × Val) → Res
  | s, [] => (s, none)
  | s, (p, v) :: rest =>
    match setValue sched s p v with
    | (s1, some x) => (s1, some x)
    | (s1, none) => assignAll sched s1 rest

theorem not_incomparable_self : ∀ p : Path, ¬ Incomparable p p
  | [] => by simp [Incomparable]
  | s :: p => by simp [Incomparable, not_incomparable_self p]

/-- the invariant carried along the sequence of assignments -/
structure SeqInv (s : MState) (args : List (Path × Val)) (T : List Path) (done : List (Path × Val)) (st : MState) : Prop where
  inv : MInv st
  cons : Consistent st
  defs : st.defs = s.defs
  idx : st.idx = s.idx
  nofault : st.faultIn = none
  reach : Reach (args.map (·.1) ++ T) s.store st.store
  vals : ∀ a ∈ done, get st.store a.1 = .ok a.2

theorem assignAll_facts (sched : Sched) (s : MState) (args : List (Path × Val)) (T : List Path) (gs : GenScope s args)
    (hT : ∀ x, (∃ s0 ∈ startOf s.idx (argDeps args), Dfs3.Reach (gOf s.idx) s0 x) → x ∈ T)
    (hvs : ∀ a ∈ args, ValidSched (gOf s.idx) (findTaskids s.idx (chainR a.1)) (sched (findTaskids s.idx (chainR a.1)))) :
    ∀ (todo done : List (Path × Val)) (st s' : MState), (∀ a ∈ todo, a ∈ args) → (∀ a ∈ done, a ∈ args) →
      (∀ a ∈ todo, ∀ b ∈ done, a.1 ≠ b.1) → (todo.map (·.1)).Nodup →
      SeqInv s args T done st → assignAll sched st todo = (s', none) → SeqInv s args T (done ++ todo) s'
  | [], done, st, s', _, _, _, _, hinv, h => by
    simp only [assignAll] at h
    have := (Prod.mk.inj h).1
    subst this
    simpa using hinv
  | (p, v) :: rest, done, st, s', htodo, hdone, hdisj, hnd, hinv, h => by
    have hpa : (p, v) ∈ args := htodo _ (List.mem_cons_self ..)
    have hn : p ∉ rest.map (·.1) ∧ (rest.map (·.1)).Nodup := by simpa using hnd
    simp only [assignAll] at h
    cases hsv : setValue sched st p v with
    | mk s1 x =>
      cases x with
      | some x => simp [hsv] at h
      | none =>
        simp only [hsv] at h
        -- no definition sits at an argument location
        have hnodef : lookDef st.defs p = none := by
          cases hl : lookDef st.defs p with
          | none => rfl
          | some t =>
            have ht : t ∈ s.defs := by rw [← hinv.defs]; exact lookDef_mem hl
            have := gs.argsFree (p, v) hpa t ht
            rw [lookDef_id hl] at this
            exact absurd this (not_incomparable_self p)
        have hpre : preState st p = st := by unfold preState; rw [hnodef]
        have sc : Scope (preState st p) p := by
          rw [hpre]
          exact
            { exprs := by rw [ExprDefs, hinv.defs]; exact gs.exprs
              pathP := gs.argsOK (p, v) hpa
              paths := by rw [hinv.defs]; exact gs.paths
              acyclic := by
                rw [hinv.idx]
                intro a b ha
                obtain ⟨s0, hs0, hr⟩ := ha
                refine gs.acyclic a b ⟨s0, startOf_mono s.idx (chainR p) (argDeps args) ?_ s0 hs0, hr⟩
                intro d hd
                exact List.mem_flatMap.mpr ⟨(p, v), hpa, hd⟩
              h2 := by rw [hinv.defs]; exact gs.h2
              h2p := by
                rw [hinv.defs]
                intro t ht _
                exact gs.argsFree (p, v) hpa t ht
              h3 := by rw [hinv.defs]; exact gs.h3
              nofault := hinv.nofault }
        have hvs' : ValidSched (gOf (preState st p).idx) (findTaskids (preState st p).idx (chainR p))
            (sched (findTaskids (preState st p).idx (chainR p))) := by
          rw [hpre, hinv.idx]; exact hvs (p, v) hpa
        obtain ⟨hc1, hi1, hnf1⟩ := setValue_consistent sched st p v hinv.inv hinv.cons sc hvs' s1 hsv
        have hw := setValue_eq sched st p v s1 hsv
        rw [hpre] at hw
        have hg := writeAndRun_graph sched st p v
        rw [hw] at hg
        obtain ⟨hgi, hgd, _⟩ := hg
        have hreach := writeAndRun_reach sched st p v hinv.nofault (by rw [ExprDefs, hinv.defs]; exact gs.exprs) s1 hw
        -- everything written is an argument location or a triggered target
        obtain ⟨_, hmemp⟩ := findTaskids_once_exact st hinv.inv (chainR p)
        have hsubT : ∀ w ∈ p :: sched (findTaskids st.idx (chainR p)), w ∈ args.map (·.1) ++ T := by
          intro w hw'
          rcases List.mem_cons.mp hw' with rfl | hw'
          · exact List.mem_append.mpr (Or.inl (List.mem_map.mpr ⟨(w, v), hpa, rfl⟩))
          · refine List.mem_append.mpr (Or.inr (hT w ?_))
            have hvsm := (hvs' ).mem w
            rw [hpre] at hvsm
            obtain ⟨s0, hs0, hr⟩ := (hmemp w).mp (hvsm.mp hw')
            rw [hinv.idx] at hs0 hr
            refine ⟨s0, startOf_mono s.idx (chainR p) (argDeps args) ?_ s0 hs0, hr⟩
            intro d hd
            exact List.mem_flatMap.mpr ⟨(p, v), hpa, hd⟩
        -- the triggered tasks of this step, for the frame argument
        have hπdefs : ∀ w ∈ sched (findTaskids st.idx (chainR p)), ∃ t ∈ s.defs, t.id = w := by
          intro w hw'
          have hvsm := (hvs').mem w
          rw [hpre] at hvsm
          have := (hmemp w).mp (hvsm.mp hw')
          obtain ⟨s0, hs0, hr⟩ := this
          have hwin : w ∈ st.defs.map (·.id) := by
            cases hr with
            | refl => exact startOf_sub st hinv.inv (chainR p) _ hs0
            | step hab hbc =>
              -- any vertex reached through an edge is a registered task
              have : ∀ {a b}, Dfs3.Reach (gOf st.idx) a b → a ∈ st.defs.map (·.id) → b ∈ st.defs.map (·.id) := by
                intro a b r
                induction r with
                | refl => exact id
                | step hab' _ ih => intro _; exact ih (gOf_closed st hinv.inv _ _ hab')
              exact this (Dfs3.Reach.step hab hbc) (startOf_sub st hinv.inv (chainR p) _ hs0)
          obtain ⟨t, ht, hte⟩ := List.mem_map.mp hwin
          exact ⟨t, by rw [← hinv.defs]; exact ht, hte⟩
        have frame : ∀ q, canonPath q → Incomparable p q → (∀ t ∈ s.defs, Incomparable t.id q) →
            get s1.store q = get st.store q := by
          intro q hq hpq htq
          refine hreach.frame q hq ?_
          intro w hw'
          rcases List.mem_cons.mp hw' with rfl | hw'
          · exact ⟨(gs.argsOK (w, v) hpa).2, hpq⟩
          · obtain ⟨t, ht, rfl⟩ := hπdefs w hw'
            exact ⟨(gs.paths t ht).1.2, htq t ht⟩
        have hinv1 : SeqInv s args T (done ++ [(p, v)]) s1 :=
          { inv := hi1, cons := hc1, defs := by rw [hgd, hinv.defs], idx := by rw [hgi, hinv.idx], nofault := hnf1
            reach := hinv.reach.trans (hreach.mono hsubT)
            vals := by
              intro a ha
              rcases List.mem_append.mp ha with ha | ha
              · -- an earlier argument: not touched by this step
                have haa := hdone a ha
                have hne : p ≠ a.1 := hdisj (p, v) (List.mem_cons_self ..) a ha
                rw [frame a.1 (gs.argsOK a haa).2 (gs.argsInc (p, v) hpa a haa hne)
                  (fun t ht => incomparable_symm' (gs.argsFree a haa t ht))]
                exact hinv.vals a ha
              · simp only [List.mem_singleton] at ha
                subst ha
                -- this argument: written, then only targets are written
                obtain ⟨x, hx⟩ : ∃ sw, writeRef st p v = (sw, none) ∧ True := by
                  unfold writeAndRun at hw
                  cases hwr : writeRef st p v with
                  | mk sw x =>
                    cases x with
                    | some x => simp [hwr] at hw
                    | none => exact ⟨sw, rfl, trivial⟩
                obtain ⟨hset, _⟩ := writeRef_nofault st p v hinv.nofault x hx.1
                -- value at p after the whole step = value right after the write
                have hfin : get s1.store p = .ok v := by
                  have hreach2 : Reach (sched (findTaskids st.idx (chainR p))) x.store s1.store := by
                    unfold writeAndRun at hw
                    simp only [hx.1] at hw
                    obtain ⟨_, hnfw, hdw, hiw, _⟩ := writeRef_nofault st p v hinv.nofault x hx.1
                    rw [hiw, hdw] at hw
                    generalize hm : List.mapM (lookTask st.defs) (sched (findTaskids st.idx (chainR p))) = res at hw
                    cases res with
                    | error e => simp at hw
                    | ok l =>
                      simp only at hw
                      obtain ⟨hlmap, hlsub⟩ := mapM_lookDef st.defs _ (lookTask_ok st.defs) _ l hm
                      refine runTasks_reach _ l x s1 hnfw ?_ hw
                      intro t ht
                      obtain ⟨e, he, _⟩ := gs.exprs t (by rw [← hinv.defs]; exact hlsub t ht)
                      exact ⟨⟨e, he⟩, by rw [← hlmap]; exact List.mem_map_of_mem ht⟩
                  have := hreach2.frame p (gs.argsOK (p, v) hpa).2 (by
                    intro w hw'
                    obtain ⟨t, ht, rfl⟩ := hπdefs w hw'
                    exact ⟨(gs.paths t ht).1.2, incomparable_symm' (gs.argsFree (p, v) hpa t ht)⟩)
                  rw [this]
                  exact get_set_same hset
                exact hfin }
        have := assignAll_facts sched s args T gs hT hvs rest (done ++ [(p, v)]) s1 s'
          (fun a ha => htodo a (List.mem_cons_of_mem _ ha))
          (by
            intro a ha
            rcases List.mem_append.mp ha with ha | ha
            · exact hdone a ha
            · simp only [List.mem_singleton] at ha; subst ha; exact hpa)
          (by
            intro a ha b hb
            rcases List.mem_append.mp hb with hb | hb
            · exact hdisj a (List.mem_cons_of_mem _ ha) b hb
            · simp only [List.mem_singleton] at hb
              subst hb
              intro e
              have e' : a.1 = p := e
              exact hn.1 (e' ▸ List.mem_map_of_mem ha))
          hn.2 hinv1 h
        simpa [List.append_assoc] using this

/-! ### both end in the same container tree -/

theorem mem_prefix_of_before {α : Type} {π P Q : List α} {a b : α} (hnd : π.Nodup) (h : Dfs3.Before π a b)
    (hs : π = P ++ b :: Q) : a ∈ P := by
  obtain ⟨xs, ys, e, hb⟩ := h
  rw [hs] at e
  rcases List.append_eq_append_iff.mp e with ⟨a', hP, hrest⟩ | ⟨c', hxs, hrest⟩
  · -- xs = P ++ a' : then b :: Q = a' ++ a :: ys, so b occurs again in ys
    exfalso
    cases a' with
    | nil =>
      simp only [List.nil_append, List.cons.injEq] at hrest
      obtain ⟨rfl, rfl⟩ := hrest
      rw [hs] at hnd
      have := (List.nodup_append.mp hnd).2.1
      exact (List.nodup_cons.mp this).1 hb
    | cons c a'' =>
      simp only [List.cons_append, List.cons.injEq] at hrest
      obtain ⟨rfl, rfl⟩ := hrest
      rw [hs] at hnd
      have := (List.nodup_append.mp hnd).2.1
      exact (List.nodup_cons.mp this).1 (by simp [hb])
  · cases c' with
    | nil =>
      exfalso
      simp only [List.nil_append, List.cons.injEq] at hrest
      obtain ⟨rfl, rfl⟩ := hrest
      rw [hs] at hnd
      have := (List.nodup_append.mp hnd).2.1
      exact (List.nodup_cons.mp this).1 hb
    | cons c c'' =>
      simp only [List.cons_append, List.cons.injEq] at hrest
      obtain ⟨rfl, _⟩ := hrest
      rw [hxs]; simp

/-- values at the targets agree, going along a list in which every read is either already known to agree or lies
    inside the target of an earlier member -/
theorem unique_along (sem : Sem) (σ σ' : Val) : ∀ (todo done : List ETask),
    (∀ u ∈ done, get σ u.target = get σ' u.target) →
    (∀ pre t post, todo = pre ++ t :: post → ∀ r ∈ leafRefs t.expr,
      get σ r = get σ' r ∨ ∃ u, (u ∈ done ∨ u ∈ pre) ∧ ∃ q, r = u.target ++ q) →
    (∀ t ∈ todo, (exprSys sem).Q t σ) → (∀ t ∈ todo, (exprSys sem).Q t σ') →
    ∀ t ∈ todo, get σ t.target = get σ' t.target
  | [], _, _, _, _, _, t, ht => by cases ht
  | t :: rest, done, hdone, hreads, hq, hq', x, hx => by
    have ht : get σ t.target = get σ' t.target := by
      obtain ⟨w, hev, hget⟩ := hq t (List.mem_cons_self ..)
      obtain ⟨w', hev', hget'⟩ := hq' t (List.mem_cons_self ..)
      have hr : ∀ r ∈ leafRefs t.expr, get σ r = get σ' r := by
        intro r hr
        rcases hreads [] t rest rfl r hr with h | ⟨u, hu, q, rfl⟩
        · exact h
        · rcases hu with hu | hu
          · rw [Unique.get_append, Unique.get_append, hdone u hu]
          · cases hu
      have := eval_frame sem σ σ' t.expr hr
      rw [hev, hev'] at this
      rw [hget, hget', Except.ok.inj this]
    rcases List.mem_cons.mp hx with rfl | hx
    · exact ht
    · refine unique_along sem σ σ' rest (done ++ [t]) ?_ ?_ (fun u hu => hq u (List.mem_cons_of_mem _ hu))
        (fun u hu => hq' u (List.mem_cons_of_mem _ hu)) x hx
      · intro u hu
        rcases List.mem_append.mp hu with h | h
        · exact hdone u h
        · simp only [List.mem_singleton] at h; subst h; exact ht
      · intro pre t' post hsplit r hr
        rcases hreads (t :: pre) t' post (by rw [hsplit]; rfl) r hr with h | ⟨u, hu, hq⟩
        · exact Or.inl h
        · refine Or.inr ⟨u, ?_, hq⟩
          rcases hu with hu | hu
          · exact Or.inl (List.mem_append.mpr (Or.inl hu))
          · rcases List.mem_cons.mp hu with rfl | hu
            · exact Or.inl (List.mem_append.mpr (Or.inr (List.mem_singleton.mpr rfl)))
            · exact Or.inr hu

theorem not_incomparable_append : ∀ (w q : Path), w ≠ [] → ¬ Incomparable w (w ++ q)
  | [], _, h => absurd rfl h
  | [s], q, _ => by cases q <;> simp [Incomparable]
  | s :: t :: w, q, _ => by
    have ih := not_incomparable_append (t :: w) q (by simp)
    simp only [List.cons_append, Incomparable, ne_eq, not_true_eq_false, false_or] at ih ⊢
    exact ih

/-- **C13 on the executable manager**: the generated function and the manager's own sequence of assignments end
    with the same container tree, the same definitions and the same indices. -/
theorem execGen_equiv_assignAll (schedG schedS : Sched) (s : MState) (args : List (Path × Val)) (hi : MInv s)
    (hc : Consistent s) (gs : GenScope s args)
    (hvsG : ValidSched (gOf s.idx) (findTaskids s.idx (argDeps args)) (schedG (findTaskids s.idx (argDeps args))))
    (hvsS : ∀ a ∈ args, ValidSched (gOf s.idx) (findTaskids s.idx (chainR a.1)) (schedS (findTaskids s.idx (chainR a.1))))
    (sG : MState) (hG : execGen schedG s args = (sG, none))
    (sS : MState) (hS : assignAll schedS s args = (sS, none)) :
    sG.store = sS.store ∧ sG.defs = sS.defs ∧ sG.idx = sS.idx := by
  obtain ⟨_, hmem, _⟩ := findTaskids_spec s hi (argDeps args) gs.acyclic
  obtain ⟨hcG, hdG, hiG, hrG, hvG⟩ := execGen_facts schedG s args hi hc gs hvsG sG hG
  -- the tasks the generated function lists, in its order
  obtain ⟨s1, l, hassign, hm, _⟩ := execGen_unfold schedG s args sG hG
  obtain ⟨_, _, hd1, hi1, _⟩ := assign_spec args s s1 gs.nofault hassign
  rw [hd1, hi1] at hm
  obtain ⟨hlmap, hlsub⟩ := mapM_lookDef s.defs _ (lookTask_ok s.defs) _ l hm
  generalize hT : schedG (findTaskids s.idx (argDeps args)) = T at hvsG hrG hlmap
  have memT : ∀ x, x ∈ T ↔ ∃ s0 ∈ startOf s.idx (argDeps args), Dfs3.Reach (gOf s.idx) s0 x :=
    fun x => (hvsG.mem x).trans (hmem x)
  have hinvS := assignAll_facts schedS s args T gs (fun x hx => (memT x).mpr hx) hvsS args [] s sS
    (fun _ h => h) (by intro a h; cases h) (by intro a _ b hb; cases hb) gs.argsNodup
    { inv := hi, cons := hc, defs := rfl, idx := rfl, nofault := gs.nofault, reach := Reach.refl
      vals := by intro a h; cases h } hS
  simp only [List.nil_append] at hinvS
  refine ⟨?_, by rw [hdG, hinvS.defs], by rw [hiG, hinvS.idx]⟩
  -- both trees are reached by writes to arguments and triggered targets
  have hTdefs : ∀ w ∈ T, ∃ t ∈ l, t.id = w := by
    intro w hw
    have : w ∈ l.map (·.id) := by rw [hlmap]; exact hw
    obtain ⟨t, ht, hte⟩ := List.mem_map.mp this
    exact ⟨t, ht, hte⟩
  have hsubW : ∀ w ∈ args.map (·.1) ++ T, w ∈ famW s args := by
    intro w hw
    unfold famW
    rcases List.mem_append.mp hw with h | h
    · exact List.mem_append.mpr (Or.inl h)
    · obtain ⟨t, ht, rfl⟩ := hTdefs w h
      exact List.mem_append.mpr (Or.inr (List.mem_map_of_mem (hlsub t ht)))
  have hW := famW_family s args hi gs
  have hexW := famW_exist s args hc gs
  -- what is not written keeps its value
  have frameU : ∀ (σ : Val), Reach (args.map (·.1) ++ T) s.store σ → ∀ q, canonPath q →
      (∀ a ∈ args, Incomparable a.1 q) → (∀ t ∈ l, Incomparable t.id q) → get σ q = get s.store q := by
    intro σ hr q hq ha ht
    refine hr.frame q hq ?_
    intro w hw
    rcases List.mem_append.mp hw with h | h
    · obtain ⟨a, haa, rfl⟩ := List.mem_map.mp h
      exact ⟨(gs.argsOK a haa).2, ha a haa⟩
    · obtain ⟨t, htl, rfl⟩ := hTdefs w h
      exact ⟨(gs.paths t (hlsub t htl)).1.2, ht t htl⟩
  -- untriggered definitions keep their value in both
  have untrig : ∀ (σ : Val), Reach (args.map (·.1) ++ T) s.store σ → ∀ u ∈ s.defs, u.id ∉ T →
      get σ u.id = get s.store u.id := by
    intro σ hr u hu hnot
    refine frameU σ hr u.id (gs.paths u hu).1.2 (fun a ha => gs.argsFree a ha u hu) ?_
    intro t ht
    have hne : u.id ≠ t.id := fun e => hnot (by rw [e, ← hlmap]; exact List.mem_map_of_mem ht)
    exact gs.h2 u hu t (hlsub t ht) hne
  -- triggered definitions: uniqueness along the generated order
  have hnodupE : ∀ pre t' post, l.map toE = pre ++ t' :: post → T = pre.map (·.target) ++ t'.target :: post.map (·.target) := by
    intro pre t' post h
    have := congrArg (List.map (·.target)) h
    simp only [List.map_map, List.map_append, List.map_cons] at this
    rw [← hlmap]
    exact this
  have htrig := unique_along pySem sG.store sS.store (l.map toE) []
    (by intro u hu; cases hu)
    (by
      intro pre t' post hsplit r hr
      have ht'mem : t' ∈ l.map toE := by rw [hsplit]; simp
      obtain ⟨t, htl, rfl⟩ := List.mem_map.mp ht'mem
      have ht := hlsub t htl
      obtain ⟨_, hpr⟩ := gs.paths t ht
      -- where does the read come from?
      by_cases hex : ∃ w, ((∃ a ∈ args, w = a.1) ∨ ∃ u ∈ s.defs, w = u.id) ∧ ∃ q, r = w ++ q
      · obtain ⟨w, hw, q, rfl⟩ := hex
        rcases hw with ⟨a, ha, rfl⟩ | ⟨u, hu, rfl⟩
        · -- inside an argument: the value that was assigned
          left
          rw [Unique.get_append, Unique.get_append, hvG a ha, hinvS.vals a ha]
        · by_cases huT : u.id ∈ T
          · -- inside a triggered target: that task comes earlier
            right
            have hune : u.id ≠ [] := by
              intro e; have := (gs.paths u hu).1.1; rw [e] at this; simp at this
            have hcmp : ¬ Incomparable u.id (u.id ++ q) := not_incomparable_append u.id q hune
            have hedge := edge_of_read s hi gs.exprs u t hu ht (gs.paths u hu).1.1 _ hr (hpr _ hr).1 hcmp
            have hne : t.id ≠ u.id := by
              intro e
              have := gs.h3 t ht _ hr
              rw [e] at this
              exact hcmp this
            have htT : t.id ∈ T := by rw [← hlmap]; exact List.mem_map_of_mem htl
            have hbef := hvsG.order u.id t.id huT htT hedge hne
            have hin := mem_prefix_of_before hvsG.nodup hbef (hnodupE pre (toE t) post hsplit)
            obtain ⟨u', hu', hue⟩ := List.mem_map.mp hin
            exact ⟨u', Or.inr hu', q, by rw [hue]⟩
          · left
            rw [Unique.get_append, Unique.get_append, untrig sG.store hrG u hu huT,
              untrig sS.store hinvS.reach u hu huT]
      · -- incomparable with everything that is ever written
        left
        have hinc : ∀ w, ((∃ a ∈ args, w = a.1) ∨ ∃ u ∈ s.defs, w = u.id) → Incomparable w r := by
          intro w hw
          rcases gs.leaf t ht r hr w hw with h | ⟨q, hq⟩
          · exact h
          · exact absurd ⟨w, hw, q, hq⟩ hex
        rw [frameU sG.store hrG r (hpr r hr).2 (fun a ha => hinc a.1 (Or.inl ⟨a, ha, rfl⟩))
              (fun u hu => hinc u.id (Or.inr ⟨u, hlsub u hu, rfl⟩)),
            frameU sS.store hinvS.reach r (hpr r hr).2 (fun a ha => hinc a.1 (Or.inl ⟨a, ha, rfl⟩))
              (fun u hu => hinc u.id (Or.inr ⟨u, hlsub u hu, rfl⟩))])
    (by
      intro t' ht'
      obtain ⟨t, htl, rfl⟩ := List.mem_map.mp ht'
      exact hcG t (by rw [hdG]; exact hlsub t htl))
    (by
      intro t' ht'
      obtain ⟨t, htl, rfl⟩ := List.mem_map.mp ht'
      exact hinvS.cons t (by rw [hinvS.defs]; exact hlsub t htl))
  -- agreement on the whole family, hence equality
  refine Reach.eq_of_agree hW (famW_ne_nil s args gs) (hrG.mono hsubW) (hinvS.reach.mono hsubW) hexW ?_
  intro w hw
  unfold famW at hw
  rcases List.mem_append.mp hw with h | h
  · obtain ⟨a, ha, rfl⟩ := List.mem_map.mp h
    rw [hvG a ha, hinvS.vals a ha]
  · obtain ⟨u, hu, rfl⟩ := List.mem_map.mp h
    by_cases huT : u.id ∈ T
    · obtain ⟨t, htl, hte⟩ := hTdefs u.id huT
      have : t = u := eq_of_id_eq s.defs hi.ids t (hlsub t htl) u hu hte
      subst this
      exact htrig (toE t) (List.mem_map_of_mem htl)
    · rw [untrig sG.store hrG u hu huT, untrig sS.store hinvS.reach u hu huT]

/-! ### the other locations (C01, last clause) -/

/-- after a completed `set_value(ref, value)` in scope the assigned location holds the value, and every location
    that is neither the assigned one nor a definition's target (nor above / below one) holds what it held -/
theorem setValue_other_locations (sched : Sched) (s : MState) (p : Path) (v : Val) (hi : MInv s)
    (sc : Scope (preState s p) p) (s' : MState) (hok : setValue sched s p v = (s', none)) :
    get s'.store p = .ok v ∧
    ∀ q, canonPath q → Incomparable p q → (∀ t ∈ (preState s p).defs, Incomparable t.id q) →
      get s'.store q = get s.store q := by
  have hf : lookDef s.defs p ≠ none → s.frozen = false := by
    intro hne
    cases hl : lookDef s.defs p with
    | none => exact absurd hl hne
    | some t =>
      cases hfz : s.frozen with
      | false => rfl
      | true =>
        rw [setValue_frozen_defined sched s p v t hfz hl] at hok
        cases hok
  obtain ⟨hi0, hst, _, _, hfree, _⟩ := preState_facts s p hi hf
  have hw := setValue_eq sched s p v s' hok
  generalize preState s p = pre at sc hi0 hst hfree hw
  have hreach := writeAndRun_reach sched pre p v sc.nofault sc.exprs s' hw
  -- the triggered ids are definitions
  obtain ⟨_, hmem⟩ := findTaskids_once_exact pre hi0 (chainR p)
  have hπdefs : ∀ w ∈ sched (findTaskids pre.idx (chainR p)), ∃ t ∈ pre.defs, t.id = w := by
    intro w hw'
    unfold writeAndRun at hw
    cases hwr : writeRef pre p v with
    | mk sw x =>
      cases x with
      | some x => simp [hwr] at hw
      | none =>
        simp only [hwr] at hw
        obtain ⟨_, _, hdw, hiw, _⟩ := writeRef_nofault pre p v sc.nofault sw hwr
        rw [hiw, hdw] at hw
        generalize hm : List.mapM (lookTask pre.defs) (sched (findTaskids pre.idx (chainR p))) = res at hw
        cases res with
        | error e => simp at hw
        | ok l =>
          obtain ⟨hlmap, hlsub⟩ := mapM_lookDef pre.defs _ (lookTask_ok pre.defs) _ l hm
          have : w ∈ l.map (·.id) := by rw [hlmap]; exact hw'
          obtain ⟨t, ht, hte⟩ := List.mem_map.mp this
          exact ⟨t, hlsub t ht, hte⟩
  constructor
  · -- the assigned location: written first, then only targets (incomparable with it) are written
    unfold writeAndRun at hw
    cases hwr : writeRef pre p v with
    | mk sw x =>
      cases x with
      | some x => simp [hwr] at hw
      | none =>
        simp only [hwr] at hw
        obtain ⟨hset, hnfw, hdw, hiw, _⟩ := writeRef_nofault pre p v sc.nofault sw hwr
        rw [hiw, hdw] at hw
        generalize hm : List.mapM (lookTask pre.defs) (sched (findTaskids pre.idx (chainR p))) = res at hw
        cases res with
        | error e => simp at hw
        | ok l =>
          simp only at hw
          obtain ⟨hlmap, hlsub⟩ := mapM_lookDef pre.defs _ (lookTask_ok pre.defs) _ l hm
          have := runTasks_frame l sw p sc.pathP.2 (fun t ht => by
            obtain ⟨e, he, _⟩ := sc.exprs t (hlsub t ht)
            have hne : t.id ≠ p := by
              intro e'
              have := lookDef_of_mem pre.defs hi0.ids t (hlsub t ht)
              rw [e', hfree] at this
              cases this
            exact ⟨⟨e, he⟩, (sc.paths t (hlsub t ht)).1.2, Capstone.incomparable_symm (sc.h2p t (hlsub t ht) hne)⟩)
          rw [hw] at this
          rw [this]
          exact get_set_same hset
  · intro q hq hpq htq
    rw [← hst]
    refine hreach.frame q hq ?_
    intro w hw'
    rcases List.mem_cons.mp hw' with rfl | hw'
    · exact ⟨sc.pathP.2, hpq⟩
    · obtain ⟨t, ht, rfl⟩ := hπdefs w hw'
      exact ⟨(sc.paths t ht).1.2, htq t ht⟩

/-! ### the scope, decided -/

theorem isPrefix_sound : ∀ (w r : Path), isPrefix w r = true → ∃ q, r = w ++ q
  | [], r, _ => ⟨r, rfl⟩
  | _ :: _, [], h => by simp [isPrefix] at h
  | a :: w, b :: r, h => by
    simp only [isPrefix, Bool.and_eq_true, decide_eq_true_eq] at h
    obtain ⟨rfl, h2⟩ := h
    obtain ⟨q, rfl⟩ := isPrefix_sound w r h2
    exact ⟨q, rfl⟩

def isOkB {α : Type} : Except Err α → Bool
  | .ok _ => true
  | .error _ => false

/-- `GenScope` as the driver evaluates it -/
def genScopeB (s : MState) (args : List (Path × Val)) : Bool :=
  s.defs.all exprDefB &&
  args.all (fun a => pathOKB a.1) &&
  decide (dedup (args.map (·.1)) = args.map (·.1)) &&
  args.all (fun a => args.all (fun b => decide (a.1 = b.1) || !(comparable a.1 b.1))) &&
  args.all (fun a => s.defs.all (fun t => !(comparable a.1 t.id))) &&
  args.all (fun a => isOkB (get s.store a.1)) &&
  s.defs.all (fun t => pathOKB t.id && (leafRefs (toE t).expr).all pathOKB) &&
  acyclicFrom s.idx (startOf s.idx (argDeps args)) &&
  s.defs.all (fun t => s.defs.all (fun u => decide (t.id = u.id) || !(comparable u.id t.id))) &&
  s.defs.all (fun t => (leafRefs (toE t).expr).all (fun r => !(comparable t.id r))) &&
  s.defs.all (fun t => (leafRefs (toE t).expr).all (fun r =>
    (args.map (·.1) ++ s.defs.map (·.id)).all (fun w => !(comparable w r) || isPrefix w r))) &&
  s.faultIn.isNone

theorem genScopeB_sound (s : MState) (hi : MInv s) (args : List (Path × Val)) (h : genScopeB s args = true) :
    GenScope s args := by
  unfold genScopeB at h
  simp only [Bool.and_eq_true, List.all_eq_true, Bool.or_eq_true, decide_eq_true_eq, Bool.not_eq_eq_eq_not,
    Bool.not_true] at h
  obtain ⟨⟨⟨⟨⟨⟨⟨⟨⟨⟨⟨hex, haok⟩, hnd⟩, hinc⟩, hfree⟩, hexist⟩, hpaths⟩, hac⟩, h2⟩, h3⟩, hleaf⟩, hnf⟩ := h
  refine
    { exprs := ?_, argsOK := fun a ha => pathOKB_sound a.1 (haok a ha), argsNodup := by rw [← hnd]; exact dedup_nodup _,
      argsInc := ?_, argsFree := ?_, argsExist := ?_, paths := ?_,
      acyclic := acyclicFrom_sound s hi (argDeps args) hac, h2 := ?_, h3 := ?_, leaf := ?_, nofault := ?_ }
  · intro t ht
    have := hex t ht
    unfold exprDefB at this
    cases hk : t.kind with
    | expr e =>
      simp only [hk, Bool.and_eq_true, decide_eq_true_eq] at this
      exact ⟨e, rfl, this.1, this.2⟩
    | func b => simp [hk] at this
    | knob a b c => simp [hk] at this
  · intro a ha b hb hne
    rcases hinc a ha b hb with h | h
    · exact absurd h hne
    · exact incomparable_of_not_comparable _ _ h
  · intro a ha t ht
    exact incomparable_of_not_comparable _ _ (hfree a ha t ht)
  · intro a ha
    have := hexist a ha
    cases hg : get s.store a.1 with
    | ok x => exact ⟨x, rfl⟩
    | error e => simp [hg, isOkB] at this
  · intro t ht
    obtain ⟨h1, hr⟩ := hpaths t ht
    exact ⟨pathOKB_sound _ h1, fun r hr' => pathOKB_sound r (hr r hr')⟩
  · intro t ht u hu hne
    rcases h2 t ht u hu with h | h
    · exact absurd h hne
    · exact incomparable_of_not_comparable _ _ h
  · intro t ht r hr
    exact incomparable_of_not_comparable _ _ (h3 t ht r hr)
  · intro t ht r hr w hw
    have hwmem : w ∈ args.map (·.1) ++ s.defs.map (·.id) := by
      rcases hw with ⟨a, ha, rfl⟩ | ⟨u, hu, rfl⟩
      · exact List.mem_append.mpr (Or.inl (List.mem_map_of_mem ha))
      · exact List.mem_append.mpr (Or.inr (List.mem_map_of_mem hu))
    rcases hleaf t ht r hr w hwmem with h | h
    · exact Or.inl (incomparable_of_not_comparable _ _ h)
    · exact Or.inr (isPrefix_sound w r h)
  · cases hf : s.faultIn with
    | none => rfl
    | some k => simp [hf] at hnf

end Manager
