/-! Prototype: nested-inductive expression type, recursive functions through `List`, and a proof by
    structural recursion. -/
namespace ExprT

inductive Expr where
  | lit (i : Int)
  | ref (owner : Option Expr) (key : String) (ckey : Option Expr)   -- owner chain + optional computed key
  | bin (cls : String) (l r : Expr)
  | call (f : Expr) (args : List Expr) (kwargs : List (String × Expr))
deriving Repr

mutual
def leafCount : Expr → Nat
  | .lit _ => 0
  | .ref o _ ck => 1 + (match o with | some e => leafCount e | none => 0) + (match ck with | some e => leafCount e | none => 0)
  | .bin _ l r => leafCount l + leafCount r
  | .call f args kw => leafCount f + leafCountL args + leafCountK kw
def leafCountL : List Expr → Nat
  | [] => 0
  | e :: es => leafCount e + leafCountL es
def leafCountK : List (String × Expr) → Nat
  | [] => 0
  | (_, e) :: es => leafCount e + leafCountK es
end

mutual
def depsN : Expr → Nat
  | .lit _ => 0
  | .ref o _ ck => (match o with | some e => depsN e | none => 0) + (match ck with | some e => depsN e | none => 0) + 1
  | .bin _ l r => depsN l + depsN r
  | .call f args kw => depsN f + depsNL args + depsNK kw
def depsNL : List Expr → Nat
  | [] => 0
  | e :: es => depsN e + depsNL es
def depsNK : List (String × Expr) → Nat
  | [] => 0
  | (_, e) :: es => depsN e + depsNK es
end

mutual
theorem deps_eq : ∀ e : Expr, depsN e = leafCount e
  | .lit _ => by simp [depsN, leafCount]
  | .ref o k ck => by
    cases o <;> cases ck <;> simp [depsN, leafCount, deps_eq] <;> omega
  | .bin _ l r => by simp [depsN, leafCount, deps_eq l, deps_eq r]
  | .call f args kw => by simp [depsN, leafCount, deps_eq f, deps_eqL args, deps_eqK kw]
theorem deps_eqL : ∀ es : List Expr, depsNL es = leafCountL es
  | [] => by simp [depsNL, leafCountL]
  | e :: es => by simp [depsNL, leafCountL, deps_eq e, deps_eqL es]
theorem deps_eqK : ∀ es : List (String × Expr), depsNK es = leafCountK es
  | [] => by simp [depsNK, leafCountK]
  | (_, e) :: es => by simp [depsNK, leafCountK, deps_eq e, deps_eqK es]
end

#print axioms deps_eq
end ExprT
